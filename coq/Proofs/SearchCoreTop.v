(** C01: the top-level theorem: indexData.Search without limits returns exactly the live documents on which the query
    evaluates to true, in document order. *)
From ZV Require Import Lib.Base Model.SearchCore Proofs.SearchCoreText Proofs.SearchCoreTree Proofs.SearchCoreLoop
  Proofs.SearchCoreSelect Proofs.SearchCoreBuild Proofs.SearchCoreSimp Proofs.SearchCoreWord Proofs.SearchCoreSym.
From Coq Require Import ZifyBool.

Section Top.
Variable re_match : N -> list N -> bool.
Variable tolower : N -> N.
Variable orbit : N -> list N.
Variable c : corpus.
Variable freq : bool -> bool -> tri -> N.
Hypothesis Hagree : agree tolower orbit.
Hypothesis Hfreq : forall fn cs g, freq fn cs g = 0%N -> post orbit (ix_tris c fn) cs g = [].

Definition search_body (q1 : Q) : list nat :=
  match prune (build orbit c freq (expand q1)) with
  | None => []
  | Some t => loop re_match tolower c (S (ndocs c)) t None
  end.
Lemma search_unfold : forall q, search re_match tolower orbit c freq q =
  match simp c q with QConst false => [] | _ => search_body (simp c q) end.
Proof. intro q. unfold search, search_body. destruct (simp c q); try reflexivity. destruct b; reflexivity. Qed.

Lemma spec_ext : forall (f : nat -> bool) q,
  (forall k, k < ndocs c -> live_at c k = true -> f k = eval re_match tolower c q (doc_at c k)) ->
  filter (fun k => live_at c k && f k) (seq 0 (ndocs c)) = spec_search re_match tolower c q.
Proof.
  intros f q H. unfold spec_search, all_ids. apply filter_ext_in. intros k Hk. apply in_seq in Hk.
  unfold live_at in *. destruct (live c (doc_at c k)) eqn:E; [|reflexivity]. simpl. apply H; [unfold ndocs; lia | exact E].
Qed.

Theorem search_exact : forall q,
  re_ok re_match tolower orbit c freq (expand (simp c q)) ->
  search re_match tolower orbit c freq q = spec_search re_match tolower c q.
Proof.
  intros q Hre. rewrite search_unfold.
  assert (Hsimp : forall k, live_at c k = true ->
            eval re_match tolower c (expand (simp c q)) (doc_at c k) = eval re_match tolower c q (doc_at c k)).
  { intros k Hl. rewrite expand_eval. apply simp_eval. exact Hl. }
  assert (Hbody : search_body (simp c q) = spec_search re_match tolower c q).
  { unfold search_body.
    pose proof (build_spec re_match tolower orbit c freq Hagree Hfreq (expand (simp c q)) (expand_buildable (simp c q) (simp_nb c q)) Hre) as [B1 [B2 B3]].
    pose proof (prune_spec re_match tolower orbit c (build orbit c freq (expand (simp c q))) B1 B2) as Hp. unfold prune_ok in Hp.
    destruct (prune (build orbit c freq (expand (simp c q)))) as [t|].
    - destruct Hp as [P1 [_ [P3 _]]].
      rewrite (loop_exact re_match tolower orbit c Hagree (S (ndocs c)) t None P1 ltac:(simpl; lia) ltac:(simpl; lia)).
      simpl cursor_next. rewrite Nat.sub_0_r. apply spec_ext. intros k Hk Hl. rewrite P3 by auto. rewrite B3 by auto. apply Hsimp; auto.
    - rewrite <- (spec_ext (fun _ => false) q); [symmetry; apply filter_all_false; intros; apply andb_false_r|].
      intros k Hk Hl. rewrite <- Hsimp by auto. rewrite <- B3 by auto. symmetry. apply Hp. auto. }
  destruct (simp c q) eqn:Es; try exact Hbody. destruct b; [exact Hbody|].
  rewrite <- (spec_ext (fun _ => false) q); [symmetry; apply filter_all_false; intros; apply andb_false_r|].
  intros k Hk Hl. rewrite <- (simp_eval re_match tolower c q (doc_at c k) Hl). rewrite Es. reflexivity.
Qed.

(** the executable obligation implies the one used by the proof *)
Lemma re_okb_sound : forall q, re_okb re_match tolower orbit c freq q = true -> re_ok re_match tolower orbit c freq q.
Proof.
  induction q using Q_ind'; intro Hb.
  - simpl in Hb. apply (proj2 (re_ok_list _ _ _ _ _ _)). rewrite forallb_forall in Hb. rewrite Forall_forall in *. auto.
  - simpl in Hb. apply (proj2 (re_ok_list _ _ _ _ _ _)). rewrite forallb_forall in Hb. rewrite Forall_forall in *. auto.
  - simpl in *. auto. - simpl in *. auto. - simpl in *. auto. - simpl in *. auto.
  - destruct q; try contradiction; try exact I.
    3:{ (* Symbol{Regexp} *)
      cbn [re_okb] in Hb. cbn [re_ok]. intros k Hk.
      destruct (distill orbit c freq cs false r) as [[sub isEq] sl].
      rewrite forallb_forall in Hb. specialize (Hb k ltac:(apply in_seq; lia)). cbv zeta in Hb.
      apply andb_true_iff in Hb. destruct Hb as [Hs Hb]. cbv zeta. split; [apply secs_okb_ok; exact Hs|].
      destruct isEq; [|exact I]. destruct sub; try exact I.
      intros sec Hsec. rewrite forallb_forall in Hb. specialize (Hb sec Hsec).
      apply andb_true_iff in Hb. destruct Hb as [_ Hb]. apply eqb_prop in Hb. exact Hb. }
    2:{ (* Symbol{Substring} *)
      cbn [re_okb] in Hb. cbn [re_ok]. intros k Hk.
      rewrite forallb_forall in Hb. apply secs_okb_ok. apply Hb. apply in_seq. lia. }
    cbn [re_okb] in Hb. cbn [re_ok]. intros k Hk.
    pose proof (distill_spec re_match tolower orbit c freq Hagree Hfreq cs fn r) as Hd.
    destruct (distill orbit c freq cs fn r) as [[sub isEq] sl]. simpl in Hd. destruct Hd as [D1 _].
    rewrite forallb_forall in Hb. specialize (Hb k ltac:(apply in_seq; lia)). cbv zeta in Hb.
    destruct (accept_sem re_match tolower orbit c Hagree None k sub I Hk D1) as [Hacc _]. rewrite Hacc in Hb.
    cbv zeta. destruct isEq.
    + apply eqb_prop in Hb. exact Hb.
    + apply andb_true_iff in Hb. destruct Hb as [Hb1 Hb2]. split.
      * intro Hre. rewrite Hre in Hb1. exact Hb1.
      * destruct (word_of r topfold cs) as [w|]; [|exact I]. apply andb_true_iff in Hb2. destruct Hb2 as [Hw He].
        apply eqb_prop in He. rewrite He. symmetry. apply word_found_ref. lia.
Qed.

Theorem search_exact_checked : forall q,
  re_okb re_match tolower orbit c freq (expand (simp c q)) = true ->
  search re_match tolower orbit c freq q = spec_search re_match tolower c q.
Proof. intros q H. apply search_exact. apply re_okb_sound. exact H. Qed.
End Top.
