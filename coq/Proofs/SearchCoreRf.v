(** C01: for queries without regexp atoms the top-level theorem needs no obligation on the regexp engine. *)
From ZV Require Import Lib.Base Model.SearchCore Proofs.SearchCoreText Proofs.SearchCoreBuild Proofs.SearchCoreSimp Proofs.SearchCoreTop.

Fixpoint rfree (q : Q) : bool :=
  match q with
  | QRegexp _ _ _ _ _ _ => false
  | QSymRegexp _ _ _ _ => false
  | QAnd l => forallb rfree l
  | QOr l => forallb rfree l
  | QNot q' => rfree q'
  | QTypeFileName q' => rfree q'
  | QTypeOther q' => rfree q'
  | QBoost q' => rfree q'
  | _ => true
  end.

Section Rf.
Variable re_match : N -> list N -> bool.
Variable tolower : N -> N.
Variable orbit : N -> list N.
Variable c : corpus.
Variable freq : bool -> bool -> tri -> N.

(** the symbol sections of every document are sorted, non-overlapping and inside the content (what ShardBuilder.Add enforces) *)
Definition secs_wf : Prop :=
  forall k, k < ndocs c -> secs_okb (length (text_of c false k)) (d_secs (doc_at c k)) = true.

Lemma rfree_ok : secs_wf -> forall q, rfree q = true -> re_okb re_match tolower orbit c freq q = true.
Proof.
  intro Hsecs. induction q using Q_ind'; intro H0; simpl in *; auto.
  - rewrite forallb_forall in *. rewrite Forall_forall in H. auto.
  - rewrite forallb_forall in *. rewrite Forall_forall in H. auto.
  - destruct q; try contradiction; auto; try discriminate.
    cbn [re_okb]. apply forallb_forall. intros k Hk. apply in_seq in Hk. apply Hsecs. lia.
Qed.

Lemma rfree_simp : forall q, rfree q = true -> rfree (simp c q) = true.
Proof.
  induction q using Q_ind'; intro H0.
  - cbn [simp]. simpl in H0. rewrite forallb_forall in H0. rewrite Forall_forall in H.
    destruct (existsb _ (map (simp c) l)); [reflexivity|].
    assert (Hf : forallb rfree (filter (fun x => match is_const x with Some true => false | _ => true end) (map (simp c) l)) = true).
    { apply forallb_forall. intros x Hx. apply filter_In in Hx. destruct Hx as [Hx _]. apply in_map_iff in Hx. destruct Hx as [y [<- Hy]]. auto. }
    destruct (filter _ (map (simp c) l)); [reflexivity | exact Hf].
  - cbn [simp]. simpl in H0. rewrite forallb_forall in H0. rewrite Forall_forall in H.
    destruct (existsb _ (map (simp c) l)); [reflexivity|].
    assert (Hf : forallb rfree (filter (fun x => match is_const x with Some false => false | _ => true end) (map (simp c) l)) = true).
    { apply forallb_forall. intros x Hx. apply filter_In in Hx. destruct Hx as [Hx _]. apply in_map_iff in Hx. destruct Hx as [y [<- Hy]]. auto. }
    destruct (filter _ (map (simp c) l)); [reflexivity | exact Hf].
  - cbn [simp]. simpl in H0. specialize (IHq H0). destruct (simp c q); simpl in *; auto.
  - cbn [simp]. simpl in H0. specialize (IHq H0). destruct (simp c q); simpl in *; auto.
  - cbn [simp]. simpl in H0. specialize (IHq H0). destruct (simp c q); simpl in *; auto.
  - cbn [simp]. simpl in H0. specialize (IHq H0). destruct (simp c q); simpl in *; auto.
  - destruct q; try contradiction; try discriminate.
    + destruct p; reflexivity.
    + reflexivity.
    + destruct p; [destruct exact|]; reflexivity.
    + cbn [simp simp_atom]. destruct (multi_repo_cases c (QRepoTbl want) (fun i _ => nth i want false)) as [E|[E|E]]; rewrite E; reflexivity.
    + cbn [simp simp_atom].
      destruct (multi_repo_cases c (QRepoSet names) (fun _ r => mem_runes (r_name r) names)) as [E|[E|E]]; rewrite E; reflexivity.
    + cbn [simp simp_atom].
      destruct (multi_repo_cases c (QRepoIDs ids) (fun _ r => memN (r_id r) ids)) as [E|[E|E]]; rewrite E; reflexivity.
    + cbn [simp simp_atom]. destruct (multi_repo_cases c (QRawConfig m) (fun _ r => (N.land m (r_rawmask r) =? m)%N)) as [E|[E|E]]; rewrite E; reflexivity.
    + cbn [simp simp_atom]. destruct (existsb _ (c_repos c)); [|reflexivity]. destruct (forallb _ l); reflexivity.
    + cbn [simp simp_atom]. destruct (lang_code c name); reflexivity.
    + destruct names; reflexivity.
    + reflexivity.
Qed.

Lemma rfree_expand : forall q, rfree q = true -> rfree (expand q) = true.
Proof.
  induction q using Q_ind'; intro H0; simpl in *; auto.
  - rewrite forallb_map_eq. rewrite forallb_forall in *. rewrite Forall_forall in H. auto.
  - rewrite forallb_map_eq. rewrite forallb_forall in *. rewrite Forall_forall in H. auto.
  - destruct q; try contradiction; try discriminate; auto. cbn [expand]. destruct (Bool.eqb fn ct); reflexivity.
Qed.

Hypothesis Hagree : agree tolower orbit.
Hypothesis Hfreq : forall fn cs g, freq fn cs g = 0%N -> post orbit (ix_tris c fn) cs g = [].
Theorem search_exact_rfree : secs_wf -> forall q, rfree q = true ->
  search re_match tolower orbit c freq q = spec_search re_match tolower c q.
Proof.
  intros Hsecs q H. apply (search_exact_checked re_match tolower orbit c freq Hagree Hfreq).
  apply rfree_ok; [exact Hsecs|]. apply rfree_expand. apply rfree_simp. exact H.
Qed.
End Rf.
