(** Proofs about Model/Watcher.v *)
From ZV Require Import Lib.Base Model.Watcher.

(** ---- basic reflection lemmas *)
Lemma list_eqb_N_eq (a b : list N) : list_eqb N.eqb a b = true <-> a = b.
Proof.
  revert b. induction a as [|x a IH]; intros [|y b]; simpl; split; intros H; try reflexivity; try discriminate.
  - apply andb_true_iff in H. destruct H as [H1 H2]. apply N.eqb_eq in H1. apply IH in H2. congruence.
  - inversion H; subst. rewrite N.eqb_refl. simpl. apply IH. reflexivity.
Qed.
Lemma path_eqb_eq (a b : path) : path_eqb a b = true <-> a = b.
Proof. apply list_eqb_N_eq. Qed.
Lemma path_eqb_refl (a : path) : path_eqb a a = true.
Proof. apply path_eqb_eq. reflexivity. Qed.
Lemma path_eqb_neq (a b : path) : path_eqb a b = false <-> a <> b.
Proof.
  split.
  - intros H E. apply path_eqb_eq in E. congruence.
  - intros H. destruct (path_eqb a b) eqn:E; [|reflexivity]. apply path_eqb_eq in E. contradiction.
Qed.
Lemma path_eqb_sym (a b : path) : path_eqb a b = path_eqb b a.
Proof.
  destruct (path_eqb a b) eqn:E.
  - apply path_eqb_eq in E. subst. symmetry. apply path_eqb_refl.
  - symmetry. apply path_eqb_neq. apply path_eqb_neq in E. congruence.
Qed.

(** ---- versionFromPath and scan never panic *)
Definition vfp (p : path) : path * Z :=
  match version_from_path p with Ok r => r | _ => (p, 0%Z) end.

Lemma version_from_path_ok (p : path) : version_from_path p = Ok (vfp p).
Proof.
  unfold vfp, version_from_path.
  destruct (last_index_byte c_und p) as [und|]; [|reflexivity].
  destruct (index_byte c_dot (skipn und p)) as [d|]; [|reflexivity].
  destruct (d + und <? und + 2); [reflexivity|].
  destruct (atoi (slice p (und + 2) (d + und))); reflexivity.
Qed.

Lemma map_outcome_ok {A B} (f : A -> outcome B) (g : A -> B) (l : list A) :
  (forall x, f x = Ok (g x)) -> map_outcome f l = Ok (map g l).
Proof.
  intros H. induction l as [|x l IH]; simpl; [reflexivity|]. rewrite H. simpl. rewrite IH. reflexivity.
Qed.

Definition nv (e : fent) : path * Z := vfp (f_path e).
Definition sel_pure (cur next : Z) (L : list fent) : list fent :=
  filter (fun e => Z.eqb (latest_of cur next (map nv (globbed L)) (fst (nv e))) (snd (nv e))) (globbed L).

Lemma filter_combine_map {A B} (g : A -> B) (P : A * B -> bool) (l : list A) :
  map fst (filter P (combine l (map g l))) = filter (fun x => P (x, g x)) l.
Proof.
  induction l as [|x l IH]; simpl; [reflexivity|].
  destruct (P (x, g x)); simpl; rewrite IH; reflexivity.
Qed.

Lemma selected_ok (cur next : Z) (L : list fent) : selected cur next L = Ok (sel_pure cur next L).
Proof.
  unfold selected. rewrite (map_outcome_ok _ nv); [|intros x; apply version_from_path_ok].
  simpl. f_equal. unfold sel_pure.
  rewrite (filter_combine_map nv (fun ev => Z.eqb (latest_of cur next (map nv (globbed L)) (fst (snd ev))) (snd (snd ev)))).
  reflexivity.
Qed.

Definition ts_of (cur next : Z) (L : list fent) : list (path * Z) :=
  map (fun e => (f_path e, eff_mtime L e)) (sel_pure cur next L).
Definition to_load_of (ts old : list (path * Z)) : list path :=
  map fst (filter (fun km => match lookup (fst km) old with
                             | Some t => negb (Z.eqb t (snd km))
                             | None => true
                             end) ts).
Definition to_drop_of (ts old : list (path * Z)) : list path :=
  map fst (filter (fun kt => negb (mem_key (fst kt) ts)) old).
Definition drop_all (ds : list path) (m : list (path * N)) : list (path * N) :=
  fold_left (fun acc k => remove_key k acc) ds m.

Definition scan_pure (cur next : Z) (L : list fent) (st : wstate) : scan_out :=
  let ts := ts_of cur next L in
  let to_load := to_load_of ts (w_ts st) in
  let to_drop := to_drop_of ts (w_ts st) in
  let after_drop := drop_all to_drop (w_loaded st) in
  let after_load := apply_loads L to_load after_drop in
  mkOut to_drop to_load
        ((match to_drop with [] => [] | _ => [after_drop] end) ++ (if any_loadable L to_load then [after_load] else []))
        (mkW ts after_load).

Lemma scan_ok (cur next : Z) (L : list fent) (st : wstate) : scan cur next L st = Ok (scan_pure cur next L st).
Proof. unfold scan. rewrite selected_ok. reflexivity. Qed.

(** ---- association-list lemmas *)
Definition keys {V} (m : list (path * V)) : list path := map fst m.

Lemma lookup_in_keys {V} (k : path) (m : list (path * V)) : lookup k m <> None <-> In k (keys m).
Proof.
  induction m as [|[k' v] m IH]; simpl.
  - split; [intros H; contradiction H; reflexivity|intros []].
  - destruct (path_eqb k k') eqn:E.
    + apply path_eqb_eq in E. subst. split; [intros _; left; reflexivity|intros _; discriminate].
    + apply path_eqb_neq in E. rewrite IH. split; [intros H; right; exact H|intros [H|H]; [congruence|exact H]].
Qed.

Lemma lookup_none_not_in {V} (k : path) (m : list (path * V)) : lookup k m = None <-> ~ In k (keys m).
Proof.
  induction m as [|[k' v] m IH]; simpl.
  - split; [intros _ []|reflexivity].
  - destruct (path_eqb k k') eqn:E.
    + apply path_eqb_eq in E. subst. split; [discriminate|intros H; exfalso; apply H; left; reflexivity].
    + apply path_eqb_neq in E. rewrite IH. split.
      * intros H [H'|H']; [congruence|contradiction].
      * intros H H'. apply H. right. exact H'.
Qed.

Lemma lookup_in_nodup {V} (k : path) (v : V) (m : list (path * V)) :
  NoDup (keys m) -> In (k, v) m -> lookup k m = Some v.
Proof.
  induction m as [|[k' v'] m IH]; simpl; intros Hnd Hin; [contradiction|].
  inversion Hnd as [|? ? Hni Hnd']; subst.
  destruct Hin as [Hin|Hin].
  - inversion Hin; subst. rewrite path_eqb_refl. reflexivity.
  - destruct (path_eqb k k') eqn:E.
    + apply path_eqb_eq in E. subst. exfalso. apply Hni. change (In k' (keys m)). apply in_map_iff. exists (k', v). auto.
    + apply IH; assumption.
Qed.

Lemma lookup_some_in {V} (k : path) (v : V) (m : list (path * V)) : lookup k m = Some v -> In (k, v) m.
Proof.
  induction m as [|[k' v'] m IH]; simpl; intros H; [discriminate|].
  destruct (path_eqb k k') eqn:E.
  - apply path_eqb_eq in E. inversion H; subst. left. reflexivity.
  - right. apply IH. exact H.
Qed.

Lemma lookup_remove_same {V} (k : path) (m : list (path * V)) : lookup k (remove_key k m) = None.
Proof.
  induction m as [|[k' v] m IH]; simpl; [reflexivity|].
  destruct (path_eqb k k') eqn:E; simpl; [exact IH|]. rewrite E. exact IH.
Qed.
Lemma lookup_remove_other {V} (k k' : path) (m : list (path * V)) :
  k <> k' -> lookup k' (remove_key k m) = lookup k' m.
Proof.
  intros Hne. induction m as [|[k2 v] m IH]; simpl; [reflexivity|].
  destruct (path_eqb k k2) eqn:E; simpl.
  - apply path_eqb_eq in E. subst k2.
    assert (path_eqb k' k = false) by (apply path_eqb_neq; congruence). rewrite H. exact IH.
  - destruct (path_eqb k' k2); [reflexivity|exact IH].
Qed.
Lemma keys_remove_subset {V} (k x : path) (m : list (path * V)) : In x (keys (remove_key k m)) -> In x (keys m).
Proof.
  unfold keys, remove_key. intros H. apply in_map_iff in H. destruct H as [kv [E H]].
  apply filter_In in H. destruct H as [H _]. apply in_map_iff. exists kv. auto.
Qed.
Lemma nodup_keys_filter {V} (P : path * V -> bool) (m : list (path * V)) : NoDup (keys m) -> NoDup (keys (filter P m)).
Proof.
  unfold keys. induction m as [|kv m IH]; simpl; intros H; [constructor|].
  inversion H as [|? ? Hni Hnd]; subst.
  destruct (P kv); simpl; [|apply IH; exact Hnd].
  constructor; [|apply IH; exact Hnd].
  intros Hin. apply Hni. apply in_map_iff in Hin. destruct Hin as [x [E Hx]]. apply filter_In in Hx.
  apply in_map_iff. exists x. tauto.
Qed.
Lemma nodup_set_key {V} (k : path) (v : V) (m : list (path * V)) : NoDup (keys m) -> NoDup (keys (set_key k v m)).
Proof.
  intros H. unfold set_key. simpl. constructor.
  - apply lookup_none_not_in. apply lookup_remove_same.
  - apply nodup_keys_filter. exact H.
Qed.
Lemma lookup_set_same {V} (k : path) (v : V) (m : list (path * V)) : lookup k (set_key k v m) = Some v.
Proof. unfold set_key. simpl. rewrite path_eqb_refl. reflexivity. Qed.
Lemma lookup_set_other {V} (k k' : path) (v : V) (m : list (path * V)) :
  k <> k' -> lookup k' (set_key k v m) = lookup k' m.
Proof.
  intros Hne. unfold set_key. simpl.
  assert (path_eqb k' k = false) by (apply path_eqb_neq; congruence). rewrite H.
  apply lookup_remove_other. exact Hne.
Qed.

Lemma lookup_drop_all (ds : list path) (m : list (path * N)) (k : path) :
  lookup k (drop_all ds m) = if existsb (path_eqb k) ds then None else lookup k m.
Proof.
  revert m. induction ds as [|d ds IH]; intros m; simpl; [reflexivity|].
  unfold drop_all in *. simpl. rewrite IH.
  destruct (path_eqb k d) eqn:E; simpl.
  - apply path_eqb_eq in E. subst. destruct (existsb (path_eqb d) ds); [reflexivity|apply lookup_remove_same].
  - apply path_eqb_neq in E. destruct (existsb (path_eqb k) ds); [reflexivity|].
    apply lookup_remove_other. congruence.
Qed.
Lemma nodup_drop_all (ds : list path) (m : list (path * N)) : NoDup (keys m) -> NoDup (keys (drop_all ds m)).
Proof.
  revert m. induction ds as [|d ds IH]; intros m H; simpl; [exact H|].
  unfold drop_all in *. simpl. apply IH. apply nodup_keys_filter. exact H.
Qed.

Definition find_ent (L : list fent) (k : path) : option fent := find (fun e => path_eqb (f_path e) k) L.

Lemma lookup_apply_loads (L : list fent) (ks : list path) (m : list (path * N)) (k : path) :
  lookup k (apply_loads L ks m) =
  match (if existsb (path_eqb k) ks then find_ent L k else None) with
  | Some e => if f_loadable e then Some (f_content e) else lookup k m
  | None => lookup k m
  end.
Proof.
  revert m. induction ks as [|x ks IH]; intros m; simpl; [reflexivity|].
  unfold apply_loads in *. simpl. rewrite IH. clear IH.
  fold (find_ent L x).
  destruct (path_eqb k x) eqn:E; simpl.
  - apply path_eqb_eq in E. subst x.
    destruct (find_ent L k) as [e|] eqn:Hf.
    + destruct (f_loadable e) eqn:Hl.
      * destruct (existsb (path_eqb k) ks); simpl; rewrite ?Hl; try reflexivity; apply lookup_set_same.
      * destruct (existsb (path_eqb k) ks); simpl; rewrite ?Hl; reflexivity.
    + destruct (existsb (path_eqb k) ks); reflexivity.
  - apply path_eqb_neq in E.
    assert (Hm : lookup k (match find_ent L x with
                           | Some e => if f_loadable e then set_key x (f_content e) m else m
                           | None => m end) = lookup k m).
    { destruct (find_ent L x) as [e|]; [|reflexivity]. destruct (f_loadable e); [|reflexivity].
      apply lookup_set_other. congruence. }
    destruct (existsb (path_eqb k) ks).
    + destruct (find_ent L k) as [e|]; [|exact Hm]. destruct (f_loadable e); [reflexivity|exact Hm].
    + exact Hm.
Qed.
Lemma nodup_apply_loads (L : list fent) (ks : list path) (m : list (path * N)) :
  NoDup (keys m) -> NoDup (keys (apply_loads L ks m)).
Proof.
  revert m. induction ks as [|x ks IH]; intros m H; simpl; [exact H|].
  unfold apply_loads in *. simpl. apply IH.
  destruct (find (fun e => path_eqb (f_path e) x) L) as [e|]; [|exact H].
  destruct (f_loadable e); [apply nodup_set_key; exact H|exact H].
Qed.

Lemma existsb_path_in (k : path) (l : list path) : existsb (path_eqb k) l = true <-> In k l.
Proof.
  rewrite existsb_exists. split.
  - intros [x [Hin E]]. apply path_eqb_eq in E. subst. exact Hin.
  - intros H. exists k. split; [exact H|apply path_eqb_refl].
Qed.

Lemma find_ent_unique (L : list fent) (e : fent) :
  NoDup (map f_path L) -> In e L -> find_ent L (f_path e) = Some e.
Proof.
  unfold find_ent. induction L as [|x L IH]; simpl; intros Hnd Hin; [contradiction|].
  inversion Hnd as [|? ? Hni Hnd']; subst.
  destruct Hin as [Hin|Hin].
  - subst. rewrite path_eqb_refl. reflexivity.
  - destruct (path_eqb (f_path x) (f_path e)) eqn:E.
    + apply path_eqb_eq in E. exfalso. apply Hni. rewrite E. apply in_map. exact Hin.
    + apply IH; assumption.
Qed.

(** ---- facts about the selection *)
Lemma nodup_map_filter {A B} (f : A -> B) (P : A -> bool) (l : list A) : NoDup (map f l) -> NoDup (map f (filter P l)).
Proof.
  induction l as [|x l IH]; simpl; intros H; [constructor|].
  inversion H as [|? ? Hni Hnd]; subst.
  destruct (P x); simpl; [|apply IH; exact Hnd].
  constructor; [|apply IH; exact Hnd].
  intros Hin. apply Hni. apply in_map_iff in Hin. destruct Hin as [y [E Hy]]. apply filter_In in Hy.
  apply in_map_iff. exists y. tauto.
Qed.

Lemma sel_in_glob cur next L e : In e (sel_pure cur next L) -> In e (globbed L).
Proof. unfold sel_pure. intros H. apply filter_In in H. tauto. Qed.
Lemma sel_in_L cur next L e : In e (sel_pure cur next L) -> In e L.
Proof. intros H. apply sel_in_glob in H. unfold globbed in H. apply filter_In in H. tauto. Qed.
Lemma sel_nodup cur next L : NoDup (map f_path L) -> NoDup (map f_path (sel_pure cur next L)).
Proof. intros H. unfold sel_pure, globbed. apply nodup_map_filter. apply nodup_map_filter. exact H. Qed.
Lemma sel_version cur next L e :
  In e (sel_pure cur next L) -> snd (nv e) = latest_of cur next (map nv (globbed L)) (fst (nv e)).
Proof. unfold sel_pure. intros H. apply filter_In in H. destruct H as [_ H]. apply Z.eqb_eq in H. congruence. Qed.

Lemma keys_ts_of cur next L : keys (ts_of cur next L) = map f_path (sel_pure cur next L).
Proof. unfold ts_of, keys. rewrite map_map. reflexivity. Qed.
Lemma ts_of_nodup cur next L : NoDup (map f_path L) -> NoDup (keys (ts_of cur next L)).
Proof. intros H. rewrite keys_ts_of. apply sel_nodup. exact H. Qed.
Lemma ts_of_lookup cur next L e :
  NoDup (map f_path L) -> In e (sel_pure cur next L) -> lookup (f_path e) (ts_of cur next L) = Some (eff_mtime L e).
Proof.
  intros Hnd Hin. apply lookup_in_nodup; [apply ts_of_nodup; exact Hnd|].
  unfold ts_of. apply in_map_iff. exists e. auto.
Qed.

Lemma in_to_drop ts old k : In k (to_drop_of ts old) <-> In k (keys old) /\ mem_key k ts = false.
Proof.
  unfold to_drop_of, keys. split.
  - intros H. apply in_map_iff in H. destruct H as [[k' t] [E H]]. simpl in E. subst k'.
    apply filter_In in H. destruct H as [H1 H2]. simpl in H2. split.
    + apply in_map_iff. exists (k, t). auto.
    + destruct (mem_key k ts); [discriminate|reflexivity].
  - intros [H1 H2]. apply in_map_iff in H1. destruct H1 as [[k' t] [E H1]]. simpl in E. subst k'.
    apply in_map_iff. exists (k, t). split; [reflexivity|]. apply filter_In. split; [exact H1|]. simpl. rewrite H2. reflexivity.
Qed.
Lemma in_to_load_keys ts old k : In k (to_load_of ts old) -> In k (keys ts).
Proof.
  unfold to_load_of, keys. intros H. apply in_map_iff in H. destruct H as [km [E H]]. apply filter_In in H.
  apply in_map_iff. exists km. tauto.
Qed.
Lemma not_to_load ts old k m :
  In (k, m) ts -> ~ In k (to_load_of ts old) -> lookup k old = Some m.
Proof.
  intros Hin Hn.
  destruct (lookup k old) as [t|] eqn:Hl.
  - destruct (Z.eqb t m) eqn:E; [apply Z.eqb_eq in E; congruence|].
    exfalso. apply Hn. unfold to_load_of. apply in_map_iff. exists (k, m). split; [reflexivity|].
    apply filter_In. split; [exact Hin|]. simpl. rewrite Hl, E. reflexivity.
  - exfalso. apply Hn. unfold to_load_of. apply in_map_iff. exists (k, m). split; [reflexivity|].
    apply filter_In. split; [exact Hin|]. simpl. rewrite Hl. reflexivity.
Qed.
Lemma mem_key_in {V} k (m : list (path * V)) : mem_key k m = true <-> In k (keys m).
Proof.
  unfold mem_key. rewrite <- lookup_in_keys. destruct (lookup k m); split; intros H; try reflexivity; try discriminate.
  exfalso. apply H. reflexivity.
Qed.

(** ---- invariant of the watcher/loader state *)
Definition WInv (st : wstate) : Prop :=
  NoDup (keys (w_loaded st)) /\ (forall k, In k (keys (w_loaded st)) -> In k (keys (w_ts st))).

Lemma winv_init : WInv w_init.
Proof. split; [constructor|intros k []]. Qed.

Lemma in_opt_snap {A B} (l : list B) (x s : A) : In s (match l with [] => [] | _ => [x] end) -> s = x.
Proof. destruct l; simpl; intros H; [contradiction|]. destruct H as [H|[]]. congruence. Qed.
Lemma in_if_snap {A} (b : bool) (x s : A) : In s (if b then [x] else []) -> s = x.
Proof. destruct b; simpl; intros H; [|contradiction]. destruct H as [H|[]]. congruence. Qed.

Section Scan.
Variables (cur next : Z) (L : list fent) (st : wstate).
Hypothesis HL : NoDup (map f_path L).
Hypothesis HI : WInv st.

Let ts := ts_of cur next L.
Let to_load := to_load_of ts (w_ts st).
Let to_drop := to_drop_of ts (w_ts st).
Let after_drop := drop_all to_drop (w_loaded st).
Let after_load := apply_loads L to_load after_drop.

Lemma after_drop_keys k : In k (keys after_drop) -> In k (keys ts) /\ In k (keys (w_loaded st)).
Proof.
  intros H. apply lookup_in_keys in H. unfold after_drop in H. rewrite lookup_drop_all in H.
  destruct (existsb (path_eqb k) to_drop) eqn:E; [contradiction H; reflexivity|].
  apply lookup_in_keys in H. split; [|exact H].
  destruct HI as [_ Hsub]. specialize (Hsub k H).
  destruct (mem_key k ts) eqn:Hm; [apply mem_key_in; exact Hm|].
  exfalso. assert (In k to_drop) by (apply in_to_drop; auto).
  apply existsb_path_in in H0. congruence.
Qed.
Lemma after_drop_nodup : NoDup (keys after_drop).
Proof. apply nodup_drop_all. apply HI. Qed.

Lemma after_load_keys k : In k (keys after_load) -> In k (keys ts).
Proof.
  intros H. apply lookup_in_keys in H. unfold after_load in H. rewrite lookup_apply_loads in H.
  destruct (existsb (path_eqb k) to_load) eqn:E.
  - apply existsb_path_in in E. eapply in_to_load_keys. exact E.
  - apply lookup_in_keys in H. apply after_drop_keys in H. tauto.
Qed.
Lemma after_load_nodup : NoDup (keys after_load).
Proof. apply nodup_apply_loads. apply after_drop_nodup. Qed.

Lemma scan_preserves_inv : WInv (o_state (scan_pure cur next L st)).
Proof. split; simpl; [apply after_load_nodup|apply after_load_keys]. Qed.

Lemma scan_timestamps : keys (w_ts (o_state (scan_pure cur next L st))) = map f_path (sel_pure cur next L).
Proof. simpl. apply keys_ts_of. Qed.

Lemma scan_loaded_subset k :
  In k (keys (w_loaded (o_state (scan_pure cur next L st)))) -> In k (map f_path (sel_pure cur next L)).
Proof. simpl. intros H. apply after_load_keys in H. unfold ts in H. rewrite keys_ts_of in H. exact H. Qed.

Lemma scan_snapshots s :
  In s (o_snaps (scan_pure cur next L st)) ->
  NoDup (keys s) /\ forall k, In k (keys s) -> In k (map f_path (sel_pure cur next L)).
Proof.
  simpl. intros H. apply in_app_or in H. destruct H as [H|H].
  - apply in_opt_snap in H. subst s. fold ts to_drop after_drop. split; [apply after_drop_nodup|].
    intros k Hk. apply after_drop_keys in Hk. destruct Hk as [Hk _]. unfold ts in Hk. rewrite keys_ts_of in Hk. exact Hk.
  - apply in_if_snap in H. subst s. fold ts to_load to_drop after_drop after_load. split; [apply after_load_nodup|].
    intros k Hk. apply after_load_keys in Hk. unfold ts in Hk. rewrite keys_ts_of in Hk. exact Hk.
Qed.

(** what was recorded with the current effective mtime is what is loaded (mtime discriminates contents) *)
Definition fresh : Prop :=
  forall e, In e (sel_pure cur next L) -> f_loadable e = true ->
            lookup (f_path e) (w_ts st) = Some (eff_mtime L e) ->
            lookup (f_path e) (w_loaded st) = Some (f_content e).

Lemma scan_loads_current e :
  fresh -> In e (sel_pure cur next L) -> f_loadable e = true ->
  lookup (f_path e) (w_loaded (o_state (scan_pure cur next L st))) = Some (f_content e).
Proof.
  intros Hf Hin Hl. simpl. fold ts to_load to_drop after_drop after_load.
  unfold after_load. rewrite lookup_apply_loads.
  pose proof (find_ent_unique L e HL (sel_in_L _ _ _ _ Hin)) as Hfe.
  assert (Hts : In (f_path e, eff_mtime L e) ts).
  { unfold ts, ts_of. apply in_map_iff. exists e. auto. }
  destruct (existsb (path_eqb (f_path e)) to_load) eqn:E.
  - rewrite Hfe, Hl. reflexivity.
  - assert (Hnl : ~ In (f_path e) to_load).
    { intros H. apply existsb_path_in in H. congruence. }
    pose proof (not_to_load _ _ _ _ Hts Hnl) as Hold.
    unfold after_drop. rewrite lookup_drop_all.
    destruct (existsb (path_eqb (f_path e)) to_drop) eqn:Ed.
    + exfalso. apply existsb_path_in in Ed. apply in_to_drop in Ed. destruct Ed as [_ Ed].
      assert (mem_key (f_path e) ts = true).
      { apply mem_key_in. unfold keys. apply in_map_iff. exists (f_path e, eff_mtime L e). auto. }
      congruence.
    + apply Hf; assumption.
Qed.
End Scan.

(** a second scan of the same listing is a no-op *)
Lemma to_load_self ts : NoDup (keys ts) -> to_load_of ts ts = [].
Proof.
  intros Hnd. unfold to_load_of.
  assert (H : forall l, (forall km, In km l -> In km ts) ->
              filter (fun km => match lookup (fst km) ts with Some t => negb (Z.eqb t (snd km)) | None => true end) l = []).
  { induction l as [|[k m] l IH]; intros Hsub; simpl; [reflexivity|].
    rewrite (lookup_in_nodup k m ts Hnd (Hsub _ (or_introl eq_refl))). rewrite Z.eqb_refl. simpl.
    apply IH. intros km Hkm. apply Hsub. right. exact Hkm. }
  rewrite H; [reflexivity|auto].
Qed.
Lemma to_drop_self ts : to_drop_of ts ts = [].
Proof.
  unfold to_drop_of.
  assert (H : forall l : list (path * Z), (forall kt, In kt l -> In (fst kt) (keys ts)) ->
              filter (fun kt => negb (mem_key (fst kt) ts)) l = []).
  { induction l as [|kt l IH]; intros Hsub; simpl; [reflexivity|].
    assert (mem_key (fst kt) ts = true) by (apply mem_key_in; apply Hsub; left; reflexivity).
    rewrite H. simpl. apply IH. intros x Hx. apply Hsub. right. exact Hx. }
  rewrite H; [reflexivity|]. intros kt Hkt. unfold keys. apply in_map. exact Hkt.
Qed.

Lemma rescan_noop cur next L st :
  NoDup (map f_path L) ->
  let o := scan_pure cur next L st in
  scan_pure cur next L (o_state o) = mkOut [] [] [] (o_state o).
Proof.
  intros HL o. unfold scan_pure at 1. simpl.
  rewrite to_load_self by (apply ts_of_nodup; exact HL). rewrite to_drop_self. simpl. reflexivity.
Qed.

(** ---- the selection is "newest supported version per name" *)
Section Latest.
Variables (cur next : Z) (name : path).
Let f := fun (acc : Z) (nv0 : path * Z) =>
  if path_eqb (fst nv0) name && supported cur next (snd nv0) && (acc <? snd nv0)%Z then snd nv0 else acc.

Lemma fold_latest_ge (vps : list (path * Z)) (acc : Z) : (acc <= fold_left f vps acc)%Z.
Proof.
  revert acc. induction vps as [|x vps IH]; intros acc; simpl; [lia|].
  specialize (IH (f acc x)). unfold f in *.
  destruct (path_eqb (fst x) name && supported cur next (snd x) && (acc <? snd x)%Z) eqn:E; [|exact IH].
  apply andb_true_iff in E. destruct E as [_ E]. apply Z.ltb_lt in E. lia.
Qed.
Lemma fold_latest_bound (vps : list (path * Z)) (acc : Z) (x : path * Z) :
  In x vps -> fst x = name -> supported cur next (snd x) = true -> (snd x <= fold_left f vps acc)%Z.
Proof.
  revert acc. induction vps as [|y vps IH]; intros acc Hin Hn Hs; simpl; [contradiction|].
  destruct Hin as [Hin|Hin].
  - subst y. pose proof (fold_latest_ge vps (f acc x)) as G.
    assert (Hf : (snd x <= f acc x)%Z).
    { unfold f. rewrite Hn, path_eqb_refl, Hs. simpl.
      destruct (acc <? snd x)%Z eqn:E; [lia|]. apply Z.ltb_ge in E. lia. }
    lia.
  - apply IH; assumption.
Qed.
Lemma fold_latest_witness (vps : list (path * Z)) (acc : Z) :
  fold_left f vps acc = acc \/
  exists x, In x vps /\ fst x = name /\ supported cur next (snd x) = true /\ fold_left f vps acc = snd x.
Proof.
  revert acc. induction vps as [|y vps IH]; intros acc; simpl; [left; reflexivity|].
  destruct (IH (f acc y)) as [H|(x & H1 & H2 & H3 & H4)].
  - assert (D : f acc y = acc \/ (f acc y = snd y /\ fst y = name /\ supported cur next (snd y) = true)).
    { unfold f. destruct (path_eqb (fst y) name && supported cur next (snd y) && (acc <? snd y)%Z) eqn:E; [right|left; reflexivity].
      apply andb_true_iff in E. destruct E as [E _]. apply andb_true_iff in E. destruct E as [E1 E2].
      apply path_eqb_eq in E1. auto. }
    destruct D as [D|(D1 & D2 & D3)].
    + left. rewrite H. exact D.
    + right. exists y. repeat split; auto. rewrite H. exact D1.
  - right. exists x. repeat split; auto.
Qed.
End Latest.

Lemma selected_spec (cur next : Z) (L : list fent) (e : fent) :
  In e (sel_pure cur next L) <->
  In e (globbed L) /\ (0 <= snd (nv e))%Z /\ (snd (nv e) = 0%Z \/ supported cur next (snd (nv e)) = true) /\
  (forall e', In e' (globbed L) -> fst (nv e') = fst (nv e) -> supported cur next (snd (nv e')) = true ->
              (snd (nv e') <= snd (nv e))%Z).
Proof.
  unfold sel_pure. rewrite filter_In. unfold latest_of.
  set (vps := map nv (globbed L)). set (name := fst (nv e)).
  split.
  - intros [Hin Heq]. apply Z.eqb_eq in Heq. split; [exact Hin|].
    pose proof (fold_latest_ge cur next name vps 0%Z) as G.
    destruct (fold_latest_witness cur next name vps 0%Z) as [W|(x & W1 & W2 & W3 & W4)].
    + split; [lia|]. split; [left; lia|].
      intros e' He' Hn Hs. rewrite <- Heq.
      apply (fold_latest_bound cur next name vps 0%Z (nv e')); auto. unfold vps. apply in_map. exact He'.
    + split; [lia|]. split; [right; rewrite <- Heq, W4; exact W3|].
      intros e' He' Hn Hs. rewrite <- Heq.
      apply (fold_latest_bound cur next name vps 0%Z (nv e')); auto. unfold vps. apply in_map. exact He'.
  - intros (Hin & H0 & Hsup & Hmax). split; [exact Hin|]. apply Z.eqb_eq.
    pose proof (fold_latest_ge cur next name vps 0%Z) as G.
    assert (Hle : (fold_left (fun acc nv0 => if path_eqb (fst nv0) name && supported cur next (snd nv0) && (acc <? snd nv0)%Z
                                           then snd nv0 else acc) vps 0 <= snd (nv e))%Z).
    { destruct (fold_latest_witness cur next name vps 0%Z) as [W|(x & W1 & W2 & W3 & W4)].
      - rewrite W. exact H0.
      - rewrite W4. unfold vps in W1. apply in_map_iff in W1. destruct W1 as [e' [E He']]. subst x.
        apply Hmax; auto. }
    destruct Hsup as [Hz|Hs].
    + lia.
    + pose proof (fold_latest_bound cur next name vps 0%Z (nv e)) as B.
      assert (In (nv e) vps) by (unfold vps; apply in_map; exact Hin).
      specialize (B H eq_refl Hs). lia.
Qed.

Lemma selected_one_version (cur next : Z) (L : list fent) (e1 e2 : fent) :
  In e1 (sel_pure cur next L) -> In e2 (sel_pure cur next L) -> fst (nv e1) = fst (nv e2) -> snd (nv e1) = snd (nv e2).
Proof. intros H1 H2 Hn. rewrite (sel_version _ _ _ _ H1), (sel_version _ _ _ _ H2), Hn. reflexivity. Qed.

(** ---- histories: convergence at every scan while mtimes discriminate contents *)
Definition discriminates (cur next : Z) (L0 L : list fent) : Prop :=
  forall e0 e, In e0 (sel_pure cur next L0) -> In e (sel_pure cur next L) -> f_path e0 = f_path e ->
               eff_mtime L0 e0 = eff_mtime L e -> f_content e0 = f_content e /\ f_loadable e0 = f_loadable e.

Definition synced (cur next : Z) (st : wstate) (L0 : list fent) : Prop :=
  WInv st /\ w_ts st = ts_of cur next L0 /\
  (forall e, In e (sel_pure cur next L0) -> f_loadable e = true -> lookup (f_path e) (w_loaded st) = Some (f_content e)).

Lemma synced_fresh cur next st L0 L :
  synced cur next st L0 -> discriminates cur next L0 L -> fresh cur next L st.
Proof.
  intros (HI & Hts & Hld) Hd e Hin Hl Hlk. rewrite Hts in Hlk.
  apply lookup_some_in in Hlk. unfold ts_of in Hlk. apply in_map_iff in Hlk. destruct Hlk as [e0 [E He0]].
  inversion E as [[E1 E2]]. destruct (Hd e0 e He0 Hin E1 E2) as [Hc Hlo].
  rewrite <- ?E1, <- Hc. apply Hld; [exact He0|congruence].
Qed.

Lemma scan_synced cur next st L :
  NoDup (map f_path L) -> WInv st -> fresh cur next L st -> synced cur next (o_state (scan_pure cur next L st)) L.
Proof.
  intros HL HI Hf. split; [apply scan_preserves_inv; assumption|]. split; [reflexivity|].
  intros e Hin Hl. apply scan_loads_current; assumption.
Qed.

Fixpoint scans (cur next : Z) (st : wstate) (Ls : list (list fent)) : wstate :=
  match Ls with
  | [] => st
  | L :: r => scans cur next (o_state (scan_pure cur next L st)) r
  end.
Fixpoint chain_ok (cur next : Z) (prev : list fent) (Ls : list (list fent)) : Prop :=
  match Ls with
  | [] => True
  | L :: r => NoDup (map f_path L) /\ discriminates cur next prev L /\ chain_ok cur next L r
  end.

Lemma last_nonempty_default {A} (x : A) (l : list A) (d d' : A) : last (x :: l) d = last (x :: l) d'.
Proof. revert x. induction l as [|y l IH]; intros x; [reflexivity|]. simpl in *. apply IH. Qed.

Lemma scans_synced cur next st prev Ls :
  synced cur next st prev -> chain_ok cur next prev Ls -> synced cur next (scans cur next st Ls) (last Ls prev).
Proof.
  revert st prev. induction Ls as [|L r IH]; intros st prev Hs Hc; simpl; [exact Hs|].
  destruct Hc as (HL & Hd & Hc).
  assert (Hs' : synced cur next (o_state (scan_pure cur next L st)) L).
  { apply scan_synced; [exact HL|apply Hs|eapply synced_fresh; eauto]. }
  specialize (IH _ _ Hs' Hc). destruct r as [|l r]; [exact IH|].
  rewrite (last_nonempty_default l r prev L). exact IH.
Qed.

Lemma synced_init cur next : synced cur next w_init [].
Proof. split; [apply winv_init|]. split; [reflexivity|]. intros e []. Qed.

Lemma history_converges cur next (Ls : list (list fent)) (L : list fent) :
  chain_ok cur next [] (Ls ++ [L]) ->
  let st := scans cur next w_init (Ls ++ [L]) in
  NoDup (keys (w_loaded st)) /\
  (forall k, In k (keys (w_loaded st)) -> In k (map f_path (sel_pure cur next L))) /\
  (forall e, In e (sel_pure cur next L) -> f_loadable e = true -> lookup (f_path e) (w_loaded st) = Some (f_content e)) /\
  scan cur next L st = Ok (mkOut [] [] [] st).
Proof.
  intros Hc st. pose proof (scans_synced cur next w_init [] (Ls ++ [L]) (synced_init cur next) Hc) as Hs.
  rewrite last_last in Hs. fold st in Hs. destruct Hs as ((Hnd & Hsub) & Hts & Hld).
  split; [exact Hnd|]. split.
  - intros k Hk. specialize (Hsub k Hk). rewrite Hts, keys_ts_of in Hsub. exact Hsub.
  - split; [exact Hld|].
    rewrite scan_ok.
    assert (HL : NoDup (map f_path L)).
    { clear -Hc. revert Hc. generalize (@nil fent). induction Ls as [|x Ls IH]; intros prev Hc; simpl in Hc.
      - tauto.
      - destruct Hc as (_ & _ & Hc). eapply IH. exact Hc. }
    unfold scan_pure. rewrite Hts.
    rewrite to_load_self by (apply ts_of_nodup; exact HL). rewrite to_drop_self. simpl.
    destruct st as [t l]. simpl in *. subst t. reflexivity.
Qed.

(** every snapshot published while scanning any history from the initial state is duplicate-free and
    holds one version per name *)
Lemma scans_inv cur next st Ls : (forall L, In L Ls -> NoDup (map f_path L)) -> WInv st -> WInv (scans cur next st Ls).
Proof.
  revert st. induction Ls as [|L r IH]; intros st HL HI; simpl; [exact HI|].
  apply IH; [intros L' H; apply HL; right; exact H|].
  apply scan_preserves_inv. exact HI.
Qed.

Lemma snapshot_consistent cur next (Ls : list (list fent)) (L : list fent) (s : list (path * N)) :
  (forall L', In L' (Ls ++ [L]) -> NoDup (map f_path L')) ->
  In s (o_snaps (scan_pure cur next L (scans cur next w_init Ls))) ->
  NoDup (keys s) /\
  (forall k, In k (keys s) -> exists e, In e (sel_pure cur next L) /\ f_path e = k) /\
  (forall e1 e2, In e1 (sel_pure cur next L) -> In e2 (sel_pure cur next L) ->
                 In (f_path e1) (keys s) -> In (f_path e2) (keys s) ->
                 fst (nv e1) = fst (nv e2) -> snd (nv e1) = snd (nv e2)).
Proof.
  intros HL Hin.
  assert (HI : WInv (scans cur next w_init Ls)).
  { apply scans_inv; [|apply winv_init]. intros L' H. apply HL. apply in_or_app. left. exact H. }
  assert (HLL : NoDup (map f_path L)) by (apply HL; apply in_or_app; right; left; reflexivity).
  destruct (scan_snapshots cur next L _ HI s Hin) as [Hnd Hsub].
  split; [exact Hnd|]. split.
  - intros k Hk. specialize (Hsub k Hk). apply in_map_iff in Hsub. destruct Hsub as [e [E He]]. exists e. auto.
  - intros e1 e2 H1 H2 _ _ Hn. eapply selected_one_version; eauto.
Qed.

(** ---- the blind spot: without [discriminates] the loaded content can stay stale forever *)
Definition stale_L1 : list fent := [mkF [97; 46; 122; 111; 101; 107; 116]%N 5%Z 1%N true].
Definition stale_L2 : list fent := [mkF [97; 46; 122; 111; 101; 107; 116]%N 5%Z 2%N true].
Lemma equal_mtime_stale :
  let st := scans 16 17 w_init [stale_L1; stale_L2; stale_L2; stale_L2] in
  lookup [97; 46; 122; 111; 101; 107; 116]%N (w_loaded st) = Some 1%N /\
  In (mkF [97; 46; 122; 111; 101; 107; 116]%N 5%Z 2%N true) (sel_pure 16 17 stale_L2).
Proof. vm_compute. split; [reflexivity|left; reflexivity]. Qed.
