(** C09 — the ngram B+-tree (Model/Btree.v): for keys inserted in ascending order (what newBtreeIndex does with
    the sorted ngramText section) [find] returns the bucket that holds the key, for EVERY number of keys.

    Method: the in-order "flattening" of a tree (leaf, key, leaf, key, ..., leaf).
      1. find on a well-formed tree with sorted separators = a linear walk over the flattening   (find_locate)
      2. insert of a key >= everything seen so far = a local rewrite of the END of the flattening (bt_insert_flat),
         including leaf splits, inner-node splits and root splits
      3. the flattening after n ascending inserts has a fixed shape (runs of bucketSize/2, longer last run) (shape). *)
From Coq Require Import ZifyBool ZifyNat ZifyN Sorted.
From ZV Require Import Lib.Base Lib.Varint Model.Format Model.Btree.
Open Scope nat_scope.

(* ------------------------------------------------------------------ induction principle for the nested type *)
Section NodeInd.
  Variable P : node -> Prop.
  Hypothesis HL : forall bs sk, P (Leaf bs sk).
  Hypothesis HI : forall ks cs, Forall P cs -> P (Inner ks cs).
  Fixpoint node_ind' (n : node) : P n :=
    match n with
    | Leaf bs sk => HL bs sk
    | Inner ks cs =>
      HI ks cs ((fix go (l : list node) : Forall P l :=
                   match l with [] => Forall_nil _ | c :: r => Forall_cons _ (node_ind' c) (go r) end) cs)
    end.
End NodeInd.

(* ------------------------------------------------------------------ flattening *)
Inductive item := IL (bs : nat) (sk : N) | IK (k : N).

Fixpoint weave (ks : list N) (fs : list (list item)) : list item :=
  match fs with
  | [] => []
  | [f] => f
  | f :: r => match ks with k :: ks' => f ++ IK k :: weave ks' r | [] => f ++ weave [] r end
  end.
Fixpoint flat (n : node) : list item :=
  match n with Leaf bs sk => [IL bs sk] | Inner ks cs => weave ks (map flat cs) end.

(** well formed for parameter v: |children| = |keys| + 1 and at most 2v children *)
Inductive wf (v : nat) : node -> Prop :=
| wf_leaf : forall bs sk, wf v (Leaf bs sk)
| wf_inner : forall ks cs, length cs = S (length ks) -> length cs <= 2 * v -> Forall (wf v) cs -> wf v (Inner ks cs).

Inductive alt : list item -> Prop :=
| alt1 : forall bs sk, alt [IL bs sk]
| alt2 : forall bs sk k l, alt l -> alt (IL bs sk :: IK k :: l).

Lemma alt_app : forall a b k, alt a -> alt b -> alt (a ++ IK k :: b).
Proof. intros a b k Ha Hb. induction Ha; simpl; constructor; auto. Qed.

Lemma alt_nonempty : forall l, alt l -> l <> [].
Proof. intros l H; inversion H; discriminate. Qed.

Lemma weave_alt : forall fs ks, Forall alt fs -> length fs = S (length ks) -> alt (weave ks fs).
Proof.
  induction fs as [|f r IH]; intros ks Hall Hlen; [discriminate|].
  inversion Hall as [|? ? Hf Hr]; subst. destruct r as [|f2 r2].
  - exact Hf.
  - destruct ks as [|k ks']; [simpl in Hlen; lia|].
    change (weave (k :: ks') (f :: f2 :: r2)) with (f ++ IK k :: weave ks' (f2 :: r2)).
    apply alt_app; [exact Hf|]. apply IH; [exact Hr|simpl in *; lia].
Qed.

Lemma flat_alt : forall v n, wf v n -> alt (flat n).
Proof.
  intros v n. induction n as [bs sk|ks cs IH] using node_ind'; intros Hwf.
  - constructor.
  - inversion Hwf as [|? ? Hlen Hmax Hall]; subst. simpl. apply weave_alt; [|rewrite map_length; exact Hlen].
    rewrite Forall_forall in *. intros f Hin. apply in_map_iff in Hin. destruct Hin as (c & <- & Hc). auto.
Qed.

Fixpoint nL (l : list item) : nat := match l with [] => 0 | IL _ _ :: r => S (nL r) | IK _ :: r => nL r end.
Fixpoint szL (l : list item) : nat := match l with [] => 0 | IL bs _ :: r => bs + szL r | IK _ :: r => szL r end.

Lemma nL_app : forall a b, nL (a ++ b) = nL a + nL b.
Proof. induction a as [|[bs sk|k] a IH]; intros b; simpl; auto. Qed.
Lemma szL_app : forall a b, szL (a ++ b) = szL a + szL b.
Proof. induction a as [|[bs sk|k] a IH]; intros b; simpl; auto. rewrite IH. lia. Qed.

Lemma weave_counts : forall fs ks,
  nL (weave ks fs) = list_sum (map nL fs) /\ szL (weave ks fs) = list_sum (map szL fs).
Proof.
  induction fs as [|f r IH]; intros ks; [split; reflexivity|].
  destruct r as [|f2 r2].
  - simpl. split; lia.
  - destruct ks as [|k ks'].
    + change (weave [] (f :: f2 :: r2)) with (f ++ weave [] (f2 :: r2)).
      rewrite nL_app, szL_app. destruct (IH []) as [E1 E2]. rewrite E1, E2. split; reflexivity.
    + change (weave (k :: ks') (f :: f2 :: r2)) with (f ++ IK k :: weave ks' (f2 :: r2)).
      rewrite nL_app, szL_app. cbn [nL szL]. destruct (IH ks') as [E1 E2]. rewrite E1, E2. split; reflexivity.
Qed.

Lemma flat_counts : forall n, nL (flat n) = nleaves n /\ szL (flat n) = nsizes n.
Proof.
  induction n as [bs sk|ks cs IH] using node_ind'.
  - simpl. split; lia.
  - simpl. destruct (weave_counts (map flat cs) ks) as [E1 E2]. rewrite E1, E2, !map_map.
    split; f_equal; apply map_ext_in; intros c Hc; rewrite Forall_forall in IH; destruct (IH c Hc); auto.
Qed.

(* ------------------------------------------------------------------ 1. find = linear walk *)
Fixpoint locate (l : list item) (ng : N) : nat * nat :=
  match l with
  | [] => (0, 0)
  | IL bs _ :: r =>
    match r with
    | IK k :: r' => if (ng <? k)%N then (0, 0) else let '(a, b) := locate r' ng in (S a, bs + b)
    | _ => (0, 0)
    end
  | IK _ :: r => locate r ng
  end.

Definition keys_of (l : list item) : list N := flat_map (fun it => match it with IK k => [k] | _ => [] end) l.

Lemma keys_of_app : forall a b, keys_of (a ++ b) = keys_of a ++ keys_of b.
Proof. intros. unfold keys_of. apply flat_map_app. Qed.

Lemma keys_of_K : forall k x, keys_of (IK k :: x) = k :: keys_of x.
Proof. reflexivity. Qed.

Lemma locate_app_lt : forall fl k rest ng, alt fl -> (ng < k)%N ->
  locate (fl ++ IK k :: rest) ng = locate fl ng.
Proof.
  intros fl k rest ng Ha Hlt. induction Ha as [bs sk|bs sk k1 l Hl IH].
  - simpl. replace (ng <? k)%N with true by lia. reflexivity.
  - change ((IL bs sk :: IK k1 :: l) ++ IK k :: rest) with (IL bs sk :: IK k1 :: (l ++ IK k :: rest)).
    cbn [locate]. rewrite IH. reflexivity.
Qed.

Lemma locate_app_ge : forall fl k rest ng, alt fl -> Forall (fun x => (x <= ng)%N) (keys_of fl) -> (k <= ng)%N ->
  locate (fl ++ IK k :: rest) ng = (let '(a, b) := locate rest ng in (nL fl + a, szL fl + b)).
Proof.
  intros fl k rest ng Ha. induction Ha as [bs sk|bs sk k1 l Hl IH]; intros Hall Hk.
  - simpl. replace (ng <? k)%N with false by lia. destruct (locate rest ng) as [a b]. f_equal; lia.
  - change ((IL bs sk :: IK k1 :: l) ++ IK k :: rest) with (IL bs sk :: IK k1 :: (l ++ IK k :: rest)).
    cbn [locate]. simpl in Hall. inversion Hall as [|? ? Hk1 Hr]; subst.
    replace (ng <? k1)%N with false by lia. rewrite IH by auto.
    destruct (locate rest ng) as [a b]. simpl. f_equal; lia.
Qed.

Lemma sorted_app_inv : forall (a : list N) k b, StronglySorted N.le (a ++ k :: b) ->
  StronglySorted N.le a /\ StronglySorted N.le b /\ Forall (fun x => (x <= k)%N) a.
Proof.
  induction a as [|x a IH]; intros k b H; simpl in H.
  - inversion H; subst. repeat split; auto. constructor.
  - inversion H as [|? ? Hs Hf]; subst. destruct (IH _ _ Hs) as (S1 & S2 & F).
    repeat split; auto.
    + constructor; auto. rewrite Forall_forall in *. intros y Hy. apply Hf. apply in_or_app. auto.
    + constructor; auto. rewrite Forall_forall in Hf. apply Hf. apply in_or_app. right. left. reflexivity.
Qed.

Lemma sorted_app_l : forall (a b : list N), StronglySorted N.le (a ++ b) -> StronglySorted N.le a /\ StronglySorted N.le b.
Proof.
  induction a as [|x a IH]; intros b H; simpl in H; [split; [constructor|auto]|].
  inversion H as [|? ? Hs Hf]; subst. destruct (IH _ Hs). split; auto. constructor; auto.
  rewrite Forall_forall in *. intros y Hy. apply Hf. apply in_or_app. auto.
Qed.

Definition ksorted (l : list item) : Prop := StronglySorted N.le (keys_of l).

Lemma find_go_cons2 : forall ng k ks' fc nl ns x r,
  find_go ng (k :: ks') ((fc, (nl, ns)) :: x :: r)
  = if (ng <? k)%N then fc else let '(a, b) := find_go ng ks' (x :: r) in (nl + a, ns + b).
Proof. reflexivity. Qed.

Lemma find_go_locate : forall ng cs ks v,
  Forall (fun c => wf v c -> ksorted (flat c) -> find c ng = locate (flat c) ng) cs ->
  Forall (wf v) cs -> length cs = S (length ks) -> ksorted (weave ks (map flat cs)) ->
  find_go ng ks (map (fun c => (find c ng, (nleaves c, nsizes c))) cs) = locate (weave ks (map flat cs)) ng.
Proof.
  intros ng cs. induction cs as [|c r IH]; intros ks v HP Hwf Hlen Hs; [discriminate|].
  inversion HP as [|? ? HPc HPr]; subst. inversion Hwf as [|? ? Hwc Hwr]; subst.
  destruct r as [|c2 r2].
  - simpl. apply HPc; auto.
  - destruct ks as [|k ks']; [simpl in Hlen; lia|].
    change (weave (k :: ks') (map flat (c :: c2 :: r2))) with (flat c ++ IK k :: weave ks' (map flat (c2 :: r2))) in *.
    unfold ksorted in Hs. rewrite keys_of_app, keys_of_K in Hs.
    destruct (sorted_app_inv _ _ _ Hs) as (S1 & S2 & F).
    pose proof (flat_alt v c Hwc) as Ha.
    set (FF := fun c0 : node => (find c0 ng, (nleaves c0, nsizes c0))).
    change (map FF (c :: c2 :: r2)) with (FF c :: FF c2 :: map FF r2).
    unfold FF at 1. rewrite find_go_cons2. change (FF c2 :: map FF r2) with (map FF (c2 :: r2)).
    destruct (ng <? k)%N eqn:E.
    + rewrite locate_app_lt by (auto; lia). apply HPc; auto.
    + rewrite locate_app_ge; auto; [| |lia].
      * subst FF. rewrite (IH ks' v); auto; try (simpl in *; lia).
        destruct (flat_counts c) as [E1 E2]. rewrite E1, E2. reflexivity.
      * rewrite Forall_forall in *. intros x Hx. specialize (F x Hx). lia.
Qed.

Lemma find_locate : forall v n ng, wf v n -> ksorted (flat n) -> find n ng = locate (flat n) ng.
Proof.
  intros v n ng. induction n as [bs sk|ks cs IH] using node_ind'; intros Hwf Hs.
  - reflexivity.
  - inversion Hwf as [|? ? Hlen Hmax Hall]; subst. simpl. apply (find_go_locate ng cs ks v); auto.
Qed.

(* ------------------------------------------------------------------ 2. insert = rewrite of the end *)
Definition ins_last (bsz : nat) (ng : N) (bs : nat) (sk : N) : list item :=
  if bs <? bsz then [IL (S bs) (if Nat.eqb (S bs) (bsz / 2 + 1) then ng else sk)]
  else [IL (bsz / 2) 0%N; IK sk; IL (S (bsz / 2)) ng].
Fixpoint flat_ins (bsz : nat) (ng : N) (l : list item) : list item :=
  match l with
  | [] => []
  | [IL bs sk] => ins_last bsz ng bs sk
  | x :: r => x :: flat_ins bsz ng r
  end.

Lemma flat_ins_cons : forall bsz ng x r, r <> [] -> flat_ins bsz ng (x :: r) = x :: flat_ins bsz ng r.
Proof. intros bsz ng x r H. destruct r; [contradiction|]. destruct x; reflexivity. Qed.

Lemma flat_ins_app : forall bsz ng a b, b <> [] -> flat_ins bsz ng (a ++ b) = a ++ flat_ins bsz ng b.
Proof.
  intros bsz ng a b Hb. induction a as [|x a IH]; [reflexivity|].
  simpl app. rewrite flat_ins_cons, IH; [reflexivity|].
  destruct a; simpl; [exact Hb|discriminate].
Qed.

(** keys and split keys bounded by the key being inserted *)
Definition item_le (ng : N) (it : item) : Prop := match it with IK k => (k <= ng)%N | IL _ sk => (sk <= ng)%N end.

(** |init| keys woven with |init| flattenings, each followed by its key *)
Fixpoint pre (ks : list N) (fs : list (list item)) : list item :=
  match fs, ks with
  | f :: r, k :: ks' => f ++ IK k :: pre ks' r
  | _, _ => []
  end.

Lemma weave_cons_ne : forall k ks f r, r <> [] -> weave (k :: ks) (f :: r) = f ++ IK k :: weave ks r.
Proof. intros k ks f r H. destruct r; [contradiction|reflexivity]. Qed.

Lemma weave_snoc : forall fs ks f, length fs = length ks -> weave ks (fs ++ [f]) = pre ks fs ++ f.
Proof.
  induction fs as [|f0 r IH]; intros ks f Hlen.
  - destruct ks; [reflexivity|discriminate].
  - destruct ks as [|k ks']; [discriminate|]. simpl in Hlen.
    simpl app. rewrite weave_cons_ne by (destruct r; discriminate).
    rewrite IH by lia. simpl. rewrite <- app_assoc. reflexivity.
Qed.

Lemma pre_snoc : forall fs ks f k, length fs = length ks -> pre (ks ++ [k]) (fs ++ [f]) = pre ks fs ++ f ++ [IK k].
Proof.
  induction fs as [|f0 r IH]; intros ks f k Hlen.
  - destruct ks; [simpl; reflexivity|discriminate].
  - destruct ks as [|k0 ks']; [discriminate|]. simpl in *. rewrite IH by lia. rewrite <- app_assoc. reflexivity.
Qed.

(** splitting an inner node does not change the flattening *)
Lemma weave_split : forall v fs ks, 1 <= v -> v < length fs -> length fs = S (length ks) ->
  weave ks fs = weave (firstn (v - 1) ks) (firstn v fs) ++ IK (nth (v - 1) ks 0%N) :: weave (skipn v ks) (skipn v fs).
Proof.
  induction v as [|v IH]; intros fs ks Hv Hlt Hlen; [lia|].
  destruct fs as [|f r]; [simpl in Hlt; lia|]. destruct ks as [|k ks']; [simpl in *; lia|].
  destruct r as [|f2 r2]; [simpl in *; lia|].
  destruct v as [|v'].
  - simpl. reflexivity.
  - rewrite weave_cons_ne by discriminate.
    rewrite (IH (f2 :: r2) ks') by (simpl in *; lia).
    replace (S (S v') - 1) with (S v') by lia. replace (S v' - 1) with v' by lia.
    change (firstn (S v') (k :: ks')) with (k :: firstn v' ks').
    change (firstn (S (S v')) (f :: f2 :: r2)) with (f :: firstn (S v') (f2 :: r2)).
    rewrite weave_cons_ne by (simpl; discriminate).
    rewrite <- app_assoc. reflexivity.
Qed.

Lemma list_max_le : forall l x, In x l -> x <= list_max l.
Proof. induction l as [|y l IH]; intros x H; [contradiction|]. destruct H as [->|H]; simpl; [lia|specialize (IH x H); lia]. Qed.

Lemma list_max_incl : forall a b, incl a b -> list_max a <= list_max b.
Proof.
  induction a as [|x a IH]; intros b H; simpl; [lia|].
  assert (x <= list_max b) by (apply list_max_le; apply H; left; reflexivity).
  assert (list_max a <= list_max b) by (apply IH; intros y Hy; apply H; right; exact Hy). lia.
Qed.

Lemma upd_snoc : forall {A} (init : list A) c f, upd (length init) f (init ++ [c]) = init ++ [f c].
Proof. induction init as [|x r IH]; intros; simpl; [reflexivity|rewrite IH; reflexivity]. Qed.
Lemma upd_snoc2 : forall {A} (init : list A) l r f, upd (S (length init)) f (init ++ [l; r]) = init ++ [l; f r].
Proof. induction init as [|x t IH]; intros; simpl; [reflexivity|]. f_equal. apply (IH l r f). Qed.

Lemma slot_last : forall ng ks n i, Forall (fun k => (k <= ng)%N) ks -> slot ng ks n i = n - 1.
Proof.
  intros ng ks. induction ks as [|k r IH]; intros n i H; [reflexivity|].
  inversion H; subst. simpl. replace (ng <? k)%N with false by lia. apply IH; auto.
Qed.

Lemma snoc_decomp : forall {A} (l : list A), l <> [] -> exists init c, l = init ++ [c].
Proof. intros A l H. destruct (exists_last H) as (init & c & E). exists init, c. exact E. Qed.

Lemma forall_firstn : forall {A} (P : A -> Prop) n l, Forall P l -> Forall P (firstn n l).
Proof. intros A P n l H. rewrite <- (firstn_skipn n l) in H. apply Forall_app in H. tauto. Qed.
Lemma forall_skipn : forall {A} (P : A -> Prop) n l, Forall P l -> Forall P (skipn n l).
Proof. intros A P n l H. rewrite <- (firstn_skipn n l) in H. apply Forall_app in H. tauto. Qed.

Lemma firstn_len_app : forall {A} (a b : list A), firstn (length a) (a ++ b) = a.
Proof. intros. rewrite firstn_app, Nat.sub_diag, firstn_all. simpl. apply app_nil_r. Qed.
Lemma skipn_len_app : forall {A} (a b : list A), skipn (length a) (a ++ b) = b.
Proof. intros. rewrite skipn_app, Nat.sub_diag, skipn_all. reflexivity. Qed.
Lemma nth_error_snoc : forall {A} (a : list A) c, nth_error (a ++ [c]) (length a) = Some c.
Proof. intros. rewrite nth_error_app2 by lia. rewrite Nat.sub_diag. reflexivity. Qed.

Lemma pre_keys_le : forall ng fs ks x, length fs = length ks -> Forall (item_le ng) (pre ks fs ++ x) ->
  Forall (fun k => (k <= ng)%N) ks /\ Forall (item_le ng) x.
Proof.
  induction fs as [|f r IH]; intros ks x Hlen H.
  - destruct ks; [|discriminate]. split; [constructor|exact H].
  - destruct ks as [|k ks']; [discriminate|]. simpl in Hlen. simpl in H. rewrite <- app_assoc in H.
    apply Forall_app in H. destruct H as [_ H]. simpl in H. inversion H as [|? ? Hk Hr]; subst.
    destruct (IH ks' x ltac:(lia) Hr) as [G1 G2]. split; auto.
Qed.

Lemma height_inner_child : forall ks cs c, In c cs -> height c < height (Inner ks cs).
Proof. intros ks cs c H. simpl. apply Nat.lt_succ_r. apply list_max_le. apply in_map. exact H. Qed.

Lemma flat_inner_snoc : forall ks init c, length init = length ks ->
  flat (Inner ks (init ++ [c])) = pre ks (map flat init) ++ flat c.
Proof. intros. simpl. rewrite map_app. simpl. apply weave_snoc. rewrite map_length. assumption. Qed.

Lemma flat_inner_snoc2 : forall ks k init l r, length init = length ks ->
  flat (Inner (ks ++ [k]) (init ++ [l; r])) = pre ks (map flat init) ++ flat l ++ IK k :: flat r.
Proof.
  intros. simpl. change (init ++ [l; r]) with (init ++ [l] ++ [r]). rewrite app_assoc, map_app. simpl map at 2.
  rewrite weave_snoc by (rewrite map_length, !app_length; simpl; lia).
  rewrite map_app. simpl map. rewrite pre_snoc by (rewrite map_length; assumption).
  rewrite <- !app_assoc. reflexivity.
Qed.

Lemma insert_flat : forall bsz v ng, 2 <= bsz -> 1 <= v ->
  forall fuel n, wf v n -> height n < fuel -> maybe_split bsz v n = None ->
  Forall (item_le ng) (flat n) ->
  flat (insert_f fuel bsz v ng n) = flat_ins bsz ng (flat n) /\ wf v (insert_f fuel bsz v ng n).
Proof.
  intros bsz v ng Hbsz Hv. induction fuel as [|f IH]; intros n Hwf Hh Hnf Hle; [lia|].
  destruct n as [bs sk|ks cs].
  - simpl in Hnf. destruct (bs <? bsz) eqn:E; [|discriminate].
    simpl. unfold ins_last. rewrite E. split; [reflexivity|constructor].
  - inversion Hwf as [|? ? Hlen Hmax Hall]; subst.
    cbn [maybe_split] in Hnf. destruct (length cs <? 2 * v) eqn:Efull; [|discriminate]. clear Hnf.
    assert (Hne : cs <> []) by (destruct cs; [discriminate|discriminate]).
    destruct (snoc_decomp cs Hne) as (init & c & ->).
    rewrite app_length in Hlen, Hmax, Efull. simpl in Hlen, Hmax, Efull.
    assert (Hil : length init = length ks) by lia.
    rewrite flat_inner_snoc in * by assumption.
    destruct (pre_keys_le ng _ _ _ ltac:(rewrite map_length; exact Hil) Hle) as [Hks Hc].
    apply Forall_app in Hall. destruct Hall as [Hwi Hwc]. inversion Hwc as [|? ? Hwc' _]; subst.
    assert (Hhc : height c < f).
    { pose proof (height_inner_child ks (init ++ [c]) c ltac:(apply in_or_app; right; left; reflexivity)). lia. }
    pose proof (flat_alt v c Hwc') as Halt.
    cbn [insert_f]. rewrite slot_last by assumption. rewrite app_length. simpl length.
    replace (length init + 1 - 1) with (length init) by lia.
    rewrite nth_error_snoc.
    destruct (maybe_split bsz v c) as [[[l r] k]|] eqn:Esp.
    + rewrite firstn_len_app.
      replace (firstn (length init) ks) with ks by (rewrite Hil; symmetry; apply firstn_all).
      replace (skipn (length init) ks) with (@nil N) by (rewrite Hil; symmetry; apply skipn_all).
      assert (Hsk : skipn (S (length init)) (init ++ [c]) = []) by (apply skipn_all2; rewrite app_length; simpl; lia).
      rewrite Hsk.
      destruct c as [bs sk|ks' cs'].
      * (* the last child is a full leaf *)
        cbn [maybe_split] in Esp. destruct (bs <? bsz) eqn:E; [discriminate|]. inversion Esp; subst l r k. clear Esp.
        inversion Hc as [|? ? Hsk_le _]; subst. simpl in Hsk_le.
        replace (ng <? sk)%N with false by lia.
        rewrite upd_snoc2.
        destruct f as [|f']; [simpl in Hh; lia|].
        assert (Heq : Nat.eqb (S (bsz / 2)) (bsz / 2 + 1) = true) by (apply Nat.eqb_eq; lia).
        cbn [insert_f]. change (fst (Nat.divmod bsz 1 0 1)) with (bsz / 2). rewrite Heq.
        split.
        -- rewrite flat_inner_snoc2 by assumption. rewrite flat_ins_app by discriminate.
           cbn [flat flat_ins app]. unfold ins_last. rewrite E. reflexivity.
        -- constructor; [rewrite !app_length; simpl; lia| rewrite app_length; simpl; lia|].
           apply Forall_app. split; [assumption|]. repeat constructor.
      * (* the last child is a full inner node *)
        inversion Hwc' as [|? ? Hlen' Hmax' Hall']; subst.
        cbn [maybe_split] in Esp. destruct (length cs' <? 2 * v) eqn:E; [discriminate|]. inversion Esp; subst l r k. clear Esp.
        assert (Hcs' : length cs' = 2 * v) by lia.
        assert (Hsplit : flat (Inner ks' cs') =
                         flat (Inner (firstn (v - 1) ks') (firstn v cs')) ++ IK (nth (v - 1) ks' 0%N) :: flat (Inner (skipn v ks') (skipn v cs'))).
        { simpl. rewrite <- firstn_map, <- skipn_map. apply weave_split; rewrite ?map_length; lia. }
        rewrite Hsplit in Hc. apply Forall_app in Hc. destruct Hc as [_ Hc]. inversion Hc as [|? ? Hk_le Hr_le]; subst.
        simpl in Hk_le. replace (ng <? nth (v - 1) ks' 0%N)%N with false by lia.
        rewrite upd_snoc2.
        set (r := Inner (skipn v ks') (skipn v cs')) in *. set (l := Inner (firstn (v - 1) ks') (firstn v cs')) in *.
        assert (Hwr : wf v r).
        { constructor; [rewrite !skipn_length; lia|rewrite skipn_length; lia|apply forall_skipn; assumption]. }
        assert (Hwl : wf v l).
        { constructor; [rewrite !firstn_length; lia|rewrite firstn_length; lia|apply forall_firstn; assumption]. }
        assert (Hhr : height r < f).
        { assert (height r <= height (Inner ks' cs')).
          { simpl. apply le_n_S. apply list_max_incl. intros x Hx. apply in_map_iff in Hx. destruct Hx as (y & <- & Hy).
            apply in_map. rewrite <- (firstn_skipn v cs'). apply in_or_app. right. exact Hy. }
          lia. }
        assert (Hnfr : maybe_split bsz v r = None).
        { unfold r. cbn [maybe_split]. rewrite skipn_length. replace (length cs' - v <? 2 * v) with true by (symmetry; apply Nat.ltb_lt; lia). reflexivity. }
        destruct (IH r Hwr Hhr Hnfr Hr_le) as [Hfl Hwf'].
        split.
        -- rewrite flat_inner_snoc2 by assumption. rewrite Hfl. rewrite Hsplit.
           rewrite (flat_ins_app bsz ng (pre ks (map flat init)) _) by (intro Hx; apply app_eq_nil in Hx; destruct Hx; discriminate).
           f_equal.
           change (flat l ++ IK (nth (v - 1) ks' 0%N) :: flat r) with (flat l ++ [IK (nth (v - 1) ks' 0%N)] ++ flat r).
           rewrite app_assoc. rewrite flat_ins_app by (apply alt_nonempty; apply (flat_alt v); assumption).
           rewrite <- app_assoc. reflexivity.
        -- constructor; [rewrite !app_length; simpl; lia| rewrite app_length; simpl; lia|].
           apply Forall_app. split; [assumption|]. constructor; [assumption|]. constructor; [assumption|constructor].
    + (* no split *)
      rewrite upd_snoc.
      destruct (IH c Hwc' Hhc Esp Hc) as [Hfl Hwf'].
      split.
      * rewrite flat_inner_snoc by assumption. rewrite Hfl.
        rewrite flat_ins_app by (apply alt_nonempty; assumption). reflexivity.
      * constructor; [rewrite app_length; simpl; lia|rewrite app_length; simpl; lia|].
        apply Forall_app. split; [assumption|]. constructor; [assumption|constructor].
Qed.
