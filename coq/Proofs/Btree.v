(** C09 — the ngram B+-tree (Model/Btree.v): for keys inserted in ascending order (what newBtreeIndex does with
    the sorted ngramText section) [find] returns the bucket that holds the key, for EVERY number of keys.

    Method: the in-order "flattening" of a tree (leaf, key, leaf, key, ..., leaf).
      1. find on a well-formed tree with sorted separators = a linear walk over the flattening   (find_locate)
      2. insert of a key >= everything seen so far = a local rewrite of the END of the flattening (bt_insert_flat),
         including leaf splits, inner-node splits and root splits
      3. the flattening after n ascending inserts has a fixed shape (runs of bucketSize/2, longer last run) (shape). *)
From Coq Require Import ZifyBool ZifyNat ZifyN Sorted.
From ZV Require Import Lib.Base Lib.Varint Model.Format Model.Btree.
Open Scope nat_scope.

(* ------------------------------------------------------------------ induction principle for the nested type *)
Section NodeInd.
  Variable P : node -> Prop.
  Hypothesis HL : forall bs sk, P (Leaf bs sk).
  Hypothesis HI : forall ks cs, Forall P cs -> P (Inner ks cs).
  Fixpoint node_ind' (n : node) : P n :=
    match n with
    | Leaf bs sk => HL bs sk
    | Inner ks cs =>
      HI ks cs ((fix go (l : list node) : Forall P l :=
                   match l with [] => Forall_nil _ | c :: r => Forall_cons _ (node_ind' c) (go r) end) cs)
    end.
End NodeInd.

(* ------------------------------------------------------------------ flattening *)
Inductive item := IL (bs : nat) (sk : N) | IK (k : N).

Fixpoint weave (ks : list N) (fs : list (list item)) : list item :=
  match fs with
  | [] => []
  | [f] => f
  | f :: r => match ks with k :: ks' => f ++ IK k :: weave ks' r | [] => f ++ weave [] r end
  end.
Fixpoint flat (n : node) : list item :=
  match n with Leaf bs sk => [IL bs sk] | Inner ks cs => weave ks (map flat cs) end.

(** well formed for parameter v: |children| = |keys| + 1 and at most 2v children *)
Inductive wf (v : nat) : node -> Prop :=
| wf_leaf : forall bs sk, wf v (Leaf bs sk)
| wf_inner : forall ks cs, length cs = S (length ks) -> length cs <= 2 * v -> Forall (wf v) cs -> wf v (Inner ks cs).

Inductive alt : list item -> Prop :=
| alt1 : forall bs sk, alt [IL bs sk]
| alt2 : forall bs sk k l, alt l -> alt (IL bs sk :: IK k :: l).

Lemma alt_app : forall a b k, alt a -> alt b -> alt (a ++ IK k :: b).
Proof. intros a b k Ha Hb. induction Ha; simpl; constructor; auto. Qed.

Lemma alt_nonempty : forall l, alt l -> l <> [].
Proof. intros l H; inversion H; discriminate. Qed.

Lemma weave_alt : forall fs ks, Forall alt fs -> length fs = S (length ks) -> alt (weave ks fs).
Proof.
  induction fs as [|f r IH]; intros ks Hall Hlen; [discriminate|].
  inversion Hall as [|? ? Hf Hr]; subst. destruct r as [|f2 r2].
  - exact Hf.
  - destruct ks as [|k ks']; [simpl in Hlen; lia|].
    change (weave (k :: ks') (f :: f2 :: r2)) with (f ++ IK k :: weave ks' (f2 :: r2)).
    apply alt_app; [exact Hf|]. apply IH; [exact Hr|simpl in *; lia].
Qed.

Lemma flat_alt : forall v n, wf v n -> alt (flat n).
Proof.
  intros v n. induction n as [bs sk|ks cs IH] using node_ind'; intros Hwf.
  - constructor.
  - inversion Hwf as [|? ? Hlen Hmax Hall]; subst. simpl. apply weave_alt; [|rewrite map_length; exact Hlen].
    rewrite Forall_forall in *. intros f Hin. apply in_map_iff in Hin. destruct Hin as (c & <- & Hc). auto.
Qed.

Fixpoint nL (l : list item) : nat := match l with [] => 0 | IL _ _ :: r => S (nL r) | IK _ :: r => nL r end.
Fixpoint szL (l : list item) : nat := match l with [] => 0 | IL bs _ :: r => bs + szL r | IK _ :: r => szL r end.

Lemma nL_app : forall a b, nL (a ++ b) = nL a + nL b.
Proof. induction a as [|[bs sk|k] a IH]; intros b; simpl; auto. Qed.
Lemma szL_app : forall a b, szL (a ++ b) = szL a + szL b.
Proof. induction a as [|[bs sk|k] a IH]; intros b; simpl; auto. rewrite IH. lia. Qed.

Lemma weave_counts : forall fs ks,
  nL (weave ks fs) = list_sum (map nL fs) /\ szL (weave ks fs) = list_sum (map szL fs).
Proof.
  induction fs as [|f r IH]; intros ks; [split; reflexivity|].
  destruct r as [|f2 r2].
  - simpl. split; lia.
  - destruct ks as [|k ks'].
    + change (weave [] (f :: f2 :: r2)) with (f ++ weave [] (f2 :: r2)).
      rewrite nL_app, szL_app. destruct (IH []) as [E1 E2]. rewrite E1, E2. split; reflexivity.
    + change (weave (k :: ks') (f :: f2 :: r2)) with (f ++ IK k :: weave ks' (f2 :: r2)).
      rewrite nL_app, szL_app. cbn [nL szL]. destruct (IH ks') as [E1 E2]. rewrite E1, E2. split; reflexivity.
Qed.

Lemma flat_counts : forall n, nL (flat n) = nleaves n /\ szL (flat n) = nsizes n.
Proof.
  induction n as [bs sk|ks cs IH] using node_ind'.
  - simpl. split; lia.
  - simpl. destruct (weave_counts (map flat cs) ks) as [E1 E2]. rewrite E1, E2, !map_map.
    split; f_equal; apply map_ext_in; intros c Hc; rewrite Forall_forall in IH; destruct (IH c Hc); auto.
Qed.

(* ------------------------------------------------------------------ 1. find = linear walk *)
Fixpoint locate (l : list item) (ng : N) : nat * nat :=
  match l with
  | [] => (0, 0)
  | IL bs _ :: r =>
    match r with
    | IK k :: r' => if (ng <? k)%N then (0, 0) else let '(a, b) := locate r' ng in (S a, bs + b)
    | _ => (0, 0)
    end
  | IK _ :: r => locate r ng
  end.

Definition keys_of (l : list item) : list N := flat_map (fun it => match it with IK k => [k] | _ => [] end) l.

Lemma keys_of_app : forall a b, keys_of (a ++ b) = keys_of a ++ keys_of b.
Proof. intros. unfold keys_of. apply flat_map_app. Qed.

Lemma keys_of_K : forall k x, keys_of (IK k :: x) = k :: keys_of x.
Proof. reflexivity. Qed.

Lemma locate_app_lt : forall fl k rest ng, alt fl -> (ng < k)%N ->
  locate (fl ++ IK k :: rest) ng = locate fl ng.
Proof.
  intros fl k rest ng Ha Hlt. induction Ha as [bs sk|bs sk k1 l Hl IH].
  - simpl. replace (ng <? k)%N with true by lia. reflexivity.
  - change ((IL bs sk :: IK k1 :: l) ++ IK k :: rest) with (IL bs sk :: IK k1 :: (l ++ IK k :: rest)).
    cbn [locate]. rewrite IH. reflexivity.
Qed.

Lemma locate_app_ge : forall fl k rest ng, alt fl -> Forall (fun x => (x <= ng)%N) (keys_of fl) -> (k <= ng)%N ->
  locate (fl ++ IK k :: rest) ng = (let '(a, b) := locate rest ng in (nL fl + a, szL fl + b)).
Proof.
  intros fl k rest ng Ha. induction Ha as [bs sk|bs sk k1 l Hl IH]; intros Hall Hk.
  - simpl. replace (ng <? k)%N with false by lia. destruct (locate rest ng) as [a b]. f_equal; lia.
  - change ((IL bs sk :: IK k1 :: l) ++ IK k :: rest) with (IL bs sk :: IK k1 :: (l ++ IK k :: rest)).
    cbn [locate]. simpl in Hall. inversion Hall as [|? ? Hk1 Hr]; subst.
    replace (ng <? k1)%N with false by lia. rewrite IH by auto.
    destruct (locate rest ng) as [a b]. simpl. f_equal; lia.
Qed.

Lemma sorted_app_inv : forall (a : list N) k b, StronglySorted N.le (a ++ k :: b) ->
  StronglySorted N.le a /\ StronglySorted N.le b /\ Forall (fun x => (x <= k)%N) a.
Proof.
  induction a as [|x a IH]; intros k b H; simpl in H.
  - inversion H; subst. repeat split; auto. constructor.
  - inversion H as [|? ? Hs Hf]; subst. destruct (IH _ _ Hs) as (S1 & S2 & F).
    repeat split; auto.
    + constructor; auto. rewrite Forall_forall in *. intros y Hy. apply Hf. apply in_or_app. auto.
    + constructor; auto. rewrite Forall_forall in Hf. apply Hf. apply in_or_app. right. left. reflexivity.
Qed.

Lemma sorted_app_l : forall (a b : list N), StronglySorted N.le (a ++ b) -> StronglySorted N.le a /\ StronglySorted N.le b.
Proof.
  induction a as [|x a IH]; intros b H; simpl in H; [split; [constructor|auto]|].
  inversion H as [|? ? Hs Hf]; subst. destruct (IH _ Hs). split; auto. constructor; auto.
  rewrite Forall_forall in *. intros y Hy. apply Hf. apply in_or_app. auto.
Qed.

Definition ksorted (l : list item) : Prop := StronglySorted N.le (keys_of l).

Lemma find_go_cons2 : forall ng k ks' fc nl ns x r,
  find_go ng (k :: ks') ((fc, (nl, ns)) :: x :: r)
  = if (ng <? k)%N then fc else let '(a, b) := find_go ng ks' (x :: r) in (nl + a, ns + b).
Proof. reflexivity. Qed.

Lemma find_go_locate : forall ng cs ks v,
  Forall (fun c => wf v c -> ksorted (flat c) -> find c ng = locate (flat c) ng) cs ->
  Forall (wf v) cs -> length cs = S (length ks) -> ksorted (weave ks (map flat cs)) ->
  find_go ng ks (map (fun c => (find c ng, (nleaves c, nsizes c))) cs) = locate (weave ks (map flat cs)) ng.
Proof.
  intros ng cs. induction cs as [|c r IH]; intros ks v HP Hwf Hlen Hs; [discriminate|].
  inversion HP as [|? ? HPc HPr]; subst. inversion Hwf as [|? ? Hwc Hwr]; subst.
  destruct r as [|c2 r2].
  - simpl. apply HPc; auto.
  - destruct ks as [|k ks']; [simpl in Hlen; lia|].
    change (weave (k :: ks') (map flat (c :: c2 :: r2))) with (flat c ++ IK k :: weave ks' (map flat (c2 :: r2))) in *.
    unfold ksorted in Hs. rewrite keys_of_app, keys_of_K in Hs.
    destruct (sorted_app_inv _ _ _ Hs) as (S1 & S2 & F).
    pose proof (flat_alt v c Hwc) as Ha.
    set (FF := fun c0 : node => (find c0 ng, (nleaves c0, nsizes c0))).
    change (map FF (c :: c2 :: r2)) with (FF c :: FF c2 :: map FF r2).
    unfold FF at 1. rewrite find_go_cons2. change (FF c2 :: map FF r2) with (map FF (c2 :: r2)).
    destruct (ng <? k)%N eqn:E.
    + rewrite locate_app_lt by (auto; lia). apply HPc; auto.
    + rewrite locate_app_ge; auto; [| |lia].
      * subst FF. rewrite (IH ks' v); auto; try (simpl in *; lia).
        destruct (flat_counts c) as [E1 E2]. rewrite E1, E2. reflexivity.
      * rewrite Forall_forall in *. intros x Hx. specialize (F x Hx). lia.
Qed.

Lemma find_locate : forall v n ng, wf v n -> ksorted (flat n) -> find n ng = locate (flat n) ng.
Proof.
  intros v n ng. induction n as [bs sk|ks cs IH] using node_ind'; intros Hwf Hs.
  - reflexivity.
  - inversion Hwf as [|? ? Hlen Hmax Hall]; subst. simpl. apply (find_go_locate ng cs ks v); auto.
Qed.

(* ------------------------------------------------------------------ 2. insert = rewrite of the end *)
Definition ins_last (bsz : nat) (ng : N) (bs : nat) (sk : N) : list item :=
  if bs <? bsz then [IL (S bs) (if Nat.eqb (S bs) (bsz / 2 + 1) then ng else sk)]
  else [IL (bsz / 2) 0%N; IK sk; IL (S (bsz / 2)) ng].
Fixpoint flat_ins (bsz : nat) (ng : N) (l : list item) : list item :=
  match l with
  | [] => []
  | [IL bs sk] => ins_last bsz ng bs sk
  | x :: r => x :: flat_ins bsz ng r
  end.

Lemma flat_ins_cons : forall bsz ng x r, r <> [] -> flat_ins bsz ng (x :: r) = x :: flat_ins bsz ng r.
Proof. intros bsz ng x r H. destruct r; [contradiction|]. destruct x; reflexivity. Qed.

Lemma flat_ins_app : forall bsz ng a b, b <> [] -> flat_ins bsz ng (a ++ b) = a ++ flat_ins bsz ng b.
Proof.
  intros bsz ng a b Hb. induction a as [|x a IH]; [reflexivity|].
  simpl app. rewrite flat_ins_cons, IH; [reflexivity|].
  destruct a; simpl; [exact Hb|discriminate].
Qed.

(** keys and split keys bounded by the key being inserted *)
Definition item_le (ng : N) (it : item) : Prop := match it with IK k => (k <= ng)%N | IL _ sk => (sk <= ng)%N end.

(** |init| keys woven with |init| flattenings, each followed by its key *)
Fixpoint pre (ks : list N) (fs : list (list item)) : list item :=
  match fs, ks with
  | f :: r, k :: ks' => f ++ IK k :: pre ks' r
  | _, _ => []
  end.

Lemma weave_cons_ne : forall k ks f r, r <> [] -> weave (k :: ks) (f :: r) = f ++ IK k :: weave ks r.
Proof. intros k ks f r H. destruct r; [contradiction|reflexivity]. Qed.

Lemma weave_snoc : forall fs ks f, length fs = length ks -> weave ks (fs ++ [f]) = pre ks fs ++ f.
Proof.
  induction fs as [|f0 r IH]; intros ks f Hlen.
  - destruct ks; [reflexivity|discriminate].
  - destruct ks as [|k ks']; [discriminate|]. simpl in Hlen.
    simpl app. rewrite weave_cons_ne by (destruct r; discriminate).
    rewrite IH by lia. simpl. rewrite <- app_assoc. reflexivity.
Qed.

Lemma pre_snoc : forall fs ks f k, length fs = length ks -> pre (ks ++ [k]) (fs ++ [f]) = pre ks fs ++ f ++ [IK k].
Proof.
  induction fs as [|f0 r IH]; intros ks f k Hlen.
  - destruct ks; [simpl; reflexivity|discriminate].
  - destruct ks as [|k0 ks']; [discriminate|]. simpl in *. rewrite IH by lia. rewrite <- app_assoc. reflexivity.
Qed.

(** splitting an inner node does not change the flattening *)
Lemma weave_split : forall v fs ks, 1 <= v -> v < length fs -> length fs = S (length ks) ->
  weave ks fs = weave (firstn (v - 1) ks) (firstn v fs) ++ IK (nth (v - 1) ks 0%N) :: weave (skipn v ks) (skipn v fs).
Proof.
  induction v as [|v IH]; intros fs ks Hv Hlt Hlen; [lia|].
  destruct fs as [|f r]; [simpl in Hlt; lia|]. destruct ks as [|k ks']; [simpl in *; lia|].
  destruct r as [|f2 r2]; [simpl in *; lia|].
  destruct v as [|v'].
  - simpl. reflexivity.
  - rewrite weave_cons_ne by discriminate.
    rewrite (IH (f2 :: r2) ks') by (simpl in *; lia).
    replace (S (S v') - 1) with (S v') by lia. replace (S v' - 1) with v' by lia.
    change (firstn (S v') (k :: ks')) with (k :: firstn v' ks').
    change (firstn (S (S v')) (f :: f2 :: r2)) with (f :: firstn (S v') (f2 :: r2)).
    rewrite weave_cons_ne by (simpl; discriminate).
    rewrite <- app_assoc. reflexivity.
Qed.

Lemma list_max_le : forall l x, In x l -> x <= list_max l.
Proof. induction l as [|y l IH]; intros x H; [contradiction|]. destruct H as [->|H]; simpl; [lia|specialize (IH x H); lia]. Qed.

Lemma list_max_incl : forall a b, incl a b -> list_max a <= list_max b.
Proof.
  induction a as [|x a IH]; intros b H; simpl; [lia|].
  assert (x <= list_max b) by (apply list_max_le; apply H; left; reflexivity).
  assert (list_max a <= list_max b) by (apply IH; intros y Hy; apply H; right; exact Hy). lia.
Qed.

Lemma upd_snoc : forall {A} (init : list A) c f, upd (length init) f (init ++ [c]) = init ++ [f c].
Proof. induction init as [|x r IH]; intros; simpl; [reflexivity|rewrite IH; reflexivity]. Qed.
Lemma upd_snoc2 : forall {A} (init : list A) l r f, upd (S (length init)) f (init ++ [l; r]) = init ++ [l; f r].
Proof. induction init as [|x t IH]; intros; simpl; [reflexivity|]. f_equal. apply (IH l r f). Qed.

Lemma slot_last : forall ng ks n i, Forall (fun k => (k <= ng)%N) ks -> slot ng ks n i = n - 1.
Proof.
  intros ng ks. induction ks as [|k r IH]; intros n i H; [reflexivity|].
  inversion H; subst. simpl. replace (ng <? k)%N with false by lia. apply IH; auto.
Qed.

Lemma snoc_decomp : forall {A} (l : list A), l <> [] -> exists init c, l = init ++ [c].
Proof. intros A l H. destruct (exists_last H) as (init & c & E). exists init, c. exact E. Qed.

Lemma forall_firstn : forall {A} (P : A -> Prop) n l, Forall P l -> Forall P (firstn n l).
Proof. intros A P n l H. rewrite <- (firstn_skipn n l) in H. apply Forall_app in H. tauto. Qed.
Lemma forall_skipn : forall {A} (P : A -> Prop) n l, Forall P l -> Forall P (skipn n l).
Proof. intros A P n l H. rewrite <- (firstn_skipn n l) in H. apply Forall_app in H. tauto. Qed.

Lemma firstn_len_app : forall {A} (a b : list A), firstn (length a) (a ++ b) = a.
Proof. intros. rewrite firstn_app, Nat.sub_diag, firstn_all. simpl. apply app_nil_r. Qed.
Lemma skipn_len_app : forall {A} (a b : list A), skipn (length a) (a ++ b) = b.
Proof. intros. rewrite skipn_app, Nat.sub_diag, skipn_all. reflexivity. Qed.
Lemma nth_error_snoc : forall {A} (a : list A) c, nth_error (a ++ [c]) (length a) = Some c.
Proof. intros. rewrite nth_error_app2 by lia. rewrite Nat.sub_diag. reflexivity. Qed.

Lemma pre_keys_le : forall ng fs ks x, length fs = length ks -> Forall (item_le ng) (pre ks fs ++ x) ->
  Forall (fun k => (k <= ng)%N) ks /\ Forall (item_le ng) x.
Proof.
  induction fs as [|f r IH]; intros ks x Hlen H.
  - destruct ks; [|discriminate]. split; [constructor|exact H].
  - destruct ks as [|k ks']; [discriminate|]. simpl in Hlen. simpl in H. rewrite <- app_assoc in H.
    apply Forall_app in H. destruct H as [_ H]. simpl in H. inversion H as [|? ? Hk Hr]; subst.
    destruct (IH ks' x ltac:(lia) Hr) as [G1 G2]. split; auto.
Qed.

Lemma height_inner_child : forall ks cs c, In c cs -> height c < height (Inner ks cs).
Proof. intros ks cs c H. simpl. apply Nat.lt_succ_r. apply list_max_le. apply in_map. exact H. Qed.

Lemma flat_inner_snoc : forall ks init c, length init = length ks ->
  flat (Inner ks (init ++ [c])) = pre ks (map flat init) ++ flat c.
Proof. intros. simpl. rewrite map_app. simpl. apply weave_snoc. rewrite map_length. assumption. Qed.

Lemma flat_inner_snoc2 : forall ks k init l r, length init = length ks ->
  flat (Inner (ks ++ [k]) (init ++ [l; r])) = pre ks (map flat init) ++ flat l ++ IK k :: flat r.
Proof.
  intros. simpl. change (init ++ [l; r]) with (init ++ [l] ++ [r]). rewrite app_assoc, map_app. simpl map at 2.
  rewrite weave_snoc by (rewrite map_length, !app_length; simpl; lia).
  rewrite map_app. simpl map. rewrite pre_snoc by (rewrite map_length; assumption).
  rewrite <- !app_assoc. reflexivity.
Qed.

Lemma insert_flat : forall bsz v ng, 2 <= bsz -> 1 <= v ->
  forall fuel n, wf v n -> height n < fuel -> maybe_split bsz v n = None ->
  Forall (item_le ng) (flat n) ->
  flat (insert_f fuel bsz v ng n) = flat_ins bsz ng (flat n) /\ wf v (insert_f fuel bsz v ng n).
Proof.
  intros bsz v ng Hbsz Hv. induction fuel as [|f IH]; intros n Hwf Hh Hnf Hle; [lia|].
  destruct n as [bs sk|ks cs].
  - simpl in Hnf. destruct (bs <? bsz) eqn:E; [|discriminate].
    simpl. unfold ins_last. rewrite E. split; [reflexivity|constructor].
  - inversion Hwf as [|? ? Hlen Hmax Hall]; subst.
    cbn [maybe_split] in Hnf. destruct (length cs <? 2 * v) eqn:Efull; [|discriminate]. clear Hnf.
    assert (Hne : cs <> []) by (destruct cs; [discriminate|discriminate]).
    destruct (snoc_decomp cs Hne) as (init & c & ->).
    rewrite app_length in Hlen, Hmax, Efull. simpl in Hlen, Hmax, Efull.
    assert (Hil : length init = length ks) by lia.
    rewrite flat_inner_snoc in * by assumption.
    destruct (pre_keys_le ng _ _ _ ltac:(rewrite map_length; exact Hil) Hle) as [Hks Hc].
    apply Forall_app in Hall. destruct Hall as [Hwi Hwc]. inversion Hwc as [|? ? Hwc' _]; subst.
    assert (Hhc : height c < f).
    { pose proof (height_inner_child ks (init ++ [c]) c ltac:(apply in_or_app; right; left; reflexivity)). lia. }
    pose proof (flat_alt v c Hwc') as Halt.
    cbn [insert_f]. rewrite slot_last by assumption. rewrite app_length. simpl length.
    replace (length init + 1 - 1) with (length init) by lia.
    rewrite nth_error_snoc.
    destruct (maybe_split bsz v c) as [[[l r] k]|] eqn:Esp.
    + rewrite firstn_len_app.
      replace (firstn (length init) ks) with ks by (rewrite Hil; symmetry; apply firstn_all).
      replace (skipn (length init) ks) with (@nil N) by (rewrite Hil; symmetry; apply skipn_all).
      assert (Hsk : skipn (S (length init)) (init ++ [c]) = []) by (apply skipn_all2; rewrite app_length; simpl; lia).
      rewrite Hsk.
      destruct c as [bs sk|ks' cs'].
      * (* the last child is a full leaf *)
        cbn [maybe_split] in Esp. destruct (bs <? bsz) eqn:E; [discriminate|]. inversion Esp; subst l r k. clear Esp.
        inversion Hc as [|? ? Hsk_le _]; subst. simpl in Hsk_le.
        replace (ng <? sk)%N with false by lia.
        rewrite upd_snoc2.
        destruct f as [|f']; [simpl in Hh; lia|].
        assert (Heq : Nat.eqb (S (bsz / 2)) (bsz / 2 + 1) = true) by (apply Nat.eqb_eq; lia).
        cbn [insert_f]. change (fst (Nat.divmod bsz 1 0 1)) with (bsz / 2). rewrite Heq.
        split.
        -- rewrite flat_inner_snoc2 by assumption. rewrite flat_ins_app by discriminate.
           cbn [flat flat_ins app]. unfold ins_last. rewrite E. reflexivity.
        -- constructor; [rewrite !app_length; simpl; lia| rewrite app_length; simpl; lia|].
           apply Forall_app. split; [assumption|]. repeat constructor.
      * (* the last child is a full inner node *)
        inversion Hwc' as [|? ? Hlen' Hmax' Hall']; subst.
        cbn [maybe_split] in Esp. destruct (length cs' <? 2 * v) eqn:E; [discriminate|]. inversion Esp; subst l r k. clear Esp.
        assert (Hcs' : length cs' = 2 * v) by lia.
        assert (Hsplit : flat (Inner ks' cs') =
                         flat (Inner (firstn (v - 1) ks') (firstn v cs')) ++ IK (nth (v - 1) ks' 0%N) :: flat (Inner (skipn v ks') (skipn v cs'))).
        { simpl. rewrite <- firstn_map, <- skipn_map. apply weave_split; rewrite ?map_length; lia. }
        rewrite Hsplit in Hc. apply Forall_app in Hc. destruct Hc as [_ Hc]. inversion Hc as [|? ? Hk_le Hr_le]; subst.
        simpl in Hk_le. replace (ng <? nth (v - 1) ks' 0%N)%N with false by lia.
        rewrite upd_snoc2.
        set (r := Inner (skipn v ks') (skipn v cs')) in *. set (l := Inner (firstn (v - 1) ks') (firstn v cs')) in *.
        assert (Hwr : wf v r).
        { constructor; [rewrite !skipn_length; lia|rewrite skipn_length; lia|apply forall_skipn; assumption]. }
        assert (Hwl : wf v l).
        { constructor; [rewrite !firstn_length; lia|rewrite firstn_length; lia|apply forall_firstn; assumption]. }
        assert (Hhr : height r < f).
        { assert (height r <= height (Inner ks' cs')).
          { simpl. apply le_n_S. apply list_max_incl. intros x Hx. apply in_map_iff in Hx. destruct Hx as (y & <- & Hy).
            apply in_map. rewrite <- (firstn_skipn v cs'). apply in_or_app. right. exact Hy. }
          lia. }
        assert (Hnfr : maybe_split bsz v r = None).
        { unfold r. cbn [maybe_split]. rewrite skipn_length. replace (length cs' - v <? 2 * v) with true by (symmetry; apply Nat.ltb_lt; lia). reflexivity. }
        destruct (IH r Hwr Hhr Hnfr Hr_le) as [Hfl Hwf'].
        split.
        -- rewrite flat_inner_snoc2 by assumption. rewrite Hfl. rewrite Hsplit.
           rewrite (flat_ins_app bsz ng (pre ks (map flat init)) _) by (intro Hx; apply app_eq_nil in Hx; destruct Hx; discriminate).
           f_equal.
           change (flat l ++ IK (nth (v - 1) ks' 0%N) :: flat r) with (flat l ++ [IK (nth (v - 1) ks' 0%N)] ++ flat r).
           rewrite app_assoc. rewrite flat_ins_app by (apply alt_nonempty; apply (flat_alt v); assumption).
           rewrite <- app_assoc. reflexivity.
        -- constructor; [rewrite !app_length; simpl; lia| rewrite app_length; simpl; lia|].
           apply Forall_app. split; [assumption|]. constructor; [assumption|]. constructor; [assumption|constructor].
    + (* no split *)
      rewrite upd_snoc.
      destruct (IH c Hwc' Hhc Esp Hc) as [Hfl Hwf'].
      split.
      * rewrite flat_inner_snoc by assumption. rewrite Hfl.
        rewrite flat_ins_app by (apply alt_nonempty; assumption). reflexivity.
      * constructor; [rewrite app_length; simpl; lia|rewrite app_length; simpl; lia|].
        apply Forall_app. split; [assumption|]. constructor; [assumption|constructor].
Qed.

Lemma split_inner_props : forall v ks' cs', 1 <= v -> wf v (Inner ks' cs') -> length cs' = 2 * v ->
  let l := Inner (firstn (v - 1) ks') (firstn v cs') in
  let r := Inner (skipn v ks') (skipn v cs') in
  flat (Inner ks' cs') = flat l ++ IK (nth (v - 1) ks' 0%N) :: flat r /\ wf v l /\ wf v r /\
  height l <= height (Inner ks' cs') /\ height r <= height (Inner ks' cs').
Proof.
  intros v ks' cs' Hv Hwf Hcs'. inversion Hwf as [|? ? Hlen' Hmax' Hall']; subst. cbv zeta.
  split; [|split; [|split; [|split]]].
  - simpl. rewrite <- firstn_map, <- skipn_map. apply weave_split; rewrite ?map_length; lia.
  - constructor; [rewrite !firstn_length; lia|rewrite firstn_length; lia|apply forall_firstn; assumption].
  - constructor; [rewrite !skipn_length; lia|rewrite skipn_length; lia|apply forall_skipn; assumption].
  - simpl. apply le_n_S. apply list_max_incl. intros x Hx. apply in_map_iff in Hx. destruct Hx as (y & <- & Hy).
    apply in_map. rewrite <- (firstn_skipn v cs'). apply in_or_app. left. exact Hy.
  - simpl. apply le_n_S. apply list_max_incl. intros x Hx. apply in_map_iff in Hx. destruct Hx as (y & <- & Hy).
    apply in_map. rewrite <- (firstn_skipn v cs'). apply in_or_app. right. exact Hy.
Qed.

(** btree.insert (root split included) on the flattening *)
Lemma bt_insert_flat : forall bsz v ng root, 2 <= bsz -> 2 <= v -> wf v root ->
  Forall (item_le ng) (flat root) ->
  flat (bt_insert bsz v root ng) = flat_ins bsz ng (flat root) /\ wf v (bt_insert bsz v root ng).
Proof.
  intros bsz v ng root Hbsz Hv Hwf Hle. unfold bt_insert.
  destruct (maybe_split bsz v root) as [[[l r] k]|] eqn:Esp.
  - destruct root as [bs sk|ks cs].
    + cbn [maybe_split] in Esp. destruct (bs <? bsz) eqn:E; [discriminate|]. injection Esp as <- <- <-.
      change (fst (Nat.divmod bsz 1 0 1)) with (bsz / 2).
      inversion Hle as [|? ? Hsk _]; subst. simpl in Hsk.
      destruct (insert_flat bsz v ng ltac:(lia) ltac:(lia) (S (height (Inner [sk] [Leaf (bsz / 2) 0%N; Leaf (bsz / 2) 0%N])))
                  (Inner [sk] [Leaf (bsz / 2) 0%N; Leaf (bsz / 2) 0%N])) as [Hfl Hw].
      * constructor; [reflexivity|simpl; lia|repeat constructor].
      * lia.
      * cbn [maybe_split length]. replace (2 <? 2 * v) with true by (symmetry; apply Nat.ltb_lt; lia). reflexivity.
      * cbn [flat weave map app]. repeat constructor; simpl; auto; lia.
      * split; [|exact Hw]. rewrite Hfl. cbn [flat weave map app flat_ins]. unfold ins_last. rewrite E.
        replace (bsz / 2 <? bsz) with true by (symmetry; apply Nat.ltb_lt; apply Nat.div_lt; lia).
        replace (Nat.eqb (S (bsz / 2)) (bsz / 2 + 1)) with true by (symmetry; apply Nat.eqb_eq; lia). reflexivity.
    + cbn [maybe_split] in Esp. destruct (length cs <? 2 * v) eqn:E; [discriminate|]. injection Esp as <- <- <-.
      inversion Hwf as [|? ? Hlen Hmax Hall]; subst.
      assert (Hcs : length cs = 2 * v) by lia.
      destruct (split_inner_props v ks cs ltac:(lia) Hwf Hcs) as (Hsplit & Hwl & Hwr & _ & _).
      set (l := Inner (firstn (v - 1) ks) (firstn v cs)) in *. set (r := Inner (skipn v ks) (skipn v cs)) in *.
      set (k := nth (v - 1) ks 0%N) in *.
      assert (Hflat' : flat (Inner [k] [l; r]) = flat (Inner ks cs)).
      { rewrite Hsplit. cbn [flat weave map]. destruct (map flat [r]) eqn:Em; [discriminate|]. reflexivity. }
      destruct (insert_flat bsz v ng ltac:(lia) ltac:(lia) (S (height (Inner [k] [l; r]))) (Inner [k] [l; r])) as [Hfl Hw].
      * constructor; [reflexivity|simpl; lia|constructor; [assumption|constructor; [assumption|constructor]]].
      * lia.
      * cbn [maybe_split length]. replace (2 <? 2 * v) with true by (symmetry; apply Nat.ltb_lt; lia). reflexivity.
      * rewrite Hflat'. exact Hle.
      * split; [|exact Hw]. rewrite Hfl, Hflat'. reflexivity.
  - apply insert_flat; auto; lia.
Qed.

(* ------------------------------------------------------------------ 3. the flattening after ascending inserts *)

(** keys strictly ascending (index form) *)
Definition asc (gs : list N) : Prop := forall i j, i < j < length gs -> (nth i gs 0 < nth j gs 0)%N.

(** [shape half fl gs]: fl is the flattening after inserting gs (ascending) with bucketSize = 2*half:
    runs of exactly [half] keys, each followed by the first key of the rest, and a last run of 1..2*half keys
    (0 only for the empty tree) whose split key is its (half+1)-th key once it has one. *)
Inductive shape (half : nat) : list item -> list N -> Prop :=
| sh_last : forall n sk gs, n = length gs -> n <= 2 * half ->
    (half < n -> sk = nth half gs 0%N) -> (n <= half -> sk = 0%N) -> shape half [IL n sk] gs
| sh_cons : forall k fl g1 gs', length g1 = half -> k = nth 0 gs' 0%N -> half < length gs' ->
    shape half fl gs' -> shape half (IL half 0%N :: IK k :: fl) (g1 ++ gs').

Lemma shape_nonempty : forall half fl gs, shape half fl gs -> fl <> [].
Proof. intros half fl gs H; inversion H; discriminate. Qed.

Lemma shape_ins : forall half fl gs g, 1 <= half -> shape half fl gs ->
  shape half (flat_ins (2 * half) g fl) (gs ++ [g]).
Proof.
  intros half fl gs g Hh H. induction H as [n sk gs Hn Hmax Hsk Hsk0|k fl g1 gs' Hg1 Hk Hlen Hsh IH].
  - cbn [flat_ins]. unfold ins_last. replace (2 * half / 2) with half by (rewrite Nat.mul_comm, Nat.div_mul; lia).
    destruct (n <? 2 * half) eqn:E.
    + apply Nat.ltb_lt in E. constructor.
      * rewrite app_length. simpl. lia.
      * lia.
      * intros Hlt. destruct (Nat.eqb (S n) (half + 1)) eqn:E2.
        -- apply Nat.eqb_eq in E2. assert (half = length gs) by lia. subst half.
           rewrite app_nth2 by lia. rewrite Nat.sub_diag. reflexivity.
        -- apply Nat.eqb_neq in E2. rewrite app_nth1 by lia. apply Hsk. lia.
      * intros Hle. destruct (Nat.eqb (S n) (half + 1)) eqn:E2; [apply Nat.eqb_eq in E2; lia|]. apply Hsk0. lia.
    + apply Nat.ltb_ge in E. assert (n = 2 * half) by lia.
      rewrite <- (firstn_skipn half gs). rewrite <- app_assoc.
      assert (Hf : length (firstn half gs) = half) by (rewrite firstn_length; lia).
      assert (Hs : length (skipn half gs) = half) by (rewrite skipn_length; lia).
      rewrite Hsk by lia.
      constructor; auto.
      * rewrite app_nth1 by lia. rewrite <- (firstn_skipn half gs) at 1. rewrite app_nth2 by lia. rewrite Hf, Nat.sub_diag. reflexivity.
      * rewrite app_length. simpl. lia.
      * constructor.
        -- rewrite app_length. simpl. lia.
        -- lia.
        -- intros _. rewrite app_nth2 by lia. rewrite Hs, Nat.sub_diag. reflexivity.
        -- lia.
  - rewrite flat_ins_cons by discriminate. rewrite flat_ins_cons by (intro Hx; eapply shape_nonempty; [exact Hsh|];
       destruct fl; [reflexivity|]; exfalso; destruct i; destruct fl; simpl in Hx; try discriminate;
       unfold ins_last in Hx; destruct (bs <? 2 * half); discriminate).
    rewrite <- app_assoc. constructor; auto.
    + rewrite app_nth1 by lia. exact Hk.
    + rewrite app_length. lia.
Qed.

Lemma asc_app_r : forall g1 gs', asc (g1 ++ gs') -> asc gs'.
Proof.
  intros g1 gs' H i j Hij. specialize (H (length g1 + i) (length g1 + j)).
  rewrite !app_nth2 in H by lia. replace (length g1 + i - length g1) with i in H by lia.
  replace (length g1 + j - length g1) with j in H by lia. apply H. rewrite app_length. lia.
Qed.

Lemma asc_first_le : forall gs x, asc gs -> In x gs -> (nth 0 gs 0 <= x)%N.
Proof.
  intros gs x H Hin. destruct (In_nth gs x 0%N Hin) as (i & Hi & <-).
  destruct i; [lia|]. specialize (H 0 (S i) ltac:(lia)). lia.
Qed.

Lemma asc_snoc_lt : forall gs g x, asc (gs ++ [g]) -> In x gs -> (x < g)%N.
Proof.
  intros gs g x H Hin. destruct (In_nth gs x 0%N Hin) as (i & Hi & <-).
  specialize (H i (length gs)). rewrite app_nth1, app_nth2, Nat.sub_diag in H by lia. simpl in H.
  apply H. rewrite app_length. simpl. lia.
Qed.

Lemma shape_keys_in : forall half fl gs, shape half fl gs -> Forall (fun k => In k gs) (keys_of fl).
Proof.
  intros half fl gs H. induction H as [n sk gs Hn Hmax Hsk Hsk0|k fl g1 gs' Hg1 Hk Hlen Hsh IH].
  - constructor.
  - cbn [keys_of flat_map app]. constructor.
    + apply in_or_app. right. subst k. apply nth_In. lia.
    + rewrite Forall_forall in *. intros x Hx. apply in_or_app. right. apply IH. exact Hx.
Qed.

Lemma shape_ksorted : forall half fl gs, shape half fl gs -> asc gs -> ksorted fl.
Proof.
  intros half fl gs H. induction H as [n sk gs Hn Hmax Hsk Hsk0|k fl g1 gs' Hg1 Hk Hlen Hsh IH]; intros Ha.
  - constructor.
  - unfold ksorted. cbn [keys_of flat_map app]. pose proof (asc_app_r _ _ Ha) as Ha'. constructor.
    + apply IH. exact Ha'.
    + pose proof (shape_keys_in _ _ _ Hsh) as Hin. rewrite Forall_forall in *. intros x Hx.
      subst k. apply asc_first_le; auto.
Qed.

Lemma shape_item_le : forall half fl gs g, shape half fl gs -> (forall x, In x gs -> (x <= g)%N) ->
  Forall (item_le g) fl.
Proof.
  intros half fl gs g H. induction H as [n sk gs Hn Hmax Hsk Hsk0|k fl g1 gs' Hg1 Hk Hlen Hsh IH]; intros Hall.
  - constructor; [|constructor]. simpl. destruct (Nat.lt_ge_cases half n) as [Hlt|Hge].
    + rewrite Hsk by exact Hlt. apply Hall. apply nth_In. lia.
    + rewrite Hsk0 by exact Hge. lia.
  - constructor; [simpl; lia|]. constructor.
    + simpl. apply Hall. apply in_or_app. right. subst k. apply nth_In. lia.
    + apply IH. intros x Hx. apply Hall. apply in_or_app. right. exact Hx.
Qed.

Lemma shape_locate : forall half fl gs, shape half fl gs -> asc gs -> forall p, p < length gs ->
  let '(j, po) := locate fl (nth p gs 0%N) in
  po = j * half /\ j * half <= p /\ (S j = nL fl \/ p < S j * half).
Proof.
  intros half fl gs H. induction H as [n sk gs Hn Hmax Hsk Hsk0|k fl g1 gs' Hg1 Hk Hlen Hsh IH]; intros Ha p Hp.
  - simpl. repeat split; try lia.
  - cbn [locate]. pose proof (asc_app_r _ _ Ha) as Ha'. rewrite app_length in Hp.
    destruct (Nat.lt_ge_cases p half) as [Hlt|Hge].
    + assert (Hk' : (nth p (g1 ++ gs') 0 < k)%N).
      { subst k. replace (nth 0 gs' 0%N) with (nth half (g1 ++ gs') 0%N) by (rewrite app_nth2 by lia; rewrite Hg1, Nat.sub_diag; reflexivity).
        apply Ha. rewrite app_length. lia. }
      replace (nth p (g1 ++ gs') 0 <? k)%N with true by lia.
      repeat split; try lia.
    + rewrite app_nth2 by lia. rewrite Hg1.
      assert (Hk' : (k <= nth (p - half) gs' 0)%N).
      { subst k. destruct (p - half) eqn:E; [lia|]. specialize (Ha' 0 (S n) ltac:(lia)). lia. }
      replace (nth (p - half) gs' 0 <? k)%N with false by lia.
      specialize (IH Ha' (p - half) ltac:(lia)).
      destruct (locate fl (nth (p - half) gs' 0%N)) as [a b]. destruct IH as (E1 & E2 & E3).
      cbn [nL]. repeat split; try lia.
Qed.

(** the tree built by newBtreeIndex from an ascending ngram list *)
Lemma build_shape : forall half v gs, 1 <= half -> 2 <= v -> asc gs ->
  shape half (flat (bt_build (2 * half) v gs)) gs /\ wf v (bt_build (2 * half) v gs).
Proof.
  intros half v gs Hh Hv. induction gs as [|g gs IH] using rev_ind; intros Ha.
  - split; [|constructor]. simpl. constructor; simpl; try lia; intros; reflexivity.
  - unfold bt_build in *. rewrite fold_left_app. cbn [fold_left].
    assert (Ha0 : asc gs).
    { intros i j Hij. specialize (Ha i j). rewrite !app_nth1 in Ha by lia. apply Ha. rewrite app_length. simpl. lia. }
    destruct (IH Ha0) as [Hsh Hwf].
    destruct (bt_insert_flat (2 * half) v g _ ltac:(lia) Hv Hwf) as [Hfl Hwf'].
    + apply (shape_item_le half _ gs); auto. intros x Hx. pose proof (asc_snoc_lt _ _ _ Ha Hx). lia.
    + split; [|exact Hwf']. rewrite Hfl. apply shape_ins; auto.
Qed.

(** [find] returns the bucket that holds the key: with half = bucketSize/2, the key at position p of the
    ascending list is found in bucket j, whose first key has position j*half (= postingIndexOffset); every
    bucket but the last holds exactly half keys (p < (j+1)*half), the last one holds the rest. *)
Theorem btree_find_spec : forall half v gs p, 1 <= half -> 2 <= v -> asc gs -> p < length gs ->
  let t := bt_build (2 * half) v gs in
  let '(j, po) := find t (nth p gs 0%N) in
  po = j * half /\ j * half <= p /\ (S j = nleaves t \/ p < S j * half).
Proof.
  intros half v gs p Hh Hv Ha Hp. cbv zeta.
  destruct (build_shape half v gs Hh Hv Ha) as [Hsh Hwf].
  rewrite (find_locate v) by (auto; eapply shape_ksorted; eauto).
  pose proof (shape_locate _ _ _ Hsh Ha p Hp) as H.
  destruct (locate (flat (bt_build (2 * half) v gs)) (nth p gs 0%N)) as [j po].
  destruct (flat_counts (bt_build (2 * half) v gs)) as [E _]. rewrite <- E. exact H.
Qed.

(** number of buckets and their total size *)
Lemma shape_counts : forall half fl gs, shape half fl gs -> szL fl = length gs.
Proof.
  intros half fl gs H. induction H as [n sk gs Hn Hmax Hsk Hsk0|k fl g1 gs' Hg1 Hk Hlen Hsh IH].
  - simpl. lia.
  - cbn [szL]. rewrite app_length. lia.
Qed.

Theorem btree_sizes_spec : forall half v gs, 1 <= half -> 2 <= v -> asc gs ->
  nsizes (bt_build (2 * half) v gs) = length gs.
Proof.
  intros half v gs Hh Hv Ha. destruct (build_shape half v gs Hh Hv Ha) as [Hsh _].
  destruct (flat_counts (bt_build (2 * half) v gs)) as [_ E]. rewrite <- E. eapply shape_counts; eauto.
Qed.
