(** The result of the parser model does not depend on the fuel once the fuel is sufficient: a run that is
    not cut short (does not end in E_FUEL) is reproduced by every larger fuel. *)
From ZV Require Import Lib.Base Model.Query Generated.ParserTables Model.Parser Proofs.ParserTotal.
From Coq Require Import Lia.
Open Scope N_scope.

Arguments nextToken : simpl never.
Arguments drop : simpl never.
Arguments csub : simpl never.

Section Mono.
  Variable rq : str -> rqres.
  Variable rx_auto : str -> bool.
  Variable rcompile : str -> bool.
  Variable lang : str -> option str.
  Notation parseExpr := (parseExpr rq rx_auto rcompile lang).
  Notation parseExprList := (parseExprList rq rx_auto rcompile lang).
  Notation exprList_loop := (exprList_loop rq rx_auto rcompile lang).

  Definition notfuel {A} (r : outcome A) : Prop := r <> Err E_FUEL.
  Definition ME f := forall inp, notfuel (parseExpr f inp) -> parseExpr (S f) inp = parseExpr f inp.
  Definition ML f := forall inp, notfuel (parseExprList f inp) -> parseExprList (S f) inp = parseExprList f inp.
  Definition MLL f := forall b qs, notfuel (exprList_loop f b qs) -> exprList_loop (S f) b qs = exprList_loop f b qs.

  (** if the continuation of a bind is not cut short, neither was its first part, and a larger fuel
      reproduces the first part *)
  Ltac sub_call x Hm :=
    let E := fresh "E" in
    destruct x as [?|ec|?] eqn:E;
    [ rewrite Hm by (unfold notfuel; rewrite E; discriminate)
    | destruct (N.eq_dec ec E_FUEL) as [->|Hne];
      [ exfalso; match goal with H : notfuel _ |- _ => apply H; reflexivity end
      | rewrite Hm by (unfold notfuel; rewrite E; congruence) ]
    | rewrite Hm by (unfold notfuel; rewrite E; discriminate) ];
    rewrite ?E.

  Lemma mono_expr f : ME f -> ML f -> ME (S f).
  Proof.
    intros HE HL inp Hn. rewrite (parseExpr_S _ _ _ _ (S f)). rewrite parseExpr_S in Hn |- *. cbv zeta in *.
    destruct (nextToken (skipSpaces inp)) as [[tok|]| |]; cbn [obind] in *; try reflexivity.
    destruct (drop (List.length (tinput tok)) (skipSpaces inp)) as [b1| |]; cbn [obind] in *; try reflexivity.
    destruct (ttype tok =? tokParenOpen).
    - sub_call (parseExprList f b1) (HL b1); reflexivity.
    - destruct (ttype tok =? tokNegate); [|reflexivity].
      sub_call (parseExpr f b1) (HE b1); reflexivity.
  Qed.

  Lemma mono_list f : MLL f -> ML (S f).
  Proof.
    intros HLL inp Hn. rewrite (parseExprList_S _ _ _ _ (S f)). rewrite parseExprList_S in Hn |- *.
    sub_call (exprList_loop f inp []) (HLL inp []); reflexivity.
  Qed.

  Lemma mono_loop f : ME f -> MLL f -> MLL (S f).
  Proof.
    intros HE HLL b qs Hn. rewrite (exprList_loop_S _ _ _ _ (S f)). rewrite exprList_loop_S in Hn |- *.
    destruct b as [|c0 r]; [reflexivity|]. cbv zeta in *. set (b1 := skipSpaces (c0 :: r)) in *.
    assert (Hcont : notfuel (do (q, n) <- parseExpr f b1;
                             match q with
                             | None => Ok (qs, b1)
                             | Some e => do b2 <- drop n b1; exprList_loop f b2 (qs ++ [raw_of e])
                             end) ->
                    (do (q, n) <- parseExpr (S f) b1;
                     match q with
                     | None => Ok (qs, b1)
                     | Some e => do b2 <- drop n b1; exprList_loop (S f) b2 (qs ++ [raw_of e])
                     end) =
                    (do (q, n) <- parseExpr f b1;
                     match q with
                     | None => Ok (qs, b1)
                     | Some e => do b2 <- drop n b1; exprList_loop f b2 (qs ++ [raw_of e])
                     end)).
    { clear Hn. intros Hn. sub_call (parseExpr f b1) (HE b1); try reflexivity.
      match goal with |- context[obind (Ok ?p) _] => destruct p as [q n] end. cbn [obind] in *. destruct q as [e|]; [|reflexivity].
      destruct (drop n b1) as [b2| |]; cbn [obind] in *; try reflexivity.
      apply HLL. exact Hn. }
    destruct (nextToken b1) as [[tok|]| |]; try (apply Hcont; exact Hn); [|reflexivity].
    destruct (ttype tok =? tokParenClose); [reflexivity|].
    destruct (ttype tok =? tokOr); [|apply Hcont; exact Hn].
    destruct (drop (List.length (tinput tok)) b1) as [b2| |]; cbn [obind] in *; try reflexivity.
    apply HLL. exact Hn.
  Qed.

  Lemma mono_all : forall f, ME f /\ ML f /\ MLL f.
  Proof.
    induction f as [|f [HE [HL HLL]]].
    - repeat split; intro; intros; exfalso; match goal with H : notfuel _ |- _ => apply H; reflexivity end.
    - split; [apply mono_expr; assumption|]. split; [apply mono_list; assumption|]. apply mono_loop; assumption.
  Qed.

  Lemma list_more f k inp : notfuel (parseExprList f inp) -> parseExprList (f + k) inp = parseExprList f inp.
  Proof.
    intros Hn. induction k as [|k IH]; [rewrite Nat.add_0_r; reflexivity|].
    rewrite Nat.add_succ_r. destruct (mono_all (f + k)) as [_ [HL _]]. rewrite HL; [exact IH|]. rewrite IH. exact Hn.
  Qed.

  (** query.Parse's model gives the same answer with every fuel >= 3|s|+3 *)
  Theorem parse_fuel_independent s f : (parse_fuel s <= f)%nat ->
    parse_with rq rx_auto rcompile lang f s = parse rq rx_auto rcompile lang s.
  Proof.
    intros Hf. unfold parse, parse_with. replace f with (parse_fuel s + (f - parse_fuel s))%nat by lia.
    rewrite list_more; [reflexivity|].
    destruct (parser_good rq rx_auto rcompile lang (parse_fuel s)) as [_ [HL _]].
    specialize (HL s (le_n _)). unfold good_list, notfuel in *.
    destruct (Parser.parseExprList rq rx_auto rcompile lang (parse_fuel s) s) as [[? ?]|e|w]; [discriminate | congruence | discriminate].
  Qed.
End Mono.
