(** C26: the decoders never panic and their steps / allocation are linear in the input.
    One invariant [good B da c m] of reader computations, closed under bind, proved for every primitive
    and every loop. *)
From ZV Require Import Lib.Base Model.Codec.
From Coq Require Import ZifyBool ZifyNat ZifyN.
Open Scope nat_scope.

(** [good B da c m]: started with at most [B] bytes left, [m]
    - never panics;
    - on success: does not grow the buffer, pays for its steps with consumed bytes, and its allocation is
      paid by consumed bytes up to [da] extra units, with [c] bytes of credit left over;
    - on error: at most one unpaid step. *)
Definition good (B da c : nat) {A} (m : M A) : Prop :=
  forall s, length (buf s) <= B ->
  match m s with
  | (Ok _, s') => length (buf s') <= length (buf s)
                  /\ steps s' + length (buf s') <= steps s + length (buf s)
                  /\ alloc s' + length (buf s') + c <= alloc s + length (buf s) + da
  | (Err _, s') => steps s' <= steps s + length (buf s) + 1
                   /\ alloc s' <= alloc s + length (buf s) + da
  | (Panic _, _) => False
  end.

Lemma good_bind B d1 c1 d2 c2 {A X} (m : M A) (f : A -> M X) :
  good B d1 c1 m -> (forall a, good B d2 c2 (f a)) -> good B (d1 + d2) (c1 + c2) (bind m f).
Proof.
  intros Hm Hf s Hs. unfold bind. specialize (Hm s Hs).
  destruct (m s) as [[a|e|w] s1] eqn:E1.
  - destruct Hm as (L1 & S1 & A1).
    assert (Hs1 : length (buf s1) <= B) by lia.
    specialize (Hf a s1 Hs1). destruct (f a s1) as [[x|e|w] s2] eqn:E2.
    + destruct Hf as (L2 & S2 & A2). repeat split; lia.
    + destruct Hf as (S2 & A2). split; lia.
    + exact Hf.
  - destruct Hm as (S1 & A1). split; lia.
  - exact Hm.
Qed.

Lemma good_weaken B da c da' c' {A} (m : M A) :
  good B da c m -> da <= da' -> c' <= c -> good B da' c' m.
Proof.
  intros H Hd Hc s Hs. specialize (H s Hs). destruct (m s) as [[a|e|w] s1]; try exact H.
  - destruct H as (L & S & A1). repeat split; lia.
  - destruct H as (S & A1). split; lia.
Qed.

Lemma good_bind' B d1 c1 d2 c2 d c {A X} (m : M A) (f : A -> M X) :
  good B d1 c1 m -> (forall a, good B d2 c2 (f a)) -> d1 + d2 <= d -> c <= c1 + c2 -> good B d c (bind m f).
Proof. intros Hm Hf Hd Hc. eapply good_weaken; [apply (good_bind B d1 c1 d2 c2); eassumption | lia | lia]. Qed.

Lemma good_ret B {A} (a : A) : good B 0 0 (ret a).
Proof. intros s Hs. cbn. repeat split; lia. Qed.

Lemma good_fail B c {A} e : good B 0 c (@m_fail A e).
Proof. intros s Hs. cbn. split; lia. Qed.

Lemma good_byt B : good B 0 1 r_byt.
Proof.
  intros s Hs. unfold r_byt, bind, m_tick, m_get, m_put, m_fail, ret. cbn.
  destruct (buf s) as [|x r] eqn:E; cbn; [split; lia | repeat split; lia].
Qed.

(** Uvarint consumes between 1 and |buf| bytes when it succeeds *)
Lemma uv_loop_n : forall b i x s, (0 < snd (uv_loop b i x s))%Z ->
  (Z.of_nat i < snd (uv_loop b i x s) <= Z.of_nat i + Z.of_nat (length b))%Z.
Proof.
  induction b as [|c r IH]; intros i x s H; cbn in *.
  - lia.
  - destruct (Nat.eqb i 10); [cbn in H; lia|].
    destruct (N.ltb c 128).
    + destruct (Nat.eqb i 9 && N.ltb 1 c)%bool; cbn in *; lia.
    + specialize (IH _ _ _ H). lia.
Qed.

Lemma r_uvarint_eq s :
  r_uvarint s =
  let s1 := mkst (buf s) (S (steps s)) (alloc s) in
  if (snd (uvarint (buf s)) <=? 0)%Z then (Err 1%N, mkst [] (S (steps s)) (alloc s))
  else match go_slice_from (snd (uvarint (buf s))) (buf s) with
       | Ok r => (Ok (to_int (fst (uvarint (buf s)))), mkst r (S (steps s)) (alloc s))
       | Err e => (Err e, s1)
       | Panic w => (Panic w, s1)
       end.
Proof.
  unfold r_uvarint, bind, m_tick, m_get, m_put, m_fail, ret, lift. cbn -[uvarint].
  destruct (uvarint (buf s)) as [x n]. cbn -[uvarint].
  destruct (Z.leb n 0); cbn; [reflexivity|].
  destruct (go_slice_from n (buf s)); reflexivity.
Qed.

Lemma good_uvarint B : good B 0 1 r_uvarint.
Proof.
  intros s Hs. rewrite r_uvarint_eq. cbv zeta.
  destruct (uvarint (buf s)) as [x n] eqn:E. cbn [fst snd].
  destruct (Z.leb n 0) eqn:En.
  - cbn. split; lia.
  - assert (Hn : (0 < n)%Z) by (clear - En; lia).
    pose proof (uv_loop_n (buf s) 0 0%N 0%N) as U. unfold uvarint in E. rewrite E in U. cbn in U.
    specialize (U Hn). unfold go_slice_from.
    replace ((n <? 0)%Z || (Z.of_nat (length (buf s)) <? n)%Z)%bool with false by lia.
    cbn. rewrite skipn_length. repeat split; lia.
Qed.

Lemma good_length B : good B 0 1 r_length.
Proof.
  unfold r_length.
  eapply (good_bind' B 0 1 0 0); [apply good_uvarint | intros l | lia | lia].
  intros s Hs. unfold bind, m_get. cbn.
  destruct ((l <? 0)%Z || (Z.of_nat (length (buf s)) <? l)%Z)%bool; cbn; [split; lia | repeat split; lia].
Qed.

(** what a successful r_length guarantees about its result *)
Lemma length_result s l s' : r_length s = (Ok l, s') -> (0 <= l <= Z.of_nat (length (buf s')))%Z.
Proof.
  unfold r_length, bind. destruct (r_uvarint s) as [[z|e|w] s1]; try discriminate.
  unfold m_get. cbn. destruct ((z <? 0)%Z || (Z.of_nat (length (buf s1)) <? z)%Z)%bool eqn:E; cbn; try discriminate.
  intros H. inversion H; subst. lia.
Qed.

Lemma good_str B : good B 0 1 r_str.
Proof.
  intros s Hs. pose proof (good_length B s Hs) as G. pose proof (length_result s) as R.
  unfold r_str, bind. destruct (r_length s) as [[l|e|w] s1]; try exact G.
  specialize (R l s1 eq_refl). destruct G as (L & S & A1).
  unfold m_get, lift, go_slice_to, m_put, ret. cbn.
  replace ((l <? 0)%Z || (Z.of_nat (length (buf s1)) <? l)%Z)%bool with false by lia.
  cbn. rewrite skipn_length. repeat split; lia.
Qed.

Lemma good_lift B {A} (o : outcome A) : is_panic o = false -> good B 0 0 (lift o).
Proof. intros H s Hs. unfold lift. destruct o; cbn in *; try discriminate; repeat split; lia. Qed.

Lemma good_bitmap B {T} (bm : bytes -> outcome T) :
  (forall blob, is_panic (bm blob) = false) -> good B 0 1 (r_bitmap bm).
Proof.
  intros H. unfold r_bitmap.
  eapply (good_bind' B 0 1 0 0); [apply good_str | intros blob | lia | lia]. apply good_lift, H.
Qed.

Lemma good_count B : good B B 1 r_count.
Proof.
  intros s Hs. pose proof (good_length B s Hs) as G. pose proof (length_result s) as R.
  unfold r_count, bind. destruct (r_length s) as [[l|e|w] s1]; try exact G.
  - specialize (R l s1 eq_refl). destruct G as (L & S & A1).
    unfold m_make, bind, lift, go_make, m_alloc, ret. cbn.
    replace (l <? 0)%Z with false by lia. cbn. repeat split; lia.
  - destruct G as (S & A1). split; lia.
Qed.

Lemma count_result s l s' : r_count s = (Ok l, s') -> (0 <= l <= Z.of_nat (length (buf s')))%Z.
Proof.
  pose proof (length_result s) as R.
  unfold r_count, bind. destruct (r_length s) as [[z|e|w] s1]; try discriminate.
  specialize (R z s1 eq_refl).
  unfold m_make, bind, lift, go_make, m_alloc, ret. cbn.
  replace (z <? 0)%Z with false by lia. cbn. intros H. inversion H; subst. cbn. lia.
Qed.

Lemma good_branch B : good B 0 1 r_branch.
Proof.
  intros s Hs. unfold r_branch.
  pose proof (good_bind B 0 1 0 1 r_str (fun nm => mdo ver <- r_str; ret (nm, ver)) (good_str B)) as G.
  assert (G2 : forall nm : bytes, good B 0 1 (mdo ver <- r_str; ret (nm, ver))).
  { intros nm. eapply (good_bind' B 0 1 0 0); [apply good_str | intros ver | lia | lia]. apply good_ret. }
  specialize (G G2 s Hs). cbn in G.
  unfold bind in *. destruct (r_str s) as [[nm|e|w] s1]; try exact G.
  destruct (r_str s1) as [[ver|e|w] s2]; try exact G.
  unfold m_alloc, ret in *. cbn in *. destruct G as (L & S & A1). repeat split; lia.
Qed.

(** ---- loops *)
Lemma good_rd_strs B : forall n acc, good B 0 0 (rd_strs n acc).
Proof.
  induction n as [|n IH]; intros acc; cbn [rd_strs]; [apply good_ret|].
  eapply (good_bind' B 0 1 0 0); [apply good_str | intros x | lia | lia]. apply IH.
Qed.

Lemma good_rd_branches B : forall n all, good B 0 0 (rd_branches n all).
Proof.
  induction n as [|n IH]; intros all; cbn [rd_branches]; [apply good_ret|].
  eapply (good_bind' B 0 1 0 0); [apply good_branch | intros x | lia | lia]. apply IH.
Qed.

(** after rd_branches n all succeeded, all' = all ++ (n branches): the slice allBranches[len-lb:] is in range *)
Lemma rd_branches_len : forall n all s all' s', rd_branches n all s = (Ok all', s') -> length all' = length all + n.
Proof.
  induction n as [|n IH]; intros all s all' s' H; cbn [rd_branches] in H.
  - unfold ret in H. inversion H; subst; lia.
  - unfold bind in H at 1. destruct (r_branch s) as [[b|e|w] s1]; try discriminate.
    apply IH in H. rewrite app_length in H. cbn in H. lia.
Qed.

Lemma good_rd_entries B : forall n v2 all m, good B 0 0 (rd_entries n v2 all m).
Proof.
  induction n as [|n IH]; intros v2 all m; cbn [rd_entries]; [apply good_ret|].
  eapply (good_bind' B 0 1 0 0); [apply good_uvarint | intros id | lia | lia].
  eapply (good_bind' B 0 1 0 0); [apply good_byt | intros hs | lia | lia].
  eapply (good_bind' B 0 0 0 0); [destruct v2; [eapply good_weaken; [apply good_uvarint|lia|lia] | apply good_ret] | intros it | lia | lia].
  (* the rest: r_length, the inner loop, the checked slice, the recursive call *)
  intros s Hs. pose proof (good_length B s Hs) as G. pose proof (length_result s) as R.
  unfold bind at 1. destruct (r_length s) as [[lb|e|w] s1]; try exact G.
  specialize (R lb s1 eq_refl). destruct G as (L1 & S1 & A1).
  assert (Hs1 : length (buf s1) <= B) by lia.
  pose proof (good_rd_branches B (Z.to_nat lb) all s1 Hs1) as G2.
  pose proof (rd_branches_len (Z.to_nat lb) all s1) as RL.
  unfold bind at 1. destruct (rd_branches (Z.to_nat lb) all s1) as [[all'|e|w] s2]; [ | destruct G2 as (S2 & A2); split; lia | exact G2].
  specialize (RL all' s2 eq_refl). destruct G2 as (L2 & S2 & A2).
  unfold bind at 1. unfold lift at 1. unfold go_slice_from.
  replace ((Z.of_nat (length all') - lb <? 0)%Z || (Z.of_nat (length all') <? Z.of_nat (length all') - lb)%Z)%bool with false by lia.
  assert (Hs2 : length (buf s2) <= B) by lia.
  specialize (IH v2 all' (m ++ [(to_u32 id, ((hs =? 1)%N, it, skipn (Z.to_nat (Z.of_nat (length all') - lb)) all'))]) s2 Hs2).
  destruct (rd_entries n v2 all' _ s2) as [[r|e|w] s3]; try exact IH.
  - destruct IH as (L3 & S3 & A3). repeat split; lia.
  - destruct IH as (S3 & A3). split; lia.
Qed.

Lemma good_rd_brs B {T} (bm : bytes -> outcome T) :
  (forall blob, is_panic (bm blob) = false) -> forall n acc, good B 0 0 (rd_brs bm n acc).
Proof.
  intros Hbm. induction n as [|n IH]; intros acc; cbn [rd_brs]; [apply good_ret|].
  eapply (good_bind' B 0 1 0 0); [apply good_str | intros br | lia | lia].
  eapply (good_bind' B 0 1 0 0); [apply (good_bitmap B bm Hbm) | intros bmp | lia | lia].
  apply IH.
Qed.

(** ---- the three decoders *)
Lemma good_dec_set B : good B B 0 dec_set_m.
Proof.
  unfold dec_set_m.
  eapply (good_bind' B 0 1 B 0); [apply good_byt | intros v | lia | lia].
  destruct (negb (v =? 1)%N); [eapply good_weaken; [apply (good_fail B 0)|lia|lia]|].
  eapply (good_bind' B B 1 0 0); [apply good_count | intros l | lia | lia].
  apply good_rd_strs.
Qed.

Lemma good_dec_br B {T} (bm : bytes -> outcome T) :
  (forall blob, is_panic (bm blob) = false) -> good B B 0 (dec_br_m bm).
Proof.
  intros Hbm. unfold dec_br_m.
  eapply (good_bind' B 0 1 B 0); [apply good_byt | intros v | lia | lia].
  destruct (negb (v =? 1)%N); [eapply good_weaken; [apply (good_fail B 0)|lia|lia]|].
  eapply (good_bind' B B 1 0 0); [apply good_count | intros l | lia | lia].
  apply (good_rd_brs B bm Hbm).
Qed.

Lemma good_dec_repos B : good B (B + B) 0 dec_repos_m.
Proof.
  assert (G : good B (B + B) 0 (mdo v <- r_byt;
      (if negb ((v =? 1)%N || (v =? 2)%N) then m_fail 2
       else mdo l <- r_count; mdo abl <- r_count; mdo m <- rd_entries (Z.to_nat l) (v =? 2)%N [] []; ret (Some m)))).
  { eapply (good_bind' B 0 1 (B + B) 0); [apply good_byt | intros v | lia | lia].
    destruct (negb ((v =? 1)%N || (v =? 2)%N)); [eapply good_weaken; [apply (good_fail B 0)|lia|lia]|].
    eapply (good_bind' B B 1 B 0); [apply good_count | intros l | lia | lia].
    eapply (good_bind' B B 1 0 0); [apply good_count | intros abl | lia | lia].
    eapply (good_bind' B 0 0 0 0); [apply good_rd_entries | intros m | lia | lia].
    apply good_ret. }
  intros s Hs. specialize (G s Hs). unfold dec_repos_m. unfold bind at 1. unfold m_get at 1.
  destruct (buf s) as [|x r] eqn:E; [| exact G].
  cbn. rewrite E. cbn. repeat split; lia.
Qed.

(** ---- top-level statements *)
Definition cost_ok {A} (k : nat) (r : outcome A * st) (b : bytes) : Prop :=
  is_panic (fst r) = false /\ steps (snd r) <= length b + 1 /\ alloc (snd r) <= k * length b.

Lemma run_good {A} (m : M A) (b : bytes) da k :
  good (length b) da 0 m -> da + 2 * length b <= k * length b -> cost_ok k (run m b) b.
Proof.
  intros G Hk. unfold run, cost_ok. specialize (G (mkst b 0 (length b)) (Nat.le_refl _)).
  destruct (m _) as [[a|e|w] s']; cbn in *.
  - destruct G as (L & S & A1). repeat split; lia.
  - destruct G as (S & A1). repeat split; lia.
  - contradiction.
Qed.

Lemma dec_set_cost b : cost_ok 3 (run dec_set_m b) b.
Proof. apply run_good with (da := length b); [apply good_dec_set | lia]. Qed.

Lemma dec_repos_cost b : cost_ok 4 (run dec_repos_m b) b.
Proof. apply run_good with (da := length b + length b); [apply good_dec_repos | lia]. Qed.

Lemma dec_br_cost {T} (bm : bytes -> outcome T) b :
  (forall blob, is_panic (bm blob) = false) -> cost_ok 3 (run (dec_br_m bm) b) b.
Proof. intros H. apply run_good with (da := length b); [apply good_dec_br, H | lia]. Qed.
