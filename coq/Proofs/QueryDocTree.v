(** C06, tree level: what the parser BUILDS for an abstract query of the documented grammar ([iexpr],
    [iquery]: the parser's own atom table, negation check, finish_list and parseOperators applied to the
    abstract syntax instead of to bytes), and the proof that after the enclosing groups' case passes and
    stripCaseScopes this is exactly the documented meaning [den].  The byte level (the parser run on
    [render q] computes [iquery q]) is Proofs/QueryDocParse.v. *)
From ZV Require Import Lib.Base Model.Query Generated.ParserTables Model.Parser Model.QueryDoc Model.QueryDocRun.
From ZV Require Import Proofs.QueryInd.
From Coq Require Import Lia String.
Notation length := List.length (only parsing).
Notation concat := List.concat (only parsing).
Open Scope N_scope.

(** ------------------------------------------------------------------ induction principle for dexpr *)
Section DInd.
  Variable P : dexpr -> Prop.
  Hypothesis HText : forall w, P (DText w).
  Hypothesis HField : forall f a w, P (DField f a w).
  Hypothesis HBool : forall f v, P (DBool f v).
  Hypothesis HCase : forall k, P (DCase k).
  Hypothesis HType : forall a t, P (DType a t).
  Hypothesis HNeg : forall e, P e -> P (DNeg e).
  Hypothesis HGroup : forall q, Forall (Forall P) q -> P (DGroup q).
  Fixpoint dexpr_ind' (e : dexpr) : P e :=
    match e with
    | DText w => HText w
    | DField f a w => HField f a w
    | DBool f v => HBool f v
    | DCase k => HCase k
    | DType a t => HType a t
    | DNeg e => HNeg e (dexpr_ind' e)
    | DGroup q =>
        HGroup q ((fix go (q : list (list dexpr)) : Forall (Forall P) q :=
                     match q with
                     | [] => Forall_nil _
                     | c :: r => Forall_cons c
                                   ((fix go2 (c : list dexpr) : Forall P c :=
                                       match c with
                                       | [] => Forall_nil _
                                       | e :: r2 => Forall_cons e (dexpr_ind' e) (go2 r2)
                                       end) c) (go r)
                     end) q)
    end.
End DInd.

(** ------------------------------------------------------------------ the token type of a field *)
Definition field_tok (f : tfield) : N :=
  match f with
  | FContent => tokContent | FFile => tokFile | FRegex => tokRegex | FRepo => tokRepo | FSym => tokSym
  | FBranch => tokBranch | FLang => tokLang | FMeta _ => tokMeta
  end.
Definition bfield_tok (f : bfield) : N :=
  match f with BArchived => tokArchived | BFork => tokFork | BPublic => tokPublic end.
(** the token text after setType removed the prefix *)
Definition field_text (f : tfield) (v : str) : str :=
  match f with FMeta name => name ++ 58 :: v | _ => v end.

Section Tree.
  Variable rq : str -> rqres.
  Variable rx_auto : str -> bool.
  Variable rcompile : str -> bool.
  Variable lang : str -> option str.

  Definition atom_tok (e : dexpr) : option (N * str) :=
    match e with
    | DText w => Some (tokText, wvalue w)
    | DField f _ w => Some (field_tok f, field_text f (wvalue w))
    | DBool f v => Some (bfield_tok f, if v then dbs "yes"%string else dbs "no"%string)
    | DCase k => Some (tokCase, flavor_text k)
    | DType _ t => Some (tokType, rtype_text t)
    | _ => None
    end.

  Definition unopt (x : outcome (option pexpr)) : outcome pexpr :=
    do o <- x; match o with Some p => Ok p | None => Err 90 end.

  (** conjunctions -> the parser's working list, with orOperator placeholders between them *)
  Fixpoint sep_raws (l : list (list raw)) : list raw :=
    match l with
    | [] => []
    | [c] => c
    | c :: r => c ++ ROr :: sep_raws r
    end.

  Fixpoint seq {A} (l : list (outcome A)) : outcome (list A) :=
    match l with
    | [] => Ok []
    | x :: r => do a <- x; do b <- seq r; Ok (a :: b)
    end.

  Fixpoint iexpr (e : dexpr) : outcome pexpr :=
    match e with
    | DNeg e1 =>
        do p <- iexpr e1;
        match p with
        | PType _ => Err E_NEG_DIRECTIVE
        | PQ (QCase _) => Err E_NEG_DIRECTIVE
        | PQ q => Ok (PQ (QNot q))
        end
    | DGroup q =>
        do cs <- seq (map (fun c => seq (map (fun e => do p <- iexpr e; Ok (raw_of p)) c)) q);
        do items <- finish_list rx_auto (sep_raws cs);
        do t <- parseOperators items;
        Ok (PQ t)
    | _ => match atom_tok e with
           | Some (ty, text) => unopt (atom_expr rq rcompile lang ty text)
           | None => Err 90
           end
    end.

  Definition iquery (q : dquery) : outcome Q :=
    do cs <- seq (map (fun c => seq (map (fun e => do p <- iexpr e; Ok (raw_of p)) c)) q);
    do items <- finish_list rx_auto (sep_raws cs);
    do t <- parseOperators items;
    Ok (Simplify (stripCaseScopes t)).
End Tree.

(** ------------------------------------------------------------------ well-formed abstract queries *)
From ZV Require Import Proofs.ParserTotal.

Definition fl (k : cflavor) : str := flavor_text k.

Section WF.
  Variable rq : str -> rqres.
  Variable rcompile : str -> bool.

  Definition rq_ok (v : str) : bool := match rq v with RQErr => false | _ => true end.
  Definition no_prefix (v : str) : bool := forallb (fun p => negb (prefixb (fst p) v)) prefixes.

  (** lexical side conditions of the printer: a plain (unquoted) value has no blank, quote, parenthesis or
      backslash; a bare plain pattern moreover is not empty, does not start with '-', is not the word
      "or" and does not start with a field prefix; a bare quoted pattern is not empty and not a lone
      parenthesis (which is not a valid regexp anyway). *)
  Definition wf_word (w : word) : bool := match w with WPlain v => forallb plain v | WQuoted _ => true end.
  Definition wf_text (w : word) : bool :=
    match w with
    | WPlain v => negb (is_nil v) && forallb plain v && negb (prefixb [45] v) && no_prefix v && negb (str_eqb v (dbs "or"%string))
    | WQuoted v => negb (is_nil v) && negb (str_eqb v [40]) && negb (str_eqb v [41])
    end.
  (** the value is acceptable to the engine the field hands it to; regex: is excluded (C06_regex_field_refuted) *)
  Definition wf_field (f : tfield) (v : str) : bool :=
    match f with
    | FContent | FFile => rq_ok v
    | FRegex => false
    | FRepo => rcompile v
    | FSym => negb (is_nil v) && rq_ok v
    | FBranch | FLang => true
    | FMeta name => forallb plain name && negb (existsb (N.eqb 58) name) && rcompile v
    end.

  Fixpoint wf_expr (e : dexpr) : bool :=
    match e with
    | DText w => wf_text w && rq_ok (wvalue w)
    | DField f _ w => wf_word w && wf_field f (wvalue w)
    | DBool _ _ | DCase _ | DType _ _ => true
    | DNeg e1 => negb (is_directive e1) && wf_expr e1
    | DGroup q =>
        negb (is_nil q) &&
        forallb (fun c => existsb (fun e => negb (is_directive e)) c && forallb wf_expr c) q
    end.
  Definition wf_query (q : dquery) : bool := wf_expr (DGroup q).
End WF.

(** ------------------------------------------------------------------ case passes *)

Lemma toLower_upper p : negb (str_eqb p (toLower p)) = existsb is_upper p.
Proof.
  induction p as [|c p IH]; [reflexivity|]. unfold str_eqb in *. simpl. unfold is_upper at 1.
  destruct ((65 <=? c) && (c <=? 90)) eqn:E; simpl.
  - assert (H : (c =? c + 32) = false) by (apply N.eqb_neq; lia). rewrite H. reflexivity.
  - rewrite N.eqb_refl. simpl. exact IH.
Qed.

Section Passes.
  Variable rx_auto : str -> bool.

  Lemma setCase_lit k p cs f c :
    setCase rx_auto (fl k) (QSubstring p cs f c) = QSubstring p (case_of k (existsb is_upper p)) f c.
  Proof. destruct k; simpl; try reflexivity. rewrite toLower_upper. reflexivity. Qed.
  Lemma setCase_rx k re cs f c :
    setCase rx_auto (fl k) (QRegexp re cs f c) = QRegexp re (case_of k (rx_auto (rx_src re))) f c.
  Proof. destruct k; reflexivity. Qed.

  Lemma setCase_override k1 k2 q : setCase rx_auto (fl k2) (setCase rx_auto (fl k1) q) = setCase rx_auto (fl k2) q.
  Proof.
    induction q using Q_ind'; try reflexivity.
    - rewrite (setCase_lit k1). rewrite !setCase_lit. reflexivity.
    - rewrite (setCase_rx k1). rewrite !setCase_rx. reflexivity.
    - simpl. rewrite IHq. reflexivity.
  Qed.

  Lemma qmap_override k1 k2 q :
    qmap (setCase rx_auto (fl k2)) (qmap (setCase rx_auto (fl k1)) q) = qmap (setCase rx_auto (fl k2)) q.
  Proof.
    induction q using Q_ind'; try reflexivity.
    - cbn [qmap]. rewrite (setCase_lit k1). cbn [qmap]. rewrite !setCase_lit. reflexivity.
    - cbn [qmap]. rewrite (setCase_rx k1). cbn [qmap]. rewrite !setCase_rx. reflexivity.
    - simpl. rewrite setCase_override. reflexivity.
    - simpl. rewrite IHq. reflexivity.
    - simpl. rewrite IHq. reflexivity.
    - simpl. f_equal. rewrite map_map. apply map_ext_Forall. exact H.
    - simpl. f_equal. rewrite map_map. apply map_ext_Forall. exact H.
    - simpl. rewrite IHq. reflexivity.
  Qed.
End Passes.

(** ------------------------------------------------------------------ scan_directives as four folds *)

Fixpoint r_case (qs : list raw) (k : str) : str :=
  match qs with [] => k | RQ (QCase f) :: r => r_case r f | _ :: r => r_case r k end.
Fixpoint r_has (qs : list raw) : bool :=
  match qs with [] => false | RQ (QCase _) :: _ => true | _ :: r => r_has r end.
Fixpoint r_type (qs : list raw) (t : N) : N :=
  match qs with [] => t | RType t' :: r => r_type r (if t' <? t then t' else t) | _ :: r => r_type r t end.
Fixpoint r_items (qs : list raw) : list item :=
  match qs with
  | [] => []
  | RQ (QCase _) :: r => r_items r
  | RQ q :: r => IQ q :: r_items r
  | ROr :: r => IOrOp :: r_items r
  | RType _ :: r => r_items r
  end.

Lemma scan_spec qs : forall k has t acc,
  scan_directives qs k has t acc = (r_case qs k, has || r_has qs, r_type qs t, acc ++ r_items qs).
Proof.
  induction qs as [|x qs IH]; intros k has t acc; simpl.
  - rewrite orb_false_r, app_nil_r. reflexivity.
  - destruct x as [q| |ty].
    + destruct q; rewrite IH; try (rewrite <- app_assoc; reflexivity).
      rewrite orb_true_r. reflexivity.
    + rewrite IH, <- app_assoc. reflexivity.
    + rewrite IH. reflexivity.
Qed.

Lemma r_case_app a b k : r_case (a ++ b) k = r_case b (r_case a k).
Proof. revert k. induction a as [|x a IH]; intros k; simpl; [reflexivity|]. destruct x as [q| |ty]; [destruct q|..]; apply IH. Qed.
Lemma r_has_app a b : r_has (a ++ b) = r_has a || r_has b.
Proof. induction a as [|x a IH]; simpl; [reflexivity|]. destruct x as [q| |ty]; [destruct q|..]; auto. Qed.
Lemma r_type_app a b t : r_type (a ++ b) t = r_type b (r_type a t).
Proof. revert t. induction a as [|x a IH]; intros t; simpl; [reflexivity|]. destruct x as [q| |ty]; apply IH. Qed.
Lemma r_items_app a b : r_items (a ++ b) = r_items a ++ r_items b.
Proof. induction a as [|x a IH]; simpl; [reflexivity|]. destruct x as [q| |ty]; [destruct q|..]; simpl; rewrite ?IH; reflexivity. Qed.

Fixpoint sep_items (l : list (list item)) : list item :=
  match l with
  | [] => []
  | [c] => c
  | c :: r => c ++ IOrOp :: sep_items r
  end.

(** the separators do not matter for the directive folds *)
Lemma sep_case L k : r_case (sep_raws L) k = r_case (concat L) k.
Proof.
  revert k. induction L as [|c L IH]; intros k; [reflexivity|]. destruct L as [|c2 L].
  - simpl. rewrite app_nil_r. reflexivity.
  - change (sep_raws (c :: c2 :: L)) with (c ++ ROr :: sep_raws (c2 :: L)).
    change (concat (c :: c2 :: L)) with (c ++ concat (c2 :: L)). rewrite !r_case_app. simpl. apply IH.
Qed.
Lemma sep_has L : r_has (sep_raws L) = r_has (concat L).
Proof.
  induction L as [|c L IH]; [reflexivity|]. destruct L as [|c2 L].
  - simpl. rewrite app_nil_r. reflexivity.
  - change (sep_raws (c :: c2 :: L)) with (c ++ ROr :: sep_raws (c2 :: L)).
    change (concat (c :: c2 :: L)) with (c ++ concat (c2 :: L)). rewrite !r_has_app. cbn [r_has]. rewrite IH. reflexivity.
Qed.
Lemma sep_type L t : r_type (sep_raws L) t = r_type (concat L) t.
Proof.
  revert t. induction L as [|c L IH]; intros t; [reflexivity|]. destruct L as [|c2 L].
  - simpl. rewrite app_nil_r. reflexivity.
  - change (sep_raws (c :: c2 :: L)) with (c ++ ROr :: sep_raws (c2 :: L)).
    change (concat (c :: c2 :: L)) with (c ++ concat (c2 :: L)). rewrite !r_type_app. simpl. apply IH.
Qed.
Lemma sep_items_spec L : r_items (sep_raws L) = sep_items (map r_items L).
Proof.
  induction L as [|c L IH]; [reflexivity|]. destruct L as [|c2 L]; [reflexivity|].
  change (sep_raws (c :: c2 :: L)) with (c ++ ROr :: sep_raws (c2 :: L)).
  rewrite r_items_app. cbn [r_items]. rewrite IH. reflexivity.
Qed.

(** ------------------------------------------------------------------ parseOperators on separated conjunctions *)

Lemma parseOps_conj g : forall rest top cur seen,
  parseOps_loop (map IQ g ++ rest) top cur seen = parseOps_loop rest top (cur ++ g) seen.
Proof.
  induction g as [|x g IH]; intros rest top cur seen; simpl; [rewrite app_nil_r; reflexivity|].
  rewrite IH, <- app_assoc. reflexivity.
Qed.

Lemma parseOps_sep L : forall top seen, L <> [] -> Forall (fun g => g <> []) L ->
  parseOps_loop (sep_items (map (map IQ) L)) top [] seen = Ok (QOr (top ++ map QAnd L)).
Proof.
  induction L as [|g L IH]; intros top seen Hne Hall; [congruence|].
  inversion Hall as [|? ? Hg HL]; subst. destruct L as [|g2 L].
  - simpl. rewrite <- (app_nil_r (map IQ g)), parseOps_conj. simpl.
    destruct g; [congruence|]. rewrite andb_false_r. reflexivity.
  - change (sep_items (map (map IQ) (g :: g2 :: L))) with (map IQ g ++ IOrOp :: sep_items (map (map IQ) (g2 :: L))).
    rewrite parseOps_conj. simpl app. cbn [parseOps_loop]. destruct g as [|x g]; [congruence|]. cbn [is_nil].
    rewrite IH; [|discriminate|exact HL]. rewrite <- app_assoc. reflexivity.
Qed.

Lemma map_item_sep f L :
  map (map_item f) (sep_items (map (map IQ) L)) = sep_items (map (map IQ) (map (map f) L)).
Proof.
  induction L as [|g L IH]; [reflexivity|]. destruct L as [|g2 L].
  - simpl. rewrite !map_map. reflexivity.
  - change (sep_items (map (map IQ) (g :: g2 :: L))) with (map IQ g ++ IOrOp :: sep_items (map (map IQ) (g2 :: L))).
    rewrite map_app, map_cons, IH.
    change (sep_items (map (map IQ) (map (map f) (g :: g2 :: L)))) with
      (map IQ (map f g) ++ IOrOp :: sep_items (map (map IQ) (map (map f) (g2 :: L)))).
    rewrite !map_map. reflexivity.
Qed.

(** ------------------------------------------------------------------ what finish_list + parseOperators build *)

Section Build.
  Variable rx_auto : str -> bool.
  Notation sC k := (setCase rx_auto k).

  (** L0 = the trees of the non-directive members, per conjunction *)
  Definition build (k : str) (has : bool) (ty : N) (L0 : list (list Q)) : Q :=
    let L1 := map (map (qmap (sC k))) L0 in
    let L2 := if ty =? 100 then L1 else [[QType ty (QOr (map QAnd L1))]] in
    let L3 := if has then map (map QCaseScope) L2 else L2 in
    QOr (map QAnd L3).

  Lemma nonempty_map {A B} (f : A -> B) (L : list (list A)) :
    Forall (fun g => g <> []) L -> Forall (fun g => g <> []) (map (map f) L).
  Proof. induction 1 as [|g L Hg _ IH]; simpl; constructor; auto. destruct g; [congruence|discriminate]. Qed.

  Lemma finish_build (qs : list raw) (L0 : list (list Q)) :
    r_items qs = sep_items (map (map IQ) L0) -> L0 <> [] -> Forall (fun g => g <> []) L0 ->
    (do items <- finish_list rx_auto qs; parseOperators items) =
    Ok (build (r_case qs (bs "auto"%string)) (r_has qs) (r_type qs 100) L0).
  Proof.
    intros Hit Hne Hall. unfold finish_list. rewrite scan_spec. simpl app. rewrite Hit. cbn [orb].
    set (k := r_case qs (bs "auto"%string)). rewrite map_item_sep.
    set (L1 := map (map (qmap (sC k))) L0).
    assert (HL1 : L1 <> [] /\ Forall (fun g => g <> []) L1).
    { split; [unfold L1; destruct L0; [congruence|discriminate] | apply nonempty_map; exact Hall]. }
    destruct HL1 as [Hne1 Hall1]. unfold build. fold L1.
    destruct (r_type qs 100 =? 100).
    - cbn [obind]. destruct (r_has qs).
      + rewrite map_item_sep. unfold parseOperators. rewrite parseOps_sep; [reflexivity| |apply nonempty_map; exact Hall1].
        destruct L1; [congruence|discriminate].
      + unfold parseOperators. rewrite parseOps_sep; [reflexivity|exact Hne1|exact Hall1].
    - unfold parseOperators at 1. rewrite parseOps_sep; [|exact Hne1|exact Hall1]. cbn [obind app].
      change [IQ (QType (r_type qs 100) (QOr (map QAnd L1)))] with
        (sep_items (map (map IQ) [[QType (r_type qs 100) (QOr (map QAnd L1))]])).
      destruct (r_has qs).
      + rewrite map_item_sep. unfold parseOperators. rewrite parseOps_sep; [reflexivity|discriminate|].
        repeat constructor; discriminate.
      + unfold parseOperators. rewrite parseOps_sep; [reflexivity|discriminate|]. repeat constructor; discriminate.
  Qed.
End Build.

(** ------------------------------------------------------------------ the main induction *)
From ZV Require Import Proofs.ParserKinds.

Lemma seq_map_ok {A B} (f : A -> outcome B) (g : A -> B) l :
  Forall (fun x => f x = Ok (g x)) l -> seq (map f l) = Ok (map g l).
Proof. induction 1 as [|x l Hx _ IH]; simpl; [reflexivity|]. rewrite Hx, IH. reflexivity. Qed.

Lemma flat_map_filter {A B} (p : A -> bool) (g : A -> B) l :
  flat_map (fun e => if p e then [] else [g e]) l = map g (filter (fun e => negb (p e)) l).
Proof. induction l as [|x l IH]; simpl; [reflexivity|]. destruct (p x); simpl; rewrite IH; reflexivity. Qed.

Lemma find_type_small es m : find_type es = Some m -> m <= 2.
Proof.
  revert m. induction es as [|e es IH]; simpl; [discriminate|]. intros m.
  destruct e; try apply IH. destruct (find_type es) as [t'|].
  - specialize (IH _ eq_refl). intros E. inversion E. destruct (rtype_code t <? t') eqn:L; [apply N.ltb_lt in L; lia | exact IH].
  - intros E. inversion E. destruct t; simpl; lia.
Qed.

Section Main.
  Variable rq : str -> rqres.
  Variable rx_auto : str -> bool.
  Variable rcompile : str -> bool.
  Variable lang : str -> option str.
  Notation iexpr := (iexpr rq rx_auto rcompile lang).
  Notation dexp := (den_expr (rq_d rq) rx_auto lang).
  Notation sC k := (setCase rx_auto k).
  Notation atomx := (atom_expr rq rcompile lang).

  Definition tr (e : dexpr) : Q := match iexpr e with Ok (PQ t) => t | _ => QConst true end.
  Definition e_raw (e : dexpr) : raw :=
    match e with DCase k => RQ (QCase (fl k)) | DType _ t => RType (rtype_code t) | _ => RQ (tr e) end.
  Definition nd (c : list dexpr) : list dexpr := filter (fun e => negb (is_directive e)) c.

  Definition sem (e : dexpr) (t : Q) : Prop := forall K, stripCaseScopes (qmap (sC (fl K)) t) = dexp K e.

  Definition spec (e : dexpr) : Prop :=
    wf_expr rq rcompile e = true ->
    (do p <- iexpr e; Ok (raw_of p)) = Ok (e_raw e) /\
    (is_directive e = false -> exists t, iexpr e = Ok (PQ t) /\ iscase t = false /\ sem e t).

  (** the atom table of parseExpr at the token types of the fields *)
  Lemma atom_text v : atomx tokText v = do q <- regexpQuery rq v false false; Ok (Some (PQ q)). Proof. reflexivity. Qed.
  Lemma atom_content v : atomx tokContent v = do q <- regexpQuery rq v true false; Ok (Some (PQ q)). Proof. reflexivity. Qed.
  Lemma atom_file v : atomx tokFile v = do q <- regexpQuery rq v false true; Ok (Some (PQ q)). Proof. reflexivity. Qed.
  Lemma atom_repo v : atomx tokRepo v = if rcompile v then Ok (Some (PQ (QRepo v))) else Err E_REGEXP. Proof. reflexivity. Qed.
  Lemma atom_sym v : atomx tokSym v = if is_nil v then Err E_SYM_EMPTY else do q <- regexpQuery rq v false false; Ok (Some (PQ (QSymbol q))).
  Proof. reflexivity. Qed.
  Lemma atom_branch v : atomx tokBranch v = Ok (Some (PQ (QBranch v false))). Proof. reflexivity. Qed.
  Lemma atom_lang v : atomx tokLang v = match lang v with None => Ok (Some (PQ (QConst false))) | Some c => Ok (Some (PQ (QLanguage c))) end.
  Proof. reflexivity. Qed.
  Lemma atom_meta t : atomx tokMeta t = match split_colon t [] with
                                       | None => Err E_META_SYNTAX
                                       | Some (field, value) => if rcompile value then Ok (Some (PQ (QMeta field value))) else Err E_REGEXP
                                       end.
  Proof. reflexivity. Qed.
  Lemma atom_case k : atomx tokCase (flavor_text k) = Ok (Some (PQ (QCase (fl k)))). Proof. destruct k; reflexivity. Qed.
  Lemma atom_type t : atomx tokType (rtype_text t) = Ok (Some (PType (rtype_code t))). Proof. destruct t; reflexivity. Qed.
  Lemma atom_bool f (v : bool) : atomx (bfield_tok f) (if v then dbs "yes"%string else dbs "no"%string) = Ok (Some (PQ (den_bool f v))).
  Proof. destruct f, v; reflexivity. Qed.

  Lemma split_colon_name name v acc : existsb (N.eqb 58) name = false ->
    split_colon (name ++ 58 :: v) acc = Some (acc ++ name, v).
  Proof.
    revert acc. induction name as [|c name IH]; intros acc H.
    - simpl. rewrite app_nil_r. reflexivity.
    - cbn [existsb] in H. apply orb_false_elim in H as [H1 H2]. rewrite N.eqb_sym in H1.
      cbn [app split_colon]. rewrite H1. rewrite IH by exact H2. rewrite <- app_assoc. reflexivity.
  Qed.

  (** a pattern atom of the parser under a case pass is the documented pattern *)
  Lemma pattern_sem v content file K : rq_ok rq v = true ->
    exists t, regexpQuery rq v content file = Ok t /\ iscase t = false /\
              sC (fl K) t = pattern (rq_d rq) rx_auto K v content file /\
              stripCaseScopes (pattern (rq_d rq) rx_auto K v content file) = pattern (rq_d rq) rx_auto K v content file.
  Proof.
    unfold rq_ok, regexpQuery, pattern, rq_d. destruct (rq v) as [|p|re]; [discriminate|..]; intros _; eexists; (split; [reflexivity|]); (split; [reflexivity|]).
    - rewrite setCase_lit. split; reflexivity.
    - rewrite setCase_rx. split; reflexivity.
  Qed.

  (** ---- atoms *)
  Lemma spec_atom_intro e t :
    iexpr e = Ok (PQ t) -> iscase t = false -> is_directive e = false ->
    (match e with DCase _ | DType _ _ => False | _ => True end) -> sem e t ->
    (do p <- iexpr e; Ok (raw_of p)) = Ok (e_raw e) /\
    (is_directive e = false -> exists t, iexpr e = Ok (PQ t) /\ iscase t = false /\ sem e t).
  Proof.
    intros Hi Hc Hd Hk Hs. split; [|intros _; exists t; auto].
    rewrite Hi. cbn [obind raw_of]. unfold e_raw, tr. rewrite Hi. destruct e; try contradiction; reflexivity.
  Qed.

  Lemma spec_text w : spec (DText w).
  Proof.
    intros Hwf. cbn [wf_expr] in Hwf. apply andb_prop in Hwf as [_ Hrq].
    destruct (pattern_sem (wvalue w) false false CAuto Hrq) as [t [Ht [Hc _]]].
    apply (spec_atom_intro _ t); auto.
    - cbn [iexpr atom_tok]. rewrite atom_text, Ht. reflexivity.
    - intros K. destruct (pattern_sem (wvalue w) false false K Hrq) as [t' [Ht' [_ [Hs Hst]]]].
      rewrite Ht in Ht'. inversion Ht'. subst t'. 
      assert (Hleaf : qmap (sC (fl K)) t = sC (fl K) t).
      { unfold regexpQuery in Ht. destruct (rq (wvalue w)); inversion Ht; reflexivity. }
      rewrite Hleaf, Hs, Hst. reflexivity.
  Qed.

  Lemma spec_field f a w : spec (DField f a w).
  Proof.
    intros Hwf. cbn [wf_expr] in Hwf. apply andb_prop in Hwf as [_ Hf].
    destruct f; cbn [wf_field] in Hf; try discriminate.
    - (* content *)
      destruct (pattern_sem (wvalue w) true false CAuto Hf) as [t [Ht [Hc _]]].
      apply (spec_atom_intro _ t); auto.
      + cbn [iexpr atom_tok field_tok field_text]. rewrite atom_content, Ht. reflexivity.
      + intros K. destruct (pattern_sem (wvalue w) true false K Hf) as [t' [Ht' [_ [Hs Hst]]]].
        rewrite Ht in Ht'. inversion Ht'. subst t'.
        assert (Hleaf : qmap (sC (fl K)) t = sC (fl K) t).
        { unfold regexpQuery in Ht. destruct (rq (wvalue w)); inversion Ht; reflexivity. }
        cbn [den_expr den_field]. rewrite Hleaf, Hs, Hst. reflexivity.
    - (* file *)
      destruct (pattern_sem (wvalue w) false true CAuto Hf) as [t [Ht [Hc _]]].
      apply (spec_atom_intro _ t); auto.
      + cbn [iexpr atom_tok field_tok field_text]. rewrite atom_file, Ht. reflexivity.
      + intros K. destruct (pattern_sem (wvalue w) false true K Hf) as [t' [Ht' [_ [Hs Hst]]]].
        rewrite Ht in Ht'. inversion Ht'. subst t'.
        assert (Hleaf : qmap (sC (fl K)) t = sC (fl K) t).
        { unfold regexpQuery in Ht. destruct (rq (wvalue w)); inversion Ht; reflexivity. }
        cbn [den_expr den_field]. rewrite Hleaf, Hs, Hst. reflexivity.
    - (* repo *)
      apply (spec_atom_intro _ (QRepo (wvalue w))); auto.
      + cbn [iexpr atom_tok field_tok field_text]. rewrite atom_repo, Hf. reflexivity.
      + intros K. reflexivity.
    - (* sym *)
      apply andb_prop in Hf as [Hne Hrq].
      destruct (pattern_sem (wvalue w) false false CAuto Hrq) as [t [Ht [Hc _]]].
      apply (spec_atom_intro _ (QSymbol t)); auto.
      + cbn [iexpr atom_tok field_tok field_text]. rewrite atom_sym. destruct (is_nil (wvalue w)); [discriminate|].
        rewrite Ht. reflexivity.
      + intros K. destruct (pattern_sem (wvalue w) false false K Hrq) as [t' [Ht' [_ [Hs Hst]]]].
        rewrite Ht in Ht'. inversion Ht'. subst t'.
        cbn [den_expr den_field]. change (qmap (sC (fl K)) (QSymbol t)) with (QSymbol (sC (fl K) t)).
        rewrite Hs. reflexivity.
    - (* branch *)
      apply (spec_atom_intro _ (QBranch (wvalue w) false)); auto. intros K. reflexivity.
    - (* lang *)
      apply (spec_atom_intro _ (match lang (wvalue w) with Some c => QLanguage c | None => QConst false end)); auto.
      + cbn [iexpr atom_tok field_tok field_text]. rewrite atom_lang. destruct (lang (wvalue w)); reflexivity.
      + destruct (lang (wvalue w)); reflexivity.
      + intros K. cbn [den_expr den_field]. destruct (lang (wvalue w)); reflexivity.
    - (* meta *)
      apply andb_prop in Hf as [Hf Hrc]. apply andb_prop in Hf as [_ Hcol]. apply negb_true_iff in Hcol.
      apply (spec_atom_intro _ (QMeta name (wvalue w))); auto.
      + cbn [iexpr atom_tok field_tok field_text]. rewrite atom_meta, split_colon_name by exact Hcol.
        simpl app. rewrite Hrc. reflexivity.
      + intros K. reflexivity.
  Qed.

  Lemma spec_bool f v : spec (DBool f v).
  Proof.
    intros _. apply (spec_atom_intro _ (den_bool f v)); auto.
    - cbn [iexpr atom_tok]. rewrite atom_bool. reflexivity.
    - destruct f, v; reflexivity.
    - intros K. destruct f, v; reflexivity.
  Qed.

  Lemma spec_case k : spec (DCase k).
  Proof.
    intros _. split; [|discriminate]. cbn [iexpr atom_tok]. rewrite atom_case. reflexivity.
  Qed.
  Lemma spec_type a t : spec (DType a t).
  Proof.
    intros _. split; [|discriminate]. cbn [iexpr atom_tok]. rewrite atom_type. reflexivity.
  Qed.

  Lemma spec_neg e : spec e -> spec (DNeg e).
  Proof.
    intros IH Hwf. cbn [wf_expr] in Hwf. apply andb_prop in Hwf as [Hd Hwf]. apply negb_true_iff in Hd.
    destruct (IH Hwf) as [_ H2]. destruct (H2 Hd) as [t [Ht [Hc Hs]]].
    apply (spec_atom_intro _ (QNot t)); auto.
    - cbn [iexpr]. rewrite Ht. cbn [obind]. destruct t; try reflexivity. discriminate.
    - intros K. cbn [den_expr]. rewrite <- (Hs K). reflexivity.
  Qed.

  (** ---- groups *)
  Definition dok (e : dexpr) : Prop := is_directive e = false -> iscase (tr e) = false.

  Lemma items_conj c : Forall dok c -> r_items (map e_raw c) = map IQ (map tr (nd c)).
  Proof.
    induction 1 as [|e c He _ IH]; [reflexivity|]. unfold nd in *. cbn [map filter].
    destruct e; cbn [is_directive negb e_raw r_items map]; try exact IH;
      (specialize (He eq_refl); destruct (tr _) eqn:E; try discriminate He; cbn [r_items]; rewrite IH; reflexivity).
  Qed.

  Lemma d_case es : Forall dok es -> forall k,
    r_case (map e_raw es) k = match find_case es with Some k0 => fl k0 | None => k end.
  Proof.
    induction 1 as [|e es He _ IH]; intros k; [reflexivity|]. cbn [map].
    destruct e; cbn [e_raw r_case find_case]; try (rewrite IH; destruct (find_case es); reflexivity);
      try (specialize (He eq_refl); destruct (tr _) eqn:E; try discriminate He; cbn [r_case]; apply IH).
  Qed.

  Lemma d_has es : Forall dok es ->
    r_has (map e_raw es) = match find_case es with Some _ => true | None => false end.
  Proof.
    induction 1 as [|e es He _ IH]; [reflexivity|]. cbn [map].
    destruct e; cbn [e_raw r_has find_case]; try exact IH; try (destruct (find_case es); reflexivity);
      try (specialize (He eq_refl); destruct (tr _) eqn:E; try discriminate He; cbn [r_has]; exact IH).
  Qed.

  Lemma d_type es : Forall dok es -> forall t,
    r_type (map e_raw es) t = match find_type es with Some m => if m <? t then m else t | None => t end.
  Proof.
    induction 1 as [|e es He _ IH]; intros t; [reflexivity|]. cbn [map].
    destruct e; cbn [e_raw r_type find_type]; try apply IH.
    rewrite IH. destruct (find_type es) as [m|].
    - destruct (N.ltb_spec (rtype_code t0) t), (N.ltb_spec (rtype_code t0) m);
        repeat match goal with |- context[?a <? ?b] => destruct (N.ltb_spec a b) end; try reflexivity; lia.
    - reflexivity.
  Qed.

  Lemma sq_or_and K L :
    stripCaseScopes (qmap (sC (fl K)) (QOr (map QAnd L))) =
    QOr (map QAnd (map (map (fun x => stripCaseScopes (qmap (sC (fl K)) x))) L)).
  Proof.
    simpl. f_equal. rewrite !map_map. apply map_ext. intros g. simpl. rewrite map_map. reflexivity.
  Qed.
  Lemma s_or_and L :
    stripCaseScopes (QOr (map QAnd L)) = QOr (map QAnd (map (map stripCaseScopes) L)).
  Proof. simpl. f_equal. rewrite !map_map. reflexivity. Qed.

  Lemma spec_group q : Forall (Forall spec) q -> spec (DGroup q).
  Proof.
    intros IH Hwf. cbn [wf_expr] in Hwf. apply andb_prop in Hwf as [Hne Hwf].
    assert (Hq : q <> []) by (destruct q; [discriminate | discriminate]).
    rewrite forallb_forall in Hwf.
    (* per-member facts *)
    assert (Hmem : Forall (Forall (fun e =>
              (do p <- iexpr e; Ok (raw_of p)) = Ok (e_raw e) /\ dok e /\
              (is_directive e = false -> sem e (tr e)))) q).
    { rewrite Forall_forall in *. intros c Hc. specialize (IH c Hc). specialize (Hwf c Hc).
      apply andb_prop in Hwf as [_ Hwfc]. rewrite forallb_forall in Hwfc.
      rewrite Forall_forall in *. intros e He. destruct (IH e He (Hwfc e He)) as [H1 H2].
      split; [exact H1|]. split.
      - intros Hd. destruct (H2 Hd) as [t [Ht [Hcase _]]]. unfold tr. rewrite Ht. exact Hcase.
      - intros Hd. destruct (H2 Hd) as [t [Ht [_ Hs]]]. unfold tr. rewrite Ht. exact Hs. }
    assert (Hseq : seq (map (fun c => seq (map (fun e => do p <- iexpr e; Ok (raw_of p)) c)) q) = Ok (map (map e_raw) q)).
    { apply seq_map_ok. eapply Forall_impl; [|exact Hmem]. intros c Hc. apply seq_map_ok.
      eapply Forall_impl; [|exact Hc]. intros e [H1 _]. exact H1. }
    assert (Hdok : Forall (Forall dok) q).
    { eapply Forall_impl; [|exact Hmem]. intros c Hc. eapply Forall_impl; [|exact Hc]. intros e [_ [H _]]. exact H. }
    assert (Hdokc : Forall dok (concat q)).
    { clear -Hdok. induction Hdok as [|c q Hc _ IHq]; simpl; [constructor|]. apply Forall_app. split; assumption. }
    set (L0 := map (fun c => map tr (nd c)) q).
    assert (Hitems : r_items (sep_raws (map (map e_raw) q)) = sep_items (map (map IQ) L0)).
    { rewrite sep_items_spec. f_equal. unfold L0. rewrite !map_map. apply map_ext_Forall.
      eapply Forall_impl; [|exact Hdok]. intros c Hc. apply items_conj. exact Hc. }
    assert (HL0 : L0 <> [] /\ Forall (fun g => g <> []) L0).
    { split; [unfold L0; destruct q; [congruence|discriminate]|]. unfold L0. rewrite Forall_map. rewrite Forall_forall.
      intros c Hc. specialize (Hwf c Hc). apply andb_prop in Hwf as [Hex _]. apply existsb_exists in Hex as [e [He Hd]].
      unfold nd. intros Hnil. assert (Hin : In e (filter (fun e => negb (is_directive e)) c)) by (apply filter_In; auto).
      apply (in_map tr) in Hin. rewrite Hnil in Hin. exact Hin. }
    destruct HL0 as [HL0a HL0b].
    pose proof (finish_build rx_auto _ L0 Hitems HL0a HL0b) as Hfb.
    rewrite sep_case, sep_has, sep_type, <- concat_map in Hfb.
    rewrite (d_case _ Hdokc), (d_has _ Hdokc), (d_type _ Hdokc) in Hfb.
    set (T := build rx_auto _ _ _ L0) in Hfb.
    assert (Hi : iexpr (DGroup q) = Ok (PQ T)).
    { cbn [iexpr]. rewrite Hseq. cbn [obind].
      destruct (finish_list rx_auto (sep_raws (map (map e_raw) q))) as [items| |]; cbn [obind] in *; try discriminate.
      rewrite Hfb. reflexivity. }
    apply (spec_atom_intro _ T); auto.
    intros K. unfold T, build. cbn [den_expr].
    (* the documented body *)
    assert (Hbody : forall k', 
      map (fun c => QAnd (flat_map (fun e => if is_directive e then [] else [dexp k' e]) c)) q =
      map QAnd (map (fun c => map (dexp k') (nd c)) q)).
    { intros k'. rewrite map_map. apply map_ext. intros c. rewrite flat_map_filter. reflexivity. }
    rewrite Hbody.
    (* member semantics under a pass *)
    assert (Hs1 : forall k', map (map (fun x => stripCaseScopes (qmap (sC (fl k')) x))) L0 = map (fun c => map (dexp k') (nd c)) q).
    { intros k'. unfold L0. rewrite map_map. apply map_ext_Forall. eapply Forall_impl; [|exact Hmem].
      intros c Hc. rewrite map_map. unfold nd. clear -Hc. induction Hc as [|e c He _ IHc]; [reflexivity|].
      cbn [filter]. destruct (is_directive e) eqn:Hd; cbn [negb]; [exact IHc|].
      cbn [map]. destruct He as [_ [_ Hsem]]. rewrite (Hsem eq_refl k'). rewrite IHc. reflexivity. }
    assert (Hmm : forall (f g : Q -> Q) (L : list (list Q)), map (map f) (map (map g) L) = map (map (fun x => f (g x))) L).
    { intros f g L. rewrite map_map. apply map_ext. intros l. apply map_map. }
    assert (Hov : forall k1 k2, map (map (fun x => stripCaseScopes (qmap (sC (fl k2)) (qmap (sC (fl k1)) x)))) L0 =
                                map (fun c => map (dexp k2) (nd c)) q).
    { intros k1 k2. rewrite <- (Hs1 k2). apply map_ext. intros l. apply map_ext. intros x. rewrite qmap_override. reflexivity. }
    assert (Hty : forall ty, find_type (concat q) = Some ty -> ((if ty <? 100 then ty else 100) =? 100) = false).
    { intros ty Hft. pose proof (find_type_small _ _ Hft) as Hsm.
      assert (E1 : (ty <? 100) = true) by (apply N.ltb_lt; lia). rewrite E1. apply N.eqb_neq. lia. }
    destruct (find_case (concat q)) as [k0|] eqn:Hfc; destruct (find_type (concat q)) as [ty|] eqn:Hft;
      try rewrite (Hty _ eq_refl); try rewrite N.eqb_refl.
    - (* own case:, own type: *)
      assert (E1 : (ty <? 100) = true) by (pose proof (find_type_small _ _ Hft); apply N.ltb_lt; lia). rewrite E1.
      change (map (map QCaseScope) [[QType ty (QOr (map QAnd (map (map (qmap (sC (fl k0)))) L0)))]])
        with [[QCaseScope (QType ty (QOr (map QAnd (map (map (qmap (sC (fl k0)))) L0))))]].
      rewrite sq_or_and. cbn [map].
      change (stripCaseScopes (qmap (sC (fl K)) (QCaseScope (QType ty (QOr (map QAnd (map (map (qmap (sC (fl k0)))) L0)))))))
        with (QType ty (stripCaseScopes (QOr (map QAnd (map (map (qmap (sC (fl k0)))) L0))))).
      rewrite s_or_and, Hmm, Hs1. reflexivity.
    - (* own case:, no type: *)
      rewrite sq_or_and, !Hmm.
      change (fun x => stripCaseScopes (qmap (sC (fl K)) (QCaseScope (qmap (sC (fl k0)) x))))
        with (fun x => stripCaseScopes (qmap (sC (fl k0)) x)).
      rewrite Hs1. reflexivity.
    - (* inherited case, own type: *)
      assert (E1 : (ty <? 100) = true) by (pose proof (find_type_small _ _ Hft); apply N.ltb_lt; lia). rewrite E1.
      rewrite sq_or_and. cbn [map].
      change (stripCaseScopes (qmap (sC (fl K)) (QType ty (QOr (map QAnd (map (map (qmap (sC (bs "auto"%string)))) L0))))))
        with (QType ty (stripCaseScopes (qmap (sC (fl K)) (QOr (map QAnd (map (map (qmap (sC (fl CAuto)))) L0)))))).
      rewrite sq_or_and, Hmm, Hov. reflexivity.
    - (* inherited case, no type: *)
      change (bs "auto"%string) with (fl CAuto). rewrite sq_or_and, Hmm, Hov. reflexivity.
  Qed.
  Definition group_k (q : dquery) : cflavor := match find_case (concat q) with Some k0 => k0 | None => CAuto end.
  Definition group_has (q : dquery) : bool := match find_case (concat q) with Some _ => true | None => false end.
  Definition group_ty (q : dquery) : N := match find_type (concat q) with Some m => if m <? 100 then m else 100 | None => 100 end.

  Lemma group_tree q : Forall (Forall spec) q -> wf_expr rq rcompile (DGroup q) = true ->
    iexpr (DGroup q) = Ok (PQ (build rx_auto (fl (group_k q)) (group_has q) (group_ty q) (map (fun c => map tr (nd c)) q))).
  Proof.
    intros IH Hwf. cbn [wf_expr] in Hwf. apply andb_prop in Hwf as [Hne Hwf].
    assert (Hq : q <> []) by (destruct q; [discriminate | discriminate]).
    rewrite forallb_forall in Hwf.
    (* per-member facts *)
    assert (Hmem : Forall (Forall (fun e =>
              (do p <- iexpr e; Ok (raw_of p)) = Ok (e_raw e) /\ dok e /\
              (is_directive e = false -> sem e (tr e)))) q).
    { rewrite Forall_forall in *. intros c Hc. specialize (IH c Hc). specialize (Hwf c Hc).
      apply andb_prop in Hwf as [_ Hwfc]. rewrite forallb_forall in Hwfc.
      rewrite Forall_forall in *. intros e He. destruct (IH e He (Hwfc e He)) as [H1 H2].
      split; [exact H1|]. split.
      - intros Hd. destruct (H2 Hd) as [t [Ht [Hcase _]]]. unfold tr. rewrite Ht. exact Hcase.
      - intros Hd. destruct (H2 Hd) as [t [Ht [_ Hs]]]. unfold tr. rewrite Ht. exact Hs. }
    assert (Hseq : seq (map (fun c => seq (map (fun e => do p <- iexpr e; Ok (raw_of p)) c)) q) = Ok (map (map e_raw) q)).
    { apply seq_map_ok. eapply Forall_impl; [|exact Hmem]. intros c Hc. apply seq_map_ok.
      eapply Forall_impl; [|exact Hc]. intros e [H1 _]. exact H1. }
    assert (Hdok : Forall (Forall dok) q).
    { eapply Forall_impl; [|exact Hmem]. intros c Hc. eapply Forall_impl; [|exact Hc]. intros e [_ [H _]]. exact H. }
    assert (Hdokc : Forall dok (concat q)).
    { clear -Hdok. induction Hdok as [|c q Hc _ IHq]; simpl; [constructor|]. apply Forall_app. split; assumption. }
    set (L0 := map (fun c => map tr (nd c)) q).
    assert (Hitems : r_items (sep_raws (map (map e_raw) q)) = sep_items (map (map IQ) L0)).
    { rewrite sep_items_spec. f_equal. unfold L0. rewrite !map_map. apply map_ext_Forall.
      eapply Forall_impl; [|exact Hdok]. intros c Hc. apply items_conj. exact Hc. }
    assert (HL0 : L0 <> [] /\ Forall (fun g => g <> []) L0).
    { split; [unfold L0; destruct q; [congruence|discriminate]|]. unfold L0. rewrite Forall_map. rewrite Forall_forall.
      intros c Hc. specialize (Hwf c Hc). apply andb_prop in Hwf as [Hex _]. apply existsb_exists in Hex as [e [He Hd]].
      unfold nd. intros Hnil. assert (Hin : In e (filter (fun e => negb (is_directive e)) c)) by (apply filter_In; auto).
      apply (in_map tr) in Hin. rewrite Hnil in Hin. exact Hin. }
    destruct HL0 as [HL0a HL0b].
    pose proof (finish_build rx_auto _ L0 Hitems HL0a HL0b) as Hfb.
    rewrite sep_case, sep_has, sep_type, <- concat_map in Hfb.
    rewrite (d_case _ Hdokc), (d_has _ Hdokc), (d_type _ Hdokc) in Hfb.
    set (T := build rx_auto _ _ _ L0) in Hfb.
    assert (Hi : iexpr (DGroup q) = Ok (PQ T)).
    { cbn [iexpr]. rewrite Hseq. cbn [obind].
      destruct (finish_list rx_auto (sep_raws (map (map e_raw) q))) as [items| |]; cbn [obind] in *; try discriminate.
      rewrite Hfb. reflexivity. }
    rewrite Hi. unfold T, group_k, group_has, group_ty. destruct (find_case (concat q)); reflexivity.
  Qed.

  Theorem spec_all e : spec e.
  Proof.
    induction e using dexpr_ind'.
    - apply spec_text. - apply spec_field. - apply spec_bool. - apply spec_case. - apply spec_type.
    - apply spec_neg; assumption. - apply spec_group; assumption.
  Qed.

  Lemma q_or_and K L : qmap (sC (fl K)) (QOr (map QAnd L)) = QOr (map QAnd (map (map (qmap (sC (fl K)))) L)).
  Proof. simpl. f_equal. rewrite !map_map. apply map_ext. intros g. reflexivity. Qed.

  (** an enclosing group's case pass reaches exactly the groups without a case: of their own *)
  Lemma build_pass K k has ty L0 :
    qmap (sC (fl K)) (build rx_auto (fl k) has ty L0) = build rx_auto (fl (if has then k else K)) has ty L0.
  Proof.
    assert (Hmm : forall (f g : Q -> Q) (L : list (list Q)), map (map f) (map (map g) L) = map (map (fun x => f (g x))) L).
    { intros f g L. rewrite map_map. apply map_ext. intros l. apply map_map. }
    assert (Hov : forall k1 k2 (L : list (list Q)), map (map (fun x => qmap (sC (fl k2)) (qmap (sC (fl k1)) x))) L = map (map (qmap (sC (fl k2)))) L).
    { intros k1 k2 L. apply map_ext. intros l. apply map_ext. intros x. apply qmap_override. }
    unfold build. destruct has; destruct (ty =? 100).
    - rewrite q_or_and, Hmm. reflexivity.
    - cbn [map]. reflexivity.
    - rewrite q_or_and, Hmm, Hov. reflexivity.
    - cbn [map]. change (qmap (sC (fl K)) (QOr [QAnd [QType ty (QOr (map QAnd (map (map (qmap (sC (fl k)))) L0)))]]))
        with (QOr [QAnd [QType ty (qmap (sC (fl K)) (QOr (map QAnd (map (map (qmap (sC (fl k)))) L0))))]]).
      rewrite q_or_and, Hmm, Hov. reflexivity.
  Qed.

  (** TREE LEVEL: the parser's list processing applied to a well-formed abstract query yields exactly the
      simplified documented meaning *)
  Theorem iquery_den q : wf_query rq rcompile q = true ->
    iquery rq rx_auto rcompile lang q = Ok (Simplify (den (rq_d rq) rx_auto lang q)).
  Proof.
    intros Hwf. unfold wf_query in Hwf.
    assert (Hall : Forall (Forall spec) q).
    { apply Forall_forall. intros c _. apply Forall_forall. intros e _. apply spec_all. }
    pose proof (group_tree q Hall Hwf) as Ht.
    destruct (spec_all (DGroup q) Hwf) as [_ H2]. destruct (H2 eq_refl) as [t [Ht' [_ Hsem]]].
    rewrite Ht in Ht'. inversion Ht' as [Et]. clear Ht'.
    cbn [iexpr] in Ht. unfold iquery.
    destruct (seq _) as [cs| |]; cbn [obind] in *; try discriminate.
    destruct (finish_list rx_auto (sep_raws cs)) as [items| |]; cbn [obind] in *; try discriminate.
    destruct (parseOperators items) as [t0| |]; cbn [obind] in *; try discriminate.
    inversion Ht as [Et0]. f_equal. f_equal.
    change (den (rq_d rq) rx_auto lang q) with (dexp CAuto (DGroup q)).
    rewrite <- (Hsem CAuto), <- Et. rewrite build_pass.
    unfold group_has, group_k. destruct (find_case (concat q)); reflexivity.
  Qed.
End Main.
