(** Inductive invariant of the indexMutex transition system (Model/IndexMutex.v): who holds which lock,
    who owns which entry of the running set. Holds in every state reachable by any interleaving of any
    number of goroutines. *)
From ZV Require Import Lib.Base Model.IndexMutex.

Definition holds_r (p : pc) : bool :=
  match p with WRLocked _ | WMu1 _ _ | WSkip _ | WReady _ | WInF _ | WDone _ | WMu2 _ | WCleaned _ => true | _ => false end.
Definition holds_w (p : pc) : bool := match p with GLocked | GInF | GDone => true | _ => false end.
Definition holds_mu (p : pc) : bool := match p with WMu1 _ _ | WMu2 _ => true | _ => false end.
(** the goroutine whose check-and-set inserted the name owns the entry until its deferred delete *)
Definition owns (p : pc) : option N :=
  match p with WMu1 n false | WReady n | WInF n | WDone n => Some n | _ => None end.
Definition ret_ok (p : pc) : Prop := match p with WRet res ran => res = ran | _ => True end.

Record Inv (s : state) : Prop := {
  i_r : forall t, In t (readers s) <-> holds_r (pcs s t) = true;
  i_w : forall t, writer s = Some t <-> holds_w (pcs s t) = true;
  i_rw : writer s <> None -> readers s = [];
  i_mu : forall t, mu s = Some t <-> holds_mu (pcs s t) = true;
  i_run : forall n, In n (running s) <-> exists t, owns (pcs s t) = Some n;
  i_own : forall t1 t2 n, owns (pcs s t1) = Some n -> owns (pcs s t2) = Some n -> t1 = t2;
  i_ret : forall t, ret_ok (pcs s t)
}.

Lemma in_removeN u t l : In u (removeN t l) <-> In u l /\ u <> t.
Proof.
  unfold removeN. rewrite filter_In, Bool.negb_true_iff, N.eqb_neq. tauto.
Qed.
Lemma memN_In x l : memN x l = true <-> In x l.
Proof.
  unfold memN. rewrite existsb_exists. split.
  - intros (y & Hy & E). apply N.eqb_eq in E. subst. exact Hy.
  - intro H. exists x. split; [exact H | apply N.eqb_refl].
Qed.

Lemma inv_init : Inv init.
Proof.
  split; simpl; try tauto; try (intros; split; [tauto || discriminate | discriminate]).
  - intro n. split; [tauto | intros (t & H); discriminate].
  - intros; discriminate.
Qed.

Lemma upd_same f t p : upd f t p t = p.
Proof. unfold upd. rewrite N.eqb_refl. reflexivity. Qed.
Lemma upd_other f t p u : u <> t -> upd f t p u = f u.
Proof. unfold upd. intro H. apply N.eqb_neq in H. rewrite H. reflexivity. Qed.

(** one goroutine t moves to p, the shared state becomes (rd, wr, m, rn) *)
Lemma inv_update s t p rd wr m rn :
  Inv s ->
  (forall u, In u rd <-> (if N.eqb u t then holds_r p = true else In u (readers s))) ->
  (forall u, wr = Some u <-> (if N.eqb u t then holds_w p = true else writer s = Some u)) ->
  (wr <> None -> rd = []) ->
  (forall u, m = Some u <-> (if N.eqb u t then holds_mu p = true else mu s = Some u)) ->
  (forall n, In n rn <-> (owns p = Some n \/ exists u, u <> t /\ owns (pcs s u) = Some n)) ->
  (forall u n, u <> t -> owns p = Some n -> owns (pcs s u) = Some n -> False) ->
  ret_ok p ->
  Inv {| pcs := upd (pcs s) t p; readers := rd; writer := wr; mu := m; running := rn |}.
Proof.
  intros I Hr Hw Hrw Hm Hrun Hown Hret. split; simpl.
  - intro u. rewrite Hr. unfold upd. destruct (N.eqb u t); [tauto | apply (i_r _ I)].
  - intro u. rewrite Hw. unfold upd. destruct (N.eqb u t); [tauto | apply (i_w _ I)].
  - exact Hrw.
  - intro u. rewrite Hm. unfold upd. destruct (N.eqb u t); [tauto | apply (i_mu _ I)].
  - intro n. rewrite Hrun. split.
    + intros [H|(u & Hne & H)]; [exists t; rewrite upd_same; exact H | exists u; rewrite upd_other by exact Hne; exact H].
    + intros (u & H). destruct (N.eq_dec u t) as [->|Hne]; [rewrite upd_same in H; left; exact H|].
      rewrite upd_other in H by exact Hne. right. eauto.
  - intros t1 t2 n H1 H2.
    destruct (N.eq_dec t1 t) as [->|N1], (N.eq_dec t2 t) as [->|N2]; auto.
    + rewrite upd_same in H1. rewrite upd_other in H2 by exact N2. exfalso. eapply Hown; eauto.
    + rewrite upd_same in H2. rewrite upd_other in H1 by exact N1. exfalso. eapply Hown; eauto.
    + rewrite upd_other in H1, H2 by assumption. eapply (i_own _ I); eauto.
  - intro u. unfold upd. destruct (N.eqb u t); [exact Hret | apply (i_ret _ I)].
Qed.

(** side conditions of [inv_update] when a resource is untouched and the class of the pc is unchanged *)
Lemma same_r s t p : Inv s -> holds_r p = holds_r (pcs s t) ->
  forall u, In u (readers s) <-> (if N.eqb u t then holds_r p = true else In u (readers s)).
Proof.
  intros I E u. destruct (N.eqb u t) eqn:Eu; [|tauto]. apply N.eqb_eq in Eu. subst u. rewrite E. apply (i_r _ I).
Qed.
Lemma same_w s t p : Inv s -> holds_w p = holds_w (pcs s t) ->
  forall u, writer s = Some u <-> (if N.eqb u t then holds_w p = true else writer s = Some u).
Proof.
  intros I E u. destruct (N.eqb u t) eqn:Eu; [|tauto]. apply N.eqb_eq in Eu. subst u. rewrite E. apply (i_w _ I).
Qed.
Lemma same_mu s t p : Inv s -> holds_mu p = holds_mu (pcs s t) ->
  forall u, mu s = Some u <-> (if N.eqb u t then holds_mu p = true else mu s = Some u).
Proof.
  intros I E u. destruct (N.eqb u t) eqn:Eu; [|tauto]. apply N.eqb_eq in Eu. subst u. rewrite E. apply (i_mu _ I).
Qed.
Lemma same_run s t p : Inv s -> owns p = owns (pcs s t) ->
  forall n, In n (running s) <-> (owns p = Some n \/ exists u, u <> t /\ owns (pcs s u) = Some n).
Proof.
  intros I E n. rewrite (i_run _ I n), E. split.
  - intros (u & H). destruct (N.eq_dec u t) as [->|Hne]; [left; exact H | right; eauto].
  - intros [H|(u & _ & H)]; eauto.
Qed.
Lemma same_own s t p : Inv s -> owns p = owns (pcs s t) ->
  forall u n, u <> t -> owns p = Some n -> owns (pcs s u) = Some n -> False.
Proof.
  intros I E u n Hne H1 H2. rewrite E in H1. apply Hne. eapply (i_own _ I); eauto.
Qed.

Lemma inv_set_pc s t p :
  Inv s -> holds_r p = holds_r (pcs s t) -> holds_w p = holds_w (pcs s t) -> holds_mu p = holds_mu (pcs s t) ->
  owns p = owns (pcs s t) -> ret_ok p -> Inv (set_pc s t p).
Proof.
  intros I E1 E2 E3 E4 Hret. unfold set_pc. apply inv_update; auto.
  - apply same_r; auto.
  - apply same_w; auto.
  - apply (i_rw _ I).
  - apply same_mu; auto.
  - apply same_run; auto.
  - apply same_own; auto.
Qed.

Ltac fin Ep := try rewrite Ep; first [reflexivity | exact Logic.I].

Lemma inv_step s e s' : Inv s -> step s e = Some s' -> Inv s'.
Proof.
  intros I H. destruct e as [t n|t|t|t|t|t|t|t|t|t|t res]; simpl in H.
  - (* ECallWith *) destruct (pcs s t) eqn:Ep; try discriminate. inversion H; subst s'.
    apply inv_set_pc; auto; fin Ep.
  - (* ECallGlobal *) destruct (pcs s t) eqn:Ep; try discriminate. inversion H; subst s'.
    apply inv_set_pc; auto; fin Ep.
  - (* ERLock *) destruct (pcs s t) eqn:Ep; try discriminate. destruct (writer s) eqn:Ew; try discriminate.
    inversion H; subst s'. apply inv_update; auto.
    + intro u. simpl. destruct (N.eqb u t) eqn:Eu.
      * apply N.eqb_eq in Eu. subst. tauto.
      * apply N.eqb_neq in Eu. split; [intros [E|E]; [congruence | exact E] | auto].
    + rewrite <- Ew. apply same_w; auto. rewrite Ep. reflexivity.
    + congruence.
    + apply same_mu; auto. rewrite Ep. reflexivity.
    + apply same_run; auto. rewrite Ep. reflexivity.
    + apply same_own; auto. rewrite Ep. reflexivity.
    + exact Logic.I.
  - (* ERUnlock *)
    assert (Hrd : forall p, holds_r p = false -> forall u, In u (removeN t (readers s)) <-> (if N.eqb u t then holds_r p = true else In u (readers s))).
    { intros p Hp u. rewrite in_removeN. destruct (N.eqb u t) eqn:Eu.
      - apply N.eqb_eq in Eu. rewrite Hp. split; [tauto | discriminate].
      - apply N.eqb_neq in Eu. tauto. }
    assert (Hrw : writer s <> None -> removeN t (readers s) = []).
    { intro Hw. rewrite (i_rw _ I Hw). reflexivity. }
    destruct (pcs s t) eqn:Ep; try discriminate; inversion H; subst s'; apply inv_update; auto;
      try (apply same_w; auto; rewrite Ep; reflexivity);
      try (apply same_mu; auto; rewrite Ep; reflexivity);
      try (apply same_run; auto; rewrite Ep; reflexivity);
      try (apply same_own; auto; rewrite Ep; reflexivity);
      reflexivity.
  - (* ELock *) destruct (pcs s t) eqn:Ep; try discriminate. destruct (writer s) eqn:Ew; try discriminate.
    destruct (readers s) eqn:Er; try discriminate. inversion H; subst s'. apply inv_update; auto.
    + rewrite <- Er. apply same_r; auto. rewrite Ep. reflexivity.
    + intro u. destruct (N.eqb u t) eqn:Eu.
      * apply N.eqb_eq in Eu. subst. simpl. tauto.
      * apply N.eqb_neq in Eu. split; [intro E; congruence | rewrite Ew; discriminate].
    + apply same_mu; auto. rewrite Ep. reflexivity.
    + apply same_run; auto. rewrite Ep. reflexivity.
    + apply same_own; auto. rewrite Ep. reflexivity.
    + exact Logic.I.
  - (* EUnlock *) destruct (pcs s t) eqn:Ep; try discriminate. inversion H; subst s'. apply inv_update; auto.
    + apply same_r; auto. rewrite Ep. reflexivity.
    + intro u. destruct (N.eqb u t) eqn:Eu.
      * simpl. split; discriminate.
      * apply N.eqb_neq in Eu. split; [discriminate|]. intro Hu.
        assert (Ht : writer s = Some t) by (apply (i_w _ I); rewrite Ep; reflexivity). congruence.
    + congruence.
    + apply same_mu; auto. rewrite Ep. reflexivity.
    + apply same_run; auto. rewrite Ep. reflexivity.
    + apply same_own; auto. rewrite Ep. reflexivity.
    + exact Logic.I.
  - (* EMuLock *) destruct (mu s) eqn:Em; try discriminate.
    assert (Hmu : forall p, holds_mu p = true -> forall u, Some t = Some u <-> (if N.eqb u t then holds_mu p = true else mu s = Some u)).
    { intros p Hp u. destruct (N.eqb u t) eqn:Eu.
      - apply N.eqb_eq in Eu. subst. tauto.
      - apply N.eqb_neq in Eu. rewrite Em. split; [intro E; congruence | discriminate]. }
    destruct (pcs s t) eqn:Ep; try discriminate; inversion H; subst s'; clear H.
    + (* WRLocked n: check-and-set *)
      destruct (memN n (running s)) eqn:Emem.
      * apply inv_update; auto.
        -- apply same_r; auto. rewrite Ep. reflexivity.
        -- apply same_w; auto. rewrite Ep. reflexivity.
        -- apply (i_rw _ I).
        -- apply same_run; auto. rewrite Ep. reflexivity.
        -- apply same_own; auto. rewrite Ep. reflexivity.
        -- exact Logic.I.
      * assert (Hnot : ~ In n (running s)) by (rewrite <- memN_In; congruence).
        apply inv_update; auto.
        -- apply same_r; auto. rewrite Ep. reflexivity.
        -- apply same_w; auto. rewrite Ep. reflexivity.
        -- apply (i_rw _ I).
        -- intro m. simpl. rewrite (i_run _ I m). split.
           ++ intros [E|(u & Hu)]; [left; congruence|]. right. exists u. split; [|exact Hu].
              intro; subst u. rewrite Ep in Hu. discriminate.
           ++ intros [E|(u & _ & Hu)]; [left; congruence | right; eauto].
        -- intros u m Hne H1 H2. simpl in H1. inversion H1; subst m. apply Hnot. apply (i_run _ I). eauto.
        -- exact Logic.I.
    + (* WDone n: delete *)
      apply inv_update; auto.
      * apply same_r; auto. rewrite Ep. reflexivity.
      * apply same_w; auto. rewrite Ep. reflexivity.
      * apply (i_rw _ I).
      * intro m. simpl. rewrite in_removeN, (i_run _ I m). split.
        -- intros [(u & Hu) Hne]. right. exists u. split; [|exact Hu].
           intro; subst u. rewrite Ep in Hu. simpl in Hu. congruence.
        -- intros [E|(u & Hne & Hu)]; [discriminate|]. split; [eauto|].
           intro; subst m. apply Hne. apply (i_own _ I u t n Hu). rewrite Ep. reflexivity.
      * intros u m _ H1. discriminate.
      * exact Logic.I.
  - (* EMuUnlock *)
    assert (Hmu : forall p, holds_mu p = false -> holds_mu (pcs s t) = true ->
                  forall u, None = Some u <-> (if N.eqb u t then holds_mu p = true else mu s = Some u)).
    { intros p Hp Ht u. destruct (N.eqb u t) eqn:Eu.
      - rewrite Hp. split; discriminate.
      - apply N.eqb_neq in Eu. split; [discriminate|]. intro Hu.
        assert (mu s = Some t) by (apply (i_mu _ I); exact Ht). congruence. }
    destruct (pcs s t) eqn:Ep; try discriminate; inversion H; subst s'; clear H.
    + destruct already; apply inv_update; auto;
        try (apply same_r; auto; rewrite Ep; reflexivity);
        try (apply same_w; auto; rewrite Ep; reflexivity);
        try (apply (i_rw _ I));
        try (apply Hmu; [reflexivity | rewrite Ep; reflexivity]);
        try (apply same_run; auto; rewrite Ep; reflexivity);
        try (apply same_own; auto; rewrite Ep; reflexivity);
        exact Logic.I.
    + apply inv_update; auto;
        try (apply same_r; auto; rewrite Ep; reflexivity);
        try (apply same_w; auto; rewrite Ep; reflexivity);
        try (apply (i_rw _ I));
        try (apply Hmu; [reflexivity | rewrite Ep; reflexivity]);
        try (apply same_run; auto; rewrite Ep; reflexivity);
        try (apply same_own; auto; rewrite Ep; reflexivity);
        exact Logic.I.
  - (* EEnter *) destruct (pcs s t) eqn:Ep; try discriminate; inversion H; subst s';
      apply inv_set_pc; auto; fin Ep.
  - (* EExit *) destruct (pcs s t) eqn:Ep; try discriminate; inversion H; subst s';
      apply inv_set_pc; auto; fin Ep.
  - (* ERet *) destruct (pcs s t) eqn:Ep; try discriminate.
    + destruct (Bool.eqb res0 res); try discriminate. inversion H; subst s'.
      apply inv_set_pc; auto; fin Ep.
    + destruct res; try discriminate. inversion H; subst s'.
      apply inv_set_pc; auto; fin Ep.
Qed.

Lemma inv_run tr : forall s s', Inv s -> run s tr = Some s' -> Inv s'.
Proof.
  induction tr as [|e r IH]; intros s s' I H; simpl in H.
  - inversion H; subst. exact I.
  - destruct (step s e) as [s1|] eqn:E; [|discriminate]. eapply IH; [eapply inv_step; eauto | exact H].
Qed.

Theorem reachable_inv tr s : run init tr = Some s -> Inv s.
Proof. apply inv_run. apply inv_init. Qed.
