(** C09 — layout lemmas: what Write lays out at the offsets recorded in the TOC is what IndexFile.Read returns,
    and the items of a compound section are read back one by one through its relative index
    (readContents / fileName / readDocSections / readNewlines use exactly this path). *)
From Coq Require Import ZifyBool ZifyNat ZifyN.
From ZV Require Import Lib.Base Lib.Varint Generated.FormatConsts Model.Format Proofs.FormatCodec.
Open Scope N_scope.

Lemma nlen_app : forall {A} (a b : list A), nlen (a ++ b) = nlen a + nlen b.
Proof. intros. unfold nlen. rewrite app_length. lia. Qed.

Lemma to_nat_nlen : forall {A} (l : list A), N.to_nat (nlen l) = length l.
Proof. intros. unfold nlen. lia. Qed.

Lemma firstn_len_app' : forall {A} (a b : list A), firstn (length a) (a ++ b) = a.
Proof. intros. rewrite firstn_app, Nat.sub_diag, firstn_all. simpl. apply app_nil_r. Qed.
Lemma skipn_len_app' : forall {A} (a b : list A), skipn (length a) (a ++ b) = b.
Proof. intros. rewrite skipn_app, Nat.sub_diag, skipn_all. reflexivity. Qed.

(** IndexFile.Read (off, sz) of a file = pre ++ mid ++ post returns mid when off = |pre|, sz = |mid| *)
Lemma file_read_mid : forall pre mid post, nlen (pre ++ mid ++ post) < W32 ->
  file_read (mem_file (pre ++ mid ++ post)) (nlen pre) (nlen mid) = Ok mid.
Proof.
  intros pre mid post Hlt. unfold file_read, mem_file. cbn [f_len f_data].
  rewrite !nlen_app in *.
  rewrite (N.mod_small (nlen pre + nlen mid)) by lia.
  rewrite (N.mod_small (nlen pre + (nlen mid + nlen post))) by lia.
  replace ((nlen pre + nlen mid <? nlen pre) || (nlen pre + (nlen mid + nlen post) <? nlen pre + nlen mid)) with false by lia.
  rewrite !to_nat_nlen. rewrite skipn_len_app', firstn_len_app'. reflexivity.
Qed.

(* ------------------------------------------------------------------ compound sections *)

Lemma item_offsets_len : forall items off, length (item_offsets off items) = length items.
Proof. induction items as [|it r IH]; intros off; simpl; auto. Qed.

Lemma item_offsets_nth : forall items off i, (i < length items)%nat ->
  nth_error (item_offsets off items) i = Some (off + nlen (concat (firstn i items))).
Proof.
  induction items as [|it r IH]; intros off i Hi; [simpl in Hi; lia|].
  destruct i as [|i]; simpl.
  - f_equal. unfold nlen. simpl. lia.
  - rewrite IH by (simpl in Hi; lia). f_equal. rewrite nlen_app. lia.
Qed.

(** relativeIndex of the offsets written by addItem: prefix sums of the item lengths, then the data size *)
Lemma relative_index_nth : forall items off i, items <> [] -> off + nlen (concat items) < W32 -> (i <= length items)%nat ->
  nth_error (relative_index (item_offsets off items) (nlen (concat items))) i = Some (nlen (concat (firstn i items))).
Proof.
  intros items off i Hne Hlt Hi. unfold relative_index.
  destruct (item_offsets off items) as [|o0 ro] eqn:Eo.
  { destruct items; [contradiction|discriminate]. }
  assert (Ho0 : o0 = off) by (destruct items; [contradiction|simpl in Eo; inversion Eo; reflexivity]).
  subst o0. rewrite <- Eo.
  destruct (Nat.eq_dec i (length items)) as [->|Hne'].
  - rewrite nth_error_app2 by (rewrite map_length, item_offsets_len; lia).
    rewrite map_length, item_offsets_len, Nat.sub_diag. rewrite firstn_all. reflexivity.
  - rewrite nth_error_app1 by (rewrite map_length, item_offsets_len; lia).
    rewrite nth_error_map. rewrite item_offsets_nth by lia. cbn [option_map]. f_equal.
    assert (Hle : nlen (concat (firstn i items)) <= nlen (concat items)).
    { rewrite <- (firstn_skipn i items) at 2. rewrite concat_app, nlen_app. lia. }
    replace (off + nlen (concat (firstn i items)) + W32 - off) with (nlen (concat (firstn i items)) + 1 * W32) by lia.
    rewrite N.mod_add by discriminate. apply N.mod_small. lia.
Qed.

Lemma concat_firstn_S : forall {A} (items : list (list A)) i it, nth_error items i = Some it ->
  concat (firstn (S i) items) = concat (firstn i items) ++ it.
Proof.
  induction items as [|x r IH]; intros i it H; [destruct i; discriminate|].
  destruct i as [|i]; simpl in *.
  - inversion H; subst. rewrite app_nil_r. reflexivity.
  - rewrite (IH i it H). rewrite app_assoc. reflexivity.
Qed.

(** readContents / fileName / readNewlines / readDocSections: item i of a compound section laid out at |pre| in the
    file pre ++ (concat items ++ index) ++ post is read back through the relative index *)
Theorem compound_item_readback : forall pre items idx post i it,
  nlen (pre ++ (concat items ++ idx) ++ post) < W32 -> nth_error items i = Some it ->
  read_item (mem_file (pre ++ (concat items ++ idx) ++ post)) (nlen pre)
            (relative_index (item_offsets (nlen pre) items) (nlen (concat items))) (N.of_nat i) = Ok it.
Proof.
  intros pre items idx post i it Hlt Hnth.
  assert (Hi : (i < length items)%nat) by (apply nth_error_Some; congruence).
  assert (Hne : items <> []) by (destruct items; [simpl in Hi; lia|discriminate]).
  assert (Hbound : nlen pre + nlen (concat items) < W32).
  { rewrite !nlen_app in Hlt. lia. }
  unfold read_item, nth_chk.
  rewrite Nat2N.id. rewrite (relative_index_nth items (nlen pre) i Hne Hbound ltac:(lia)). cbn [obind].
  replace (N.to_nat (N.of_nat i + 1)) with (S i) by lia.
  rewrite (relative_index_nth items (nlen pre) (S i) Hne Hbound ltac:(lia)). cbn [obind].
  rewrite (concat_firstn_S items i it Hnth). rewrite nlen_app.
  set (a := concat (firstn i items)).
  assert (Hsplit : concat items = a ++ it ++ concat (skipn (S i) items)).
  { rewrite <- (firstn_skipn (S i) items) at 1. rewrite concat_app, (concat_firstn_S items i it Hnth).
    rewrite <- app_assoc. reflexivity. }
  assert (Ha : nlen a + nlen it <= nlen (concat items)).
  { rewrite Hsplit, !nlen_app. lia. }
  rewrite (N.mod_small (nlen pre + nlen a)) by lia.
  replace ((nlen a + nlen it + W32 - nlen a) mod W32) with (nlen it).
  2:{ replace (nlen a + nlen it + W32 - nlen a) with (nlen it + 1 * W32) by lia. rewrite N.mod_add by discriminate.
      symmetry. apply N.mod_small. lia. }
  assert (Hfile : pre ++ (concat items ++ idx) ++ post = (pre ++ a) ++ it ++ (concat (skipn (S i) items) ++ idx ++ post)).
  { rewrite Hsplit. rewrite <- !app_assoc. reflexivity. }
  rewrite Hfile in *. rewrite <- nlen_app. apply file_read_mid. exact Hlt.
Qed.

(* ------------------------------------------------------------------ layout *)

(** the k-th section emitted by Write sits at the offset recorded for it *)
Lemma layout_nth : forall secs off k t bd, nth_error secs k = Some (t, bd) ->
  exists pre' post', fst (layout off secs) = pre' ++ body_bytes (off + nlen pre') bd ++ post'
                     /\ nth_error (snd (layout off secs)) k = Some (t, body_rec (off + nlen pre') bd).
Proof.
  induction secs as [|[t0 b0] r IH]; intros off k t bd H; [destruct k; discriminate|].
  cbn [layout]. destruct (layout (off + nlen (body_bytes off b0)) r) as [rb rt] eqn:El.
  destruct k as [|k]; simpl in H.
  - inversion H; subst. exists [], rb. cbn [fst snd nth_error app].
    replace (off + nlen (@nil N)) with off by (unfold nlen; simpl; lia). split; reflexivity.
  - destruct (IH (off + nlen (body_bytes off b0)) k t bd H) as (pre' & post' & E1 & E2).
    rewrite El in E1, E2. cbn [fst snd] in *.
    exists (body_bytes off b0 ++ pre'), post'. cbn [fst snd nth_error].
    rewrite nlen_app. rewrite N.add_assoc. split.
    + rewrite E1. rewrite <- app_assoc. reflexivity.
    + exact E2.
Qed.

Lemma write_file_split : forall secs, exists toc,
  write_file secs = fst (layout 0 secs) ++ toc.
Proof.
  intros secs. unfold write_file. destruct (layout 0 secs) as [body tbl]. cbn [fst].
  eexists. reflexivity.
Qed.

(** a simple section (fileEndSymbol, branchMasks, ngramText, runeOffsets, checksums, metadata blobs, ...) is read back
    byte for byte from the record that the TOC stores for it *)
Theorem simple_section_readback : forall secs k t d, nth_error secs k = Some (t, SimpleB d) ->
  nlen (write_file secs) < W32 ->
  exists off, nth_error (snd (layout 0 secs)) k = Some (t, RSimple off (nlen d))
              /\ file_read (mem_file (write_file secs)) off (nlen d) = Ok d.
Proof.
  intros secs k t d H Hlt.
  destruct (layout_nth secs 0 k t (SimpleB d) H) as (pre' & post' & E1 & E2).
  destruct (write_file_split secs) as (toc & Ew). rewrite Ew in *. rewrite E1 in *.
  cbn [body_bytes body_rec] in *. exists (0 + nlen pre'). split; [exact E2|].
  rewrite N.add_0_l. rewrite <- !app_assoc in *. apply file_read_mid. exact Hlt.
Qed.

(** a compound section (fileContents, fileNames, fileSections, newlines, postings, ...): its index table is read back
    as the item offsets, and every item is read back through the relative index *)
Theorem compound_section_readback : forall secs k t items, nth_error secs k = Some (t, CompoundB items) ->
  nlen (write_file secs) < W32 ->
  exists doff, let dsz := nlen (concat items) in
    nth_error (snd (layout 0 secs)) k = Some (t, RCompound doff dsz (doff + dsz) (4 * nlen items))
    /\ read_section_words 4 (mem_file (write_file secs)) (doff + dsz) (4 * nlen items) = Ok (item_offsets doff items)
    /\ forall i it, nth_error items i = Some it ->
         read_item (mem_file (write_file secs)) doff (relative_index (item_offsets doff items) dsz) (N.of_nat i) = Ok it.
Proof.
  intros secs k t items H Hlt.
  destruct (layout_nth secs 0 k t (CompoundB items) H) as (pre' & post' & E1 & E2).
  destruct (write_file_split secs) as (toc & Ew). rewrite Ew in *. rewrite E1 in *.
  cbn [body_bytes body_rec] in *. rewrite N.add_0_l in *. exists (nlen pre'). cbv zeta.
  set (idx := concat (map be32 (item_offsets (nlen pre') items))) in *.
  assert (Hidx : nlen idx = 4 * nlen items).
  { unfold idx, nlen. rewrite concat_be32_len, item_offsets_len. lia. }
  split; [exact E2|]. split.
  - unfold read_section_words. replace (4 * nlen items mod 4 =? 0) with true.
    2:{ symmetry. apply N.eqb_eq. rewrite N.mul_comm. apply N.mod_mul. discriminate. }
    replace ((pre' ++ (concat items ++ idx) ++ post') ++ toc)
      with ((pre' ++ concat items) ++ idx ++ (post' ++ toc)) by (rewrite <- !app_assoc; reflexivity).
    rewrite <- nlen_app, <- Hidx. rewrite file_read_mid.
    2:{ replace ((pre' ++ concat items) ++ idx ++ post' ++ toc)
          with ((pre' ++ (concat items ++ idx) ++ post') ++ toc) by (rewrite <- !app_assoc; reflexivity). exact Hlt. }
    cbn [obind]. f_equal. unfold idx. change (N.to_nat 4) with 4%nat. apply words4_be32.
    (* every recorded offset is below 2^32 *)
    apply Forall_forall. intros o Ho. apply In_nth_error in Ho. destruct Ho as (i & Hi).
    assert (Hil : (i < length items)%nat).
    { rewrite <- (item_offsets_len items (nlen pre')). apply nth_error_Some. congruence. }
    rewrite item_offsets_nth in Hi by exact Hil. inversion Hi; subst.
    assert (nlen (concat (firstn i items)) <= nlen (concat items)).
    { rewrite <- (firstn_skipn i items) at 2. rewrite concat_app, nlen_app. lia. }
    rewrite !nlen_app in Hlt. lia.
  - intros i it Hit.
    replace ((pre' ++ (concat items ++ idx) ++ post') ++ toc)
      with (pre' ++ (concat items ++ idx) ++ (post' ++ toc)) by (rewrite <- !app_assoc; reflexivity).
    apply compound_item_readback; [|exact Hit].
    replace (pre' ++ (concat items ++ idx) ++ post' ++ toc)
      with ((pre' ++ (concat items ++ idx) ++ post') ++ toc) by (rewrite <- !app_assoc; reflexivity). exact Hlt.
Qed.

(* ------------------------------------------------------------------ document level *)

Lemma newlines_from_bound : forall l i, Forall (fun x => i <= x < i + nlen l) (newlines_from l i).
Proof.
  induction l as [|c r IH]; intros i; simpl; [constructor|].
  assert (Hn : nlen (c :: r) = 1 + nlen r) by (unfold nlen; cbn [length]; lia).
  specialize (IH (i + 1)).
  assert (G : Forall (fun x => i <= x < i + nlen (c :: r)) (newlines_from r (i + 1))).
  { eapply Forall_impl; [|exact IH]. intros x Hx. simpl in Hx. rewrite Hn. lia. }
  destruct (c =? 10); [constructor; [rewrite Hn; lia|exact G]|exact G].
Qed.

Lemma newlines_from_len : forall l i, (length (newlines_from l i) <= length l)%nat.
Proof. induction l as [|c r IH]; intros i; simpl; [lia|]. specialize (IH (i + 1)). destruct (c =? 10); simpl; lia. Qed.

(** What a search reads of document i from a written shard: its name, content, symbol sections and newline index
    come back exactly, through the compound sections' relative indexes and the delta decoders.
    (The offsets [*off] are the ones Write records in the TOC for these sections; that readTOCSections/readIndexData
    hand exactly these records to the accessors is tied by the byte-exact correspondence, not by this theorem.) *)
Theorem document_readback : forall next b o i name content secs,
  let file := write_shard next b o in
  let f := mem_file file in
  nlen file < W32 ->
  nth_error (b_contents b) i = Some content -> nth_error (b_names b) i = Some name ->
  nth_error (b_docSections b) i = Some secs -> Forall sec_ok secs -> nlen secs < W32 -> nlen content < W32 ->
  exists coff noff soff loff,
    let ri items off := relative_index (item_offsets off items) (nlen (concat items)) in
    read_item f coff (ri (b_contents b) coff) (N.of_nat i) = Ok content
    /\ read_item f noff (ri (b_names b) noff) (N.of_nat i) = Ok name
    /\ (do blob <- read_item f soff (ri (map marshal_doc_sections (b_docSections b)) soff) (N.of_nat i);
        unmarshal_doc_sections blob) = Ok secs
    /\ (do blob <- read_item f loff (ri (map (fun c => to_sized_deltas (newlines_indices c)) (b_contents b)) loff) (N.of_nat i);
        from_sized_deltas blob) = Ok (newlines_indices content).
Proof.
  intros next b o i name content secs file f Hlt Hc Hn Hs Hok Hslen Hclen.
  subst f file. unfold write_shard in *.
  destruct (compound_section_readback (shard_sections next b o) 0 _ (b_contents b) eq_refl Hlt) as (coff & _ & _ & Rc).
  destruct (compound_section_readback (shard_sections next b o) 12 _ (b_names b) eq_refl Hlt) as (noff & _ & _ & Rn).
  destruct (compound_section_readback (shard_sections next b o) 7 _ (map marshal_doc_sections (b_docSections b)) eq_refl Hlt) as (soff & _ & _ & Rs).
  destruct (compound_section_readback (shard_sections next b o) 1 _ (map (fun c => to_sized_deltas (newlines_indices c)) (b_contents b)) eq_refl Hlt) as (loff & _ & _ & Rl).
  exists coff, noff, soff, loff. cbv zeta.
  split; [apply Rc; exact Hc|]. split; [apply Rn; exact Hn|]. split.
  - rewrite (Rs i (marshal_doc_sections secs)) by (rewrite nth_error_map, Hs; reflexivity). cbn [obind].
    apply docsections_roundtrip; [exact Hok|]. unfold MAXALLOC, W32 in *. lia.
  - rewrite (Rl i (to_sized_deltas (newlines_indices content))) by (rewrite nth_error_map, Hc; reflexivity). cbn [obind].
    apply sized_deltas_roundtrip.
    + unfold newlines_indices. eapply Forall_impl; [|apply newlines_from_bound]. intros x Hx. simpl in Hx. lia.
    + pose proof (newlines_from_len content 0) as Hl. unfold newlines_indices, nlen, MAXALLOC, W32 in *. lia.
Qed.
