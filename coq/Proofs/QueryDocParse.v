(** C06, byte level: the parser model run on the printed string [render q] goes through exactly the token
    structure of q, i.e. parse (render q) = iquery q for well-formed abstract queries. *)
From ZV Require Import Lib.Base Model.Query Generated.ParserTables Model.Parser Model.QueryDoc Model.QueryDocRun.
From ZV Require Import Proofs.ParserTotal Proofs.QueryDocTree.
From Coq Require Import Lia String.
Notation length := List.length (only parsing).
Open Scope N_scope.

Arguments parseStringLiteral : simpl never.
Arguments drop : simpl never.
Arguments csub : simpl never.
Arguments setType : simpl never.
Arguments nextToken : simpl never.

(** what may follow an expression: end of input, a blank, or a closing parenthesis *)
Definition delim (rest : str) : Prop := match rest with [] => True | c :: _ => c = 32 \/ c = 41 end.

(** ------------------------------------------------------------------ quoting and escapes *)

Lemma strlit_esc v : forall lit rest, strlit_loop (esc v ++ 34 :: rest) lit = Ok (lit ++ v, rest).
Proof.
  induction v as [|c r IH]; intros lit rest.
  - simpl. rewrite app_nil_r. reflexivity.
  - cbn [esc]. destruct ((c =? 34) || (c =? 92)) eqn:E.
    + cbn [app strlit_loop]. change (92 =? 34) with false. change (92 =? 92) with true. cbn iota.
      rewrite IH, <- app_assoc. reflexivity.
    + apply orb_false_elim in E as [E1 E2]. cbn [app strlit_loop]. rewrite E1, E2.
      rewrite IH, <- app_assoc. reflexivity.
Qed.

Lemma psl_esc v rest : parseStringLiteral (34 :: esc v ++ 34 :: rest) = Ok (v, (2 + List.length (esc v))%nat).
Proof.
  unfold parseStringLiteral. rewrite strlit_esc. cbn [obind app].
  rewrite csub_le by (simpl; rewrite app_length; simpl; lia). cbn [obind]. f_equal. f_equal.
  simpl length. rewrite app_length. simpl length. lia.
Qed.

Lemma skipn_quoted v rest : skipn (2 + List.length (esc v)) (34 :: esc v ++ 34 :: rest) = rest.
Proof.
  change (34 :: esc v ++ 34 :: rest) with ([34] ++ esc v ++ [34] ++ rest).
  rewrite !app_assoc. replace (2 + List.length (esc v))%nat with (List.length (([34] ++ esc v) ++ [34])).
  - rewrite skipn_app, skipn_all, Nat.sub_diag. reflexivity.
  - rewrite !app_length. simpl. lia.
Qed.

(** ------------------------------------------------------------------ the scanning loop on a printed word *)

Lemma tok_end f rest text : delim rest -> text <> [] -> tok_loop (S f) rest 0 text = Ok (text, rest, false).
Proof.
  intros Hd Ht. destruct rest as [|c r]; [reflexivity|]. cbn [tok_loop]. simpl in Hd. destruct Hd as [-> | ->].
  - reflexivity.
  - change (41 =? 40) with false. change (41 =? 41) with true. cbn iota. destruct text; [congruence|reflexivity].
Qed.

Lemma tok_word w rest text f : wf_word w = true -> delim rest -> text ++ wvalue w <> [] ->
  tok_loop (List.length (render_word w) + S f) (render_word w ++ rest) 0 text = Ok (text ++ wvalue w, rest, false).
Proof.
  intros Hw Hd Hne. destruct w as [v|v]; cbn [render_word wvalue wf_word] in *.
  - rewrite tok_loop_plain by exact Hw. apply tok_end; assumption.
  - replace (Nat.add (List.length (34 :: esc v ++ [34])) (S f)) with (S (S (List.length (esc v) + S f))) by (simpl; rewrite app_length; simpl; lia).
    replace ((34 :: esc v ++ [34]) ++ rest) with (34 :: esc v ++ 34 :: rest) by (simpl; rewrite <- app_assoc; reflexivity).
    cbn [tok_loop]. change (34 =? 40) with false. change (34 =? 41) with false. change (34 =? 34) with true. cbn iota.
    rewrite psl_esc. cbn [obind]. rewrite drop_le by (simpl; rewrite app_length; simpl; lia). cbn [obind].
    rewrite skipn_quoted. apply tok_end; assumption.
Qed.

Lemma firstn_exact {A} (l r : list A) : firstn (List.length l) (l ++ r) = l.
Proof. induction l; simpl; [destruct r; reflexivity | f_equal; assumption]. Qed.

(** nextToken on  prefix ++ word  followed by a delimiter: the text is prefix ++ value, the input is what was printed *)
Lemma nt_atom pre w rest c0 tl :
  forallb plain pre = true -> wf_word w = true -> delim rest -> pre ++ wvalue w <> [] ->
  pre ++ render_word w = c0 :: tl -> c0 <> 45 ->
  nextToken ((pre ++ render_word w) ++ rest) =
  do t <- setType {| ttype := 0; ttext := pre ++ wvalue w; tinput := pre ++ render_word w |}; Ok (Some t).
Proof.
  intros Hpre Hw Hd Hne Hc0 H45. unfold nextToken. rewrite Hc0. cbn [app].
  apply N.eqb_neq in H45. rewrite H45. rewrite <- Hc0. clear H45.
  replace (c0 :: tl ++ rest) with ((pre ++ render_word w) ++ rest) by (rewrite Hc0; reflexivity).
  replace (S (List.length ((pre ++ render_word w) ++ rest)))
    with (List.length pre + (List.length (render_word w) + S (List.length rest)))%nat by (rewrite !app_length; lia).
  rewrite <- app_assoc. rewrite tok_loop_plain by exact Hpre. cbn [app].
  rewrite tok_word by assumption. cbn [obind].
  destruct (pre ++ wvalue w) as [|t0 tr] eqn:Et; [congruence|]. cbn [andb].
  rewrite csub_le by (rewrite !app_length; lia). cbn [obind].
  replace (List.length (pre ++ render_word w ++ rest) - List.length rest)%nat with (List.length (pre ++ render_word w))
    by (rewrite !app_length; lia).
  rewrite app_assoc, firstn_exact. reflexivity.
Qed.

(** ------------------------------------------------------------------ setType on printed atoms *)

Lemma prefixb_self p r : prefixb p (p ++ r) = true.
Proof. induction p as [|a p IH]; simpl; [reflexivity|]. rewrite N.eqb_refl, IH. reflexivity. Qed.

Lemma str_eqb_eq a b : str_eqb a b = true -> a = b.
Proof. apply list_eqb_N_eq. Qed.

Lemma skipn_exact {A} (l r : list A) : skipn (List.length l) (l ++ r) = r.
Proof. induction l; simpl; auto. Qed.

Definition or_not_prefixed : bool := forallb (fun p => negb (prefixb (fst p) [111; 114])) prefixes.
Lemma or_not_prefixed_true : or_not_prefixed = true. Proof. vm_compute. reflexivity. Qed.
Lemma reserved_is_or : reservedWords = [([111; 114], tokOr)]. Proof. reflexivity. Qed.

Lemma find_none_forallb {A} (f : A -> bool) l : forallb (fun x => negb (f x)) l = true -> find f l = None.
Proof.
  induction l as [|x l IH]; simpl; [reflexivity|]. intros H. apply andb_prop in H as [H1 H2].
  apply negb_true_iff in H1. rewrite H1. apply IH. exact H2.
Qed.

(** a field prefix of the table followed by anything: the token gets the field's type, the prefix is cut *)
Lemma setType_prefixed p ty x rw : In (p, ty) prefixes ->
  setType {| ttype := 0; ttext := p ++ x; tinput := p ++ rw |} = Ok {| ttype := ty; ttext := x; tinput := p ++ rw |}.
Proof.
  intros Hin. destruct (prefixes_plain _ Hin) as [_ Hlen]. cbn [fst] in Hlen.
  unfold setType. cbn [ttext tinput with_type].
  assert (H1 : forall c, str_eqb (p ++ x) [c] = false).
  { intros c. destruct p as [|a [|b p']]; simpl in Hlen; try lia. unfold str_eqb. simpl. destruct (a =? c); reflexivity. }
  rewrite (H1 40). cbn [ttext]. rewrite (H1 41). cbn [ttext tinput].
  rewrite reserved_is_or. cbn [find fst snd].
  assert (H2 : str_eqb (p ++ x) [111; 114] = false).
  { destruct (str_eqb (p ++ x) [111; 114]) eqn:E; [|reflexivity]. apply str_eqb_eq in E.
    pose proof or_not_prefixed_true as Ho. unfold or_not_prefixed in Ho. rewrite forallb_forall in Ho.
    specialize (Ho _ Hin). cbn [fst] in Ho. rewrite <- E, prefixb_self in Ho. discriminate. }
  rewrite H2. cbn [andb ttext tinput].
  destruct (find (fun q => prefixb (fst q) (p ++ rw)) prefixes) as [q|] eqn:Hf.
  - apply find_some in Hf as [Hq Hpq].
    assert (q = (p, ty)) by (eapply prefixes_unambiguous; eauto; apply prefixb_self). subst q. cbn [fst snd].
    rewrite drop_le by (rewrite app_length; lia). cbn [obind]. rewrite skipn_exact. reflexivity.
  - eapply find_none in Hf; [|exact Hin]. cbn [fst] in Hf. rewrite prefixb_self in Hf. discriminate.
Qed.

Lemma setType_plain_text v : v <> [] -> forallb plain v = true -> no_prefix v = true -> str_eqb v [111; 114] = false ->
  setType {| ttype := 0; ttext := v; tinput := v |} = Ok {| ttype := tokText; ttext := v; tinput := v |}.
Proof.
  intros Hne Hpl Hnp Hor. unfold setType. cbn [ttext tinput with_type].
  assert (H1 : forall c, plain c = false -> str_eqb v [c] = false).
  { intros c Hc. destruct v as [|a r]; [congruence|]. simpl in Hpl. apply andb_prop in Hpl as [Ha _].
    unfold str_eqb. simpl. destruct (a =? c) eqn:E; [|reflexivity]. apply N.eqb_eq in E. subst. congruence. }
  rewrite (H1 40 eq_refl). cbn [ttext]. rewrite (H1 41 eq_refl). cbn [ttext tinput].
  rewrite reserved_is_or. cbn [find fst snd]. rewrite Hor. cbn [andb tinput].
  rewrite find_none_forallb; [reflexivity|]. exact Hnp.
Qed.

Definition quote_not_prefixed : bool := forallb (fun p => match fst p with c :: _ => negb (c =? 34) | [] => false end) prefixes.
Lemma quote_not_prefixed_true : quote_not_prefixed = true. Proof. vm_compute. reflexivity. Qed.

Lemma setType_quoted_text v : str_eqb v [40] = false -> str_eqb v [41] = false ->
  setType {| ttype := 0; ttext := v; tinput := 34 :: esc v ++ [34] |} =
  Ok {| ttype := tokText; ttext := v; tinput := 34 :: esc v ++ [34] |}.
Proof.
  intros H40 H41. unfold setType. cbn [ttext tinput with_type]. rewrite H40. cbn [ttext]. rewrite H41. cbn [ttext tinput].
  rewrite reserved_is_or. cbn [find fst snd].
  assert (Hq : str_eqb (34 :: esc v ++ [34]) [111; 114] = false) by reflexivity.
  rewrite Hq, andb_false_r. cbn [tinput].
  rewrite find_none_forallb; [reflexivity|].
  pose proof quote_not_prefixed_true as Hn. unfold quote_not_prefixed in Hn.
  rewrite forallb_forall in *. intros p Hp. specialize (Hn p Hp). apply negb_true_iff.
  destruct (fst p) as [|a p']; [discriminate|]. apply negb_true_iff in Hn. cbn [prefixb]. rewrite Hn. reflexivity.
Qed.

(** ------------------------------------------------------------------ the token of a printed atom *)

Notation R := (render_expr [32]).

Ltac in_prefixes := unfold prefixes; simpl; repeat (first [left; reflexivity | right]).

Lemma field_prefix_in f a : (match f with FMeta _ => False | _ => True end) -> In (field_prefix f a, field_tok f) prefixes.
Proof. destruct f, a; intros H; try contradiction; in_prefixes. Qed.
Lemma bfield_prefix_in f : In (bfield_prefix f, bfield_tok f) prefixes.
Proof. destruct f; in_prefixes. Qed.

Section AtomToken.
  Variable rq : str -> rqres.
  Variable rcompile : str -> bool.

  Lemma atom_token e rest ty text :
    wf_expr rq rcompile e = true -> atom_tok e = Some (ty, text) -> delim rest ->
    nextToken (R e ++ rest) = Ok (Some {| ttype := ty; ttext := text; tinput := R e |}).
  Proof.
    intros Hwf Hat Hd. destruct e as [w|f a w|f v|k|a t|e1|q]; cbn [atom_tok] in Hat; try discriminate; inversion Hat; subst ty text; clear Hat;
      cbn [wf_expr] in Hwf; cbn [render_expr].
    - (* bare pattern *)
      apply andb_prop in Hwf as [Hlex _]. destruct w as [v|v]; cbn [wf_text] in Hlex; cbn [render_word wvalue].
      + repeat (apply andb_prop in Hlex as [Hlex ?]).
        apply negb_true_iff in Hlex. destruct v as [|c0 tl]; [discriminate|].
        assert (Hc : c0 <> 45).
        { intros ->. match goal with H : negb (prefixb [45] _) = true |- _ => simpl in H; discriminate H end. }
        pose proof (nt_atom [] (WPlain (c0 :: tl)) rest c0 tl eq_refl) as Hn. cbn [app render_word wvalue wf_word] in Hn.
        cbn [app]. rewrite Hn; try assumption; try discriminate; try reflexivity.
        rewrite setType_plain_text; try assumption; try discriminate; [reflexivity|].
        match goal with H : negb (str_eqb _ _) = true |- _ => apply negb_true_iff in H; exact H end.
      + apply andb_prop in Hlex as [Hlex H41]. apply andb_prop in Hlex as [Hne H40].
        apply negb_true_iff in H40, H41, Hne. destruct v as [|c0 tl]; [discriminate|].
        pose proof (nt_atom [] (WQuoted (c0 :: tl)) rest 34 (esc (c0 :: tl) ++ [34]) eq_refl) as Hn.
        cbn [app render_word wvalue wf_word] in Hn. cbn [app].
        rewrite Hn; try assumption; try discriminate; try reflexivity.
        rewrite setType_quoted_text by assumption. reflexivity.
    - (* field *)
      apply andb_prop in Hwf as [Hw Hf].
      destruct f as [| | | | | | |name].
      8:{ (* meta *)
        cbn [wf_field] in Hf. apply andb_prop in Hf as [Hf _]. apply andb_prop in Hf as [Hname _].
        cbn [field_prefix field_tok field_text].
        pose proof (nt_atom (dbs "meta."%string ++ name ++ [58]) w rest 109 ([101; 116; 97; 46] ++ name ++ [58] ++ render_word w)) as Hn.
        rewrite Hn; try assumption; try discriminate.
        - replace ((dbs "meta."%string ++ name ++ [58]) ++ wvalue w) with (dbs "meta."%string ++ (name ++ 58 :: wvalue w)) by (rewrite <- !app_assoc; reflexivity).
          replace ((dbs "meta."%string ++ name ++ [58]) ++ render_word w) with (dbs "meta."%string ++ (name ++ 58 :: render_word w)) by (rewrite <- !app_assoc; reflexivity).
          rewrite (setType_prefixed (dbs "meta."%string) tokMeta) by in_prefixes. reflexivity.
        - rewrite !forallb_app. rewrite Hname. reflexivity.
        - rewrite <- !app_assoc. reflexivity. }
      all: cbn [wf_field] in Hf; try discriminate Hf;
        match goal with |- context[field_prefix ?f ?aa] =>
          pose proof (field_prefix_in f aa I) as Hin;
          assert (Hc : exists c0 tl, field_prefix f aa ++ render_word w = c0 :: tl /\ c0 <> 45 /\ forallb plain (field_prefix f aa) = true)
            by (destruct aa; (eexists; eexists; split; [reflexivity | split; [discriminate | reflexivity]]));
          destruct Hc as [c0 [tl [Hc0 [H45 Hpl]]]];
          rewrite (nt_atom (field_prefix f aa) w rest c0 tl Hpl Hw Hd) by (try exact Hc0; try exact H45; destruct aa; discriminate);
          rewrite (setType_prefixed _ _ _ _ Hin); reflexivity
        end.
    - (* archived: fork: public: *)
      pose proof (bfield_prefix_in f) as Hin.
      assert (Hc : exists c0 tl, bfield_prefix f ++ render_word (WPlain (if v then dbs "yes"%string else dbs "no"%string)) = c0 :: tl /\ c0 <> 45 /\ forallb plain (bfield_prefix f) = true)
        by (destruct f; (eexists; eexists; split; [reflexivity | split; [discriminate | reflexivity]])).
      destruct Hc as [c0 [tl [Hc0 [H45 Hpl]]]].
      etransitivity.
      { apply (nt_atom (bfield_prefix f) (WPlain (if v then dbs "yes"%string else dbs "no"%string)) rest c0 tl Hpl); try assumption.
        - destruct v; reflexivity.
        - destruct f, v; discriminate. }
      cbn [wvalue render_word]. rewrite (setType_prefixed _ _ _ _ Hin). reflexivity.
    - (* case: *)
      etransitivity.
      { apply (nt_atom (dbs "case:"%string) (WPlain (flavor_text k)) rest 99 ([97; 115; 101; 58] ++ flavor_text k) eq_refl); try assumption; try discriminate.
        - destruct k; reflexivity.
        - reflexivity. }
      cbn [wvalue render_word]. rewrite (setType_prefixed (dbs "case:"%string) tokCase) by in_prefixes. reflexivity.
    - (* type: *)
      destruct a.
      + etransitivity.
        { apply (nt_atom (dbs "t:"%string) (WPlain (rtype_text t)) rest 116 ([58] ++ rtype_text t) eq_refl); try assumption; try discriminate.
          - destruct t; reflexivity.
          - reflexivity. }
        cbn [wvalue render_word]. rewrite (setType_prefixed (dbs "t:"%string) tokType) by in_prefixes. reflexivity.
      + etransitivity.
        { apply (nt_atom (dbs "type:"%string) (WPlain (rtype_text t)) rest 116 ([121; 112; 101; 58] ++ rtype_text t) eq_refl); try assumption; try discriminate.
          - destruct t; reflexivity.
          - reflexivity. }
        cbn [wvalue render_word]. rewrite (setType_prefixed (dbs "type:"%string) tokType) by in_prefixes. reflexivity.
  Qed.
End AtomToken.

(** ------------------------------------------------------------------ structural tokens *)

Lemma nt_neg X : nextToken (45 :: X) = Ok (Some {| ttype := tokNegate; ttext := [45]; tinput := [45] |}).
Proof. reflexivity. Qed.

Lemma nt_open X : nextToken (40 :: 32 :: X) = Ok (Some {| ttype := tokParenOpen; ttext := [40]; tinput := [40] |}).
Proof. reflexivity. Qed.

Lemma nt_close X : nextToken (41 :: X) = Ok (Some {| ttype := tokParenClose; ttext := [41]; tinput := [41] |}).
Proof.
  unfold nextToken. change (41 =? 45) with false. cbn iota.
  change (tok_loop (S (List.length (41 :: X))) (41 :: X) 0 []) with (@Ok (str * str * bool) ([41], X, false)).
  cbn [obind andb]. rewrite csub_le by (simpl; lia). cbn [obind].
  replace (Nat.sub (List.length (41 :: X)) (List.length X)) with 1%nat by (cbn [length]; lia). reflexivity.
Qed.

Lemma nt_or X : nextToken (111 :: 114 :: 32 :: X) = Ok (Some {| ttype := tokOr; ttext := [111; 114]; tinput := [111; 114] |}).
Proof.
  pose proof (nt_atom [] (WPlain [111; 114]) (32 :: X) 111 [114] eq_refl eq_refl) as Hn.
  cbn [app render_word wvalue] in Hn. rewrite Hn; try discriminate; try reflexivity. simpl. auto.
Qed.

Lemma atom_ty e ty text : atom_tok e = Some (ty, text) ->
  (ty =? tokParenOpen) = false /\ (ty =? tokNegate) = false /\ (ty =? tokParenClose) = false /\ (ty =? tokOr) = false.
Proof.
  destruct e as [w|f a w|f v|k|a t|e1|q]; cbn [atom_tok]; try discriminate; intros E; inversion E; subst;
    try (repeat split; reflexivity); destruct f; repeat split; reflexivity.
Qed.

Lemma unopt_ok x p : unopt x = Ok p -> x = Ok (Some p).
Proof. unfold unopt. destruct x as [[p'|]| |]; cbn [obind]; intros E; inversion E; reflexivity. Qed.

Lemma seq_cons_inv {A} (x : outcome A) r l : seq (x :: r) = Ok l -> exists a b, x = Ok a /\ seq r = Ok b /\ l = a :: b.
Proof.
  cbn [seq]. destruct x as [a| |]; cbn [obind]; try discriminate. destruct (seq r) as [b| |]; cbn [obind]; try discriminate.
  intros E. inversion E. eauto.
Qed.

(** ------------------------------------------------------------------ expressions and lists *)

Lemma R_head rq rcompile e : wf_expr rq rcompile e = true -> exists c tl, R e = c :: tl /\ isSpace c = false.
Proof.
  destruct e as [w|f a w|f v|k|a t|e1|q]; cbn [wf_expr render_expr]; intros Hwf.
  - apply andb_prop in Hwf as [Hlex _]. destruct w as [v|v]; cbn [wf_text render_word] in *.
    + repeat (apply andb_prop in Hlex as [Hlex ?]). destruct v as [|c tl]; [discriminate|].
      exists c, tl. split; [reflexivity|].
      match goal with H : forallb plain (c :: tl) = true |- _ => simpl in H; apply andb_prop in H as [Hc _] end.
      unfold plain in Hc. apply negb_true_iff in Hc. repeat (apply orb_false_elim in Hc as [Hc ?]).
      unfold isSpace. match goal with H1 : (c =? 32) = false, H2 : (c =? 9) = false |- _ => rewrite H1, H2 end. reflexivity.
    + eexists; eexists; split; reflexivity.
  - destruct f, a; eexists; eexists; split; reflexivity.
  - destruct f; eexists; eexists; split; reflexivity.
  - eexists; eexists; split; reflexivity.
  - destruct a; eexists; eexists; split; reflexivity.
  - eexists; eexists; split; reflexivity.
  - eexists; eexists; split; reflexivity.
Qed.

Lemma skipSpaces_head c tl : isSpace c = false -> skipSpaces (c :: tl) = c :: tl.
Proof. intros H. simpl. rewrite H. reflexivity. Qed.

Definition stopok (stop : str) : Prop := stop = [] \/ exists r, stop = 41 :: r.
Lemma stopok_delim stop : stopok stop -> delim stop.
Proof. intros [-> | [r ->]]; simpl; auto. Qed.

Section Bytes.
  Variable rq : str -> rqres.
  Variable rx_auto : str -> bool.
  Variable rcompile : str -> bool.
  Variable lang : str -> option str.
  Notation parseExpr := (parseExpr rq rx_auto rcompile lang).
  Notation parseExprList := (parseExprList rq rx_auto rcompile lang).
  Notation exprList_loop := (exprList_loop rq rx_auto rcompile lang).
  Notation iexpr := (iexpr rq rx_auto rcompile lang).
  Notation wf := (wf_expr rq rcompile).

  Definition Rc (c : list dexpr) : str := join [32] (map R c).
  Definition Rq (q : dquery) : str := join (dbs " or "%string) (map Rc q).

  Definition A2spec (e : dexpr) : Prop :=
    forall p rest f, wf e = true -> iexpr e = Ok p -> delim rest ->
      (3 * List.length (R e ++ rest) + 1 <= f)%nat ->
      parseExpr f (R e ++ rest) = Ok (Some p, List.length (R e)).

  (** the first token of an expression is neither ")" nor "or" *)
  Lemma first_tok e rest : wf e = true -> delim rest ->
    exists tok, nextToken (R e ++ rest) = Ok (Some tok) /\ (ttype tok =? tokParenClose) = false /\ (ttype tok =? tokOr) = false.
  Proof.
    intros Hwf Hd. destruct (atom_tok e) as [[ty text]|] eqn:Ha.
    - rewrite (atom_token rq rcompile e rest ty text Hwf Ha Hd). eexists. split; [reflexivity|].
      destruct (atom_ty _ _ _ Ha) as [_ [_ [H1 H2]]]. auto.
    - destruct e; cbn [atom_tok] in Ha; try discriminate; cbn [render_expr app].
      + rewrite nt_neg. eexists. split; [reflexivity|]. split; reflexivity.
      + rewrite nt_open. eexists. split; [reflexivity|]. split; reflexivity.
  Qed.

  Lemma loop_step e p sp rest acc f :
    A2spec e -> wf e = true -> iexpr e = Ok p -> (sp = [] \/ sp = [32]) -> delim rest ->
    (3 * List.length (sp ++ R e ++ rest) + 2 <= S f)%nat ->
    exprList_loop (S f) (sp ++ R e ++ rest) acc = exprList_loop f rest (acc ++ [raw_of p]).
  Proof.
    intros HA Hwf Hi Hsp Hd Hf. rewrite exprList_loop_S.
    destruct (R_head _ _ _ Hwf) as [c [tl [HR Hc]]].
    assert (Hb1 : skipSpaces (sp ++ R e ++ rest) = R e ++ rest).
    { destruct Hsp as [-> | ->]; cbn [app]; [|change (skipSpaces (32 :: R e ++ rest)) with (skipSpaces (R e ++ rest))];
        rewrite HR; cbn [app]; apply skipSpaces_head; exact Hc. }
    assert (Hne : exists x y, sp ++ R e ++ rest = x :: y).
    { destruct Hsp as [-> | ->]; cbn [app]; [rewrite HR|]; eexists; eexists; reflexivity. }
    destruct Hne as [x [y Hxy]]. rewrite Hxy. rewrite <- Hxy. clear x y Hxy. cbv zeta. rewrite Hb1.
    assert (Hlen : (List.length (R e ++ rest) <= List.length (sp ++ R e ++ rest))%nat) by (rewrite (app_length sp); lia).
    assert (Hpe : parseExpr f (R e ++ rest) = Ok (Some p, List.length (R e))) by (apply HA; auto; lia).
    rewrite Hpe. cbn [obind]. rewrite drop_le by (rewrite app_length; lia). cbn [obind]. rewrite skipn_exact.
    destruct (first_tok e rest Hwf Hd) as [tok [Ht [H1 H2]]]. rewrite Ht, H1, H2. reflexivity.
  Qed.

  Lemma loop_or X acc f :
    exprList_loop (S f) (32 :: 111 :: 114 :: 32 :: X) acc = exprList_loop f (32 :: X) (acc ++ [ROr]).
  Proof.
    rewrite exprList_loop_S. cbv zeta.
    change (skipSpaces (32 :: 111 :: 114 :: 32 :: X)) with (111 :: 114 :: 32 :: X).
    rewrite nt_or. cbn [ttype tinput]. change (tokOr =? tokParenClose) with false. change (tokOr =? tokOr) with true. cbn iota.
    rewrite drop_le by (simpl; lia). reflexivity.
  Qed.

  Lemma loop_end stop acc f : stopok stop -> exprList_loop (S f) stop acc = Ok (acc, stop).
  Proof.
    intros [-> | [r ->]]; rewrite exprList_loop_S; [reflexivity|]. cbv zeta.
    change (skipSpaces (41 :: r)) with (41 :: r). rewrite nt_close. reflexivity.
  Qed.

  Notation rawsof c := (seq (map (fun e => do p <- iexpr e; Ok (raw_of p)) c)).

  Lemma Rc_single e : Rc [e] = R e. Proof. reflexivity. Qed.
  Lemma Rc_cons e e2 c2 : Rc (e :: e2 :: c2) = R e ++ 32 :: Rc (e2 :: c2). Proof. reflexivity. Qed.
  Lemma Rq_single c : Rq [c] = Rc c. Proof. reflexivity. Qed.
  Lemma Rq_cons c c2 q : Rq (c :: c2 :: q) = Rc c ++ 32 :: 111 :: 114 :: 32 :: Rq (c2 :: q). Proof. reflexivity. Qed.

  Lemma loop_conj c : Forall A2spec c -> c <> [] -> forallb wf c = true ->
    forall sp rest acc f rc, (sp = [] \/ sp = [32]) -> delim rest -> rawsof c = Ok rc ->
      (3 * List.length (sp ++ Rc c ++ rest) + 2 <= f)%nat ->
      exists f', (3 * List.length rest + 2 <= f')%nat /\
                 exprList_loop f (sp ++ Rc c ++ rest) acc = exprList_loop f' rest (acc ++ rc).
  Proof.
    induction 1 as [|e c He Hc IH]; intros Hne Hwf sp rest acc f rc Hsp Hd Hraws Hf; [congruence|].
    cbn [forallb] in Hwf. apply andb_prop in Hwf as [Hwe Hwc].
    cbn [map] in Hraws. apply seq_cons_inv in Hraws as [a [b [Ha [Hb ->]]]].
    destruct (iexpr e) as [p| |] eqn:Hi; cbn [obind] in Ha; try discriminate. inversion Ha. subst a. clear Ha.
    destruct (R_head _ _ _ Hwe) as [ch [tl [HR _]]].
    destruct c as [|e2 c2].
    - (* last expression of the conjunction *)
      cbn [seq map] in Hb. inversion Hb. subst b. rewrite Rc_single in *.
      destruct f as [|f0]; [lia|]. exists f0. split.
      + rewrite !app_length in Hf. rewrite HR in Hf. cbn [length] in Hf. lia.
      + apply loop_step; auto.
    - rewrite Rc_cons in *.
      destruct f as [|f0]; [lia|].
      replace (sp ++ (R e ++ 32 :: Rc (e2 :: c2)) ++ rest) with (sp ++ R e ++ (32 :: Rc (e2 :: c2) ++ rest)) in *
        by (rewrite <- !app_assoc; reflexivity).
      rewrite (loop_step e p sp _ acc f0 He Hwe Hi Hsp); [|simpl; auto|exact Hf].
      destruct (IH ltac:(discriminate) Hwc [32] rest (acc ++ [raw_of p]) f0 b) as [f' [Hf' He']]; auto.
      + rewrite (app_length sp), (app_length (R e)) in Hf. rewrite HR in Hf. cbn [length app] in *. lia.
      + exists f'. split; [exact Hf'|]. cbn [app] in He'. rewrite He'. rewrite <- app_assoc. reflexivity.
  Qed.

  Notation rawsq q := (seq (map (fun c => rawsof c) q)).

  Definition wfc (c : list dexpr) : bool := existsb (fun e => negb (is_directive e)) c && forallb wf c.

  Lemma wfc_ne c : wfc c = true -> c <> [] /\ forallb wf c = true.
  Proof. unfold wfc. intros H. apply andb_prop in H as [H1 H2]. split; [|exact H2]. destruct c; [discriminate|discriminate]. Qed.

  Lemma Rc_head c : wfc c = true -> exists ch tl, Rc c = ch :: tl.
  Proof.
    intros H. destruct (wfc_ne _ H) as [Hne Hw]. destruct c as [|e c]; [congruence|].
    cbn [forallb] in Hw. apply andb_prop in Hw as [He _]. destruct (R_head _ _ _ He) as [ch [tl [HR _]]].
    destruct c as [|e2 c2]; [rewrite Rc_single | rewrite Rc_cons]; rewrite HR; eexists; eexists; reflexivity.
  Qed.

  Lemma loop_conjs q : Forall (Forall A2spec) q -> q <> [] -> forallb wfc q = true ->
    forall sp stop acc f cs, (sp = [] \/ sp = [32]) -> stopok stop -> rawsq q = Ok cs ->
      (3 * List.length (sp ++ Rq q ++ stop) + 2 <= f)%nat ->
      exprList_loop f (sp ++ Rq q ++ stop) acc = Ok (acc ++ sep_raws cs, stop).
  Proof.
    induction 1 as [|c q Hc Hq IH]; intros Hne Hwf sp stop acc f cs Hsp Hstop Hraws Hf; [congruence|].
    cbn [forallb] in Hwf. apply andb_prop in Hwf as [Hwc Hwq].
    cbn [map] in Hraws. apply seq_cons_inv in Hraws as [rc [cs' [Hrc [Hcs ->]]]].
    destruct (wfc_ne _ Hwc) as [Hcne Hcw]. destruct (Rc_head _ Hwc) as [ch [tl HRc]].
    destruct q as [|c2 q2].
    - cbn [seq map] in Hcs. inversion Hcs. subst cs'. rewrite Rq_single in *.
      destruct (loop_conj c Hc Hcne Hcw sp stop acc f rc Hsp (stopok_delim _ Hstop) Hrc Hf) as [f' [Hf' He]].
      rewrite He. destruct f' as [|f0]; [lia|]. rewrite loop_end by exact Hstop. reflexivity.
    - rewrite Rq_cons in *.
      replace (sp ++ (Rc c ++ 32 :: 111 :: 114 :: 32 :: Rq (c2 :: q2)) ++ stop)
        with (sp ++ Rc c ++ (32 :: 111 :: 114 :: 32 :: Rq (c2 :: q2) ++ stop)) in * by (rewrite <- !app_assoc; reflexivity).
      destruct (loop_conj c Hc Hcne Hcw sp (32 :: 111 :: 114 :: 32 :: Rq (c2 :: q2) ++ stop) acc f rc Hsp) as [f' [Hf' He]];
        [simpl; auto | exact Hrc | exact Hf |].
      rewrite He. destruct f' as [|f0]; [lia|]. rewrite loop_or.
      change (32 :: Rq (c2 :: q2) ++ stop) with ([32] ++ Rq (c2 :: q2) ++ stop).
      rewrite (IH ltac:(discriminate) Hwq [32] stop _ f0 cs'); auto.
      + change (sep_raws (rc :: cs')) with (match cs' with [] => rc | _ => rc ++ ROr :: sep_raws cs' end).
        destruct cs' as [|x y]; [cbn [seq map] in Hcs; destruct (rawsof c2) as [?| |]; cbn [obind] in Hcs; try discriminate;
                                 destruct (rawsq q2) as [?| |]; cbn [obind] in Hcs; discriminate|].
        rewrite <- !app_assoc. reflexivity.
      + cbn [length app] in *. lia.
  Qed.

  (** ---- parseExpr on a printed expression *)

  Lemma A2_atom e ty text : atom_tok e = Some (ty, text) -> A2spec e.
  Proof.
    intros Ha p rest f Hwf Hi Hd Hf. destruct f as [|f0]; [lia|].
    destruct (R_head _ _ _ Hwf) as [c [tl [HR Hc]]].
    rewrite parseExpr_S. cbv zeta.
    assert (Hsk : skipSpaces (R e ++ rest) = R e ++ rest) by (rewrite HR; cbn [app]; apply skipSpaces_head; exact Hc).
    rewrite Hsk. rewrite (atom_token rq rcompile e rest ty text Hwf Ha Hd). cbn [obind ttype ttext tinput].
    rewrite drop_le by (rewrite app_length; lia). cbn [obind]. rewrite skipn_exact.
    destruct (atom_ty _ _ _ Ha) as [H1 [H2 _]]. rewrite H1, H2.
    assert (Hx : atom_expr rq rcompile lang ty text = Ok (Some p)).
    { apply unopt_ok. destruct e; cbn [atom_tok] in Ha; try discriminate; cbn [QueryDocTree.iexpr atom_tok] in Hi;
        inversion Ha; subst; exact Hi. }
    rewrite Hx. cbn [obind]. rewrite csub_le by (rewrite app_length; lia). cbn [obind].
    f_equal. f_equal. rewrite app_length. lia.
  Qed.

  Lemma A2_neg e : A2spec e -> A2spec (DNeg e).
  Proof.
    intros IH p rest f Hwf Hi Hd Hf. destruct f as [|f0]; [lia|].
    cbn [wf_expr] in Hwf. apply andb_prop in Hwf as [_ Hwe].
    cbn [QueryDocTree.iexpr] in Hi. destruct (iexpr e) as [p1| |] eqn:Hi1; cbn [obind] in Hi; try discriminate.
    cbn [render_expr app] in *. rewrite parseExpr_S. cbv zeta.
    change (skipSpaces (45 :: R e ++ rest)) with (45 :: R e ++ rest).
    rewrite nt_neg. cbn [obind ttype tinput]. rewrite drop_le by (simpl; lia). cbn [obind].
    change (skipn (List.length [45]) (45 :: R e ++ rest)) with (R e ++ rest).
    change (tokNegate =? tokParenOpen) with false. change (tokNegate =? tokNegate) with true. cbn iota.
    rewrite (IH p1 rest f0 Hwe Hi1 Hd) by (cbn [length] in Hf; lia). cbn [obind].
    destruct p1 as [q|t]; [|discriminate]. 
    destruct q; try discriminate; inversion Hi; subst p;
      (rewrite drop_le by (rewrite app_length; lia); cbn [obind]; rewrite skipn_exact;
       rewrite csub_le by (cbn [length]; rewrite app_length; lia); cbn [obind]; f_equal; f_equal;
       cbn [length]; rewrite app_length; lia).
  Qed.

  Lemma A2_group q : Forall (Forall A2spec) q -> A2spec (DGroup q).
  Proof.
    intros IH p rest f Hwf Hi Hd Hf. destruct f as [|f0]; [lia|].
    cbn [wf_expr] in Hwf. apply andb_prop in Hwf as [Hne Hwq].
    assert (Hq : q <> []) by (destruct q; [discriminate|discriminate]).
    cbn [QueryDocTree.iexpr] in Hi.
    destruct (rawsq q) as [cs| |] eqn:Hcs; cbn [obind] in Hi; try discriminate.
    destruct (finish_list rx_auto (sep_raws cs)) as [items| |] eqn:Hfl; cbn [obind] in Hi; try discriminate.
    destruct (parseOperators items) as [t| |] eqn:Hpo; cbn [obind] in Hi; try discriminate. inversion Hi. subst p.
    assert (HR : R (DGroup q) = 40 :: 32 :: Rq q ++ [41]) by reflexivity.
    rewrite HR in *. cbn [app] in *. rewrite <- app_assoc in *. cbn [app] in *.
    rewrite parseExpr_S. cbv zeta.
    change (skipSpaces (40 :: 32 :: Rq q ++ 41 :: rest)) with (40 :: 32 :: Rq q ++ 41 :: rest).
    rewrite nt_open. cbn [obind ttype tinput]. rewrite drop_le by (simpl; lia). cbn [obind].
    change (skipn (List.length [40]) (40 :: 32 :: Rq q ++ 41 :: rest)) with (32 :: Rq q ++ 41 :: rest).
    change (tokParenOpen =? tokParenOpen) with true. cbn iota.
    destruct f0 as [|f1]; [cbn [length] in Hf; lia|].
    rewrite parseExprList_S.
    change (32 :: Rq q ++ 41 :: rest) with ([32] ++ Rq q ++ 41 :: rest).
    rewrite (loop_conjs q IH Hq Hwq [32] (41 :: rest) [] f1 cs); auto; [|right; eexists; reflexivity|cbn [length app] in *; lia].
    cbn [obind app]. rewrite Hfl. cbn [obind].
    rewrite csub_le by (cbn [length]; rewrite app_length; cbn [length]; lia). cbn [obind].
    replace (Nat.sub (List.length (32 :: Rq q ++ 41 :: rest)) (List.length (41 :: rest))) with (S (List.length (Rq q)))
      by (cbn [length]; rewrite app_length; cbn [length]; lia).
    rewrite drop_le by (cbn [length]; rewrite app_length; cbn [length]; lia). cbn [obind].
    change (skipn (S (List.length (Rq q))) (32 :: Rq q ++ 41 :: rest)) with (skipn (List.length (Rq q)) (Rq q ++ 41 :: rest)).
    rewrite skipn_exact. rewrite nt_close. cbn [obind ttype tinput].
    change (tokParenClose =? tokParenClose) with true. cbn iota.
    rewrite drop_le by (simpl; lia). cbn [obind]. change (skipn (List.length [41]) (41 :: rest)) with rest.
    rewrite Hpo. cbn [obind].
    rewrite csub_le by (cbn [length]; rewrite app_length; cbn [length]; lia). cbn [obind].
    f_equal. f_equal. cbn [length]. rewrite !app_length. cbn [length]. lia.
  Qed.

  Theorem A2_all e : A2spec e.
  Proof.
    induction e using dexpr_ind'.
    - eapply A2_atom; reflexivity. - eapply A2_atom; reflexivity. - eapply A2_atom; reflexivity.
    - eapply A2_atom; reflexivity. - eapply A2_atom; reflexivity.
    - apply A2_neg; assumption. - apply A2_group; assumption.
  Qed.

  (** BYTE LEVEL: the parser on the printed string goes through the token structure of the abstract query *)
  Theorem parse_render_iquery q : wf_query rq rcompile q = true ->
    parse rq rx_auto rcompile lang (render q) = iquery rq rx_auto rcompile lang q.
  Proof.
    intros Hwf. unfold wf_query in Hwf. cbn [wf_expr] in Hwf. apply andb_prop in Hwf as [Hne Hwq].
    assert (Hq : q <> []) by (destruct q; [discriminate|discriminate]).
    assert (HR : render q = Rq q) by reflexivity.
    unfold parse, parse_with, parse_fuel, iquery. rewrite HR.
    assert (Hall : Forall (Forall A2spec) q).
    { apply Forall_forall. intros c _. apply Forall_forall. intros e _. apply A2_all. }
    assert (Hok : exists cs, rawsq q = Ok cs).
    { exists (map (map (e_raw rq rx_auto rcompile lang)) q). apply seq_map_ok. apply Forall_forall. intros c Hc.
      apply seq_map_ok. apply Forall_forall. intros e He.
      rewrite forallb_forall in Hwq. specialize (Hwq c Hc). apply wfc_ne in Hwq as [_ Hwc].
      rewrite forallb_forall in Hwc. destruct (spec_all rq rx_auto rcompile lang e (Hwc e He)) as [H1 _]. exact H1. }
    destruct Hok as [cs Hcs]. rewrite Hcs. cbn [obind].
    replace (3 * List.length (Rq q) + 3)%nat with (S (3 * List.length (Rq q) + 2)) by lia.
    rewrite parseExprList_S.
    pose proof (loop_conjs q Hall Hq Hwq [] [] [] (3 * List.length (Rq q) + 2) cs (or_introl eq_refl) (or_introl eq_refl) Hcs) as Hl.
    cbn [app] in Hl. rewrite app_nil_r in Hl. rewrite Hl by lia. cbn [obind app].
    destruct (finish_list rx_auto (sep_raws cs)) as [items| |]; cbn [obind]; try reflexivity.
    rewrite csub_le by (simpl; lia). cbn [obind length]. rewrite Nat.sub_0_r, Nat.eqb_refl. reflexivity.
  Qed.
End Bytes.
