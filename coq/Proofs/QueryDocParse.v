(** C06, byte level: the parser model run on the printed string [render q] goes through exactly the token
    structure of q, i.e. parse (render q) = iquery q for well-formed abstract queries. *)
From ZV Require Import Lib.Base Model.Query Generated.ParserTables Model.Parser Model.QueryDoc Model.QueryDocRun.
From ZV Require Import Proofs.ParserTotal Proofs.QueryDocTree.
From Coq Require Import Lia String.
Notation length := List.length (only parsing).
Open Scope N_scope.

Arguments parseStringLiteral : simpl never.
Arguments drop : simpl never.
Arguments csub : simpl never.
Arguments setType : simpl never.
Arguments nextToken : simpl never.

(** what may follow an expression: end of input, a blank, or a closing parenthesis *)
Definition delim (rest : str) : Prop := match rest with [] => True | c :: _ => c = 32 \/ c = 41 end.

(** ------------------------------------------------------------------ quoting and escapes *)

Lemma strlit_esc v : forall lit rest, strlit_loop (esc v ++ 34 :: rest) lit = Ok (lit ++ v, rest).
Proof.
  induction v as [|c r IH]; intros lit rest.
  - simpl. rewrite app_nil_r. reflexivity.
  - cbn [esc]. destruct ((c =? 34) || (c =? 92)) eqn:E.
    + cbn [app strlit_loop]. change (92 =? 34) with false. change (92 =? 92) with true. cbn iota.
      rewrite IH, <- app_assoc. reflexivity.
    + apply orb_false_elim in E as [E1 E2]. cbn [app strlit_loop]. rewrite E1, E2.
      rewrite IH, <- app_assoc. reflexivity.
Qed.

Lemma psl_esc v rest : parseStringLiteral (34 :: esc v ++ 34 :: rest) = Ok (v, (2 + List.length (esc v))%nat).
Proof.
  unfold parseStringLiteral. rewrite strlit_esc. cbn [obind app].
  rewrite csub_le by (simpl; rewrite app_length; simpl; lia). cbn [obind]. f_equal. f_equal.
  simpl length. rewrite app_length. simpl length. lia.
Qed.

Lemma skipn_quoted v rest : skipn (2 + List.length (esc v)) (34 :: esc v ++ 34 :: rest) = rest.
Proof.
  change (34 :: esc v ++ 34 :: rest) with ([34] ++ esc v ++ [34] ++ rest).
  rewrite !app_assoc. replace (2 + List.length (esc v))%nat with (List.length (([34] ++ esc v) ++ [34])).
  - rewrite skipn_app, skipn_all, Nat.sub_diag. reflexivity.
  - rewrite !app_length. simpl. lia.
Qed.

(** ------------------------------------------------------------------ the scanning loop on a printed word *)

Lemma tok_end f rest text : delim rest -> text <> [] -> tok_loop (S f) rest 0 text = Ok (text, rest, false).
Proof.
  intros Hd Ht. destruct rest as [|c r]; [reflexivity|]. cbn [tok_loop]. simpl in Hd. destruct Hd as [-> | ->].
  - reflexivity.
  - change (41 =? 40) with false. change (41 =? 41) with true. cbn iota. destruct text; [congruence|reflexivity].
Qed.

Lemma tok_word w rest text f : wf_word w = true -> delim rest -> text ++ wvalue w <> [] ->
  tok_loop (List.length (render_word w) + S f) (render_word w ++ rest) 0 text = Ok (text ++ wvalue w, rest, false).
Proof.
  intros Hw Hd Hne. destruct w as [v|v]; cbn [render_word wvalue wf_word] in *.
  - rewrite tok_loop_plain by exact Hw. apply tok_end; assumption.
  - replace (Nat.add (List.length (34 :: esc v ++ [34])) (S f)) with (S (S (List.length (esc v) + S f))) by (simpl; rewrite app_length; simpl; lia).
    replace ((34 :: esc v ++ [34]) ++ rest) with (34 :: esc v ++ 34 :: rest) by (simpl; rewrite <- app_assoc; reflexivity).
    cbn [tok_loop]. change (34 =? 40) with false. change (34 =? 41) with false. change (34 =? 34) with true. cbn iota.
    rewrite psl_esc. cbn [obind]. rewrite drop_le by (simpl; rewrite app_length; simpl; lia). cbn [obind].
    rewrite skipn_quoted. apply tok_end; assumption.
Qed.

Lemma firstn_exact {A} (l r : list A) : firstn (List.length l) (l ++ r) = l.
Proof. induction l; simpl; [destruct r; reflexivity | f_equal; assumption]. Qed.

(** nextToken on  prefix ++ word  followed by a delimiter: the text is prefix ++ value, the input is what was printed *)
Lemma nt_atom pre w rest c0 tl :
  forallb plain pre = true -> wf_word w = true -> delim rest -> pre ++ wvalue w <> [] ->
  pre ++ render_word w = c0 :: tl -> c0 <> 45 ->
  nextToken ((pre ++ render_word w) ++ rest) =
  do t <- setType {| ttype := 0; ttext := pre ++ wvalue w; tinput := pre ++ render_word w |}; Ok (Some t).
Proof.
  intros Hpre Hw Hd Hne Hc0 H45. unfold nextToken. rewrite Hc0. cbn [app].
  apply N.eqb_neq in H45. rewrite H45. rewrite <- Hc0. clear H45.
  replace (c0 :: tl ++ rest) with ((pre ++ render_word w) ++ rest) by (rewrite Hc0; reflexivity).
  replace (S (List.length ((pre ++ render_word w) ++ rest)))
    with (List.length pre + (List.length (render_word w) + S (List.length rest)))%nat by (rewrite !app_length; lia).
  rewrite <- app_assoc. rewrite tok_loop_plain by exact Hpre. cbn [app].
  rewrite tok_word by assumption. cbn [obind].
  destruct (pre ++ wvalue w) as [|t0 tr] eqn:Et; [congruence|]. cbn [andb].
  rewrite csub_le by (rewrite !app_length; lia). cbn [obind].
  replace (List.length (pre ++ render_word w ++ rest) - List.length rest)%nat with (List.length (pre ++ render_word w))
    by (rewrite !app_length; lia).
  rewrite app_assoc, firstn_exact. reflexivity.
Qed.

(** ------------------------------------------------------------------ setType on printed atoms *)

Lemma prefixb_self p r : prefixb p (p ++ r) = true.
Proof. induction p as [|a p IH]; simpl; [reflexivity|]. rewrite N.eqb_refl, IH. reflexivity. Qed.

Lemma str_eqb_eq a b : str_eqb a b = true -> a = b.
Proof. apply list_eqb_N_eq. Qed.

Lemma skipn_exact {A} (l r : list A) : skipn (List.length l) (l ++ r) = r.
Proof. induction l; simpl; auto. Qed.

Definition or_not_prefixed : bool := forallb (fun p => negb (prefixb (fst p) [111; 114])) prefixes.
Lemma or_not_prefixed_true : or_not_prefixed = true. Proof. vm_compute. reflexivity. Qed.
Lemma reserved_is_or : reservedWords = [([111; 114], tokOr)]. Proof. reflexivity. Qed.

Lemma find_none_forallb {A} (f : A -> bool) l : forallb (fun x => negb (f x)) l = true -> find f l = None.
Proof.
  induction l as [|x l IH]; simpl; [reflexivity|]. intros H. apply andb_prop in H as [H1 H2].
  apply negb_true_iff in H1. rewrite H1. apply IH. exact H2.
Qed.

(** a field prefix of the table followed by anything: the token gets the field's type, the prefix is cut *)
Lemma setType_prefixed p ty x rw : In (p, ty) prefixes ->
  setType {| ttype := 0; ttext := p ++ x; tinput := p ++ rw |} = Ok {| ttype := ty; ttext := x; tinput := p ++ rw |}.
Proof.
  intros Hin. destruct (prefixes_plain _ Hin) as [_ Hlen]. cbn [fst] in Hlen.
  unfold setType. cbn [ttext tinput with_type].
  assert (H1 : forall c, str_eqb (p ++ x) [c] = false).
  { intros c. destruct p as [|a [|b p']]; simpl in Hlen; try lia. unfold str_eqb. simpl. destruct (a =? c); reflexivity. }
  rewrite (H1 40). cbn [ttext]. rewrite (H1 41). cbn [ttext tinput].
  rewrite reserved_is_or. cbn [find fst snd].
  assert (H2 : str_eqb (p ++ x) [111; 114] = false).
  { destruct (str_eqb (p ++ x) [111; 114]) eqn:E; [|reflexivity]. apply str_eqb_eq in E.
    pose proof or_not_prefixed_true as Ho. unfold or_not_prefixed in Ho. rewrite forallb_forall in Ho.
    specialize (Ho _ Hin). cbn [fst] in Ho. rewrite <- E, prefixb_self in Ho. discriminate. }
  rewrite H2. cbn [andb ttext tinput].
  destruct (find (fun q => prefixb (fst q) (p ++ rw)) prefixes) as [q|] eqn:Hf.
  - apply find_some in Hf as [Hq Hpq].
    assert (q = (p, ty)) by (eapply prefixes_unambiguous; eauto; apply prefixb_self). subst q. cbn [fst snd].
    rewrite drop_le by (rewrite app_length; lia). cbn [obind]. rewrite skipn_exact. reflexivity.
  - eapply find_none in Hf; [|exact Hin]. cbn [fst] in Hf. rewrite prefixb_self in Hf. discriminate.
Qed.

Lemma setType_plain_text v : v <> [] -> forallb plain v = true -> no_prefix v = true -> str_eqb v [111; 114] = false ->
  setType {| ttype := 0; ttext := v; tinput := v |} = Ok {| ttype := tokText; ttext := v; tinput := v |}.
Proof.
  intros Hne Hpl Hnp Hor. unfold setType. cbn [ttext tinput with_type].
  assert (H1 : forall c, plain c = false -> str_eqb v [c] = false).
  { intros c Hc. destruct v as [|a r]; [congruence|]. simpl in Hpl. apply andb_prop in Hpl as [Ha _].
    unfold str_eqb. simpl. destruct (a =? c) eqn:E; [|reflexivity]. apply N.eqb_eq in E. subst. congruence. }
  rewrite (H1 40 eq_refl). cbn [ttext]. rewrite (H1 41 eq_refl). cbn [ttext tinput].
  rewrite reserved_is_or. cbn [find fst snd]. rewrite Hor. cbn [andb tinput].
  rewrite find_none_forallb; [reflexivity|]. exact Hnp.
Qed.

Definition quote_not_prefixed : bool := forallb (fun p => match fst p with c :: _ => negb (c =? 34) | [] => false end) prefixes.
Lemma quote_not_prefixed_true : quote_not_prefixed = true. Proof. vm_compute. reflexivity. Qed.

Lemma setType_quoted_text v : str_eqb v [40] = false -> str_eqb v [41] = false ->
  setType {| ttype := 0; ttext := v; tinput := 34 :: esc v ++ [34] |} =
  Ok {| ttype := tokText; ttext := v; tinput := 34 :: esc v ++ [34] |}.
Proof.
  intros H40 H41. unfold setType. cbn [ttext tinput with_type]. rewrite H40. cbn [ttext]. rewrite H41. cbn [ttext tinput].
  rewrite reserved_is_or. cbn [find fst snd].
  assert (Hq : str_eqb (34 :: esc v ++ [34]) [111; 114] = false) by reflexivity.
  rewrite Hq, andb_false_r. cbn [tinput].
  rewrite find_none_forallb; [reflexivity|].
  pose proof quote_not_prefixed_true as Hn. unfold quote_not_prefixed in Hn.
  rewrite forallb_forall in *. intros p Hp. specialize (Hn p Hp). apply negb_true_iff.
  destruct (fst p) as [|a p']; [discriminate|]. apply negb_true_iff in Hn. cbn [prefixb]. rewrite Hn. reflexivity.
Qed.

(** ------------------------------------------------------------------ the token of a printed atom *)

Notation R := (render_expr [32]).

Ltac in_prefixes := unfold prefixes; simpl; repeat (first [left; reflexivity | right]).

Lemma field_prefix_in f a : (match f with FMeta _ => False | _ => True end) -> In (field_prefix f a, field_tok f) prefixes.
Proof. destruct f, a; intros H; try contradiction; in_prefixes. Qed.
Lemma bfield_prefix_in f : In (bfield_prefix f, bfield_tok f) prefixes.
Proof. destruct f; in_prefixes. Qed.

Section AtomToken.
  Variable rq : str -> rqres.
  Variable rcompile : str -> bool.

  Lemma atom_token e rest ty text :
    wf_expr rq rcompile e = true -> atom_tok e = Some (ty, text) -> delim rest ->
    nextToken (R e ++ rest) = Ok (Some {| ttype := ty; ttext := text; tinput := R e |}).
  Proof.
    intros Hwf Hat Hd. destruct e as [w|f a w|f v|k|a t|e1|q]; cbn [atom_tok] in Hat; try discriminate; inversion Hat; subst ty text; clear Hat;
      cbn [wf_expr] in Hwf; cbn [render_expr].
    - (* bare pattern *)
      apply andb_prop in Hwf as [Hlex _]. destruct w as [v|v]; cbn [wf_text] in Hlex; cbn [render_word wvalue].
      + repeat (apply andb_prop in Hlex as [Hlex ?]).
        apply negb_true_iff in Hlex. destruct v as [|c0 tl]; [discriminate|].
        assert (Hc : c0 <> 45).
        { intros ->. match goal with H : negb (prefixb [45] _) = true |- _ => simpl in H; discriminate H end. }
        pose proof (nt_atom [] (WPlain (c0 :: tl)) rest c0 tl eq_refl) as Hn. cbn [app render_word wvalue wf_word] in Hn.
        cbn [app]. rewrite Hn; try assumption; try discriminate; try reflexivity.
        rewrite setType_plain_text; try assumption; try discriminate; [reflexivity|].
        match goal with H : negb (str_eqb _ _) = true |- _ => apply negb_true_iff in H; exact H end.
      + apply andb_prop in Hlex as [Hlex H41]. apply andb_prop in Hlex as [Hne H40].
        apply negb_true_iff in H40, H41, Hne. destruct v as [|c0 tl]; [discriminate|].
        pose proof (nt_atom [] (WQuoted (c0 :: tl)) rest 34 (esc (c0 :: tl) ++ [34]) eq_refl) as Hn.
        cbn [app render_word wvalue wf_word] in Hn. cbn [app].
        rewrite Hn; try assumption; try discriminate; try reflexivity.
        rewrite setType_quoted_text by assumption. reflexivity.
    - (* field *)
      apply andb_prop in Hwf as [Hw Hf].
      destruct f as [| | | | | | |name].
      8:{ (* meta *)
        cbn [wf_field] in Hf. apply andb_prop in Hf as [Hf _]. apply andb_prop in Hf as [Hname _].
        cbn [field_prefix field_tok field_text].
        pose proof (nt_atom (dbs "meta."%string ++ name ++ [58]) w rest 109 ([101; 116; 97; 46] ++ name ++ [58] ++ render_word w)) as Hn.
        rewrite Hn; try assumption; try discriminate.
        - replace ((dbs "meta."%string ++ name ++ [58]) ++ wvalue w) with (dbs "meta."%string ++ (name ++ 58 :: wvalue w)) by (rewrite <- !app_assoc; reflexivity).
          replace ((dbs "meta."%string ++ name ++ [58]) ++ render_word w) with (dbs "meta."%string ++ (name ++ 58 :: render_word w)) by (rewrite <- !app_assoc; reflexivity).
          rewrite (setType_prefixed (dbs "meta."%string) tokMeta) by in_prefixes. reflexivity.
        - rewrite !forallb_app. rewrite Hname. reflexivity.
        - rewrite <- !app_assoc. reflexivity. }
      all: cbn [wf_field] in Hf; try discriminate Hf;
        match goal with |- context[field_prefix ?f ?aa] =>
          pose proof (field_prefix_in f aa I) as Hin;
          assert (Hc : exists c0 tl, field_prefix f aa ++ render_word w = c0 :: tl /\ c0 <> 45 /\ forallb plain (field_prefix f aa) = true)
            by (destruct aa; (eexists; eexists; split; [reflexivity | split; [discriminate | reflexivity]]));
          destruct Hc as [c0 [tl [Hc0 [H45 Hpl]]]];
          rewrite (nt_atom (field_prefix f aa) w rest c0 tl Hpl Hw Hd) by (try exact Hc0; try exact H45; destruct aa; discriminate);
          rewrite (setType_prefixed _ _ _ _ Hin); reflexivity
        end.
    - (* archived: fork: public: *)
      pose proof (bfield_prefix_in f) as Hin.
      assert (Hc : exists c0 tl, bfield_prefix f ++ render_word (WPlain (if v then dbs "yes"%string else dbs "no"%string)) = c0 :: tl /\ c0 <> 45 /\ forallb plain (bfield_prefix f) = true)
        by (destruct f; (eexists; eexists; split; [reflexivity | split; [discriminate | reflexivity]])).
      destruct Hc as [c0 [tl [Hc0 [H45 Hpl]]]].
      etransitivity.
      { apply (nt_atom (bfield_prefix f) (WPlain (if v then dbs "yes"%string else dbs "no"%string)) rest c0 tl Hpl); try assumption.
        - destruct v; reflexivity.
        - destruct f, v; discriminate. }
      cbn [wvalue render_word]. rewrite (setType_prefixed _ _ _ _ Hin). reflexivity.
    - (* case: *)
      etransitivity.
      { apply (nt_atom (dbs "case:"%string) (WPlain (flavor_text k)) rest 99 ([97; 115; 101; 58] ++ flavor_text k) eq_refl); try assumption; try discriminate.
        - destruct k; reflexivity.
        - reflexivity. }
      cbn [wvalue render_word]. rewrite (setType_prefixed (dbs "case:"%string) tokCase) by in_prefixes. reflexivity.
    - (* type: *)
      destruct a.
      + etransitivity.
        { apply (nt_atom (dbs "t:"%string) (WPlain (rtype_text t)) rest 116 ([58] ++ rtype_text t) eq_refl); try assumption; try discriminate.
          - destruct t; reflexivity.
          - reflexivity. }
        cbn [wvalue render_word]. rewrite (setType_prefixed (dbs "t:"%string) tokType) by in_prefixes. reflexivity.
      + etransitivity.
        { apply (nt_atom (dbs "type:"%string) (WPlain (rtype_text t)) rest 116 ([121; 112; 101; 58] ++ rtype_text t) eq_refl); try assumption; try discriminate.
          - destruct t; reflexivity.
          - reflexivity. }
        cbn [wvalue render_word]. rewrite (setType_prefixed (dbs "type:"%string) tokType) by in_prefixes. reflexivity.
  Qed.
End AtomToken.
