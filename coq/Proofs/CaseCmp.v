(** C08 proofs: facts about the generated Unicode table (by vm_compute, lifted to all of N), exactness of the
    boolean [tolower_fold_agree], agreement of the two case-insensitive evaluations over agreeing runes. *)
From Coq Require Import List NArith Arith Bool Lia.
From ZV Require Import Lib.Base Generated.UnicodeTables Model.Regex Model.CaseFold Model.CaseCmp.
Import ListNotations.
Open Scope N_scope.

Definition memb (x : N) (l : list N) : bool := existsb (N.eqb x) l.
Lemma memb_in x l : memb x l = true <-> In x l.
Proof.
  unfold memb. rewrite existsb_exists. split.
  - intros (y & Hy & E). apply N.eqb_eq in E. subst; exact Hy.
  - intros H. exists x. split; [exact H | apply N.eqb_refl].
Qed.

(** ---- finite facts about the table of the toolchain in use (decided by computation) *)
Lemma utab_consistent :
  forallb (fun row : N * N * N => let '(r, lo, sf) := row in (tolower r =? lo) && (fold_next r =? sf)) utab = true.
Proof. vm_compute. reflexivity. Qed.
Lemma utab_closed_fold :
  forallb (fun row : N * N * N => let '(_, _, sf) := row in memb sf utab_runes) utab = true.
Proof. vm_compute. reflexivity. Qed.
Lemma utab_closed_lower :
  forallb (fun row : N * N * N => let '(r, lo, _) := row in (lo =? r) || memb lo utab_runes) utab = true.
Proof. vm_compute. reflexivity. Qed.

Lemma utab_find_none : forall l c, ~ In c (map (fun x : N * N * N => fst (fst x)) l) -> utab_find l c = None.
Proof.
  induction l as [|[[r lo] sf] l IH]; intros c Hn; simpl; [reflexivity|].
  destruct (r =? c) eqn:E.
  - apply N.eqb_eq in E. exfalso. apply Hn. simpl. left; exact E.
  - apply IH. intros H. apply Hn. simpl. right; exact H.
Qed.
Lemma off_table c : ~ In c utab_runes -> tolower c = c /\ fold_next c = c.
Proof. intros H. unfold tolower, fold_next. rewrite (utab_find_none utab c H). split; reflexivity. Qed.
Lemma in_table c : In c utab_runes -> exists lo sf, In (c, lo, sf) utab.
Proof.
  unfold utab_runes. intros H. apply in_map_iff in H. destruct H as ([[r lo] sf] & E & H). simpl in E. subst. exists lo, sf; exact H.
Qed.
Lemma row_facts r lo sf : In (r, lo, sf) utab ->
  tolower r = lo /\ fold_next r = sf /\ In sf utab_runes /\ (lo = r \/ In lo utab_runes).
Proof.
  intros H.
  pose proof (proj1 (forallb_forall _ _) utab_consistent _ H) as H1. cbv beta iota in H1.
  pose proof (proj1 (forallb_forall _ _) utab_closed_fold _ H) as H2. cbv beta iota in H2.
  pose proof (proj1 (forallb_forall _ _) utab_closed_lower _ H) as H3. cbv beta iota in H3.
  apply andb_true_iff in H1. destruct H1 as [A B]. apply N.eqb_eq in A. apply N.eqb_eq in B.
  apply memb_in in H2. apply orb_true_iff in H3.
  repeat split; try assumption. destruct H3 as [E|E]; [left; apply N.eqb_eq; exact E | right; apply memb_in; exact E].
Qed.
Lemma fold_next_keys x : In x utab_runes -> In (fold_next x) utab_runes.
Proof. intros H. destruct (in_table x H) as (lo & sf & Hr). destruct (row_facts _ _ _ Hr) as (_ & -> & Hs & _). exact Hs. Qed.

Lemma orbit_keys c x : In c utab_runes -> In x (orbit c) -> In x utab_runes.
Proof.
  intros Hc. unfold orbit.
  pose proof (fold_next_keys c Hc) as Ha.
  pose proof (fold_next_keys _ Ha) as Hb.
  pose proof (fold_next_keys _ Hb) as Hd.
  pose proof (fold_next_keys _ Hd) as He.
  destruct (fold_next c =? c); [intros []|].
  destruct (fold_next (fold_next c) =? c); [intros [<-|[]]; assumption|].
  destruct (fold_next (fold_next (fold_next c)) =? c); [intros [<-|[<-|[]]]; assumption|].
  destruct (fold_next (fold_next (fold_next (fold_next c))) =? c).
  - intros [<-|[<-|[<-|[]]]]; assumption.
  - intros [<-|[<-|[<-|[<-|[]]]]]; assumption.
Qed.
Lemma orbit_off c : ~ In c utab_runes -> orbit c = [].
Proof. intros H. unfold orbit. rewrite (proj2 (off_table c H)), N.eqb_refl. reflexivity. Qed.

Lemma in_orbitb_keys c c' : in_orbitb c c' = true -> c' = c \/ (In c utab_runes /\ In c' utab_runes).
Proof.
  unfold in_orbitb. intros H. apply orb_true_iff in H. destruct H as [H|H].
  - left. apply N.eqb_eq in H. symmetry; exact H.
  - destruct (in_dec N.eq_dec c utab_runes) as [Hc|Hc].
    + right. split; [exact Hc|]. apply (orbit_keys c c' Hc). apply existsb_exists in H. destruct H as (y & Hy & E).
      apply N.eqb_eq in E. subst; exact Hy.
    + rewrite (orbit_off c Hc) in H. discriminate.
Qed.

(** The boolean decides, for every rune c, whether for ALL runes c' "same lower case as c" and "in the
    SimpleFold orbit of c" are the same thing. *)
Theorem agree_set_exact_proof : forall c,
  tolower_fold_agree c = true <-> (forall c', tolower c' = tolower c <-> in_orbitb c c' = true).
Proof.
  intros c. unfold tolower_fold_agree. cbv zeta. rewrite forallb_forall. split.
  - intros H c'. destruct (in_dec N.eq_dec c' utab_runes) as [Hk|Hk].
    + destruct (in_table c' Hk) as (lo & sf & Hr). specialize (H _ Hr). cbv beta iota in H.
      destruct (row_facts _ _ _ Hr) as (Hl & _). rewrite Hl. apply eqb_prop in H.
      unfold in_orbitb. rewrite <- H. symmetry. apply N.eqb_eq.
    + destruct (off_table c' Hk) as [Hl _]. rewrite Hl. split.
      * intros E. destruct (N.eq_dec c' c) as [->|Hne]; [unfold in_orbitb; rewrite N.eqb_refl; reflexivity|].
        exfalso. destruct (in_dec N.eq_dec c utab_runes) as [Hc|Hc].
        -- destruct (in_table c Hc) as (lo & sf & Hr). destruct (row_facts _ _ _ Hr) as (Hlc & _ & _ & [E2|E2]).
           ++ apply Hne. rewrite E, Hlc. exact E2.
           ++ apply Hk. rewrite E, Hlc. exact E2.
        -- apply Hne. rewrite E. apply (off_table c Hc).
      * intros E. apply in_orbitb_keys in E. destruct E as [->|[_ E]]; [symmetry; apply (off_table c Hk) | contradiction].
  - intros H [[r lo] sf] Hr. destruct (row_facts _ _ _ Hr) as (Hl & _). specialize (H r). rewrite Hl in H.
    unfold in_orbitb in H. destruct ((c =? r) || existsb (N.eqb r) (orbit c)) eqn:E.
    + rewrite (proj2 (N.eqb_eq _ _) (proj2 H eq_refl)). reflexivity.
    + destruct (lo =? tolower c) eqn:E2; [|reflexivity]. apply N.eqb_eq in E2. apply H in E2. discriminate.
Qed.

(** ---- the two evaluations *)

Lemma orbit_eq_in_orbitb pc c : orbit_eq pc c = in_orbitb pc c.
Proof. reflexivity. Qed.

Lemma preds_pointwise sel : forall p k, (forall pc, In pc p -> tolower_fold_agree pc = true) ->
  Forall2 (fun f g : N -> bool => forall c, f c = g c) (sub_preds_from sel p k) (re_preds p).
Proof.
  induction p as [|pc p IH]; intros k Hag; simpl; constructor.
  - intros c. assert (Ha : tolower_fold_agree pc = true) by (apply Hag; left; reflexivity).
    pose proof (proj1 (agree_set_exact_proof pc) Ha c) as Hc.
    unfold lower_eq. rewrite orbit_eq_in_orbitb. destruct (in_orbitb pc c) eqn:E.
    + rewrite (proj2 Hc eq_refl), N.eqb_refl. destruct (covered sel k); reflexivity.
    + destruct (tolower pc =? tolower c) eqn:E2; [|reflexivity]. apply N.eqb_eq in E2. symmetry in E2. apply Hc in E2. discriminate.
  - apply IH. intros x Hx. apply Hag. right; exact Hx.
Qed.

Lemma match_preds_ext ps qs : Forall2 (fun f g : N -> bool => forall c, f c = g c) ps qs ->
  forall t, match_preds ps t = match_preds qs t.
Proof.
  induction 1 as [|f g ps qs Hfg _ IH]; intros t; simpl; [reflexivity|].
  destruct t as [|c t]; [reflexivity|]. rewrite Hfg, IH. reflexivity.
Qed.
Lemma scan_ext ps qs : Forall2 (fun f g : N -> bool => forall c, f c = g c) ps qs ->
  forall t off, scan ps t off = scan qs t off.
Proof.
  intros H. assert (Hlen : length ps = length qs) by (induction H; simpl; congruence).
  induction t as [|c t IH]; intros off; simpl; [reflexivity|].
  rewrite (match_preds_ext ps qs H), Hlen, IH. reflexivity.
Qed.

Lemma match_preds_skip : forall (ps : list (N -> bool)) t o, match_preds ps t = true -> match_preds (skipn o ps) (skipn o t) = true.
Proof.
  induction ps as [|f ps IH]; intros t o H.
  - rewrite skipn_nil. reflexivity.
  - destruct o as [|o]; [exact H|]. destruct t as [|c t]; simpl in H; [discriminate|].
    apply andb_true_iff in H. simpl. apply IH. apply H.
Qed.
Lemma match_preds_firstn : forall (ps : list (N -> bool)) t n, match_preds ps t = true -> match_preds (firstn n ps) t = true.
Proof.
  induction ps as [|f ps IH]; intros t n H.
  - rewrite firstn_nil. reflexivity.
  - destruct n as [|n]; [reflexivity|]. destruct t as [|c t]; simpl in H; [discriminate|].
    apply andb_true_iff in H. simpl. rewrite (proj1 H). apply IH. apply H.
Qed.
Lemma occurs_skip ps : forall t o, match_preds ps (skipn o t) = true -> skipn o t <> [] -> occurs ps t = true.
Proof.
  induction t as [|c t IH]; intros o H Hne.
  - rewrite skipn_nil in Hne. contradiction.
  - destruct o as [|o]; simpl in *.
    + rewrite H. reflexivity.
    + rewrite (IH o H Hne). apply orb_true_r.
Qed.

Lemma skipn_plus {A} : forall (l : list A) a b, skipn (a + b) l = skipn b (skipn a l).
Proof.
  induction l as [|x l IH]; intros a b.
  - rewrite !skipn_nil. reflexivity.
  - destruct a as [|a]; [reflexivity|]. simpl. apply IH.
Qed.

Lemma scan_nil ps : forall t off, (forall o, skipn o t <> [] -> match_preds ps (skipn o t) = false) -> scan ps t off = [].
Proof.
  induction t as [|c t IH]; intros off H; simpl; [reflexivity|].
  pose proof (H 0%nat) as H0. simpl in H0. rewrite H0 by discriminate. simpl. apply IH. intros o Hne. apply (H (S o)). exact Hne.
Qed.

Lemma no_trigram_no_match p t : all_trigrams_occur p t = false -> forall off, scan (re_preds p) t off = [].
Proof.
  intros H off. apply scan_nil. intros o Hne.
  destruct (match_preds (re_preds p) (skipn o t)) eqn:E; [|reflexivity]. exfalso.
  unfold all_trigrams_occur in H. apply not_true_iff_false in H. apply H. apply forallb_forall. intros k Hk.
  apply in_seq in Hk.
  apply (occurs_skip _ t (o + k)).
  - rewrite skipn_plus. unfold trigram_preds. rewrite <- firstn_map, <- skipn_map.
    apply match_preds_firstn. apply match_preds_skip. exact E.
  - (* the text has at least |p| runes from o, and k < |p| *)
    assert (Hlen : forall (ps : list (N -> bool)) s, match_preds ps s = true -> (length ps <= length s)%nat).
    { induction ps as [|f ps IHp]; intros s Hs; simpl; [lia|]. destruct s as [|c s]; simpl in Hs; [discriminate|].
      apply andb_true_iff in Hs. simpl. apply le_n_S. apply IHp. apply Hs. }
    apply Hlen in E. unfold re_preds in E. rewrite map_length, skipn_length in E.
    intros Hnil. apply (f_equal (@length N)) in Hnil. rewrite skipn_length in Hnil. simpl in Hnil. lia.
Qed.

Theorem agree_iff_proof : forall sel p t,
  (forall c, In c p -> tolower_fold_agree c = true) -> substr_ci sel p t = regex_ci p t.
Proof.
  intros sel p t Hag. unfold substr_ci, regex_ci.
  rewrite (scan_ext _ _ (preds_pointwise sel p 0 Hag)).
  destruct (all_trigrams_occur p t) eqn:E; [reflexivity|].
  rewrite (no_trigram_no_match p t E). reflexivity.
Qed.

(** the regexp side of the model is the FoldCase literal of Model/Regex.v *)
Lemma skipn_nth {A} : forall (t : list A) i c, nth_error t i = Some c -> skipn i t = c :: skipn (S i) t.
Proof.
  induction t as [|x t IH]; intros i c H; destruct i; simpl in *; try discriminate.
  - injection H as ->. reflexivity.
  - apply IH. exact H.
Qed.
Theorem re_preds_is_fold_literal : forall p t i,
  match_preds (re_preds p) (skipn i t) = true <-> m orbit (RLit true p) t i (i + length p)%nat.
Proof.
  induction p as [|pc p IH]; intros t i; simpl.
  - split; [intros _; lia | reflexivity].
  - destruct (nth_error t i) as [c|] eqn:Hc.
    + rewrite (skipn_nth t i c Hc). rewrite andb_true_iff, IH. replace (i + S (length p))%nat with (S i + length p)%nat by lia.
      split.
      * intros [A B]. exists c. auto.
      * intros (c' & A & B & C). injection A as <-. auto.
    + assert (Hs : skipn i t = []). { apply skipn_all2. apply nth_error_None. exact Hc. }
      rewrite Hs. split; [discriminate | intros (c' & A & _); discriminate].
Qed.

(** the case variants of a trigram (product of orbits) are exactly the triples accepted by the prefilter predicates *)
Lemma orbit_full_in c x : In x (orbit_full c) <-> orbit_eq c x = true.
Proof.
  unfold orbit_full, orbit_eq, fold_eq. simpl. rewrite orb_true_iff, N.eqb_eq, existsb_exists. split.
  - intros [H|H]; [left; exact H | right; exists x; split; [exact H | apply N.eqb_refl]].
  - intros [H|(y & Hy & E)]; [left; exact H | right]. apply N.eqb_eq in E. subst; exact Hy.
Qed.
Theorem variants3_spec : forall a b c x y z,
  In (x, y, z) (variants3 a b c) <-> orbit_eq a x = true /\ orbit_eq b y = true /\ orbit_eq c z = true.
Proof.
  intros a b c x y z. unfold variants3. rewrite in_flat_map. split.
  - intros (x' & Hx & H). apply in_flat_map in H. destruct H as (y' & Hy & H). apply in_map_iff in H.
    destruct H as (z' & E & Hz). injection E as -> -> ->. rewrite <- !orbit_full_in. auto.
  - intros (Hx & Hy & Hz). exists x. split; [apply orbit_full_in; exact Hx|]. apply in_flat_map.
    exists y. split; [apply orbit_full_in; exact Hy|]. apply in_map_iff. exists z. split; [reflexivity | apply orbit_full_in; exact Hz].
Qed.
