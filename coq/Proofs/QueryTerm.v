(** Termination of the flatten loop of query.Simplify: every round that reports changed=true
    strictly decreases the number of And/Or nodes, a round that reports changed=false returns its
    argument, hence the fuel used by the model's [Simplify] is never exhausted and the result is a
    fixpoint of flatten (the exit condition of Go's unbounded `for`). *)
From ZV Require Import Lib.Base Model.Query Proofs.QueryInd.

Fixpoint nao (q : Q) : nat :=
  match q with
  | QAnd cs | QOr cs => S (fold_right (fun c n => nao c + n) 0 cs)
  | QNot c | QType _ c | QBoost _ c => nao c
  | _ => 0
  end.
Notation nsum l := (fold_right (fun c n => nao c + n) 0 l).

Lemma nsum_app (a b : list Q) : nsum (a ++ b) = nsum a + nsum b.
Proof. induction a as [|x a IH]; simpl; [reflexivity|]. rewrite IH. lia. Qed.

Definition fl_spec (q : Q) : Prop :=
  nao (fst (flatten q)) <= nao q /\
  (snd (flatten q) = true -> nao (fst (flatten q)) < nao q) /\
  (snd (flatten q) = false -> fst (flatten q) = q).

Lemma flattenAndOr_spec (isAnd : bool) (l : list Q) :
  Forall fl_spec l ->
  nsum (fst (flattenAndOr isAnd flatten l)) <= nsum l /\
  (snd (flattenAndOr isAnd flatten l) = true -> nsum (fst (flattenAndOr isAnd flatten l)) < nsum l) /\
  (snd (flattenAndOr isAnd flatten l) = false -> fst (flattenAndOr isAnd flatten l) = l).
Proof.
  induction 1 as [|c r Hc _ IH]; simpl.
  - repeat split; auto. discriminate.
  - destruct Hc as [Hc1 [Hc2 Hc3]].
    destruct (flatten c) as [c' sub] eqn:Ec. simpl in Hc1, Hc2, Hc3.
    destruct (flattenAndOr isAnd flatten r) as [rest chg] eqn:Er. simpl in IH.
    destruct IH as [I1 [I2 I3]].
    assert (Hgen : nao c' + nsum rest <= nao c + nsum r /\
                   (sub || chg = true -> nao c' + nsum rest < nao c + nsum r) /\
                   (sub || chg = false -> c' :: rest = c :: r)).
    { repeat split.
      - lia.
      - intros Ho. apply orb_true_iff in Ho. destruct Ho as [->| ->].
        + specialize (Hc2 eq_refl). lia.
        + specialize (I2 eq_refl). lia.
      - intros Ho. apply orb_false_iff in Ho. destruct Ho as [-> ->].
        now rewrite (Hc3 eq_refl), (I3 eq_refl). }
    destruct c', isAnd; simpl; try exact Hgen.
    + (* And child spliced into And *)
      simpl in Hc1. rewrite nsum_app. repeat split; try lia; try discriminate.
    + (* Or child spliced into Or *)
      simpl in Hc1. rewrite nsum_app. repeat split; try lia; try discriminate.
Qed.

Lemma flatten_spec : forall q, fl_spec q.
Proof.
  intros q. induction q using Q_ind'; unfold fl_spec in *; simpl;
    try (repeat split; auto; discriminate).
  - destruct (flatten q) as [c' chg]; simpl in *.
    destruct IHq as [H1 [H2 H3]]. repeat split; auto. intros Hc. now rewrite (H3 Hc).
  - destruct (flatten q) as [c' chg]; simpl in *.
    destruct IHq as [H1 [H2 H3]]. repeat split; auto. intros Hc. now rewrite (H3 Hc).
  - (* And *)
    destruct cs as [|c [|c2 r]].
    + simpl. repeat split; auto. discriminate.
    + simpl. repeat split; try lia; try discriminate.
    + pose proof (flattenAndOr_spec true (c :: c2 :: r) H) as HF.
      destruct (flattenAndOr true flatten (c :: c2 :: r)) as [f chg]. simpl in HF |- *.
      destruct HF as [F1 [F2 F3]]. repeat split.
      * lia.
      * intros Hc. specialize (F2 Hc). lia.
      * intros Hc. now rewrite (F3 Hc).
  - (* Or *)
    destruct cs as [|c [|c2 r]].
    + simpl. repeat split; auto. discriminate.
    + simpl. repeat split; try lia; try discriminate.
    + pose proof (flattenAndOr_spec false (c :: c2 :: r) H) as HF.
      destruct (flattenAndOr false flatten (c :: c2 :: r)) as [f chg]. simpl in HF |- *.
      destruct HF as [F1 [F2 F3]]. repeat split.
      * lia.
      * intros Hc. specialize (F2 Hc). lia.
      * intros Hc. now rewrite (F3 Hc).
  - destruct (flatten q) as [c' chg]; simpl in *.
    destruct IHq as [H1 [H2 H3]]. repeat split; auto. intros Hc. now rewrite (H3 Hc).
Qed.

(** a changed round strictly decreases the measure *)
Lemma flatten_decreases q : snd (flatten q) = true -> nao (fst (flatten q)) < nao q.
Proof. apply flatten_spec. Qed.

(** an unchanged round is the identity *)
Lemma flatten_unchanged q : snd (flatten q) = false -> fst (flatten q) = q.
Proof. apply flatten_spec. Qed.

Lemma flatten_loop_fixpoint : forall fuel q,
  nao q < fuel -> flatten (flatten_loop fuel q) = (flatten_loop fuel q, false).
Proof.
  induction fuel as [|k IH]; intros q Hlt; [lia|]. simpl.
  pose proof (flatten_decreases q) as Hd. pose proof (flatten_unchanged q) as Hu.
  destruct (flatten q) as [q' chg] eqn:Eq. simpl in Hd, Hu.
  destruct chg.
  - apply IH. specialize (Hd eq_refl). lia.
  - rewrite (Hu eq_refl) in *. exact Eq.
Qed.

Lemma nao_le_qsize : forall q, nao q <= qsize q.
Proof.
  intros q. induction q using Q_ind'; simpl; try lia.
  - apply le_n_S. induction H as [|c r Hc _ IH]; simpl; lia.
  - apply le_n_S. induction H as [|c r Hc _ IH]; simpl; lia.
Qed.

(** The fuel of the model's Simplify is never exhausted: the loop stops because flatten reports
    changed=false, exactly the exit condition of the Go loop (which therefore terminates). *)
Theorem Simplify_fixpoint : forall q, flatten (Simplify q) = (Simplify q, false).
Proof.
  intros q. unfold Simplify, simplify_fuel. apply flatten_loop_fixpoint.
  pose proof (nao_le_qsize (evalConstants q)). lia.
Qed.

(** More fuel never changes the result: Simplify is the limit of the unbounded loop. *)
Lemma flatten_loop_more_fuel : forall fuel q k,
  nao q < fuel -> flatten_loop (fuel + k) q = flatten_loop fuel q.
Proof.
  induction fuel as [|f IH]; intros q k Hlt; [lia|]. simpl.
  pose proof (flatten_decreases q) as Hd.
  destruct (flatten q) as [q' chg]. simpl in Hd.
  destruct chg; [|reflexivity]. apply IH. specialize (Hd eq_refl). lia.
Qed.
