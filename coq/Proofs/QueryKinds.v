(** Tie of the model's node kinds to the Go types of package query (Generated/C05QKinds.v is
    regenerated from /repo/query/*.go on every run of the check). *)
From ZV Require Import Lib.Base Model.Query Generated.C05QKinds.
Require Import Coq.Strings.String.
Open Scope string_scope.

(** the Go type a constructor of [Q] stands for *)
Definition q_kind (q : Q) : string :=
  match q with
  | QConst _ => "Const" | QSubstring _ _ _ _ => "Substring" | QRegexp _ _ _ _ => "Regexp"
  | QSymbol _ => "Symbol" | QCase _ => "caseQ" | QCaseScope _ => "caseScopeQ"
  | QLanguage _ => "Language" | QRepo _ => "Repo" | QRepoRegexp _ => "RepoRegexp"
  | QBranchesRepos _ => "BranchesRepos" | QRepoIDs _ => "RepoIDs" | QRepoSet _ => "RepoSet"
  | QFileNameSet _ => "FileNameSet" | QType _ _ => "Type" | QBoost _ _ => "Boost"
  | QBranch _ _ => "Branch" | QMeta _ _ => "Meta" | QRawConfig _ => "RawConfig"
  | QAnd _ => "And" | QOr _ => "Or" | QNot _ => "Not"
  end.

(** one representative per constructor *)
Definition q_reps : list Q :=
  let c := QConst true in
  let r := {| rx_src := []; rx_op := 2%N |} in
  [c; QSubstring [] false false false; QRegexp r false false false; QSymbol c; QCase []; QCaseScope c;
   QLanguage []; QRepo []; QRepoRegexp []; QBranchesRepos []; QRepoIDs []; QRepoSet []; QFileNameSet [];
   QType 0%N c; QBoost 0%N c; QBranch [] false; QMeta [] []; QRawConfig 0%N; QAnd []; QOr []; QNot c].

(** Go types with a String() method that never reach the rewrites: the parser's [A, or, B]
    placeholder (removed by parseOperators before a query leaves Parse) and the lexer token *)
Definition not_query_nodes : list string := ["orOperator"; "token"].

Definition kind_in (l : list string) (k : string) : bool := existsb (String.eqb k) l.

Lemma go_kinds_covered_by_model :
  forallb (kind_in (map q_kind q_reps ++ not_query_nodes)) c05_go_qkinds = true.
Proof. vm_compute. reflexivity. Qed.

Lemma model_kinds_exist_in_go :
  forallb (kind_in c05_go_qkinds) (map q_kind q_reps) = true.
Proof. vm_compute. reflexivity. Qed.
