(** C12 — orphan sidecars (a ".meta" without its shard, left by a run killed between removing a shard and its sidecar):
    the removal phase of Finish makes every run from a directory WITH such sidecars behave like the run from the directory
    without them. *)
From ZV Require Import Lib.Base Model.FsOps Model.FinishOps Proofs.FinishOps Proofs.FinishFaults.
From Coq Require Import Permutation.

Definition nofaultn : nat -> bool := fun _ => false.
Definition metas (po : list nat) : list name := map (fun n => Meta (SReg n)) po.

Lemma orphan_ops_remove po : orphan_ops po nofaultn = remove_ops (metas po).
Proof. unfold orphan_ops, remove_ops, metas. rewrite map_map. reflexivity. Qed.
Lemma orphan_ops_length po pf : length (orphan_ops po pf) = length po.
Proof. unfold orphan_ops. apply map_length. Qed.

(** extensionality of the tiny file system *)
Lemma apply_op_ext f g o : (forall x, f x = g x) -> forall x, apply_op f o x = apply_op g o x.
Proof.
  intros H x. destruct o as [o [|]]; [|cbn; destruct o; apply H].
  destruct o as [|t|t c|a b|a]; cbn; unfold upd.
  - apply H.
  - destruct (name_eqb x t); [reflexivity | apply H].
  - rewrite (H t). destruct (g t); [|apply H]. destruct (name_eqb x t); [reflexivity | apply H].
  - rewrite (H a). destruct (g a); [|apply H]. destruct (name_eqb x b); [reflexivity|]. destruct (name_eqb x a); [reflexivity | apply H].
  - destruct (name_eqb x a); [reflexivity | apply H].
Qed.
Lemma apply_ops_ext l : forall f g, (forall x, f x = g x) -> forall x, apply_ops l f x = apply_ops l g x.
Proof.
  induction l as [|o l IH]; intros f g H x; [apply H|].
  rewrite !apply_ops_cons. apply IH. apply apply_op_ext. exact H.
Qed.

(** operations on temp names act on temp names independently of the rest of the directory *)
Definition agree_tmp (f g : fs) : Prop := forall x, is_tmp x = true -> f x = g x.
Lemma tmp_sync_op f g o : tmp_only o = true -> agree_tmp f g -> agree_tmp (apply_op f o) (apply_op g o).
Proof.
  intros Ht H x Hx. destruct o as [o [|]]; [|cbn; destruct o; apply H; exact Hx].
  destruct o as [|t|t c|a b|a]; cbn in *; unfold upd.
  - apply H; exact Hx.
  - destruct (name_eqb x t); [reflexivity | apply H; exact Hx].
  - rewrite (H t Ht). destruct (g t); [|apply H; exact Hx]. destruct (name_eqb x t); [reflexivity | apply H; exact Hx].
  - apply andb_true_iff in Ht. destruct Ht as [Ha Hb]. rewrite (H a Ha). destruct (g a); [|apply H; exact Hx].
    destruct (name_eqb x b); [reflexivity|]. destruct (name_eqb x a); [reflexivity | apply H; exact Hx].
  - destruct (name_eqb x a); [reflexivity | apply H; exact Hx].
Qed.
Lemma tmp_sync l : forall f g, forallb tmp_only l = true -> agree_tmp f g -> agree_tmp (apply_ops l f) (apply_ops l g).
Proof.
  induction l as [|o l IH]; intros f g Hl H; [exact H|].
  cbn in Hl. apply andb_true_iff in Hl. destruct Hl as [Ho Hl]. rewrite !apply_ops_cons. apply IH; [exact Hl|].
  apply tmp_sync_op; assumption.
Qed.

Lemma fs0o_tmp b orph : agree_tmp (fs0o b orph) (fs0 b).
Proof. intros x Hx. destruct x as [s|s|s|s]; try discriminate; reflexivity. Qed.

Lemma fs0_meta_beyond b n : b_nold b <= n -> fs0 b (Meta (SReg n)) = None.
Proof. intro H. cbn [fs0]. destruct (Nat.ltb_spec n (b_nold b)); [lia | reflexivity]. Qed.
Lemma fs0_shard_beyond b n : b_nold b <= n -> fs0 b (Shard (SReg n)) = None.
Proof. intro H. cbn [fs0]. destruct (Nat.ltb_spec n (b_nold b)); [lia | reflexivity]. Qed.

Lemma mem_metas x po : memname x (metas po) = true <-> exists n, In n po /\ x = Meta (SReg n).
Proof.
  rewrite memname_In. unfold metas. rewrite in_map_iff. split; intros (n & A & B); exists n; [split; [exact B | symmetry; exact A] | split; [symmetry; exact B | exact A]].
Qed.

(** an orphan sidecar is invisible: the directory with orphans shows the old index *)
Lemma visible_fs0o b orph : view_eq (visible (fs0o b orph)) (view_old b).
Proof.
  intro s. unfold view_old, visible. destruct s as [|n]; [reflexivity|].
  cbn [fs0o]. destruct (fs0 b (Shard (SReg n))) eqn:Es; [|reflexivity].
  destruct (Nat.leb_spec (b_nold b) n) as [Hle|Hlt]; [|reflexivity].
  rewrite fs0_shard_beyond in Es by exact Hle. discriminate.
Qed.

(** (1) a kill anywhere up to the end of the orphan removal (any failures) shows the old index *)
Lemma orphan_prefix_old b orph w po pf rest k :
  forallb tmp_only w = true -> (forall n, In n po -> b_nold b <= n) -> k <= length w + length po ->
  view_eq (visible (apply_ops (firstn k (w ++ orphan_ops po pf ++ rest)) (fs0o b orph))) (view_old b).
Proof.
  intros Hw Hpo Hk.
  assert (E : firstn k (w ++ orphan_ops po pf ++ rest) = firstn k (w ++ orphan_ops po pf)).
  { rewrite app_assoc. apply firstn_app_le. rewrite app_length, orphan_ops_length. exact Hk. }
  rewrite E. clear E. rewrite firstn_app, apply_ops_app.
  set (f := apply_ops (firstn k w) (fs0o b orph)).
  assert (Hf : agree_nontmp f (fs0o b orph)).
  { apply apply_tmp_only; [apply forallb_firstn; exact Hw | apply agree_refl]. }
  (* every prefix of the removals only removes sidecars at slots >= nold *)
  assert (Hrel : forall l g, (forall n, In n l -> b_nold b <= n) ->
            forall x, is_tmp x = false ->
              apply_ops (firstn (k - length w) (orphan_ops l pf)) g x = g x \/
              (apply_ops (firstn (k - length w) (orphan_ops l pf)) g x = None /\ exists n, b_nold b <= n /\ x = Meta (SReg n))).
  { generalize (k - length w) as j. intros j l. revert j.
    induction l as [|n l IH]; intros j g Hl x Hx.
    - cbn. rewrite firstn_nil. left. reflexivity.
    - destruct j as [|j]; [left; reflexivity|]. cbn [orphan_ops map firstn]. rewrite apply_ops_cons.
      fold (orphan_ops l pf).
      destruct (IH j (apply_op g (ORemove (Meta (SReg n)), negb (pf n))) (fun m Hm => Hl m (or_intror Hm)) x Hx) as [E|E]; [|right; exact E].
      rewrite E. destruct (pf n); cbn [negb apply_op]; [left; reflexivity|].
      destruct (name_eqb x (Meta (SReg n))) eqn:En.
      + apply name_eqb_eq in En. subst x. right. split; [apply upd_same|]. exists n. split; [apply Hl; left; reflexivity | reflexivity].
      + apply name_eqb_neq in En. left. apply upd_other. exact En. }
  intro s. eapply eq_trans; [|apply (visible_fs0o b orph s)]. unfold visible.
  destruct (Hrel po f Hpo (Shard s) eq_refl) as [E|[_ (n & _ & E)]]; [|discriminate].
  rewrite E, (Hf (Shard s) eq_refl).
  destruct (fs0o b orph (Shard s)) eqn:Es; [|reflexivity].
  destruct (Hrel po f Hpo (Meta s) eq_refl) as [E2|[_ (n & Hn & E2)]].
  - rewrite E2, (Hf (Meta s) eq_refl). reflexivity.
  - inversion E2; subst s. cbn [fs0o] in Es. rewrite fs0_shard_beyond in Es by exact Hn. discriminate.
Qed.

(** (2) once every orphan at a new shard's name is removed (fault free), the run continues exactly as the run from the
    directory without orphans: every later crash state is pointwise the same *)
Lemma orphan_transfer b orph w po rest k :
  forallb tmp_only w = true ->
  (forall n, In n po -> b_nold b <= n) ->
  (forall n, In n orph -> b_nold b <= n -> In n po) ->
  length w + length po <= k ->
  forall x, apply_ops (firstn k (w ++ orphan_ops po nofaultn ++ rest)) (fs0o b orph) x =
            apply_ops (firstn (k - length po) (w ++ rest)) (fs0 b) x.
Proof.
  intros Hw Hpo Hcov Hk x.
  rewrite app_assoc. rewrite firstn_app_ge by (rewrite app_length, orphan_ops_length; exact Hk).
  rewrite (firstn_app_ge w rest) by lia.
  rewrite !apply_ops_app. rewrite app_length, orphan_ops_length.
  replace (k - (length w + length po)) with (k - length po - length w) by lia.
  apply apply_ops_ext. clear x. intro x.
  destruct (is_tmp x) eqn:Hx.
  - (* temp names: the removals do not touch them, phase W acts identically *)
    rewrite orphan_ops_remove, remove_phase.
    assert (En : memname x (metas po) = false).
    { apply memname_false. intro Hin. apply memname_In, mem_metas in Hin. destruct Hin as (n & _ & E). subst x. discriminate. }
    rewrite En. apply tmp_sync; [exact Hw | apply fs0o_tmp | exact Hx].
  - rewrite orphan_ops_remove, remove_phase.
    assert (Hf : agree_nontmp (apply_ops w (fs0o b orph)) (fs0o b orph)) by (apply apply_tmp_only; [exact Hw | apply agree_refl]).
    assert (Hg : agree_nontmp (apply_ops w (fs0 b)) (fs0 b)) by (apply apply_tmp_only; [exact Hw | apply agree_refl]).
    rewrite (Hf x Hx), (Hg x Hx).
    destruct (memname x (metas po)) eqn:Em.
    + apply mem_metas in Em. destruct Em as (n & Hn & E). subst x. symmetry. apply fs0_meta_beyond. apply Hpo. exact Hn.
    + destruct x as [s|[|n]|s|s]; try reflexivity. cbn [fs0o].
      destruct (Nat.leb_spec (b_nold b) n) as [Hle|Hlt]; [|reflexivity]. cbn [andb].
      destruct (memn n orph) eqn:Eo; [|reflexivity]. exfalso.
      assert (Hin : In n orph). { unfold memn in Eo. apply existsb_exists in Eo. destruct Eo as (m & Hm & E). apply Nat.eqb_eq in E. subst m. exact Hm. }
      apply memname_false in Em. apply Em. apply memname_In, mem_metas. exists n. split; [apply Hcov; assumption | reflexivity].
Qed.

(** (3) success => complete new index, from a directory with orphan sidecars *)
Definition po_ok (b : build) (orph po : list nat) : Prop :=
  (forall n, In n po -> b_nold b <= n) /\ (forall n, In n orph -> b_nold b <= n -> In n po).

Lemma finish_ops_o_ff b po ro dl rf df tf :
  finish_ops_o b po nofaultn ro dl rf df tf = orphan_ops po nofaultn ++ finish_ops b ro dl rf df tf.
Proof.
  unfold finish_ops_o, finish_ops, finish_ops_gen.
  assert (E : existsb nofaultn po = false) by (induction po as [|a l IH]; [reflexivity | exact IH]).
  rewrite E. reflexivity.
Qed.

Lemma success_complete_orphans b orph w po pf ro dl rf df tf :
  build_wf b -> forallb tmp_only w = true -> tmps_ready b (apply_ops w (fs0 b)) -> po_ok b orph po ->
  Permutation ro (artifacts b) -> Permutation dl (todel_after b ro rf) ->
  finish_err_o b po pf ro dl rf df tf = false ->
  view_eq (visible (apply_ops (w ++ finish_ops_o b po pf ro dl rf df tf) (fs0o b orph))) (view_new b).
Proof.
  intros Hwf Hw Hrdy [Hpo Hcov] Hro Hdl Herr.
  unfold finish_err_o in Herr. destruct (existsb pf po) eqn:Epf; [discriminate|]. cbn [orb] in Herr.
  destruct (existsb rf ro) eqn:Erf; [discriminate|].
  assert (Hpf : orphan_ops po pf = orphan_ops po nofaultn).
  { unfold orphan_ops. apply map_ext_in. intros n Hn. rewrite (existsb_false_forall _ _ Epf n Hn). reflexivity. }
  assert (Eops : finish_ops_o b po pf ro dl rf df tf = orphan_ops po nofaultn ++ finish_ops b ro dl rf df tf).
  { unfold finish_ops_o, finish_ops, finish_ops_gen. rewrite Epf, Erf, Hpf. reflexivity. }
  assert (Herr' : finish_err b ro dl rf df tf = false).
  { unfold finish_err, finish_err_gen. rewrite Erf. cbn [andb]. exact Herr. }
  pose proof (success_complete b w ro dl rf df tf Hwf Hw Hrdy Hro Hdl Herr') as Hnew.
  rewrite Eops.
  set (ops := w ++ orphan_ops po nofaultn ++ finish_ops b ro dl rf df tf).
  assert (Hpt : forall x, apply_ops ops (fs0o b orph) x = apply_ops (w ++ finish_ops b ro dl rf df tf) (fs0 b) x).
  { intro x. rewrite <- (firstn_all ops).
    rewrite <- (firstn_all (w ++ finish_ops b ro dl rf df tf)).
    unfold ops. rewrite (orphan_transfer b orph w po (finish_ops b ro dl rf df tf) _ Hw Hpo Hcov).
    - f_equal. f_equal. rewrite !app_length, orphan_ops_length. lia.
    - rewrite !app_length, orphan_ops_length. lia. }
  intro s. rewrite <- (Hnew s). unfold visible. rewrite !Hpt. reflexivity.
Qed.

(** with the orphan removal phase: every removal of a file under a name the loader reads still follows every install
    rename — except the removals of the orphan phase itself, which only remove sidecars without shard (invisible) *)
Lemma orphan_ops_no_install po pf o : In o (orphan_ops po pf) -> is_install_rename o = false.
Proof. unfold orphan_ops. intro H. apply in_map_iff in H. destruct H as (n & E & _). subst o. reflexivity. Qed.

Lemma deletes_after_renames_orphans b po pf ro dl rf df tf i j o1 o2 :
  (forall a, In a ro -> In a (artifacts b)) ->
  nth_error (finish_ops_o b po pf ro dl rf df tf) i = Some o1 -> is_removal o1 = true ->
  nth_error (finish_ops_o b po pf ro dl rf df tf) j = Some o2 -> is_install_rename o2 = true ->
  j < i \/ In o1 (orphan_ops po pf).
Proof.
  intros Hsub H1 Hr H2 Hi. unfold finish_ops_o in *.
  set (P := orphan_ops po pf) in *. set (R := rename_ops ro rf) in *.
  set (D := if existsb pf po || existsb rf ro then [] else delete_ops b dl df tf) in *.
  destruct (le_lt_dec (length P) i) as [HiP|HiP].
  2:{ right. rewrite nth_error_app1 in H1 by exact HiP. eapply nth_error_In; exact H1. }
  left.
  destruct (le_lt_dec (length P) j) as [HjP|HjP].
  2:{ rewrite nth_error_app1 in H2 by exact HjP. apply nth_error_In in H2. apply orphan_ops_no_install in H2. congruence. }
  rewrite nth_error_app2 in H1 by exact HiP. rewrite nth_error_app2 in H2 by exact HjP.
  destruct (le_lt_dec (length R) (j - length P)) as [Hj|Hj].
  - rewrite nth_error_app2 in H2 by exact Hj. apply nth_error_In in H2. subst D.
    destruct (existsb pf po || existsb rf ro); [contradiction|].
    apply delete_ops_no_install in H2. congruence.
  - destruct (le_lt_dec (length R) (i - length P)) as [Hi'|Hi']; [lia|].
    rewrite nth_error_app1 in H1 by exact Hi'. apply nth_error_In in H1.
    apply (rename_ops_no_removal b) in H1; [congruence | exact Hsub].
Qed.
