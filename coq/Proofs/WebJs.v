(** C36 — integrity of JS string literals under html/template's jsStrEscaper (Model/Web.v:esc_jsstr). *)
From Coq Require Import String.
From ZV Require Import Lib.Base Model.Web Model.WebJs Proofs.Web.
Open Scope N_scope.

Lemma js_units_app : forall q a b, js_units q a = true -> js_units q b = true -> js_units q (a ++ b) = true.
Proof.
  intros q a b Ha Hb.
  assert (H : forall n a, (length a <= n)%nat -> js_units q a = true -> js_units q (a ++ b) = true).
  { induction n as [|n IH]; intros a0 Hl Ha0.
    - destruct a0; [exact Hb | cbn in Hl; lia].
    - destruct a0 as [|x r]; [exact Hb|]. cbn [app js_units] in *.
      destruct (x =? 92).
      + destruct r as [|c r']; [discriminate Ha0|]. cbn [app].
        apply andb_true_iff in Ha0. destruct Ha0 as [Hc Hr]. rewrite Hc. cbn [andb].
        apply IH; [cbn in Hl; lia | exact Hr].
      + apply andb_true_iff in Ha0. destruct Ha0 as [Hp Hr]. rewrite Hp. cbn [andb].
        apply IH; [cbn in Hl; lia | exact Hr]. }
  apply (H (length a) a); [lia | exact Ha].
Qed.

Lemma js_units_lit : forall q, q <> 92 -> forall l rest, js_units q l = true -> js_lit q (l ++ q :: rest) = Some rest.
Proof.
  intros q Hq l rest.
  assert (H : forall n l, (length l <= n)%nat -> js_units q l = true -> js_lit q (l ++ q :: rest) = Some rest).
  { induction n as [|n IH]; intros l0 Hl Hu.
    - destruct l0; [cbn; rewrite N.eqb_refl; reflexivity | cbn in Hl; lia].
    - destruct l0 as [|x r]; [cbn; rewrite N.eqb_refl; reflexivity|].
      cbn [app js_lit]. cbn [js_units] in Hu.
      destruct (x =? 92) eqn:Hx.
      + apply N.eqb_eq in Hx. subst x.
        destruct (92 =? q) eqn:E; [apply N.eqb_eq in E; congruence|].
        replace ((92 =? 10) || (92 =? 13) || (92 =? 60)) with false by reflexivity. cbv iota.
        destruct r as [|c r']; [discriminate Hu|]. cbn [app].
        apply andb_true_iff in Hu. destruct Hu as [Hc Hr]. apply negb_true_iff in Hc. rewrite Hc.
        apply IH; [cbn in Hl; lia | exact Hr].
      + apply andb_true_iff in Hu. destruct Hu as [Hp Hr]. unfold js_plain in Hp. apply negb_true_iff in Hp.
        apply orb_false_iff in Hp. destruct Hp as [Hp H92]. apply orb_false_iff in Hp. destruct Hp as [Hp H60].
        apply orb_false_iff in Hp. destruct Hp as [Hp H13]. apply orb_false_iff in Hp. destruct Hp as [Hxq H10].
        rewrite Hxq, H10, H13, H60. cbn [orb]. cbv iota.
        apply IH; [cbn in Hl; lia | exact Hr]. }
  intros Hu. apply (H (length l) l); [lia | exact Hu].
Qed.

Lemma hexd_units : forall q n, q = 34 \/ q = 39 -> n < 16 -> js_plain q (hexd n) = true /\ (hexd n =? 92) = false.
Proof.
  intros q n Hq H. assert (E : exists k, (k < 16)%nat /\ n = N.of_nat k) by (exists (N.to_nat n); lia).
  destruct E as (k & Hk & ->).
  destruct Hq as [-> | ->];
    (do 16 (destruct k as [|k]; [vm_compute; split; reflexivity|]); lia).
Qed.

Lemma jsstr_tab_units : forall q b, q = 34 \/ q = 39 -> js_units q (jsstr_tab b) = true.
Proof.
  intros q b Hq. unfold jsstr_tab.
  repeat match goal with |- context [if ?b =? ?k then _ else _] => destruct (N.eqb_spec b k); [destruct Hq as [-> | ->]; vm_compute; reflexivity|] end.
  destruct (N.ltb_spec b 32) as [Hlt | Hge].
  { unfold hex2.
    destruct (hexd_units q (b / 16) Hq) as [P1 E1]; [apply N.div_lt_upper_bound; lia|].
    destruct (hexd_units q (b mod 16) Hq) as [P2 E2]; [apply N.mod_lt; lia|].
    change (str "\u00" ++ [hexd (b / 16); hexd (b mod 16)])%list with (92 :: 117 :: 48 :: 48 :: hexd (b / 16) :: hexd (b mod 16) :: []).
    cbn [js_units]. replace (92 =? 92) with true by reflexivity. cbv iota.
    replace (negb ((117 =? 10) || (117 =? 13))) with true by reflexivity. cbn [andb].
    replace (48 =? 92) with false by reflexivity. cbv iota.
    assert (P0 : js_plain q 48 = true) by (destruct Hq as [-> | ->]; reflexivity).
    rewrite P0, E1, E2, P1, P2. reflexivity. }
  repeat match goal with |- context [if ?b =? ?k then _ else _] => destruct (N.eqb_spec b k); [destruct Hq as [-> | ->]; vm_compute; reflexivity|] end.
  cbn [js_units]. 
  assert (E92 : (b =? 92) = false) by (apply N.eqb_neq; assumption). rewrite E92.
  unfold js_plain. rewrite andb_true_r. apply negb_true_iff.
  destruct Hq as [-> | ->];
    repeat match goal with H : ?x <> ?k |- _ => apply N.eqb_neq in H; rewrite ?H; clear H end; reflexivity.
Qed.

Lemma esc_jsstr_units : forall q, q = 34 \/ q = 39 -> forall s, js_units q (esc_jsstr s) = true.
Proof.
  intros q Hq.
  assert (H : forall n s, (length s <= n)%nat -> js_units q (esc_jsstr s) = true).
  { induction n as [|n IH]; intros s Hl.
    - destruct s; [reflexivity | cbn in Hl; lia].
    - destruct s as [|b r]; [reflexivity|]. cbn [esc_jsstr].
      assert (Hr : js_units q (jsstr_tab b ++ esc_jsstr r) = true).
      { apply js_units_app; [apply jsstr_tab_units; exact Hq | apply IH; cbn in Hl; lia]. }
      destruct r as [|b1 [|b2 r2]]; try exact Hr.
      destruct ((b =? 226) && (b1 =? 128) && ((b2 =? 168) || (b2 =? 169))); [|exact Hr].
      rewrite app_assoc. apply js_units_app; [|apply IH; cbn in Hl; lia].
      destruct (b2 =? 168); destruct Hq as [-> | ->]; vm_compute; reflexivity. }
  intros s. apply (H (length s) s). lia.
Qed.

(** JS-string integrity: a string literal whose content is the escaped value ends exactly where the template's closing
    quote is — whatever the value — and contains neither a line terminator nor a '<'. *)
Theorem jsstr_literal_integrity : forall q, q = 34 \/ q = 39 ->
  forall v rest, js_lit q (esc_jsstr v ++ q :: rest) = Some rest.
Proof.
  intros q Hq v rest. apply js_units_lit; [destruct Hq as [-> | ->]; discriminate | apply esc_jsstr_units; exact Hq].
Qed.
