(** Soundness of the C27 normaliser: [norm a] matches exactly what [a] matches, hence
    [norm a = norm b] implies that [a] and [b] match the same (text, start, end) triples. *)
From Coq Require Import List NArith Arith Bool Lia.
From ZV Require Import Model.Regex Proofs.RegexBasics.
Import ListNotations.

(** ------------------------------------------------------------------ classes *)

Lemma in_class_cons a b l c : in_class ((a, b) :: l) c = ((a <=? c)%N && (c <=? b)%N) || in_class l c.
Proof. reflexivity. Qed.
Lemma in_class_app a b c : in_class (a ++ b) c = in_class a c || in_class b c.
Proof. unfold in_class. apply existsb_app. Qed.

Lemma ins_range_in : forall l lo hi c, (lo <= hi)%N ->
  in_class (ins_range lo hi l) c = ((lo <=? c)%N && (c <=? hi)%N) || in_class l c.
Proof.
  induction l as [|[a b] l IH]; intros lo hi c Hle; simpl ins_range.
  - reflexivity.
  - destruct (hi + 1 <? a)%N eqn:E1; [reflexivity|].
    destruct (b + 1 <? lo)%N eqn:E2.
    + rewrite in_class_cons, IH by exact Hle. rewrite !in_class_cons.
      destruct ((a <=? c)%N && (c <=? b)%N), ((lo <=? c)%N && (c <=? hi)%N); reflexivity.
    + rewrite IH by lia. rewrite in_class_cons.
      apply N.ltb_ge in E1. apply N.ltb_ge in E2.
      destruct (in_class l c); [rewrite !orb_true_r; reflexivity|]. rewrite !orb_false_r.
      destruct (N.min lo a <=? c)%N eqn:F1, (c <=? N.max hi b)%N eqn:F2,
               (lo <=? c)%N eqn:F3, (c <=? hi)%N eqn:F4, (a <=? c)%N eqn:F5, (c <=? b)%N eqn:F6; simpl; try reflexivity;
      repeat match goal with
             | H : (_ <=? _)%N = true |- _ => apply N.leb_le in H
             | H : (_ <=? _)%N = false |- _ => apply N.leb_gt in H
             end; lia.
Qed.

Lemma canon_class_in rg c : in_class (canon_class rg) c = in_class rg c.
Proof.
  unfold canon_class. induction rg as [|[a b] rg IH]; simpl fold_right; [reflexivity|].
  cbn [fst snd]. destruct (a <=? b)%N eqn:E.
  - rewrite ins_range_in by (apply N.leb_le; exact E). rewrite IH. reflexivity.
  - rewrite IH, in_class_cons. apply N.leb_gt in E.
    destruct (a <=? c)%N eqn:F1, (c <=? b)%N eqn:F2; simpl; try reflexivity.
    apply N.leb_le in F1. apply N.leb_le in F2. lia.
Qed.

Lemma ranges_eqb_eq a b : ranges_eqb a b = true -> a = b.
Proof.
  unfold ranges_eqb. apply list_beq_eq. intros [x1 x2] [y1 y2] _ E. simpl in E.
  apply andb_true_iff in E. destruct E as [E1 E2]. apply N.eqb_eq in E1. apply N.eqb_eq in E2. subst; reflexivity.
Qed.

Section Sound.
Variable orbit : N -> list N.
Notation M := (m orbit).
Notation Mseq := (mseq orbit).
Notation Malt := (malt orbit).

Lemma m_class_ext a b t : (forall c, in_class a c = in_class b c) -> req (M (RClass a) t) (M (RClass b) t).
Proof.
  intros H i j. simpl. unfold step_m. split; intros (c & A & B & C); exists c; (split; [exact A|split; [|exact C]]);
  [rewrite <- H | rewrite H]; exact B.
Qed.

Lemma step_m_ext p q t i j : (forall c, p c = q c) -> step_m t p i j <-> step_m t q i j.
Proof.
  intros H. unfold step_m. split; intros (c & A & B & C); exists c; (split; [exact A|split; [|exact C]]);
  [rewrite <- H | rewrite H]; exact B.
Qed.

Lemma lit_class_in f r c : in_class (lit_class orbit f r) c = fold_eq orbit f r c.
Proof.
  unfold lit_class. rewrite canon_class_in, in_class_cons. unfold fold_eq.
  replace ((r <=? c)%N && (c <=? r)%N) with (r =? c)%N.
  2:{ destruct (r =? c)%N eqn:E.
      - apply N.eqb_eq in E; subst. rewrite N.leb_refl; reflexivity.
      - apply N.eqb_neq in E. destruct (r <=? c)%N eqn:F1, (c <=? r)%N eqn:F2; simpl; try reflexivity.
        apply N.leb_le in F1. apply N.leb_le in F2. lia. }
  f_equal. destruct f; cbn [andb]; [|reflexivity].
  induction (orbit r) as [|x l IH]; cbn [map existsb]; [reflexivity|].
  rewrite in_class_cons, IH. f_equal.
  destruct (c =? x)%N eqn:E.
  - apply N.eqb_eq in E; subst. rewrite N.leb_refl; reflexivity.
  - apply N.eqb_neq in E. destruct (x <=? c)%N eqn:F1, (c <=? x)%N eqn:F2; simpl; try reflexivity.
    apply N.leb_le in F1. apply N.leb_le in F2. lia.
Qed.

(** ------------------------------------------------------------------ smart constructors *)

Lemma splice_sound (l : list re) t :
  req (Mseq (flat_map (fun x => match x with RConcat ys => ys | REmpty => [] | _ => [x] end) l) t) (Mseq l t).
Proof.
  induction l as [|x l IH]; intros i j; [simpl; tauto|].
  simpl flat_map. rewrite mseq_app. simpl mseq.
  assert (Hx : forall i k, Mseq (match x with RConcat ys => ys | REmpty => [] | _ => [x] end) t i k <-> M x t i k).
  { intros i0 k. destruct x; try apply mseq_single.
    - simpl. tauto.
    - symmetry. apply m_concat. }
  split; intros (k & A & B); exists k; (split; [apply Hx; exact A | apply IH; exact B]).
Qed.

Lemma mk_concat_sound l t : req (M (mk_concat l) t) (Mseq l t).
Proof.
  unfold mk_concat. eapply req_trans; [|apply splice_sound].
  set (l' := flat_map _ l). clearbody l'. intros i j.
  destruct l' as [|x [|y l'']].
  - simpl. tauto.
  - symmetry. apply mseq_single.
  - apply m_concat.
Qed.

Lemma mk_alt_plain_sound l t : req (M (mk_alt_plain l) t) (Malt l t).
Proof.
  intros i j. unfold mk_alt_plain, malt. destruct l as [|x [|y l]].
  - simpl. unfold step_m. split. + intros (c & _ & B & _). discriminate. + intros (a & [] & _).
  - split. + intros H; exists x; simpl; auto. + intros (a & [->|[]] & H); exact H.
  - apply m_alt.
Qed.

Lemma mk_star_sound x t : req (M (mk_star x) t) (rstar (M x t)).
Proof.
  destruct x; try apply m_star.
  - intros i j. simpl. symmetry. apply (rep_eq 0 None i j). exact I.
  - eapply req_trans; [apply m_star|]. apply req_sym. eapply req_trans; [apply rep_ext, m_star|]. apply star_star.
  - eapply req_trans; [apply m_star|]. apply req_sym. eapply req_trans; [apply rep_ext, m_plus|]. apply star_plus.
  - eapply req_trans; [apply m_star|]. apply req_sym. eapply req_trans; [apply rep_ext, m_quest|]. apply star_quest.
Qed.
Lemma mk_plus_sound x t : req (M (mk_plus x) t) (rplus (M x t)).
Proof.
  destruct x; try apply m_plus.
  - intros i j. simpl. symmetry. apply (rep_eq 1 None i j). exact I.
  - eapply req_trans; [apply m_star|]. apply req_sym. eapply req_trans; [apply rep_ext, m_star|]. apply plus_of_star.
  - eapply req_trans; [apply m_plus|]. apply req_sym. eapply req_trans; [apply rep_ext, m_plus|]. apply plus_plus.
  - eapply req_trans; [apply m_star|]. apply req_sym. eapply req_trans; [apply rep_ext, m_quest|]. apply plus_quest.
Qed.
Lemma mk_quest_sound x t : req (M (mk_quest x) t) (rquest (M x t)).
Proof.
  destruct x; try apply m_quest.
  - intros i j. simpl. unfold rquest. tauto.
  - eapply req_trans; [apply m_star|]. apply req_sym. eapply req_trans; [apply rquest_ext, m_star|]. apply quest_star.
  - eapply req_trans; [apply m_star|]. apply req_sym. eapply req_trans; [apply rquest_ext, m_plus|]. apply quest_plus.
  - eapply req_trans; [apply m_quest|]. apply req_sym. eapply req_trans; [apply rquest_ext, m_quest|]. apply quest_quest.
Qed.

Lemma opt_suffix_sound x k t : req (M (opt_suffix x k) t) (rep (M x t) 0 (Some (S k))).
Proof.
  induction k as [|k IH]; simpl opt_suffix.
  - eapply req_trans; [apply mk_quest_sound|]. apply rquest_rep.
  - eapply req_trans; [apply mk_quest_sound|]. intros i j. unfold rquest.
    rewrite (mk_concat_sound [x; opt_suffix x k] t i j). simpl mseq. split.
    + intros [->|(k1 & A & k2 & B & ->)].
      * exists 0. simpl. repeat split; lia.
      * apply IH in B. destruct B as (n & _ & Hn & B). exists (S n). repeat split; try lia. exists k1; auto.
    + intros (n & _ & Hn & H). destruct n as [|n]; [left; exact H|]. right.
      simpl in H. destruct H as (k1 & A & B). exists k1. split; [exact A|]. exists j. split; [|reflexivity].
      apply IH. exists n. repeat split; try lia. exact B.
Qed.

Lemma expand_sound mn mx x t : req (M (expand mn mx x) t) (rep (M x t) mn mx).
Proof.
  unfold expand. destruct mx as [mxv|].
  - destruct ((mn =? 0) && (mxv =? 0)) eqn:E0.
    { apply andb_true_iff in E0. destruct E0 as [E1 E2]. apply Nat.eqb_eq in E1. apply Nat.eqb_eq in E2. subst.
      intros i j. simpl. split.
      - intros ->. exists 0. simpl. repeat split; lia.
      - intros (n & _ & Hn & H). destruct n; [exact H | lia]. }
    destruct (mxv <? mn) eqn:E1.
    { apply Nat.ltb_lt in E1. intros i j. simpl. unfold step_m. split.
      - intros (c & _ & B & _); discriminate.
      - intros (n & A & B & _). lia. }
    apply Nat.ltb_ge in E1. destruct (mxv - mn) as [|k] eqn:Ek.
    + assert (mxv = mn) by lia. subst mxv. eapply req_trans; [apply mk_concat_sound|]. intros i j.
      rewrite mseq_repeat. split.
      * intros H. exists mn. repeat split; try lia. exact H.
      * intros (n & A & B & H). assert (n = mn) by lia. subst; exact H.
    + eapply req_trans; [apply mk_concat_sound|]. intros i j. rewrite mseq_app. split.
      * intros (k1 & A & B). apply mseq_repeat in A. apply mseq_single in B. apply opt_suffix_sound in B.
        destruct B as (n & _ & Hn & B). exists (mn + n). repeat split; try lia. apply pow_add. exists k1; auto.
      * intros (n & A & B & H). replace n with (mn + (n - mn)) in H by lia. apply pow_add in H.
        destruct H as (k1 & H1 & H2). exists k1. split; [apply mseq_repeat; exact H1|].
        apply mseq_single. apply opt_suffix_sound. exists (n - mn). repeat split; try lia. exact H2.
  - destruct mn as [|[|n']].
    + apply mk_star_sound.
    + apply mk_plus_sound.
    + eapply req_trans; [apply mk_concat_sound|]. intros i j. rewrite mseq_app. split.
      * intros (k1 & A & B). apply mseq_repeat in A. apply mseq_single in B. apply mk_plus_sound in B.
        destruct B as (n & Hn & _ & B). exists (S n' + n). repeat split; try lia. apply pow_add. exists k1; auto.
      * intros (n & A & _ & H). replace n with (S n' + (n - S n')) in H by lia. apply pow_add in H.
        destruct H as (k1 & H1 & H2). exists k1. split; [apply mseq_repeat; exact H1|].
        apply mseq_single. apply mk_plus_sound. exists (n - S n'). repeat split; try lia. exact H2.
Qed.

(** ------------------------------------------------------------------ alternation normal form *)

Definition mseqs (l : list (list re)) (t : list N) (i j : nat) : Prop := exists s, In s l /\ Mseq s t i j.

Lemma insert_by_in {A} (leb : A -> A -> bool) x l y : In y (insert_by leb x l) <-> y = x \/ In y l.
Proof.
  induction l as [|z l IH]; simpl.
  - intuition.
  - destruct (leb x z); simpl; [intuition|]. rewrite IH. intuition.
Qed.
Lemma sort_by_in {A} (leb : A -> A -> bool) l y : In y (sort_by leb l) <-> In y l.
Proof.
  unfold sort_by. induction l as [|x l IH]; simpl; [tauto|]. rewrite insert_by_in, IH. intuition.
Qed.

Lemma as_seq_sound x t : req (Mseq (as_seq x) t) (M x t).
Proof.
  intros i j. destruct x; try apply mseq_single.
  - simpl. tauto.
  - symmetry. apply m_concat.
Qed.
Lemma as_alts_sound x t : req (Malt (as_alts x) t) (M x t).
Proof.
  intros i j. destruct x; try (unfold malt, as_alts; split; [intros (a & [<-|[]] & H); exact H | intros H; eexists; split; [left; reflexivity | exact H]]).
  symmetry. apply m_alt.
Qed.

Lemma seqs0_sound alts t : req (mseqs (map as_seq (flat_map as_alts alts)) t) (Malt alts t).
Proof.
  intros i j. unfold mseqs, malt. split.
  - intros (s & Hs & H). apply in_map_iff in Hs. destruct Hs as (x & <- & Hx).
    apply in_flat_map in Hx. destruct Hx as (a & Ha & Hx). exists a. split; [exact Ha|].
    apply as_alts_sound. exists x. split; [exact Hx|]. apply as_seq_sound. exact H.
  - intros (a & Ha & H). apply as_alts_sound in H. destruct H as (x & Hx & H).
    exists (as_seq x). split; [|apply as_seq_sound; exact H].
    apply in_map. apply in_flat_map. exists a; auto.
Qed.

Lemma split_class_sound cuts rg c : existsb (fun piece => in_class piece c) (split_class cuts rg) = in_class rg c.
Proof.
  unfold split_class. set (pieces := flat_map _ rg).
  destruct (ranges_eqb (canon_class pieces) (canon_class rg)) eqn:E.
  - apply ranges_eqb_eq in E. rewrite <- (canon_class_in rg), <- E, canon_class_in.
    clear E. induction pieces as [|p l IH]; simpl; [reflexivity|]. rewrite IH. rewrite orb_false_r. reflexivity.
  - simpl. apply orb_false_r.
Qed.

Lemma split_head_sound cuts s t : req (mseqs (split_head cuts s) t) (Mseq s t).
Proof.
  intros i j. unfold mseqs. destruct s as [|h tl].
  - simpl. split. + intros (s & [<-|[]] & H); exact H. + intros H; exists []; auto.
  - assert (Hdef : (exists s, In s [h :: tl] /\ Mseq s t i j) <-> Mseq (h :: tl) t i j).
    { split. + intros (s & [<-|[]] & H); exact H. + intros H; eexists; split; [left; reflexivity | exact H]. }
    destruct h; try exact Hdef. clear Hdef. simpl split_head. split.
    + intros (s & Hs & H). apply in_map_iff in Hs. destruct Hs as (piece & <- & Hp).
      simpl in H. destruct H as (k & (c & A & B & C) & D). simpl. exists k. split; [|exact D].
      exists c. split; [exact A|]. split; [|exact C].
      rewrite <- (split_class_sound cuts rg c). apply existsb_exists. exists piece; auto.
    + simpl. intros (k & (c & A & B & C) & D).
      rewrite <- (split_class_sound cuts rg c) in B. apply existsb_exists in B. destruct B as (piece & Hp & B).
      exists (RClass piece :: tl). split; [apply (in_map (fun pc => RClass pc :: tl)); exact Hp|].
      simpl. exists k. split; [|exact D]. exists c; auto.
Qed.

Lemma flat_map_split_sound cuts l t : req (mseqs (flat_map (split_head cuts) l) t) (mseqs l t).
Proof.
  intros i j. unfold mseqs at 1 2. split.
  - intros (s & Hs & H). apply in_flat_map in Hs. destruct Hs as (s0 & Hs0 & Hs).
    exists s0. split; [exact Hs0|]. apply (split_head_sound cuts s0 t). exists s; auto.
  - intros (s0 & Hs0 & H). apply (split_head_sound cuts s0 t) in H. destruct H as (s & Hs & H).
    exists s. split; [|exact H]. apply in_flat_map. exists s0; auto.
Qed.

(** semantics of a group / an item *)
Definition mgroup (g : option re * list (list re)) (t : list N) (i j : nat) : Prop :=
  match g with
  | (None, sf) => sf <> [] /\ i = j
  | (Some h, sf) => exists k, M h t i k /\ mseqs sf t k j
  end.
Definition mgroups (gs : list (option re * list (list re))) t i j : Prop := exists g, In g gs /\ mgroup g t i j.

Lemma group_sound l t : req (mgroups (group l) t) (mseqs l t).
Proof.
  induction l as [|s l IH]; intros i j.
  - simpl. unfold mgroups, mseqs. split; [intros (g & [] & _) | intros (s & [] & _)].
  - assert (Hcons : mseqs (s :: l) t i j <-> Mseq s t i j \/ mgroups (group l) t i j).
    { rewrite (IH i j). unfold mseqs. simpl. split.
      - intros (s0 & [<-|H0] & H); [left; exact H | right; exists s0; auto].
      - intros [H|(s0 & H0 & H)]; [exists s; auto | exists s0; auto]. }
    rewrite Hcons. clear Hcons IH. simpl group. set (g := group l). clearbody g. unfold mgroups.
    destruct s as [|h tl].
    + (* empty sequence *)
      destruct g as [|[[h'|] sf] g'].
      * simpl. split.
        -- intros (g0 & [<-|[]] & (_ & H)). left; exact H.
        -- intros [H|(g0 & [] & _)]. eexists; split; [left; reflexivity|]. split; [discriminate | exact H].
      * simpl. split.
        -- intros (g0 & [<-|Hg] & H).
           ++ left. apply H.
           ++ right. exists g0; auto.
        -- intros [H|(g0 & Hg & H)].
           ++ eexists; split; [left; reflexivity|]. split; [discriminate | exact H].
           ++ exists g0; auto.
      * simpl. split.
        -- intros (g0 & [<-|Hg] & H).
           ++ destruct H as (_ & H). left; exact H.
           ++ right. exists g0; auto.
        -- intros [H|(g0 & [<-|Hg] & H)].
           ++ eexists; split; [left; reflexivity|]. split; [discriminate | exact H].
           ++ destruct H as (_ & H). eexists; split; [left; reflexivity|]. split; [discriminate | exact H].
           ++ exists g0; auto.
    + (* sequence with a head *)
      assert (Hnew : forall G, (exists g0, In g0 ((Some h, [tl]) :: G) /\ mgroup g0 t i j)
                               <-> Mseq (h :: tl) t i j \/ (exists g0, In g0 G /\ mgroup g0 t i j)).
      { intros G. split.
        - intros (g0 & [<-|Hg] & H).
          + left. destruct H as (k & A & (s0 & [<-|[]] & B)). exists k; auto.
          + right; exists g0; auto.
        - intros [(k & A & B)|(g0 & Hg & H)].
          + eexists; split; [left; reflexivity|]. exists k. split; [exact A|]. exists tl; simpl; auto.
          + exists g0; simpl; auto. }
      destruct g as [|[[h'|] sf] g']; try apply Hnew.
      destruct (re_eqb h h') eqn:E; [|apply Hnew].
      apply re_eqb_eq in E. subst h'. split.
      * intros (g0 & [<-|Hg] & H).
        -- destruct H as (k & A & (s0 & [<-|Hs] & B)).
           ++ left. exists k; auto.
           ++ right. eexists; split; [left; reflexivity|]. exists k. split; [exact A|]. exists s0; auto.
        -- right. exists g0; simpl; auto.
      * intros [(k & A & B)|(g0 & [<-|Hg] & H)].
        -- eexists; split; [left; reflexivity|]. exists k. split; [exact A|]. exists tl; simpl; auto.
        -- destruct H as (k & A & (s0 & Hs & B)). eexists; split; [left; reflexivity|].
           exists k. split; [exact A|]. exists s0; simpl; auto.
        -- exists g0; simpl; auto.
Qed.

Lemma group_none_nonempty l sf : In (None, sf) (group l) -> sf <> [].
Proof.
  induction l as [|s l IHl]; simpl; [tauto|].
  destruct s as [|h tl].
  - destruct (group l) as [|[[h'|] sf'] g'] eqn:G; simpl.
    + intros [E|[]]. injection E as <-. discriminate.
    + intros [E|E]. * injection E as <-. discriminate. * apply IHl. exact E.
    + intros [E|E]. * injection E as <-. discriminate. * apply IHl. right; exact E.
  - destruct (group l) as [|[[h'|] sf'] g'] eqn:G; simpl.
    + intros [E|[]]; discriminate.
    + destruct (re_eqb h h'); simpl; intros [E|E]; try discriminate.
      * apply IHl; right; exact E.
      * apply IHl; exact E.
    + intros [E|E]; try discriminate. apply IHl; exact E.
Qed.

Definition mitem (it : item) (t : list N) (i j : nat) : Prop :=
  match it with
  | (None, _) => i = j
  | (Some h, s) => exists k, M h t i k /\ M s t k j
  end.
Definition mitems (l : list item) t i j : Prop := exists it, In it l /\ mitem it t i j.

Lemma item_re_sound it t : req (M (item_re it) t) (mitem it t).
Proof.
  destruct it as [[h|] s]; intros i j; simpl item_re; simpl mitem.
  - rewrite (mk_concat_sound [h; s] t i j). simpl. split.
    + intros (k & A & k2 & B & ->). exists k; auto.
    + intros (k & A & B). exists k. split; [exact A|]. exists j; auto.
  - simpl. tauto.
Qed.

Lemma merge_items_sound l t : req (mitems (merge_items l) t) (mitems l t).
Proof.
  induction l as [|it l IH]; intros i j; [simpl; tauto|].
  assert (Hcons : forall x L, mitems (x :: L) t i j <-> mitem x t i j \/ mitems L t i j).
  { intros x L. unfold mitems. simpl. split.
    - intros (y & [<-|Hy] & H); [left; exact H | right; exists y; auto].
    - intros [H|(y & Hy & H)]; [exists x; auto | exists y; auto]. }
  assert (Hdef : mitems (it :: merge_items l) t i j <-> mitems (it :: l) t i j).
  { rewrite !Hcons, (IH i j). tauto. }
  destruct it as [[h|] s1]; [|exact Hdef].
  destruct h; try exact Hdef. simpl merge_items. clear Hdef.
  rewrite (Hcons (Some (RClass rg), s1) l), <- (IH i j). clear IH.
  destruct (merge_items l) as [|[[h2|] s2] l'']; try (rewrite !Hcons; tauto).
  destruct h2; try (rewrite !Hcons; tauto).
  destruct (re_eqb s1 s2) eqn:E; [|rewrite !Hcons; tauto].
  apply re_eqb_eq in E. subst s2. rewrite !Hcons. simpl mitem.
  assert (Hu : (exists k, M (RClass (canon_class (rg ++ rg0))) t i k /\ M s1 t k j)
               <-> (exists k, M (RClass rg) t i k /\ M s1 t k j) \/ (exists k, M (RClass rg0) t i k /\ M s1 t k j)).
  { simpl. unfold step_m. split.
    - intros (k & (c & A & B & C) & D). rewrite canon_class_in, in_class_app in B.
      apply orb_true_iff in B. destruct B as [B|B]; [left | right]; exists k; (split; [exists c; auto | exact D]).
    - intros [(k & (c & A & B & C) & D)|(k & (c & A & B & C) & D)]; exists k; (split; [|exact D]); exists c;
      (split; [exact A|]); (split; [|exact C]); rewrite canon_class_in, in_class_app, B; [reflexivity | apply orb_true_r]. }
  rewrite Hu. tauto.
Qed.

Lemma nalt_sound : forall fuel alts t, req (M (nalt fuel alts) t) (Malt alts t).
Proof.
  induction fuel as [|fu IH]; intros alts t.
  - apply mk_alt_plain_sound.
  - simpl nalt.
    set (seqs0 := map as_seq (flat_map as_alts alts)).
    set (seqs := sort_by seq_leb (flat_map (split_head (cuts_of seqs0)) seqs0)).
    set (f := fun g : option re * list (list re) =>
                match g with
                | (None, _) => (None, REmpty)
                | (Some h, [s]) => (Some h, mk_concat s)
                | (Some h, sfx) => (Some h, nalt fu (map mk_concat sfx))
                end).
    (* chain of equivalences *)
    eapply req_trans; [apply mk_alt_plain_sound|].
    assert (H1 : req (Malt (sort_by re_leb (map item_re (merge_items (sort_by item_leb (map f (group seqs)))))) t)
                     (mitems (map f (group seqs)) t)).
    { intros i j. unfold malt, mitems. split.
      - intros (a & Ha & H). apply sort_by_in in Ha. apply in_map_iff in Ha. destruct Ha as (it & <- & Hit).
        apply item_re_sound in H.
        assert (Hm : mitems (merge_items (sort_by item_leb (map f (group seqs)))) t i j) by (exists it; auto).
        apply (proj1 (merge_items_sound _ t i j)) in Hm. destruct Hm as (it2 & Hit2 & H2). apply sort_by_in in Hit2. exists it2; auto.
      - intros (it & Hit & H).
        assert (Hm : mitems (sort_by item_leb (map f (group seqs))) t i j) by (exists it; split; [apply sort_by_in; exact Hit | exact H]).
        apply (proj2 (merge_items_sound _ t i j)) in Hm. destruct Hm as (it2 & Hit2 & H2).
        exists (item_re it2). split; [apply sort_by_in; apply in_map; exact Hit2 | apply item_re_sound; exact H2]. }
    eapply req_trans; [exact H1|]. clear H1.
    assert (Hf : forall g, In g (group seqs) -> req (mitem (f g) t) (mgroup g t)).
    { intros [[h|] sf] Hg i j; unfold f.
      - assert (Hgen : forall S, req (M S t) (Malt (map mk_concat sf) t) -> mitem (Some h, S) t i j <-> mgroup (Some h, sf) t i j).
        { intros S HS. simpl. split; intros (k & A & B); exists k; (split; [exact A|]).
          - apply HS in B. destruct B as (a & Ha & B). apply in_map_iff in Ha. destruct Ha as (s & <- & Hs).
            exists s. split; [exact Hs | apply mk_concat_sound; exact B].
          - destruct B as (s & Hs & B). apply HS. exists (mk_concat s). split; [apply in_map; exact Hs | apply mk_concat_sound; exact B]. }
        destruct sf as [|s [|s2 sf']].
        + apply Hgen. apply IH.
        + simpl. split; intros (k & A & B); exists k; (split; [exact A|]).
          * exists s. split; [left; reflexivity | apply mk_concat_sound; exact B].
          * destruct B as (s0 & [<-|[]] & B). apply mk_concat_sound; exact B.
        + apply Hgen. apply IH.
      - simpl. split.
        + intros ->. split; [|reflexivity]. apply (group_none_nonempty seqs); exact Hg.
        + intros (_ & H); exact H. }
    assert (H2 : req (mitems (map f (group seqs)) t) (mgroups (group seqs) t)).
    { intros i j. unfold mitems, mgroups. split.
      - intros (it & Hit & H). apply in_map_iff in Hit. destruct Hit as (g & <- & Hg). exists g. split; [exact Hg|]. apply Hf; assumption.
      - intros (g & Hg & H). exists (f g). split; [apply in_map; exact Hg|]. apply Hf; assumption. }
    eapply req_trans; [exact H2|]. clear H2 Hf.
    eapply req_trans; [apply group_sound|].
    eapply req_trans; [|apply seqs0_sound]. fold seqs0.
    eapply req_trans; [|apply (flat_map_split_sound (cuts_of seqs0))].
    intros i j. unfold mseqs, seqs. split; intros (s & Hs & H); exists s; (split; [|exact H]); apply sort_by_in in Hs || apply sort_by_in; exact Hs.
Qed.

Lemma mk_alt_sound l t : req (M (mk_alt l) t) (Malt l t).
Proof. apply nalt_sound. Qed.

(** ------------------------------------------------------------------ the normaliser *)

Theorem norm_sound_m : forall a t, req (M (norm orbit a) t) (M a t).
Proof.
  induction a using re_ind2; intros t.
  - (* leaves *)
    destruct a; try contradiction; try exact (req_refl _).
    + (* RNoMatch *) intros i j. simpl. unfold step_m. split; [intros (c & _ & B & _); discriminate | tauto].
    + (* RLit *)
      simpl norm. eapply req_trans; [apply mk_concat_sound|]. intros i j. simpl M.
      revert i. induction rs as [|r rs IH]; intros i; simpl; [tauto|]. split.
      * intros (k & (c & A & B & ->) & D). exists c. split; [exact A|]. rewrite lit_class_in in B. split; [exact B|]. apply IH; exact D.
      * intros (c & A & B & D). exists (S i). split; [|apply IH; exact D]. exists c. rewrite lit_class_in. auto.
    + (* RClass *) simpl norm. apply m_class_ext. intros c. apply canon_class_in.
    + (* RAny *) intros i j. simpl. apply step_m_ext. intros c. unfold in_class, any_rune. simpl.
      rewrite orb_false_r. destruct c; reflexivity.
    + (* RAnyNotNL *) intros i j. simpl. apply step_m_ext. intros c. unfold in_class, any_rune_not_nl, max_rune. simpl.
      rewrite orb_false_r.
      destruct (c <=? 9)%N eqn:F1, (11 <=? c)%N eqn:F2, (c <=? 1114111)%N eqn:F3, (c =? 10)%N eqn:F4;
      destruct c; simpl; try reflexivity;
      repeat match goal with
             | H : (_ <=? _)%N = true |- _ => apply N.leb_le in H
             | H : (_ <=? _)%N = false |- _ => apply N.leb_gt in H
             | H : (_ =? _)%N = true |- _ => apply N.eqb_eq in H
             | H : (_ =? _)%N = false |- _ => apply N.eqb_neq in H
             end; try lia.
  - simpl norm. eapply req_trans; [apply IHa|]. intros i j. simpl. tauto.
  - simpl norm. eapply req_trans; [apply mk_star_sound|]. apply req_sym. eapply req_trans; [apply m_star|]. apply rep_ext, req_sym, IHa.
  - simpl norm. eapply req_trans; [apply mk_plus_sound|]. apply req_sym. eapply req_trans; [apply m_plus|]. apply rep_ext, req_sym, IHa.
  - simpl norm. eapply req_trans; [apply mk_quest_sound|]. apply req_sym. eapply req_trans; [apply m_quest|]. apply rquest_ext, req_sym, IHa.
  - simpl norm. eapply req_trans; [apply expand_sound|]. apply req_sym. eapply req_trans; [apply m_repeat|]. apply rep_ext, req_sym, IHa.
  - simpl norm. eapply req_trans; [apply mk_concat_sound|]. apply req_sym. eapply req_trans; [intros i j; apply m_concat|].
    apply mseq_ext. induction H as [|x xs Hx _ IH]; simpl; constructor; [apply req_sym, Hx | exact IH].
  - simpl norm. eapply req_trans; [apply mk_alt_sound|]. apply req_sym. eapply req_trans; [intros i j; apply m_alt|].
    intros i j. unfold malt. rewrite Forall_forall in H. split.
    + intros (a & Ha & Hm). exists (norm orbit a). split; [apply in_map; exact Ha | apply H; assumption].
    + intros (a & Ha & Hm). apply in_map_iff in Ha. destruct Ha as (x & <- & Hx). exists x. split; [exact Hx | apply H; assumption].
Qed.

Theorem norm_sound_lang : forall a b, norm orbit a = norm orbit b -> lang_eq orbit a b.
Proof.
  intros a b E t i j. rewrite <- (norm_sound_m a t i j), <- (norm_sound_m b t i j), E. tauto.
Qed.

End Sound.
