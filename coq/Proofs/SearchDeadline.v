(** The MaxWallTime deadline bounds the whole search (abstract time), for every schedule of the worker pool. *)
From ZV Require Import Lib.Base Model.SearchDeadline.
From Coq Require Import ZifyBool ZifyNat ZifyN.

Definition all_by (B : N) (free : list (option N)) : Prop := Forall (fun f => exists t, f = Some t /\ (t <= B)%N) free.

Lemma set_at_all {A} (P : A -> Prop) (l : list A) : forall i x, Forall P l -> P x -> Forall P (set_at i x l).
Proof.
  induction l as [|y l IH]; intros i x Hl Hx; [destruct i; constructor|].
  inversion Hl; subst. destruct i; simpl; constructor; auto.
Qed.

Lemma shard_end_by (dl t B : N) (w : option N) :
  (t <= B)%N -> (dl <= B)%N -> exists e, shard_end (Some dl) t w = Some e /\ (e <= B)%N.
Proof. intros Ht Hd. destruct w as [d|]; simpl; eexists; split; try reflexivity; lia. Qed.

Lemma pool_by (dl B : N) (ws : list (option N)) : forall free sched,
  (dl <= B)%N -> all_by B free -> all_by B (pool (Some dl) free ws sched).
Proof.
  induction ws as [|w ws IH]; intros free sched Hd Hf; simpl; [exact Hf|].
  apply IH; [exact Hd|].
  set (i := match sched with j :: _ => if j <? length free then j else 0 | [] => 0 end).
  destruct (nth_error free i) as [[t|]|] eqn:E; try exact Hf.
  apply set_at_all; [exact Hf|].
  assert (Ht : (t <= B)%N).
  { unfold all_by in Hf. rewrite Forall_forall in Hf. destruct (Hf _ (nth_error_In _ _ E)) as [t' [E' Ht']].
    inversion E'; subst. exact Ht'. }
  apply shard_end_by; assumption.
Qed.

Lemma repeat_all (B now : N) (n : nat) : (now <= B)%N -> all_by B (repeat (Some now) n).
Proof. intros H. induction n; simpl; constructor; [eexists; split; [reflexivity|exact H]|assumption]. Qed.

(** the context the shards get fires no later than MaxWallTime after the start (and no later than the caller's) *)
Lemma repo_shard_ctx_deadline (caller : ctxd) (now mwt : N) :
  mwt <> 0%N -> exists dl, shard_ctx repo_wiring caller now mwt = Some dl /\ (dl <= now + mwt)%N /\
                           (forall cd, caller = Some cd -> (dl <= cd)%N).
Proof.
  intros H. unfold shard_ctx, repo_wiring, stream_ctx. destruct (N.eqb mwt 0) eqn:E; [lia|].
  unfold with_timeout, ctx_min. destruct caller as [cd|].
  - exists (N.min cd (now + mwt)). split; [reflexivity|]. split; [lia|]. intros cd' Hc. inversion Hc; lia.
  - exists (now + mwt)%N. split; [reflexivity|]. split; [lia|]. intros cd Hc. discriminate.
Qed.

Lemma timed_out_search_finishes (caller : ctxd) (now mwt : N) (nworkers : nat) (ws : list (option N)) (sched : list nat) :
  mwt <> 0%N ->
  all_by (now + mwt) (pool (shard_ctx repo_wiring caller now mwt) (repeat (Some now) nworkers) ws sched).
Proof.
  intros H. destruct (repo_shard_ctx_deadline caller now mwt H) as [dl [E [Hd _]]]. rewrite E.
  apply pool_by; [exact Hd|]. apply repeat_all. lia.
Qed.

(** a caller's deadline / cancellation instant bounds the search as well, whatever MaxWallTime is *)
Lemma cancelled_search_finishes (cd now mwt : N) (nworkers : nat) (ws : list (option N)) (sched : list nat) :
  all_by (N.max now cd) (pool (shard_ctx repo_wiring (Some cd) now mwt) (repeat (Some now) nworkers) ws sched).
Proof.
  assert (exists dl, shard_ctx repo_wiring (Some cd) now mwt = Some dl /\ (dl <= cd)%N) as [dl [E Hd]].
  { unfold shard_ctx, repo_wiring, stream_ctx. destruct (N.eqb mwt 0); [exists cd; split; [reflexivity|lia]|].
    simpl. eexists; split; [reflexivity|lia]. }
  rewrite E. apply pool_by; [lia|]. apply repeat_all. lia.
Qed.
