(** Proofs about Model/DeltaDecide.v (C13): whatever the requests (branch lists, option hashes, shard threshold, requested
    kind), every run leaves the invariant of Proofs/Delta.v for the branch list it was called with. *)
From ZV Require Import Lib.Base Model.Delta Proofs.Delta Model.DeltaDecide.

Lemma list_eqb_N_eq (a b : list N) : list_eqb N.eqb a b = true -> a = b.
Proof.
  revert b. induction a as [|x a IH]; intros [|y b] H; cbn in H; try discriminate; [reflexivity|].
  apply andb_true_iff in H. destruct H as [H1 H2]. apply N.eqb_eq in H1. subst y. f_equal. apply IH. exact H2.
Qed.
Lemma list_eqb_N_refl (a : list N) : list_eqb N.eqb a a = true.
Proof. induction a as [|x a IH]; [reflexivity|]. cbn. rewrite N.eqb_refl, IH. reflexivity. Qed.

(** the conditions under which a call builds delta shards: exactly these *)
Lemma builds_delta_iff x q :
  builds_delta x q = true <->
  q_kind q = Delta /\ st_stack (x_st x) <> [] /\ q_over q = false /\
  m_branches (x_meta x) = q_branches q /\ m_opts (x_meta x) = q_opts q /\
  ignore_changed (length (q_branches q)) (st_last (x_st x)) (q_snap q) = false.
Proof.
  unfold builds_delta, fallback_reason. split.
  - destruct (q_kind q); [discriminate|]. destruct (st_stack (x_st x)) as [|l s]; [discriminate|].
    destruct (q_over q); [discriminate|].
    destruct (list_eqb N.eqb (m_branches (x_meta x)) (q_branches q)) eqn:Eb; cbn [negb]; [|discriminate].
    destruct (N.eqb (m_opts (x_meta x)) (q_opts q)) eqn:Eo; cbn [negb]; [|discriminate].
    destruct (ignore_changed (length (q_branches q)) (st_last (x_st x)) (q_snap q)) eqn:Ei; [discriminate|].
    intros _. repeat split; [discriminate | apply list_eqb_N_eq; exact Eb | apply N.eqb_eq; exact Eo].
  - intros (Hk & Hs & Ho & Hb & Hop & Hi). rewrite Hk. destruct (st_stack (x_st x)) as [|l s]; [contradiction|].
    rewrite Ho, Hb, Hop, Hi, list_eqb_N_refl, N.eqb_refl. reflexivity.
Qed.

Lemma fallback_is_full x q r :
  q_kind q = Delta -> fallback_reason x q = Some r ->
  x_st (xrun_step x q) = full_build (length (q_branches q)) (q_snap q).
Proof. intros Hk Hr. unfold xrun_step, builds_delta. rewrite Hk, Hr. reflexivity. Qed.

Lemma full_request_is_full x q :
  q_kind q = Full -> x_st (xrun_step x q) = full_build (length (q_branches q)) (q_snap q).
Proof. intros Hk. unfold xrun_step, builds_delta. rewrite Hk. reflexivity. Qed.

(** the invariant, for the branch list the existing shards record *)
Definition XInv (x : xstate) : Prop := Inv (length (m_branches (x_meta x))) (x_st x).

Lemma xinit_XInv : XInv xinit.
Proof. apply init_Inv. Qed.

Lemma xstep_XInv x q : XInv x -> XInv (xrun_step x q).
Proof.
  intro HI. unfold XInv, xrun_step. cbn [x_meta x_st m_branches].
  destruct (builds_delta x q) eqn:E.
  - apply builds_delta_iff in E. destruct E as (_ & _ & _ & Hb & _ & _).
    apply delta_preserves_Inv. unfold XInv in HI. rewrite Hb in HI. exact HI.
  - apply full_establishes_Inv.
Qed.

Lemma xrun_all_XInv qs : XInv (xrun_all qs).
Proof.
  unfold xrun_all. assert (H : forall x, XInv x -> XInv (fold_left xrun_step qs x)).
  { induction qs as [|q qs IH]; intros x HI; [exact HI|]. cbn. apply IH. apply xstep_XInv. exact HI. }
  apply H. apply xinit_XInv.
Qed.

Lemma xstep_last x q : st_last (x_st (xrun_step x q)) = q_snap q.
Proof. unfold xrun_step. cbn [x_st]. destruct (builds_delta x q); reflexivity. Qed.
Lemma xstep_meta x q : x_meta (xrun_step x q) = mkMeta (q_branches q) (q_opts q).
Proof. reflexivity. Qed.

Lemma xrun_all_view qs q b p :
  b < length (q_branches q) ->
  view (st_stack (x_st (xrun_all (qs ++ [q])))) b p = head_view (q_snap q) b p.
Proof.
  intro Hb. pose proof (xrun_all_XInv (qs ++ [q])) as HI. unfold XInv in HI.
  unfold xrun_all in *. rewrite fold_left_app in *. cbn [fold_left] in *.
  rewrite xstep_meta in HI. cbn [m_branches] in HI.
  rewrite (HI b p Hb). rewrite xstep_last. reflexivity.
Qed.
