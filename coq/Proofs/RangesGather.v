(** C02 — gatherMatches: the sort by sortByOffsetSlice.Less and the overlap filter. *)
From ZV Require Import Lib.Base Lib.GoSearch Lib.RuneCount Model.Lines Model.Ranges Proofs.LinesMatch.
From Coq Require Import ZifyBool ZifyNat Sorting.Sorted Sorting.Permutation.

(** a <= b in the order of sortByOffsetSlice: b is not Less than a *)
Definition le_key (a b : cand) : Prop := cand_less b a = false.

Ltac less_cases :=
  unfold le_key, cand_less in *;
  repeat match goal with
         | x : cand |- _ => destruct x as [[|] ? ?]
         end; simpl in *;
  repeat match goal with
         | H : context [if ?c then _ else _] |- _ => destruct c eqn:?
         | |- context [if ?c then _ else _] => destruct c eqn:?
         end; try discriminate; try reflexivity; try lia.

Lemma le_key_total : forall a b, le_key a b \/ le_key b a.
Proof. intros a b. unfold le_key. destruct (cand_less b a) eqn:E; auto. right. less_cases. Qed.

Lemma le_key_trans : forall a b c, le_key a b -> le_key b c -> le_key a c.
Proof. intros a b c H1 H2. less_cases. Qed.

Lemma le_key_fn : forall a b, le_key a b -> c_fn a = false -> c_fn b = false.
Proof. intros a b H Ha. less_cases. Qed.

Lemma le_key_off : forall a b, le_key a b -> c_fn a = c_fn b -> c_off a <= c_off b.
Proof. intros a b H Hf. less_cases. Qed.

(** ---- the sort *)
Lemma ins_cand_perm : forall x l, Permutation (ins_cand x l) (x :: l).
Proof.
  intros x l. induction l as [|y r IH]; simpl; auto.
  destruct (cand_less x y); auto.
  eapply perm_trans; [apply perm_skip; exact IH|apply perm_swap].
Qed.

Lemma ins_cand_sorted : forall x l, StronglySorted le_key l -> StronglySorted le_key (ins_cand x l).
Proof.
  intros x l H. induction H as [|y r Hr IH Hy]; simpl.
  - repeat constructor.
  - destruct (cand_less x y) eqn:E.
    + constructor; [constructor; auto|].
      assert (Hxy : le_key x y). { destruct (le_key_total x y) as [H|H]; auto. unfold le_key in H. congruence. }
      constructor; auto. eapply Forall_impl; [|exact Hy]. intros z Hz. eapply le_key_trans; eauto.
    + constructor; auto.
      eapply Permutation_Forall; [apply Permutation_sym; apply ins_cand_perm|].
      constructor; auto.
Qed.

Lemma fold_ins_perm : forall l, Permutation (fold_right ins_cand [] l) l.
Proof.
  induction l as [|x r IH]; simpl; auto.
  eapply perm_trans; [apply ins_cand_perm|]. auto.
Qed.

Theorem sort_cands_perm : forall l, Permutation (sort_cands l) l.
Proof.
  intros l. unfold sort_cands. eapply perm_trans; [apply fold_ins_perm|]. apply Permutation_sym, Permutation_rev.
Qed.

Theorem sort_cands_sorted : forall l, StronglySorted le_key (sort_cands l).
Proof.
  intros l. unfold sort_cands. induction (rev l) as [|x r IH]; simpl; [constructor|].
  apply ins_cand_sorted; auto.
Qed.

(** sorting a sorted list changes nothing (insertion is stable) *)
Lemma ins_cand_last : forall x l, Forall (fun y => le_key y x) l -> ins_cand x l = l ++ [x].
Proof.
  intros x l H. induction H as [|y r Hy Hr IH]; simpl; auto.
  unfold le_key in Hy. rewrite Hy, IH. reflexivity.
Qed.

Lemma sort_cands_id : forall l, StronglySorted le_key l -> sort_cands l = l.
Proof.
  intros l H. unfold sort_cands.
  induction l as [|x r IH] using rev_ind; [reflexivity|].
  rewrite rev_unit. simpl.
  assert (Hr : StronglySorted le_key r /\ Forall (fun y => le_key y x) r).
  { clear IH. induction r as [|a r' IHr]; simpl in *; [split; constructor|].
    inversion H as [|? ? Hs Ha]; subst. destruct (IHr Hs) as [A B]. split.
    - constructor; auto. apply Forall_app in Ha. tauto.
    - constructor; auto. apply Forall_app in Ha. destruct Ha as [_ Ha]. inversion Ha; auto. }
  destruct Hr as [Hr1 Hr2]. rewrite (IH Hr1). apply ins_cand_last; auto.
Qed.

(** ---- the overlap filter *)
Definition class_disjoint (a b : cand) : Prop := c_fn a = c_fn b -> c_end a <= c_off b.

Lemma overlap_aux_spec : forall l last,
  StronglySorted le_key l -> Forall (le_key last) l ->
  let out := overlap_aux last l in
  incl out l /\ StronglySorted le_key out /\ Forall (le_key last) out /\
  Forall (class_disjoint last) out /\ StronglySorted class_disjoint out /\
  (forall c, In c l -> In c out \/ exists k, In k (last :: out) /\ c_fn k = c_fn c /\ c_off k <= c_off c < c_end k /\ le_key k c).
Proof.
  induction l as [|x r IH]; intros last Hs Hl; simpl.
  { repeat split; auto; try constructor. intros c []. }
  inversion Hs as [|? ? Hsr Hxr]; subst. inversion Hl as [|? ? Hlx Hlr]; subst.
  assert (Hkeep : let out := x :: overlap_aux x r in
            class_disjoint last x ->
            incl out (x :: r) /\ StronglySorted le_key out /\ Forall (le_key last) out /\
            Forall (class_disjoint last) out /\ StronglySorted class_disjoint out /\
            (forall c, In c (x :: r) -> In c out \/ exists k, In k (last :: out) /\ c_fn k = c_fn c /\ c_off k <= c_off c < c_end k /\ le_key k c)).
  { intros out Hd. destruct (IH x Hsr Hxr) as [I1 [I2 [I3 [I4 [I5 I6]]]]]. unfold out.
    split; [|split; [|split; [|split; [|split]]]].
    - intros y [<-|Hy]; [now left|right; auto].
    - constructor; auto.
    - constructor; auto. eapply Forall_impl; [|exact I3]. intros y Hy. eapply le_key_trans; eauto.
    - constructor; auto. rewrite Forall_forall in *. intros y Hy Hf.
      (* same class as last: then x is of that class too, and last.end <= x.off <= y.off *)
      specialize (I3 y Hy). specialize (I4 y Hy).
      assert (Hfx : c_fn x = c_fn y).
      { destruct (c_fn last) eqn:E1, (c_fn x) eqn:E2, (c_fn y) eqn:E3; auto; try congruence.
        - pose proof (le_key_fn x y I3 E2). congruence.
        - pose proof (le_key_fn last x Hlx E1). congruence. }
      unfold class_disjoint in *. specialize (I4 Hfx). specialize (Hd ltac:(congruence)). unfold c_end in *. lia.
    - constructor; auto.
    - intros c [<-|Hc]; [left; now left|].
      destruct (I6 c Hc) as [H|[k [Hk1 Hk2]]]; [left; now right|right].
      exists k. split; auto. right. exact Hk1. }
  destruct (negb (Bool.eqb (c_fn last) (c_fn x))) eqn:Efn.
  { apply Hkeep. intros Hf. rewrite Hf in Efn. rewrite Bool.eqb_reflx in Efn. discriminate. }
  destruct (c_end last <=? c_off x) eqn:Eend.
  { apply Hkeep. intros _. lia. }
  (* dropped *)
  destruct (IH last Hsr Hlr) as [I1 [I2 [I3 [I4 [I5 I6]]]]].
  split; [|split; [|split; [|split; [|split]]]]; auto.
  - intros y Hy. right. auto.
  - intros c [<-|Hc].
    + right. exists last. split; [now left|].
      apply negb_false_iff, Bool.eqb_prop in Efn. split; [exact Efn|].
      pose proof (le_key_off last x Hlx Efn). split; [lia|exact Hlx].
    + apply I6; auto.
Qed.

Definition covers (k c : cand) : Prop := c_fn k = c_fn c /\ c_off k <= c_off c < c_end k.

(** gatherMatches on a non-empty candidate list: the result is a sub-list of the candidates, sorted by
    sortByOffsetSlice, non-overlapping within each class (file name / content), and maximal: every
    candidate that was dropped starts inside a kept range of its class *)
Theorem gather_spec : forall nl cands, cands <> [] ->
  let out := gather nl cands in
  incl out cands /\ StronglySorted le_key out /\ StronglySorted class_disjoint out /\
  (forall c, In c cands -> In c out \/ exists k, In k out /\ covers k c /\ le_key k c).
Proof.
  intros nl cands Hne. unfold gather. destruct cands as [|c0 cs0] eqn:Ec; [congruence|]. rewrite <- Ec. clear Hne.
  pose proof (sort_cands_sorted cands) as Hs. pose proof (sort_cands_perm cands) as Hp.
  unfold overlap_filter. destruct (sort_cands cands) as [|x r] eqn:Es.
  { apply Permutation_nil in Hp. subst. discriminate. }
  inversion Hs as [|? ? Hsr Hxr]; subst.
  destruct (overlap_aux_spec r x Hsr Hxr) as [I1 [I2 [I3 [I4 [I5 I6]]]]].
  split; [|split; [|split]].
  - intros y [<-|Hy]; (eapply Permutation_in; [exact Hp|]); [now left|right; auto].
  - constructor; auto.
  - constructor; auto.
  - intros c Hc. apply Permutation_in with (l' := x :: r) in Hc; [|apply Permutation_sym; exact Hp].
    destruct Hc as [<-|Hc]; [left; now left|].
    destruct (I6 c Hc) as [H|[k [Hk1 [Hk2 [Hk3 Hk4]]]]]; [left; now right|right]. exists k.
    split; [exact Hk1|]. split; [split; assumption|exact Hk4].
Qed.

Lemma sorted_in_cases : forall {A} (R S : A -> A -> Prop) l a b, StronglySorted R l -> StronglySorted S l ->
  In a l -> In b l -> a = b \/ (R a b /\ S a b) \/ (R b a /\ S b a).
Proof.
  intros A R S l a b H. induction H as [|x r Hr IH Hx]; intros HS Ha Hb; [contradiction|].
  inversion HS as [|? ? HSr HSx]; subst.
  rewrite Forall_forall in Hx, HSx.
  destruct Ha as [<-|Ha], Hb as [<-|Hb]; auto.
Qed.

(** sortByOffsetSlice "prefers longer candidates if starting at same position": a kept range is the longest
    candidate of its class that starts at its offset *)
Theorem gather_prefers_longer : forall nl cands k c, cands <> [] ->
  In k (gather nl cands) -> In c cands -> c_fn c = c_fn k -> c_off c = c_off k -> c_sz c <= c_sz k.
Proof.
  intros nl cands k c Hne Hk Hc Hfn Hoff.
  destruct (gather_spec nl cands Hne) as [_ [Hs [Hd Hcomp]]]. cbv zeta in *.
  destruct (Nat.le_gt_cases (c_sz c) (c_sz k)) as [|Hgt]; [assumption|exfalso].
  assert (Hnle : ~ le_key k c).
  { unfold le_key, cand_less. rewrite Hfn, Bool.eqb_reflx. cbn [negb].
    rewrite Hoff, Nat.eqb_refl. intros E. apply Nat.ltb_ge in E. lia. }
  destruct (Hcomp c Hc) as [Hin|[k' [Hk' [[Hf' Hr'] Hle']]]].
  - (* c kept as well: two kept ranges of one class at one offset *)
    destruct (sorted_in_cases _ _ _ c k Hs Hd Hin Hk) as [E|[[E1 E2]|[E1 E2]]].
    + subst. lia.
    + specialize (E2 Hfn). unfold c_end in E2. lia.
    + contradiction.
  - (* c dropped because of k' *)
    destruct (sorted_in_cases _ _ _ k' k Hs Hd Hk' Hk) as [E|[[E1 E2]|[E1 E2]]].
    + subst. contradiction.
    + specialize (E2 ltac:(congruence)). unfold c_end in *. lia.
    + apply Hnle. eapply le_key_trans; eauto.
Qed.

(** no text atom contributed a candidate: the single synthetic range is the whole file name *)
Theorem gather_empty : forall nl, gather nl [] = [{| c_fn := true; c_off := 0; c_sz := nl |}].
Proof. reflexivity. Qed.

(** what the later stages need (hypotheses of the C03 theorems) *)
Lemma sorted_le_key_is_sorted_by : forall l, StronglySorted le_key l -> is_sorted_by cand_less l = true.
Proof.
  induction l as [|a r IH]; intros H; simpl; auto.
  destruct r as [|b r']; auto. inversion H as [|? ? Hr Ha]; subst.
  inversion Ha as [|? ? Hab _]; subst. unfold le_key in Hab. rewrite Hab. simpl. apply IH; auto.
Qed.

Lemma StronglySorted_filter : forall {A} (R : A -> A -> Prop) p l, StronglySorted R l -> StronglySorted R (filter p l).
Proof.
  intros A R p l H. induction H as [|a r Hr IH Ha]; simpl; [constructor|].
  destruct (p a); auto. constructor; auto.
  rewrite Forall_forall in *. intros y Hy. apply filter_In in Hy. apply Ha. tauto.
Qed.

Lemma class_disjoint_filter : forall l, StronglySorted class_disjoint l -> disjoint_sorted (filter is_content l).
Proof.
  intros l H. unfold disjoint_sorted. induction H as [|a r Hr IH Ha]; simpl; [constructor|].
  destruct (is_content a) eqn:Ea; auto. constructor; auto.
  rewrite Forall_forall in *. intros y Hy. apply filter_In in Hy. destruct Hy as [Hy1 Hy2].
  apply (Ha y Hy1). unfold is_content in *. destruct (c_fn a), (c_fn y); simpl in *; congruence.
Qed.

Theorem gather_content_disjoint : forall nl cands,
  is_sorted_by cand_less (gather nl cands) = true /\
  disjoint_sorted (filter is_content (gather nl cands)).
Proof.
  intros nl cands. destruct cands as [|c0 cs0] eqn:Ec.
  { simpl. split; auto. constructor. }
  rewrite <- Ec. assert (Hne : cands <> []) by (subst; discriminate).
  destruct (gather_spec nl cands Hne) as [_ [S1 [S2 _]]].
  split; [apply sorted_le_key_is_sorted_by; auto|apply class_disjoint_filter; auto].
Qed.

(** ---- a single content substring: the kept ranges are the successive leftmost non-overlapping
    occurrences.  [mt suffix] = Some n when an occurrence of length n starts at the head of [suffix]
    (case-sensitive: the pattern is a prefix; case-insensitive: caseFoldingEqualsRunes, whose byte
    length may differ from the pattern's). *)
Section Leftmost.
Variable mt : list N -> option nat.
Hypothesis mt_pos : forall l n, mt l = Some n -> 1 <= n.

(** all occurrences, as the candidates of the atom (C01: every occurrence is a candidate) *)
Fixpoint all_occ (l : list N) (pos : nat) : list cand :=
  match l with
  | [] => []
  | _ :: r => (match mt l with Some n => [{| c_fn := false; c_off := pos; c_sz := n |}] | None => [] end)
              ++ all_occ r (S pos)
  end.

(** the scanning loop `for { i := Index(content[from:], pat); if i < 0 break; emit; from += i + n }` *)
Fixpoint scan (l : list N) (pos skip : nat) : list cand :=
  match l with
  | [] => []
  | _ :: r => match skip with
              | S k => scan r (S pos) k
              | 0 => match mt l with
                     | Some n => {| c_fn := false; c_off := pos; c_sz := n |} :: scan r (S pos) (n - 1)
                     | None => scan r (S pos) 0
                     end
              end
  end.

Lemma all_occ_bounds : forall l pos, Forall (fun x => c_fn x = false /\ pos <= c_off x) (all_occ l pos).
Proof.
  induction l as [|b r IH]; intros pos; simpl; [constructor|].
  apply Forall_app. split.
  - destruct (mt (b :: r)); repeat constructor.
  - eapply Forall_impl; [|apply IH]. intros x [H1 H2]. split; auto. lia.
Qed.

Lemma all_occ_sorted : forall l pos, StronglySorted le_key (all_occ l pos).
Proof.
  induction l as [|b r IH]; intros pos; simpl; [constructor|].
  destruct (mt (b :: r)); simpl; auto.
  constructor; auto. eapply Forall_impl; [|apply (all_occ_bounds r (S pos))].
  intros x [H1 H2]. unfold le_key, cand_less. simpl. rewrite H1. simpl.
  destruct (c_off x =? pos) eqn:E; [lia|]. apply Nat.ltb_ge. lia.
Qed.

Lemma overlap_aux_scan : forall l pos last, c_fn last = false ->
  overlap_aux last (all_occ l pos) = scan l pos (c_end last - pos).
Proof.
  induction l as [|b r IH]; intros pos last Hfn; simpl; auto.
  destruct (mt (b :: r)) as [n|] eqn:Em; simpl.
  - rewrite Hfn. simpl. pose proof (mt_pos _ _ Em) as Hn.
    destruct (c_end last <=? pos) eqn:E.
    + replace (c_end last - pos) with 0 by lia. f_equal.
      rewrite IH by reflexivity. f_equal. unfold c_end; simpl. lia.
    + rewrite IH by auto. destruct (c_end last - pos) as [|k] eqn:Ek; [lia|]. f_equal. lia.
  - rewrite IH by auto. destruct (c_end last - pos) as [|k] eqn:Ek.
    + f_equal. lia.
    + f_equal. lia.
Qed.

Theorem substr_ranges_leftmost : forall nl content,
  all_occ content 0 <> [] -> gather nl (all_occ content 0) = scan content 0 0.
Proof.
  intros nl content Hne. unfold gather.
  destruct (all_occ content 0) as [|x r] eqn:E; [congruence|]. rewrite <- E.
  rewrite (sort_cands_id _ (all_occ_sorted content 0)).
  set (z := {| c_fn := false; c_off := 0; c_sz := 0 |}).
  pose proof (overlap_aux_scan content 0 z eq_refl) as Hz. simpl in Hz. rewrite <- Hz.
  rewrite E. simpl. pose proof (all_occ_bounds content 0) as Hb. rewrite E in Hb.
  inversion Hb as [|? ? [Hx _] _]; subst. rewrite Hx. simpl. reflexivity.
Qed.

Theorem substr_no_occurrence : forall nl content,
  all_occ content 0 = [] -> scan content 0 0 = [] /\
  gather nl (all_occ content 0) = [{| c_fn := true; c_off := 0; c_sz := nl |}].
Proof.
  intros nl content H. rewrite H. split; [|reflexivity].
  assert (G : forall l pos, all_occ l pos = [] -> scan l pos 0 = []).
  { induction l as [|b r IH]; intros pos Hl; simpl in *; auto.
    destruct (mt (b :: r)); simpl in Hl; [discriminate|]. auto. }
  auto.
Qed.
End Leftmost.

(** case-sensitive instance: occurrences of a non-empty byte pattern *)
Definition mt_exact (p : list N) (l : list N) : option nat := if prefixb p l then Some (length p) else None.
Lemma mt_exact_pos : forall p, p <> [] -> forall l n, mt_exact p l = Some n -> 1 <= n.
Proof. intros p Hp l n H. unfold mt_exact in H. destruct (prefixb p l); inversion H. destruct p; [congruence|simpl; lia]. Qed.

(** ---- a single regexp: the engine's successive matches (FindAllIndex: strictly increasing start
    offsets, non-overlapping; empty matches included) are all kept, unchanged and in order *)
Definition engine_matches (ms : list cand) : Prop :=
  Forall (fun m => c_fn m = false) ms /\
  StronglySorted (fun a b => c_off a < c_off b /\ c_end a <= c_off b) ms.

Lemma overlap_aux_id : forall l last, c_fn last = false -> Forall (fun m => c_fn m = false) l ->
  StronglySorted (fun a b => c_off a < c_off b /\ c_end a <= c_off b) (last :: l) -> overlap_aux last l = l.
Proof.
  induction l as [|x r IH]; intros last Hl Hfn Hs; simpl; auto.
  inversion Hfn as [|? ? Hx Hr]; subst. inversion Hs as [|? ? Hs' Hall]; subst.
  inversion Hall as [|? ? [_ Hlx] _]; subst.
  rewrite Hl, Hx. simpl. replace (c_end last <=? c_off x) with true by (symmetry; apply Nat.leb_le; lia).
  f_equal. apply IH; auto.
Qed.

Theorem regexp_matches_kept : forall nl ms, ms <> [] -> engine_matches ms -> gather nl ms = ms.
Proof.
  intros nl ms Hne [Hfn Hs]. unfold gather. destruct ms as [|x r] eqn:E; [congruence|]. rewrite <- E.
  assert (Hk : StronglySorted le_key ms).
  { subst ms. clear Hne. revert Hfn Hs. generalize (x :: r). intros l Hfn Hs.
    induction Hs as [|a t Ht IH Ha]; [constructor|].
    inversion Hfn as [|? ? Hfa Hft]; subst. constructor; auto.
    rewrite Forall_forall in *. intros y Hy. destruct (Ha y Hy) as [H1 _].
    unfold le_key, cand_less. rewrite Hfa, (Hft y Hy). simpl.
    destruct (c_off y =? c_off a) eqn:E1; [lia|]. apply Nat.ltb_ge. lia. }
  rewrite (sort_cands_id _ Hk). subst ms. simpl. f_equal.
  inversion Hfn; subst. apply overlap_aux_id; auto.
Qed.
