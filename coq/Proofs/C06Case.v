(** C06, case:auto for REGEXP atoms: the parser's decision is the model of LowerRegexp / Regexp.Equal on the
    regexp's syntax tree (Model/RegexCase.v), the documented meaning uses the documented rule "the pattern
    contains an upper-case letter" (at any position of the tree); Proofs/RegexCase.v shows they agree, so the
    main theorem holds with these two DIFFERENT engines plugged into parser and meaning. *)
From ZV Require Import Lib.Base Model.Query Generated.ParserTables Model.Parser Model.QueryDoc Model.QueryDocRun.
From ZV Require Model.Regex Model.RegexCase Proofs.RegexCase.
From ZV Require Import Proofs.QueryDocTree Proofs.QueryDocParse Proofs.QuerySimplify Proofs.QueryDocSem Proofs.C06Main.
From Coq Require Import String.
Open Scope N_scope.

Import ZV.Model.RegexCase.

Section Ext.
  Variable rqd : str -> rqres_d.
  Variable f g : str -> bool.
  Variable lang : str -> option str.
  Hypothesis Hfg : forall s, f s = g s.

  Lemma pattern_ext k v c fl : pattern rqd f k v c fl = pattern rqd g k v c fl.
  Proof. unfold pattern. destruct (rqd v); try reflexivity. rewrite Hfg. reflexivity. Qed.

  Lemma den_field_ext k fd v : den_field rqd f lang k fd v = den_field rqd g lang k fd v.
  Proof. destruct fd; simpl; try reflexivity; try apply pattern_ext. f_equal. apply pattern_ext. Qed.

  Lemma den_body_ext (q : list (list dexpr)) k :
    Forall (Forall (fun e => forall k, den_expr rqd f lang k e = den_expr rqd g lang k e)) q ->
    map (fun c => QAnd (flat_map (fun e => if is_directive e then [] else [den_expr rqd f lang k e]) c)) q =
    map (fun c => QAnd (flat_map (fun e => if is_directive e then [] else [den_expr rqd g lang k e]) c)) q.
  Proof.
    induction 1 as [|c q Hc _ IH]; [reflexivity|]. cbn [map]. rewrite IH. f_equal. f_equal.
    clear -Hc. induction Hc as [|e c He _ IHc]; [reflexivity|]. cbn [flat_map]. rewrite IHc.
    destruct (is_directive e); [reflexivity|]. rewrite He. reflexivity.
  Qed.

  Lemma den_expr_ext e : forall k, den_expr rqd f lang k e = den_expr rqd g lang k e.
  Proof.
    induction e using dexpr_ind'; intros k0; try reflexivity.
    - apply pattern_ext.
    - apply den_field_ext.
    - cbn [den_expr]. rewrite IHe. reflexivity.
    - cbn [den_expr]. rewrite (den_body_ext q _ H). reflexivity.
  Qed.

  Lemma den_ext q : den rqd f lang q = den rqd g lang q.
  Proof. exact (den_expr_ext (DGroup q) CAuto). Qed.
End Ext.

(** case:auto on every kind of pattern atom, with the parser's engine = model of LowerRegexp on the tree *)
Lemma case_flavours_all_atoms :
  forall (ast : str -> Regex.re) (k : cflavor),
    (forall (p : str) (cs f c : bool),
        setCase (auto_of_ast ast) (flavor_text k) (QSubstring p cs f c) =
        QSubstring p (case_of k (existsb is_upper p)) f c) /\
    (forall (r : rx) (cs f c : bool),
        setCase (auto_of_ast ast) (flavor_text k) (QRegexp r cs f c) =
        QRegexp r (case_of k (has_upper_re (ast (rx_src r)))) f c) /\
    (forall e : Q, setCase (auto_of_ast ast) (flavor_text k) (QSymbol e) =
                   QSymbol (setCase (auto_of_ast ast) (flavor_text k) e)).
Proof.
  intros ast k. split; [|split].
  - intros. rewrite case_auto_iff_upper. destruct k; reflexivity.
  - intros. destruct k; try reflexivity.
    change (QRegexp r (auto_of_ast ast (rx_src r)) f c = QRegexp r (has_upper_re (ast (rx_src r))) f c).
    unfold auto_of_ast. rewrite Proofs.RegexCase.re_auto_iff_upper. reflexivity.
  - intros. reflexivity.
Qed.

Lemma parse_render_ast :
  forall (rq : str -> rqres) (ast : str -> Regex.re) (rcompile : str -> bool) (lang : str -> option str) (q : dquery),
    wf_query rq rcompile q = true ->
    parse rq (auto_of_ast ast) rcompile lang (render q) =
    Ok (Simplify (den (rq_d rq) (upper_of_ast ast) lang q)).
Proof.
  intros. rewrite parse_render_full by assumption.
  rewrite (den_ext (rq_d rq) (auto_of_ast ast) (upper_of_ast ast) lang); [reflexivity|].
  intro s. apply Proofs.RegexCase.re_auto_iff_upper.
Qed.

Lemma selects_documented_documents_ast :
  forall (rq : str -> rqres) (ast : str -> Regex.re) (rcompile : str -> bool) (lang : str -> option str) (q : dquery),
    wf_query rq rcompile q = true ->
    exists t, parse rq (auto_of_ast ast) rcompile lang (render q) = Ok t /\
      forall (D : Type) (env : atoms D) (d : D), atoms_ok env ->
        eval env t d = sat_query (rq_d rq) (upper_of_ast ast) lang D env d q.
Proof.
  intros rq ast rcompile lang q Hwf. eexists. split; [apply parse_render_ast; exact Hwf|].
  intros D env d Hok. rewrite Simplify_preserves by exact Hok.
  change (den (rq_d rq) (upper_of_ast ast) lang q) with (den_expr (rq_d rq) (upper_of_ast ast) lang CAuto (DGroup q)).
  apply den_sat.
Qed.

(** a concrete engine for the examples: "[A-Z]+_id" and "x[a-z]*y" are proper regexps (with their syntax
    trees), every other text is a literal *)
Definition ex_re1 : Regex.re := Regex.RConcat [Regex.RPlus (Regex.RClass [(65, 90)]); Regex.RLit false (dbs "_id")].
Definition ex_re2 : Regex.re := Regex.RConcat [Regex.RLit false (dbs "x"); Regex.RStar (Regex.RClass [(97, 122)]); Regex.RLit false (dbs "y")].
Definition ex_rx1 : rx := {| rx_src := dbs "[A-Z]+_id"; rx_op := 18 |}.
Definition ex_rx2 : rx := {| rx_src := dbs "x[a-z]*y"; rx_op := 18 |}.
Definition rx_rq (t : str) : rqres :=
  if str_eqb t (dbs "[A-Z]+_id") then RQRx ex_rx1 else if str_eqb t (dbs "x[a-z]*y") then RQRx ex_rx2 else RQLit t.
Definition rx_ast (s : str) : Regex.re := if str_eqb s (dbs "[A-Z]+_id") then ex_re1 else ex_re2.
Definition rx_parse (s : str) : outcome Q := parse rx_rq (auto_of_ast rx_ast) (fun _ => true) (fun _ => None) s.
Definition rx_den (q : dquery) : Q := den (rq_d rx_rq) (upper_of_ast rx_ast) (fun _ => None) q.
Definition rx_wf (q : dquery) : bool := wf_query rx_rq (fun _ => true) q.
