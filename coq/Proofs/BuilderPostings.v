(** Proofs about the postingsBuilder model (Model/BuilderFlow.v, part C): a pooled builder after reset() writes
    exactly what a fresh builder writes. *)
From ZV Require Import Lib.Base Model.BuilderFlow.

Definition empty_slot (p : plist) : Prop := pl_data p = [] /\ pl_last p = 0%N.

(** ** invariant of every reachable builder state *)
Record Inv (s : pbuilder) : Prop := mkInv {
  I_nodup_pop : NoDup (populated s);
  I_pop : forall k, In k (populated s) -> is_ascii_ng k = true /\ data_of s k <> [];
  I_nodup_keys : NoDup (mapkeys s);
  I_keys : forall k, In k (mapkeys s) <-> (is_ascii_ng k = false /\ slots s k <> None);
  I_ascii_pop : forall k, is_ascii_ng k = true -> data_of s k <> [] -> In k (populated s);
  I_last : forall k p, slots s k = Some p -> pl_data p = [] -> pl_last p = 0%N
}.

Lemma uvarint_nonempty x : uvarint x <> [].
Proof. unfold uvarint. simpl. destruct (x <? 128)%N; discriminate. Qed.

Lemma app_uvarint_nonempty l x : l ++ uvarint x <> [].
Proof. intros H. apply app_eq_nil in H. destruct H as [_ H]. exact (uvarint_nonempty x H). Qed.

Lemma in_list_In k l : in_list k l = true <-> In k l.
Proof.
  unfold in_list. rewrite existsb_exists. split.
  - intros (x & Hx & E). apply N.eqb_eq in E. subst. exact Hx.
  - intros H. exists k. split; [exact H|apply N.eqb_refl].
Qed.

Lemma Inv_fresh : Inv fresh_pb.
Proof.
  constructor; simpl.
  - constructor.
  - intros k [].
  - constructor.
  - intros k. split; [intros []|]. intros [_ H]. apply H. reflexivity.
  - intros k _ H. exfalso. apply H. reflexivity.
  - intros k p H. discriminate.
Qed.

(** data and slot of the touched state *)
Lemma touch_slot_same s ng off :
  slots (touch s ng off) ng =
  Some (mkPl (pl_data (match slots s ng with Some p => p | None => mkPl [] 0 end)
              ++ uvarint ((off + two32 - pl_last (match slots s ng with Some p => p | None => mkPl [] 0 end)) mod two32)%N) off).
Proof. unfold touch. simpl. rewrite N.eqb_refl. reflexivity. Qed.

Lemma touch_slot_other s ng off k : k <> ng -> slots (touch s ng off) k = slots s k.
Proof. intros H. unfold touch. simpl. apply N.eqb_neq in H. rewrite H. reflexivity. Qed.

Lemma touch_data_same s ng off : data_of (touch s ng off) ng <> [].
Proof. unfold data_of. rewrite touch_slot_same. simpl. apply app_uvarint_nonempty. Qed.

Lemma touch_data_other s ng off k : k <> ng -> data_of (touch s ng off) k = data_of s k.
Proof. intros H. unfold data_of. rewrite touch_slot_other by exact H. reflexivity. Qed.

Lemma touch_populated s ng off :
  populated (touch s ng off) =
  if is_ascii_ng ng then (if nonempty (data_of s ng) then populated s else populated s ++ [ng]) else populated s.
Proof.
  unfold touch, data_of. simpl. destruct (is_ascii_ng ng); [|reflexivity].
  destruct (slots s ng) as [q|]; [|reflexivity]. destruct (pl_data q); reflexivity.
Qed.

Lemma touch_mapkeys s ng off :
  mapkeys (touch s ng off) =
  if is_ascii_ng ng then mapkeys s else match slots s ng with None => mapkeys s ++ [ng] | Some _ => mapkeys s end.
Proof. reflexivity. Qed.

Lemma nonempty_false l : nonempty l = false -> l = [].
Proof. destruct l; [reflexivity|discriminate]. Qed.
Lemma nonempty_true l : nonempty l = true -> l <> [].
Proof. destruct l; [discriminate|intros _; discriminate]. Qed.

Lemma NoDup_snoc {A} (l : list A) x : NoDup l -> ~ In x l -> NoDup (l ++ [x]).
Proof.
  intros Hn Hx. induction Hn as [|y l Hy Hn IH]; simpl.
  - constructor; [intros []|constructor].
  - constructor.
    + intros H. apply in_app_or in H. destruct H as [H|[H|[]]]; [contradiction|]. subst. apply Hx. left. reflexivity.
    + apply IH. intros H. apply Hx. right. exact H.
Qed.

Lemma Inv_touch s ng off : Inv s -> Inv (touch s ng off).
Proof.
  intros [H1 H2 H3 H4 H5 H6]. constructor.
  - (* NoDup populated *)
    rewrite touch_populated. destruct (is_ascii_ng ng) eqn:Ha; [|exact H1].
    destruct (nonempty (data_of s ng)) eqn:Hn; [exact H1|].
    apply NoDup_snoc; [exact H1|]. intros Hin. apply H2 in Hin. destruct Hin as [_ Hd].
    apply Hd. apply nonempty_false. exact Hn.
  - (* populated => ascii, nonempty *)
    intros k Hin. destruct (N.eq_dec k ng) as [->|Hne].
    + split; [|apply touch_data_same].
      rewrite touch_populated in Hin. destruct (is_ascii_ng ng) eqn:Ha; [reflexivity|].
      apply H2 in Hin. destruct Hin as [Hin _]. congruence.
    + rewrite touch_data_other by exact Hne. apply H2.
      rewrite touch_populated in Hin. destruct (is_ascii_ng ng); [|exact Hin].
      destruct (nonempty (data_of s ng)); [exact Hin|].
      apply in_app_or in Hin. destruct Hin as [Hin|[Hin|[]]]; [exact Hin|]. subst. contradiction.
  - (* NoDup mapkeys *)
    rewrite touch_mapkeys. destruct (is_ascii_ng ng) eqn:Ha; [exact H3|].
    destruct (slots s ng) as [q|] eqn:Hs; [exact H3|].
    apply NoDup_snoc; [exact H3|]. intros Hin. apply H4 in Hin. destruct Hin as [_ Hin]. apply Hin. exact Hs.
  - (* mapkeys <-> non-ascii existing slots *)
    intros k. rewrite touch_mapkeys. destruct (N.eq_dec k ng) as [->|Hne].
    + rewrite touch_slot_same. destruct (is_ascii_ng ng) eqn:Ha.
      * rewrite H4. rewrite Ha. split; intros [Hf _]; discriminate.
      * split; [intros _; split; [reflexivity|discriminate]|]. intros _.
        destruct (slots s ng) as [q|] eqn:Hs.
        -- apply H4. split; [exact Ha|]. rewrite Hs. discriminate.
        -- apply in_or_app. right. left. reflexivity.
    + rewrite touch_slot_other by exact Hne.
      destruct (is_ascii_ng ng); [apply H4|].
      destruct (slots s ng) as [q|]; [apply H4|].
      rewrite <- H4. split.
      * intros Hin. apply in_app_or in Hin. destruct Hin as [Hin|[Hin|[]]]; [exact Hin|]. subst. contradiction.
      * intros Hin. apply in_or_app. left. exact Hin.
  - (* ascii nonempty => populated *)
    intros k Ha Hd. rewrite touch_populated. destruct (N.eq_dec k ng) as [->|Hne].
    + rewrite Ha. destruct (nonempty (data_of s ng)) eqn:Hn.
      * apply H5; [exact Ha|]. apply nonempty_true. exact Hn.
      * apply in_or_app. right. left. reflexivity.
    + rewrite touch_data_other in Hd by exact Hne. specialize (H5 k Ha Hd).
      destruct (is_ascii_ng ng); [|exact H5].
      destruct (nonempty (data_of s ng)); [exact H5|]. apply in_or_app. left. exact H5.
  - (* empty data => lastOff 0 *)
    intros k p Hs Hd. destruct (N.eq_dec k ng) as [->|Hne].
    + rewrite touch_slot_same in Hs. inversion Hs. subst p. simpl in Hd. exfalso. exact (app_uvarint_nonempty _ _ Hd).
    + rewrite touch_slot_other in Hs by exact Hne. eapply H6; eauto.
Qed.

(** scalar-only updates keep the invariant *)
Lemma Inv_scalars s ro rc pa er eb :
  Inv s -> Inv (mkPb (slots s) (populated s) (mapkeys s) ro rc pa er eb).
Proof. intros [H1 H2 H3 H4 H5 H6]. constructor; assumption. Qed.

Lemma Inv_rune_loop d : forall s i bc g1 g2 er, Inv s -> Inv (fst (fst (rune_loop s d i bc g1 g2 er))).
Proof.
  induction d as [|[c sz] d IH]; intros s i bc g1 g2 er H; cbn [rune_loop]; [exact H|].
  apply IH.
  set (s1 := if (c <? 128)%N then s else _).
  assert (Inv s1) as H1 by (subst s1; destruct (c <? 128)%N; [exact H|apply Inv_scalars, H]).
  set (s2 := if ((rune_count s1 + i) mod 100 =? 0)%N then _ else s1).
  assert (Inv s2) as H2 by (subst s2; destruct ((rune_count s1 + i) mod 100 =? 0)%N; [apply Inv_scalars, H1|exact H1]).
  destruct (i <? 2)%N; [exact H2|apply Inv_touch, H2].
Qed.

Lemma Inv_add_string s d : Inv s -> Inv (add_string s d).
Proof.
  intros H. unfold add_string.
  pose proof (Inv_rune_loop d s 0%N 0%N 0%N 0%N (rune_count s) H) as H1.
  destruct (rune_loop s d 0 0 0 0 (rune_count s)) as [[s1 n] bytes]. simpl in H1.
  apply Inv_scalars, H1.
Qed.

Lemma Inv_add_strings ds : forall s, Inv s -> Inv (add_strings s ds).
Proof. induction ds as [|d ds IH]; intros s H; simpl; [exact H|]. apply IH, Inv_add_string, H. Qed.

(** ** reset *)
Definition all_empty (s : pbuilder) : Prop :=
  populated s = [] /\ (forall k p, slots s k = Some p -> empty_slot p) /\
  rune_offsets s = [] /\ rune_count s = 0%N /\ plain_ascii s = true /\ end_runes s = [] /\ end_byte s = 0%N.

Lemma reset_slot s k :
  slots (reset_pb s) k = match slots s k with
                         | None => None
                         | Some p => if is_ascii_ng k then (if in_list k (populated s) then Some (mkPl [] 0) else Some p)
                                     else Some (mkPl [] 0)
                         end.
Proof. reflexivity. Qed.

Lemma reset_all_empty s : Inv s -> all_empty (reset_pb s).
Proof.
  intros [H1 H2 H3 H4 H5 H6]. unfold all_empty. split; [reflexivity|]. split; [|repeat split; reflexivity].
  intros k p. rewrite reset_slot. destruct (slots s k) as [q|] eqn:Hs; [|discriminate].
  destruct (is_ascii_ng k) eqn:Ha.
  - destruct (in_list k (populated s)) eqn:Hin; intros E; inversion E; subst p; [split; reflexivity|].
    (* an ASCII slot outside asciiPopulated is already empty *)
    assert (pl_data q = []) as Hd.
    { destruct (pl_data q) eqn:Hq; [reflexivity|]. exfalso.
      assert (In k (populated s)) as Hp by (apply H5; [exact Ha|unfold data_of; rewrite Hs, Hq; discriminate]).
      apply in_list_In in Hp. congruence. }
    split; [exact Hd|]. eapply H6; eauto.
  - intros E. inversion E. split; reflexivity.
Qed.

Lemma Inv_reset s : Inv s -> Inv (reset_pb s).
Proof.
  intros H. pose proof (reset_all_empty s H) as (Hp & He & _). destruct H as [H1 H2 H3 H4 H5 H6].
  assert (forall k, data_of (reset_pb s) k = []) as Hd.
  { intros k. unfold data_of. destruct (slots (reset_pb s) k) as [p|] eqn:Hs; [|reflexivity]. apply (He k p Hs). }
  constructor.
  - rewrite Hp. constructor.
  - rewrite Hp. intros k [].
  - exact H3.
  - intros k. change (mapkeys (reset_pb s)) with (mapkeys s). rewrite H4. rewrite reset_slot.
    destruct (slots s k) as [q|]; [|tauto].
    destruct (is_ascii_ng k); [|split; intros [Ha _]; (split; [exact Ha|discriminate])].
    destruct (in_list k (populated s)); split; intros [Ha _]; discriminate.
  - intros k _ Hne. exfalso. apply Hne, Hd.
  - intros k p Hs _. apply (He k p Hs).
Qed.

(** ** simulation between a reused builder [s] and a never-used one [f] *)
Record Sim (s f : pbuilder) : Prop := mkSim {
  S_pop : populated s = populated f;
  S_slots : forall k, match slots f k with
                      | Some p => slots s k = Some p
                      | None => slots s k = None \/ exists q, slots s k = Some q /\ empty_slot q
                      end;
  S_ro : rune_offsets s = rune_offsets f;
  S_rc : rune_count s = rune_count f;
  S_pa : plain_ascii s = plain_ascii f;
  S_er : end_runes s = end_runes f;
  S_eb : end_byte s = end_byte f
}.

Lemma Sim_reset_fresh s : all_empty s -> Sim s fresh_pb.
Proof.
  intros (Hp & He & H1 & H2 & H3 & H4 & H5). constructor; simpl; try assumption.
  intros k. destruct (slots s k) as [q|] eqn:Hs; [right; exists q; split; [reflexivity|apply (He k q Hs)]|left; reflexivity].
Qed.

Lemma Sim_data s f k : Sim s f -> data_of s k = data_of f k.
Proof.
  intros H. pose proof (S_slots s f H k) as Hk. unfold data_of.
  destruct (slots f k) as [p|]; [rewrite Hk; reflexivity|].
  destruct Hk as [->|(q & -> & Hq & _)]; [reflexivity|exact Hq].
Qed.

Lemma Sim_touch s f ng off : Sim s f -> Sim (touch s ng off) (touch f ng off).
Proof.
  intros H. pose proof (Sim_data s f ng H) as Hd. destruct H as [Hp Hs H1 H2 H3 H4 H5].
  assert (match slots s ng with Some p => p | None => mkPl [] 0 end = match slots f ng with Some p => p | None => mkPl [] 0 end
          \/ (slots f ng = None /\ exists q, slots s ng = Some q /\ empty_slot q)) as Hcur.
  { specialize (Hs ng). destruct (slots f ng) as [p|]; [rewrite Hs; left; reflexivity|].
    destruct Hs as [->|(q & Hq & He)]; [left; reflexivity|right; split; [reflexivity|exists q; split; assumption]]. }
  constructor; try assumption.
  - rewrite !touch_populated, Hd, Hp. reflexivity.
  - intros k. destruct (N.eq_dec k ng) as [->|Hne].
    + rewrite !touch_slot_same.
      destruct Hcur as [->|(Hf & q & Hq & Hqd & Hql)]; [reflexivity|].
      rewrite Hf, Hq. destruct q as [qd ql]. simpl in Hqd, Hql. subst. reflexivity.
    + rewrite !touch_slot_other by exact Hne. apply Hs.
Qed.

Lemma Sim_scalars s f ro rc pa er eb :
  Sim s f -> Sim (mkPb (slots s) (populated s) (mapkeys s) ro rc pa er eb) (mkPb (slots f) (populated f) (mapkeys f) ro rc pa er eb).
Proof. intros [Hp Hs H1 H2 H3 H4 H5]. constructor; simpl; auto. Qed.

Definition set_nonascii (s : pbuilder) : pbuilder :=
  mkPb (slots s) (populated s) (mapkeys s) (rune_offsets s) (rune_count s) false (end_runes s) (end_byte s).
Definition add_ro (s : pbuilder) (bc : N) : pbuilder :=
  mkPb (slots s) (populated s) (mapkeys s) (rune_offsets s ++ [(end_byte s + bc)%N]) (rune_count s) (plain_ascii s) (end_runes s) (end_byte s).
Definition rune_step (s : pbuilder) (c i bc g1 g2 er : N) : pbuilder :=
  let s1 := if (c <? 128)%N then s else set_nonascii s in
  let s2 := if ((rune_count s1 + i) mod 100 =? 0)%N then add_ro s1 bc else s1 in
  if (i <? 2)%N then s2 else touch s2 (ngram_of g1 g2 c) (er + i - 2)%N.
Lemma rune_loop_cons s c sz r i bc g1 g2 er :
  rune_loop s ((c, sz) :: r) i bc g1 g2 er = rune_loop (rune_step s c i bc g1 g2 er) r (i + 1)%N (bc + sz)%N g2 c er.
Proof. reflexivity. Qed.

Lemma Sim_set_nonascii s f : Sim s f -> Sim (set_nonascii s) (set_nonascii f).
Proof.
  intros H. unfold set_nonascii. rewrite (S_ro _ _ H), (S_rc _ _ H), (S_er _ _ H), (S_eb _ _ H). apply Sim_scalars, H.
Qed.
Lemma Sim_add_ro s f bc : Sim s f -> Sim (add_ro s bc) (add_ro f bc).
Proof.
  intros H. unfold add_ro. rewrite (S_ro _ _ H), (S_rc _ _ H), (S_pa _ _ H), (S_er _ _ H), (S_eb _ _ H). apply Sim_scalars, H.
Qed.

Lemma Sim_rune_step s f c i bc g1 g2 er : Sim s f -> Sim (rune_step s c i bc g1 g2 er) (rune_step f c i bc g1 g2 er).
Proof.
  intros H. unfold rune_step.
  remember (if (c <? 128)%N then s else set_nonascii s) as s1 eqn:Es1.
  remember (if (c <? 128)%N then f else set_nonascii f) as f1 eqn:Ef1.
  assert (Sim s1 f1) as H1 by (subst s1 f1; destruct (c <? 128)%N; [exact H|apply Sim_set_nonascii, H]).
  clear Es1 Ef1. cbv zeta. rewrite (S_rc _ _ H1).
  remember (if ((rune_count f1 + i) mod 100 =? 0)%N then add_ro s1 bc else s1) as s2 eqn:Es2.
  remember (if ((rune_count f1 + i) mod 100 =? 0)%N then add_ro f1 bc else f1) as f2 eqn:Ef2.
  assert (Sim s2 f2) as H2 by (subst s2 f2; destruct ((rune_count f1 + i) mod 100 =? 0)%N; [apply Sim_add_ro, H1|exact H1]).
  destruct (i <? 2)%N; [exact H2|apply Sim_touch, H2].
Qed.

Lemma Sim_rune_loop d : forall s f i bc g1 g2 er,
  Sim s f ->
  Sim (fst (fst (rune_loop s d i bc g1 g2 er))) (fst (fst (rune_loop f d i bc g1 g2 er))) /\
  snd (fst (rune_loop s d i bc g1 g2 er)) = snd (fst (rune_loop f d i bc g1 g2 er)) /\
  snd (rune_loop s d i bc g1 g2 er) = snd (rune_loop f d i bc g1 g2 er).
Proof.
  induction d as [|[c sz] d IH]; intros s f i bc g1 g2 er H; [simpl; auto|].
  rewrite !rune_loop_cons. apply IH, Sim_rune_step, H.
Qed.

Lemma Sim_add_string s f d : Sim s f -> Sim (add_string s d) (add_string f d).
Proof.
  intros H. unfold add_string. rewrite (S_rc _ _ H).
  pose proof (Sim_rune_loop d s f 0%N 0%N 0%N 0%N (rune_count f) H) as (H1 & Hn & Hb).
  destruct (rune_loop s d 0 0 0 0 (rune_count f)) as [[s1 n] bytes].
  destruct (rune_loop f d 0 0 0 0 (rune_count f)) as [[f1 n'] bytes']. simpl in H1, Hn, Hb. subst n' bytes'.
  rewrite (S_ro _ _ H1), (S_rc _ _ H1), (S_pa _ _ H1), (S_er _ _ H1), (S_eb _ _ H1). apply Sim_scalars, H1.
Qed.

Lemma Sim_add_strings ds : forall s f, Sim s f -> Sim (add_strings s ds) (add_strings f ds).
Proof. induction ds as [|d ds IH]; intros s f H; simpl; [exact H|]. apply IH, Sim_add_string, H. Qed.

(** a builder that was never reset has no empty slots *)
Definition no_empty (f : pbuilder) : Prop := forall k p, slots f k = Some p -> pl_data p <> [].

Lemma no_empty_touch f ng off : no_empty f -> no_empty (touch f ng off).
Proof.
  intros H k p Hs. destruct (N.eq_dec k ng) as [->|Hne].
  - rewrite touch_slot_same in Hs. inversion Hs. simpl. apply app_uvarint_nonempty.
  - rewrite touch_slot_other in Hs by exact Hne. eapply H; eauto.
Qed.

Lemma no_empty_rune_loop d : forall f i bc g1 g2 er, no_empty f -> no_empty (fst (fst (rune_loop f d i bc g1 g2 er))).
Proof.
  induction d as [|[c sz] d IH]; intros f i bc g1 g2 er H; cbn [rune_loop]; [exact H|].
  apply IH.
  set (f1 := if (c <? 128)%N then f else _).
  assert (no_empty f1) as H1 by (subst f1; destruct (c <? 128)%N; exact H).
  set (f2 := if ((rune_count f1 + i) mod 100 =? 0)%N then _ else f1).
  assert (no_empty f2) as H2 by (subst f2; destruct ((rune_count f1 + i) mod 100 =? 0)%N; exact H1).
  destruct (i <? 2)%N; [exact H2|apply no_empty_touch, H2].
Qed.

Lemma no_empty_add_strings ds : forall f, no_empty f -> no_empty (add_strings f ds).
Proof.
  induction ds as [|d ds IH]; intros f H; simpl; [exact H|]. apply IH.
  unfold add_string. pose proof (no_empty_rune_loop d f 0%N 0%N 0%N 0%N (rune_count f) H) as H1.
  destruct (rune_loop f d 0 0 0 0 (rune_count f)) as [[f1 n] bytes]. exact H1.
Qed.

(** ** what gets written *)
Lemma written_in s kd :
  In kd (written s) <->
  (snd kd = data_of s (fst kd) /\ data_of s (fst kd) <> [] /\ (In (fst kd) (populated s) \/ In (fst kd) (mapkeys s))).
Proof.
  unfold written. rewrite in_app_iff, !in_map_iff. split.
  - intros [(k & <- & Hk)|(k & <- & Hk)]; apply filter_In in Hk; destruct Hk as [Hin Hn]; apply nonempty_true in Hn; simpl; auto.
  - destruct kd as [k d]. simpl. intros (-> & Hne & [Hin|Hin]); [left|right]; exists k; (split; [reflexivity|]);
      apply filter_In; (split; [exact Hin|]); (destruct (data_of s k); [contradiction|reflexivity]).
Qed.

Lemma NoDup_map_fst_filter (g : N -> list N) (h : N -> bool) l :
  NoDup l -> NoDup (map fst (map (fun k => (k, g k)) (filter h l))).
Proof.
  intros H. rewrite map_map. simpl. rewrite map_id. apply NoDup_filter. exact H.
Qed.

Lemma NoDup_app_both {A} (l1 l2 : list A) :
  NoDup l1 -> NoDup l2 -> (forall x, In x l1 -> In x l2 -> False) -> NoDup (l1 ++ l2).
Proof.
  intros H1 H2 Hd. induction H1 as [|x l1 Hx H1 IH]; simpl; [exact H2|].
  constructor.
  - intros Hin. apply in_app_or in Hin. destruct Hin as [Hin|Hin]; [contradiction|]. apply (Hd x); [left; reflexivity|exact Hin].
  - apply IH. intros y Hy1 Hy2. apply (Hd y); [right; exact Hy1|exact Hy2].
Qed.

Lemma written_nodup s : Inv s -> NoDup (map fst (written s)).
Proof.
  intros [H1 H2 H3 H4 H5 H6]. unfold written. rewrite map_app.
  rewrite !map_map. simpl. rewrite !map_id.
  apply NoDup_app_both; [apply NoDup_filter, H1|apply NoDup_filter, H3|].
  intros k Ha Hb. apply filter_In in Ha. apply filter_In in Hb.
  destruct Ha as [Ha _]. destruct Hb as [Hb _]. apply H2 in Ha. apply H4 in Hb. destruct Ha, Hb. congruence.
Qed.

Theorem reuse_writes_same st docs :
  Inv st ->
  let s' := add_strings (reset_pb st) docs in
  let f' := add_strings fresh_pb docs in
  (forall kd, In kd (written s') <-> In kd (written f')) /\
  NoDup (map fst (written s')) /\ NoDup (map fst (written f')) /\
  pb_scalars s' = pb_scalars f'.
Proof.
  intros Hinv s' f'.
  assert (Sim s' f') as HS by (apply Sim_add_strings, Sim_reset_fresh, reset_all_empty, Hinv).
  assert (Inv s') as Is by (apply Inv_add_strings, Inv_reset, Hinv).
  assert (Inv f') as If by (apply Inv_add_strings, Inv_fresh).
  assert (no_empty f') as Hne by (apply no_empty_add_strings; intros k p Hs; discriminate).
  split; [|split; [apply written_nodup, Is|split; [apply written_nodup, If|]]].
  - intros kd. rewrite !written_in, (Sim_data s' f' (fst kd) HS), (S_pop _ _ HS).
    split; intros (H1 & H2 & H3); (split; [exact H1|]); (split; [exact H2|]);
      (destruct H3 as [H3|H3]; [left; exact H3|right]).
    + (* key of the reused map with live data -> key of the fresh map *)
      apply (I_keys _ Is) in H3. destruct H3 as [Ha _]. apply (I_keys _ If). split; [exact Ha|].
      intros Hn. apply H2. unfold data_of. rewrite Hn. reflexivity.
    + apply (I_keys _ If) in H3. destruct H3 as [Ha Hn]. apply (I_keys _ Is). split; [exact Ha|].
      pose proof (S_slots _ _ HS (fst kd)) as Hk. destruct (slots f' (fst kd)) as [p|]; [rewrite Hk; discriminate|contradiction].
  - unfold pb_scalars. rewrite (S_ro _ _ HS), (S_rc _ _ HS), (S_pa _ _ HS), (S_er _ _ HS), (S_eb _ _ HS). reflexivity.
Qed.

(** every state a pooled builder can be in *)
Inductive reachable : pbuilder -> Prop :=
| R_fresh : reachable fresh_pb
| R_add s d : reachable s -> reachable (add_string s d)
| R_reset s : reachable s -> reachable (reset_pb s).

Lemma reachable_Inv s : reachable s -> Inv s.
Proof. induction 1; [apply Inv_fresh|apply Inv_add_string; assumption|apply Inv_reset; assumption]. Qed.

(** ** the sorted list writePostings emits is the same, element for element *)
From Coq Require Import Permutation Sorting.Sorted.

Definition kle (a b : N * list N) : Prop := (fst a <= fst b)%N.

Lemma ins_ng_perm x l : Permutation (ins_ng x l) (x :: l).
Proof.
  induction l as [|y l IH]; simpl; [apply Permutation_refl|].
  destruct (fst x <? fst y)%N; [apply Permutation_refl|].
  eapply perm_trans; [apply perm_skip, IH|apply perm_swap].
Qed.
Lemma sort_ng_perm l : Permutation (sort_ng l) l.
Proof.
  induction l as [|x l IH]; simpl; [apply perm_nil|].
  eapply perm_trans; [apply ins_ng_perm|apply perm_skip, IH].
Qed.

Lemma ins_ng_sorted x l : StronglySorted kle l -> StronglySorted kle (ins_ng x l).
Proof.
  induction 1 as [|y l Hs IH Hall]; simpl; [repeat constructor|].
  destruct (fst x <? fst y)%N eqn:E.
  - apply N.ltb_lt in E. constructor; [constructor; assumption|].
    constructor; [unfold kle; lia|]. eapply Forall_impl; [|exact Hall]. unfold kle. intros a Ha. lia.
  - apply N.ltb_ge in E. constructor; [exact IH|].
    eapply Permutation_Forall; [apply Permutation_sym, ins_ng_perm|].
    constructor; [exact E|exact Hall].
Qed.
Lemma sort_ng_sorted l : StronglySorted kle (sort_ng l).
Proof. induction l as [|x l IH]; simpl; [constructor|apply ins_ng_sorted, IH]. Qed.

Lemma sorted_unique (l1 : list (N * list N)) : forall l2,
  StronglySorted kle l1 -> StronglySorted kle l2 ->
  NoDup (map fst l1) -> NoDup (map fst l2) -> (forall z, In z l1 <-> In z l2) -> l1 = l2.
Proof.
  induction l1 as [|x l1 IH]; intros [|y l2] S1 S2 N1 N2 Heq.
  - reflexivity.
  - exfalso. apply (proj2 (Heq y)). left. reflexivity.
  - exfalso. apply (proj1 (Heq x)). left. reflexivity.
  - apply StronglySorted_inv in S1. destruct S1 as [S1 A1].
    apply StronglySorted_inv in S2. destruct S2 as [S2 A2].
    simpl in N1, N2. apply NoDup_cons_iff in N1. destruct N1 as [Nx N1].
    apply NoDup_cons_iff in N2. destruct N2 as [Ny N2].
    rewrite Forall_forall in A1, A2.
    assert (x = y) as ->.
    { assert (In x (y :: l2)) as Hx by (apply Heq; left; reflexivity).
      assert (In y (x :: l1)) as Hy by (apply Heq; left; reflexivity).
      destruct Hx as [Hx|Hx]; [auto|]. destruct Hy as [Hy|Hy]; [auto|].
      pose proof (A2 _ Hx) as L1. pose proof (A1 _ Hy) as L2. unfold kle in L1, L2.
      assert (fst x = fst y) as E by lia. exfalso. apply Ny. rewrite <- E. apply in_map. exact Hx. }
    f_equal. apply IH; try assumption.
    intros z. split; intros Hz.
    + assert (In z (y :: l2)) as H by (apply Heq; right; exact Hz).
      destruct H as [->|H]; [|exact H]. exfalso. apply Nx. apply in_map. exact Hz.
    + assert (In z (y :: l1)) as H by (apply Heq; right; exact Hz).
      destruct H as [->|H]; [|exact H]. exfalso. apply Ny. apply in_map. exact Hz.
Qed.

Lemma sort_ng_unique l1 l2 :
  NoDup (map fst l1) -> NoDup (map fst l2) -> (forall z, In z l1 <-> In z l2) -> sort_ng l1 = sort_ng l2.
Proof.
  intros N1 N2 Heq. apply sorted_unique; try apply sort_ng_sorted.
  - eapply Permutation_NoDup; [|exact N1]. apply Permutation_map, Permutation_sym, sort_ng_perm.
  - eapply Permutation_NoDup; [|exact N2]. apply Permutation_map, Permutation_sym, sort_ng_perm.
  - intros z. split; intros Hz.
    + eapply Permutation_in; [apply Permutation_sym, sort_ng_perm|]. apply Heq. eapply Permutation_in; [apply sort_ng_perm|exact Hz].
    + eapply Permutation_in; [apply Permutation_sym, sort_ng_perm|]. apply Heq. eapply Permutation_in; [apply sort_ng_perm|exact Hz].
Qed.

Theorem reuse_writes_identical st docs :
  Inv st ->
  sort_ng (written (add_strings (reset_pb st) docs)) = sort_ng (written (add_strings fresh_pb docs)) /\
  pb_scalars (add_strings (reset_pb st) docs) = pb_scalars (add_strings fresh_pb docs).
Proof.
  intros H. destruct (reuse_writes_same st docs H) as (Heq & N1 & N2 & Hs).
  split; [apply sort_ng_unique; assumption|exact Hs].
Qed.
