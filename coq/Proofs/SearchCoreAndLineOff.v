(** C01: andLineMatchTree.matches at the level of OFFSETS, exactly as written (matchtree.go: `bo < lines[i].start` drop,
    `bo < lines[i].end` hit, otherwise move the line iterator forward while `bo >= lines[i].end`), and its equality with
    the line-number loop [al_lines] of Model/SearchCoreIters.v (which C01_andline_loop_exact proves correct).
    A line is the half-open range [lineStart(l), lineStart(l+1)); the only facts about the newline index that matter are
      o < lstart l  <->  line o < l        and        o < lend l  <->  line o <= l.
    With `<=` instead of `<` at the line start (a red-team change) the equality fails: a candidate at column 0 is lost. *)
From ZV Require Import Lib.Base Model.SearchCore Model.SearchCoreIters.
From Coq Require Import ZifyBool.

(** [strict = true] is the code; [strict = false] is the variant `bo <= lines[i].start` *)
Fixpoint alo_child (strict : bool) (s e : nat) (c : list nat) : list nat * al_out :=
  match c with
  | [] => ([], AlMiss)
  | o :: r => if (if strict then o <? s else o <=? s) then alo_child strict s e r
              else if o <? e then (c, AlHit) else (c, AlBeyond o)
  end.
Fixpoint alo_children (strict : bool) (s e : nat) (cs : list (list nat)) : list (list nat) * nat * option nat :=
  match cs with
  | [] => ([], 0, None)
  | c :: r =>
      match alo_child strict s e c with
      | (c', AlBeyond x) => (c' :: r, 0, Some x)
      | (c', AlHit) => let '(r', h, j) := alo_children strict s e r in (c' :: r', S h, j)
      | (c', AlMiss) => let '(r', h, j) := alo_children strict s e r in (c' :: r', h, j)
      end
  end.
Fixpoint drop_while_p (f : nat * nat -> bool) (l : list (nat * nat)) : list (nat * nat) :=
  match l with [] => [] | x :: r => if f x then drop_while_p f r else l end.
Fixpoint alo_lines (strict : bool) (fuel : nat) (lines : list (nat * nat)) (cs : list (list nat)) : bool :=
  match fuel with
  | 0 => false
  | S f =>
      match lines with
      | [] => false
      | (s, e) :: rest =>
          match alo_children strict s e cs with
          | (cs', _, Some x) => alo_lines strict f (drop_while_p (fun l => snd l <=? x) rest) cs'
          | (cs', h, None) => if h =? length cs then true else alo_lines strict f rest cs'
          end
      end
  end.

Section Equiv.
Variable line : nat -> nat.            (* newlines().atOffset *)
Variable lstart lend : nat -> nat.     (* lineStart(l), lineStart(l+1) *)
Hypothesis Hstart : forall o l, o < lstart l <-> line o < l.
Hypothesis Hend : forall o l, o < lend l <-> line o <= l.

Definition out_line (o : al_out) : al_out := match o with AlBeyond x => AlBeyond (line x) | other => other end.

Lemma alo_child_line : forall l c,
  al_child l (map line c) = (map line (fst (alo_child true (lstart l) (lend l) c)), out_line (snd (alo_child true (lstart l) (lend l) c))).
Proof.
  intros l c. induction c as [|o r IH]; [reflexivity|]. cbn [map al_child alo_child].
  pose proof (Hstart o l) as H1. pose proof (Hend o l) as H2.
  destruct (o <? lstart l) eqn:E1.
  - replace (line o <? l) with true by lia. exact IH.
  - replace (line o <? l) with false by lia. destruct (o <? lend l) eqn:E2.
    + replace (line o =? l) with true by lia. reflexivity.
    + replace (line o =? l) with false by lia. reflexivity.
Qed.

Lemma alo_children_line : forall l cs,
  al_children l (map (map line) cs) =
  let '(cs', h, j) := alo_children true (lstart l) (lend l) cs in (map (map line) cs', h, option_map line j).
Proof.
  intros l cs. induction cs as [|c r IH]; [reflexivity|]. cbn [map al_children alo_children].
  rewrite (alo_child_line l c). destruct (alo_child true (lstart l) (lend l) c) as [c' o]. cbn [fst snd].
  destruct o as [| |x]; cbn [out_line].
  - rewrite IH. destruct (alo_children true (lstart l) (lend l) r) as [[r' h] j]. reflexivity.
  - rewrite IH. destruct (alo_children true (lstart l) (lend l) r) as [[r' h] j]. reflexivity.
  - reflexivity.
Qed.

Lemma drop_lines : forall x rest,
  map (fun l => (lstart l, lend l)) (drop_while (fun l => l <? line x) rest) =
  drop_while_p (fun l => snd l <=? x) (map (fun l => (lstart l, lend l)) rest).
Proof.
  intros x rest. induction rest as [|l r IH]; [reflexivity|]. cbn [map drop_while drop_while_p snd].
  pose proof (Hend x l) as H2.
  destruct (l <? line x) eqn:E.
  - replace (lend l <=? x) with true by lia. exact IH.
  - replace (lend l <=? x) with false by lia. reflexivity.
Qed.

(** THE EQUALITY: the loop as written on byte/rune offsets is the loop on line numbers *)
Theorem alo_lines_line : forall fuel lines cs,
  alo_lines true fuel (map (fun l => (lstart l, lend l)) lines) cs = al_lines fuel lines (map (map line) cs).
Proof.
  induction fuel as [|f IH]; intros lines cs; [reflexivity|].
  destruct lines as [|l rest]; [reflexivity|]. cbn [map alo_lines al_lines].
  rewrite (alo_children_line l cs). destruct (alo_children true (lstart l) (lend l) cs) as [[cs' h] j].
  destruct j as [x|]; cbn [option_map].
  - rewrite <- drop_lines. apply IH.
  - rewrite map_length. destruct (h =? length cs); [reflexivity|apply IH].
Qed.
End Equiv.

(** the boundary matters: text "needle and thread\nneedle\n" (line 0 = offsets 0..17, line 1 = 18..24), base child
    "thread" (candidate at 11, line 0), other child "needle" (candidates at 0 and 18).  As written the line is found;
    with `<=` at the line start the candidate at column 0 is dropped and no line is found. *)
Example alo_boundary :
  alo_lines true 2 [(0, 18)] [[0; 18]] = true /\ alo_lines false 2 [(0, 18)] [[0; 18]] = false /\
  al_lines 2 [0] [[0; 1]] = true.
Proof. vm_compute. auto. Qed.
