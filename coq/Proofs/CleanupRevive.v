(** C32, fourth theorem: an assigned repository that is only tombstoned in the index is revived
    (shardMerging = true). *)
From ZV Require Import Lib.Base Model.Cleanup Proofs.CleanupProofs Proofs.CleanupUnassigned.
Open Scope Z_scope.

Definition present (b id : N) (x : dir) : Prop :=
  exists g, In g (d_index x) /\ f_base g = b /\ exists e, In e (f_repos g) /\ e_id e = id.
Definition alive_at (b id : N) (x : dir) : Prop :=
  exists g, In g (d_index x) /\ f_base g = b /\ has_alive id g.

Definition safeU (b id : N) (a : act) : Prop :=
  match a with
  | RmIndex b' => b' <> b
  | MvToTrash b' => b' <> b
  | Tomb b' id' true => b' <> b \/ id' <> id
  | TombOrRm b' _ _ => b' <> b
  | _ => True
  end.

Lemma set_flag_entries : forall id id' flag g,
  (exists e, In e (f_repos g) /\ e_id e = id) -> exists e, In e (f_repos (set_flag id' flag g)) /\ e_id e = id.
Proof.
  intros id id' flag g [e [He Hid]]. unfold set_flag. simpl.
  exists (if N.eqb (e_id e) id' then mkE (e_id e) (e_name e) flag (e_date e) else e). split.
  - apply in_map_iff. exists e. auto.
  - destruct (N.eqb (e_id e) id'); exact Hid.
Qed.

Lemma present_step : forall now b id a x, safeU b id a -> present b id x -> present b id (apply now x a).
Proof.
  intros now b id a x Hs [g [Hin [Hb He]]].
  destruct a as [b'|b'|b' id' flag|b' id' totr|b'|b'|b'|b'|]; simpl in *.
  - exists g. repeat split; auto. eapply rm_keeps; eauto.
  - exists g. auto.
  - exists (if N.eqb (f_base g) b' then set_flag id' flag g else g). split.
    + unfold on_file. apply in_map_iff. exists g. auto.
    + destruct (N.eqb (f_base g) b'); [|auto]. split; [exact Hb|]. apply set_flag_entries. exact He.
  - destruct (serves_others b' id' (d_index x)); simpl.
    + exists g. split; [|auto]. unfold on_file. apply in_map_iff. exists g. split; [|exact Hin].
      destruct (N.eqb (f_base g) b') eqn:E; [apply N.eqb_eq in E; congruence|reflexivity].
    + exists g. repeat split; auto. eapply rm_keeps; eauto.
  - exists (if N.eqb (f_base g) b' then touch now g else g). split.
    + unfold on_file. apply in_map_iff. exists g. auto.
    + destruct (N.eqb (f_base g) b'); auto.
  - exists g. auto.
  - destruct (find_file b' (d_index x)); simpl.
    + exists g. repeat split; auto. eapply rm_keeps; eauto.
    + exists g. auto.
  - destruct (find_file b' (d_trash x)); simpl.
    + exists g. repeat split; auto. apply in_or_app. auto.
    + exists g. auto.
  - exists g. auto.
Qed.

Lemma has_alive_set_flag_keep : forall id id' flag g,
  has_alive id g -> (flag = true -> id' <> id) -> has_alive id (set_flag id' flag g).
Proof.
  intros id id' flag g [e [He Hid]] Hk. unfold alive_entries in He. apply filter_In in He. destruct He as [He Ht].
  exists (if N.eqb (e_id e) id' then mkE (e_id e) (e_name e) flag (e_date e) else e). split.
  - unfold alive_entries, set_flag. simpl. apply filter_In. split.
    + apply in_map_iff. exists e. auto.
    + destruct (N.eqb (e_id e) id') eqn:E; [|exact Ht]. simpl.
      destruct flag; [|reflexivity]. exfalso. apply (Hk eq_refl). apply N.eqb_eq in E. congruence.
  - destruct (N.eqb (e_id e) id'); exact Hid.
Qed.

Lemma alive_step : forall now b id a x, safeU b id a -> alive_at b id x -> alive_at b id (apply now x a).
Proof.
  intros now b id a x Hs [g [Hin [Hb Ha]]].
  destruct a as [b'|b'|b' id' flag|b' id' totr|b'|b'|b'|b'|]; simpl in *.
  - exists g. repeat split; auto. eapply rm_keeps; eauto.
  - exists g. auto.
  - exists (if N.eqb (f_base g) b' then set_flag id' flag g else g). split.
    + unfold on_file. apply in_map_iff. exists g. auto.
    + destruct (N.eqb (f_base g) b') eqn:E; [|auto]. split; [exact Hb|].
      apply has_alive_set_flag_keep; [exact Ha|]. intros ->. apply N.eqb_eq in E.
      destruct Hs as [Hs|Hs]; [congruence|exact Hs].
  - destruct (serves_others b' id' (d_index x)); simpl.
    + exists g. split; [|auto]. unfold on_file. apply in_map_iff. exists g. split; [|exact Hin].
      destruct (N.eqb (f_base g) b') eqn:E; [apply N.eqb_eq in E; congruence|reflexivity].
    + exists g. repeat split; auto. eapply rm_keeps; eauto.
  - exists (if N.eqb (f_base g) b' then touch now g else g). split.
    + unfold on_file. apply in_map_iff. exists g. auto.
    + destruct (N.eqb (f_base g) b'); auto.
  - exists g. auto.
  - destruct (find_file b' (d_index x)); simpl.
    + exists g. repeat split; auto. eapply rm_keeps; eauto.
    + exists g. auto.
  - destruct (find_file b' (d_trash x)); simpl.
    + exists g. repeat split; auto. apply in_or_app. auto.
    + exists g. auto.
  - exists g. auto.
Qed.

(** UnsetTombstone on a present entry makes it alive *)
Lemma trigger_step : forall now b id x, present b id x -> alive_at b id (apply now x (Tomb b id false)).
Proof.
  intros now b id x [g [Hin [Hb [e [He Hid]]]]]. simpl.
  exists (set_flag id false g). split.
  - unfold on_file. apply in_map_iff. exists g. split; [|exact Hin].
    rewrite Hb, N.eqb_refl. reflexivity.
  - split; [exact Hb|]. exists (mkE (e_id e) (e_name e) false (e_date e)). split; [|exact Hid].
    unfold alive_entries, set_flag. simpl. apply filter_In. split; [|reflexivity].
    apply in_map_iff. exists e. split; [|exact He]. rewrite Hid, N.eqb_refl. reflexivity.
Qed.

Lemma revive_fold : forall now b id acts x,
  Forall (safeU b id) acts ->
  (present b id x /\ In (Tomb b id false) acts) \/ alive_at b id x ->
  alive_at b id (fold_left (apply now) acts x).
Proof.
  intros now b id acts. induction acts as [|a t IH]; intros x HF H.
  - destruct H as [[_ []]|H]. exact H.
  - simpl. inversion HF as [|? ? Hs HF']; subst. apply IH; [exact HF'|].
    destruct H as [[Hp [Heq|Hin]]|Ha]; [subst a| |].
    + right. apply trigger_step. exact Hp.
    + left. split; [apply present_step; assumption|exact Hin].
    + right. apply alive_step; assumption.
Qed.

(** ---- tomb_pick chooses one of the candidates *)
Lemma tomb_fold_in : forall (cs : list (N * Z)) init c,
  fold_left (fun best (c : N * Z) => match best with
                           | None => Some c
                           | Some b => if snd c <? snd b then Some b else Some c
                           end) cs init = Some c ->
  In c cs \/ init = Some c.
Proof.
  induction cs as [|c0 t IH]; intros init c H; simpl in H; [right; exact H|].
  apply IH in H. destruct H as [H|H]; [left; right; exact H|].
  destruct init as [b0|].
  - destruct (snd c0 <? snd b0); inversion H; subst; [right; reflexivity|left; left; reflexivity].
  - inversion H. left. left. reflexivity.
Qed.

Lemma tomb_fold_some : forall (cs : list (N * Z)) (init : option (N * Z)),
  (cs <> [] \/ init <> None) ->
  fold_left (fun best (c : N * Z) => match best with
                           | None => Some c
                           | Some b => if snd c <? snd b then Some b else Some c
                           end) cs init <> None.
Proof.
  induction cs as [|c0 t IH]; intros init H; simpl.
  - destruct H as [H|H]; [congruence|exact H].
  - apply IH. right. destruct init as [b0|]; [destruct (snd c0 <? snd b0)|]; discriminate.
Qed.

Lemma candidate_file : forall fs id b dt, In (b, dt) (tomb_candidates fs id) ->
  exists g, In g fs /\ f_base g = b /\ f_compound g = true /\ exists e, In e (f_repos g) /\ e_id e = id.
Proof.
  intros fs id b dt H. unfold tomb_candidates in H. apply in_flat_map in H. destruct H as [g [Hg H]].
  destruct (f_compound g) eqn:C; [|contradiction].
  apply in_map_iff in H. destruct H as [e [E He]]. inversion E; subst.
  apply filter_In in He. destruct He as [He Ht]. apply andb_true_iff in Ht. destruct Ht as [_ Ht].
  apply N.eqb_eq in Ht. exists g. repeat split; auto. exists e. auto.
Qed.

Lemma tomb_ids_candidates : forall fs id, In id (tomb_ids fs) -> tomb_candidates fs id <> [].
Proof.
  intros fs id H. unfold tomb_ids in H. apply nodup_In in H. apply in_flat_map in H. destruct H as [g [Hg H]].
  destruct (f_compound g) eqn:C; [|contradiction].
  apply in_map_iff in H. destruct H as [e [E He]]. apply filter_In in He. destruct He as [He Ht].
  intros Hnil.
  assert (Hin : In (f_base g, e_date e) (tomb_candidates fs id)).
  { unfold tomb_candidates. apply in_flat_map. exists g. split; [exact Hg|]. rewrite C.
    apply in_map_iff. exists e. split; [reflexivity|]. apply filter_In. split; [exact He|].
    rewrite Ht. simpl. apply N.eqb_eq. exact E. }
  rewrite Hnil in Hin. contradiction.
Qed.

Section Revive.
  Variables (d : dir) (repos : list N) (now : Z) (id : N).
  Hypothesis Hwf : wf d.
  Hypothesis Hassigned : In id repos.
  Hypothesis Hnot_alive : ~ In id (ids_of (ix d)).
  Hypothesis Hnot_trash : ~ In id (trash_keys d now).
  Hypothesis Htomb : In id (tomb_ids (d_index d)).

  Lemma pick_some : exists b, tomb_pick (tomb_candidates (d_index d) id) = Some b /\
    exists g, In g (d_index d) /\ f_base g = b /\ f_compound g = true /\ exists e, In e (f_repos g) /\ e_id e = id.
  Proof.
    pose proof (tomb_ids_candidates _ _ Htomb) as Hne.
    unfold tomb_pick.
    destruct (fold_left _ (tomb_candidates (d_index d) id) None) as [[b dt]|] eqn:F.
    - exists b. split; [reflexivity|]. apply tomb_fold_in in F. destruct F as [F|F]; [|discriminate].
      eapply candidate_file; eauto.
    - exfalso. revert F. apply tomb_fold_some. left. exact Hne.
  Qed.

  Lemma id_in_tomb_keys : memN id (tomb_keys d now) = true.
  Proof.
    apply memN_In. unfold tomb_keys. apply filter_In. split; [exact Htomb|].
    apply andb_true_iff. split; apply negb_true_iff.
    - destruct (memN id (ids_of (ix d))) eqn:M; [|reflexivity]. apply memN_In in M. contradiction.
    - destruct (memN id (trash_keys d now)) eqn:M; [|reflexivity]. apply memN_In in M. contradiction.
  Qed.

  Theorem assigned_untombstoned :
    exists b, tomb_pick (tomb_candidates (d_index d) id) = Some b /\ alive_at b id (cleanup d repos now true).
  Proof.
    destruct pick_some as [b [Hp [g [Hg [Hb [Hc He]]]]]].
    exists b. split; [exact Hp|].
    unfold cleanup. apply revive_fold.
    - (* no action removes the shard or tombstones id in it *)
      assert (Hcomp : forall s i, In s (group (ix d) i) -> s_base s = b -> s_compound s = true).
      { intros s i Hs Hsb. apply in_group in Hs. destruct Hs as [Hs _].
        apply in_get_shards in Hs. destruct Hs as [g2 [e2 [Hg2 [_ ->]]]]. simpl in *.
        assert (g2 = g) by (eapply NoDup_base_inj; eauto using wf_nodup; congruence). subst g2. exact Hc. }
      assert (Hneq : forall i, In i (ids_of (ix d)) -> i <> id) by (intros i Hi ->; contradiction).
      unfold plan. repeat rewrite Forall_app. repeat split.
      + apply Forall_forall. intros a Ha. unfold plan1 in Ha. apply in_flat_map in Ha. destruct Ha as [i [_ Ha]].
        apply in_app_or in Ha. destruct Ha as [Ha|Ha].
        * apply in_map_iff in Ha. destruct Ha as [s [<- _]]. exact I.
        * destruct (trash_drop d now i); [|contradiction].
          apply in_map_iff in Ha. destruct Ha as [s [<- _]]. exact I.
      + apply Forall_forall. intros a Ha. unfold plan3 in Ha. apply in_flat_map in Ha. destruct Ha as [i [Hi Ha]].
        destruct (consistent (group (ix d) i)); [contradiction|].
        apply in_app_or in Ha. destruct Ha as [Ha|Ha]; apply in_map_iff in Ha; destruct Ha as [s [<- Hs]]; simpl.
        * right. apply Hneq. exact Hi.
        * apply filter_In in Hs. destruct Hs as [Hs Hk]. simpl in Hk.
          destruct (s_compound s) eqn:K; [discriminate|]. simpl.
          intros Hsb. rewrite (Hcomp s i Hs Hsb) in K. discriminate.
      + apply Forall_forall. intros a Ha. unfold plan4 in Ha. apply in_flat_map in Ha. destruct Ha as [i [_ Ha]].
        destruct (memN i (trash_keys d now)) eqn:TK.
        * apply in_flat_map in Ha. destruct Ha as [s [Hs Ha]].
          unfold move_to in Ha. simpl in Ha. destruct Ha as [<-|Ha].
          -- simpl. intros Hsb. apply in_group in Hs. destruct Hs as [Hs Hi].
             apply in_get_shards in Hs. destruct Hs as [t [e' [Ht [He' ->]]]]. simpl in *.
             assert (Hbb : f_base t = f_base g) by congruence.
             pose proof (wf_trash_names d Hwf t g e' Ht Hg Hbb He') as Hin. rewrite Hi in Hin.
             apply memN_In in TK. unfold trash_keys in TK. apply filter_In in TK. destruct TK as [_ TK].
             unfold trash_drop in TK. apply memN_In in Hin. unfold ix in TK. rewrite Hin in TK. discriminate.
          -- destruct (s_compound s); simpl in Ha; destruct Ha as [<-|[]]; exact I.
        * destruct (memN i (tomb_keys d now)); [|contradiction].
          destruct (tomb_pick (tomb_candidates (d_index d) i)); [|contradiction].
          destruct Ha as [<-|[]]. exact I.
      + apply Forall_forall. intros a Ha. unfold plan5 in Ha. apply in_flat_map in Ha. destruct Ha as [i [Hi Ha]].
        assert (Hi' : In i (ids_of (ix d))).
        { unfold keys4, keys3 in Hi. apply filter_In in Hi. destruct Hi as [Hi _]. apply filter_In in Hi. tauto. }
        apply in_app_or in Ha. destruct Ha as [Ha|Ha].
        * apply in_map_iff in Ha. destruct Ha as [s [<- _]]. exact I.
        * apply in_app_or in Ha. destruct Ha as [Ha|Ha].
          -- apply in_map_iff in Ha. destruct Ha as [s [<- _]]. simpl. right. apply Hneq. exact Hi'.
          -- apply in_flat_map in Ha. destruct Ha as [s [Hs Ha]].
             apply filter_In in Hs. destruct Hs as [Hs Hk]. simpl in Hk.
             destruct (s_compound s) eqn:K; [discriminate|].
             assert (Hsb : s_base s <> b).
             { intros Hsb. rewrite (Hcomp s i Hs Hsb) in K. discriminate. }
             unfold move_to in Ha. rewrite K in Ha. simpl in Ha.
             destruct Ha as [<-|[<-|[]]]; [exact I|exact Hsb].
      + constructor; [exact I|constructor].
    - left. split.
      + exists g. repeat split; auto.
      + unfold plan. apply in_or_app. right. apply in_or_app. right. apply in_or_app. left.
        unfold plan4. apply in_flat_map. exists id. split; [exact Hassigned|].
        destruct (memN id (trash_keys d now)) eqn:M; [apply memN_In in M; contradiction|].
        rewrite id_in_tomb_keys, Hp. left. reflexivity.
  Qed.
End Revive.

(** ---- both modes: with shardMerging = false the same holds provided no RENAMED repository is alive in the selected
    shard (the rename purge runs before the revival and may remove a shard in which nothing else is alive).
    After the revival the repository itself is a live tenant, so the shard survives the last phase. *)
Definition safeA (b id : N) (a : act) : Prop :=
  match a with
  | RmIndex b' => b' <> b
  | MvToTrash b' => b' <> b
  | Tomb b' id' true => b' <> b \/ id' <> id
  | TombOrRm b' id' _ => b' <> b \/ id' <> id
  | _ => True
  end.

Lemma safeU_safeA : forall b id a, safeU b id a -> safeA b id a.
Proof. intros b id a H. destruct a; simpl in *; auto. Qed.

Lemma has_alive_others : forall id id' g, has_alive id g -> id' <> id -> others_alive id' g = true.
Proof.
  intros id id' g [e [He Hid]] Hne. unfold alive_entries in He. apply filter_In in He. destruct He as [He Ht].
  unfold others_alive. apply existsb_exists. exists e. split; [exact He|]. rewrite Ht. simpl.
  apply negb_true_iff. apply N.eqb_neq. congruence.
Qed.

Lemma alive_stepA : forall now b id a x, safeA b id a -> alive_at b id x -> alive_at b id (apply now x a).
Proof.
  intros now b id a x Hs Hal.
  destruct a as [b'|b'|b' id' flag|b' id' totr|b'|b'|b'|b'|];
    try (apply alive_step; [exact Hs|exact Hal]).
  destruct Hal as [g [Hin [Hb Ha]]]. simpl in *.
    destruct (N.eq_dec b' b) as [Eb|Nb].
    + destruct Hs as [Hs|Hs]; [contradiction|].
      assert (SO : serves_others b' id' (d_index x) = true).
      { unfold serves_others. apply existsb_exists. exists g. split; [exact Hin|].
        apply andb_true_iff. split; [apply N.eqb_eq; congruence|]. eapply has_alive_others; eauto. }
      rewrite SO. simpl. exists (if N.eqb (f_base g) b' then set_flag id' true g else g). split.
      * unfold on_file. apply in_map_iff. exists g. auto.
      * destruct (N.eqb (f_base g) b'); [|auto]. split; [exact Hb|].
        apply has_alive_set_flag_keep; [exact Ha|]. intros _. exact Hs.
    + destruct (serves_others b' id' (d_index x)); simpl.
      * exists g. split; [|auto]. unfold on_file. apply in_map_iff. exists g. split; [|exact Hin].
        destruct (N.eqb (f_base g) b') eqn:E; [apply N.eqb_eq in E; congruence|reflexivity].
      * exists g. repeat split; auto. eapply rm_keeps; eauto.
Qed.

Lemma present_fold : forall now b id acts x,
  Forall (safeU b id) acts -> present b id x -> present b id (fold_left (apply now) acts x).
Proof.
  intros now b id acts. induction acts as [|a t IH]; intros x HF H; [exact H|].
  simpl. inversion HF; subst. apply IH; [assumption|]. apply present_step; assumption.
Qed.

Lemma alive_foldA : forall now b id acts x,
  Forall (safeA b id) acts -> alive_at b id x -> alive_at b id (fold_left (apply now) acts x).
Proof.
  intros now b id acts. induction acts as [|a t IH]; intros x HF H; [exact H|].
  simpl. inversion HF; subst. apply IH; [assumption|]. apply alive_stepA; assumption.
Qed.

Section ReviveAny.
  Variables (d : dir) (repos : list N) (now : Z) (sm : bool) (id : N).
  Hypothesis Hwf : wf d.
  Hypothesis Hassigned : In id repos.
  Hypothesis Hnot_alive : ~ In id (ids_of (ix d)).
  Hypothesis Hnot_trash : ~ In id (trash_keys d now).
  Hypothesis Htomb : In id (tomb_ids (d_index d)).
  (* no renamed repository (same id, several names) is alive in the shard getTombstonedRepos selects *)
  Hypothesis Hno_renamed : forall b, tomb_pick (tomb_candidates (d_index d) id) = Some b ->
    forall s i, In s (group (ix d) i) -> s_base s = b -> consistent (group (ix d) i) = true.

  Theorem assigned_untombstoned_any :
    exists b, tomb_pick (tomb_candidates (d_index d) id) = Some b /\ alive_at b id (cleanup d repos now sm).
  Proof.
    destruct (pick_some d id Htomb) as [b [Hp [g [Hg [Hb [Hc He]]]]]].
    exists b. split; [exact Hp|].
    assert (Hcomp : forall s i, In s (group (ix d) i) -> s_base s = b -> s_compound s = true).
    { intros s i Hs Hsb. apply in_group in Hs. destruct Hs as [Hs _].
      apply in_get_shards in Hs. destruct Hs as [g2 [e2 [Hg2 [_ ->]]]]. simpl in *.
      assert (g2 = g) by (eapply NoDup_base_inj; eauto using wf_nodup; congruence). subst g2. exact Hc. }
    assert (Hneq : forall i, In i (ids_of (ix d)) -> i <> id) by (intros i Hi ->; contradiction).
    (* the actions before the revival keep the shard, those after it keep the repository alive in it *)
    assert (P1 : Forall (safeU b id) (plan1 d now)).
    { apply Forall_forall. intros a Ha. unfold plan1 in Ha. apply in_flat_map in Ha. destruct Ha as [i [_ Ha]].
      apply in_app_or in Ha. destruct Ha as [Ha|Ha].
      - apply in_map_iff in Ha. destruct Ha as [s [<- _]]. exact I.
      - destruct (trash_drop d now i); [|contradiction].
        apply in_map_iff in Ha. destruct Ha as [s [<- _]]. exact I. }
    assert (P3 : Forall (safeU b id) (plan3 d sm)).
    { apply Forall_forall. intros a Ha. unfold plan3 in Ha. apply in_flat_map in Ha. destruct Ha as [i [Hi Ha]].
      destruct (consistent (group (ix d) i)) eqn:C; [contradiction|].
      apply in_app_or in Ha. destruct Ha as [Ha|Ha]; apply in_map_iff in Ha; destruct Ha as [s [<- Hs]]; simpl.
      - right. apply Hneq. exact Hi.
      - apply filter_In in Hs. destruct Hs as [Hs _].
        assert (Hsb : s_base s <> b).
        { intros Hsb. rewrite (Hno_renamed b Hp s i Hs Hsb) in C. discriminate. }
        destruct (s_compound s); simpl; exact Hsb. }
    assert (P4 : Forall (safeU b id) (plan4 d repos now)).
    { apply Forall_forall. intros a Ha. unfold plan4 in Ha. apply in_flat_map in Ha. destruct Ha as [i [_ Ha]].
      destruct (memN i (trash_keys d now)) eqn:TK.
      - apply in_flat_map in Ha. destruct Ha as [s [Hs Ha]].
        unfold move_to in Ha. simpl in Ha. destruct Ha as [<-|Ha].
        + simpl. intros Hsb. apply in_group in Hs. destruct Hs as [Hs Hi].
          apply in_get_shards in Hs. destruct Hs as [t [e' [Ht [He' ->]]]]. simpl in *.
          assert (Hbb : f_base t = f_base g) by congruence.
          pose proof (wf_trash_names d Hwf t g e' Ht Hg Hbb He') as Hin. rewrite Hi in Hin.
          apply memN_In in TK. unfold trash_keys in TK. apply filter_In in TK. destruct TK as [_ TK].
          unfold trash_drop in TK. apply memN_In in Hin. unfold ix in TK. rewrite Hin in TK. discriminate.
        + destruct (s_compound s); simpl in Ha; destruct Ha as [<-|[]]; exact I.
      - destruct (memN i (tomb_keys d now)); [|contradiction].
        destruct (tomb_pick (tomb_candidates (d_index d) i)); [|contradiction].
        destruct Ha as [<-|[]]. exact I. }
    assert (P5 : Forall (safeA b id) (plan5 d repos sm)).
    { apply Forall_forall. intros a Ha. unfold plan5 in Ha. apply in_flat_map in Ha. destruct Ha as [i [Hi Ha]].
      assert (Hi' : In i (ids_of (ix d))).
      { unfold keys4, keys3 in Hi. apply filter_In in Hi. destruct Hi as [Hi _]. apply filter_In in Hi. tauto. }
      apply in_app_or in Ha. destruct Ha as [Ha|Ha].
      - apply in_map_iff in Ha. destruct Ha as [s [<- _]]. exact I.
      - apply in_app_or in Ha. destruct Ha as [Ha|Ha].
        + apply in_map_iff in Ha. destruct Ha as [s [<- _]]. simpl. right. apply Hneq. exact Hi'.
        + apply in_flat_map in Ha. destruct Ha as [s [Hs Ha]].
          apply filter_In in Hs. destruct Hs as [Hs _].
          destruct (s_compound s) eqn:K.
          * destruct Ha as [<-|[]]. simpl. right. apply Hneq. exact Hi'.
          * assert (Hsb : s_base s <> b) by (intros Hsb; rewrite (Hcomp s i Hs Hsb) in K; discriminate).
            unfold move_to in Ha. rewrite K in Ha. simpl in Ha.
            destruct Ha as [<-|[<-|[]]]; [exact I|exact Hsb]. }
    (* the revival itself *)
    assert (Htrig : In (Tomb b id false) (plan4 d repos now)).
    { unfold plan4. apply in_flat_map. exists id. split; [exact Hassigned|].
      destruct (memN id (trash_keys d now)) eqn:M; [apply memN_In in M; contradiction|].
      rewrite (id_in_tomb_keys d now id Hnot_alive Hnot_trash Htomb), Hp. left. reflexivity. }
    apply in_split in Htrig. destruct Htrig as [p4a [p4b Hsplit]].
    rewrite Hsplit in P4. apply Forall_app in P4. destruct P4 as [P4a P4b]. pose proof (Forall_inv_tail P4b) as P4b'.
    unfold cleanup, plan. rewrite Hsplit.
    repeat rewrite fold_left_app.
    change (fold_left (apply now) (Tomb b id false :: p4b) ?X) with (fold_left (apply now) p4b (apply now X (Tomb b id false))).
    apply alive_foldA; [constructor; [exact I|constructor]|].
    apply alive_foldA; [exact P5|].
    apply alive_foldA; [eapply Forall_impl; [|exact P4b']; apply safeU_safeA|].
    apply trigger_step.
    apply present_fold; [exact P4a|].
    apply present_fold; [exact P3|].
    apply present_fold; [exact P1|].
    exists g. repeat split; auto.
  Qed.
End ReviveAny.

(** shardMerging = false: the rename purge removes a compound shard in which nothing but the renamed repository is
    alive; an assigned repository tombstoned in it (3) is then not revived from it (it was not searchable before) *)
Definition ex_dir3 : dir :=
  mkD [mkF 0 true (-3600) [mkE 1 1 false 1000; mkE 3 3 true 1000];
       mkF 1 false (-3600) [mkE 1 11 false 1000]] [] 0.

Theorem assigned_untombstoned_no_merging_refuted :
  exists d repos now id,
    wf d /\ In id repos /\ ~ In id (ids_of (ix d)) /\ ~ In id (trash_keys d now) /\ In id (tomb_ids (d_index d)) /\
    d_index (cleanup d repos now false) = [] /\
    (exists b, alive_at b id (cleanup d repos now true)).
Proof.
  exists ex_dir3, [1%N; 3%N], 0, 3%N.
  split.
  { constructor; simpl.
    - constructor; [intros [H|[]]; discriminate|constructor; [intros []|constructor]].
    - intros f e e' [<-|[<-|[]]] C; try discriminate. simpl. intros [<-|[]] [<-|[]]. reflexivity.
    - intros t f e []. }
  split; [simpl; auto|]. split; [vm_compute; intros [H|[]]; discriminate|]. split; [vm_compute; intros []|].
  split; [vm_compute; auto|]. split; [reflexivity|].
  exists 0%N, (mkF 0 true (-3600) [mkE 1 1 true 1000; mkE 3 3 false 1000]).
  split; [vm_compute; left; reflexivity|]. split; [reflexivity|].
  exists (mkE 3 3 false 1000). split; [vm_compute; left; reflexivity|reflexivity].
Qed.
