(** The executable end-set semantics [ends] computes exactly the declarative semantics [m]
    (in particular the fuel of the star closure always suffices). *)
From Coq Require Import List NArith Arith Bool Lia.
From ZV Require Import Model.Regex Proofs.RegexBasics.
Import ListNotations.

Lemma dedup_in x l : In x (dedup l) <-> In x l.
Proof. unfold dedup. apply nodup_In. Qed.

(** matches move forward and stay inside the text *)
Definition good (t : list N) (i j : nat) : Prop := i <= j /\ (i = j \/ j <= length t).
Lemma good_refl t i : good t i i. Proof. unfold good; lia. Qed.
Lemma good_trans t i k j : good t i k -> good t k j -> good t i j. Proof. unfold good; lia. Qed.
Lemma pow_good (P : rel) t n : rsub P (good t) -> rsub (pow P n) (good t).
Proof.
  intros H. induction n as [|n IH]; intros i j; simpl.
  - intros ->. apply good_refl.
  - intros (k & A & B). eapply good_trans; [apply H; exact A | apply IH; exact B].
Qed.

Section Ends.
Variable orbit : N -> list N.
Notation M := (m orbit).
Notation E := (ends orbit).

Lemma step_good t p : rsub (step_m t p) (good t).
Proof.
  intros i j (c & A & _ & ->). assert (i < length t) by (apply nth_error_Some; rewrite A; discriminate).
  unfold good; lia.
Qed.
Lemma lit_good f rs t : rsub (lit_m orbit f rs t) (good t).
Proof.
  induction rs as [|r rs IH]; intros i j; simpl.
  - intros ->; apply good_refl.
  - intros (c & A & _ & B). apply IH in B. assert (i < length t) by (apply nth_error_Some; rewrite A; discriminate).
    unfold good in *; lia.
Qed.

Lemma m_good : forall r t, rsub (M r t) (good t).
Proof.
  induction r using re_ind2; intros t.
  - destruct r; try contradiction; intros i j; simpl; try apply step_good; try apply lit_good;
      try (intros [_ ->]; apply good_refl); try tauto.
    intros ->; apply good_refl.
  - intros i j; simpl; apply IHr.
  - intros i j (n & Hp). eapply pow_good; [apply IHr | exact Hp].
  - intros i j (n & _ & Hp). eapply pow_good; [apply IHr | exact Hp].
  - intros i j [->|Hm]; [apply good_refl | apply IHr; exact Hm].
  - intros i j (n & _ & _ & Hp). eapply pow_good; [apply IHr | exact Hp].
  - intros i j Hm. apply m_concat in Hm. revert i Hm. induction H as [|x xs Hx _ IH]; intros i; simpl.
    + intros ->; apply good_refl.
    + intros (k & A & B). eapply good_trans; [apply Hx; exact A | apply IH; exact B].
  - intros i j Hm. apply m_alt in Hm. destruct Hm as (a & Ha & Hm). rewrite Forall_forall in H. eapply H; eauto.
Qed.

(** closure *)
Section Closure.
  Variable t : list N.
  Variable f : nat -> list nat.
  Variable P : rel.
  Hypothesis Hf : forall i j, In j (f i) <-> P i j.
  Hypothesis Hg : rsub P (good t).

  Lemma star_ends_sound : forall fuel i j, In j (star_ends f fuel i) -> rstar P i j.
  Proof.
    induction fuel as [|fu IH]; intros i j; cbn [star_ends].
    - intros [<-|[]]. apply rstar_refl.
    - intros Hin. apply (proj1 (dedup_in _ _)) in Hin. destruct Hin as [<-|Hin]; [apply rstar_refl|].
      apply in_flat_map in Hin. destruct Hin as (k & Hk & Hin). cbv beta in Hin.
      destruct (i <? k); [|destruct Hin].
      eapply rstar_trans; [apply rstar_step; apply Hf; exact Hk | apply IH; exact Hin].
  Qed.

  Lemma star_ends_self fuel i : In i (star_ends f fuel i).
  Proof. destruct fuel; cbn [star_ends]; [left; reflexivity | apply dedup_in; left; reflexivity]. Qed.

  Lemma star_ends_complete : forall n fuel i j, length t - i < fuel -> pow P n i j -> In j (star_ends f fuel i).
  Proof.
    induction n as [|n IH]; intros fuel i j Hfuel; simpl.
    - intros <-. apply star_ends_self.
    - intros (k & A & B). destruct (Nat.eq_dec k i) as [->|Hne].
      + apply IH; assumption.
      + pose proof (Hg _ _ A) as [G1 G2]. destruct fuel as [|fu]; [lia|]. cbn [star_ends]. apply dedup_in. right.
        apply in_flat_map. exists k. split; [apply Hf; exact A|].
        assert (Hlt : (i <? k) = true) by (apply Nat.ltb_lt; lia). rewrite Hlt.
        apply IH; [lia | exact B].
  Qed.

  Lemma star_ends_spec i j : In j (star_ends f (star_fuel t i) i) <-> rstar P i j.
  Proof.
    split; [apply star_ends_sound|]. intros (n & _ & _ & Hp). eapply star_ends_complete; [|exact Hp].
    unfold star_fuel; lia.
  Qed.

  Lemma flat_step l j : In j (dedup (flat_map f l)) <-> exists i, In i l /\ P i j.
  Proof.
    rewrite dedup_in, in_flat_map. split; intros (i & A & B); exists i; (split; [exact A|]); apply Hf; exact B.
  Qed.

  Lemma pow_ends_spec : forall n l j, In j (pow_ends f n l) <-> exists i, In i l /\ pow P n i j.
  Proof.
    induction n as [|n IH]; intros l j; simpl.
    - split. + intros H; exists j; auto. + intros (i & A & ->); exact A.
    - rewrite IH. split.
      + intros (k & A & B). apply flat_step in A. destruct A as (i & A & C). exists i. split; [exact A|]. exists k; auto.
      + intros (i & A & k & B & C). exists k. split; [|exact C]. apply flat_step. exists i; auto.
  Qed.

  Lemma upto_ends_spec : forall n l j, In j (upto_ends f n l) <-> exists i, In i l /\ exists k, k <= n /\ pow P k i j.
  Proof.
    induction n as [|n IH]; intros l j; simpl.
    - split.
      + intros H; exists j. split; [exact H|]. exists 0. simpl; auto.
      + intros (i & A & k & Hk & B). assert (k = 0) by lia. subst. simpl in B. subst; exact A.
    - rewrite dedup_in, in_app_iff, IH. split.
      + intros [H|(k & A & n' & Hn & B)].
        * exists j. split; [exact H|]. exists 0. simpl; split; [lia | reflexivity].
        * apply flat_step in A. destruct A as (i & A & C). exists i. split; [exact A|]. exists (S n'). split; [lia|]. exists k; auto.
      + intros (i & A & k & Hk & B). destruct k as [|k].
        * simpl in B. subst. left; exact A.
        * right. simpl in B. destruct B as (k1 & B & C). exists k1. split; [apply flat_step; exists i; auto|].
          exists k. split; [lia | exact C].
  Qed.

  Lemma star_from l j : In j (dedup (flat_map (fun k => star_ends f (star_fuel t k) k) l)) <-> exists k, In k l /\ rstar P k j.
  Proof.
    rewrite dedup_in, in_flat_map. split; intros (k & A & B); exists k; (split; [exact A|]); apply star_ends_spec; exact B.
  Qed.
End Closure.

Definition ends_seq (rs : list re) (t : list N) : list nat -> list nat :=
  (fix go (rs : list re) (l : list nat) : list nat :=
     match rs with [] => l | r' :: rs' => go rs' (dedup (flat_map (E r' t) l)) end) rs.
Definition ends_alt (rs : list re) (t : list N) (i : nat) : list nat :=
  (fix go (rs : list re) : list nat :=
     match rs with [] => [] | r' :: rs' => E r' t i ++ go rs' end) rs.
Lemma ends_concat rs t i : E (RConcat rs) t i = ends_seq rs t [i].
Proof. reflexivity. Qed.
Lemma ends_alt_eq rs t i : E (RAlt rs) t i = ends_alt rs t i.
Proof. reflexivity. Qed.

Lemma lit_ends_spec f rs t : forall i j, In j (lit_ends orbit f rs t i) <-> lit_m orbit f rs t i j.
Proof.
  induction rs as [|r rs IH]; intros i j; simpl.
  - split; [intros [<-|[]]; reflexivity | intros ->; left; reflexivity].
  - destruct (nth_error t i) as [c|] eqn:Hc.
    + destruct (fold_eq orbit f r c) eqn:Hf.
      * rewrite IH. split; [intros H; exists c; auto | intros (c' & A & _ & B); exact B].
      * split; [intros [] | intros (c' & A & B & _)]. injection A as <-. congruence.
    + split; [intros [] | intros (c' & A & _)]; discriminate.
Qed.
Lemma step1_spec t p i j : In j (step1 t i p) <-> step_m t p i j.
Proof.
  unfold step1, step_m. destruct (nth_error t i) as [c|] eqn:Hc.
  - destruct (p c) eqn:Hp; simpl.
    + split; [intros [<-|[]]; exists c; auto | intros (c' & _ & _ & ->); left; reflexivity].
    + split; [intros [] | intros (c' & A & B & _)]. injection A as <-. congruence.
  - split; [intros [] | intros (c' & A & _)]; discriminate.
Qed.

Lemma if_in (b : bool) (i j : nat) : In j (if b then [i] else []) <-> b = true /\ i = j.
Proof. destruct b; simpl; split; try tauto; try (intros [[]|[]]); try (intros [A _]; discriminate); intuition. Qed.

Theorem ends_spec : forall r t i j, In j (E r t i) <-> M r t i j.
Proof.
  induction r using re_ind2; intros t i j.
  - destruct r; try contradiction; simpl E; simpl M.
    + tauto.
    + simpl. intuition.
    + apply lit_ends_spec.
    + apply step1_spec.
    + apply step1_spec.
    + apply step1_spec.
    + apply if_in.
    + apply if_in.
    + rewrite if_in, Nat.eqb_eq. tauto.
    + rewrite if_in, Nat.eqb_eq. tauto.
    + rewrite if_in, negb_true_iff. split; intros [A B]; (split; [|exact B]).
      * intros Heq. rewrite Heq, eqb_reflx in A. discriminate.
      * destruct (Bool.eqb (word_before t i) (word_at t i)) eqn:Hb; [|reflexivity]. apply eqb_prop in Hb. contradiction.
    + rewrite if_in. split; intros [A B]; (split; [|exact B]); [apply eqb_prop; exact A | rewrite A; apply eqb_reflx].
  - simpl. apply IHr.
  - cbn [ends]. rewrite (star_ends_spec t (E r t) (M r t) (IHr t) (m_good r t)). symmetry. apply m_star.
  - cbn [ends]. rewrite (star_from t (E r t) (M r t) (IHr t) (m_good r t)). rewrite (m_plus orbit r t i j), rplus_unfold.
    split; intros (k & A & B); exists k; (split; [|exact B]); apply IHr; exact A.
  - cbn [ends]. rewrite dedup_in. cbn [In]. rewrite IHr. simpl M. intuition.
  - cbn [ends]. rewrite (m_repeat orbit mn mx r t i j). destruct mx as [x|].
    + rewrite (upto_ends_spec (E r t) (M r t) (IHr t)). unfold rep. split.
      * intros (k & A & n & Hn & B). destruct (mn <=? x) eqn:Hle; [|destruct A]. apply Nat.leb_le in Hle.
        apply (pow_ends_spec (E r t) (M r t) (IHr t)) in A. destruct A as (i0 & [<-|[]] & A).
        exists (mn + n). repeat split; try lia. apply pow_add. exists k; auto.
      * intros (n & A & B & Hp). replace n with (mn + (n - mn)) in Hp by lia. apply pow_add in Hp. destruct Hp as (k & H1 & H2).
        exists k. split.
        -- assert (Hle : (mn <=? x) = true) by (apply Nat.leb_le; lia). rewrite Hle.
           apply (pow_ends_spec (E r t) (M r t) (IHr t)). exists i. split; [left; reflexivity | exact H1].
        -- exists (n - mn). split; [lia | exact H2].
    + rewrite (star_from t (E r t) (M r t) (IHr t) (m_good r t)). unfold rep. split.
      * intros (k & A & (n & _ & _ & B)). apply (pow_ends_spec (E r t) (M r t) (IHr t)) in A. destruct A as (i0 & [<-|[]] & A).
        exists (mn + n). repeat split; try lia. apply pow_add. exists k; auto.
      * intros (n & A & _ & Hp). replace n with (mn + (n - mn)) in Hp by lia. apply pow_add in Hp. destruct Hp as (k & H1 & H2).
        exists k. split.
        -- apply (pow_ends_spec (E r t) (M r t) (IHr t)). exists i. split; [left; reflexivity | exact H1].
        -- exists (n - mn). repeat split; try lia. exact H2.
  - rewrite ends_concat, (m_concat orbit rs t i j).
    assert (Hgen : forall l, In j (ends_seq rs t l) <-> exists i0, In i0 l /\ mseq orbit rs t i0 j).
    { induction H as [|x xs Hx _ IH]; intros l; simpl.
      - split. + intros Hj; exists j; auto. + intros (i0 & A & ->); exact A.
      - rewrite IH. split.
        + intros (k & A & B). apply (flat_step (E x t) (M x t) (Hx t)) in A. destruct A as (i0 & A & C).
          exists i0. split; [exact A|]. exists k; auto.
        + intros (i0 & A & k & B & C). exists k. split; [|exact C]. apply (flat_step (E x t) (M x t) (Hx t)). exists i0; auto. }
    rewrite Hgen. split. + intros (i0 & [<-|[]] & A); exact A. + intros A; exists i; simpl; auto.
  - rewrite ends_alt_eq, (m_alt orbit rs t i j). unfold malt.
    induction H as [|x xs Hx _ IH]; simpl.
    + split; [intros [] | intros (a & [] & _)].
    + rewrite in_app_iff, IH, Hx. split.
      * intros [A|(a & A & B)]; [exists x; auto | exists a; auto].
      * intros (a & [<-|A] & B); [left; exact B | right; exists a; auto].
Qed.

Corollary matches_at_spec r t i : matches_at orbit r t i = true <-> exists j, M r t i j.
Proof.
  unfold matches_at. destruct (E r t i) as [|e es] eqn:He.
  - split; [discriminate|]. intros (j & Hm). apply ends_spec in Hm. rewrite He in Hm. destruct Hm.
  - split; [|reflexivity]. intros _. exists e. apply ends_spec. rewrite He. left; reflexivity.
Qed.

End Ends.
