(** C01: soundness of regexpToMatchTreeRecursive against a regexp semantics.
    [rm t r i j]: the regexp r matches the text t from rune offset i to j.  The semantics is exact for literals (case
    folding = equality after lower-casing, cf. C08), capture, plus, repeat (lower bound), concatenation, alternation,
    (?-s:.)* and \b; every other operator (ROther: character classes, ., ?, *, anchors, ...) is over-approximated by
    "matches any span", which only strengthens the soundness theorem. *)
From ZV Require Import Lib.Base Model.SearchCore Proofs.SearchCoreText Proofs.SearchCoreTree Proofs.SearchCoreLoop
  Proofs.SearchCoreSelect Proofs.SearchCoreBuild Proofs.SearchCoreWord.
From Coq Require Import ZifyBool.
Definition word_found_ref' := word_found_ref.

Section Rm.
Variable tolower : N -> N.
Variable cs : bool.          (* query.Regexp.CaseSensitive *)
Variable t : list N.

Definition nonl (i j : nat) : Prop := forall p, i <= p -> p < j -> nth p t 0%N <> 10%N.

Inductive rm : rx -> nat -> nat -> Prop :=
| rm_lit : forall s f i, occurs_at tolower (negb f && cs) s t i = true -> i + length s <= length t -> rm (RLit s f) i (i + length s)
| rm_cap : forall r i j, rm r i j -> rm (RCapture r) i j
| rm_plus1 : forall r i j, rm r i j -> rm (RPlus r) i j
| rm_plusS : forall r i m j, rm r i m -> rm (RPlus r) m j -> rm (RPlus r) i j
| rm_rep : forall mn r cnt i j, mn <= cnt -> rmchain (repeat r cnt) i j -> rm (RRepeat mn r) i j
| rm_cat : forall rs i j, rmchain rs i j -> rm (RConcat rs) i j
| rm_alt : forall rs r i j, In r rs -> rm r i j -> rm (RAlt rs) i j
| rm_star : forall i j, i <= j -> j <= length t -> nonl i j -> rm RStarAnyNotNL i j
| rm_wordb : forall i, i <= length t -> boundary_at t i = true -> rm RWordB i i
| rm_other : forall i j, i <= j -> j <= length t -> rm ROther i j
with rmchain : list rx -> nat -> nat -> Prop :=
| rmc_nil : forall i, i <= length t -> rmchain [] i i
| rmc_cons : forall r rs i m j, rm r i m -> rmchain rs m j -> rmchain (r :: rs) i j.

Scheme rm_mind := Induction for rm Sort Prop
  with rmchain_mind := Induction for rmchain Sort Prop.
Combined Scheme rm_rmchain_ind from rm_mind, rmchain_mind.
End Rm.

Lemma new_substr_shape : forall orbit c freq p cs fn,
  (exists sk, new_substr orbit c freq p cs fn = MTscan sk None /\ sk <> SKall) \/
  (exists s, new_substr orbit c freq p cs fn = MTsubstr s /\ sl_pat s = p /\ sl_cs s = cs /\ sl_fn s = fn).
Proof.
  intros. unfold new_substr. destruct (length p <? 3); [left; eexists; split; [reflexivity|discriminate]|].
  destruct (existsb _ _); [right; eexists; split; [reflexivity|]; simpl; auto|].
  destruct (select_idx _ _) as [a b]. right. eexists. split; [reflexivity|]. simpl. auto.
Qed.

Section Sound.
Variable re_match : N -> list N -> bool.
Variable tolower : N -> N.
Variable orbit : N -> list N.
Variable c : corpus.
Variable freq : bool -> bool -> tri -> N.
Hypothesis Hagree : agree tolower orbit.
Hypothesis Hfreq : forall fn cs g, freq fn cs g = 0%N -> post orbit (ix_tris c fn) cs g = [].
(** only the newline lower-cases to the newline (true of unicode.ToLower) *)
Hypothesis Hnl : forall x, tolower x = tolower 10%N -> x = 10%N.
Variable cs fn : bool.
Variable k : nat.
Hypothesis Hk : k < ndocs c.
Notation t := (text_of c fn k).
Notation sem := (sem re_match tolower c).
Notation dst r := (distill orbit c freq cs fn r).
Notation rm := (rm tolower cs t).
Notation rmchain := (rmchain tolower cs t).

(** the occurrences witnessing the leaves of a same-line conjunction all lie inside the span [i, j) *)
Fixpoint within (tr : mt) (i j : nat) : Prop :=
  match tr with
  | MTsubstr s => sl_fn s = fn /\ exists o, i <= o /\ o + length (sl_pat s) <= j /\ occurs_at tolower (sl_cs s) (sl_pat s) t o = true
  | MTandLine l => (fix all (l : list mt) : Prop := match l with [] => True | x :: r => within x i j /\ all r end) l
  | _ => True
  end.
Lemma within_list : forall l i j,
  (fix all (l : list mt) : Prop := match l with [] => True | x :: r => within x i j /\ all r end) l <-> Forall (fun x => within x i j) l.
Proof.
  induction l as [|x l IH]; intros i j; split; intro H; try constructor; try exact I.
  - tauto. - apply IH; tauto. - inversion H; auto. - apply IH. inversion H; auto.
Qed.
Lemma within_andline : forall l i j, within (MTandLine l) i j <-> Forall (fun x => within x i j) l.
Proof. intros. exact (within_list l i j). Qed.
Lemma within_mono : forall tr i' j' i j, within tr i' j' -> i <= i' -> j' <= j -> within tr i j.
Proof.
  induction tr using mt_ind'; intros i' j' i j Hw Hi Hj; try exact I.
  - apply within_andline in Hw. apply within_andline. rewrite Forall_forall in *. intros x Hx. eapply H; eauto.
  - simpl in *. destruct Hw as [Hf [o [H1 [H2 H3]]]]. split; [auto|]. exists o. split; [lia|]. split; [lia|auto].
Qed.

Lemma line_of_nonl : forall i o, nonl t i o -> i <= o -> o <= length t -> line_of t o = line_of t i.
Proof.
  intros i o Hn Hio Hol. unfold line_of, count_nl.
  assert (G : forall d, i + d <= o -> filter (N.eqb 10) (firstn (i + d) t) = filter (N.eqb 10) (firstn i t)).
  { induction d as [|d IHd]; intro Hd; [rewrite Nat.add_0_r; reflexivity|].
    replace (i + S d) with (S (i + d)) by lia.
    rewrite (firstn_S_nth _ t (i + d) 0%N ltac:(lia)). rewrite filter_app. rewrite IHd by lia.
    assert (E : filter (N.eqb 10) [nth (i + d) t 0%N] = []).
    { cbn [filter]. destruct (N.eqb 10 (nth (i + d) t 0%N)) eqn:Eq; [|reflexivity]. apply N.eqb_eq in Eq. exfalso. apply (Hn (i + d)); [lia|lia|auto]. }
    rewrite E. apply app_nil_r. }
  replace o with (i + (o - i)) at 1 by lia. rewrite G by lia. reflexivity.
Qed.

Lemma in_occ_offsets : forall cs' p o, occurs_at tolower cs' p t o = true -> o <= length t -> In o (occ_offsets tolower cs' p t).
Proof. intros. unfold occ_offsets. apply filter_In. split; [apply in_seq; lia | auto]. Qed.

Lemma in_occ_offsets_false : forall (s : sleaf) o, occurs_at tolower (sl_cs s) (sl_pat s) (text_of c false k) o = true ->
  o <= length (text_of c false k) -> In o (occ_offsets tolower (sl_cs s) (sl_pat s) (text_of c false k)).
Proof. intros. unfold occ_offsets. apply filter_In. split; [apply in_seq; lia | auto]. Qed.

Lemma same_line_from_within : forall l i j,
  Forall (fun x => within x i j) l -> nonl t i j -> i <= j -> j <= length t -> same_line_sem tolower c k l = true.
Proof.
  intros l i j Hw Hn Hij Hj. unfold same_line_sem.
  destruct (forallb (fun x => match content_sleaf x with Some _ => true | None => false end) l) eqn:Hall; [|reflexivity].
  destruct l as [|x0 l']; [reflexivity|].
  rewrite forallb_forall in Hall. rewrite Forall_forall in Hw.
  assert (Hleaf : forall x, In x (x0 :: l') -> exists s, x = MTsubstr s /\ sl_fn s = false /\ fn = false /\
             exists o, i <= o /\ o + length (sl_pat s) <= j /\ occurs_at tolower (sl_cs s) (sl_pat s) (text_of c false k) o = true).
  { intros x Hx. specialize (Hall x Hx). specialize (Hw x Hx). destruct x; simpl in Hall; try discriminate.
    destruct (sl_fn s) eqn:Ef; [discriminate|]. simpl in Hw. destruct Hw as [Hfn [o Ho]]. exists s. split; [reflexivity|]. split; [auto|].
    assert (Hfn' : fn = false) by congruence. split; [auto|]. exists o. rewrite Hfn' in Ho. exact Ho. }
  destruct (Hleaf x0 (or_introl eq_refl)) as [s0 [-> [Hf0 [Hfn [o0 [A0 [B0 C0]]]]]]].
  assert (Hline : forall o, i <= o -> o <= j -> line_of (text_of c false k) o = line_of (text_of c false k) i).
  { intros o H1 H2. rewrite <- Hfn. apply line_of_nonl; try lia. intros p Hp1 Hp2. apply Hn; lia. }
  assert (Hc : forall s, sl_fn s = false -> content_sleaf (MTsubstr s) = Some s) by (intros s Hs; simpl; rewrite Hs; reflexivity).
  cbn [map]. rewrite (Hc s0 Hf0).
  apply existsb_exists. exists o0. split.
  - apply (in_occ_offsets_false s0 o0 C0). rewrite <- Hfn. lia.
  - apply forallb_forall. intros v Hv.
    assert (Hv' : In v (map (fun x => match content_sleaf x with Some s => occ_offsets tolower (sl_cs s) (sl_pat s) (text_of c false k) | None => [] end) (MTsubstr s0 :: l'))).
    { cbn [map]. rewrite (Hc s0 Hf0). exact Hv. }
    apply in_map_iff in Hv'. destruct Hv' as [x [<- Hx]].
    destruct (Hleaf x Hx) as [s [-> [Hf [_ [o [A [B C]]]]]]]. rewrite (Hc s Hf).
    apply existsb_exists. exists o. split.
    + apply (in_occ_offsets_false s o C). rewrite <- Hfn. lia.
    + apply Nat.eqb_eq. rewrite (Hline o) by lia. rewrite (Hline o0) by lia. reflexivity.
Qed.

Definition tree (r : rx) : mt := fst (fst (dst r)).
Definition sline (r : rx) : bool := snd (dst r).
Definition P (r : rx) (i j : nat) : Prop :=
  i <= j /\ j <= length t /\ sem k (tree r) = true /\ (sline r = true -> nonl t i j /\ within (tree r) i j).
Definition P0 (rs : list rx) (i j : nat) : Prop :=
  i <= j /\ j <= length t /\ (forall r, In r rs -> exists i' j', i <= i' /\ j' <= j /\ P r i' j') /\
  ((forall r, In r rs -> sline r = true) -> nonl t i j).

Lemma nonl_lit : forall s f i, memN 10 s = false -> 0 < length s ->
  occurs_at tolower (negb f && cs) s t i = true -> nonl t i (i + length s).
Proof.
  intros s f i Hm Hs Hocc p Hp1 Hp2 Hnl10.
  pose proof (occurs_at_nth tolower (negb f && cs) s t i Hs Hocc (p - i) ltac:(lia)) as Hn.
  replace (i + (p - i)) with p in Hn by lia.
  assert (Hin : In (nth (p - i) s 0%N) s) by (apply nth_In; lia).
  assert (nth (p - i) s 0%N = 10%N).
  { destruct (negb f && cs); [congruence|]. rewrite Hnl10 in Hn. symmetry in Hn. apply Hnl in Hn. exact Hn. }
  rewrite H in Hin. apply memN_In in Hin. congruence.
Qed.

Lemma brute_sem : forall q, is_brute q = true -> sem k q = true.
Proof. intros q H. destruct q; try discriminate. destruct k0; try discriminate. reflexivity. Qed.

Lemma sem_andline : forall l, sem k (MTandLine l) = forallb (sem k) l && same_line_sem tolower c k l.
Proof. reflexivity. Qed.
Lemma sem_and : forall l, sem k (MTand l) = forallb (sem k) l.
Proof. reflexivity. Qed.
Lemma sem_or : forall l, sem k (MTor l) = existsb (sem k) l.
Proof. reflexivity. Qed.

Theorem distill_sound_all :
  (forall r i j, rm r i j -> P r i j) /\ (forall rs i j, rmchain rs i j -> P0 rs i j).
Proof.
  apply rm_rmchain_ind.
  - (* literal *) intros s f i Hocc Hlen. unfold P, tree, sline. cbn [distill].
    destruct (3 <=? byte_len s) eqn:E3; cbn [fst snd].
    + assert (Hs : 0 < length s) by (destruct s; [simpl in E3; discriminate | simpl; lia]).
      destruct (new_substr_spec re_match tolower orbit c freq Hagree Hfreq s (negb f && cs) fn) as [_ [_ Hsem]].
      split; [lia|]. split; [lia|]. split.
      * rewrite Hsem by auto. unfold contains. apply existsb_exists. exists i. split; [apply in_seq; lia | exact Hocc].
      * intro Hsl. apply negb_true_iff in Hsl. split; [apply (nonl_lit s f i Hsl Hs Hocc)|].
        destruct (new_substr_shape orbit c freq s (negb f && cs) fn) as [[sk [-> _]]|[sl0 [-> [Hp [Hc Hf]]]]]; [exact I|].
        simpl. split; [auto|]. exists i. rewrite Hp, Hc. split; [lia|]. split; [lia|exact Hocc].
    + split; [lia|]. split; [lia|]. split; [reflexivity | discriminate].
  - (* capture *) intros r i j _ IH. unfold P, tree, sline in *. cbn [distill]. exact IH.
  - (* plus, one *) intros r i j _ IH. unfold P, tree, sline in *. cbn [distill]. exact IH.
  - (* plus, more *) intros r i m j _ IH1 _ IH2. unfold P, tree, sline in *. cbn [distill] in *.
    destruct IH1 as [A1 [B1 [C1 D1]]]. destruct IH2 as [A2 [B2 [C2 D2]]].
    split; [lia|]. split; [lia|]. split; [exact C1|]. intro Hsl. destruct (D1 Hsl) as [N1 W1]. destruct (D2 Hsl) as [N2 _].
    split; [intros p Hp1 Hp2; destruct (le_lt_dec m p); [apply N2; lia | apply N1; lia]|].
    apply (within_mono _ i m); auto; lia.
  - (* repeat *) intros mn r cnt i j Hcnt _ IH. unfold P0 in IH. destruct IH as [A [B [Cc D]]].
    unfold P, tree, sline. cbn [distill].
    destruct (mn =? 1) eqn:E1; [|destruct (1 <? mn) eqn:E2].
    + assert (Hin : In r (repeat r cnt)) by (destruct cnt; [lia | left; reflexivity]).
      destruct (Cc r Hin) as [i' [j' [Hi [Hj [P1 [P2 [P3 P4]]]]]]]. fold (tree r). fold (sline r).
      split; [lia|]. split; [lia|]. split; [exact P3|]. intro Hsl. split.
      * apply D. intros r' Hr'. apply repeat_spec in Hr'. subst r'. exact Hsl.
      * destruct (P4 Hsl) as [_ W]. apply (within_mono _ i' j'); auto.
    + assert (Hin : In r (repeat r cnt)) by (destruct cnt; [lia | left; reflexivity]).
      destruct (Cc r Hin) as [i' [j' [Hi [Hj [P1 [P2 [P3 P4]]]]]]]. unfold tree, sline in *.
      destruct (dst r) as [[m0 e0] s0] eqn:Ed. cbn [fst snd] in *.
      split; [lia|]. split; [lia|]. split; [exact P3|]. intro Hsl. split.
      * apply D. intros r' Hr'. apply repeat_spec in Hr'. subst r'. unfold sline. rewrite Ed. exact Hsl.
      * destruct (P4 Hsl) as [_ W]. apply (within_mono _ i' j'); auto.
    + cbn [fst snd]. split; [lia|]. split; [lia|]. split; [reflexivity | discriminate].
  - (* concat *) intros rs i j _ IH. unfold P0 in IH. destruct IH as [A [B [Cc D]]].
    unfold P, tree, sline. cbn [distill].
    set (subs := map (distill orbit c freq cs fn) rs).
    set (qs := map (fun x => fst (fst x)) subs).
    set (sl := forallb (fun x => snd x) subs).
    assert (Hqs : forall q, In q qs -> exists r, In r rs /\ q = tree r).
    { intros q Hq. unfold qs, subs in Hq. rewrite map_map in Hq. apply in_map_iff in Hq. destruct Hq as [r [<- Hr]]. exists r. auto. }
    assert (Hq : forall q, In q qs -> sem k q = true /\ (sl = true -> within q i j)).
    { intros q Hin. destruct (Hqs q Hin) as [r [Hr ->]]. destruct (Cc r Hr) as [i' [j' [Hi [Hj [P1 [P2 [P3 P4]]]]]]].
      split; [exact P3|]. intro Hsl. assert (sline r = true).
      { unfold sl, subs in Hsl. rewrite forallb_map_eq in Hsl. rewrite forallb_forall in Hsl. apply (Hsl r Hr). }
      destruct (P4 H) as [_ W]. apply (within_mono _ i' j'); auto. }
    assert (Hnl' : sl = true -> nonl t i j).
    { intro Hsl. apply D. intros r Hr. unfold sl, subs in Hsl. rewrite forallb_map_eq in Hsl. rewrite forallb_forall in Hsl. apply (Hsl r Hr). }
    assert (Hnq : forall q, In q (filter (fun q => negb (is_brute q)) qs) -> sem k q = true /\ (sl = true -> within q i j)).
    { intros q Hin. apply filter_In in Hin. apply Hq. tauto. }
    split; [lia|]. split; [lia|].
    destruct (filter (fun q => negb (is_brute q)) qs) as [|q1 [|q2 rest]] eqn:Ef; cbn [fst snd].
    + split; [reflexivity|]. intro Hsl. split; [auto | exact I].
    + destruct (Hnq q1 (or_introl eq_refl)) as [S1 W1]. split; [exact S1|]. intro Hsl. split; auto.
    + destruct sl eqn:Esl; cbn [fst snd].
      * assert (HW : Forall (fun x => within x i j) (q1 :: q2 :: rest)) by (apply Forall_forall; intros x Hx; apply Hnq; auto).
        split.
        -- rewrite sem_andline. apply andb_true_iff. split.
           ++ apply forallb_forall. intros x Hx. apply Hnq. exact Hx.
           ++ apply (same_line_from_within _ i j HW (Hnl' eq_refl) A B).
        -- intros _. split; [auto|]. apply within_andline. exact HW.
      * split; [|discriminate]. rewrite sem_and. apply forallb_forall. intros x Hx. apply Hnq. exact Hx.
  - (* alternate *) intros rs r i j Hin _ IH. unfold P, tree, sline in *. cbn [distill].
    destruct IH as [A [B [C0 _]]].
    set (subs := map (distill orbit c freq cs fn) rs).
    set (qs := map (fun x => fst (fst x)) subs).
    assert (Hmem : In (fst (fst (dst r))) qs).
    { unfold qs, subs. rewrite map_map. apply in_map_iff. exists r. auto. }
    split; [lia|]. split; [lia|].
    destruct (find is_brute qs) as [q|] eqn:Efind; cbn [fst snd].
    + apply find_some in Efind. split; [apply brute_sem; tauto | discriminate].
    + destruct qs as [|q0 qr] eqn:Eqs; [destruct Hmem|]. cbn [fst snd]. split; [|discriminate].
      rewrite sem_or. apply existsb_exists. exists (fst (fst (dst r))). auto.
  - (* .* *) intros i j Hij Hj Hn. unfold P, tree, sline. cbn [distill fst snd]. split; [lia|]. split; [lia|]. split; [reflexivity|]. intros _. split; [exact Hn | exact I].
  - (* \b *) intros i Hi _. unfold P, tree, sline. cbn [distill fst snd]. split; [lia|]. split; [lia|]. split; [reflexivity | discriminate].
  - (* other *) intros i j Hij Hj. unfold P, tree, sline. cbn [distill fst snd]. split; [lia|]. split; [lia|]. split; [reflexivity | discriminate].
  - (* chain nil *) intros i Hi. unfold P0. split; [lia|]. split; [lia|]. split; [intros r []|]. intros _ p Hp1 Hp2. lia.
  - (* chain cons *) intros r rs i m j _ IH1 _ IH2. unfold P0 in *. destruct IH1 as [A1 [B1 [C1 D1]]]. destruct IH2 as [A2 [B2 [C2 D2]]].
    split; [lia|]. split; [lia|]. split.
    + intros r' [<-|Hr'].
      * exists i, m. split; [lia|]. split; [lia|]. unfold P. auto.
      * destruct (C2 r' Hr') as [i' [j' [Hi [Hj HP]]]]. exists i', j'. split; [lia|]. split; [lia|exact HP].
    + intro Hall. destruct (D1 (Hall r (or_introl eq_refl))) as [N1 _]. pose proof (D2 (fun r' Hr' => Hall r' (or_intror Hr'))) as N2.
      intros p Hp1 Hp2. destruct (le_lt_dec m p); [apply N2; lia | apply N1; lia].
Qed.

Lemma distill_concat1 : forall r0, dst (RConcat [r0]) =
  let '(q0, e0, s0) := dst r0 in
  if is_brute q0 then (brute, e0, s0 && true) else (q0, e0, s0 && true).
Proof.
  intro r0. cbn [distill map forallb length filter]. destruct (distill orbit c freq cs fn r0) as [[q0 e0] s0]. cbn [fst snd].
  rewrite andb_true_r. destruct (is_brute q0); reflexivity.
Qed.

Corollary distill_sound : forall r i j, rm r i j -> sem k (tree r) = true.
Proof. intros r i j H. destruct (proj1 distill_sound_all r i j H) as [_ [_ [S _]]]. exact S. Qed.

(** exactness: when the distillation claims equivalence (isEqual) and the distilled tree holds, the regexp matches *)
Definition iseq (r : rx) : bool := snd (fst (dst r)).
Theorem distill_equal : forall r, iseq r = true -> sem k (tree r) = true -> exists i j, rm r i j.
Proof.
  induction r using rx_ind'; unfold iseq, tree in *.
  - cbn [distill]. destruct (3 <=? byte_len s) eqn:E3; cbn [fst snd]; [|discriminate]. intros _ Hs.
    assert (Hlen : 0 < length s) by (destruct s; [simpl in E3; discriminate | simpl; lia]).
    destruct (new_substr_spec re_match tolower orbit c freq Hagree Hfreq s (negb f && cs) fn) as [_ [_ Hsem]].
    rewrite Hsem in Hs by auto. unfold contains in Hs. apply existsb_exists in Hs. destruct Hs as [o [_ Hocc]].
    exists o, (o + length s). apply rm_lit; [exact Hocc|]. apply (occurs_at_len tolower _ s t o Hlen Hocc).
  - cbn [distill]. intros He Hs. destruct (IHr He Hs) as [i [j Hm]]. exists i, j. apply rm_cap. exact Hm.
  - cbn [distill]. intros He Hs. destruct (IHr He Hs) as [i [j Hm]]. exists i, j. apply rm_plus1. exact Hm.
  - cbn [distill]. destruct (mn =? 1) eqn:E1.
    + intros He Hs. destruct (IHr He Hs) as [i [j Hm]]. exists i, j. apply (rm_rep tolower cs t mn r 1); [lia|].
      simpl. pose proof (proj1 distill_sound_all r i j Hm) as [_ [Hj _]]. eapply rmc_cons; [exact Hm|]. apply rmc_nil. exact Hj.
    + destruct (1 <? mn); [destruct (dst r) as [[m0 e0] s0]|]; cbn [fst snd]; discriminate.
  - (* concat *) destruct rs as [|r0 [|r1 rs']].
    + intros _ _. exists 0, 0. apply rm_cat. apply rmc_nil. lia.
    + inversion H as [|? ? Hr0 _]; subst. rewrite distill_concat1.
      destruct (dst r0) as [[q0 e0] s0] eqn:Ed. cbn [fst snd] in *.
      intros He Hs.
      assert (Hs0 : sem k q0 = true).
      { destruct (is_brute q0) eqn:Eb; [apply brute_sem; exact Eb|]. cbn [fst snd] in Hs. exact Hs. }
      assert (He0 : e0 = true).
      { destruct (is_brute q0); cbn [fst snd] in He; exact He. }
      destruct (Hr0 He0 Hs0) as [i [j Hm]]. exists i, j. apply rm_cat.
      pose proof (proj1 distill_sound_all r0 i j Hm) as [_ [Hj _]]. eapply rmc_cons; [exact Hm|]. apply rmc_nil. exact Hj.
    + intros He _. exfalso. cbn [distill map length Nat.ltb Nat.leb] in He.
      destruct (filter _ _) as [|x1 [|x2 xr]]; cbn [fst snd] in He; try discriminate.
      destruct (forallb _ _); cbn [fst snd] in He; discriminate.
  - (* alternate *) cbn [distill].
    set (subs := map (distill orbit c freq cs fn) rs).
    set (qs := map (fun x => fst (fst x)) subs).
    set (eqs := forallb (fun x => snd (fst x)) subs).
    assert (Hq : forall q, In q qs -> eqs = true -> sem k q = true -> exists i j, rm (RAlt rs) i j).
    { intros q Hin He Hs. unfold qs, subs in Hin. rewrite map_map in Hin. apply in_map_iff in Hin. destruct Hin as [r [<- Hr]].
      rewrite Forall_forall in H. unfold eqs, subs in He. rewrite forallb_map_eq in He. rewrite forallb_forall in He.
      destruct (H r Hr (He r Hr) Hs) as [i [j Hm]]. exists i, j. apply (rm_alt tolower cs t rs r); auto. }
    destruct (find is_brute qs) as [q|] eqn:Efind; cbn [fst snd].
    + apply find_some in Efind. intros He _. apply (Hq q (proj1 Efind) He). apply brute_sem. tauto.
    + destruct qs as [|q0 qr] eqn:Eqs; cbn [fst snd]; [intros _ Hs; discriminate|].
      intros He Hs. rewrite sem_or in Hs. apply existsb_exists in Hs. destruct Hs as [q [Hin Hsq]]. apply (Hq q Hin He Hsq).
  - cbn [distill fst snd]. discriminate.
  - cbn [distill fst snd]. discriminate.
  - cbn [distill fst snd]. discriminate.
Qed.
End Sound.

(* ------------------------------------------------------------------ \bLIT\b and the engine-level statement *)
Section Inv.
Variable tolower : N -> N.
Variable cs : bool.
Variable t : list N.
Lemma rmchain_cons_inv : forall r rs i j, rmchain tolower cs t (r :: rs) i j -> exists m, rm tolower cs t r i m /\ rmchain tolower cs t rs m j.
Proof. intros r rs i j H. inversion H; subst. eauto. Qed.
Lemma rmchain_nil_inv : forall i j, rmchain tolower cs t [] i j -> i = j /\ i <= length t.
Proof. intros i j H. inversion H; subst. auto. Qed.
Lemma rm_wordb_inv : forall i j, rm tolower cs t RWordB i j -> j = i /\ i <= length t /\ boundary_at t i = true.
Proof. intros i j H. inversion H; subst. auto. Qed.
Lemma rm_lit_inv : forall s f i j, rm tolower cs t (RLit s f) i j ->
  j = i + length s /\ occurs_at tolower (negb f && cs) s t i = true /\ i + length s <= length t.
Proof. intros s f i j H. inversion H; subst. auto. Qed.
Lemma rm_cat_inv : forall rs i j, rm tolower cs t (RConcat rs) i j -> rmchain tolower cs t rs i j.
Proof. intros rs i j H. inversion H; subst. auto. Qed.
End Inv.

Lemma word_rm : forall tolower t w,
  (exists i j, rm tolower true t (RConcat [RWordB; RLit w false; RWordB]) i j) <-> word_ref tolower w t = true.
Proof.
  intros tolower t w. split.
  - intros [i [j H]]. apply rm_cat_inv in H.
    apply rmchain_cons_inv in H. destruct H as [m1 [H1 H]]. apply rm_wordb_inv in H1. destruct H1 as [-> [Hi Hb1]].
    apply rmchain_cons_inv in H. destruct H as [m2 [H2 H]]. apply rm_lit_inv in H2. destruct H2 as [-> [Hocc Hlen]].
    apply rmchain_cons_inv in H. destruct H as [m3 [H3 H]]. apply rm_wordb_inv in H3. destruct H3 as [-> [_ Hb2]].
    unfold word_ref. apply existsb_exists. exists i. split; [apply in_seq; lia|].
    unfold word_occurs_at. simpl in Hocc. rewrite Hocc, Hb1, Hb2. reflexivity.
  - intro H. unfold word_ref in H. apply existsb_exists in H. destruct H as [o [Ho Hw]]. apply in_seq in Ho.
    unfold word_occurs_at in Hw. apply andb_true_iff in Hw. destruct Hw as [Hw Hb2]. apply andb_true_iff in Hw. destruct Hw as [Hocc Hb1].
    assert (Hlen : o + length w <= length t).
    { unfold occurs_at in Hocc. apply andb_true_iff in Hocc. destruct Hocc as [Hl _]. apply Nat.eqb_eq in Hl.
      rewrite firstn_length, skipn_length in Hl. lia. }
    exists o, (o + length w). apply rm_cat.
    eapply rmc_cons; [apply rm_wordb; [lia | exact Hb1]|].
    eapply rmc_cons; [apply rm_lit; [simpl; exact Hocc | exact Hlen]|].
    eapply rmc_cons; [apply rm_wordb; [lia | exact Hb2]|]. apply rmc_nil. lia.
Qed.

Fixpoint no_other (r : rx) : bool :=
  match r with
  | ROther => false
  | RCapture r' => no_other r'
  | RPlus r' => no_other r'
  | RRepeat _ r' => no_other r'
  | RConcat rs => forallb no_other rs
  | RAlt rs => forallb no_other rs
  | _ => true
  end.
Fixpoint lits_nonempty (r : rx) : bool :=
  match r with
  | RLit s _ => 0 <? length s
  | RCapture r' => lits_nonempty r'
  | RPlus r' => lits_nonempty r'
  | RRepeat _ r' => lits_nonempty r'
  | RConcat rs => forallb lits_nonempty rs
  | RAlt rs => forallb lits_nonempty rs
  | _ => true
  end.

Section Engine.
Variable re_match : N -> list N -> bool.
Variable tolower : N -> N.
Variable orbit : N -> list N.
Variable c : corpus.
Variable freq : bool -> bool -> tri -> N.
Hypothesis Hagree : agree tolower orbit.
Hypothesis Hfreq : forall fn cs g, freq fn cs g = 0%N -> post orbit (ix_tris c fn) cs g = [].
Hypothesis Hnl : forall x, tolower x = tolower 10%N -> x = 10%N.

Lemma iseq_no_other : forall cs fn r, iseq orbit c freq cs fn r = true -> no_other r = true.
Proof.
  intros cs fn. induction r using rx_ind'; unfold iseq in *.
  - reflexivity.
  - cbn [distill no_other]. exact IHr.
  - cbn [distill no_other]. exact IHr.
  - cbn [distill no_other]. destruct (mn =? 1); [exact IHr|].
    destruct (1 <? mn); [destruct (distill orbit c freq cs fn r) as [[m0 e0] s0]|]; cbn [fst snd]; discriminate.
  - destruct rs as [|r0 [|r1 rs']]; [reflexivity| |].
    + inversion H as [|? ? Hr0 _]; subst. rewrite distill_concat1. destruct (distill orbit c freq cs fn r0) as [[q0 e0] s0]. cbn [fst snd] in *.
      intro He. cbn [no_other forallb]. rewrite andb_true_r. apply Hr0. destruct (is_brute q0); exact He.
    + intro He. exfalso. cbn [distill map length Nat.ltb Nat.leb] in He.
      destruct (filter _ _) as [|x1 [|x2 xr]]; cbn [fst snd] in He; try discriminate.
      destruct (forallb _ _); cbn [fst snd] in He; discriminate.
  - cbn [distill no_other]. intro He. apply forallb_forall. intros r Hr. rewrite Forall_forall in H. apply (H r Hr).
    assert (Hall : forallb (fun x => snd (fst x)) (map (distill orbit c freq cs fn) rs) = true).
    { destruct (find is_brute _); [exact He|]. destruct (map _ (map _ rs)); exact He. }
    rewrite forallb_map_eq in Hall. rewrite forallb_forall in Hall. apply (Hall r Hr).
  - cbn [distill fst snd]. discriminate.
  - cbn [distill fst snd]. discriminate.
  - cbn [distill fst snd]. discriminate.
Qed.

(** THE ASSUMPTION ON THE EXTERNAL ENGINE, per regexp atom and document: whenever the engine reports a match there is a
    match in the sense of [rm] (which over-approximates every operator it does not define exactly), and on regexps
    without such operators every [rm] match is found by the engine; literals are not empty (regexp/syntax never
    produces an empty OpLiteral). *)
Fixpoint engine_ok (q : Q) : Prop :=
  match q with
  | QRegexp rid r tf cs fn _ =>
      lits_nonempty r = true /\
      forall k, k < ndocs c ->
        (re_match rid (text_of c fn k) = true -> exists i j, rm tolower cs (text_of c fn k) r i j) /\
        (no_other r = true -> (exists i j, rm tolower cs (text_of c fn k) r i j) -> re_match rid (text_of c fn k) = true)
  (* symbol atoms: the sections are well formed, and where the distillation of a symbol regexp is one exact literal the
     engine agrees with literal containment on the text of every section (assumed per section, not derived from [rm]) *)
  | QSymSubstr p cs => re_ok re_match tolower orbit c freq (QSymSubstr p cs)
  | QSymRegexp rid r tf cs => re_ok re_match tolower orbit c freq (QSymRegexp rid r tf cs)
  | QAnd l => (fix all (l : list Q) : Prop := match l with [] => True | x :: r => engine_ok x /\ all r end) l
  | QOr l => (fix all (l : list Q) : Prop := match l with [] => True | x :: r => engine_ok x /\ all r end) l
  | QNot q' => engine_ok q'
  | QTypeFileName q' => engine_ok q'
  | QTypeOther q' => engine_ok q'
  | QBoost q' => engine_ok q'
  | _ => True
  end.
Lemma engine_ok_list : forall l,
  (fix all (l : list Q) : Prop := match l with [] => True | x :: r => engine_ok x /\ all r end) l <-> Forall engine_ok l.
Proof.
  induction l as [|x l IH]; split; intro H; try constructor; try exact I.
  - tauto. - apply IH; tauto. - inversion H; auto. - apply IH. inversion H; auto.
Qed.

Theorem engine_ok_re_ok : forall q, engine_ok q -> re_ok re_match tolower orbit c freq q.
Proof.
  induction q using Q_ind'; intro He.
  - simpl in He. apply engine_ok_list in He. apply (proj2 (re_ok_list _ _ _ _ _ _)). rewrite Forall_forall in *. auto.
  - simpl in He. apply engine_ok_list in He. apply (proj2 (re_ok_list _ _ _ _ _ _)). rewrite Forall_forall in *. auto.
  - simpl in *. auto. - simpl in *. auto. - simpl in *. auto. - simpl in *. auto.
  - destruct q; try contradiction; try exact I; try exact He.
    cbn [engine_ok] in He. destruct He as [Hne He]. cbn [re_ok]. intros k Hk. cbv zeta.
    destruct (He k Hk) as [Hsound Hcomplete].
    pose proof (distill_sound re_match tolower orbit c freq Hagree Hfreq Hnl cs fn k Hk r) as Hds.
    pose proof (distill_equal re_match tolower orbit c freq Hagree Hfreq Hnl cs fn k Hk r) as Hde.
    pose proof (iseq_no_other cs fn r) as Hno.
    unfold tree, iseq in *. destruct (distill orbit c freq cs fn r) as [[sub isEq] sl]. cbn [fst snd] in *.
    destruct isEq.
    + destruct (re_match rid (text_of c fn k)) eqn:Er.
      * destruct (Hsound eq_refl) as [i [j Hm]]. apply (Hds i j Hm).
      * destruct (sem re_match tolower c k sub) eqn:Es; [|reflexivity].
        discriminate (Hcomplete (Hno eq_refl) (Hde eq_refl eq_refl)).
    + split.
      * intro Er. destruct (Hsound Er) as [i [j Hm]]. apply (Hds i j Hm).
      * destruct (word_of r topfold cs) as [w|] eqn:Ew; [|exact I].
        unfold word_of in Ew. destruct (cs && negb topfold) eqn:Ecs; [|discriminate].
        repeat match type of Ew with
               | context [match ?x with _ => _ end] => destruct x; try discriminate Ew
               end.
        injection Ew as Ew'. rewrite <- Ew'.
        apply andb_true_iff in Ecs. destruct Ecs as [Ecs _]. subst cs.
        cbn [lits_nonempty forallb] in Hne. rewrite andb_true_r in Hne. simpl in Hne.
        rewrite (word_found_ref' tolower s (text_of c fn k)) by lia.
        destruct (word_ref tolower s (text_of c fn k)) eqn:Ewr.
        -- apply Hcomplete; [reflexivity|]. apply word_rm. exact Ewr.
        -- destruct (re_match rid (text_of c fn k)) eqn:Er; [|reflexivity].
           destruct (Hsound eq_refl) as [i [j Hm]]. assert (word_ref tolower s (text_of c fn k) = true) by (apply word_rm; eauto). congruence.
Qed.
End Engine.
