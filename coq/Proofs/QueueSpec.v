(** Refinement facts: what Pop / enqueueing / MaybeRemoveMissing do in terms of the tracked set, the
    enqueued set and the priority order. *)
From ZV Require Import Lib.Base Model.Queue Proofs.QueueHeap Proofs.QueueMap Proofs.QueueInv Proofs.QueueOps.

(** the root of an ordered array is a minimum *)
Lemma lt_prio_irrefl a : lt_prio a a = false.
Proof. destruct (lt_prio a a) eqn:E; [pose proof (lt_prio_asym _ _ E); congruence | reflexivity]. Qed.

Lemma root_min (v : nat -> bool * bool * Z) n : ordered lt_prio v n -> forall c, c < n -> lt_prio (v c) (v 0) = false.
Proof.
  intros Ho c. induction c as [c IH] using lt_wf_ind. intro Hc.
  destruct c as [|c']; [apply lt_prio_irrefl|].
  assert (Hp : parent (S c') < S c') by (apply parent_lt; lia).
  apply lt_prio_le_trans with (b := v (parent (S c'))).
  - apply IH; lia.
  - apply Ho. lia.
Qed.

Lemma inv_nodup_pq q : shape q -> NoDup (q_pq q).
Proof.
  intro Sh. apply (NoDup_nth (q_pq q) 0%N). intros i j Hi Hj E. apply (shape_pq_inj q i j Sh Hi Hj E).
Qed.

(** * Pop *)
Record pop_spec (q q' : queue) (o : opts) : Prop := {
  ps_ex : exists id x,
      on_heap q id /\ get id (q_items q) = Some x /\ o = it_opts x /\
      (forall id' x', on_heap q id' -> get id' (q_items q) = Some x' -> less_item x' x = false) /\
      (forall id', on_heap q' id' <-> on_heap q id' /\ id' <> id) /\
      (exists y, get id (q_items q') = Some y /\ it_hidx y = (-1)%Z);
  ps_frame : frame q q'
}.

Lemma pop_some q q' o : inv q -> pop q = (q', Some o) -> pop_spec q q' o.
Proof.
  intros I. unfold pop. destruct (q_pq q) as [|a l] eqn:E; [discriminate|].
  pose proof (pq_len_pos q a l E) as Hl.
  destruct (h_pop_ok q (inv_shape _ I) Hl (inv_heap _ I)) as [Hid R].
  destruct (h_pop q) as [q1 id]. simpl in Hid, R. intro H. inversion H; subst q' o. clear H. subst id.
  destruct (sh_idx1 _ (inv_shape _ I) 0 Hl) as (x & G & _).
  split; [|apply R].
  exists (pq_at q 0), x. split; [exists 0; auto|]. split; [exact G|]. split.
  - change (it_opts (item_of (q_items q1) (pq_at q 0))) with ((fun z => it_opts z) (item_of (q_items q1) (pq_at q 0))).
    rewrite (frame_item_of q q1 _ (fun z => it_opts z) (ro_frame _ _ _ R)) by reflexivity.
    rewrite (item_of_get _ _ _ G). reflexivity.
  - split; [|split; [apply R | apply R]].
    intros id' x' (k & Hk & Ek) G'.
    pose proof (root_min (qval q) (pq_len q) (inv_heap _ I) k Hk) as Hm.
    unfold qval in Hm. rewrite Ek, (item_of_get _ _ _ G'), (item_of_get _ _ _ G) in Hm.
    rewrite less_item_prio. exact Hm.
Qed.

Lemma pop_none q q' : pop q = (q', None) -> q' = q /\ q_pq q = [].
Proof.
  unfold pop. destruct (q_pq q) eqn:E; [intro H; inversion H; auto|].
  destruct (h_pop q). discriminate.
Qed.

(** FIFO inside a priority class, with strictness from the distinct sequence numbers *)
Lemma less_item_same_class x y :
  it_indexed x = it_indexed y -> is_fail x = is_fail y -> less_item y x = false -> (it_seq x <= it_seq y)%Z.
Proof.
  unfold less_item. intros -> ->. rewrite !Bool.eqb_reflx. simpl. intro H. lia.
Qed.

(** * enqueueing honours the backoff *)
Lemma add_blocked q now o x :
  inv q -> get (o_repo o) (q_items q) = Some x -> it_hidx x = (-1)%Z -> (now <= it_until x)%Z ->
  ~ on_heap (add_or_update q now o) (o_repo o).
Proof.
  intros I G Hx Hu. rewrite add_or_update_unfold. cbv zeta.
  unfold get_or_add. rewrite G.
  set (g := if opts_eqb (it_opts (item_of (q_items q) (o_repo o))) o then (fun z => z) else upd_opts o).
  assert (Hg : keeps_id g /\ keeps_hidx g /\ (forall z, it_until (g z) = it_until z)).
  { unfold g. destruct (opts_eqb (it_opts (item_of (q_items q) (o_repo o))) o); repeat split; intro; reflexivity. }
  destruct Hg as (Hg1 & Hg2 & Hg3).
  rewrite (item_of_get _ _ _ (item_of_modify_same q (o_repo o) g x Hg1 G)).
  rewrite Hg2, Hx. simpl. unfold allow. rewrite Hg3.
  destruct (it_until x <? now)%Z eqn:E; [apply Z.ltb_lt in E; lia|].
  apply (shape_not_on_heap q (o_repo o) x (inv_shape _ I) G Hx).
Qed.

Lemma add_enqueues_only_allowed q now o x :
  inv q -> get (o_repo o) (q_items q) = Some x -> ~ on_heap q (o_repo o) ->
  on_heap (add_or_update q now o) (o_repo o) -> (it_until x < now)%Z.
Proof.
  intros I G Hoff Hon.
  destruct (Z_lt_le_dec (it_until x) now) as [E|E]; [exact E|]. exfalso.
  assert (Hx : it_hidx x = (-1)%Z).
  { destruct (sh_idx2 _ (inv_shape _ I) _ _ G) as [H|[Hr Ha]]; [exact H|].
    exfalso. apply Hoff. exists (Z.to_nat (it_hidx x)). split; [lia | exact Ha]. }
  exact (add_blocked q now o x I G Hx E Hon).
Qed.

Lemma bump_blocked now ids : forall q id x,
  inv q -> get id (q_items q) = Some x -> it_hidx x = (-1)%Z -> (now <= it_until x)%Z ->
  ~ on_heap (fst (bump q now ids)) id.
Proof.
  induction ids as [|a r IH]; intros q id x I G Hx Hu; simpl.
  - eapply shape_not_on_heap; [apply (inv_shape _ I) | exact G | exact Hx].
  - destruct (get a (q_items q)) as [y|] eqn:Ga.
    + destruct ((it_hidx y <? 0)%Z && allow y now) eqn:E; [|eapply IH; eauto].
      apply Bool.andb_true_iff in E. destruct E as [E1 E2]. apply Z.ltb_lt in E1.
      assert (Hy : it_hidx y = (-1)%Z) by (destruct (shape_hidx_cases q a y (inv_shape _ I) Ga); lia).
      destruct (N.eq_dec a id) as [->|Hne].
      { rewrite G in Ga. inversion Ga; subst y. unfold allow in E2. apply Z.ltb_lt in E2. lia. }
      pose proof (inv_enqueue q a y I Ga Hy) as En.
      (* id's item is untouched (up to heapIdx) by enqueueing a *)
      pose proof (en_items _ _ _ En id) as Hi. rewrite get_modify in Hi by auto.
      assert (Hn : N.eqb id a = false) by (apply N.eqb_neq; auto). rewrite Hn, G in Hi.
      destruct (get id (q_items (enqueue q a))) as [x'|] eqn:G'; simpl in Hi; [|discriminate].
      assert (Ee : erase x' = erase x) by congruence.
      assert (Hoff' : ~ on_heap (enqueue q a) id).
      { intro H. apply (en_on _ _ _ En) in H. destruct H as [H|H]; [|congruence].
        eapply shape_not_on_heap; [apply (inv_shape _ I) | exact G | exact Hx | exact H]. }
      assert (Hx' : it_hidx x' = (-1)%Z).
      { destruct (sh_idx2 _ (inv_shape _ (en_inv _ _ _ En)) _ _ G') as [H|[Hr Ha]]; [exact H|].
        exfalso. apply Hoff'. exists (Z.to_nat (it_hidx x')). split; [lia | exact Ha]. }
      apply (IH (enqueue q a) id x' (en_inv _ _ _ En) G' Hx').
      apply (f_equal it_until) in Ee. simpl in Ee. rewrite Ee. exact Hu.
    + specialize (IH q id x I G Hx Hu). destruct (bump q now r) as [q' miss]. exact IH.
Qed.

(** SetIndexed(fail) takes the repository off the queue and arms the backoff *)
Lemma set_indexed_fail_until q now o :
  inv q ->
  let q' := set_indexed_op q now o st_fail in
  exists x', get (o_repo o) (q_items q') = Some x' /\ it_hidx x' = (-1)%Z /\ ~ on_heap q' (o_repo o) /\
    let x := item_of (q_items q) (o_repo o) in
    let d := ((it_cf x + 1) * c_bd (q_cfg q))%Z in
    it_until x' = (now + (if (d >? c_max (q_cfg q))%Z then c_max (q_cfg q) else d))%Z.
Proof.
  intros I q'. unfold q', set_indexed_op. set (id := o_repo o).
  destruct (inv_get_or_add q id I) as (I1 & (x1 & G1) & _).
  assert (Hx1 : item_of (q_items q) id = new_item id /\ get id (q_items q) = None \/ get id (q_items q) = Some x1).
  { unfold get_or_add in G1. destruct (get id (q_items q)) as [z|] eqn:Gz; [right; congruence|]. left.
    unfold item_of. rewrite Gz. auto. }
  assert (Hcf : it_cf x1 = it_cf (item_of (q_items q) id)).
  { destruct Hx1 as [[H1 H2]|H1].
    - rewrite H1. unfold get_or_add in G1. rewrite H2 in G1. simpl in G1. rewrite get_app, H2 in G1. simpl in G1.
      rewrite N.eqb_refl in G1. inversion G1. reflexivity.
    - rewrite (item_of_get _ _ _ H1). reflexivity. }
  assert (Hc : q_cfg (get_or_add q id) = q_cfg q) by (unfold get_or_add; destruct (get id (q_items q)); reflexivity).
  set (q1 := get_or_add q id) in *.
  change (negb (N.eqb st_fail st_fail)) with false. cbv iota.
  rewrite q_modify_modify by auto.
  change (q_cfg (q_modify q1 id (set_state st_fail))) with (q_cfg q1).
  set (g := fun x => bo_fail (q_cfg q1) now (set_state st_fail x)).
  destruct (keeps_bo_fail (q_cfg q1) now) as (K1 & K2 & K3).
  assert (Hg1 : keeps_id g) by (intro x; unfold g; rewrite K1; reflexivity).
  assert (Hg2 : keeps_hidx g) by (intro x; unfold g; rewrite K2; reflexivity).
  assert (Hg3 : keeps_seq g) by (intro x; unfold g; rewrite K3; reflexivity).
  pose proof (item_of_modify_same q1 id g x1 Hg1 G1) as G2.
  rewrite (item_of_get _ _ _ G2). rewrite Hg2.
  assert (Hun : it_until (g x1) = (now + (if ((it_cf x1 + 1) * c_bd (q_cfg q) >? c_max (q_cfg q))%Z then c_max (q_cfg q) else (it_cf x1 + 1) * c_bd (q_cfg q)))%Z).
  { unfold g, bo_fail. rewrite Hc. simpl it_cf.
    destruct ((it_cf x1 + 1) * c_bd (q_cfg q) >? c_max (q_cfg q))%Z; reflexivity. }
  cbv zeta. rewrite <- Hcf.
  destruct (0 <=? it_hidx x1)%Z eqn:E.
  - apply Z.leb_le in E.
    destruct (inv_modify_remove q1 id g x1 I1 G1 E Hg1 Hg2 Hg3) as [A R].
    destruct (ro_hidx _ _ _ R) as (y & Gy & Hy).
    exists (set_hidx (-1)%Z y). split; [apply item_of_modify_same; auto|]. split; [reflexivity|]. split.
    + rewrite on_heap_modify. eapply shape_not_on_heap; [apply (inv_shape _ A) | exact Gy | exact Hy].
    + pose proof (fr_items _ _ (ro_frame _ _ _ R) id) as Hi. rewrite Gy, G2 in Hi. simpl in Hi.
      assert (Ee : erase y = erase (g x1)) by congruence. apply (f_equal it_until) in Ee. simpl in Ee.
      simpl. rewrite Ee. exact Hun.
  - apply Z.leb_gt in E.
    assert (Hm : it_hidx x1 = (-1)%Z) by (destruct (shape_hidx_cases q1 id x1 (inv_shape _ I1) G1); lia).
    exists (g x1). split; [exact G2|]. split; [rewrite Hg2; exact Hm|]. split; [|exact Hun].
    rewrite on_heap_modify. eapply shape_not_on_heap; [apply (inv_shape _ I1) | exact G1 | exact Hm].
Qed.

(** * MaybeRemoveMissing *)
Lemma mem_In x l : mem x l = true <-> In x l.
Proof.
  unfold mem. rewrite existsb_exists. split.
  - intros (y & Hy & E). apply N.eqb_eq in E. subst. exact Hy.
  - intro H. exists x. split; [exact H | apply N.eqb_refl].
Qed.

Record rm_exact (q q' : queue) (ids removed : list N) : Prop := {
  rx_keys : keys (q_items q') = filter (fun k => mem k ids) (keys (q_items q));
  rx_removed : removed = filter (fun k => negb (mem k ids)) (keys (q_items q));
  rx_tracked : forall id, In id (keys (q_items q')) <-> In id (keys (q_items q)) /\ In id ids;
  rx_reported : forall id, In id removed <-> In id (keys (q_items q)) /\ ~ In id ids;
  rx_on : forall id, on_heap q' id <-> on_heap q id /\ In id ids;
  rx_items : forall id, In id ids -> option_map erase (get id (q_items q')) = option_map erase (get id (q_items q))
}.

Lemma remove_missing_exact q ids :
  inv q -> length (q_items q) <> length ids ->
  rm_exact q (fst (remove_missing q ids)) ids (snd (remove_missing q ids)).
Proof.
  intros I Hl. unfold remove_missing, remove_missing_gen.
  apply Nat.eqb_neq in Hl. rewrite Hl.
  pose proof (rm_loop_spec ids (keys (q_items q)) q [] I eq_refl) as [R1 R2 R3 R4 R5 R6 R7].
  destruct (rm_loop it_id ids q (keys (q_items q))) as [q' rem]. simpl in *.
  assert (Hrem : forall id, In id rem <-> In id (keys (q_items q)) /\ ~ In id ids).
  { intro id. rewrite R3, filter_In, Bool.negb_true_iff. split; intros [A B]; split; auto.
    - intro Hc. apply mem_In in Hc. congruence.
    - destruct (mem id ids) eqn:E; [apply mem_In in E; contradiction | reflexivity]. }
  split; simpl; auto.
  - intro id. rewrite R2, filter_In, mem_In. tauto.
  - intro id. rewrite R4, Hrem. split.
    + intros [H Hn]. split; [exact H|].
      destruct (on_heap_get q id (inv_shape _ I) H) as (x & G & _). apply get_some_keys in G.
      destruct (in_dec N.eq_dec id ids); [assumption | exfalso; apply Hn; auto].
    + intros [H Hi]. split; [exact H | tauto].
  - intros id Hi. apply R5. rewrite Hrem. tauto.
Qed.

(** the same-size shortcut is exact under the server's discipline ids ⊆ tracked, ids duplicate-free *)
Lemma heuristic_exact_when_subset q ids :
  NoDup ids -> incl ids (keys (q_items q)) -> length (q_items q) = length ids ->
  remove_missing q ids = (q, []) /\ (forall id, In id (keys (q_items q)) -> In id ids).
Proof.
  intros Hnd Hinc Hl. split.
  - unfold remove_missing, remove_missing_gen. rewrite Hl, Nat.eqb_refl. reflexivity.
  - apply NoDup_length_incl; auto. unfold keys. rewrite map_length. lia.
Qed.

(** FIFO: the popped repository has the smallest sequence number of its priority class *)
Lemma pop_fifo q q' o :
  inv q -> pop q = (q', Some o) ->
  exists id x, on_heap q id /\ get id (q_items q) = Some x /\ o = it_opts x /\
    forall id' x', on_heap q id' -> id' <> id -> get id' (q_items q) = Some x' ->
      it_indexed x' = it_indexed x -> is_fail x' = is_fail x -> (it_seq x < it_seq x')%Z.
Proof.
  intros I P. destruct (pop_some q q' o I P) as [(id & x & H1 & H2 & H3 & H4 & _) _].
  exists id, x. repeat split; auto. intros id' x' Hon Hne G' Hi Hf.
  pose proof (H4 id' x' Hon G') as Hl.
  apply less_item_same_class in Hl; auto.
  destruct (Z.eq_dec (it_seq x) (it_seq x')) as [E|E]; [|lia].
  exfalso. apply Hne. apply (sq2 _ (inv_seq _ I)); auto.
  rewrite (item_of_get _ _ _ G'), (item_of_get _ _ _ H2). auto.
Qed.
