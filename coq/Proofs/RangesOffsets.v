(** C02 — rune offset -> byte offset: makeRuneOffsetMap compression and runeOffsetMap.lookup. *)
From ZV Require Import Lib.Base Lib.GoSearch Lib.RuneCount Model.Lines Model.Ranges.
From Coq Require Import ZifyBool ZifyNat Sorting.Sorted.

Section Freq.
Variable freq : nat.
Hypothesis Hfreq : 0 < freq.

Definition inc_fst (m : list (nat * nat)) : Prop := StronglySorted (fun a b => fst a < fst b) m.
Definition cnt_le (m : list (nat * nat)) (r' : nat) : nat := length (filter (fun p => fst p <=? r') m).

Lemma filter_none : forall (m : list (nat * nat)) r', Forall (fun p => r' < fst p) m -> filter (fun p => fst p <=? r') m = [].
Proof.
  intros m r' H. induction H as [|p t Hp Ht IH]; simpl; auto.
  destruct (fst p <=? r') eqn:E; [lia|auto].
Qed.

(** in a table with increasing rune offsets the entries <= r' form a prefix *)
Lemma prefix_le : forall m r', inc_fst m -> forall j p, nth_error m j = Some p -> (fst p <= r' <-> j < cnt_le m r').
Proof.
  intros m r' H. induction H as [|a t Ht IH Ha]; intros j p Hj; [destruct j; discriminate|].
  unfold cnt_le in *. simpl. destruct (fst a <=? r') eqn:E.
  - destruct j as [|j']; simpl in *.
    + injection Hj as <-. lia.
    + rewrite (IH j' p Hj). lia.
  - apply Nat.leb_gt in E. rewrite filter_none.
    + destruct j as [|j']; simpl in *.
      * injection Hj as <-. lia.
      * apply nth_error_In in Hj. rewrite Forall_forall in Ha. specialize (Ha p Hj). lia.
    + eapply Forall_impl; [|exact Ha]. intros q Hq. simpl in Hq. lia.
Qed.

Lemma cnt_le_length : forall m r', cnt_le m r' <= length m.
Proof.
  intros m r'. unfold cnt_le. induction m as [|a t IH]; simpl; auto.
  destruct (fst a <=? r'); simpl; lia.
Qed.

Fixpoint last_le (m : list (nat * nat)) (r' : nat) (cur : option (nat * nat)) : option (nat * nat) :=
  match m with
  | [] => cur
  | p :: t => if fst p <=? r' then last_le t r' (Some p) else cur
  end.

Lemma last_le_cnt : forall m r' cur, inc_fst m ->
  last_le m r' cur = match cnt_le m r' with 0 => cur | S c => nth_error m c end.
Proof.
  intros m r' cur H. revert cur. induction H as [|a t Ht IH Ha]; intros cur; [reflexivity|].
  unfold cnt_le in *. simpl. destruct (fst a <=? r') eqn:E.
  - simpl. rewrite IH. destruct (length (filter (fun p => fst p <=? r') t)); reflexivity.
  - apply Nat.leb_gt in E. rewrite filter_none; [reflexivity|]. eapply Forall_impl; [|exact Ha]. intros q Hq. simpl in Hq. lia.
Qed.

Definition value_of (o : option (nat * nat)) (r' : nat) : nat :=
  match o with Some p => snd p + r' - fst p | None => r' end.

(** lookup (with Go's binary search) = "interpolate from the last correction at or before the window" *)
Theorem lookup_spec : forall m r, inc_fst m ->
  lookup freq m r = (value_of (last_le m (r - r mod freq) None) (r - r mod freq), r mod freq).
Proof.
  intros m r Hinc. unfold lookup. set (r' := r - r mod freq).
  rewrite (last_le_cnt m r' None Hinc).
  destruct (length m) as [|n0] eqn:El.
  { destruct m; [|discriminate]. reflexivity. }
  rewrite <- El. set (slen := length m).
  set (f := fun i => match nth_error m (slen - 1 - i) with Some p => fst p <=? r' | None => true end).
  assert (Hmono : forall a b, a <= b -> f a = true -> f b = true).
  { intros a b Hab Ha. unfold f in *.
    destruct (nth_error m (slen - 1 - b)) as [q|] eqn:Eb; auto.
    destruct (nth_error m (slen - 1 - a)) as [p|] eqn:Ea.
    - apply Nat.leb_le in Ha. apply Nat.leb_le.
      apply (prefix_le m r' Hinc _ _ Eb). apply (prefix_le m r' Hinc _ _ Ea) in Ha. lia.
    - apply nth_error_None in Ea. unfold slen in *. lia. }
  rewrite (go_search_first_true _ _ Hmono). unfold first_true.
  pose proof (first_true_from_spec slen 0 f) as [Hr [Hf Ht]].
  set (i := first_true_from slen 0 f) in *.
  pose proof (cnt_le_length m r') as Hc. fold slen in Hc. set (c := cnt_le m r') in *.
  assert (Hi : i = slen - c).
  { assert (Kf : forall a, a < slen - c -> f a = false).
    { intros a Ha. unfold f. destruct (nth_error m (slen - 1 - a)) as [p|] eqn:Ea.
      - apply Nat.leb_gt. destruct (Nat.le_gt_cases (fst p) r') as [Hle|]; auto.
        apply (prefix_le m r' Hinc _ _ Ea) in Hle. fold c in Hle. lia.
      - apply nth_error_None in Ea. unfold slen in *. lia. }
    assert (Kt : slen - c < slen -> f (slen - c) = true).
    { intros Hlt. unfold f. destruct (nth_error m (slen - 1 - (slen - c))) as [p|] eqn:Ea; auto.
      apply Nat.leb_le. apply (prefix_le m r' Hinc _ _ Ea). fold c. lia. }
    destruct (Nat.lt_trichotomy i (slen - c)) as [Hlt|[Heq|Hgt]]; auto.
    - assert (f i = true) by (apply Ht; lia). assert (f i = false) by (apply Kf; lia). congruence.
    - assert (f (slen - c) = true) by (apply Kt; lia). assert (f (slen - c) = false) by (apply Hf; lia). congruence. }
  rewrite Hi. destruct c as [|c'].
  - replace (slen - 0 <? slen) with false by (symmetry; apply Nat.ltb_ge; lia). reflexivity.
  - replace (slen - S c' <? slen) with true by (symmetry; apply Nat.ltb_lt; lia).
    replace (slen - 1 - (slen - S c')) with c' by lia.
    destruct (nth_error m c') as [p|] eqn:Ep; [reflexivity|].
    apply nth_error_None in Ep. unfold slen in *. lia.
Qed.

(** makeRuneOffsetMap produces increasing rune offsets, all at or after the current index *)
Lemma make_fst_ge : forall off i e, Forall (fun p => i * freq <= fst p) (make_map_aux freq off i e).
Proof.
  induction off as [|b r IH]; intros i e; simpl; [constructor|].
  destruct (b =? e).
  - eapply Forall_impl; [|apply IH]. intros p Hp. simpl in Hp. lia.
  - constructor; [simpl; lia|]. eapply Forall_impl; [|apply IH]. intros p Hp. simpl in Hp. lia.
Qed.

Lemma make_inc : forall off i e, inc_fst (make_map_aux freq off i e).
Proof.
  induction off as [|b r IH]; intros i e; simpl; [constructor|].
  destruct (b =? e); [apply IH|]. constructor; [apply IH|].
  eapply Forall_impl; [|apply (make_fst_ge r (S i))]. intros p Hp. simpl in *. lia.
Qed.

Lemma last_le_none_after : forall m r' cur, Forall (fun p => r' < fst p) m -> last_le m r' cur = cur.
Proof.
  intros m r' cur H. destruct H as [|p t Hp Ht]; simpl; auto. destruct (fst p <=? r') eqn:E; [lia|auto].
Qed.

(** interpolating through the compressed table gives back every original sample *)
Lemma make_value : forall off i e k cur,
  i <= k -> k < i + length off ->
  (match cur with Some p => fst p <= i * freq | None => True end) ->
  value_of cur (i * freq) = e ->
  value_of (last_le (make_map_aux freq off i e) (k * freq) cur) (k * freq) = nth (k - i) off 0.
Proof.
  induction off as [|b r IH]; intros i e k cur Hik Hk Hcur Hval; simpl in Hk; [lia|].
  simpl. destruct (b =? e) eqn:Eb.
  - apply Nat.eqb_eq in Eb. subst b.
    destruct (Nat.eq_dec k i) as [->|Hne].
    + rewrite last_le_none_after.
      * rewrite Nat.sub_diag. simpl. exact Hval.
      * eapply Forall_impl; [|apply (make_fst_ge r (S i))]. intros p Hp. simpl in *. nia.
    + replace (k - i) with (S (k - S i)) by lia. simpl.
      apply IH; try lia.
      * destruct cur as [p|]; auto. simpl. lia.
      * destruct cur as [p|]; simpl in *; lia.
  - cbn [last_le fst].
    replace (i * freq <=? k * freq) with true by (symmetry; apply Nat.leb_le; nia).
    destruct (Nat.eq_dec k i) as [->|Hne].
    + rewrite last_le_none_after.
      * rewrite Nat.sub_diag. simpl. lia.
      * eapply Forall_impl; [|apply (make_fst_ge r (S i))]. intros p Hp. simpl in *. nia.
    + replace (k - i) with (S (k - S i)) by lia. simpl.
      apply IH; try lia; simpl; lia.
Qed.

(** rune_to_byte, table part: for EVERY list of samples (no monotonicity needed), looking up rune
    offset k*freq + left in the compressed table returns sample k and the remainder *)
Theorem lookup_make_map : forall offs k left,
  k < length offs -> left < freq ->
  lookup freq (make_map freq offs) (k * freq + left) = (nth k offs 0, left).
Proof.
  intros offs k left Hk Hl. unfold make_map.
  rewrite lookup_spec by apply make_inc.
  assert (Hm : (k * freq + left) mod freq = left).
  { rewrite Nat.add_comm, Nat.mod_add by lia. apply Nat.mod_small; auto. }
  rewrite Hm. replace (k * freq + left - left) with (k * freq) by lia.
  f_equal. rewrite (make_value offs 0 0 k None); auto; try lia. now rewrite Nat.sub_0_r.
Qed.

End Freq.
