(** C32 with moveAll's failure fallback (Model/Cleanup.v [cleanup_f]): rename failures make moveAll delete all
    shards it was asked to move.  Without failures [cleanup_f] is [cleanup]; with ANY failures an assigned,
    consistently named repository still keeps every indexed shard, and no unassigned repository stays searchable. *)
From ZV Require Import Lib.Base Model.Cleanup Proofs.CleanupProofs Proofs.CleanupUnassigned.
Open Scope Z_scope.

Definition nofail : bool -> N -> bool := fun _ _ => false.

Lemma moves_nofail : forall ti id g done,
  moves nofail ti id done g =
  flat_map (fun s => if s_compound s
                     then (if ti then [RmIndex (s_base s); RmTrash (s_base s)] else [TombOrRm (s_base s) id true])
                     else [rm_dst ti s; mv ti s]) g.
Proof.
  intros ti id g. induction g as [|s r IH]; intros done; [reflexivity|].
  simpl. destruct (s_compound s).
  - rewrite IH. reflexivity.
  - unfold nofail at 1. rewrite IH. reflexivity.
Qed.

Lemma plan_f_nofail : forall d repos now sm, plan_f d repos now sm nofail = plan d repos now sm.
Proof.
  intros. unfold plan_f, plan. f_equal. f_equal. f_equal; [|f_equal].
  - unfold plan4_f, plan4. apply flat_map_ext. intros id.
    destruct (memN id (trash_keys d now)); [|reflexivity].
    rewrite moves_nofail. apply flat_map_ext. intros s. unfold move_to, rm_dst, mv. destruct (s_compound s); reflexivity.
  - unfold plan5_f, plan5. apply flat_map_ext. intros id. f_equal. f_equal.
    rewrite moves_nofail. apply flat_map_ext. intros s. unfold move_to, rm_dst, mv. destruct (s_compound s); reflexivity.
Qed.

Theorem cleanup_f_nofail : forall d repos now sm, cleanup_f d repos now sm nofail = cleanup d repos now sm.
Proof. intros. unfold cleanup_f, cleanup. rewrite plan_f_nofail. reflexivity. Qed.

(** every action of moveAll concerns a shard of the list; its kind depends on the direction and on compound-ness *)
Definition move_act (ti : bool) (id : N) (s : sref) (a : act) : Prop :=
  if ti then a = RmIndex (s_base s) \/ a = RmTrash (s_base s) \/ (a = MvToIndex (s_base s) /\ s_compound s = false)
  else if s_compound s then exists totr, a = TombOrRm (s_base s) id totr
       else a = RmTrash (s_base s) \/ a = MvToTrash (s_base s) \/ a = RmIndex (s_base s).

Lemma moves_in : forall mf ti id g done a,
  (forall s, In s done -> s_compound s = false) ->
  In a (moves mf ti id done g) -> exists s, In s (done ++ g) /\ move_act ti id s a.
Proof.
  intros mf ti id g. induction g as [|s r IH]; intros done a Hd Ha; [contradiction|].
  simpl in Ha. destruct (s_compound s) eqn:K.
  - apply in_app_or in Ha. destruct Ha as [Ha|Ha].
    + exists s. split; [apply in_or_app; right; left; reflexivity|]. unfold move_act. rewrite K.
      destruct ti; simpl in Ha.
      * destruct Ha as [<-|[<-|[]]]; auto.
      * destruct Ha as [<-|[]]. eauto.
    + destruct (IH done a Hd Ha) as [s' [Hs' Hm]]. exists s'. split; [|exact Hm].
      apply in_app_or in Hs'. apply in_or_app. destruct Hs'; [left|right; right]; assumption.
  - assert (Self : forall a', a' = rm_dst ti s \/ a' = mv ti s \/ a' = rm_src ti s -> move_act ti id s a').
    { intros a' H. unfold move_act, rm_dst, mv, rm_src in *. rewrite K. destruct ti; intuition. }
    destruct (mf ti (s_base s)).
    + destruct Ha as [<-|[<-|Ha]].
      * exists s. split; [apply in_or_app; right; left; reflexivity|apply Self; left; reflexivity].
      * exists s. split; [apply in_or_app; right; left; reflexivity|apply Self; left; reflexivity].
      * apply in_app_or in Ha. destruct Ha as [Ha|Ha].
        -- apply in_map_iff in Ha. destruct Ha as [s' [<- Hs']]. exists s'. split; [apply in_or_app; left; exact Hs'|].
           unfold move_act, rm_dst. rewrite (Hd s' Hs'). destruct ti; auto.
        -- change (drop ti id s :: map (drop ti id) r) with (map (drop ti id) (s :: r)) in Ha.
           apply in_map_iff in Ha. destruct Ha as [s' [<- Hs']]. exists s'. split; [apply in_or_app; right; exact Hs'|].
           unfold move_act, drop, rm_src. destruct (s_compound s'); destruct ti; eauto.
    + destruct Ha as [<-|[<-|Ha]].
      * exists s. split; [apply in_or_app; right; left; reflexivity|apply Self; left; reflexivity].
      * exists s. split; [apply in_or_app; right; left; reflexivity|apply Self; right; left; reflexivity].
      * destruct (IH (done ++ [s]) a) as [s' [Hs' Hm]]; [|exact Ha|].
        { intros s' Hs'. apply in_app_or in Hs'. destruct Hs' as [Hs'|[<-|[]]]; auto. }
        exists s'. split; [|exact Hm]. rewrite <- app_assoc in Hs'. exact Hs'.
Qed.

(** every shard of the list is taken out of its source directory *)
Lemma moves_kills : forall mf id g done s,
  In s g -> exists a, In a (moves mf false id done g) /\ kills id (s_base s) a.
Proof.
  intros mf id g. induction g as [|s0 r IH]; intros done s Hs; [contradiction|].
  simpl. destruct Hs as [->|Hs].
  - destruct (s_compound s) eqn:K.
    + exists (TombOrRm (s_base s) id true). split; [left; reflexivity|]. right. right. right. exists true. reflexivity.
    + destruct (mf false (s_base s)).
      * exists (RmIndex (s_base s)). split; [|left; reflexivity].
        right. right. apply in_or_app. right. simpl. left. unfold drop, rm_src. rewrite K. reflexivity.
      * exists (MvToTrash (s_base s)). split; [right; left; reflexivity|right; left; reflexivity].
  - destruct (s_compound s0) eqn:K0.
    + destruct (IH done s Hs) as [a [Ha Hk]]. exists a. split; [right; exact Ha|exact Hk].
    + destruct (mf false (s_base s0)).
      * exists (drop false id s). split.
        -- right. right. apply in_or_app. right. simpl. right. apply in_map. exact Hs.
        -- unfold drop, rm_src. destruct (s_compound s); [right; right; right; exists false; reflexivity|left; reflexivity].
      * destruct (IH (done ++ [s0]) s Hs) as [a [Ha Hk]]. exists a. split; [right; right; exact Ha|exact Hk].
Qed.

Section KeptF.
  Variables (d : dir) (repos : list N) (now : Z) (sm : bool) (mf : bool -> N -> bool).
  Variables (f : file) (e : entry) (r : N).
  Hypothesis Hwf : wf d.
  Hypothesis Hf : In f (d_index d).
  Hypothesis He : In e (alive_entries f).
  Hypothesis Her : e_id e = r.
  Hypothesis Hassigned : In r repos.
  Hypothesis Hcons : consistent (group (get_shards (d_index d)) r) = true.

  Lemma plan_f_safe : Forall (safe (f_base f) r) (plan_f d repos now sm mf).
  Proof.
    pose proof (plan_safe d repos now sm f e r Hwf Hf He Her Hassigned Hcons) as PS.
    unfold plan in PS. repeat rewrite Forall_app in PS. destruct PS as [P1 [P3 [_ [_ PC]]]].
    unfold plan_f. repeat rewrite Forall_app. split; [exact P1|]. split; [exact P3|]. split; [|split; [|exact PC]].
    - (* assigned repositories *)
      apply Forall_forall. intros a Ha. unfold plan4_f in Ha. apply in_flat_map in Ha. destruct Ha as [id [_ Ha]].
      destruct (memN id (trash_keys d now)) eqn:TK.
      + apply moves_in in Ha; [|intros s []]. destruct Ha as [s [Hs Hm]]. simpl in Hs.
        assert (Hb : s_base s <> f_base f).
        { intros Hb. apply in_group in Hs. destruct Hs as [Hs Hid].
          apply in_get_shards in Hs. destruct Hs as [t [e' [Ht [He' ->]]]]. simpl in *.
          pose proof (wf_trash_names d Hwf t f e' Ht Hf Hb He') as Hin. rewrite Hid in Hin.
          apply memN_In in TK. unfold trash_keys in TK. apply filter_In in TK. destruct TK as [_ TK].
          unfold trash_drop in TK. apply memN_In in Hin. unfold ix in TK. rewrite Hin in TK. discriminate. }
        unfold move_act in Hm. destruct Hm as [->|[->|[-> _]]]; simpl; auto.
      + destruct (memN id (tomb_keys d now)) eqn:TB; [|contradiction].
        destruct (tomb_pick (tomb_candidates (d_index d) id)); [|contradiction].
        destruct Ha as [<-|[]]. simpl. right. intros ->.
        apply memN_In in TB. unfold tomb_keys in TB. apply filter_In in TB. destruct TB as [_ TB].
        pose proof (r_in_ix d f e r Hf He Her) as Hr. apply memN_In in Hr. rewrite Hr in TB. discriminate.
    - (* unassigned repositories *)
      apply Forall_forall. intros a Ha. unfold plan5_f in Ha. apply in_flat_map in Ha. destruct Ha as [id [Hid Ha]].
      assert (Hne : id <> r).
      { intros ->. unfold keys4 in Hid. apply filter_In in Hid. destruct Hid as [_ Hid].
        apply memN_In in Hassigned. rewrite Hassigned in Hid. discriminate. }
      apply in_app_or in Ha. destruct Ha as [Ha|Ha].
      + apply in_map_iff in Ha. destruct Ha as [s [<- _]]. exact I.
      + apply in_app_or in Ha. destruct Ha as [Ha|Ha].
        * apply in_map_iff in Ha. destruct Ha as [s [<- _]]. simpl. right. exact Hne.
        * apply moves_in in Ha; [|intros s []]. destruct Ha as [s [Hs Hm]]. simpl in Hs.
          apply filter_In in Hs. destruct Hs as [Hs _].
          unfold move_act in Hm. destruct (s_compound s) eqn:K.
          -- destruct Hm as [totr ->]. simpl. right. exact Hne.
          -- pose proof (simple_other_base d f e r Hwf Hf He Her s id Hs Hne K) as Hb.
             destruct Hm as [Hm|[Hm|Hm]]; subst a; simpl; auto.
  Qed.

  Theorem assigned_kept_any_failure :
    exists f', In f' (d_index (cleanup_f d repos now sm mf)) /\ f_base f' = f_base f /\
               f_compound f' = f_compound f /\ proj r f' = proj r f.
  Proof.
    unfold cleanup_f. apply (fold_holds now (f_base f) (f_compound f) r (proj r f)).
    - exists e. pose proof He as He'. unfold alive_entries in He'. apply filter_In in He'. destruct He' as [He1 Ht].
      split; [|apply negb_true_iff; exact Ht].
      unfold proj. apply filter_In. split; [exact He1|apply N.eqb_eq; exact Her].
    - exact plan_f_safe.
    - exists f. auto.
  Qed.
End KeptF.

Section UnassignedF.
  Variables (d : dir) (repos : list N) (now : Z) (sm : bool) (mf : bool -> N -> bool) (id : N).
  Hypothesis Hwf : wf d.
  Hypothesis Hwft : wf_trash d.
  Hypothesis Hun : ~ In id repos.

  Lemma plan_f_nr : Forall (nr id (TB0 d id)) (plan_f d repos now sm mf).
  Proof.
    pose proof (plan_nr d repos now sm id Hwf Hwft Hun) as PN.
    unfold plan in PN. repeat rewrite Forall_app in PN. destruct PN as [P1 [P3 [_ [_ PC]]]].
    unfold plan_f. repeat rewrite Forall_app. split; [exact P1|]. split; [exact P3|]. split; [|split; [|exact PC]].
    - apply Forall_forall. intros a Ha. unfold plan4_f in Ha. apply in_flat_map in Ha. destruct Ha as [i [Hi Ha]].
      assert (Hne : i <> id) by (intros ->; contradiction).
      destruct (memN i (trash_keys d now)) eqn:TK.
      + apply moves_in in Ha; [|intros s []]. destruct Ha as [s [Hs Hm]]. simpl in Hs.
        unfold move_act in Hm. destruct Hm as [->|[->|[-> _]]]; [exact I|exact I|]. simpl.
        (* MvToIndex (s_base s): the trashed shard of assigned repository i is not a file of [id] *)
        intros HTB. apply TB0_inv in HTB. destruct HTB as [g [Hg [Eb Hga]]].
        apply in_group in Hs. destruct Hs as [Hs Hid].
        apply in_get_shards in Hs. destruct Hs as [t [e' [Ht [He' ->]]]]. simpl in *.
        apply in_app_or in Hg. destruct Hg as [Hg|Hg].
        * pose proof (wf_trash_names d Hwf t g e' Ht Hg (eq_sym Eb) He') as Hin. rewrite Hid in Hin.
          apply memN_In in TK. unfold trash_keys in TK. apply filter_In in TK. destruct TK as [_ TK].
          unfold trash_drop in TK. apply memN_In in Hin. unfold ix in TK. rewrite Hin in TK. discriminate.
        * assert (g = t) by (eapply NoDup_base_inj; eauto using wft_nodup). subst g.
          destruct Hga as [e2 [He2 Hid2]]. apply Hne. rewrite <- Hid, <- Hid2.
          eapply wft_single; eauto.
      + destruct (memN i (tomb_keys d now)); [|contradiction].
        destruct (tomb_pick (tomb_candidates (d_index d) i)); [|contradiction].
        destruct Ha as [<-|[]]. simpl. exact Hne.
    - apply Forall_forall. intros a Ha. unfold plan5_f in Ha. apply in_flat_map in Ha. destruct Ha as [i [_ Ha]].
      apply in_app_or in Ha. destruct Ha as [Ha|Ha].
      + apply in_map_iff in Ha. destruct Ha as [s [<- _]]. exact I.
      + apply in_app_or in Ha. destruct Ha as [Ha|Ha].
        * apply in_map_iff in Ha. destruct Ha as [s [<- _]]. exact I.
        * apply moves_in in Ha; [|intros s []]. destruct Ha as [s [_ Hm]].
          unfold move_act in Hm. destruct (s_compound s).
          -- destruct Hm as [totr ->]. exact I.
          -- destruct Hm as [Hm|[Hm|Hm]]; subst a; exact I.
  Qed.

  Lemma plan_f_kills : forall g, In g (d_index d) -> has_alive id g ->
    exists a, In a (plan_f d repos now sm mf) /\ kills id (f_base g) a.
  Proof.
    intros g Hg [e [He Hid]].
    set (s := mkS (e_id e) (e_name e) (f_base g) (f_compound g) (f_mtime g)).
    assert (Hs : In s (group (ix d) id)).
    { apply in_group. split; [|exact Hid]. apply in_get_shards. exists g, e. auto. }
    assert (Hix : In id (ids_of (ix d))).
    { apply in_ids_of. exists s. split; [|exact Hid]. apply in_group in Hs. tauto. }
    destruct (consistent (group (ix d) id)) eqn:C.
    - (* handled as an unassigned repository *)
      assert (K4 : In id (keys4 d repos)).
      { unfold keys4, keys3. apply filter_In. split.
        - apply filter_In. split; [exact Hix|exact C].
        - apply negb_true_iff. destruct (memN id repos) eqn:M; [|reflexivity]. apply memN_In in M. contradiction. }
      destruct (sm && s_compound s) eqn:B.
      + exists (Tomb (f_base g) id true). split; [|right; right; left; reflexivity].
        unfold plan_f. apply in_or_app. right. apply in_or_app. right. apply in_or_app. right. apply in_or_app. left.
        unfold plan5_f. apply in_flat_map. exists id. split; [exact K4|].
        apply in_or_app. right. apply in_or_app. left.
        apply in_map_iff. exists s. split; [reflexivity|]. apply filter_In. split; [exact Hs|exact B].
      + destruct (moves_kills mf id (filter (fun s => negb (sm && s_compound s)) (group (ix d) id)) [] s) as [a [Ha Hk]].
        { apply filter_In. split; [exact Hs|rewrite B; reflexivity]. }
        exists a. split; [|exact Hk].
        unfold plan_f. apply in_or_app. right. apply in_or_app. right. apply in_or_app. right. apply in_or_app. left.
        unfold plan5_f. apply in_flat_map. exists id. split; [exact K4|].
        apply in_or_app. right. apply in_or_app. right. exact Ha.
    - (* purged as a renamed repository *)
      destruct (sm && s_compound s) eqn:B.
      + exists (Tomb (f_base g) id true). split; [|right; right; left; reflexivity].
        unfold plan_f. apply in_or_app. right. apply in_or_app. left.
        unfold plan3. apply in_flat_map. exists id. split; [exact Hix|]. rewrite C.
        apply in_or_app. left. apply in_map_iff. exists s. split; [reflexivity|].
        apply filter_In. split; [exact Hs|exact B].
      + exists (if s_compound s then TombOrRm (f_base g) id false else RmIndex (f_base g)). split.
        * unfold plan_f. apply in_or_app. right. apply in_or_app. left.
          unfold plan3. apply in_flat_map. exists id. split; [exact Hix|]. rewrite C.
          apply in_or_app. right. apply in_map_iff. exists s. split; [reflexivity|].
          apply filter_In. split; [exact Hs|rewrite B; reflexivity].
        * destruct (s_compound s); [right; right; right; exists false; reflexivity|left; reflexivity].
  Qed.

  Theorem unassigned_not_alive_after_any_failure :
    forall g e, In g (d_index (cleanup_f d repos now sm mf)) -> In e (alive_entries g) -> e_id e <> id.
  Proof.
    intros g e Hg He Hid.
    refine (kill_all now id (TB0 d id) (plan_f d repos now sm mf) d plan_f_nr _ plan_f_kills g Hg _).
    - intros h Hh Hha. apply TB0_spec; assumption.
    - exists e. auto.
  Qed.
End UnassignedF.
