(** C02 — the FULL rune -> byte theorem: the builder's sampling (newSearchableString) + makeRuneOffsetMap +
    runeOffsetMap.lookup + the decode loop of the repaired findOffset translate rune offset r of document idx
    to the byte length of the first r runes of that document, for every corpus.
    UTF-8 facts come from Lib/Utf8.v (Go's DecodeRune model): the model's width table (Lib/RuneCount.v) is proved
    equal to [Utf8.width], and the specification is stated with [Utf8.rune_boundaries]. *)
From ZV Require Import Lib.Base Lib.GoSearch Lib.RuneCount Model.Lines Model.Ranges Proofs.RangesOffsets.
From ZV Require Lib.Utf8.
From Coq Require Import ZifyBool ZifyNat ZifyN.

(** ---- the width table of Lib/RuneCount.v is Go's DecodeRune width (Lib/Utf8.v) *)
Lemma rune_width_utf8 : forall b0 r, rune_width b0 r = Utf8.width (b0 :: r).
Proof.
  intros b0 r.
  unfold Utf8.width, Utf8.decode_rune, Utf8.decode_step, rune_width, Utf8.lead_class,
    is_cont, in_rng, Utf8.is_cont, Utf8.in_rng.
  destruct (b0 =? 224)%N eqn:E224, (b0 =? 237)%N eqn:E237, (b0 =? 240)%N eqn:E240, (b0 =? 244)%N eqn:E244;
    try (exfalso; lia); cbv iota;
    destruct r as [|b1 [|b2 [|b3 r']]];
    repeat match goal with
    | |- context [if ?c then _ else _] => destruct c eqn:?; cbv iota
    end; try reflexivity; exfalso; lia.
Qed.

Lemma width_nil : Utf8.width [] = 0.
Proof. reflexivity. Qed.

Lemma width_le4 : forall l, Utf8.width l <= 4.
Proof.
  intros l. destruct l as [|b t]; [cbn; lia|].
  destruct (Utf8.width_cases (b :: t)) as [[r H]|[_ H]]; [discriminate| |lia].
  apply Utf8.decode_step_shape in H. lia.
Qed.

(** the width depends on the first four bytes only *)
Lemma width_firstn : forall l W, 4 <= W -> Utf8.width (firstn W l) = Utf8.width l.
Proof.
  intros l W HW. destruct l as [|b0 r]; [now rewrite firstn_nil|].
  destruct W as [|[|[|[|W']]]]; try lia.
  rewrite firstn_cons, <- !rune_width_utf8.
  destruct r as [|b1 [|b2 [|b3 r']]]; reflexivity.
Qed.

(** ---- skip-counter recursions of the model = "decode one rune, advance by its width" *)
Lemma runes_bytes_skip_spec : forall l skip n, skip <= length l ->
  runes_bytes_skip l skip n = skip + runes_bytes (skipn skip l) n.
Proof.
  induction l as [|b0 r IH]; intros skip n H; simpl in H.
  - assert (skip = 0) by lia. subst. reflexivity.
  - destruct skip as [|k]; [reflexivity|]. simpl. rewrite IH by lia. reflexivity.
Qed.

Lemma runes_bytes_0 : forall l, runes_bytes l 0 = 0.
Proof. destruct l; reflexivity. Qed.
Lemma runes_bytes_nil : forall n, runes_bytes [] n = 0.
Proof. reflexivity. Qed.

Lemma runes_bytes_step : forall l n, l <> [] ->
  runes_bytes l (S n) = Utf8.width l + runes_bytes (skipn (Utf8.width l) l) n.
Proof.
  intros l n Hl. destruct l as [|b0 r]; [congruence|].
  pose proof (Utf8.width_pos (b0 :: r) Hl) as H1. pose proof (Utf8.width_le (b0 :: r)) as H2.
  rewrite <- rune_width_utf8 in *. simpl in H2.
  unfold runes_bytes at 1. cbn [runes_bytes_skip].
  rewrite runes_bytes_skip_spec by lia.
  destruct (rune_width b0 r) as [|w] eqn:E; [lia|].
  simpl. rewrite Nat.sub_0_r. reflexivity.
Qed.

Lemma runes_bytes_le : forall n l, runes_bytes l n <= length l.
Proof.
  induction n as [|n IH]; intros l; [rewrite runes_bytes_0; lia|].
  destruct l as [|b0 r]; [rewrite runes_bytes_nil; simpl; lia|].
  rewrite runes_bytes_step by discriminate.
  pose proof (Utf8.width_le (b0 :: r)). specialize (IH (skipn (Utf8.width (b0 :: r)) (b0 :: r))).
  rewrite skipn_length in IH. lia.
Qed.

(** additivity: the decode loop can be resumed at any rune boundary it reached *)
Lemma runes_bytes_add : forall a b l,
  runes_bytes l (a + b) = runes_bytes l a + runes_bytes (skipn (runes_bytes l a) l) b.
Proof.
  induction a as [|a IH]; intros b l.
  - rewrite runes_bytes_0. reflexivity.
  - destruct l as [|b0 r]; [rewrite !runes_bytes_nil; reflexivity|].
    cbn [Nat.add]. rewrite !runes_bytes_step by discriminate.
    set (l := b0 :: r). set (w := Utf8.width l).
    rewrite (IH b (skipn w l)). rewrite Utf8.skipn_add. lia.
Qed.

(** the read window: W bytes suffice for n runes when W >= 4 n  (utf8.UTFMax bytes per rune) *)
Lemma runes_bytes_window : forall n l W, 4 * n <= W -> runes_bytes (firstn W l) n = runes_bytes l n.
Proof.
  induction n as [|n IH]; intros l W HW; [now rewrite !runes_bytes_0|].
  destruct l as [|b0 r]; [now rewrite firstn_nil|].
  destruct W as [|W']; [lia|].
  assert (Hne : firstn (S W') (b0 :: r) <> []) by (rewrite firstn_cons; discriminate).
  rewrite !runes_bytes_step by (auto; discriminate).
  rewrite width_firstn by lia. set (l := b0 :: r). set (w := Utf8.width l).
  pose proof (width_le4 l). fold w in H.
  rewrite skipn_firstn_comm. rewrite IH by lia. reflexivity.
Qed.

(** ASCII documents: r runes are r bytes (the PlainASCII shortcut) *)
Lemma runes_bytes_ascii : forall r l, forallb (fun b => (b <? 128)%N) l = true -> r <= length l -> runes_bytes l r = r.
Proof.
  induction r as [|r IH]; intros l Ha Hr; [apply runes_bytes_0|].
  destruct l as [|b0 t]; [simpl in Hr; lia|].
  simpl in Ha. apply andb_true_iff in Ha. destruct Ha as [Hb Ht]. simpl in Hr.
  rewrite runes_bytes_step by discriminate.
  assert (Hw : Utf8.width (b0 :: t) = 1).
  { unfold Utf8.width, Utf8.decode_rune, Utf8.decode_step.
    assert (Hl : Utf8.lead_class b0 = Utf8.LAscii) by (apply Utf8.lead_class_ascii; lia).
    now rewrite Hl. }
  rewrite Hw. simpl skipn. rewrite IH; auto. lia.
Qed.

(** ---- rune starts / boundaries of Lib/Utf8.v in terms of runes_bytes *)
Lemma rune_starts_from_nth : forall fuel l pos r, length l <= fuel ->
  r <= length (Utf8.rune_starts_from fuel pos l) ->
  nth r (Utf8.rune_starts_from fuel pos l ++ [pos + length l]) 0 = pos + runes_bytes l r.
Proof.
  induction fuel as [|f IH]; intros l pos r Hf Hr.
  - destruct l; [|simpl in Hf; lia]. simpl in *. assert (r = 0) by lia. subst. simpl. lia.
  - destruct l as [|b0 t].
    + simpl in *. assert (r = 0) by lia. subst. simpl. lia.
    + set (l := b0 :: t) in *.
      change (Utf8.rune_starts_from (S f) pos l)
        with (pos :: Utf8.rune_starts_from f (pos + Utf8.width l) (skipn (Utf8.width l) l)) in *.
      destruct r as [|r']; [rewrite runes_bytes_0; simpl; lia|].
      cbn [app nth]. cbn [length] in Hr.
      pose proof (Utf8.width_pos l ltac:(discriminate)) as H1. pose proof (Utf8.width_le l) as H2.
      replace (pos + length l) with (pos + Utf8.width l + length (skipn (Utf8.width l) l))
        by (rewrite skipn_length; lia).
      rewrite IH; [|rewrite skipn_length; subst l; simpl in *; lia|lia].
      rewrite runes_bytes_step by discriminate. lia.
Qed.

Lemma rune_starts_from_length : forall fuel l pos,
  length (Utf8.rune_starts_from fuel pos l) = length (Utf8.decode_all_fuel fuel l).
Proof.
  induction fuel as [|f IH]; intros l pos; [reflexivity|].
  destruct l as [|b0 t]; [reflexivity|]. simpl. f_equal. apply IH.
Qed.

Lemma rune_starts_length : forall l, length (Utf8.rune_starts l) = Utf8.rune_count l.
Proof. intros. apply rune_starts_from_length. Qed.

Lemma rune_starts_from_shift : forall fuel l pos,
  Utf8.rune_starts_from fuel pos l = map (Nat.add pos) (Utf8.rune_starts_from fuel 0 l).
Proof.
  induction fuel as [|f IH]; intros l pos; [reflexivity|].
  destruct l as [|b0 t]; [reflexivity|]. set (l := b0 :: t).
  change (Utf8.rune_starts_from (S f) pos l)
    with (pos :: Utf8.rune_starts_from f (pos + Utf8.width l) (skipn (Utf8.width l) l)).
  change (Utf8.rune_starts_from (S f) 0 l)
    with (0 :: Utf8.rune_starts_from f (0 + Utf8.width l) (skipn (Utf8.width l) l)).
  cbn [map]. f_equal; [lia|].
  rewrite (IH _ (pos + Utf8.width l)), (IH _ (0 + Utf8.width l)), map_map.
  apply map_ext. intros. lia.
Qed.

(** byte length of the first r runes = the r-th rune boundary of Go's decoding *)
Theorem runes_bytes_boundary : forall l r, r <= Utf8.rune_count l ->
  runes_bytes l r = nth r (Utf8.rune_boundaries l) 0.
Proof.
  intros l r Hr. unfold Utf8.rune_boundaries, Utf8.rune_starts.
  rewrite <- rune_starts_length in Hr.
  pose proof (rune_starts_from_nth (length l) l 0 r (le_n _) Hr) as H. simpl in H. now rewrite H.
Qed.

Lemma rune_starts_nth_error : forall l r, r < Utf8.rune_count l ->
  nth_error (Utf8.rune_starts l) r = Some (runes_bytes l r).
Proof.
  intros l r Hr. rewrite <- rune_starts_length in Hr.
  pose proof (rune_starts_from_nth (length l) l 0 r (le_n _) ltac:(unfold Utf8.rune_starts in Hr; lia)) as H.
  simpl in H. fold (Utf8.rune_starts l) in H. rewrite app_nth1 in H by exact Hr.
  rewrite <- H. apply nth_error_nth'. exact Hr.
Qed.
