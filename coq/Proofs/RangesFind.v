(** C02 — the FULL rune -> byte theorem: the builder's sampling (newSearchableString) + makeRuneOffsetMap +
    runeOffsetMap.lookup + the decode loop of the repaired findOffset translate rune offset r of document idx
    to the byte length of the first r runes of that document, for every corpus.
    UTF-8 facts come from Lib/Utf8.v (Go's DecodeRune model): the model's width table (Lib/RuneCount.v) is proved
    equal to [Utf8.width], and the specification is stated with [Utf8.rune_boundaries]. *)
From ZV Require Import Lib.Base Lib.GoSearch Lib.RuneCount Model.Lines Model.Ranges Proofs.RangesOffsets Proofs.RuneWidthUtf8.
From ZV Require Lib.Utf8.
From Coq Require Import ZifyBool ZifyNat ZifyN.

(** ---- skip-counter recursions of the model = "decode one rune, advance by its width" *)
Lemma runes_bytes_skip_spec : forall l skip n, skip <= length l ->
  runes_bytes_skip l skip n = skip + runes_bytes (skipn skip l) n.
Proof.
  induction l as [|b0 r IH]; intros skip n H; simpl in H.
  - assert (skip = 0) by lia. subst. reflexivity.
  - destruct skip as [|k]; [reflexivity|]. simpl. rewrite IH by lia. reflexivity.
Qed.

Lemma runes_bytes_0 : forall l, runes_bytes l 0 = 0.
Proof. destruct l; reflexivity. Qed.
Lemma runes_bytes_nil : forall n, runes_bytes [] n = 0.
Proof. reflexivity. Qed.

Lemma runes_bytes_step : forall l n, l <> [] ->
  runes_bytes l (S n) = Utf8.width l + runes_bytes (skipn (Utf8.width l) l) n.
Proof.
  intros l n Hl. destruct l as [|b0 r]; [congruence|].
  pose proof (Utf8.width_pos (b0 :: r) Hl) as H1. pose proof (Utf8.width_le (b0 :: r)) as H2.
  rewrite <- rune_width_utf8 in *. simpl in H2.
  unfold runes_bytes at 1. cbn [runes_bytes_skip].
  rewrite runes_bytes_skip_spec by lia.
  destruct (rune_width b0 r) as [|w] eqn:E; [lia|].
  simpl. rewrite Nat.sub_0_r. reflexivity.
Qed.

Lemma runes_bytes_le : forall n l, runes_bytes l n <= length l.
Proof.
  induction n as [|n IH]; intros l; [rewrite runes_bytes_0; lia|].
  destruct l as [|b0 r]; [rewrite runes_bytes_nil; simpl; lia|].
  rewrite runes_bytes_step by discriminate.
  pose proof (Utf8.width_le (b0 :: r)). specialize (IH (skipn (Utf8.width (b0 :: r)) (b0 :: r))).
  rewrite skipn_length in IH. lia.
Qed.

(** additivity: the decode loop can be resumed at any rune boundary it reached *)
Lemma runes_bytes_add : forall a b l,
  runes_bytes l (a + b) = runes_bytes l a + runes_bytes (skipn (runes_bytes l a) l) b.
Proof.
  induction a as [|a IH]; intros b l.
  - rewrite runes_bytes_0. reflexivity.
  - destruct l as [|b0 r]; [rewrite !runes_bytes_nil; reflexivity|].
    cbn [Nat.add]. rewrite !runes_bytes_step by discriminate.
    set (l := b0 :: r). set (w := Utf8.width l).
    rewrite (IH b (skipn w l)). rewrite Utf8.skipn_add. lia.
Qed.

(** the read window: W bytes suffice for n runes when W >= 4 n  (utf8.UTFMax bytes per rune) *)
Lemma runes_bytes_window : forall n l W, 4 * n <= W -> runes_bytes (firstn W l) n = runes_bytes l n.
Proof.
  induction n as [|n IH]; intros l W HW; [now rewrite !runes_bytes_0|].
  destruct l as [|b0 r]; [now rewrite firstn_nil|].
  destruct W as [|W']; [lia|].
  assert (Hne : firstn (S W') (b0 :: r) <> []) by (rewrite firstn_cons; discriminate).
  rewrite !runes_bytes_step by (auto; discriminate).
  rewrite width_firstn by lia. set (l := b0 :: r). set (w := Utf8.width l).
  pose proof (width_le4 l). fold w in H.
  rewrite skipn_firstn_comm. rewrite IH by lia. reflexivity.
Qed.

(** ASCII documents: r runes are r bytes (the PlainASCII shortcut) *)
Lemma runes_bytes_ascii : forall r l, forallb (fun b => (b <? 128)%N) l = true -> r <= length l -> runes_bytes l r = r.
Proof.
  induction r as [|r IH]; intros l Ha Hr; [apply runes_bytes_0|].
  destruct l as [|b0 t]; [simpl in Hr; lia|].
  simpl in Ha. apply andb_true_iff in Ha. destruct Ha as [Hb Ht]. simpl in Hr.
  rewrite runes_bytes_step by discriminate.
  assert (Hw : Utf8.width (b0 :: t) = 1).
  { unfold Utf8.width, Utf8.decode_rune, Utf8.decode_step.
    assert (Hl : Utf8.lead_class b0 = Utf8.LAscii) by (apply Utf8.lead_class_ascii; lia).
    now rewrite Hl. }
  rewrite Hw. simpl skipn. rewrite IH; auto. lia.
Qed.

(** ---- rune starts / boundaries of Lib/Utf8.v in terms of runes_bytes *)
Lemma rune_starts_from_nth : forall fuel l pos r, length l <= fuel ->
  r <= length (Utf8.rune_starts_from fuel pos l) ->
  nth r (Utf8.rune_starts_from fuel pos l ++ [pos + length l]) 0 = pos + runes_bytes l r.
Proof.
  induction fuel as [|f IH]; intros l pos r Hf Hr.
  - destruct l; [|simpl in Hf; lia]. simpl in Hr. assert (r = 0) by lia. subst r.
    rewrite runes_bytes_0. reflexivity.
  - destruct l as [|b0 t].
    + simpl in Hr. assert (r = 0) by lia. subst r. rewrite runes_bytes_0. reflexivity.
    + set (l := b0 :: t) in *.
      change (Utf8.rune_starts_from (S f) pos l)
        with (pos :: Utf8.rune_starts_from f (pos + Utf8.width l) (skipn (Utf8.width l) l)) in *.
      destruct r as [|r']; [rewrite runes_bytes_0; simpl; lia|].
      cbn [app nth]. cbn [length] in Hr.
      pose proof (Utf8.width_pos l ltac:(discriminate)) as H1. pose proof (Utf8.width_le l) as H2.
      replace (pos + length l) with (pos + Utf8.width l + length (skipn (Utf8.width l) l))
        by (rewrite skipn_length; lia).
      assert (Hll : length l = S (length t)) by reflexivity.
      rewrite IH; [|rewrite skipn_length; lia|lia].
      rewrite runes_bytes_step by discriminate. lia.
Qed.

Lemma rune_starts_from_length : forall fuel l pos,
  length (Utf8.rune_starts_from fuel pos l) = length (Utf8.decode_all_fuel fuel l).
Proof.
  induction fuel as [|f IH]; intros l pos; [reflexivity|].
  destruct l as [|b0 t]; [reflexivity|]. simpl. f_equal. apply IH.
Qed.

Lemma rune_starts_length : forall l, length (Utf8.rune_starts l) = Utf8.rune_count l.
Proof. intros. apply rune_starts_from_length. Qed.

Lemma rune_starts_from_shift : forall fuel l pos,
  Utf8.rune_starts_from fuel pos l = map (Nat.add pos) (Utf8.rune_starts_from fuel 0 l).
Proof.
  induction fuel as [|f IH]; intros l pos; [reflexivity|].
  destruct l as [|b0 t]; [reflexivity|]. set (l := b0 :: t).
  change (Utf8.rune_starts_from (S f) pos l)
    with (pos :: Utf8.rune_starts_from f (pos + Utf8.width l) (skipn (Utf8.width l) l)).
  change (Utf8.rune_starts_from (S f) 0 l)
    with (0 :: Utf8.rune_starts_from f (0 + Utf8.width l) (skipn (Utf8.width l) l)).
  cbn [map]. f_equal; [lia|].
  rewrite (IH _ (pos + Utf8.width l)), (IH _ (0 + Utf8.width l)), map_map.
  apply map_ext. intros. lia.
Qed.

(** byte length of the first r runes = the r-th rune boundary of Go's decoding *)
Theorem runes_bytes_boundary : forall l r, r <= Utf8.rune_count l ->
  runes_bytes l r = nth r (Utf8.rune_boundaries l) 0.
Proof.
  intros l r Hr. unfold Utf8.rune_boundaries, Utf8.rune_starts.
  rewrite <- rune_starts_length in Hr.
  pose proof (rune_starts_from_nth (length l) l 0 r (le_n _) Hr) as H. simpl in H. now rewrite H.
Qed.

Lemma rune_starts_nth_error : forall l r, r < Utf8.rune_count l ->
  nth_error (Utf8.rune_starts l) r = Some (runes_bytes l r).
Proof.
  intros l r Hr. rewrite <- rune_starts_length in Hr.
  pose proof (rune_starts_from_nth (length l) l 0 r (le_n _) ltac:(unfold Utf8.rune_starts in Hr; lia)) as H.
  simpl in H. fold (Utf8.rune_starts l) in H. rewrite app_nth1 in H by exact Hr.
  rewrite <- H. apply nth_error_nth'. exact Hr.
Qed.

(** ---- the builder's sampling: one sample per [freq] runes of the corpus-global rune index *)
Section Sampling.
Variable freq : nat.
Hypothesis Hfreq : 0 < freq.

(** the elements of [l] whose global index (idx, idx+1, ...) is a multiple of freq *)
Fixpoint pick (idx : nat) (l : list nat) : list nat :=
  match l with
  | [] => []
  | x :: t => (if idx mod freq =? 0 then [x] else []) ++ pick (S idx) t
  end.

Lemma pick_app : forall a b idx, pick idx (a ++ b) = pick idx a ++ pick (idx + length a) b.
Proof.
  induction a as [|x a IH]; intros b idx; simpl.
  - now rewrite Nat.add_0_r.
  - rewrite IH, app_assoc. replace (S idx + length a) with (idx + S (length a)) by lia. reflexivity.
Qed.

Lemma mod_qm : forall q m, m < freq -> (q * freq + m) mod freq = m.
Proof. intros q m H. rewrite Nat.add_comm, Nat.mod_add by lia. now apply Nat.mod_small. Qed.

Lemma nth_error_nil : forall {A} k, @nth_error A [] k = None.
Proof. intros A k. now destruct k. Qed.

(** sample k of a list walked from global index q*freq+m is the element at distance (-m mod freq) + k*freq *)
Lemma pick_nth : forall l q m k, m < freq ->
  nth_error (pick (q * freq + m) l) k = nth_error l ((if m =? 0 then 0 else freq - m) + k * freq).
Proof.
  induction l as [|x t IH]; intros q m k Hm.
  - cbn [pick]. now rewrite !nth_error_nil.
  - cbn [pick]. rewrite mod_qm by exact Hm.
    destruct (m =? 0) eqn:Em.
    + apply Nat.eqb_eq in Em. subst m. cbn [app].
      destruct k as [|k']; [reflexivity|]. cbn [nth_error Nat.add].
      destruct (Nat.eq_dec freq 1) as [F1|F1].
      * replace (S (q * freq + 0)) with (S q * freq + 0) by nia.
        rewrite IH by lia. cbn [Nat.eqb].
        replace (S k' * freq) with (S (0 + k' * freq)) by nia. reflexivity.
      * replace (S (q * freq + 0)) with (q * freq + 1) by lia.
        rewrite IH by lia. cbn [Nat.eqb].
        replace (S k' * freq) with (S (freq - 1 + k' * freq)) by nia. reflexivity.
    + apply Nat.eqb_neq in Em. cbn [app].
      destruct (Nat.eq_dec (S m) freq) as [F1|F1].
      * replace (S (q * freq + m)) with (S q * freq + 0) by nia.
        rewrite IH by lia. cbn [Nat.eqb].
        replace (freq - m + k * freq) with (S (0 + k * freq)) by nia. reflexivity.
      * replace (S (q * freq + m)) with (q * freq + S m) by lia.
        rewrite IH by lia. cbn [Nat.eqb].
        replace (freq - m + k * freq) with (S (freq - S m + k * freq)) by nia. reflexivity.
Qed.

Corollary pick_nth0 : forall l k, nth_error (pick 0 l) k = nth_error l (k * freq).
Proof. intros l k. apply (pick_nth l 0 0 k Hfreq). Qed.

(** sample_doc without the skip counter *)
Lemma sample_doc_skip : forall data skip idx off, skip <= length data ->
  sample_doc freq data skip idx off = sample_doc freq (skipn skip data) 0 idx (off + skip).
Proof.
  induction data as [|b0 r IH]; intros skip idx off H; simpl in H.
  - assert (skip = 0) by lia. subst. reflexivity.
  - destruct skip as [|k]; [simpl skipn; now rewrite Nat.add_0_r|].
    cbn [sample_doc skipn]. rewrite IH by lia. now replace (S off + k) with (off + S k) by lia.
Qed.

Lemma sample_doc_step : forall l idx off, l <> [] ->
  sample_doc freq l 0 idx off =
  let '(s, n) := sample_doc freq (skipn (Utf8.width l) l) 0 (S idx) (off + Utf8.width l) in
  ((if idx mod freq =? 0 then [off] else []) ++ s, n).
Proof.
  intros l idx off Hl. destruct l as [|b0 r]; [congruence|].
  pose proof (Utf8.width_pos (b0 :: r) Hl) as H1. pose proof (Utf8.width_le (b0 :: r)) as H2.
  rewrite <- rune_width_utf8 in *. simpl in H2. cbn [sample_doc].
  rewrite sample_doc_skip by lia.
  destruct (rune_width b0 r) as [|w] eqn:E; [lia|].
  simpl skipn. rewrite Nat.sub_0_r. now replace (S off + (S w - 1)) with (off + S w) by lia.
Qed.

Lemma sample_doc_spec : forall fuel l idx off, length l <= fuel ->
  sample_doc freq l 0 idx off =
  (pick idx (Utf8.rune_starts_from fuel off l), idx + length (Utf8.rune_starts_from fuel off l)).
Proof.
  induction fuel as [|f IH]; intros l idx off Hf.
  - destruct l; [|simpl in Hf; lia]. simpl. now rewrite Nat.add_0_r.
  - destruct l as [|b0 t]; [simpl; now rewrite Nat.add_0_r|].
    set (l := b0 :: t) in *.
    rewrite sample_doc_step by discriminate.
    change (Utf8.rune_starts_from (S f) off l)
      with (off :: Utf8.rune_starts_from f (off + Utf8.width l) (skipn (Utf8.width l) l)).
    pose proof (Utf8.width_pos l ltac:(discriminate)) as H1.
    assert (Hll : length l = S (length t)) by reflexivity.
    rewrite IH by (rewrite skipn_length; lia).
    cbn [pick length]. f_equal. lia.
Qed.

(** ---- the corpus: global list of rune start offsets, total rune / byte counts *)
Fixpoint starts_g (docs : list (list N)) (eb : nat) : list nat :=
  match docs with
  | [] => []
  | d :: r => map (Nat.add eb) (Utf8.rune_starts d) ++ starts_g r (eb + length d)
  end.
Fixpoint total_runes (docs : list (list N)) : nat :=
  match docs with [] => 0 | d :: r => Utf8.rune_count d + total_runes r end.

Lemma sample_corpus_cons : forall d r rc eb,
  sample_corpus freq (d :: r) rc eb =
  let K := sample_corpus freq r (rc + Utf8.rune_count d) (eb + length d) in
  {| k_samples := pick rc (map (Nat.add eb) (Utf8.rune_starts d)) ++ k_samples K;
     k_end_runes := (rc + Utf8.rune_count d) :: k_end_runes K;
     k_bounds := eb :: k_bounds K |}.
Proof.
  intros d r rc eb. cbn [sample_corpus].
  rewrite (sample_doc_spec (length d) d rc eb (le_n _)).
  rewrite rune_starts_from_shift. fold (Utf8.rune_starts d).
  rewrite map_length, rune_starts_length. reflexivity.
Qed.

Lemma corpus_samples : forall docs rc eb,
  k_samples (sample_corpus freq docs rc eb) = pick rc (starts_g docs eb).
Proof.
  induction docs as [|d r IH]; intros rc eb; [reflexivity|].
  rewrite sample_corpus_cons. cbn [k_samples starts_g].
  rewrite IH, pick_app, map_length, rune_starts_length. reflexivity.
Qed.

Lemma corpus_bounds_head : forall docs rc eb, nth_error (k_bounds (sample_corpus freq docs rc eb)) 0 = Some eb.
Proof. intros [|d r] rc eb; [reflexivity|]. now rewrite sample_corpus_cons. Qed.

Lemma corpus_bounds_nth : forall pre post rc eb i,
  nth_error (k_bounds (sample_corpus freq (pre ++ post) rc eb)) (length pre + i) =
  nth_error (k_bounds (sample_corpus freq post (rc + total_runes pre) (eb + length (concat pre)))) i.
Proof.
  induction pre as [|a pre IH]; intros post rc eb i.
  - simpl. now rewrite !Nat.add_0_r.
  - cbn [app length Nat.add]. rewrite sample_corpus_cons. cbn [k_bounds nth_error].
    rewrite IH. cbn [total_runes concat]. rewrite app_length, !Nat.add_assoc. reflexivity.
Qed.

Lemma corpus_end_runes_last : forall pre post rc eb, pre <> [] ->
  nth_error (k_end_runes (sample_corpus freq (pre ++ post) rc eb)) (length pre - 1) = Some (rc + total_runes pre).
Proof.
  induction pre as [|a pre IH]; intros post rc eb Hne; [congruence|].
  cbn [app]. rewrite sample_corpus_cons. cbn [k_end_runes length total_runes].
  destruct pre as [|b p'].
  - simpl. now rewrite Nat.add_0_r.
  - replace (S (length (b :: p')) - 1) with (S (length (b :: p') - 1)) by (simpl; lia).
    cbn [nth_error]. rewrite IH by discriminate. now rewrite Nat.add_assoc.
Qed.

Lemma starts_g_nth : forall pre doc post eb r, r < Utf8.rune_count doc ->
  nth_error (starts_g (pre ++ doc :: post) eb) (total_runes pre + r) =
  Some (eb + length (concat pre) + runes_bytes doc r).
Proof.
  induction pre as [|a pre IH]; intros doc post eb r Hr.
  - cbn [app starts_g total_runes concat length Nat.add]. rewrite nth_error_app1 by (now rewrite map_length, rune_starts_length).
    rewrite nth_error_map, rune_starts_nth_error by exact Hr. simpl. f_equal. lia.
  - cbn [app starts_g total_runes concat]. rewrite nth_error_app2 by (rewrite map_length, rune_starts_length; lia).
    rewrite map_length, rune_starts_length.
    replace (Utf8.rune_count a + total_runes pre + r - Utf8.rune_count a) with (total_runes pre + r) by lia.
    rewrite IH by exact Hr. rewrite app_length. f_equal. lia.
Qed.

End Sampling.

(** ---- findOffset *)
Section FindOffset.
Variable freq : nat.
Hypothesis Hfreq : 0 < freq.

Lemma slice_mid : forall (pre doc rest : list N) o sz, o + sz <= length doc ->
  slice (pre ++ doc ++ rest) (length pre + o) (length pre + o + sz) = firstn sz (skipn o doc).
Proof.
  intros pre doc rest o sz H. unfold slice.
  replace (length pre + o + sz - (length pre + o)) with sz by lia.
  rewrite skipn_app. replace (length pre + o - length pre) with o by lia.
  rewrite (skipn_all2 pre) by lia. cbn [app].
  rewrite skipn_app, firstn_app, skipn_length.
  replace (sz - (length doc - o)) with 0 by lia. now rewrite firstn_O, app_nil_r.
Qed.

Lemma firstn_min_length : forall {A} (x : list A) w, firstn (Nat.min w (length x)) x = firstn w x.
Proof.
  intros A x w. destruct (Nat.le_gt_cases w (length x)) as [H|H].
  - now rewrite Nat.min_l by exact H.
  - rewrite Nat.min_r by lia. rewrite firstn_all, firstn_all2 by lia. reflexivity.
Qed.

Definition window_ok (window : option nat) : Prop :=
  match window with Some w => 4 * freq <= w | None => True end.

(** the read (window clipped to the document / rest of the file-name blob) and the decode loop, started at the
    r0-th rune boundary of the document, for n < freq further runes *)
Lemma decode_tail : forall window (pb doc rest : list N) r0 n,
  window_ok window -> n < freq ->
  let all := pb ++ doc ++ rest in
  let start := length pb in
  let fend := start + length doc in
  let byte_off := start + runes_bytes doc r0 in
  (do data <- (match window with
               | Some w =>
                   let sz := if fend <? byte_off then w else Nat.min w (fend - byte_off) in
                   if byte_off + sz <=? length all then Ok (slice all byte_off (byte_off + sz)) else Err 1%N
               | None => go_slice all byte_off fend
               end);
   Ok (byte_off + runes_bytes data n - start)) = Ok (runes_bytes doc (r0 + n)).
Proof.
  intros window pb doc rest r0 n Hw Hn all start fend byte_off.
  pose proof (runes_bytes_le r0 doc) as Ho. set (o := runes_bytes doc r0) in *.
  assert (Hall : length all = start + length doc + length rest).
  { unfold all, start. rewrite !app_length. lia. }
  assert (Hres : forall data, runes_bytes data n = runes_bytes (skipn o doc) n ->
            Ok (byte_off + runes_bytes data n - start) = Ok (runes_bytes doc (r0 + n))).
  { intros data E. rewrite E, runes_bytes_add. fold o. f_equal. unfold byte_off. lia. }
  destruct window as [w|]; simpl in Hw.
  - cbv zeta. replace (fend <? byte_off) with false by (symmetry; apply Nat.ltb_ge; unfold fend, byte_off; lia).
    replace (fend - byte_off) with (length doc - o) by (unfold fend, byte_off; lia).
    set (sz := Nat.min w (length doc - o)).
    replace (byte_off + sz <=? length all) with true by (symmetry; apply Nat.leb_le; unfold byte_off; lia).
    cbn [obind]. apply Hres.
    unfold all, byte_off, start. rewrite slice_mid by lia.
    unfold sz. rewrite <- (skipn_length o doc), firstn_min_length.
    apply runes_bytes_window. lia.
  - unfold go_slice.
    replace ((byte_off <=? fend) && (fend <=? length all)) with true
      by (symmetry; apply andb_true_iff; split; apply Nat.leb_le; unfold fend, byte_off; lia).
    cbn [obind]. apply Hres. f_equal.
    replace fend with (start + o + (length doc - o)) by (unfold fend; lia).
    unfold all, byte_off, start. rewrite slice_mid by lia.
    rewrite <- (skipn_length o doc). apply firstn_all.
Qed.

Lemma rune_starts_from_le : forall fuel l pos, length (Utf8.rune_starts_from fuel pos l) <= length l.
Proof.
  induction fuel as [|f IH]; intros l pos; [simpl; lia|].
  destruct l as [|b0 t]; [simpl; lia|]. set (l := b0 :: t).
  change (Utf8.rune_starts_from (S f) pos l)
    with (pos :: Utf8.rune_starts_from f (pos + Utf8.width l) (skipn (Utf8.width l) l)).
  pose proof (Utf8.width_pos l ltac:(discriminate)) as H1. pose proof (Utf8.width_le l) as H2.
  specialize (IH (skipn (Utf8.width l) l) (pos + Utf8.width l)). rewrite skipn_length in IH.
  cbn [length] in *. fold l in IH. assert (Hll : length l = S (length t)) by reflexivity. lia.
Qed.
Lemma rune_count_le : forall l, Utf8.rune_count l <= length l.
Proof. intros l. rewrite <- rune_starts_length. apply rune_starts_from_le. Qed.

(** FULL theorem (model level): for every corpus [pre ++ doc :: post] indexed by one builder, every byte tail after the
    content section, the content read window (>= UTFMax*freq bytes) or the in-memory file-name blob, and every
    rune offset r inside the document: findOffset = byte length of the first r runes of the document. *)
Theorem find_offset_full : forall window plain pre doc post tail r,
  window_ok window ->
  (plain = true -> forallb (fun b => (b <? 128)%N) doc = true) ->
  r < Utf8.rune_count doc ->
  find_offset_corpus freq window plain (pre ++ doc :: post) tail (length pre) r = Ok (runes_bytes doc r).
Proof.
  intros window plain pre doc post tail r Hw Hplain Hr.
  unfold find_offset_corpus, find_offset.
  destruct plain.
  { rewrite runes_bytes_ascii; auto. pose proof (rune_count_le doc). lia. }
  set (docs := pre ++ doc :: post). set (K := sample_corpus freq docs 0 0).
  (* base, start, end of the document *)
  assert (Hbase : (match length pre with
                   | 0 => Ok 0
                   | S j => match nth_error (k_end_runes K) j with Some x => Ok x | None => Panic 3%N end
                   end) = Ok (total_runes pre)).
  { destruct pre as [|a p']; [reflexivity|].
    pose proof (corpus_end_runes_last freq Hfreq (a :: p') (doc :: post) 0 0 ltac:(discriminate)) as H.
    fold docs K in H. cbn [length] in *. replace (S (length p') - 1) with (length p') in H by lia.
    now rewrite H. }
  rewrite Hbase. cbn [obind].
  assert (Hstart : nth_error (k_bounds K) (length pre) = Some (length (concat pre))).
  { pose proof (corpus_bounds_nth freq Hfreq pre (doc :: post) 0 0 0) as H. fold docs K in H.
    rewrite Nat.add_0_r in H. rewrite H. now rewrite corpus_bounds_head. }
  rewrite Hstart. cbn [obind].
  assert (Hend : nth_error (k_bounds K) (S (length pre)) = Some (length (concat pre) + length doc)).
  { pose proof (corpus_bounds_nth freq Hfreq pre (doc :: post) 0 0 1) as H. fold docs K in H.
    replace (S (length pre)) with (length pre + 1) by lia. rewrite H.
    rewrite (sample_corpus_cons freq Hfreq). cbn [k_bounds].
    change (nth_error (?a :: ?l) 1) with (nth_error l 0). rewrite corpus_bounds_head. f_equal. lia. }
  rewrite Hend. cbn [obind].
  (* the sample *)
  set (R := r + total_runes pre). set (kk := R / freq). set (left := R mod freq).
  assert (HR : R = kk * freq + left) by (unfold kk, left; rewrite Nat.mul_comm; apply Nat.div_mod; lia).
  assert (Hleft : left < freq) by (apply Nat.mod_upper_bound; lia).
  set (G := starts_g docs 0).
  assert (Hsamp : k_samples K = pick freq 0 G) by (unfold K, G; apply corpus_samples; exact Hfreq).
  assert (HG : forall r', r' < Utf8.rune_count doc ->
             nth_error G (total_runes pre + r') = Some (length (concat pre) + runes_bytes doc r')).
  { intros r' Hr'. unfold G, docs. now rewrite (starts_g_nth freq Hfreq) by exact Hr'. }
  assert (HGlen : R < length G).
  { apply nth_error_Some. unfold R. rewrite Nat.add_comm, HG by exact Hr. discriminate. }
  destruct (nth_error G (kk * freq)) as [v|] eqn:Ev; [|apply nth_error_None in Ev; lia].
  assert (Hpk : nth_error (pick freq 0 G) kk = Some v) by (rewrite (pick_nth0 freq Hfreq); exact Ev).
  assert (Hkk : kk < length (k_samples K)) by (rewrite Hsamp; apply nth_error_Some; rewrite Hpk; discriminate).
  rewrite HR, (lookup_make_map freq Hfreq) by assumption.
  rewrite Hsamp, (nth_error_nth _ _ 0 Hpk).
  (* restart at the document start when the sample lies in an earlier document *)
  set (all := concat docs ++ tail).
  assert (Eall : all = concat pre ++ doc ++ (concat post ++ tail)).
  { unfold all, docs. rewrite concat_app. cbn [concat]. now rewrite <- !app_assoc. }
  destruct (r <? left) eqn:Elt.
  - apply Nat.ltb_lt in Elt.
    pose proof (decode_tail window (concat pre) doc (concat post ++ tail) 0 r Hw ltac:(lia)) as H.
    cbv zeta in H. rewrite runes_bytes_0, Nat.add_0_r in H. rewrite <- Eall in H. exact H.
  - apply Nat.ltb_ge in Elt.
    assert (Ev' : v = length (concat pre) + runes_bytes doc (r - left)).
    { assert (E : kk * freq = total_runes pre + (r - left)) by (unfold R in HR; lia).
      rewrite E, HG in Ev by lia. congruence. }
    pose proof (decode_tail window (concat pre) doc (concat post ++ tail) (r - left) left Hw Hleft) as H.
    cbv zeta in H. rewrite <- Eall, <- Ev' in H. replace (r - left + left) with r in H by lia. exact H.
Qed.

End FindOffset.

(** ---- instantiation with the constants of the tree under test (Generated/RangesConsts.v: runeOffsetFrequency and the
    factor of findOffset's read window, both regenerated from the source on every run) *)
From ZV Require Import Generated.RangesConsts.

Theorem find_offset_repo : forall (filename : bool) plain pre doc post tail r,
  (plain = true -> forallb (fun b => (b <? 128)%N) doc = true) ->
  r < Utf8.rune_count doc ->
  find_offset_corpus rune_offset_frequency (if filename then @None nat else content_window) plain
    (pre ++ doc :: post) tail (length pre) r
  = Ok (nth r (Utf8.rune_boundaries doc) 0).
Proof.
  intros filename plain pre doc post tail r Hp Hr.
  assert (Hf : 0 < rune_offset_frequency) by (unfold rune_offset_frequency; lia).
  rewrite (find_offset_full rune_offset_frequency Hf); auto.
  - f_equal. apply runes_bytes_boundary. lia.
  - destruct filename; simpl; [exact I|].
    unfold find_offset_window_factor, rune_offset_frequency. lia.
Qed.

(** the translated offset is a rune boundary of Go's decoding of the document, at most its length *)
Corollary find_offset_repo_boundary : forall (filename : bool) plain pre doc post tail r,
  (plain = true -> forallb (fun b => (b <? 128)%N) doc = true) ->
  r < Utf8.rune_count doc ->
  exists b, find_offset_corpus rune_offset_frequency (if filename then @None nat else content_window) plain
              (pre ++ doc :: post) tail (length pre) r = Ok b /\ Utf8.RB doc b /\ b < length doc.
Proof.
  intros filename plain pre doc post tail r Hp Hr.
  rewrite find_offset_repo by assumption. eexists. split; [reflexivity|].
  rewrite <- rune_starts_length in Hr.
  assert (E : nth r (Utf8.rune_boundaries doc) 0 = nth r (Utf8.rune_starts doc) 0)
    by (unfold Utf8.rune_boundaries; now rewrite app_nth1).
  rewrite E. apply Utf8.rune_starts_spec. now apply nth_In.
Qed.
