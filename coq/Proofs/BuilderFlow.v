(** Proofs about Model/BuilderFlow.v (property C10). *)
From ZV Require Import Lib.Base Model.BuilderFlow.
From Coq Require Import Permutation.

(** * A. the flush partition *)
Section PartitionProofs.
  Context {A : Type}.
  Variable weight : A -> N.
  Variable shard_max : N.

  Definition total (l : list A) : N := fold_right (fun d acc => (weight d + acc)%N) 0%N l.
  Lemma total_app l1 l2 : total (l1 ++ l2) = (total l1 + total l2)%N.
  Proof. induction l1 as [|a l1 IH]; simpl; [reflexivity|]. rewrite IH. lia. Qed.

  Lemma concat_finish (shards : list (list A)) (todo : list A) (size : N) :
    concat (finish (shards, todo, size)) = concat shards ++ todo.
  Proof.
    unfold finish. destruct todo as [|d todo].
    - destruct shards as [|s shards].
      + reflexivity.
      + rewrite app_nil_r. reflexivity.
    - rewrite concat_app. simpl. rewrite app_nil_r. reflexivity.
  Qed.

  Lemma concat_fold docs : forall (shards : list (list A)) (todo : list A) (size : N),
    concat (finish (fold_left (add_doc weight shard_max) docs (shards, todo, size))) = concat shards ++ todo ++ docs.
  Proof.
    induction docs as [|d docs IH]; intros shards todo size; cbn [fold_left].
    - rewrite concat_finish, app_nil_r. reflexivity.
    - unfold add_doc at 2. destruct (shard_max <? size + weight d)%N.
      + rewrite IH. rewrite concat_app. simpl. rewrite app_nil_r, <- !app_assoc. reflexivity.
      + rewrite IH. rewrite <- !app_assoc. reflexivity.
  Qed.

  (** every added document lands in exactly one shard, and the shards in order spell the input *)
  Theorem partition_concat docs : concat (partition weight shard_max docs) = docs.
  Proof. unfold partition. rewrite concat_fold. reflexivity. Qed.

  (** the flush rule: a flushed shard exceeds ShardMax, and did not before its last document *)
  Definition full (sh : list A) : Prop := (shard_max < total sh)%N /\ (total (removelast sh) <= shard_max)%N.

  Definition inv (st : bstate) : Prop :=
    let '(shards, todo, size) := st in size = total todo /\ (size <= shard_max)%N /\ Forall full shards.

  Lemma removelast_snoc (l : list A) d : removelast (l ++ [d]) = l.
  Proof. rewrite removelast_app by discriminate. simpl. apply app_nil_r. Qed.

  Lemma inv_add st d : inv st -> inv (add_doc weight shard_max st d).
  Proof.
    destruct st as [[shards todo] size]. unfold inv, add_doc. intros (Hs & Hle & Hf).
    destruct (shard_max <? size + weight d)%N eqn:E.
    - apply N.ltb_lt in E. split; [reflexivity|]. split; [lia|].
      apply Forall_app. split; [exact Hf|]. constructor; [|constructor].
      unfold full. rewrite removelast_snoc, total_app. simpl. subst size. split; lia.
    - apply N.ltb_ge in E. rewrite total_app. simpl. subst size. split; [lia|]. split; [lia|exact Hf].
  Qed.

  Lemma inv_fold docs : forall st, inv st -> inv (fold_left (add_doc weight shard_max) docs st).
  Proof. induction docs as [|d docs IH]; intros st H; simpl; [exact H|]. apply IH, inv_add, H. Qed.

  Theorem partition_flush_rule docs :
    exists flushed last, partition weight shard_max docs = flushed ++ last /\ Forall full flushed /\
      (last = [] \/ exists t, last = [t] /\ (total t <= shard_max)%N).
  Proof.
    unfold partition.
    assert (inv (fold_left (add_doc weight shard_max) docs ([], [], 0%N))) as H.
    { apply inv_fold. simpl. split; [reflexivity|]. split; [lia|constructor]. }
    destruct (fold_left (add_doc weight shard_max) docs ([], [], 0%N)) as [[shards todo] size].
    destruct H as (Hs & Hle & Hf). unfold finish.
    destruct todo as [|d todo].
    - destruct shards as [|s shards].
      + exists [], [[]]. split; [reflexivity|]. split; [constructor|]. right. exists []. split; [reflexivity|]. simpl. lia.
      + exists (s :: shards), []. rewrite app_nil_r. auto.
    - exists shards, [d :: todo]. split; [reflexivity|]. split; [exact Hf|]. right. exists (d :: todo). split; [reflexivity|]. lia.
  Qed.
End PartitionProofs.

(** * B. sortDocuments is a permutation *)
Section SortProofs.
  Context {A : Type}.
  Variable key : A -> dkey.

  Lemma insert_ranked_perm (x : ranked (A:=A)) l : Permutation (insert_ranked x l) (x :: l).
  Proof.
    induction l as [|y l IH]; simpl; [apply Permutation_refl|].
    destruct (lex_ltb (fst x) (fst y)); [apply Permutation_refl|].
    eapply perm_trans; [apply perm_skip, IH|apply perm_swap].
  Qed.

  Lemma sort_ranked_perm (l : list (ranked (A:=A))) : Permutation (sort_ranked l) l.
  Proof.
    induction l as [|x l IH]; simpl; [apply perm_nil|].
    eapply perm_trans; [apply insert_ranked_perm|apply perm_skip, IH].
  Qed.

  Lemma rank_all_snd l : forall i, map snd (rank_all key l i) = l.
  Proof. induction l as [|d l IH]; intros i; simpl; [reflexivity|]. rewrite IH. reflexivity. Qed.

  Theorem sort_docs_perm l : Permutation (sort_docs key l) l.
  Proof.
    unfold sort_docs. rewrite <- (rank_all_snd l 0) at 2.
    apply Permutation_map, sort_ranked_perm.
  Qed.
End SortProofs.

(** * D. result sets do not depend on the grouping into shards *)
Lemma flat_map_perm {A B} (f : A -> list B) l l' : Permutation l l' -> Permutation (flat_map f l) (flat_map f l').
Proof.
  induction 1 as [|x l l' _ IH|x y l|l l' l'' _ IH1 _ IH2]; simpl.
  - apply perm_nil.
  - apply Permutation_app_head, IH.
  - rewrite !app_assoc. apply Permutation_app_tail, Permutation_app_comm.
  - eapply perm_trans; eauto.
Qed.

Lemma flat_map_concat {A B} (f : A -> list B) (ls : list (list A)) :
  flat_map f (concat ls) = flat_map (flat_map f) ls.
Proof. induction ls as [|l ls IH]; simpl; [reflexivity|]. rewrite flat_map_app, IH. reflexivity. Qed.

Lemma concat_map_perm {A} (g : list A -> list A) (ls : list (list A)) :
  (forall l, Permutation (g l) l) -> Permutation (concat (map g ls)) (concat ls).
Proof.
  intros Hg. induction ls as [|l ls IH]; simpl; [apply perm_nil|].
  apply Permutation_app; [apply Hg|exact IH].
Qed.

Section Search.
  Context {A Q R : Type}.
  Variable match_doc : Q -> A -> list R.             (* what one document contributes to the result of q *)
  Variable search_shard : list A -> Q -> list R.     (* searching one shard built from these documents *)
  Hypothesis search_local : forall sh q, Permutation (search_shard sh q) (flat_map (match_doc q) sh).

  Definition search_all (shards : list (list A)) (q : Q) : list R := flat_map (fun sh => search_shard sh q) shards.

  Lemma search_all_flat shards q : Permutation (search_all shards q) (flat_map (match_doc q) (concat shards)).
  Proof.
    unfold search_all. rewrite flat_map_concat.
    induction shards as [|sh shards IH]; simpl; [apply perm_nil|].
    apply Permutation_app; [apply search_local|exact IH].
  Qed.

  (** any two groupings of (a permutation of) the same documents into shards give the same result multiset:
      covers ShardMax, Parallelism, insertion order, and simple vs compound shards *)
  Theorem regrouping_independent shards1 shards2 q :
    Permutation (concat shards1) (concat shards2) -> Permutation (search_all shards1 q) (search_all shards2 q).
  Proof.
    intros H. eapply perm_trans; [apply search_all_flat|].
    eapply perm_trans; [apply flat_map_perm, H|]. apply Permutation_sym, search_all_flat.
  Qed.

  Variable weight : A -> N.
  Variable key : A -> dkey.

  Lemma build_concat_perm m docs : Permutation (concat (build weight key m docs)) docs.
  Proof.
    unfold build. eapply perm_trans; [apply concat_map_perm, sort_docs_perm|].
    rewrite partition_concat. apply Permutation_refl.
  Qed.

  Theorem config_independent m1 m2 docs docs' q :
    Permutation docs docs' ->
    Permutation (search_all (build weight key m1 docs) q) (search_all (build weight key m2 docs') q).
  Proof.
    intros H. apply regrouping_independent.
    eapply perm_trans; [apply build_concat_perm|]. eapply perm_trans; [exact H|]. apply Permutation_sym, build_concat_perm.
  Qed.
End Search.
