(** C26: the encoders never panic. The checked encoders of Model/Codec.v ([enc_*_chk cap]: every varint is written by
    binary.PutUvarint into the scratch buffer `var enc [cap]byte`, index expressions checked) return [Ok] of exactly
    the bytes the pure encoders [enc_*] describe, for every value in the domain of the round-trip theorems — PROVIDED the
    capacity is at least 10 = the number of 7-bit groups of a uint64. The capacities of the tree under test are the
    GENERATED constants of Generated/CodecConsts.v; [reposmap_cap_ok] etc. are checked by computation on them and fail
    when a buffer is shrunk (e.g. to binary.MaxVarintLen32 = 5). Conversely 10 is tight: [put_chk_needs_10]. *)
From ZV Require Import Lib.Base Model.Codec Proofs.CodecCost Proofs.CodecRT Generated.CodecConsts.
From Coq Require Import ZifyBool ZifyNat ZifyN.
Open Scope N_scope.

Fixpoint pow128 (f : nat) : N := match f with O => 1 | S k => 128 * pow128 k end.

(** the key lemma: a value with at most [S f] 7-bit groups, written from index i into a buffer with room for them *)
Lemma put_chk_f_ok : forall f cap i x, x < pow128 (S f) -> (i + S f <= cap)%nat ->
  put_uvarint_chk_f (S f) cap i x = Ok (put_uvarint_f (S f) x).
Proof.
  induction f as [|f IH]; intros cap i x Hx Hi.
  - cbn [put_uvarint_chk_f put_uvarint_f].
    assert (Hc : (cap <=? i)%nat = false) by (apply Nat.leb_gt; lia). rewrite Hc.
    assert (Hs : (x <? 128) = true) by (apply N.ltb_lt; cbn [pow128] in Hx; lia). rewrite Hs. reflexivity.
  - change (put_uvarint_chk_f (S (S f)) cap i x)
      with (if (cap <=? i)%nat then Panic 4 else if x <? 128 then Ok [x]
            else do r <- put_uvarint_chk_f (S f) cap (S i) (x / 128); Ok ((x mod 128 + 128) :: r)).
    change (put_uvarint_f (S (S f)) x)
      with (if x <? 128 then [x] else (x mod 128 + 128) :: put_uvarint_f (S f) (x / 128)).
    assert (Hc : (cap <=? i)%nat = false) by (apply Nat.leb_gt; lia). rewrite Hc.
    destruct (x <? 128) eqn:Hs; [reflexivity|].
    rewrite (IH cap (S i) (x / 128)); [reflexivity | | lia].
    change (pow128 (S (S f))) with (128 * pow128 (S f)) in Hx.
    apply N.div_lt_upper_bound; lia.
Qed.

Lemma pow128_10 : 2 ^ 64 <= pow128 10.
Proof. vm_compute. discriminate. Qed.

Lemma put_chk_ok cap x : (10 <= cap)%nat -> x < 2 ^ 64 -> put_uvarint_chk cap x = Ok (put_uvarint x).
Proof.
  intros Hc Hx. unfold put_uvarint_chk, put_uvarint. apply put_chk_f_ok; [|lia].
  pose proof pow128_10. lia.
Qed.

(** PutUvarint writes at most 10 bytes for a uint64 (restated from CodecRT.put_len: why capacity 10 suffices) *)
Lemma put_uvarint_len_le_10 x : (length (put_uvarint x) <= 10)%nat.
Proof. exact (proj2 (put_len x)). Qed.

(** ... and 10 is needed: 2^64 - 1 = uint64(int(-1)) panics in every smaller buffer *)
Lemma put_chk_needs_10 cap : (cap < 10)%nat -> put_uvarint_chk cap (of_int (-1)) = Panic 4.
Proof.
  intros H. do 10 (destruct cap as [|cap]; [vm_compute; reflexivity|]). lia.
Qed.

(** ---- the loops *)
Lemma cconcat_ok {A} (f : A -> outcome bytes) (g : A -> bytes) (l : list A) :
  Forall (fun x => f x = Ok (g x)) l -> cconcat f l = Ok (concat (map g l)).
Proof.
  induction 1 as [|x r Hx _ IH]; [reflexivity|].
  cbn [cconcat map concat]. rewrite Hx, IH. reflexivity.
Qed.

Section Cap.
Variable cap : nat.
Hypothesis Hcap : (10 <= cap)%nat.

Lemma nlen_lt64 {A} (l : list A) : nlen l < 2 ^ 63 -> nlen l < 2 ^ 64.
Proof. change (2 ^ 63) with 9223372036854775808. change (2 ^ 64) with 18446744073709551616. lia. Qed.

Lemma enc_str_chk_ok s : wf_bytes s -> enc_str_chk cap s = Ok (enc_str s).
Proof.
  intros H. unfold enc_str_chk, enc_str. rewrite (put_chk_ok cap _ Hcap (nlen_lt64 s H)). reflexivity.
Qed.

Lemma enc_set_chk_ok l : wf_set l -> enc_set_chk cap l = Ok (enc_set l).
Proof.
  intros [Hn Hl]. unfold enc_set_chk, enc_set.
  rewrite (put_chk_ok cap _ Hcap (nlen_lt64 l Hn)). cbn [obind].
  rewrite (cconcat_ok (enc_str_chk cap) enc_str l); [reflexivity|].
  eapply Forall_impl; [|exact Hl]. intros s Hs. exact (enc_str_chk_ok s Hs).
Qed.

Lemma enc_branch_chk_ok b : wf_branch b -> enc_branch_chk cap b = Ok (enc_branch b).
Proof.
  intros [H1 H2]. unfold enc_branch_chk, enc_branch. rewrite (enc_str_chk_ok _ H1), (enc_str_chk_ok _ H2). reflexivity.
Qed.

Lemma enc_entry_chk_ok e : wf_entry e -> enc_entry_chk cap e = Ok (enc_entry e).
Proof.
  destruct e as [id [[hs it] brs]]. intros (Hid & Hit & Hn & Hb). unfold enc_entry_chk, enc_entry.
  assert (Hid64 : id < 2 ^ 64)
    by (change (2 ^ 32) with 4294967296 in Hid; change (2 ^ 64) with 18446744073709551616; lia).
  rewrite (put_chk_ok cap id Hcap Hid64). cbn [obind].
  rewrite (put_chk_ok cap (of_int it) Hcap (of_int_lt it)). cbn [obind].
  rewrite (put_chk_ok cap _ Hcap (nlen_lt64 brs Hn)). cbn [obind].
  rewrite (cconcat_ok (enc_branch_chk cap) enc_branch brs); [reflexivity|].
  eapply Forall_impl; [|exact Hb]. intros b Hwb. exact (enc_branch_chk_ok b Hwb).
Qed.

Lemma enc_repos_chk_ok l : wf_repos l -> enc_repos_chk cap (Some l) = Ok (enc_repos (Some l)).
Proof.
  intros (Hn & Ha & Hl). unfold enc_repos_chk, enc_repos.
  rewrite (put_chk_ok cap _ Hcap (nlen_lt64 l Hn)). cbn [obind].
  assert (Ha64 : N.of_nat (all_branches l) < 2 ^ 64)
    by (change (2 ^ 63) with 9223372036854775808 in Ha; change (2 ^ 64) with 18446744073709551616; lia).
  rewrite (put_chk_ok cap _ Hcap Ha64). cbn [obind].
  rewrite (cconcat_ok (enc_entry_chk cap) enc_entry l); [reflexivity|].
  eapply Forall_impl; [|exact Hl]. intros e He. exact (enc_entry_chk_ok e He).
Qed.

Lemma enc_br_chk_ok (l : list (bytes * bytes)) :
  nlen l < 2 ^ 63 -> Forall (fun p => wf_bytes (fst p) /\ wf_bytes (snd p)) l -> enc_br_chk cap l = Ok (enc_br l).
Proof.
  intros Hn Hl. unfold enc_br_chk, enc_br.
  rewrite (put_chk_ok cap _ Hcap (nlen_lt64 l Hn)). cbn [obind].
  rewrite (cconcat_ok _ (fun p => enc_str (fst p) ++ enc_str (snd p)) l); [reflexivity|].
  eapply Forall_impl; [|exact Hl]. intros p [H1 H2]. cbv beta.
  rewrite (enc_str_chk_ok _ H1), (enc_str_chk_ok _ H2). reflexivity.
Qed.
End Cap.

(** ---- the capacities of the tree under test (generated): checked by computation *)
Lemma reposmap_cap_ok : (10 <= reposmap_enc_cap)%nat.
Proof. apply Nat.leb_le. vm_compute. reflexivity. Qed.
Lemma stringset_cap_ok : (10 <= stringset_enc_cap)%nat.
Proof. apply Nat.leb_le. vm_compute. reflexivity. Qed.
Lemma branchesrepos_cap_ok : (10 <= branchesrepos_enc_cap)%nat.
Proof. apply Nat.leb_le. vm_compute. reflexivity. Qed.

Theorem enc_go_never_panics :
  (forall l, wf_set l -> enc_set_go l = Ok (enc_set l)) /\
  (forall l, wf_repos l -> enc_repos_go (Some l) = Ok (enc_repos (Some l))) /\
  enc_repos_go None = Ok (enc_repos None) /\
  (forall l : list (bytes * bytes), nlen l < 2 ^ 63 -> Forall (fun p => wf_bytes (fst p) /\ wf_bytes (snd p)) l ->
     enc_br_go l = Ok (enc_br l)).
Proof.
  split; [intros l H; exact (enc_set_chk_ok _ stringset_cap_ok l H)|].
  split; [intros l H; exact (enc_repos_chk_ok _ reposmap_cap_ok l H)|].
  split; [reflexivity|].
  intros l Hn Hl. exact (enc_br_chk_ok _ branchesrepos_cap_ok l Hn Hl).
Qed.

(** a buffer shorter than 10 bytes makes reposMapEncode panic on a ReposMap with IndexTimeUnix = -1 *)
Lemma enc_repos_chk_small cap : (cap < 10)%nat ->
  is_panic (enc_repos_chk cap (Some [(7, (true, (-1)%Z, []))])) = true.
Proof.
  intros H. do 10 (destruct cap as [|cap]; [vm_compute; reflexivity|]). lia.
Qed.
