(** C05: index/indexdata.go encodeRawConfig inside the model (Model/Query.v encodeRawConfig) — what the
    mask means, and hence what a query.RawConfig atom selects, in terms of the repository's RawConfig map. *)
From ZV Require Import Lib.Base Model.Query.
From Coq Require Import ZifyBool ZifyNat ZifyN.

Definition f_public : str := [112;117;98;108;105;99]%N.
Definition f_fork : str := [102;111;114;107]%N.
Definition f_archived : str := [97;114;99;104;105;118;101;100]%N.

(** the map has the value "1" for the field *)
Definition has_one (cfg : list (str * str)) (f : str) : bool :=
  match meta_lookup cfg f with Some v => str_eqb v rc_one | None => false end.

Definition yn (b : bool) : N := if b then rawConfigYes else rawConfigNo.

Lemma encodeRawConfig_bits : forall cfg,
  encodeRawConfig cfg =
  (yn (has_one cfg f_public) + 4 * yn (has_one cfg f_fork) + 16 * yn (has_one cfg f_archived))%N.
Proof.
  intros cfg. unfold encodeRawConfig, rc_fields, encode_rc_from, has_one.
  fold f_public. fold f_fork. fold f_archived.
  destruct (meta_lookup cfg f_public) as [v1|]; [destruct (str_eqb v1 rc_one)|];
  (destruct (meta_lookup cfg f_fork) as [v2|]; [destruct (str_eqb v2 rc_one)|]);
  (destruct (meta_lookup cfg f_archived) as [v3|]; [destruct (str_eqb v3 rc_one)|]); reflexivity.
Qed.

(** the six flags of package query (values compared with /repo's constants in Props/C05.v) *)
Definition RcOnlyPublic : N := 1.    Definition RcOnlyPrivate : N := 2.
Definition RcOnlyForks : N := 4.     Definition RcNoForks : N := 8.
Definition RcOnlyArchived : N := 16. Definition RcNoArchived : N := 32.

Theorem rawconfig_flags_meaning : forall cfg,
  let rc := encodeRawConfig cfg in
  rc_match RcOnlyPublic rc = has_one cfg f_public /\
  rc_match RcOnlyPrivate rc = negb (has_one cfg f_public) /\
  rc_match RcOnlyForks rc = has_one cfg f_fork /\
  rc_match RcNoForks rc = negb (has_one cfg f_fork) /\
  rc_match RcOnlyArchived rc = has_one cfg f_archived /\
  rc_match RcNoArchived rc = negb (has_one cfg f_archived).
Proof.
  intros cfg rc. subst rc. rewrite encodeRawConfig_bits.
  destruct (has_one cfg f_public), (has_one cfg f_fork), (has_one cfg f_archived); vm_compute; repeat split; reflexivity.
Qed.

(** a mask with several flags is the conjunction of the flags (uint8(r)&mask == uint8(r)) *)
Lemma land_eq_iff : forall a b, N.land a b = a <-> forall n, N.testbit a n = true -> N.testbit b n = true.
Proof.
  intros a b. split.
  - intros H n Ha. rewrite <- H in Ha. rewrite N.land_spec in Ha. apply andb_true_iff in Ha. tauto.
  - intros H. apply N.bits_inj. intros n. rewrite N.land_spec.
    destruct (N.testbit a n) eqn:Ea; [rewrite (H n Ea); reflexivity|reflexivity].
Qed.

Theorem rc_match_lor : forall m1 m2 rc, rc_match (N.lor m1 m2) rc = rc_match m1 rc && rc_match m2 rc.
Proof.
  intros m1 m2 rc. unfold rc_match. cbv zeta.
  rewrite N.land_lor_distr_l.
  set (a := N.land m1 255). set (b := N.land m2 255).
  apply Bool.eq_iff_eq_true. rewrite andb_true_iff, !N.eqb_eq, !land_eq_iff. split.
  - intros H. split; intros n Hn; apply H; rewrite N.lor_spec, Hn; [reflexivity|apply orb_true_r].
  - intros [H1 H2] n Hn. rewrite N.lor_spec in Hn. apply orb_true_iff in Hn. destruct Hn; auto.
Qed.

(** the mask never uses more than 6 bits: the uint8 of the Go code cannot overflow, and a query bit
    above bit 5 (but below 8) is never satisfied *)
Theorem encodeRawConfig_lt_64 : forall cfg, (encodeRawConfig cfg < 64)%N.
Proof.
  intros cfg. rewrite encodeRawConfig_bits.
  destruct (has_one cfg f_public), (has_one cfg f_fork), (has_one cfg f_archived); vm_compute; reflexivity.
Qed.

(** contradictory flags select nothing *)
Theorem rawconfig_contradiction : forall cfg,
  rc_match (N.lor RcOnlyPublic RcOnlyPrivate) (encodeRawConfig cfg) = false.
Proof.
  intros cfg. rewrite rc_match_lor.
  destruct (rawconfig_flags_meaning cfg) as [A [B _]]. rewrite A, B. apply andb_negb_r.
Qed.
