(** C01, layer 2: match trees. State-independent semantics [sem], the state invariant [tvalid], and
    prepare / matches / nextDoc against them. *)
From ZV Require Import Lib.Base Model.SearchCore Proofs.SearchCoreText.
From Coq Require Import Sorting.Sorted ZifyBool.

(* ------------------------------------------------------------------ induction principle for nested trees *)
Section MtInd.
Variable P : mt -> Prop.
Hypothesis Hand : forall cs, Forall P cs -> P (MTand cs).
Hypothesis Hor : forall cs, Forall P cs -> P (MTor cs).
Hypothesis Handl : forall cs, Forall P cs -> P (MTandLine cs).
Hypothesis Hnot : forall c, P c -> P (MTnot c).
Hypothesis Hwrap : forall c, P c -> P (MTwrap c).
Hypothesis Hsub : forall s, P (MTsubstr s).
Hypothesis Hscan : forall k cur, P (MTscan k cur).
Hypothesis Hdocp : forall p cur, P (MTdocp p cur).
Hypothesis Hnone : P MTnone.
Fixpoint mt_ind' (t : mt) : P t :=
  match t with
  | MTand cs => Hand cs ((fix go (l : list mt) : Forall P l := match l with [] => Forall_nil P | x :: r => Forall_cons x (mt_ind' x) (go r) end) cs)
  | MTor cs => Hor cs ((fix go (l : list mt) : Forall P l := match l with [] => Forall_nil P | x :: r => Forall_cons x (mt_ind' x) (go r) end) cs)
  | MTandLine cs => Handl cs ((fix go (l : list mt) : Forall P l := match l with [] => Forall_nil P | x :: r => Forall_cons x (mt_ind' x) (go r) end) cs)
  | MTnot c => Hnot c (mt_ind' c)
  | MTwrap c => Hwrap c (mt_ind' c)
  | MTsubstr s => Hsub s
  | MTscan k cur => Hscan k cur
  | MTdocp p cur => Hdocp p cur
  | MTnone => Hnone
  end.
End MtInd.

Section Tree.
Variable re_match : N -> list N -> bool.
Variable tolower : N -> N.
Variable orbit : N -> list N.
Variable c : corpus.
Hypothesis Hagree : agree tolower orbit.

Notation n := (ndocs c).
Notation ts fn := (texts c fn).
Notation text fn k := (text_of c fn k).

Lemma texts_length : forall fn, length (ts fn) = n.
Proof. intro. unfold texts, ndocs. apply map_length. Qed.

(* ------------------------------------------------------------------ semantics of a tree on document k *)
Definition leaf_sem (k : nat) (s : sleaf) : bool := contains tolower (sl_cs s) (sl_pat s) (text (sl_fn s) k).
Definition same_line_sem (k : nat) (cs : list mt) : bool :=
  if forallb (fun x => match content_sleaf x with Some _ => true | None => false end) cs then
    let t := text false k in
    let vs := map (fun x => match content_sleaf x with
                            | Some s => occ_offsets tolower (sl_cs s) (sl_pat s) (text false k)
                            | None => [] end) cs in
    match vs with
    | [] => true
    | v0 :: _ => existsb (fun o0 => forallb (fun v => existsb (fun o => line_of t o =? line_of t o0) v) vs) v0
    end
  else true.
Fixpoint sem (k : nat) (t : mt) : bool :=
  match t with
  | MTand cs => forallb (sem k) cs
  | MTandLine cs => forallb (sem k) cs && same_line_sem k cs
  | MTor cs => existsb (sem k) cs
  | MTnot c' => negb (sem k c')
  | MTwrap c' => sem k c'
  | MTsubstr s => leaf_sem k s
  | MTscan sk _ => scan_holds re_match tolower c sk k
  | MTdocp p _ => p k
  | MTnone => false
  end.

(* ------------------------------------------------------------------ state invariant *)
Definition bound (last : option nat) (fn : bool) : nat := match last with None => 0 | Some j => soff (ts fn) (S j) end.
Definition lt_last (last : option nat) (k : nat) : Prop := match last with None => True | Some j => j < k end.

(** a live leaf holds, of the complete hit list of its two selected trigrams, at least everything from position
    [bound last + leftPad] on; a dead leaf (some trigram of the pattern is absent from the index) matches nowhere *)
Definition leaf_valid (last : option nat) (s : sleaf) : Prop :=
  if sl_dead s then sl_cur s = [] /\ (forall k, k < n -> leaf_sem k s = false)
  else 3 <= length (sl_pat s) /\ sl_rpad s = length (sl_pat s) - sl_a s /\
       exists b B, sl_a s <= b /\ b + 3 <= length (sl_pat s) /\ B <= bound last (sl_fn s) + sl_a s /\
                   sl_hits s = filter (fun p => B <=? p) (hits_of orbit (all_tris (ts (sl_fn s))) (sl_cs s) (sl_pat s) (sl_a s) b).

Fixpoint tvalid (last : option nat) (t : mt) : Prop :=
  match t with
  | MTand cs => (fix all (l : list mt) : Prop := match l with [] => True | x :: r => tvalid last x /\ all r end) cs
  | MTor cs => (fix all (l : list mt) : Prop := match l with [] => True | x :: r => tvalid last x /\ all r end) cs
  | MTandLine cs => (fix all (l : list mt) : Prop := match l with [] => True | x :: r => tvalid last x /\ all r end) cs
  | MTnot c' => tvalid last c'
  | MTwrap c' => tvalid last c'
  | MTsubstr s => leaf_valid last s
  | MTscan _ cur => cur = last
  | MTdocp _ cur => cur = last
  | MTnone => True
  end.
Lemma tvalid_list : forall last cs,
  (fix all (l : list mt) : Prop := match l with [] => True | x :: r => tvalid last x /\ all r end) cs <-> Forall (tvalid last) cs.
Proof.
  induction cs as [|x cs IH]; split; intro H; try constructor; try exact I.
  - tauto. - apply IH; tauto. - inversion H; auto. - apply IH. inversion H; auto.
Qed.

(* ------------------------------------------------------------------ sem ignores the state *)
Lemma sleaf_prepare_static : forall k s,
  sl_pat (sleaf_prepare c k s) = sl_pat s /\ sl_cs (sleaf_prepare c k s) = sl_cs s /\ sl_fn (sleaf_prepare c k s) = sl_fn s /\
  sl_a (sleaf_prepare c k s) = sl_a s /\ sl_rpad (sleaf_prepare c k s) = sl_rpad s /\ sl_dead (sleaf_prepare c k s) = sl_dead s.
Proof. intros. unfold sleaf_prepare. destruct (sl_dead s) eqn:E; simpl; auto 10. Qed.
Lemma content_sleaf_prepare : forall k x,
  match content_sleaf (prepare c k x) with
  | Some s' => exists s, content_sleaf x = Some s /\ s' = sleaf_prepare c k s
  | None => content_sleaf x = None
  end.
Proof.
  intros k x. destruct x; simpl; try reflexivity.
  destruct (sleaf_prepare_static k s) as [_ [_ [-> _]]].
  destruct (sl_fn s); [reflexivity|]. exists s. auto.
Qed.

Lemma same_line_sem_prepare : forall j k cs, same_line_sem k (map (prepare c j) cs) = same_line_sem k cs.
Proof.
  intros j k cs. unfold same_line_sem.
  assert (H1 : forall x, match content_sleaf (prepare c j x) with Some _ => true | None => false end =
                         match content_sleaf x with Some _ => true | None => false end).
  { intro x. pose proof (content_sleaf_prepare j x) as H. destruct (content_sleaf (prepare c j x)).
    - destruct H as [s0 [-> _]]. reflexivity. - rewrite H. reflexivity. }
  assert (H2 : forall x, match content_sleaf (prepare c j x) with
                         | Some s => occ_offsets tolower (sl_cs s) (sl_pat s) (text false k) | None => [] end =
                         match content_sleaf x with
                         | Some s => occ_offsets tolower (sl_cs s) (sl_pat s) (text false k) | None => [] end).
  { intro x. pose proof (content_sleaf_prepare j x) as H. destruct (content_sleaf (prepare c j x)).
    - destruct H as [s0 [-> ->]]. destruct (sleaf_prepare_static j s0) as [-> [-> _]]. reflexivity.
    - rewrite H. reflexivity. }
  rewrite forallb_map_eq. rewrite (forallb_ext_in _ _ _ cs (fun x _ => H1 x)).
  rewrite map_map. rewrite (map_ext _ _ H2). reflexivity.
Qed.

Lemma sem_prepare : forall j k t, sem k (prepare c j t) = sem k t.
Proof.
  intros j k. induction t using mt_ind'; simpl; auto.
  - rewrite forallb_map_eq. apply forallb_ext_in. rewrite Forall_forall in H. auto.
  - rewrite existsb_map_eq. apply existsb_ext_in. rewrite Forall_forall in H. auto.
  - rewrite same_line_sem_prepare. f_equal. rewrite forallb_map_eq. apply forallb_ext_in. rewrite Forall_forall in H. auto.
  - congruence.
  - unfold leaf_sem. destruct (sleaf_prepare_static j s) as [-> [-> [-> _]]]. reflexivity.
Qed.

(* ------------------------------------------------------------------ the substring leaf *)
Lemma bound_le_start : forall last fn k, lt_last last k -> k <= n -> bound last fn <= soff (ts fn) k.
Proof.
  intros last fn k Hl Hk. destruct last as [j|]; simpl in *; [|lia]. apply soff_mono. lia.
Qed.

Lemma sleaf_prepare_spec : forall last k s,
  lt_last last k -> k < n -> leaf_valid last s -> sl_dead s = false ->
  leaf_valid (Some k) (sleaf_prepare c k s) /\
  verified tolower c k (sleaf_prepare c k s) = occ_offsets tolower (sl_cs s) (sl_pat s) (text (sl_fn s) k).
Proof.
  intros last k s Hlast Hk Hv Hd. unfold leaf_valid in Hv. rewrite Hd in Hv.
  destruct Hv as [Hm [Hr [b [B [Hab [Hb [HB Hh]]]]]]].
  set (fn := sl_fn s) in *. set (a := sl_a s) in *. set (pat := sl_pat s) in *. set (cs := sl_cs s) in *.
  set (H := hits_of orbit (all_tris (ts fn)) cs pat a b) in *.
  assert (HincH : inc H) by (apply hits_of_inc; apply all_tris_from_inc).
  assert (Hkl : k < length (ts fn)) by (rewrite texts_length; auto).
  assert (Hstart : start_of (ix_ends c fn) k = soff (ts fn) k) by (apply start_soff; lia).
  assert (Hfend : nth k (ix_ends c fn) 0 = soff (ts fn) (S k)) by (apply ends_nth; auto).
  assert (Hss : soff (ts fn) (S k) = soff (ts fn) k + length (nth k (ts fn) [])) by (apply soff_S; auto).
  pose proof (bound_le_start last fn k Hlast ltac:(lia)) as Hbs.
  set (start := soff (ts fn) k) in *. set (fend := soff (ts fn) (S k)) in *.
  set (B1 := if 0 <? start then start + a else 0).
  assert (Hh1 : (if 0 <? start then drop_while (fun p => p <=? start + a - 1) (sl_hits s) else sl_hits s)
                = filter (fun p => (B <=? p) && (B1 <=? p)) H).
  { rewrite Hh. unfold B1. destruct (0 <? start) eqn:E.
    - rewrite drop_while_le_filter by (apply inc_filter; auto). rewrite filter_filter.
      apply filter_ext. intro p. replace (S (start + a - 1)) with (start + a) by lia. reflexivity.
    - apply filter_ext. intro p. simpl. rewrite andb_true_r. reflexivity. }
  assert (Hinc1 : inc (filter (fun p => (B <=? p) && (B1 <=? p)) H)) by (apply inc_filter; auto).
  assert (HB1 : B1 <= start + a) by (unfold B1; destruct (0 <? start); lia).
  unfold sleaf_prepare. rewrite Hd. fold fn. fold a. rewrite Hstart, Hfend. fold start. fold fend. rewrite Hh1.
  rewrite take_while_lt_filter by auto. rewrite drop_while_lt_filter by auto. rewrite !filter_filter.
  split.
  - unfold leaf_valid. simpl. split; [exact Hm|]. split; [exact Hr|].
    exists b, (Nat.max (Nat.max B B1) fend). split; [exact Hab|]. split; [exact Hb|]. split.
    + fold fn. unfold bound. fold fend. lia.
    + fold fn. fold H. apply filter_ext. intro p. lia.
  - unfold verified. simpl. fold fn. fold cs. fold pat. unfold text_of.
    rewrite <- (substring_candidates_exact tolower orbit (ts fn) cs pat a b k Hagree Hm Hab Hb Hkl).
    f_equal. unfold cands_of. fold H. fold start. fold fend. f_equal.
    apply filter_ext. intro p. rewrite Hr. fold pat. fold a. lia.
Qed.

Lemma occ_nil_sem : forall cs pat t, occ_offsets tolower cs pat t = [] <-> contains tolower cs pat t = false.
Proof.
  intros. unfold contains, occ_offsets. rewrite existsb_filter_nonnil.
  destruct (filter (occurs_at tolower cs pat t) (seq 0 (S (length t)))); split; intro; congruence.
Qed.

Lemma leaf_run : forall last k s,
  lt_last last k -> k < n -> leaf_valid last s ->
  leaf_valid (Some k) (sleaf_prepare c k s) /\
  verified tolower c k (sleaf_prepare c k s) = occ_offsets tolower (sl_cs s) (sl_pat s) (text (sl_fn s) k) /\
  forall cost, (run3 re_match tolower c cost k (MTsubstr (sleaf_prepare c k s)) = Higher \/
                run3 re_match tolower c cost k (MTsubstr (sleaf_prepare c k s)) = pred3 (leaf_sem k s)) /\
               (2 <= cost -> run3 re_match tolower c cost k (MTsubstr (sleaf_prepare c k s)) = pred3 (leaf_sem k s)).
Proof.
  intros last k s Hlast Hk Hv.
  assert (Hboth : leaf_valid (Some k) (sleaf_prepare c k s) /\
          verified tolower c k (sleaf_prepare c k s) = occ_offsets tolower (sl_cs s) (sl_pat s) (text (sl_fn s) k)).
  { destruct (sl_dead s) eqn:Hd.
    - unfold sleaf_prepare. rewrite Hd. unfold leaf_valid in *. rewrite Hd in *. split; [exact Hv|].
      destruct Hv as [Hc Hf]. unfold verified. rewrite Hc. simpl. symmetry. apply occ_nil_sem. apply (Hf k Hk).
    - apply (sleaf_prepare_spec last); auto. }
  destruct Hboth as [Hv' Hver]. split; [exact Hv'|]. split; [exact Hver|].
  intro cost. simpl.
  assert (Hsem : leaf_sem k s = match verified tolower c k (sleaf_prepare c k s) with [] => false | _ => true end).
  { rewrite Hver. unfold leaf_sem, contains, occ_offsets. apply existsb_filter_nonnil. }
  destruct (sl_cur (sleaf_prepare c k s)) eqn:Ecur.
  - assert (verified tolower c k (sleaf_prepare c k s) = []) as Hnil by (unfold verified; rewrite Ecur; reflexivity).
    rewrite Hnil in Hsem. rewrite Hsem. simpl. auto.
  - rewrite <- Hsem. destruct (sl_fn (sleaf_prepare c k s)); destruct (cost <? _) eqn:E; split; auto; intro; lia.
Qed.

(* ------------------------------------------------------------------ three-valued connectives *)
Lemma and3_cons : forall s l, and3 (s :: l) =
  match s with NoneM => NoneM | Higher => match and3 l with NoneM => NoneM | _ => Higher end | Found => and3 l end.
Proof.
  intros s l. unfold and3. simpl. destruct s; simpl; try reflexivity.
  destruct (existsb (fun s => match s with NoneM => true | _ => false end) l); [reflexivity|].
  destruct (existsb (fun s => match s with Higher => true | _ => false end) l); reflexivity.
Qed.
Lemma or3_cons : forall s l, or3 (s :: l) =
  match s with Higher => Higher | Found => match or3 l with Higher => Higher | _ => Found end | NoneM => or3 l end.
Proof.
  intros s l. unfold or3. simpl. destruct s; simpl; try reflexivity.
  destruct (existsb (fun s => match s with Higher => true | _ => false end) l); [reflexivity|].
  destruct (existsb (fun s => match s with Found => true | _ => false end) l); reflexivity.
Qed.
Lemma and3_spec : forall (f : mt -> st3) (g : mt -> bool) cs,
  (forall x, In x cs -> f x = Higher \/ f x = pred3 (g x)) ->
  and3 (map f cs) = Higher \/ and3 (map f cs) = pred3 (forallb g cs).
Proof.
  induction cs as [|x cs IH]; intro H; [right; reflexivity|].
  simpl map. rewrite and3_cons. simpl forallb.
  pose proof (H x (or_introl eq_refl)) as E. pose proof (IH (fun y Hy => H y (or_intror Hy))) as E'.
  destruct (f x); destruct (and3 (map f cs)); destruct (g x); destruct (forallb g cs); simpl in *;
    destruct E as [E|E]; try discriminate E; destruct E' as [E'|E']; try discriminate E'; auto.
Qed.
Lemma and3_dec : forall (f : mt -> st3) (g : mt -> bool) cs,
  (forall x, In x cs -> f x = pred3 (g x)) -> and3 (map f cs) = pred3 (forallb g cs).
Proof.
  induction cs as [|x cs IH]; intro H; [reflexivity|].
  simpl map. rewrite and3_cons. simpl forallb. rewrite (H x (or_introl eq_refl)). rewrite (IH (fun y Hy => H y (or_intror Hy))).
  destruct (g x); destruct (forallb g cs); reflexivity.
Qed.
Lemma or3_spec : forall (f : mt -> st3) (g : mt -> bool) cs,
  (forall x, In x cs -> f x = Higher \/ f x = pred3 (g x)) ->
  or3 (map f cs) = Higher \/ or3 (map f cs) = pred3 (existsb g cs).
Proof.
  induction cs as [|x cs IH]; intro H; [right; reflexivity|].
  simpl map. rewrite or3_cons. simpl existsb.
  pose proof (H x (or_introl eq_refl)) as E. pose proof (IH (fun y Hy => H y (or_intror Hy))) as E'.
  destruct (f x); destruct (or3 (map f cs)); destruct (g x); destruct (existsb g cs); simpl in *;
    destruct E as [E|E]; try discriminate E; destruct E' as [E'|E']; try discriminate E'; auto.
Qed.
Lemma or3_dec : forall (f : mt -> st3) (g : mt -> bool) cs,
  (forall x, In x cs -> f x = pred3 (g x)) -> or3 (map f cs) = pred3 (existsb g cs).
Proof.
  induction cs as [|x cs IH]; intro H; [reflexivity|].
  simpl map. rewrite or3_cons. simpl existsb. rewrite (H x (or_introl eq_refl)). rewrite (IH (fun y Hy => H y (or_intror Hy))).
  destruct (g x); destruct (existsb g cs); reflexivity.
Qed.

(* ------------------------------------------------------------------ prepare keeps the invariant; matches computes sem *)
Lemma same_line_prepared : forall last k cs, lt_last last k -> k < n -> Forall (tvalid last) cs ->
  same_line tolower c k (map (prepare c k) cs) = same_line_sem k cs.
Proof.
  intros last k cs Hlast Hk Hv. unfold same_line, same_line_sem. rewrite Forall_forall in Hv.
  assert (H1 : forall x, match content_sleaf (prepare c k x) with Some _ => true | None => false end =
                         match content_sleaf x with Some _ => true | None => false end).
  { intro x. pose proof (content_sleaf_prepare k x) as H. destruct (content_sleaf (prepare c k x)).
    - destruct H as [s0 [-> _]]. reflexivity. - rewrite H. reflexivity. }
  assert (H2 : forall x, In x cs -> match content_sleaf (prepare c k x) with
                         | Some s => verified tolower c k s | None => [] end =
                         match content_sleaf x with
                         | Some s => occ_offsets tolower (sl_cs s) (sl_pat s) (text false k) | None => [] end).
  { intros x Hx. pose proof (content_sleaf_prepare k x) as H. destruct (content_sleaf (prepare c k x)).
    - destruct H as [s0 [E ->]]. rewrite E. destruct x; simpl in E; try discriminate.
      destruct (sl_fn s) eqn:Ef; [discriminate|]. inversion E; subst.
      specialize (Hv _ Hx). simpl in Hv. destruct (leaf_run last k s0 Hlast Hk Hv) as [_ [Hver _]]. rewrite Hver, Ef. reflexivity.
    - rewrite H. reflexivity. }
  rewrite forallb_map_eq. rewrite (forallb_ext_in _ _ _ cs (fun x _ => H1 x)).
  rewrite map_map. rewrite (map_ext_in _ _ cs H2). reflexivity.
Qed.

Theorem prepare_run : forall last k t,
  lt_last last k -> k < n -> tvalid last t ->
  tvalid (Some k) (prepare c k t) /\
  forall cost, (run3 re_match tolower c cost k (prepare c k t) = Higher \/
                run3 re_match tolower c cost k (prepare c k t) = pred3 (sem k t)) /\
               (3 <= cost -> run3 re_match tolower c cost k (prepare c k t) = pred3 (sem k t)).
Proof.
  intros last k t Hlast Hk. induction t using mt_ind'; intro Hv.
  - (* and *) simpl in Hv. apply tvalid_list in Hv. rewrite Forall_forall in H, Hv. split.
    + simpl. apply tvalid_list. apply Forall_forall. intros y Hy. apply in_map_iff in Hy. destruct Hy as [x [<- Hx]]. apply H; auto.
    + intro cost. simpl. rewrite map_map. split.
      * apply and3_spec. intros x Hx. apply (proj2 (H x Hx (Hv x Hx)) cost).
      * intro Hc. apply and3_dec. intros x Hx. apply (proj2 (H x Hx (Hv x Hx)) cost). exact Hc.
  - (* or *) simpl in Hv. apply tvalid_list in Hv. rewrite Forall_forall in H, Hv. split.
    + simpl. apply tvalid_list. apply Forall_forall. intros y Hy. apply in_map_iff in Hy. destruct Hy as [x [<- Hx]]. apply H; auto.
    + intro cost. simpl. rewrite map_map. split.
      * apply or3_spec. intros x Hx. apply (proj2 (H x Hx (Hv x Hx)) cost).
      * intro Hc. apply or3_dec. intros x Hx. apply (proj2 (H x Hx (Hv x Hx)) cost). exact Hc.
  - (* andLine *) simpl in Hv. apply tvalid_list in Hv. pose proof Hv as HvF. rewrite Forall_forall in H, Hv. split.
    + simpl. apply tvalid_list. apply Forall_forall. intros y Hy. apply in_map_iff in Hy. destruct Hy as [x [<- Hx]]. apply H; auto.
    + intro cost. simpl. rewrite map_map. rewrite (same_line_prepared last k cs Hlast Hk HvF). split.
      * destruct (and3_spec (fun x => run3 re_match tolower c cost k (prepare c k x)) (sem k) cs
                    (fun x Hx => proj1 (proj2 (H x Hx (Hv x Hx)) cost))) as [E|E]; rewrite E; [left; reflexivity|].
        right. destruct (forallb (sem k) cs); reflexivity.
      * intro Hc. rewrite (and3_dec (fun x => run3 re_match tolower c cost k (prepare c k x)) (sem k) cs
                    (fun x Hx => proj2 (proj2 (H x Hx (Hv x Hx)) cost) Hc)).
        destruct (forallb (sem k) cs); reflexivity.
  - (* not *) simpl in Hv. destruct (IHt Hv) as [Hv' Hr]. split; [exact Hv'|]. intro cost. simpl.
    destruct (Hr cost) as [[E|E] Hd]; split.
    + rewrite E. auto. + intro Hc. rewrite (Hd Hc). destruct (sem k t); reflexivity.
    + rewrite E. right. destruct (sem k t); reflexivity. + intro Hc. rewrite (Hd Hc). destruct (sem k t); reflexivity.
  - (* wrap *) simpl in Hv. destruct (IHt Hv) as [Hv' Hr]. split; [exact Hv'|]. intro cost. simpl. apply Hr.
  - (* substr *) simpl in Hv. destruct (leaf_run last k s Hlast Hk Hv) as [Hv' [_ Hr]]. split; [exact Hv'|].
    intro cost. destruct (Hr cost) as [Ha Hb]. split; [exact Ha|]. intro Hc. apply Hb. lia.
  - (* scan *) split; [reflexivity|]. intro cost. simpl. destruct k0; simpl.
    + split; [right; reflexivity | reflexivity].
    + destruct (cost <? 3) eqn:E; split; auto; intro; lia.
    + destruct (cost <? 3) eqn:E; split; auto; intro; lia.
    + destruct (cost <? 3) eqn:E; split; auto; intro; lia.
    + destruct (cost <? 3) eqn:E; split; auto; intro; lia.
    + destruct (cost <? 3) eqn:E; split; auto; intro; lia.
  - (* docp *) split; [reflexivity|]. intro cost. simpl. split; auto.
  - split; [exact I|]. intro cost. simpl. split; auto.
Qed.

(* ------------------------------------------------------------------ nextDoc never skips a matching document *)
Lemma find_end_le : forall off es j i, i < length es -> off < nth i es 0 -> find_end off es j <= j + i.
Proof.
  induction es as [|e es IH]; intros j i Hi Hn; [simpl in Hi; lia|].
  simpl. destruct (e <=? off) eqn:E.
  - destruct i as [|i]; [simpl in Hn; lia|]. simpl in Hi, Hn. specialize (IH (S j) i ltac:(lia) Hn). lia.
  - lia.
Qed.
Lemma find_seq_first : forall (p : nat -> bool) len i,
  match find p (seq i len) with
  | Some j => i <= j < i + len /\ p j = true /\ (forall m, i <= m < j -> p m = false)
  | None => forall m, i <= m < i + len -> p m = false
  end.
Proof.
  induction len as [|len IH]; intro i; simpl; [intros; lia|].
  destruct (p i) eqn:E.
  - split; [lia|]. split; [exact E|]. intros; lia.
  - specialize (IH (S i)). destruct (find p (seq (S i) len)) as [j|].
    + destruct IH as [H1 [H2 H3]]. split; [lia|]. split; [exact H2|]. intros m Hm.
      destruct (Nat.eq_dec m i) as [->|Hne]; [exact E | apply H3; lia].
    + intros m Hm. destruct (Nat.eq_dec m i) as [->|Hne]; [exact E | apply IH; lia].
Qed.
Lemma first_from_spec : forall p i m, i <= m ->
  i <= first_from p i m <= m /\ (first_from p i m < m -> p (first_from p i m) = true) /\
  (forall j, i <= j < first_from p i m -> p j = false).
Proof.
  intros p i m Hi. unfold first_from. pose proof (find_seq_first p (m - i) i) as H.
  destruct (find p (seq i (m - i))) as [j|].
  - destruct H as [H1 [H2 H3]]. split; [lia|]. split; [auto|]. exact H3.
  - split; [lia|]. split; [lia|]. intros j Hj. apply H. lia.
Qed.
Lemma first_from_le : forall p i m k, i <= k -> k < m -> p k = true -> first_from p i m <= k.
Proof.
  intros p i m k Hi Hk Hp. destruct (first_from_spec p i m ltac:(lia)) as [_ [_ H]].
  destruct (le_lt_dec (first_from p i m) k) as [|Hlt]; [auto|]. rewrite (H k ltac:(lia)) in Hp. discriminate.
Qed.
Lemma inc_head_min : forall x l y, inc (x :: l) -> In y (x :: l) -> x <= y.
Proof.
  intros x l y H Hy. inversion H as [|? ? _ Hf]; subst. destruct Hy as [->|Hy]; [lia|].
  rewrite Forall_forall in Hf. specialize (Hf _ Hy). lia.
Qed.
Lemma cursor_next_le : forall last k, lt_last last k -> cursor_next last <= k.
Proof. intros [j|] k H; simpl in *; lia. Qed.

Lemma fold_max_le : forall (f : mt -> nat) k cs, (forall x, In x cs -> f x <= k) ->
  fold_right (fun x m => Nat.max (f x) m) 0 cs <= k.
Proof.
  induction cs as [|x cs IH]; simpl; intro H; [lia|]. apply Nat.max_lub; [apply H; auto | apply IH; auto].
Qed.
Lemma fold_min_le : forall (f : mt -> nat) k d cs y, In y cs -> f y <= k ->
  fold_right (fun x m => Nat.min (f x) m) d cs <= k.
Proof.
  induction cs as [|x cs IH]; simpl; intros y Hy Hf; [destruct Hy|]. destruct Hy as [->|Hy].
  - lia. - specialize (IH y Hy Hf). lia.
Qed.

Theorem nextDoc_lower_bound : forall last k t,
  lt_last last k -> k < n -> tvalid last t -> sem k t = true -> nextDoc c t <= k.
Proof.
  intros last k t Hlast Hk. induction t using mt_ind'; intros Hv Hs.
  - simpl in *. apply tvalid_list in Hv. rewrite Forall_forall in H, Hv. rewrite forallb_forall in Hs.
    apply fold_max_le. intros x Hx. apply H; auto.
  - simpl in *. apply tvalid_list in Hv. rewrite Forall_forall in H, Hv. apply existsb_exists in Hs. destruct Hs as [y [Hy Hsy]].
    apply (fold_min_le _ k n cs y Hy). apply H; auto.
  - simpl in *. apply andb_true_iff in Hs. destruct Hs as [Hs _].
    apply tvalid_list in Hv. rewrite Forall_forall in H, Hv. rewrite forallb_forall in Hs.
    apply fold_max_le. intros x Hx. apply H; auto.
  - simpl. lia.
  - simpl in *. auto.
  - simpl in *. unfold leaf_valid in Hv. destruct (sl_dead s) eqn:Hd.
    + destruct Hv as [_ Hf]. rewrite (Hf k Hk) in Hs. discriminate.
    + destruct Hv as [Hm [Hr [b [B [Hab [Hb [HB Hh]]]]]]].
      unfold leaf_sem, contains in Hs. apply existsb_exists in Hs. destruct Hs as [o [_ Hocc]].
      assert (Hkl : k < length (ts (sl_fn s))) by (rewrite texts_length; auto).
      pose proof (hit_of_occurrence tolower orbit (ts (sl_fn s)) (sl_cs s) (sl_pat s) (sl_a s) b k o Hagree Hab Hb Hkl Hocc) as Hin.
      pose proof (occurs_at_len tolower (sl_cs s) (sl_pat s) _ o ltac:(lia) Hocc) as Hol. unfold text_of in Hol.
      pose proof (soff_S (ts (sl_fn s)) k Hkl) as Hss.
      pose proof (bound_le_start last (sl_fn s) k Hlast ltac:(lia)) as Hbs.
      set (p := soff (ts (sl_fn s)) k + o + sl_a s) in *.
      assert (Hp : In p (sl_hits s)) by (rewrite Hh; apply filter_In; split; [exact Hin | unfold p; lia]).
      assert (Hinc : inc (sl_hits s)) by (rewrite Hh; apply inc_filter; apply hits_of_inc; apply all_tris_from_inc).
      destruct (sl_hits s) as [|q rest]; [destruct Hp|].
      pose proof (inc_head_min q rest p Hinc Hp) as Hq.
      change k with (0 + k). apply find_end_le.
      * unfold ix_ends, ends_of. rewrite ends_from_length. exact Hkl.
      * unfold ix_ends. rewrite ends_nth by auto. unfold p in Hq. lia.
  - simpl in *. subst. apply cursor_next_le; auto.
  - simpl in *. subst. apply first_from_le; auto. apply cursor_next_le; auto.
  - simpl in Hs. discriminate.
Qed.

(** the cost loop accepts exactly the documents on which the tree holds; the log.Panicf branch is unreachable *)
Theorem accept_sem : forall last k t, lt_last last k -> k < n -> tvalid last t ->
  accept re_match tolower c k (prepare c k t) = sem k t /\ run3 re_match tolower c 3 k (prepare c k t) <> Higher.
Proof.
  intros last k t Hlast Hk Hv. destruct (prepare_run last k t Hlast Hk Hv) as [_ Hr].
  pose proof (proj2 (Hr 3) ltac:(lia)) as H3. split.
  - unfold accept. simpl forallb. rewrite !H3.
    destruct (proj1 (Hr 0)) as [E0|E0]; rewrite E0; destruct (proj1 (Hr 1)) as [E1|E1]; rewrite E1;
      destruct (proj1 (Hr 2)) as [E2|E2]; rewrite E2; destruct (sem k t); reflexivity.
  - rewrite H3. destruct (sem k t); discriminate.
Qed.
End Tree.
