(** Proofs about Model/Shards.v (C18). *)
From ZV Require Import Lib.Base Model.Shards.

(** ---- small list facts ---- *)
Lemma filter_all_true : forall A (l : list A), filter (fun _ => true) l = l.
Proof. induction l as [|x l IH]; cbn; [reflexivity | now rewrite IH]. Qed.

Lemma flat_map_filter_eq : forall A B (f g : A -> list B) (keep : A -> bool) (l : list A),
  (forall x, In x l -> keep x = false -> g x = []) ->
  (forall x, In x l -> keep x = true -> f x = g x) ->
  flat_map f (filter keep l) = flat_map g l.
Proof.
  intros A B f g keep l. induction l as [|x l IH]; intros Hd Hk; cbn; [reflexivity|].
  destruct (keep x) eqn:E; cbn.
  - rewrite (Hk x (or_introl eq_refl) E). f_equal. apply IH; intros; [apply Hd | apply Hk]; auto; now right.
  - rewrite (Hd x (or_introl eq_refl) E). cbn. apply IH; intros; [apply Hd | apply Hk]; auto; now right.
Qed.

Lemma filter_ext_In : forall A (p q : A -> bool) l, (forall x, In x l -> p x = q x) -> filter p l = filter q l.
Proof.
  intros A p q l. induction l as [|x l IH]; intros H; cbn; [reflexivity|].
  rewrite (H x (or_introl eq_refl)). rewrite IH; [reflexivity|]. intros y Hy. apply H. now right.
Qed.

Lemma filter_none : forall A (p : A -> bool) l, (forall x, In x l -> p x = false) -> filter p l = [].
Proof.
  intros A p l. induction l as [|x l IH]; intros H; cbn; [reflexivity|].
  rewrite (H x (or_introl eq_refl)). apply IH. intros y Hy. apply H. now right.
Qed.

Lemma existsb_ext_In : forall A (p q : A -> bool) l, (forall x, In x l -> p x = q x) -> existsb p l = existsb q l.
Proof.
  intros A p q l. induction l as [|x l IH]; intros H; cbn; [reflexivity|].
  rewrite (H x (or_introl eq_refl)). rewrite IH; [reflexivity|]. intros y Hy. apply H. now right.
Qed.

Lemma existsb_none : forall A (p : A -> bool) l, (forall x, In x l -> p x = false) -> existsb p l = false.
Proof.
  intros A p l. induction l as [|x l IH]; intros H; cbn; [reflexivity|].
  rewrite (H x (or_introl eq_refl)). apply IH. intros y Hy. apply H. now right.
Qed.

Lemma existsb_false_In : forall A (p : A -> bool) l x, existsb p l = false -> In x l -> p x = false.
Proof.
  intros A p l x H Hin. destruct (p x) eqn:E; [|reflexivity].
  assert (existsb p l = true) by (apply existsb_exists; eauto). congruence.
Qed.

Lemma forallb_In : forall A (p : A -> bool) l x, forallb p l = true -> In x l -> p x = true.
Proof. intros A p l x H Hin. rewrite forallb_forall in H. auto. Qed.

Lemma eval_top_app : forall tr a b r d, eval_top tr (a ++ b) r d = eval_top tr a r d && eval_top tr b r d.
Proof. intros. unfold eval_top. apply forallb_app. Qed.

(** ---- the selected child decides ---- *)
Lemma child_false : forall tr c p r d, child_pred c = Some p -> p r = false -> eval tr c r d = false.
Proof.
  intros tr c p r d Hc Hp. destruct c; cbn in Hc; try discriminate.
  - injection Hc as <-. exact Hp.
  - injection Hc as <-. cbn. apply existsb_none. intros bi Hbi.
    rewrite (existsb_false_In _ _ _ bi Hp Hbi). reflexivity.
Qed.

Lemma rewrite_sound : forall tr filtered c p c' s r d,
  child_pred c = Some p -> rewrite_child true filtered c = Some c' ->
  In s filtered -> In r (sh_repos s) -> p r = true ->
  eval tr c' r d = eval tr c r d.
Proof.
  intros tr filtered c p c' s r d Hc Hrw Hs Hr Hp. destruct c; cbn in Hc; try discriminate.
  - injection Hc as <-. cbn in Hrw. injection Hrw as <-. cbn. now rewrite Hp.
  - injection Hc as <-. cbn in Hrw.
    destruct l as [|[b ids] [|x l]]; try discriminate.
    cbn [existsb snd] in Hp. rewrite orb_false_r in Hp.
    cbn [eval existsb fst snd]. rewrite Hp, orb_false_r. cbn [andb].
    destruct (N.eqb b HEAD) eqn:Eb.
    + cbn [andb] in Hrw.
      destruct (forallb (fun s0 => forallb first_is_head (sh_repos s0)) filtered) eqn:Ef; cbn in Hrw; [|discriminate].
      injection Hrw as <-. cbn [eval]. rewrite Eb.
      pose proof (forallb_In _ _ _ s Ef Hs) as Hs'. cbn in Hs'.
      pose proof (forallb_In _ _ _ r Hs' Hr) as Hh. unfold first_is_head in Hh.
      apply N.eqb_eq in Eb. subst b. unfold in_branch.
      destruct (r_branches r) as [|b0 bs]; [discriminate|].
      apply N.eqb_eq in Hh. subst b0. unfold memN at 2. cbn [existsb]. rewrite N.eqb_refl. reflexivity.
    + cbn [andb] in Hrw. injection Hrw as <-. cbn [eval]. now rewrite Eb.
Qed.

Definition pt_eq (tr : Q -> repo -> bool) (cs cs' : list Q) (s : shard) : Prop :=
  forall rd d, In rd (sh_parts s) -> In d (snd rd) -> eval_top tr cs' (fst rd) d = eval_top tr cs (fst rd) d.
Definition pt_none (tr : Q -> repo -> bool) (cs : list Q) (s : shard) : Prop :=
  forall rd d, In rd (sh_parts s) -> In d (snd rd) -> eval_top tr cs (fst rd) d = false.

Lemma do_select_spec : forall tr post pre shards sel cs',
  do_select true shards pre post = (sel, cs') ->
  exists keep, sel = filter keep shards /\
    (forall s, In s shards -> keep s = false -> pt_none tr (pre ++ post) s) /\
    (forall s, In s shards -> keep s = true -> pt_eq tr (pre ++ post) cs' s).
Proof.
  intros tr post. induction post as [|c rest IH]; intros pre shards sel cs' H.
  - cbn in H. injection H as <- <-. exists (fun _ => true). rewrite filter_all_true, app_nil_r.
    split; [reflexivity|]. split; [intros; discriminate | intros s _ _ rd d _ _; reflexivity].
  - cbn [do_select] in H. destruct (child_pred c) as [p|] eqn:Hc.
    + set (kf := fun s => negb (sh_known s) || existsb p (sh_repos s)) in *.
      set (filtered := filter kf shards) in *.
      assert (Hdrop : forall s, In s shards -> kf s = false -> pt_none tr (pre ++ c :: rest) s).
      { intros s _ Hk rd d Hrd Hd. unfold kf in Hk. apply orb_false_iff in Hk. destruct Hk as [_ Hk].
        assert (Hp : p (fst rd) = false).
        { apply (existsb_false_In _ _ _ (fst rd) Hk). unfold sh_repos. now apply in_map. }
        rewrite eval_top_app. cbn. rewrite (child_false tr c p _ d Hc Hp). cbn. apply andb_false_r. }
      assert (Hsame : forall s, In s shards -> kf s = true -> pt_eq tr (pre ++ c :: rest) (pre ++ c :: rest) s)
        by (intros s _ _ rd d _ _; reflexivity).
      assert (Hunch : (sel, cs') = (filtered, pre ++ c :: rest) ->
                exists keep, sel = filter keep shards /\
                  (forall s, In s shards -> keep s = false -> pt_none tr (pre ++ c :: rest) s) /\
                  (forall s, In s shards -> keep s = true -> pt_eq tr (pre ++ c :: rest) cs' s)).
      { intros E. injection E as -> ->. exists kf. auto. }
      destruct filtered as [|f0 fl] eqn:Ef; [apply Hunch; now symmetry|].
      rewrite <- Ef in *.
      destruct (negb (forallb (fun s => sh_known s && forallb p (sh_repos s)) filtered)) eqn:Hall;
        [apply Hunch; now symmetry|].
      destruct (rewrite_child true filtered c) as [c'|] eqn:Hrw; [|apply Hunch; now symmetry].
      injection H as <- <-. exists kf. split; [reflexivity|]. split; [exact Hdrop|].
      intros s Hs Hk rd d Hrd Hd.
      apply negb_false_iff in Hall.
      assert (Hsf : In s filtered) by (apply filter_In; auto).
      pose proof (forallb_In _ _ _ s Hall Hsf) as Hs2. cbn in Hs2. apply andb_prop in Hs2. destruct Hs2 as [_ Hs2].
      assert (Hr : In (fst rd) (sh_repos s)) by (unfold sh_repos; now apply in_map).
      pose proof (forallb_In _ _ _ _ Hs2 Hr) as Hp.
      rewrite !eval_top_app. cbn [eval_top forallb].
      now rewrite (rewrite_sound tr filtered c p c' s (fst rd) d Hc Hrw Hsf Hr Hp).
    + destruct (IH (pre ++ [c]) shards sel cs' H) as (keep & E & Hd & Hk).
      exists keep. rewrite <- app_assoc in Hd, Hk. cbn in Hd, Hk. auto.
Qed.

(** ---- the loops as coded compute the closed forms ---- *)
Lemma has_repos_acc : forall (p : repo -> bool) (l : list repo) a b,
  fold_left (fun st r => let b := p r in (fst st || b, snd st && b)) l (a, b) = (a || existsb p l, b && forallb p l).
Proof.
  intros p l. induction l as [|r l IH]; intros a b; cbn.
  - now rewrite orb_false_r, andb_true_r.
  - rewrite IH. now rewrite orb_assoc, andb_assoc.
Qed.

(** hasReposForPredicate: any = "some repository of the shard satisfies the predicate", all = "every one does" *)
Lemma has_repos_spec : forall p l, has_repos p l = (existsb p l, forallb p l).
Proof. intros p l. unfold has_repos. now rewrite has_repos_acc. Qed.

Lemma select_loop_acc : forall p l acc b,
  fold_left (fun st s =>
               if negb (sh_known s) then (fst st ++ [s], false)
               else let '(any, all) := has_repos p (sh_repos s) in
                    if any then (fst st ++ [s], snd st && all) else st) l (acc, b)
  = (acc ++ filter (fun s => negb (sh_known s) || existsb p (sh_repos s)) l,
     b && forallb (fun s => sh_known s && forallb p (sh_repos s))
                  (filter (fun s => negb (sh_known s) || existsb p (sh_repos s)) l)).
Proof.
  intros p l. induction l as [|s l IH]; intros acc b; cbn [fold_left filter].
  - cbn. now rewrite app_nil_r, andb_true_r.
  - rewrite has_repos_spec. destruct (sh_known s) eqn:Ek; cbn [negb orb fst snd].
    + destruct (existsb p (sh_repos s)) eqn:Ee.
      * rewrite IH. cbn [forallb]. rewrite Ek. cbn [andb]. rewrite <- app_assoc. cbn [app]. now rewrite andb_assoc.
      * apply IH.
    + rewrite IH. cbn [forallb]. rewrite Ek. cbn [andb]. rewrite <- app_assoc. cbn [app]. now rewrite andb_false_r.
Qed.

Lemma select_loop_spec : forall p shards,
  select_loop p shards =
  (filter (fun s => negb (sh_known s) || existsb p (sh_repos s)) shards,
   forallb (fun s => sh_known s && forallb p (sh_repos s))
           (filter (fun s => negb (sh_known s) || existsb p (sh_repos s)) shards)).
Proof. intros p shards. unfold select_loop. now rewrite select_loop_acc. Qed.

Lemma do_select_coded_eq : forall guard post pre shards,
  do_select_coded guard shards pre post = do_select guard shards pre post.
Proof.
  intros guard post. induction post as [|c rest IH]; intros pre shards; cbn [do_select_coded do_select]; [reflexivity|].
  destruct (child_pred c) as [p|]; [|apply IH].
  rewrite select_loop_spec. reflexivity.
Qed.

(** ---- Search: selection + rewrite = union of the per-shard answers ---- *)
Lemma search_shard_none : forall cs s, pt_none no_tr cs s -> search_shard cs s = [].
Proof.
  intros cs s H. unfold search_shard.
  assert (forall l, (forall rd, In rd l -> In rd (sh_parts s)) ->
            flat_map (fun rd : repo * list doc => map d_id (filter (eval_top no_tr cs (fst rd)) (snd rd))) l = []) as G.
  { induction l as [|rd l IH]; intros Hl; cbn; [reflexivity|].
    rewrite (filter_none _ _ (snd rd)); [cbn; apply IH; intros; apply Hl; now right|].
    intros d Hd. apply (H rd d); [apply Hl; now left | exact Hd]. }
  apply G. auto.
Qed.

Lemma search_shard_eq : forall cs cs' s, pt_eq no_tr cs cs' s -> search_shard cs' s = search_shard cs s.
Proof.
  intros cs cs' s H. unfold search_shard.
  assert (forall l, (forall rd, In rd l -> In rd (sh_parts s)) ->
            flat_map (fun rd : repo * list doc => map d_id (filter (eval_top no_tr cs' (fst rd)) (snd rd))) l =
            flat_map (fun rd : repo * list doc => map d_id (filter (eval_top no_tr cs (fst rd)) (snd rd))) l) as G.
  { induction l as [|rd l IH]; intros Hl; cbn; [reflexivity|].
    rewrite (filter_ext_In _ (eval_top no_tr cs' (fst rd)) (eval_top no_tr cs (fst rd)) (snd rd)).
    - f_equal. apply IH. intros; apply Hl; now right.
    - intros d Hd. apply (H rd d); [apply Hl; now left | exact Hd]. }
  apply G. auto.
Qed.

Lemma select_sound : forall shards cs, sharded_search shards cs = union_search shards cs.
Proof.
  intros shards cs. unfold sharded_search, sharded_search_gen, union_search, select_gen.
  rewrite do_select_coded_eq.
  destruct (do_select true shards [] cs) as [sel cs'] eqn:E.
  destruct (do_select_spec no_tr cs [] shards sel cs' E) as (keep & -> & Hd & Hk). cbn in Hd, Hk.
  apply flat_map_filter_eq.
  - intros s Hs Hkp. apply search_shard_none. now apply Hd.
  - intros s Hs Hkp. apply search_shard_eq. now apply Hk.
Qed.

(** ---- List ---- *)
Lemma list_shard_none : forall cs s, pt_none no_tr cs s -> list_shard cs s = [].
Proof.
  intros cs s H. unfold list_shard.
  assert (forall l, (forall rd, In rd l -> In rd (sh_parts s)) ->
            flat_map (fun rd : repo * list doc => if existsb (eval_top no_tr cs (fst rd)) (snd rd)
               then [ {| le_name := r_name (fst rd); le_id := r_id (fst rd);
                         le_docs := N.of_nat (length (snd rd)); le_shards := 1 |} ] else []) l = []) as G.
  { induction l as [|rd l IH]; intros Hl; cbn; [reflexivity|].
    rewrite (existsb_none _ _ (snd rd)); [cbn; apply IH; intros; apply Hl; now right|].
    intros d Hd. apply (H rd d); [apply Hl; now left | exact Hd]. }
  apply G. auto.
Qed.

Lemma list_shard_eq : forall cs cs' s, pt_eq no_tr cs cs' s -> list_shard cs' s = list_shard cs s.
Proof.
  intros cs cs' s H. unfold list_shard.
  assert (forall l, (forall rd, In rd l -> In rd (sh_parts s)) ->
            flat_map (fun rd : repo * list doc => if existsb (eval_top no_tr cs' (fst rd)) (snd rd)
               then [ {| le_name := r_name (fst rd); le_id := r_id (fst rd);
                         le_docs := N.of_nat (length (snd rd)); le_shards := 1 |} ] else []) l =
            flat_map (fun rd : repo * list doc => if existsb (eval_top no_tr cs (fst rd)) (snd rd)
               then [ {| le_name := r_name (fst rd); le_id := r_id (fst rd);
                         le_docs := N.of_nat (length (snd rd)); le_shards := 1 |} ] else []) l) as G.
  { induction l as [|rd l IH]; intros Hl; cbn; [reflexivity|].
    rewrite (existsb_ext_In _ (eval_top no_tr cs' (fst rd)) (eval_top no_tr cs (fst rd)) (snd rd)).
    - f_equal. apply IH. intros; apply Hl; now right.
    - intros d Hd. apply (H rd d); [apply Hl; now left | exact Hd]. }
  apply G. auto.
Qed.

Lemma list_sound : forall shards cs, sharded_list shards cs = union_list shards cs.
Proof.
  intros shards cs. unfold sharded_list, sharded_list_gen, union_list, select_gen.
  rewrite do_select_coded_eq.
  destruct (do_select true shards [] cs) as [sel cs'] eqn:E.
  destruct (do_select_spec no_tr cs [] shards sel cs' E) as (keep & -> & Hd & Hk). cbn in Hd, Hk.
  f_equal. apply flat_map_filter_eq.
  - intros s Hs Hkp. apply list_shard_none. now apply Hd.
  - intros s Hs Hkp. apply list_shard_eq. now apply Hk.
Qed.

(** aggregation by name *)
Fixpoint docs_of (n : N) (es : list lentry) : N :=
  match es with [] => 0%N | e :: r => ((if N.eqb (le_name e) n then le_docs e else 0) + docs_of n r)%N end.
Fixpoint shards_of (n : N) (es : list lentry) : N :=
  match es with [] => 0%N | e :: r => ((if N.eqb (le_name e) n then le_shards e else 0) + shards_of n r)%N end.

Lemma agg_add_names : forall e acc n, In n (map le_name (agg_add e acc)) <-> n = le_name e \/ In n (map le_name acc).
Proof.
  intros e acc n. induction acc as [|x acc IH]; cbn.
  - split; [intros [H|[]]; left; now symmetry | intros [H|[]]; left; now symmetry].
  - destruct (N.eqb (le_name x) (le_name e)) eqn:E; cbn.
    + apply N.eqb_eq in E. split; [intros [H|H]; [right; left; exact H | right; right; exact H]|].
      intros [H|[H|H]]; [left; congruence | left; exact H | right; exact H].
    + rewrite IH. tauto.
Qed.

Lemma agg_add_nodup : forall e acc, NoDup (map le_name acc) -> NoDup (map le_name (agg_add e acc)).
Proof.
  intros e acc. induction acc as [|x acc IH]; intros H; cbn.
  - constructor; [intros []| constructor].
  - destruct (N.eqb (le_name x) (le_name e)) eqn:E; cbn; [exact H|].
    inversion H as [|? ? Hn Hd]; subst. constructor; [|now apply IH].
    intro Hin. apply agg_add_names in Hin. destruct Hin as [Hin|Hin]; [|contradiction].
    apply N.eqb_neq in E. congruence.
Qed.

Lemma agg_add_docs : forall e acc n,
  docs_of n (agg_add e acc) = (docs_of n acc + (if N.eqb (le_name e) n then le_docs e else 0))%N /\
  shards_of n (agg_add e acc) = (shards_of n acc + (if N.eqb (le_name e) n then le_shards e else 0))%N.
Proof.
  intros e acc n. induction acc as [|x acc [IH1 IH2]]; cbn.
  - split; lia.
  - destruct (N.eqb (le_name x) (le_name e)) eqn:E; cbn.
    + apply N.eqb_eq in E. rewrite <- E. destruct (N.eqb (le_name x) n); split; lia.
    + rewrite IH1, IH2. split; lia.
Qed.

Lemma agg_fold : forall es acc,
  NoDup (map le_name acc) ->
  let res := fold_left (fun acc e => agg_add e acc) es acc in
  NoDup (map le_name res) /\
  (forall n, In n (map le_name res) <-> In n (map le_name acc) \/ In n (map le_name es)) /\
  (forall n, docs_of n res = (docs_of n acc + docs_of n es)%N /\ shards_of n res = (shards_of n acc + shards_of n es)%N).
Proof.
  induction es as [|e es IH]; intros acc Hnd; cbn.
  - split; [exact Hnd|]. split; [intros; tauto | intros; split; lia].
  - destruct (IH (agg_add e acc) (agg_add_nodup e acc Hnd)) as (I1 & I2 & I3). cbn in I1, I2, I3.
    split; [exact I1|]. split.
    + intros n. rewrite I2, agg_add_names. split; [intros [[H|H]|H] | intros [H|[H|H]]]; auto.
    + intros n. destruct (I3 n) as [D S]. destruct (agg_add_docs e acc n) as [D' S']. rewrite D, S, D', S'. split; lia.
Qed.

Lemma docs_of_unique : forall acc x, NoDup (map le_name acc) -> In x acc ->
  docs_of (le_name x) acc = le_docs x /\ shards_of (le_name x) acc = le_shards x.
Proof.
  induction acc as [|y acc IH]; intros x Hnd Hin; [destruct Hin|].
  inversion Hnd as [|? ? Hn Hd]; subst. cbn. destruct Hin as [->|Hin].
  - rewrite N.eqb_refl.
    assert (Z : forall l, ~ In (le_name x) (map le_name l) -> docs_of (le_name x) l = 0%N /\ shards_of (le_name x) l = 0%N).
    { induction l as [|z l IHl]; intros Hni; cbn; [split; reflexivity|].
      destruct (N.eqb (le_name z) (le_name x)) eqn:E; [exfalso; apply Hni; left; now apply N.eqb_eq|].
      destruct IHl as [A B]; [intro; apply Hni; now right|]. rewrite A, B. split; reflexivity. }
    destruct (Z acc Hn) as [A B]. rewrite A, B. split; lia.
  - destruct (N.eqb (le_name y) (le_name x)) eqn:E.
    + exfalso. apply Hn. apply N.eqb_eq in E. rewrite E. now apply in_map.
    + destruct (IH x Hd Hin) as [A B]. rewrite A, B. split; reflexivity.
Qed.

Lemma agg_list_spec : forall es,
  NoDup (map le_name (agg_list es)) /\
  (forall n, In n (map le_name (agg_list es)) <-> In n (map le_name es)) /\
  (forall x, In x (agg_list es) -> le_docs x = docs_of (le_name x) es /\ le_shards x = shards_of (le_name x) es).
Proof.
  intros es. unfold agg_list. destruct (agg_fold es [] (NoDup_nil _)) as (I1 & I2 & I3). cbn in I1, I2, I3.
  split; [exact I1|]. split; [intros n; rewrite I2; cbn; tauto|].
  intros x Hx. destruct (docs_of_unique _ x I1 Hx) as [A B]. destruct (I3 (le_name x)) as [D S]. cbn in D, S.
  rewrite <- A, <- B, D, S. split; reflexivity.
Qed.

(** names listed for a shard *)
Lemma list_shard_names : forall cs s n,
  In n (map le_name (list_shard cs s)) <->
  exists rd, In rd (sh_parts s) /\ r_name (fst rd) = n /\ existsb (eval_top no_tr cs (fst rd)) (snd rd) = true.
Proof.
  intros cs s n. unfold list_shard. rewrite in_map_iff. split.
  - intros (e & En & Hin). apply in_flat_map in Hin. destruct Hin as (rd & Hrd & Hin).
    destruct (existsb (eval_top no_tr cs (fst rd)) (snd rd)) eqn:E; [|destruct Hin].
    destruct Hin as [<-|[]]. exists rd. cbn in En. auto.
  - intros (rd & Hrd & En & E).
    exists {| le_name := r_name (fst rd); le_id := r_id (fst rd); le_docs := N.of_nat (length (snd rd)); le_shards := 1 |}.
    split; [exact En|]. apply in_flat_map. exists rd. split; [exact Hrd|]. rewrite E. now left.
Qed.

(** ---- type:repo ---- *)
Lemma listed_names_ref : forall shards c n,
  In n (map le_name (sharded_list shards [c])) <->
  exists s rd, In s shards /\ In rd (sh_parts s) /\ r_name (fst rd) = n /\
               existsb (eval no_tr c (fst rd)) (snd rd) = true.
Proof.
  intros shards c n. rewrite list_sound. unfold union_list.
  destruct (agg_list_spec (flat_map (list_shard [c]) shards)) as (_ & Hn & _). rewrite Hn.
  rewrite in_map_iff. split.
  - intros (e & En & Hin). apply in_flat_map in Hin. destruct Hin as (s & Hs & Hin).
    assert (Hin' : In n (map le_name (list_shard [c] s))) by (apply in_map_iff; eauto).
    apply list_shard_names in Hin'. destruct Hin' as (rd & Hrd & Hname & E).
    exists s, rd. repeat split; auto. rewrite <- E. apply existsb_ext_In. intros d _. cbn. now rewrite andb_true_r.
  - intros (s & rd & Hs & Hrd & Hname & E).
    assert (Hin' : In n (map le_name (list_shard [c] s))).
    { apply list_shard_names. exists rd. repeat split; auto. rewrite <- E. apply existsb_ext_In. intros d _. cbn. now rewrite andb_true_r. }
    apply in_map_iff in Hin'. destruct Hin' as (e & En & Hin). exists e. split; [exact En|]. apply in_flat_map. eauto.
Qed.

Lemma memN_In : forall k l, memN k l = true <-> In k l.
Proof.
  intros k l. unfold memN. rewrite existsb_exists. split.
  - intros (x & Hx & E). apply N.eqb_eq in E. now subst.
  - intros H. exists k. split; [exact H | apply N.eqb_refl].
Qed.

Lemma bool_eq_iff : forall a b : bool, (a = true <-> b = true) -> a = b.
Proof. intros [|] [|] H; try reflexivity; [symmetry; apply H; reflexivity | apply H; reflexivity]. Qed.

Lemma typerepo_equiv : forall shards q fuel r d,
  depth q <= fuel ->
  eval (tr_ref fuel shards) q r d = eval no_tr (expand shards q) r d.
Proof.
  intros shards q. induction q as [b|p|l|b|p|a IHa b IHb|a IHa b IHb|a IHa|c IHc]; intros fuel r d Hf; cbn in *; try reflexivity.
  - rewrite IHa, IHb; [reflexivity | lia | lia].
  - rewrite IHa, IHb; [reflexivity | lia | lia].
  - rewrite IHa; [reflexivity | lia].
  - destruct fuel as [|f]; [lia|]. cbn [tr_ref].
    apply bool_eq_iff. rewrite memN_In, listed_names_ref. rewrite existsb_exists. split.
    + intros (s & Hs & E). apply existsb_exists in E. destruct E as (rd & Hrd & E).
      apply andb_prop in E. destruct E as [En E]. apply N.eqb_eq in En.
      exists s, rd. repeat split; auto. rewrite <- E. apply existsb_ext_In. intros d' _. symmetry. apply IHc. lia.
    + intros (s & rd & Hs & Hrd & En & E). exists s. split; [exact Hs|].
      apply existsb_exists. exists rd. split; [exact Hrd|]. rewrite En, N.eqb_refl. cbn.
      rewrite <- E. apply existsb_ext_In. intros d' _. apply IHc. lia.
Qed.

(** ---- the code before the repair ---- *)
Definition head_repo : repo := {| r_name := 10; r_id := 7; r_branches := [2%N; HEAD]; r_meta := 0 |}.
Definition head_shard : shard :=
  {| sh_known := true;
     sh_parts := [ (head_repo, [ {| d_id := 100; d_branches := [2%N] |}; {| d_id := 101; d_branches := [HEAD] |} ]) ] |}.

Lemma select_unfixed_unsound :
  exists shards cs, sharded_search_gen false shards cs <> union_search shards cs.
Proof.
  exists [head_shard], [QBranchesRepos [(HEAD, [7%N])]]. vm_compute. intro H. discriminate H.
Qed.
