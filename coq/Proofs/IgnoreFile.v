(** Proofs about Model/IgnoreFile.v (ParseIgnoreFile's line syntax, Matcher.Match). *)
From ZV Require Import Lib.Base Model.IgnoreFile.

Lemma filter_map_in : forall (A B : Type) (f : A -> option B) (l : list A) (y : B),
  In y (filter_map f l) <-> exists x, In x l /\ f x = Some y.
Proof.
  intros A B f l y. induction l as [|x l IH]; cbn.
  - split; [contradiction|intros [x [[] _]]].
  - destruct (f x) as [z|] eqn:E; cbn; rewrite IH; split.
    + intros [H|[x' [H1 H2]]]; [exists x; subst; auto|exists x'; auto].
    + intros [x' [[H|H] H2]]; [subst; rewrite E in H2; inversion H2; auto|right; exists x'; auto].
    + intros [x' [H1 H2]]. exists x'. auto.
    + intros [x' [[H|H] H2]]; [subst; rewrite E in H2; discriminate|exists x'; auto].
Qed.

(** a path is ignored iff some line of the file, read as ParseIgnoreFile reads it, yields a pattern the glob
    engine matches against the path *)
Theorem ignore_match_spec : forall glob content path,
  ignore_match glob content path = true <->
  exists line p, In line (split_lines content) /\ normalise_line line = Some p /\ glob p path = true.
Proof.
  intros glob content path. unfold ignore_match, ignore_patterns. rewrite existsb_exists. split.
  - intros [p [Hin Hg]]. apply filter_map_in in Hin. destruct Hin as [line [Hl Hn]]. exists line, p. auto.
  - intros (line & p & Hl & Hn & Hg). exists p. split; [apply filter_map_in; exists line; auto|exact Hg].
Qed.

(** blank lines and '#' comments contribute nothing *)
Theorem normalise_blank_or_comment : forall line,
  trim_space line = [] \/ (exists r, trim_space line = 35%N :: r) -> normalise_line line = None.
Proof.
  intros line [H|[r H]]; unfold normalise_line; rewrite H; reflexivity.
Qed.

(** every pattern handed to the glob compiler contains a glob character (lines without one get "**" appended) *)
Theorem normalise_has_glob : forall line p, normalise_line line = Some p -> existsb is_glob_char p = true.
Proof.
  intros line p H. unfold normalise_line in H. destruct (trim_space line) as [|c r]; [discriminate|].
  destruct (N.eqb c 35); [discriminate|]. inversion H as [E]. clear H E.
  destruct (existsb is_glob_char (if N.eqb c 47 then r else c :: r)) eqn:E; [exact E|].
  rewrite existsb_app. cbn. apply orb_true_r.
Qed.

(** lines: '\n' separates, one trailing '\r' is dropped *)
Lemma split_lines_aux_app : forall l r cur,
  ~ In 10%N l -> split_lines_aux (l ++ 10%N :: r) cur = drop_cr (rev cur ++ l) :: split_lines_aux r [].
Proof.
  induction l as [|c l IH]; intros r cur H; cbn [app split_lines_aux].
  - rewrite N.eqb_refl, app_nil_r. reflexivity.
  - destruct (N.eqb c 10) eqn:E; [apply N.eqb_eq in E; exfalso; apply H; left; exact E|].
    rewrite IH by (intro Hin; apply H; right; exact Hin). cbn [rev]. rewrite <- app_assoc. reflexivity.
Qed.

Theorem split_lines_cons : forall l r,
  ~ In 10%N l -> split_lines (l ++ 10%N :: r) = drop_cr l :: split_lines r.
Proof. intros l r H. unfold split_lines. rewrite split_lines_aux_app by assumption. reflexivity. Qed.

Theorem ignore_empty_file : forall glob path, ignore_match glob [] path = false.
Proof. reflexivity. Qed.
