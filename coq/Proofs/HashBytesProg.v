(** The byte encoding proved injective in Proofs/HashBytes.v IS what the generated hash program writes
    (Generated/HashFields.v, regenerated from the checked tree): [hash_bytes_enc]. Breaks — and must be re-proved —
    when GetHash's writes (formats, order, guards) change. *)
From ZV Require Import Lib.Base Model.HashProg Model.Incremental Model.HashBytes Proofs.Incremental Proofs.HashBytes
  Generated.HashFields.
From Coq Require Import String Ascii.
Local Open Scope list_scope.

(** the integer constant of the TrigramMax guard, read from the generated program *)
Definition tm_default : Z :=
  match find (fun it => String.eqb (hi_field it) "TrigramMax") hash_prog with
  | Some it => match hi_guard it with GIntNotZeroNotConst d => d | _ => 0%Z end
  | None => 0%Z
  end.

Section WithQuote.
  Variable qbody : str -> bytes.

  Lemma render_all_app a b :
    render_all qbody (a ++ b) =
    match render_all qbody a, render_all qbody b with Some x, Some y => Some (x ++ y) | _, _ => None end.
  Proof.
    induction a as [|t a IH]; simpl.
    - destruct (render_all qbody b); reflexivity.
    - rewrite IH. destruct (render_tok qbody t); [|reflexivity].
      destruct (render_all qbody a); [|reflexivity]. destruct (render_all qbody b); [|reflexivity].
      rewrite app_assoc. reflexivity.
  Qed.

  Local Opaque HashBytes.fmt_q_list HashBytes.fmt_d HashBytes.fmt_t HashBytes.quote.
  Lemma r_raw s : render_tok qbody (Tok "raw" [VStr s]) = Some s.
  Proof. reflexivity. Qed.
  Lemma r_t b : render_tok qbody (Tok "%t" [VBool b]) = Some (fmt_t b).
  Proof. cbn. rewrite app_nil_r. reflexivity. Qed.
  Lemma r_d z : render_tok qbody (Tok "%d" [VInt z]) = Some (fmt_d z).
  Proof. cbn. rewrite app_nil_r. reflexivity. Qed.
  Lemma r_ql l : render_tok qbody (Tok "%q" [VStrs l]) = Some (fmt_q_list qbody l).
  Proof. cbn. rewrite app_nil_r. reflexivity. Qed.
  Lemma r_tm z : render_tok qbody (Tok "trigramMax=%d" [VInt z]) = Some (tm_enc z).
  Proof. cbn. rewrite app_nil_r. reflexivity. Qed.
  Lemma r_sc s : render_tok qbody (Tok "scipCTagsPath=%q" [VStr s]) = Some (sc_enc qbody s).
  Proof. cbn. rewrite app_nil_r. reflexivity. Qed.
  Lemma r_lm k n : render_tok qbody (Tok "languageMap=%q:%d" [VStr k; VInt (Z.of_N n)]) = Some (lm_enc qbody (k, n)).
  Proof. cbn. rewrite app_nil_r. reflexivity. Qed.

  Lemma render_lm_entries (l : list (str * N)) :
    render_all qbody (map (fun kn => Tok "languageMap=%q:%d" [VStr (fst kn); VInt (Z.of_N (snd kn))]) l) =
    Some (List.concat (map (lm_enc qbody) l)).
  Proof.
    induction l as [|[k n] l IH]; [reflexivity|].
    cbn [map render_all fst snd List.concat]. rewrite IH, r_lm. reflexivity.
  Qed.

  Theorem hash_bytes_enc r : hash_bytes qbody hash_prog (to_opts r) = Some (enc qbody tm_default r).
  Proof.
    unfold hash_bytes.
    change (hash_tokens hash_prog (to_opts r)) with
      ([Tok "raw" [VStr (ho_ctags_path r)]; Tok "%t" [VBool (ho_ctags_must_succeed r)]; Tok "%d" [VInt (ho_size_max r)];
        Tok "%q" [VStrs (ho_large_files r)]; Tok "%t" [VBool (ho_disable_ctags r)]] ++
       (if tm_written tm_default (ho_trigram_max r) then [Tok "trigramMax=%d" [VInt (ho_trigram_max r)]] else []) ++
       (if match ho_scip_ctags_path r with [] => false | _ :: _ => true end
        then [Tok "scipCTagsPath=%q" [VStr (ho_scip_ctags_path r)]] else []) ++
       (if match ho_language_map r with [] => false | _ :: _ => true end
        then map (fun kn => Tok "languageMap=%q:%d" [VStr (fst kn); VInt (Z.of_N (snd kn))]) (ho_language_map r) else []) ++ []).
    rewrite !render_all_app.
    assert (render_all qbody (if match ho_language_map r with [] => false | _ :: _ => true end
        then map (fun kn => Tok "languageMap=%q:%d" [VStr (fst kn); VInt (Z.of_N (snd kn))]) (ho_language_map r) else [])
            = Some (List.concat (map (lm_enc qbody) (ho_language_map r)))) as ->.
    { destruct (ho_language_map r) eqn:E; [reflexivity|]. rewrite <- E. apply render_lm_entries. }
    cbn [render_all]. rewrite r_raw, !r_t, r_d, r_ql.
    unfold enc, head_enc, opt_tm, opt_sc.
    destruct (tm_written tm_default (ho_trigram_max r));
      destruct (ho_scip_ctags_path r) as [|c s]; cbn [render_all]; rewrite ?r_tm, ?r_sc;
      rewrite ?app_nil_r, <- ?app_assoc; reflexivity.
  Qed.

  Hypothesis qbody_inj : forall a b, qbody a = qbody b -> a = b.
  Hypothesis qbody_escaped : forall s pre post, qbody s = pre ++ 34%N :: post -> exists pre', pre = pre' ++ [92%N].

  (** equal bytes into SHA-1 => equal write tokens *)
  Theorem hash_bytes_inj r1 r2 :
    hash_bytes qbody hash_prog (to_opts r1) = hash_bytes qbody hash_prog (to_opts r2) ->
    hash_tokens hash_prog (to_opts r1) = hash_tokens hash_prog (to_opts r2).
  Proof.
    rewrite !hash_bytes_enc. intros E. injection E as E.
    destruct (enc_inj qbody qbody_inj qbody_escaped _ _ _ E) as (Ep & Em & Es & El & Ed & Esc & Elm & Ew & Etm).
    assert (forall r, hash_tokens hash_prog (to_opts r) =
      [Tok "raw" [VStr (ho_ctags_path r)]; Tok "%t" [VBool (ho_ctags_must_succeed r)]; Tok "%d" [VInt (ho_size_max r)];
        Tok "%q" [VStrs (ho_large_files r)]; Tok "%t" [VBool (ho_disable_ctags r)]] ++
       (if tm_written tm_default (ho_trigram_max r) then [Tok "trigramMax=%d" [VInt (ho_trigram_max r)]] else []) ++
       (if match ho_scip_ctags_path r with [] => false | _ :: _ => true end
        then [Tok "scipCTagsPath=%q" [VStr (ho_scip_ctags_path r)]] else []) ++
       (if match ho_language_map r with [] => false | _ :: _ => true end
        then map (fun kn => Tok "languageMap=%q:%d" [VStr (fst kn); VInt (Z.of_N (snd kn))]) (ho_language_map r) else []) ++ [])
      as Hshape by (intros r; reflexivity).
    rewrite !Hshape, Ep, Em, Es, El, Ed, Esc, Elm, Ew.
    destruct (tm_written tm_default (ho_trigram_max r2)) eqn:W; [|reflexivity].
    rewrite (Etm Ew). reflexivity.
  Qed.
End WithQuote.
