(** C32: an assigned repository found in the trash is restored (assigned list without duplicates), and the
    converse of the trash rule: old or conflicting trashed shards ARE deleted. *)
From ZV Require Import Lib.Base Model.Cleanup Proofs.CleanupProofs Proofs.CleanupUnassigned Proofs.CleanupTrash Proofs.CleanupRevive.
Open Scope Z_scope.

(** stage 1: a file named b is in the trash, and every trashed file of that name is a simple shard with content R *)
Definition in_trash (b : N) (R : list entry) (x : dir) : Prop :=
  (exists t', In t' (d_trash x) /\ f_base t' = b) /\
  (forall t', In t' (d_trash x) -> f_base t' = b -> f_repos t' = R /\ f_compound t' = false).
(** stage 2: the index has a simple shard named b with content R, the trash has no file of that name *)
Definition restored (b : N) (R : list entry) (x : dir) : Prop :=
  (exists f', In f' (d_index x) /\ f_base f' = b /\ f_repos f' = R /\ f_compound f' = false) /\
  (forall t', In t' (d_trash x) -> f_base t' <> b).

Definition safePre (b : N) (a : act) : Prop :=
  match a with
  | RmTrash b' => b' <> b
  | MvToIndex b' => b' <> b
  | MvToTrash b' => b' <> b
  | TombOrRm b' _ totr => totr = true -> b' <> b
  | _ => True
  end.

Definition safePost (b : N) (a : act) : Prop :=
  match a with
  | RmIndex b' => b' <> b
  | MvToTrash b' => b' <> b
  | Tomb b' _ _ => b' <> b
  | TombOrRm b' _ _ => b' <> b
  | _ => True
  end.

Lemma in_on_file_self : forall b' (g : file -> file) f fs,
  In f fs -> f_base f <> b' -> In f (on_file b' g fs).
Proof.
  intros b' g f fs Hin Hne. unfold on_file. apply in_map_iff. exists f. split; [|exact Hin].
  destruct (N.eqb (f_base f) b') eqn:E; [apply N.eqb_eq in E; contradiction|reflexivity].
Qed.

Lemma in_on_file_touch : forall now b' t' fs,
  In t' (on_file b' (touch now) fs) ->
  exists g, In g fs /\ f_base t' = f_base g /\ f_repos t' = f_repos g /\ f_compound t' = f_compound g.
Proof.
  intros now b' t' fs Hin. unfold on_file in Hin. apply in_map_iff in Hin. destruct Hin as [g [E Hg]].
  exists g. split; [exact Hg|]. destruct (N.eqb (f_base g) b'); subst t'; simpl; auto.
Qed.

Lemma on_file_touch_in : forall now b' g fs,
  In g fs -> exists t', In t' (on_file b' (touch now) fs) /\ f_base t' = f_base g /\ f_repos t' = f_repos g /\ f_compound t' = f_compound g.
Proof.
  intros now b' g fs Hin. exists (if N.eqb (f_base g) b' then touch now g else g). split.
  - unfold on_file. apply in_map_iff. exists g. auto.
  - destruct (N.eqb (f_base g) b'); simpl; auto.
Qed.

Lemma find_file_in : forall b fs f, In f fs -> f_base f = b -> exists f', find_file b fs = Some f'.
Proof.
  intros b fs f Hin Hb. unfold find_file. destruct (find (fun f0 => N.eqb (f_base f0) b) fs) as [f'|] eqn:F.
  - exists f'. reflexivity.
  - exfalso. eapply find_none in F; eauto. simpl in F. apply N.eqb_neq in F. contradiction.
Qed.

Lemma pre_step : forall now b R a x, safePre b a -> in_trash b R x -> in_trash b R (apply now x a).
Proof.
  intros now b R a x Hs [[t0 [Hin0 Hb0]] Hall].
  destruct a as [b'|b'|b' id' flag|b' id' totr|b'|b'|b'|b'|]; simpl in *.
  - split; [exists t0; auto|exact Hall].
  - split.
    + exists t0. split; [eapply rm_keeps; eauto|exact Hb0].
    + intros t' Hin Hb. apply in_rm in Hin. destruct Hin as [Hin _]. auto.
  - split; [exists t0; auto|exact Hall].
  - destruct (serves_others b' id' (d_index x)); simpl; [split; [exists t0; auto|exact Hall]|].
    destruct totr; [|split; [exists t0; auto|exact Hall]].
    split.
    + exists t0. split; [eapply rm_keeps; eauto|exact Hb0].
    + intros t' Hin Hb. apply in_rm in Hin. destruct Hin as [Hin _]. auto.
  - split; [exists t0; auto|exact Hall].
  - split.
    + destruct (on_file_touch_in now b' t0 (d_trash x) Hin0) as [t' [Hin [Eb _]]]. exists t'. split; [exact Hin|congruence].
    + intros t' Hin Hb. apply in_on_file_touch in Hin. destruct Hin as [g [Hg [Eb [Er Ec]]]].
      rewrite Er, Ec. apply Hall; [exact Hg|congruence].
  - destruct (find_file b' (d_index x)) as [h|] eqn:F; simpl; [|split; [exists t0; auto|exact Hall]].
    apply find_file_some in F. destruct F as [_ Fb]. split.
    + exists t0. split; [apply in_or_app; left; exact Hin0|exact Hb0].
    + intros t' Hin Hb. apply in_app_or in Hin. destruct Hin as [Hin|[<-|[]]]; [auto|]. congruence.
  - destruct (find_file b' (d_trash x)) as [h|] eqn:F; simpl; [|split; [exists t0; auto|exact Hall]].
    split.
    + exists t0. split; [eapply rm_keeps; eauto|exact Hb0].
    + intros t' Hin Hb. apply in_rm in Hin. destruct Hin as [Hin _]. auto.
  - split; [exists t0; auto|exact Hall].
Qed.

Lemma fold_pre : forall now b R acts x,
  Forall (safePre b) acts -> in_trash b R x -> in_trash b R (fold_left (apply now) acts x).
Proof.
  intros now b R acts. induction acts as [|a r IH]; intros x HF H; [exact H|].
  simpl. inversion HF; subst. apply IH; [assumption|]. apply pre_step; assumption.
Qed.

(** the renames of moveAll for that shard *)
Lemma trigger_restore : forall now b R x, in_trash b R x -> restored b R (apply now x (MvToIndex b)).
Proof.
  intros now b R x [[t0 [Hin0 Hb0]] Hall]. simpl.
  destruct (find_file_in b (d_trash x) t0 Hin0 Hb0) as [t1 F]. rewrite F. simpl.
  apply find_file_some in F. destruct F as [Fi Fb]. destruct (Hall t1 Fi Fb) as [Er Ec].
  split.
  - exists t1. split; [apply in_or_app; right; left; reflexivity|auto].
  - intros t' Hin. apply in_rm in Hin. tauto.
Qed.

Lemma post_step : forall now b R a x, safePost b a -> restored b R x -> restored b R (apply now x a).
Proof.
  intros now b R a x Hs [[f0 [Hin0 [Hb0 [Hr0 Hc0]]]] Hno].
  destruct a as [b'|b'|b' id' flag|b' id' totr|b'|b'|b'|b'|]; simpl in *.
  - split; [|exact Hno]. exists f0. split; [eapply rm_keeps; eauto|auto].
  - split; [exists f0; auto|]. intros t' Hin. apply in_rm in Hin. destruct Hin as [Hin _]. auto.
  - split; [|exact Hno]. exists f0. split; [apply in_on_file_self; [exact Hin0|congruence]|auto].
  - destruct (serves_others b' id' (d_index x)); simpl.
    + split; [|exact Hno]. exists f0. split; [apply in_on_file_self; [exact Hin0|congruence]|auto].
    + split.
      * exists f0. split; [eapply rm_keeps; eauto|auto].
      * destruct totr; [|exact Hno]. intros t' Hin. apply in_rm in Hin. destruct Hin as [Hin _]. auto.
  - split; [|exact Hno].
    destruct (on_file_touch_in now b' f0 (d_index x) Hin0) as [f1 [Hin [Eb [Er Ec]]]].
    exists f1. split; [exact Hin|]. repeat split; congruence.
  - split; [exists f0; auto|].
    intros t' Hin. apply in_on_file_touch in Hin. destruct Hin as [g [Hg [Eb _]]]. rewrite Eb. auto.
  - destruct (find_file b' (d_index x)) as [h|] eqn:F; simpl; [|split; [exists f0; auto|exact Hno]].
    apply find_file_some in F. destruct F as [_ Fb]. split.
    + exists f0. split; [eapply rm_keeps; eauto|auto].
    + intros t' Hin. apply in_app_or in Hin. destruct Hin as [Hin|[<-|[]]]; [auto|congruence].
  - destruct (find_file b' (d_trash x)) as [h|] eqn:F; simpl; [|split; [exists f0; auto|exact Hno]].
    split.
    + exists f0. split; [apply in_or_app; left; exact Hin0|auto].
    + intros t' Hin. apply in_rm in Hin. destruct Hin as [Hin _]. auto.
  - split; [exists f0; auto|exact Hno].
Qed.

Lemma fold_post : forall now b R acts x,
  Forall (safePost b) acts -> restored b R x -> restored b R (fold_left (apply now) acts x).
Proof.
  intros now b R acts. induction acts as [|a r IH]; intros x HF H; [exact H|].
  simpl. inversion HF; subst. apply IH; [assumption|]. apply post_step; assumption.
Qed.

(** the shard references getShards produces for a directory with unique file names, split at a file that
    serves one repository *)
Lemma get_shards_split : forall fs t e,
  NoDup (map f_base fs) -> In t fs -> alive_entries t = [e] ->
  exists l1 l2, get_shards fs = l1 ++ mkS (e_id e) (e_name e) (f_base t) (f_compound t) (f_mtime t) :: l2 /\
    (forall s, In s l1 -> s_base s <> f_base t) /\ (forall s, In s l2 -> s_base s <> f_base t).
Proof.
  intros fs t e ND Hin Hone. apply in_split in Hin. destruct Hin as [f1 [f2 ->]].
  exists (get_shards f1), (get_shards f2). unfold get_shards. rewrite flat_map_app. simpl.
  unfold srefs_of_file at 2. rewrite Hone. simpl. split; [reflexivity|].
  rewrite map_app in ND. simpl in ND. apply NoDup_remove_2 in ND.
  split; intros s Hs Hb; apply ND; apply in_or_app; [left|right];
    apply in_get_shards in Hs; destruct Hs as [g [e' [Hg [_ ->]]]]; simpl in Hb; rewrite <- Hb; apply in_map; exact Hg.
Qed.

Lemma group_app : forall l1 l2 id, group (l1 ++ l2) id = group l1 id ++ group l2 id.
Proof. intros. unfold group. apply filter_app. Qed.

Lemma tomb_pick_candidate : forall cs b, tomb_pick cs = Some b -> exists dt, In (b, dt) cs.
Proof.
  intros cs b H. unfold tomb_pick in H.
  destruct (fold_left _ cs None) as [[b0 dt]|] eqn:F; [|discriminate]. simpl in H. inversion H; subst.
  apply tomb_fold_in in F. destruct F as [F|F]; [|discriminate]. exists dt. exact F.
Qed.

Section Restore.
  Variables (d : dir) (repos : list N) (now : Z) (sm : bool).
  Variables (t : file) (e : entry) (id : N).
  Hypothesis Hwf : wf d.
  Hypothesis Hwft : wf_trash d.
  Hypothesis Ht : In t (d_trash d).
  Hypothesis Hone : alive_entries t = [e].          (* a simple shard serves one repository *)
  Hypothesis Hsimple : f_compound t = false.        (* not named compound-*: moveAll deletes those *)
  Hypothesis Hid : e_id e = id.
  Hypothesis Hassigned : In id repos.
  Hypothesis Hnodup : NoDup repos.
  (* in the trash, none of its trashed shards older than 24 h, not alive in the index *)
  Hypothesis Hkey : In id (trash_keys d now).

  Let b := f_base t.
  Let s0 := mkS (e_id e) (e_name e) (f_base t) (f_compound t) (f_mtime t).

  Lemma He_alive : In e (alive_entries t).
  Proof. rewrite Hone. left. reflexivity. Qed.

  Lemma key_fresh : trash_drop d now id = false.
  Proof. unfold trash_keys in Hkey. apply filter_In in Hkey. destruct Hkey as [_ H]. apply negb_true_iff in H. exact H. Qed.

  Lemma key_mem : memN id (trash_keys d now) = true.
  Proof. apply memN_In. exact Hkey. Qed.

  Lemma ref_is_id : forall s i, In s (group (tr d) i) -> s_base s = b -> i = id.
  Proof. intros s i Hs Hb. exact (trash_ref_is_t d t e id Hwft Ht He_alive Hid s i Hs Hb). Qed.

  (** no indexed shard has the name of t (names derive from the repository, which is not in the index) *)
  Lemma no_index_name : forall g, In g (d_index d) -> f_base g <> b.
  Proof.
    intros g Hg Hb.
    pose proof (wf_trash_names d Hwf t g e Ht Hg (eq_sym Hb) He_alive) as Hin. rewrite Hid in Hin.
    pose proof key_fresh as Hf. unfold trash_drop in Hf. apply memN_In in Hin. unfold ix in Hf. rewrite Hin in Hf. discriminate.
  Qed.

  Lemma ix_ref_base : forall s i, In s (group (ix d) i) -> s_base s <> b.
  Proof.
    intros s i Hs. apply in_group in Hs. destruct Hs as [Hs _].
    apply in_get_shards in Hs. destruct Hs as [g [e' [Hg [_ ->]]]]. simpl. apply no_index_name. exact Hg.
  Qed.

  Lemma pre_plan1 : Forall (safePre b) (plan1 d now).
  Proof.
    apply Forall_forall. intros a Ha. unfold plan1 in Ha. apply in_flat_map in Ha. destruct Ha as [i [_ Ha]].
    apply in_app_or in Ha. destruct Ha as [Ha|Ha].
    - apply in_map_iff in Ha. destruct Ha as [s [<- _]]. exact I.
    - destruct (trash_drop d now i) eqn:TD; [|contradiction].
      apply in_map_iff in Ha. destruct Ha as [s [<- Hs]]. simpl. intros Hb.
      rewrite (ref_is_id s i Hs Hb) in TD. rewrite key_fresh in TD. discriminate.
  Qed.

  Lemma pre_plan3 : Forall (safePre b) (plan3 d sm).
  Proof.
    apply Forall_forall. intros a Ha. unfold plan3 in Ha. apply in_flat_map in Ha. destruct Ha as [i [_ Ha]].
    destruct (consistent (group (ix d) i)); [contradiction|].
    apply in_app_or in Ha. destruct Ha as [Ha|Ha]; apply in_map_iff in Ha; destruct Ha as [s [<- _]]; [exact I|].
    destruct (s_compound s); simpl; [discriminate|exact I].
  Qed.

  Lemma move_to_index_safe : forall s, s_base s <> b ->
    Forall (fun a => safePre b a /\ safePost b a) (move_to true s).
  Proof.
    intros s Hb. unfold move_to. constructor; [simpl; auto|].
    destruct (s_compound s); constructor; simpl; auto.
  Qed.

  (** what plan4 decides for another assigned repository *)
  Definition F4 (i : N) : list act :=
    if memN i (trash_keys d now) then flat_map (move_to true) (group (tr d) i)
    else if memN i (tomb_keys d now) then
           match tomb_pick (tomb_candidates (d_index d) i) with
           | Some b' => [Tomb b' i false]
           | None => []
           end
    else [].

  Lemma plan4_F4 : forall l, flat_map F4 l = flat_map (fun i => F4 i) l.
  Proof. reflexivity. Qed.

  Lemma other_safe : forall i, i <> id -> Forall (fun a => safePre b a /\ safePost b a) (F4 i).
  Proof.
    intros i Hne. unfold F4. destruct (memN i (trash_keys d now)).
    - apply Forall_forall. intros a Ha. apply in_flat_map in Ha. destruct Ha as [s [Hs Ha]].
      assert (Hb : s_base s <> b) by (intros Hb; apply Hne; eapply ref_is_id; eauto).
      pose proof (move_to_index_safe s Hb) as HF. rewrite Forall_forall in HF. apply HF. exact Ha.
    - destruct (memN i (tomb_keys d now)); [|constructor].
      destruct (tomb_pick (tomb_candidates (d_index d) i)) as [b'|] eqn:TP; [|constructor].
      constructor; [|constructor]. simpl. split; [exact I|].
      apply tomb_pick_candidate in TP. destruct TP as [dt Hc].
      apply candidate_file in Hc. destruct Hc as [g [Hg [Hgb _]]]. rewrite <- Hgb. apply no_index_name. exact Hg.
  Qed.

  Lemma others_safe : forall l, ~ In id l -> Forall (fun a => safePre b a /\ safePost b a) (flat_map F4 l).
  Proof.
    induction l as [|i l IH]; intros Hn; [constructor|].
    simpl. apply Forall_app. split.
    - apply other_safe. intros ->. apply Hn. left. reflexivity.
    - apply IH. intros H. apply Hn. right. exact H.
  Qed.

  Lemma post_plan5 : Forall (safePost b) (plan5 d repos sm).
  Proof.
    apply Forall_forall. intros a Ha. unfold plan5 in Ha. apply in_flat_map in Ha. destruct Ha as [i [_ Ha]].
    apply in_app_or in Ha. destruct Ha as [Ha|Ha].
    - apply in_map_iff in Ha. destruct Ha as [s [<- _]]. exact I.
    - apply in_app_or in Ha. destruct Ha as [Ha|Ha].
      + apply in_map_iff in Ha. destruct Ha as [s [<- Hs]]. apply filter_In in Hs. destruct Hs as [Hs _].
        simpl. eapply ix_ref_base; eauto.
      + apply in_flat_map in Ha. destruct Ha as [s [Hs Ha]]. apply filter_In in Hs. destruct Hs as [Hs _].
        pose proof (ix_ref_base s i Hs) as Hb.
        unfold move_to in Ha. destruct (s_compound s); simpl in Ha.
        * destruct Ha as [<-|[]]. exact Hb.
        * destruct Ha as [<-|[<-|[]]]; [exact I|exact Hb].
  Qed.

  Lemma Forall_fst : forall (P Q : act -> Prop) l, Forall (fun a => P a /\ Q a) l -> Forall P l.
  Proof. intros P Q l H. eapply Forall_impl; [|exact H]. simpl. tauto. Qed.
  Lemma Forall_snd : forall (P Q : act -> Prop) l, Forall (fun a => P a /\ Q a) l -> Forall Q l.
  Proof. intros P Q l H. eapply Forall_impl; [|exact H]. simpl. tauto. Qed.

  Theorem assigned_restored_from_trash : restored b (f_repos t) (cleanup d repos now sm).
  Proof.
    (* the assigned list and the repository's trashed shards, split at id / at t *)
    destruct (in_split id repos Hassigned) as [l1 [l2 Hrep]].
    assert (Hn1 : ~ In id l1 /\ ~ In id l2).
    { rewrite Hrep in Hnodup. apply NoDup_remove_2 in Hnodup. split; intros H; apply Hnodup; apply in_or_app; auto. }
    destruct Hn1 as [Hn1 Hn2].
    destruct (get_shards_split (d_trash d) t e (wft_nodup d Hwft) Ht Hone) as [g1 [g2 [Hsp [Hg1 Hg2]]]].
    assert (Hgrp : group (tr d) id = group g1 id ++ s0 :: group g2 id).
    { unfold tr. rewrite Hsp. rewrite group_app. f_equal. unfold group at 1. simpl.
      assert (E : N.eqb (e_id e) id = true) by (apply N.eqb_eq; exact Hid). rewrite E. reflexivity. }
    assert (Hplan4 : plan4 d repos now = flat_map F4 l1 ++
              (flat_map (move_to true) (group g1 id) ++ [RmIndex b] ++ [MvToIndex b] ++ flat_map (move_to true) (group g2 id))
              ++ flat_map F4 l2).
    { unfold plan4. change (flat_map _ repos) with (flat_map F4 repos). rewrite Hrep.
      rewrite flat_map_app. simpl. f_equal. f_equal.
      unfold F4 at 1. rewrite key_mem. rewrite Hgrp. rewrite flat_map_app. simpl.
      unfold move_to at 2. simpl. rewrite Hsimple. reflexivity. }
    unfold cleanup, plan. rewrite Hplan4.
    repeat rewrite fold_left_app.
    (* after the trigger *)
    apply fold_post; [constructor; [exact I|constructor]|].
    apply fold_post; [exact post_plan5|].
    apply fold_post; [apply (Forall_snd (safePre b)); apply others_safe; exact Hn2|].
    apply fold_post.
    { apply Forall_forall. intros a Ha. apply in_flat_map in Ha. destruct Ha as [s [Hs Ha]].
      apply in_group in Hs. destruct Hs as [Hs _].
      pose proof (move_to_index_safe s (Hg2 s Hs)) as HF. rewrite Forall_forall in HF. apply HF. exact Ha. }
    change (fold_left (apply now) [MvToIndex b] ?X) with (apply now X (MvToIndex b)).
    apply trigger_restore.
    (* before the trigger *)
    change (fold_left (apply now) [RmIndex b] ?X) with (apply now X (RmIndex b)).
    apply pre_step; [exact I|].
    apply fold_pre.
    { apply Forall_forall. intros a Ha. apply in_flat_map in Ha. destruct Ha as [s [Hs Ha]].
      apply in_group in Hs. destruct Hs as [Hs _].
      pose proof (move_to_index_safe s (Hg1 s Hs)) as HF. rewrite Forall_forall in HF. apply HF. exact Ha. }
    apply fold_pre; [apply (Forall_fst _ (safePost b)); apply others_safe; exact Hn1|].
    apply fold_pre; [exact pre_plan3|].
    apply fold_pre; [exact pre_plan1|].
    split.
    - exists t. auto.
    - intros t' Ht' Hb'. assert (t' = t) by (eapply NoDup_base_inj; eauto using wft_nodup). subst t'. auto.
  Qed.
End Restore.

(** a duplicate id in the assigned list: the second moveAll(indexDir, ...) removes its destination, i.e. the shard
    just restored, and finds nothing left to move: the repository is gone from the index AND from the trash *)
Definition ex_dup : dir := mkD [] [mkF 0 false (-60) [mkE 1 1 false 1000]] 0.
Example restored_ok_without_duplicate :
  cleanup ex_dup [1%N] 0 true = mkD [mkF 0 false (-60) [mkE 1 1 false 1000]] [] 0.
Proof. reflexivity. Qed.
Theorem assigned_restored_duplicate_id_refuted :
  exists d repos now sm t e id,
    wf d /\ wf_trash d /\ In t (d_trash d) /\ alive_entries t = [e] /\ f_compound t = false /\ e_id e = id /\
    In id repos /\ In id (trash_keys d now) /\
    cleanup d repos now sm = mkD [] [] 0.
Proof.
  exists ex_dup, [1%N; 1%N], 0, true, (mkF 0 false (-60) [mkE 1 1 false 1000]), (mkE 1 1 false 1000), 1%N.
  split.
  { constructor; simpl.
    - constructor.
    - intros f e e' [].
    - intros t f e _ []. }
  split.
  { constructor; simpl.
    - constructor; [intros []|constructor].
    - intros t e e' [<-|[]]. simpl. intros [<-|[]] [<-|[]]. reflexivity. }
  repeat split; simpl; auto.
Qed.

(** ---- the converse of the trash rule: a trashed shard of a repository that is old (some trashed shard of it is
    older than 24 h) or conflicts with the index is removed by the first phase; no later phase restores it *)
Definition trash_only (a : act) : Prop :=
  match a with RmTrash _ | TouchTrash _ => True | _ => False end.

Lemma plan1_trash_only : forall d now, Forall trash_only (plan1 d now).
Proof.
  intros d now. apply Forall_forall. intros a Ha. unfold plan1 in Ha. apply in_flat_map in Ha. destruct Ha as [i [_ Ha]].
  apply in_app_or in Ha. destruct Ha as [Ha|Ha].
  - apply in_map_iff in Ha. destruct Ha as [s [<- _]]. exact I.
  - destruct (trash_drop d now i); [|contradiction]. apply in_map_iff in Ha. destruct Ha as [s [<- _]]. exact I.
Qed.

Definition no_trash_name (b : N) (x : dir) : Prop := forall t', In t' (d_trash x) -> f_base t' <> b.

Lemma trash_only_step : forall now b a x, trash_only a ->
  d_index (apply now x a) = d_index x /\ d_tmps (apply now x a) = d_tmps x /\
  (no_trash_name b x \/ a = RmTrash b -> no_trash_name b (apply now x a)).
Proof.
  intros now b a x Ha. destruct a; simpl in Ha; try contradiction; simpl.
  - split; [reflexivity|split; [reflexivity|]]. intros [H|H] t' Hin.
    + apply in_rm in Hin. destruct Hin as [Hin _]. auto.
    + inversion H; subst. apply in_rm in Hin. tauto.
  - split; [reflexivity|split; [reflexivity|]]. intros [H|H] t' Hin; [|discriminate].
    apply in_on_file_touch in Hin. destruct Hin as [g [Hg [Eb _]]]. rewrite Eb. auto.
Qed.

Lemma trash_only_fold : forall now b acts x, Forall trash_only acts ->
  d_index (fold_left (apply now) acts x) = d_index x /\ d_tmps (fold_left (apply now) acts x) = d_tmps x /\
  (no_trash_name b x \/ In (RmTrash b) acts -> no_trash_name b (fold_left (apply now) acts x)).
Proof.
  intros now b acts. induction acts as [|a r IH]; intros x HF.
  - simpl. split; [reflexivity|split; [reflexivity|]]. intros [H|[]]. exact H.
  - simpl. inversion HF as [|? ? Ha HF']; subst.
    destruct (trash_only_step now b a x Ha) as [Ei [Et Hn]].
    destruct (IH (apply now x a) HF') as [Ei' [Et' Hn']].
    split; [congruence|split; [congruence|]].
    intros [H|[H|H]]; apply Hn'; auto.
Qed.

(** after the first phase neither index nor trash has a file of that name: it stays so *)
Definition no_name (b : N) (x : dir) : Prop :=
  (forall g, In g (d_index x) -> f_base g <> b) /\ no_trash_name b x.

Lemma no_name_step : forall now b a x, no_name b x -> no_name b (apply now x a).
Proof.
  intros now b a x [Hi Ht].
  assert (OnF : forall b' (g : file -> file) fs, (forall f, f_base (g f) = f_base f) ->
            (forall f, In f fs -> f_base f <> b) -> forall f, In f (on_file b' g fs) -> f_base f <> b).
  { intros b' g fs Hg Hfs f Hin. unfold on_file in Hin. apply in_map_iff in Hin. destruct Hin as [f0 [E Hf0]].
    destruct (N.eqb (f_base f0) b'); subst f; [rewrite Hg|]; auto. }
  destruct a as [b'|b'|b' id' flag|b' id' totr|b'|b'|b'|b'|]; simpl.
  - split; [|exact Ht]. intros g Hg. apply in_rm in Hg. destruct Hg as [Hg _]. auto.
  - split; [exact Hi|]. intros g Hg. apply in_rm in Hg. destruct Hg as [Hg _]. auto.
  - split; [|exact Ht]. apply OnF; [reflexivity|exact Hi].
  - destruct (serves_others b' id' (d_index x)); simpl.
    + split; [|exact Ht]. apply OnF; [reflexivity|exact Hi].
    + split.
      * intros g Hg. apply in_rm in Hg. destruct Hg as [Hg _]. auto.
      * destruct totr; [|exact Ht]. intros g Hg. apply in_rm in Hg. destruct Hg as [Hg _]. auto.
  - split; [|exact Ht]. apply OnF; [reflexivity|exact Hi].
  - split; [exact Hi|]. unfold no_trash_name. apply OnF; [reflexivity|exact Ht].
  - destruct (find_file b' (d_index x)) as [h|] eqn:F; simpl; [|split; assumption].
    apply find_file_some in F. destruct F as [Fi Fb]. split.
    + intros g Hg. apply in_rm in Hg. destruct Hg as [Hg _]. auto.
    + intros g Hg. apply in_app_or in Hg. destruct Hg as [Hg|[<-|[]]]; auto.
  - destruct (find_file b' (d_trash x)) as [h|] eqn:F; simpl; [|split; assumption].
    apply find_file_some in F. destruct F as [Fi Fb]. split.
    + intros g Hg. apply in_app_or in Hg. destruct Hg as [Hg|[<-|[]]]; auto.
    + intros g Hg. apply in_rm in Hg. destruct Hg as [Hg _]. auto.
  - split; assumption.
Qed.

Lemma no_name_fold : forall now b acts x, no_name b x -> no_name b (fold_left (apply now) acts x).
Proof.
  intros now b acts. induction acts as [|a r IH]; intros x H; [exact H|]. simpl. apply IH. apply no_name_step. exact H.
Qed.

Section TrashDropped.
  Variables (d : dir) (repos : list N) (now : Z) (sm : bool).
  Variables (t : file) (e : entry) (id : N).
  Hypothesis Ht : In t (d_trash d).
  Hypothesis He : In e (alive_entries t).
  Hypothesis Hid : e_id e = id.
  (* some trashed shard of the repository is older than 24 h, or the repository is alive in the index *)
  Hypothesis Hdrop : trash_drop d now id = true.

  (** the state after the first phase ("trash: Remove old shards and conflicts with index") *)
  Definition after_trash_phase : dir := fold_left (apply now) (plan1 d now) d.

  Lemma cleanup_after_trash_phase :
    cleanup d repos now sm =
    fold_left (apply now) (plan3 d sm ++ plan4 d repos now ++ plan5 d repos sm ++ [ClearTmp]) after_trash_phase.
  Proof. unfold cleanup, plan, after_trash_phase. rewrite fold_left_app. reflexivity. Qed.

  Lemma rm_in_plan1 : In (RmTrash (f_base t)) (plan1 d now).
  Proof.
    set (s := mkS (e_id e) (e_name e) (f_base t) (f_compound t) (f_mtime t)).
    assert (Hs : In s (group (tr d) id)).
    { apply in_group. split; [|exact Hid]. apply in_get_shards. exists t, e. auto. }
    unfold plan1. apply in_flat_map. exists id. split.
    - apply in_ids_of. exists s. split; [|exact Hid]. apply in_group in Hs. tauto.
    - apply in_or_app. right. rewrite Hdrop. apply in_map_iff. exists s. auto.
  Qed.

  (** the first phase deletes it (every trashed file of that name) and touches nothing in the index *)
  Theorem trash_dropped_in_first_phase :
    d_index after_trash_phase = d_index d /\ (forall t', In t' (d_trash after_trash_phase) -> f_base t' <> f_base t).
  Proof.
    destruct (trash_only_fold now (f_base t) (plan1 d now) d (plan1_trash_only d now)) as [Ei [_ Hn]].
    split; [exact Ei|]. apply Hn. right. exact rm_in_plan1.
  Qed.

  (** and it is gone for good: unless the index itself had a shard file of that name (which the later phases may
      move to the trash), no file of that name exists in the index or in the trash after cleanup *)
  Theorem trash_dropped_final :
    (forall g, In g (d_index d) -> f_base g <> f_base t) ->
    (forall g, In g (d_index (cleanup d repos now sm)) -> f_base g <> f_base t) /\
    (forall t', In t' (d_trash (cleanup d repos now sm)) -> f_base t' <> f_base t).
  Proof.
    intros Hnone. rewrite cleanup_after_trash_phase. apply no_name_fold.
    destruct trash_dropped_in_first_phase as [Ei Hn]. split; [rewrite Ei; exact Hnone|exact Hn].
  Qed.
End TrashDropped.
