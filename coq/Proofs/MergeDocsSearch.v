(** C16 — "searches return the same matches" as a corollary of the view theorems, for every search engine
    that is document-local: what it reports for a shard is the concatenation, in document order, of what a
    per-document function reports for each visible (live repository) document, given the repository id and
    the decoded fields of the document (name, content, branch names, language name, sub-repository path,
    symbols, category).

    This is the shape of C01's specification of indexData.Search (Model/SearchCore.v [spec_search]:
    [filter (fun k => live c (doc_at c k) && eval c q (doc_at c k)) (all_ids c)], proved equal to the
    mechanism in C01_search_exact_regexp_free / C01_search_exact_partial): a document is reported iff it is
    live and [eval c q d] holds, and [eval] reads only the document's own name, content, branch mask, language
    and its repository.  [doc_match q (id, dd)] is that per-document verdict together with whatever is reported
    for the document (file name, content, branches, language, line matches, symbol info: all computed from
    [dd]), as a list so that a non-matching document contributes nothing.

    The engine is a Section variable: after the Section closes every theorem quantifies over the query type,
    the result type, the per-document function and the engine, with document-locality as a hypothesis. *)
From ZV Require Import Lib.Base Model.MergeDocs Proofs.MergeDocsProofs.
From Coq Require Import Permutation.

Lemma flat_map_flat_map : forall A B C (f : B -> list C) (g : A -> list B) (l : list A),
  flat_map f (flat_map g l) = flat_map (fun x => flat_map f (g x)) l.
Proof.
  intros A B C f g l. induction l as [|x r IH]; simpl; auto.
  rewrite flat_map_app, IH. reflexivity.
Qed.

Lemma list_sum_perm : forall l l', Permutation l l' -> list_sum l = list_sum l'.
Proof. intros l l' H. induction H; simpl; lia. Qed.

Lemma filter_flat_map_length : forall A B (p : B -> bool) (g : A -> list B) (l : list A),
  length (filter p (flat_map g l)) = list_sum (map (fun x => length (filter p (g x))) l).
Proof.
  intros A B p g l. induction l as [|x r IH]; simpl; auto.
  rewrite filter_app, app_length, IH. reflexivity.
Qed.

(** number of visible documents of repository [id] in a shard (RepoListEntry.Stats.Documents) *)
Definition doc_count (id : N) (sh : shard) : nat :=
  length (filter (fun e => N.eqb (fst e) id) (view sh)).
(** repository [id] is visible in a shard (has a document of a live repository) *)
Definition visible (id : N) (sh : shard) : Prop := In id (map fst (view sh)).

Section Search.
  Variables Q R : Type.
  Variable doc_match : Q -> N * ddoc -> list R.
  (** the real engine: result of a query over one shard *)
  Variable engine : Q -> shard -> list R.
  (** TRUSTED (C01, checked here by the Go oracle's query battery): the engine is document-local *)
  Hypothesis engine_local : forall q sh, engine q sh = flat_map (doc_match q) (view sh).

  Lemma engine_flat : forall q l,
    flat_map (doc_match q) (flat_map view l) = flat_map (engine q) l.
  Proof.
    intros q l. rewrite flat_map_flat_map. apply flat_map_ext. intros sh. symmetry. apply engine_local.
  Qed.

  Lemma search_preserved_merge_prio : forall q shards b,
    Forall wf_shard shards -> merge shards = Ok b ->
    engine q b = flat_map (engine q) (sort_prio shards).
  Proof.
    intros q shards b Hwf Hm. rewrite engine_local.
    rewrite (binv_view _ _ (merge_binv _ _ Hwf Hm)). apply engine_flat.
  Qed.

  Lemma search_preserved_merge : forall q shards b,
    Forall wf_shard shards -> merge shards = Ok b ->
    Permutation (engine q b) (flat_map (engine q) shards).
  Proof.
    intros q shards b Hwf Hm. rewrite (search_preserved_merge_prio q shards b Hwf Hm).
    apply Permutation_flat_map. apply sort_prio_perm.
  Qed.

  Lemma search_preserved_explode : forall q sh outs,
    wf_shard sh -> explode sh = Ok outs ->
    flat_map (engine q) outs = engine q sh.
  Proof.
    intros q sh outs Hwf He. unfold explode in He.
    destruct (explode_docs_view sh (sh_docs sh) None None [] [] outs Hwf (conj eq_refl eq_refl) (Forall_nil _) He) as [H1 _].
    simpl in H1. rewrite <- engine_flat, H1. symmetry. apply engine_local.
  Qed.
End Search.

(** ---- listing: per repository id the number of visible documents, and which repositories are visible *)
Lemma listing_preserved_merge : forall id shards b,
  Forall wf_shard shards -> merge shards = Ok b ->
  doc_count id b = list_sum (map (doc_count id) shards) /\
  (visible id b <-> exists sh, In sh shards /\ visible id sh).
Proof.
  intros id shards b Hwf Hm. pose proof (binv_view _ _ (merge_binv _ _ Hwf Hm)) as Hv. split.
  - unfold doc_count at 1. rewrite Hv, filter_flat_map_length.
    apply list_sum_perm. apply Permutation_map. apply sort_prio_perm.
  - unfold visible. rewrite Hv. split.
    + intros H. apply in_map_iff in H. destruct H as [e [He Hin]]. apply in_flat_map in Hin.
      destruct Hin as [sh [Hsh Hin]]. exists sh. split.
      * eapply Permutation_in; [apply sort_prio_perm|exact Hsh].
      * apply in_map_iff. exists e. auto.
    + intros [sh [Hsh H]]. apply in_map_iff in H. destruct H as [e [He Hin]].
      apply in_map_iff. exists e. split; auto. apply in_flat_map. exists sh. split; auto.
      eapply Permutation_in; [apply Permutation_sym, sort_prio_perm|exact Hsh].
Qed.

Lemma listing_preserved_explode : forall id sh outs,
  wf_shard sh -> explode sh = Ok outs ->
  list_sum (map (doc_count id) outs) = doc_count id sh /\
  ((exists o, In o outs /\ visible id o) <-> visible id sh).
Proof.
  intros id sh outs Hwf He. unfold explode in He.
  destruct (explode_docs_view sh (sh_docs sh) None None [] [] outs Hwf (conj eq_refl eq_refl) (Forall_nil _) He) as [H1 _].
  simpl in H1. split.
  - unfold doc_count at 2. fold (view sh) in H1. rewrite <- H1, filter_flat_map_length. reflexivity.
  - unfold visible. fold (view sh) in H1. rewrite <- H1. split.
    + intros [o [Ho H]]. apply in_map_iff in H. destruct H as [e [He' Hin]].
      apply in_map_iff. exists e. split; auto. apply in_flat_map. exists o. auto.
    + intros H. apply in_map_iff in H. destruct H as [e [He' Hin]]. apply in_flat_map in Hin.
      destruct Hin as [o [Ho Hin]]. exists o. split; auto. apply in_map_iff. exists e. auto.
Qed.
