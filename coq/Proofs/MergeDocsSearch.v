(** C16 — "searches return the same matches" as a corollary of the view theorems, for every search engine
    that is document-local: what it reports for a shard is the concatenation, in document order, of what a
    per-document function reports for each visible (live repository) document, given the repository record
    (id, priority, branch names in order, sub-repository paths) and the decoded fields of the document (name,
    content, branch names, language name, sub-repository path, symbols, category).

    This is the shape of C01's specification of indexData.Search (Model/SearchCore.v [spec_search]:
    [filter (fun k => live c (doc_at c k) && eval c q (doc_at c k)) (all_ids c)], proved equal to the
    mechanism in C01_search_exact_regexp_free / C01_search_exact_partial): a document is reported iff it is
    live and [eval c q d] holds, and [eval] reads only the document's own name, content, branch mask, language
    and its repository.  [doc_match q (r, dd)] is that per-document verdict together with whatever is reported
    for the document (file name, content, branches, language, line matches, symbol info: all computed from
    [r] and [dd]; branch:HEAD needs the FIRST branch of [r], hence the record and not only the id), as a list so
    that a non-matching document contributes nothing.

    The engine is a Section variable: after the Section closes every theorem quantifies over the query type,
    the result type, the per-document function and the engine, with document-locality as a hypothesis. *)
From ZV Require Import Lib.Base Model.MergeDocs Proofs.MergeDocsProofs.
From Coq Require Import Permutation.

Lemma flat_map_flat_map : forall A B C (f : B -> list C) (g : A -> list B) (l : list A),
  flat_map f (flat_map g l) = flat_map (fun x => flat_map f (g x)) l.
Proof.
  intros A B C f g l. induction l as [|x r IH]; simpl; auto.
  rewrite flat_map_app, IH. reflexivity.
Qed.

Lemma list_sum_perm : forall l l', Permutation l l' -> list_sum l = list_sum l'.
Proof. intros l l' H. induction H; simpl; lia. Qed.

Lemma filter_flat_map_length : forall A B (p : B -> bool) (g : A -> list B) (l : list A),
  length (filter p (flat_map g l)) = list_sum (map (fun x => length (filter p (g x))) l).
Proof.
  intros A B p g l. induction l as [|x r IH]; simpl; auto.
  rewrite filter_app, app_length, IH. reflexivity.
Qed.

Lemma flat_map_map : forall A B C (f : B -> list C) (g : A -> B) (l : list A),
  flat_map f (map g l) = flat_map (fun x => f (g x)) l.
Proof. intros A B C f g l. induction l as [|x r IH]; simpl; auto. rewrite IH. reflexivity. Qed.

Lemma map_flat_map : forall A B C (f : B -> C) (g : A -> list B) (l : list A),
  map f (flat_map g l) = flat_map (fun x => map f (g x)) l.
Proof. intros A B C f g l. induction l as [|x r IH]; simpl; auto. rewrite map_app, IH. reflexivity. Qed.

(** number of visible documents of repository [id] in a shard (RepoListEntry.Stats.Documents) *)
Definition doc_count (id : N) (sh : shard) : nat :=
  length (filter (fun e => N.eqb (fst e) id) (view sh)).
(** repository [id] is visible in a shard (has a document of a live repository) *)
Definition visible (id : N) (sh : shard) : Prop := In id (map fst (view sh)).
(** the repository with exactly this metadata (id, priority, branches in order, sub-repository paths) is visible *)
Definition visible_repo (r : srepo) (sh : shard) : Prop := In r (map fst (viewr sh)).

Section Search.
  Variables Q R : Type.
  Variable doc_match : Q -> srepo * ddoc -> list R.
  (** the real engine: result of a query over one shard *)
  Variable engine : Q -> shard -> list R.
  (** TRUSTED (C01, checked here by the Go oracle's query battery): the engine is document-local *)
  Hypothesis engine_local : forall q sh, engine q sh = flat_map (doc_match q) (viewr sh).

  Lemma engine_flat : forall q l,
    flat_map (doc_match q) (flat_map viewr l) = flat_map (engine q) l.
  Proof.
    intros q l. rewrite flat_map_flat_map. apply flat_map_ext. intros sh. symmetry. apply engine_local.
  Qed.

  Lemma search_preserved_merge_prio : forall q shards b,
    Forall wf_shard shards -> merge shards = Ok b ->
    engine q b = flat_map (engine q) (sort_prio shards).
  Proof.
    intros q shards b Hwf Hm. rewrite engine_local, (merge_viewr _ _ Hwf Hm). apply engine_flat.
  Qed.

  Lemma search_preserved_merge : forall q shards b,
    Forall wf_shard shards -> merge shards = Ok b ->
    Permutation (engine q b) (flat_map (engine q) shards).
  Proof.
    intros q shards b Hwf Hm. rewrite (search_preserved_merge_prio q shards b Hwf Hm).
    apply Permutation_flat_map. apply sort_prio_perm.
  Qed.

  Lemma search_preserved_explode : forall q sh outs,
    wf_shard sh -> explode sh = Ok outs ->
    flat_map (engine q) outs = engine q sh.
  Proof.
    intros q sh outs Hwf He. destruct (explode_viewr sh outs Hwf He) as [H1 _].
    rewrite <- engine_flat, H1. symmetry. apply engine_local.
  Qed.
End Search.

(** an engine that is document-local over the id view is document-local over the repository view *)
Lemma id_local_repo_local : forall (Q R : Type) (dm : Q -> N * ddoc -> list R) (engine : Q -> shard -> list R),
  (forall q sh, engine q sh = flat_map (dm q) (view sh)) ->
  forall q sh, engine q sh = flat_map (fun e => dm q (id_entry e)) (viewr sh).
Proof. intros Q R dm engine H q sh. rewrite H, view_viewr. apply flat_map_map. Qed.

(** ---- listing: per repository id the number of visible documents, which repositories are visible, and with
    which metadata *)
Lemma in_flat_map_perm : forall A B (g : A -> list B) (l l' : list A) (x : B), Permutation l l' ->
  (In x (flat_map g l) <-> exists a, In a l' /\ In x (g a)).
Proof.
  intros A B g l l' x Hp. rewrite in_flat_map. split; intros [a [Ha Hx]]; exists a; split; auto.
  - eapply Permutation_in; eauto.
  - eapply Permutation_in; [apply Permutation_sym|]; eauto.
Qed.

Lemma listing_preserved_merge : forall id shards b,
  Forall wf_shard shards -> merge shards = Ok b ->
  doc_count id b = list_sum (map (doc_count id) shards) /\
  (visible id b <-> exists sh, In sh shards /\ visible id sh).
Proof.
  intros id shards b Hwf Hm. pose proof (merge_view _ _ Hwf Hm) as Hv. split.
  - unfold doc_count at 1. rewrite Hv, filter_flat_map_length.
    apply list_sum_perm. apply Permutation_map. apply sort_prio_perm.
  - unfold visible. rewrite Hv. rewrite map_flat_map.
    apply in_flat_map_perm. apply sort_prio_perm.
Qed.

Lemma repos_preserved_merge : forall r shards b,
  Forall wf_shard shards -> merge shards = Ok b ->
  (visible_repo r b <-> exists sh, In sh shards /\ visible_repo r sh).
Proof.
  intros r shards b Hwf Hm. unfold visible_repo. rewrite (merge_viewr _ _ Hwf Hm).
  rewrite map_flat_map.
  apply in_flat_map_perm. apply sort_prio_perm.
Qed.

Lemma listing_preserved_explode : forall id sh outs,
  wf_shard sh -> explode sh = Ok outs ->
  list_sum (map (doc_count id) outs) = doc_count id sh /\
  ((exists o, In o outs /\ visible id o) <-> visible id sh).
Proof.
  intros id sh outs Hwf He. destruct (explode_view sh outs Hwf He) as [H1 _]. split.
  - unfold doc_count at 2. rewrite <- H1, filter_flat_map_length. reflexivity.
  - unfold visible. rewrite <- H1. rewrite map_flat_map.
    symmetry. apply in_flat_map_perm. apply Permutation_refl.
Qed.

Lemma repos_preserved_explode : forall r sh outs,
  wf_shard sh -> explode sh = Ok outs ->
  ((exists o, In o outs /\ visible_repo r o) <-> visible_repo r sh).
Proof.
  intros r sh outs Hwf He. destruct (explode_viewr sh outs Hwf He) as [H1 _].
  unfold visible_repo. rewrite <- H1. rewrite map_flat_map.
  symmetry. apply in_flat_map_perm. apply Permutation_refl.
Qed.
