(** C23 — the loop model of Model/TenantLoop.v refines to the [search] of Model/Tenant.v for the two option settings
    the rest of the development uses: no limits (Search as issued by the tests / the sharded searcher with default options)
    and ShardRepoMaxMatchCount = 1 (the search run by indexData.List). *)
From ZV Require Import Lib.Base Model.Tenant Proofs.Tenant Model.TenantLoop Proofs.TenantLoop.
From Coq Require Import Lia ZifyBool.
Open Scope Z_scope.

(** ---- refinement: without ShardRepoMaxMatchCount, an iterator that does not jump, no cancellation and a
    ShardMaxMatchCount that is not reached, the loop returns exactly the documents that pass the guards and match,
    in order — i.e. the [flat_map repo_files] of Model/Tenant.v *)
Definition hit (strict : bool) (c : tctx) (m : repo -> doc -> bool) (x : fdoc) : bool :=
  doc_ok strict c x && m (snd (fst x)) (snd x).
Definition fm_of (x : fdoc) : fmatch := mk_fm (snd (fst x)) (snd x).
Fixpoint wsum (w : repo -> doc -> Z) (l : list fdoc) : Z :=
  match l with [] => 0 | x :: t => w (snd (fst x)) (snd x) + wsum w t end.

Lemma wsum_nonneg : forall w l, (forall r d, 0 <= w r d) -> 0 <= wsum w l.
Proof. intros w l Hw. induction l as [|x t IH]; cbn; [lia|]. specialize (Hw (snd (fst x)) (snd x)). lia. Qed.

Lemma guards_pass_nolimit : forall strict c o st x, o_repomax o <= 0 -> guards_pass strict c o st x = doc_ok strict c x.
Proof.
  intros strict c o st [[rid r] d] Ho. unfold guards_pass, doc_ok.
  destruct (r_tomb r); [reflexivity|]. destruct (has_access strict c (r_tenant r)); [|reflexivity].
  destruct (d_ftomb d); [reflexivity|]. cbn.
  assert (E : (0 <? o_repomax o) = false) by lia. rewrite E. reflexivity.
Qed.

Lemma doc_loop_unlimited : forall strict c o nd m w total,
  o_repomax o <= 0 -> (forall p, (nd p <= p)%nat) -> (forall r d, 0 <= w r d) ->
  forall rest fuel st,
  (length rest < fuel)%nat ->
  (o_shardmax o <= 0 \/ ls_mc st + wsum w rest < o_shardmax o) ->
  doc_loop strict c o nd no_cancel m w total fuel rest st = map fm_of (filter (hit strict c m) rest).
Proof.
  intros strict c o nd m w total Ho Hnd Hw. induction rest as [|x t IH]; intros fuel st Hf Hs.
  - destruct fuel as [|fuel]; [cbn in Hf; lia|]. rewrite doc_loop_S. cbv zeta.
    rewrite skipn_nil. reflexivity.
  - destruct fuel as [|fuel]; [cbn in Hf; lia|]. rewrite doc_loop_S. cbv zeta.
    set (pos := (total - length (x :: t))%nat).
    assert (Ek : (nd pos - pos)%nat = 0%nat) by (specialize (Hnd pos); lia).
    rewrite Ek. cbn [skipn skip_loop]. rewrite guards_pass_nolimit by exact Ho.
    cbn [filter]. unfold hit at 1.
    destruct (doc_ok strict c x) eqn:Dok; cbn [andb].
    + destruct x as [[rid r] d]. cbn [fst snd].
      set (st1 := if Nat.eqb (ls_lastrepo st) rid then st else {| ls_lastrepo := rid; ls_rmc := 0; ls_mc := ls_mc st |}).
      assert (Emc : ls_mc st1 = ls_mc st) by (unfold st1; destruct (Nat.eqb (ls_lastrepo st) rid); reflexivity).
      cbn [wsum fst snd] in Hs. pose proof (wsum_nonneg w t Hw) as Hwt. pose proof (Hw r d) as Hwd.
      assert (Ex : (no_cancel pos || ((o_shardmax o <=? ls_mc st1) && (0 <? o_shardmax o))) = false).
      { unfold no_cancel. cbn [orb]. rewrite Emc. destruct Hs as [Hs|Hs]; lia. }
      rewrite Ex. destruct (m r d) eqn:M.
      * cbn [map]. unfold fm_of at 1. cbn [fst snd]. f_equal. apply IH; [cbn in Hf; lia|].
        cbn [ls_mc]. rewrite Emc. destruct Hs as [Hs|Hs]; [left; exact Hs | right; lia].
      * apply IH; [cbn in Hf; lia|]. rewrite Emc. destruct Hs as [Hs|Hs]; [left; exact Hs | right; lia].
    + (* the guards reject x: the skip loop moves on within the same outer iteration *)
      rewrite <- (IH (S fuel) st); [|cbn in Hf; lia|].
      * rewrite doc_loop_S. cbv zeta.
        set (pos' := (total - length t)%nat).
        assert (Ek' : (nd pos' - pos')%nat = 0%nat) by (specialize (Hnd pos'); lia).
        rewrite Ek'. cbn [skipn]. unfold no_cancel. reflexivity.
      * cbn [wsum] in Hs. pose proof (Hw (snd (fst x)) (snd x)). destruct Hs as [Hs|Hs]; [left; exact Hs | right; lia].
Qed.

Lemma flatten_from_files : forall strict c m s i,
  map fm_of (filter (hit strict c m) (flatten_from i s)) = flat_map (repo_files strict c false m) s.
Proof.
  intros strict c m. induction s as [|[r ds] s IH]; intros i; cbn [flatten_from flat_map]; [reflexivity|].
  rewrite filter_app, map_app, IH. f_equal.
  unfold repo_files. 
  destruct (r_tomb r) eqn:T.
  - induction ds as [|d ds IHd]; [reflexivity|]. cbn. unfold hit, doc_ok. cbn. rewrite T. cbn. exact IHd.
  - destruct (has_access strict c (r_tenant r)) eqn:A; cbn [negb].
    + induction ds as [|d ds IHd]; [reflexivity|]. cbn [map filter]. unfold hit at 1, doc_ok. cbn [fst snd]. rewrite T, A. cbn [negb andb].
      destruct (negb (d_ftomb d) && m r d); [cbn [map]; unfold fm_of at 1; cbn [fst snd]; f_equal; exact IHd | exact IHd].
    + induction ds as [|d ds IHd]; [reflexivity|]. cbn. unfold hit, doc_ok. cbn. rewrite T, A. cbn. exact IHd.
Qed.

(** the loop with "no limits" is the [search] of Model/Tenant.v: all theorems about [search ... false] (non-interference,
    completeness for the owner / the system context) are theorems about the loop *)
Lemma search_opts_unlimited : forall strict c s scan o nd m w,
  o_repomax o <= 0 -> (forall p, (nd p <= p)%nat) -> (forall r d, 0 <= w r d) ->
  (o_shardmax o <= 0 \/ wsum w (flatten s) < o_shardmax o) ->
  search_opts strict c s scan o nd no_cancel m w = search strict c s scan false m.
Proof.
  intros strict c s scan o nd m w Ho Hnd Hw Hs. unfold search_opts, search, search_gen.
  destruct scan; cbn [negb]; [|reflexivity]. f_equal.
  rewrite doc_loop_unlimited; auto.
  apply flatten_from_files.
Qed.

Section Lim1.
  Variables (strict : bool) (c : tctx) (o : sopts) (nd : nat -> nat) (m : repo -> doc -> bool) (w : repo -> doc -> Z) (total : nat).
  Hypothesis Ho : o_repomax o = 1.
  Hypothesis Hnd : forall p, (nd p <= p)%nat.
  Hypothesis Hw : forall r d, 1 <= w r d.

  Let loop := doc_loop strict c o nd no_cancel m w total.
  Definition budget (st : lstate) (rest : list fdoc) : Prop := o_shardmax o <= 0 \/ ls_mc st + wsum w rest < o_shardmax o.

  Lemma wsum_app : forall a b, wsum w (a ++ b) = wsum w a + wsum w b.
  Proof. induction a as [|x a IH]; intros b; cbn; [lia|]. rewrite IH. lia. Qed.
  Lemma wsum_nonneg1 : forall l, 0 <= wsum w l.
  Proof. intros l. apply wsum_nonneg. intros r d. specialize (Hw r d). lia. Qed.

  Lemma loop_reject : forall fuel x t st,
    guards_pass strict c o st x = false -> loop (S fuel) (x :: t) st = loop (S fuel) t st.
  Proof.
    intros fuel x t st G. unfold loop. rewrite !doc_loop_S. cbv zeta.
    set (pos := (total - length (x :: t))%nat). set (pos' := (total - length t)%nat).
    assert (Ek : (nd pos - pos)%nat = 0%nat) by (specialize (Hnd pos); lia).
    assert (Ek' : (nd pos' - pos')%nat = 0%nat) by (specialize (Hnd pos'); lia).
    rewrite Ek, Ek'. cbn [skipn skip_loop]. rewrite G. unfold no_cancel. reflexivity.
  Qed.

  Lemma loop_accept : forall fuel rid r d t st,
    guards_pass strict c o st (rid, r, d) = true ->
    loop (S fuel) ((rid, r, d) :: t) st =
      let st1 := if Nat.eqb (ls_lastrepo st) rid then st else {| ls_lastrepo := rid; ls_rmc := 0; ls_mc := ls_mc st |} in
      if (o_shardmax o <=? ls_mc st1) && (0 <? o_shardmax o) then []
      else if m r d then
        mk_fm r d :: loop fuel t {| ls_lastrepo := ls_lastrepo st1; ls_rmc := ls_rmc st1 + w r d; ls_mc := ls_mc st1 + w r d |}
      else loop fuel t st1.
  Proof.
    intros fuel rid r d t st G. unfold loop. rewrite doc_loop_S. cbv zeta.
    assert (Ek : forall p, (nd p - p)%nat = 0%nat) by (intro p; specialize (Hnd p); lia).
    rewrite Ek. cbn [skipn skip_loop]. rewrite G. unfold no_cancel. cbn [orb]. reflexivity.
  Qed.

  Lemma loop_nil : forall fuel st, loop fuel [] st = [].
  Proof. intros [|fuel] st; [reflexivity|]. unfold loop. rewrite doc_loop_S. cbv zeta. rewrite skipn_nil. reflexivity. Qed.

  (** guard 4 fires: the repository reached the limit *)
  Lemma guards_limit_reject : forall st i r d,
    ls_lastrepo st = i -> 1 <= ls_rmc st -> guards_pass strict c o st (i, r, d) = false.
  Proof.
    intros st i r d E R. unfold guards_pass.
    destruct (r_tomb r); [reflexivity|]. destruct (negb (has_access strict c (r_tenant r))); [reflexivity|].
    destruct (d_ftomb d); [reflexivity|]. rewrite Ho, E, Nat.eqb_refl.
    assert (X : (1 <=? ls_rmc st) = true) by lia. rewrite X. reflexivity.
  Qed.

  (** guard 4 does not fire: another repository, or the limit is not reached *)
  Lemma guards_nolimit : forall st i r d,
    ((ls_lastrepo st < i)%nat \/ ls_rmc st < 1) -> guards_pass strict c o st (i, r, d) = doc_ok strict c (i, r, d).
  Proof.
    intros st i r d H. unfold guards_pass, doc_ok.
    destruct (r_tomb r); [reflexivity|]. destruct (has_access strict c (r_tenant r)); [|reflexivity].
    destruct (d_ftomb d); [reflexivity|]. cbn [negb andb]. rewrite Ho.
    destruct H as [H|H].
    - assert (X : Nat.eqb i (ls_lastrepo st) = false) by (apply Nat.eqb_neq; lia). rewrite X.
      rewrite !andb_false_r. reflexivity.
    - assert (X : (1 <=? ls_rmc st) = false) by lia. rewrite X. reflexivity.
  Qed.

  (** phase B: after the file match that reached the limit, the rest of the repository is skipped *)
  Lemma phaseB : forall i r ds fuel st R,
    ls_lastrepo st = i -> 1 <= ls_rmc st ->
    loop fuel (map (fun d => (i, r, d)) ds ++ R) st = loop fuel R st.
  Proof.
    intros i r ds fuel st R E Hr. destruct fuel as [|fuel]; [reflexivity|]. induction ds as [|d ds IH]; [reflexivity|].
    cbn [map app]. rewrite loop_reject; [exact IH|]. apply guards_limit_reject; assumption.
  Qed.

  Definition inv (i : nat) (st : lstate) : Prop :=
    (ls_lastrepo st <= i)%nat /\ 0 <= ls_rmc st /\ ((ls_lastrepo st < i)%nat \/ ls_rmc st < 1).

  (** phase A: the documents of repository i until its first file match *)
  Lemma phaseA : forall i r R X,
    (forall fuel' st', (length R < fuel')%nat -> inv (S i) st' -> budget st' R -> loop fuel' R st' = X) ->
    forall ds fuel st,
    (length (map (fun d => (i, r, d)) ds ++ R) < fuel)%nat -> inv i st -> budget st (map (fun d => (i, r, d)) ds ++ R) ->
    loop fuel (map (fun d => (i, r, d)) ds ++ R) st = repo_files strict c true m (r, ds) ++ X.
  Proof.
    intros i r R X K. induction ds as [|d ds IH]; intros fuel st Hf Hi Hb.
    - cbn [map app] in *. unfold repo_files. cbn [filter firstn map].
      replace (if r_tomb r then [] else if negb (has_access strict c (r_tenant r)) then [] else @nil fmatch) with (@nil fmatch)
        by (destruct (r_tomb r); [reflexivity|]; destruct (negb (has_access strict c (r_tenant r))); reflexivity).
      cbn [app]. apply K; auto. destruct Hi as (H1 & H2 & H3). repeat split; auto; lia.
    - destruct fuel as [|fuel]; [cbn in Hf; lia|]. cbn [map app] in *.
      assert (Hf' : (length (map (fun d => (i, r, d)) ds ++ R) < fuel)%nat) by (cbn in Hf; lia).
      assert (Hb' : forall st', ls_mc st' <= ls_mc st + w r d -> budget st' (map (fun d => (i, r, d)) ds ++ R)).
      { intros st' Hle. destruct Hb as [Hb|Hb]; [left; exact Hb|right]. cbn [wsum fst snd] in Hb. lia. }
      destruct Hi as (H1 & H2 & H3).
      destruct (doc_ok strict c (i, r, d)) eqn:Dok.
      + rewrite loop_accept by (rewrite guards_nolimit; assumption). cbv zeta.
        set (st1 := if Nat.eqb (ls_lastrepo st) i then st else {| ls_lastrepo := i; ls_rmc := 0; ls_mc := ls_mc st |}).
        assert (Emc : ls_mc st1 = ls_mc st) by (unfold st1; destruct (Nat.eqb (ls_lastrepo st) i); reflexivity).
        assert (Elr : ls_lastrepo st1 = i).
        { unfold st1. destruct (Nat.eqb (ls_lastrepo st) i) eqn:E; [apply Nat.eqb_eq in E; exact E | reflexivity]. }
        assert (Ermc : 0 <= ls_rmc st1 < 1).
        { unfold st1. destruct (Nat.eqb (ls_lastrepo st) i) eqn:E; [apply Nat.eqb_eq in E; lia | cbn; lia]. }
        pose proof (Hw r d) as Hwd. pose proof (wsum_nonneg1 (map (fun d => (i, r, d)) ds ++ R)) as Hwn.
        assert (Ex : ((o_shardmax o <=? ls_mc st1) && (0 <? o_shardmax o)) = false).
        { rewrite Emc. destruct Hb as [Hb|Hb]; [lia|]. cbn [wsum fst snd] in Hb. lia. }
        rewrite Ex.
        unfold doc_ok in Dok. apply andb_prop in Dok. destruct Dok as [Dok Dft]. apply andb_prop in Dok. destruct Dok as [Dt Da].
        unfold repo_files in *. destruct (r_tomb r); [discriminate|]. rewrite Da. cbn [negb filter]. rewrite Dft. cbn [andb].
        destruct (m r d) eqn:M.
        * (* the first file match of the repository: limit reached, the rest is skipped *)
          cbn [firstn map app]. f_equal.
          rewrite phaseB; [|cbn; exact Elr | cbn; lia].
          apply K.
          -- rewrite app_length in Hf'. unfold fdoc in *. lia.
          -- repeat split; cbn; lia.
          -- destruct (Hb' {| ls_lastrepo := ls_lastrepo st1; ls_rmc := ls_rmc st1 + w r d; ls_mc := ls_mc st1 + w r d |}) as [Hq|Hq];
               [cbn; lia | left; exact Hq | right]. rewrite wsum_app in Hq. pose proof (wsum_nonneg1 (map (fun d => (i, r, d)) ds)). lia.
        * specialize (IH fuel st1). rewrite Da in IH. cbn [negb] in IH.
          apply IH; [lia | repeat split; lia | apply Hb'; lia].
      + rewrite loop_reject by (rewrite guards_nolimit; assumption).
        specialize (IH (S fuel) st ltac:(lia) (conj H1 (conj H2 H3)) (Hb' st ltac:(specialize (Hw r d); lia))).
        rewrite IH. f_equal. unfold repo_files.
        unfold doc_ok in Dok. destruct (r_tomb r); [reflexivity|]. cbn [negb andb] in Dok.
        destruct (has_access strict c (r_tenant r)); [|reflexivity]. cbn [negb andb filter] in *.
        rewrite Dok. reflexivity.
  Qed.

  Lemma loop_lim1 : forall s i fuel st,
    (length (flatten_from i s) < fuel)%nat -> inv i st -> budget st (flatten_from i s) ->
    loop fuel (flatten_from i s) st = flat_map (repo_files strict c true m) s.
  Proof.
    induction s as [|[r ds] s IH]; intros i fuel st Hf Hi Hb.
    - cbn. apply loop_nil.
    - cbn [flatten_from flat_map]. apply phaseA; [|assumption..].
      intros fuel' st' Hf' Hi' Hb'. apply IH; assumption.
  Qed.
End Lim1.

(** the search that indexData.List runs (ShardRepoMaxMatchCount = 1) is [search ... lim1 := true] of Model/Tenant.v,
    given that every file match carries at least one line / chunk match *)
Lemma search_opts_lim1 : forall strict c s scan o nd m w,
  o_repomax o = 1 -> (forall p, (nd p <= p)%nat) -> (forall r d, 1 <= w r d) ->
  (o_shardmax o <= 0 \/ wsum w (flatten s) < o_shardmax o) ->
  search_opts strict c s scan o nd no_cancel m w = search strict c s scan true m.
Proof.
  intros strict c s scan o nd m w Ho Hnd Hw Hs. unfold search_opts, search, search_gen.
  destruct scan; cbn [negb]; [|reflexivity]. f_equal.
  apply loop_lim1; auto.
  unfold inv, lstate0. cbn. lia.
Qed.
