(** C32, third theorem: a trashed shard is deleted only if old, conflicting with the index, or restored. *)
From ZV Require Import Lib.Base Model.Cleanup Proofs.CleanupProofs Proofs.CleanupUnassigned.
Open Scope Z_scope.

Definition holds_trash (b : N) (P : list entry) (x : dir) : Prop :=
  exists t', In t' (d_trash x) /\ f_base t' = b /\ f_repos t' = P.

Definition safeT (b : N) (a : act) : Prop :=
  match a with
  | RmTrash b' => b' <> b
  | MvToIndex b' => b' <> b
  | TombOrRm b' _ totr => totr = true -> b' <> b
  | _ => True
  end.

Lemma apply_holds_trash : forall now b P a x,
  safeT b a -> holds_trash b P x -> holds_trash b P (apply now x a).
Proof.
  intros now b P a x Hs [t' [Hin [Hb Hp]]].
  destruct a as [b'|b'|b' id' flag|b' id' totr|b'|b'|b'|b'|]; simpl in *.
  - exists t'. auto.
  - exists t'. repeat split; auto. eapply rm_keeps; eauto.
  - exists t'. auto.
  - destruct (serves_others b' id' (d_index x)); simpl; [exists t'; auto|].
    destruct totr; [|exists t'; auto].
    exists t'. repeat split; auto. eapply rm_keeps; eauto.
  - exists t'. auto.
  - exists (if N.eqb (f_base t') b' then touch now t' else t'). split.
    + unfold on_file. apply in_map_iff. exists t'. split; [reflexivity|exact Hin].
    + destruct (N.eqb (f_base t') b'); repeat split; auto.
  - destruct (find_file b' (d_index x)); simpl.
    + exists t'. repeat split; auto. apply in_or_app. left. exact Hin.
    + exists t'. auto.
  - destruct (find_file b' (d_trash x)); simpl.
    + exists t'. repeat split; auto. eapply rm_keeps; eauto.
    + exists t'. auto.
  - exists t'. auto.
Qed.

Lemma fold_holds_trash : forall now b P acts x,
  Forall (safeT b) acts -> holds_trash b P x -> holds_trash b P (fold_left (apply now) acts x).
Proof.
  intros now b P acts. induction acts as [|a t IH]; intros x HF H; [exact H|].
  simpl. inversion HF; subst. apply IH; [assumption|]. apply apply_holds_trash; assumption.
Qed.

Section TrashKept.
  Variables (d : dir) (repos : list N) (now : Z) (sm : bool).
  Variables (t : file) (e : entry) (id : N).
  Hypothesis Hwf : wf d.
  Hypothesis Hwft : wf_trash d.
  Hypothesis Ht : In t (d_trash d).
  Hypothesis He : In e (alive_entries t).
  Hypothesis Hid : e_id e = id.
  (* neither older than 24 h (no shard of the repository is) nor conflicting with the index *)
  Hypothesis Hfresh : trash_drop d now id = false.
  Hypothesis Hun : ~ In id repos.

  Lemma trash_ref_is_t : forall s i, In s (group (tr d) i) -> s_base s = f_base t -> i = id.
  Proof.
    intros s i Hs Hb. apply in_group in Hs. destruct Hs as [Hs Hi].
    apply in_get_shards in Hs. destruct Hs as [t2 [e2 [Ht2 [He2 ->]]]]. simpl in *.
    assert (t2 = t) by (eapply NoDup_base_inj; eauto using wft_nodup). subst t2.
    rewrite <- Hi, <- Hid. eapply wft_single; eauto.
  Qed.

  Lemma plan_safeT : Forall (safeT (f_base t)) (plan d repos now sm).
  Proof.
    unfold plan. repeat rewrite Forall_app. repeat split.
    - apply Forall_forall. intros a Ha. unfold plan1 in Ha. apply in_flat_map in Ha. destruct Ha as [i [_ Ha]].
      apply in_app_or in Ha. destruct Ha as [Ha|Ha].
      + apply in_map_iff in Ha. destruct Ha as [s [<- _]]. exact I.
      + destruct (trash_drop d now i) eqn:TD; [|contradiction].
        apply in_map_iff in Ha. destruct Ha as [s [<- Hs]]. simpl. intros Hb.
        rewrite (trash_ref_is_t s i Hs Hb) in TD. congruence.
    - apply Forall_forall. intros a Ha. unfold plan3 in Ha. apply in_flat_map in Ha. destruct Ha as [i [_ Ha]].
      destruct (consistent (group (ix d) i)); [contradiction|].
      apply in_app_or in Ha. destruct Ha as [Ha|Ha]; apply in_map_iff in Ha; destruct Ha as [s [<- _]]; [exact I|].
      destruct (s_compound s); simpl; [discriminate|exact I].
    - apply Forall_forall. intros a Ha. unfold plan4 in Ha. apply in_flat_map in Ha. destruct Ha as [i [Hi Ha]].
      destruct (memN i (trash_keys d now)).
      + apply in_flat_map in Ha. destruct Ha as [s [Hs Ha]].
        assert (Hb : s_base s <> f_base t).
        { intros Hb. apply Hun. rewrite <- (trash_ref_is_t s i Hs Hb). exact Hi. }
        unfold move_to in Ha. simpl in Ha. destruct Ha as [<-|Ha]; [exact I|].
        destruct (s_compound s); simpl in Ha; destruct Ha as [<-|[]]; exact Hb.
      + destruct (memN i (tomb_keys d now)); [|contradiction].
        destruct (tomb_pick (tomb_candidates (d_index d) i)); [|contradiction].
        destruct Ha as [<-|[]]. exact I.
    - apply Forall_forall. intros a Ha. unfold plan5 in Ha. apply in_flat_map in Ha. destruct Ha as [i [_ Ha]].
      apply in_app_or in Ha. destruct Ha as [Ha|Ha].
      + apply in_map_iff in Ha. destruct Ha as [s [<- _]]. exact I.
      + apply in_app_or in Ha. destruct Ha as [Ha|Ha].
        * apply in_map_iff in Ha. destruct Ha as [s [<- _]]. exact I.
        * apply in_flat_map in Ha. destruct Ha as [s [Hs Ha]].
          (* removal of the destination before moving an index shard with the same name into the trash *)
          assert (Hdst : s_base s <> f_base t).
          { intros Hb. apply filter_In in Hs. destruct Hs as [Hs _].
            apply in_group in Hs. destruct Hs as [Hs _].
            apply in_get_shards in Hs. destruct Hs as [g [e2 [Hg [He2 ->]]]]. simpl in Hb.
            pose proof (wf_trash_names d Hwf t g e Ht Hg (eq_sym Hb) He) as Hin. rewrite Hid in Hin.
            unfold trash_drop in Hfresh. apply memN_In in Hin. unfold ix in Hfresh. rewrite Hin in Hfresh. discriminate. }
          unfold move_to in Ha. destruct (s_compound s); simpl in Ha.
          -- destruct Ha as [<-|[]]. simpl. intros _. exact Hdst.
          -- destruct Ha as [<-|[<-|[]]]; simpl; [exact Hdst|exact I].
    - constructor; [exact I|constructor].
  Qed.

  Theorem trash_kept :
    exists t', In t' (d_trash (cleanup d repos now sm)) /\ f_base t' = f_base t /\ f_repos t' = f_repos t.
  Proof.
    unfold cleanup. apply (fold_holds_trash now (f_base t) (f_repos t)).
    - exact plan_safeT.
    - exists t. auto.
  Qed.
End TrashKept.

(** the 24 h boundary is exact: a shard trashed exactly 24 h ago is not old, one second more is *)
Lemma trash_old_boundary : forall now s,
  trash_old now [s] = (s_mtime s <? now - 86400).
Proof. intros. unfold trash_old, day. simpl. apply orb_false_r. Qed.
