(** Copy-on-write of the published shard list (Model/RankedStore.v): a list header handed out by getLoaded reads
    the same elements for ever when every publication goes to a fresh backing array; with in-place reuse it does not. *)
From ZV Require Import Lib.Base Model.RankedStore.

Section Store.
  Context {A : Type}.
  Implicit Types (h : store A) (st : ranked_state A) (s : shdr) (v x : list A).

  Lemma read_app h h' s x : read h s = Some x -> read (h ++ h') s = Some x.
  Proof.
    unfold read. destruct (nth_error h (sl_addr s)) as [arr|] eqn:E; [|discriminate].
    rewrite nth_error_app1; [rewrite E; trivial|].
    apply nth_error_Some. rewrite E. discriminate.
  Qed.

  (** a search that calls getLoaded right after a publication sees exactly the published list *)
  Lemma read_publish_cow_new st v : read (rs_store (publish_cow st v)) (get_loaded (publish_cow st v)) = Some v.
  Proof.
    unfold publish_cow, get_loaded, read. simpl.
    rewrite nth_error_app2; [|apply Nat.le_refl]. rewrite Nat.sub_diag. simpl.
    rewrite Nat.leb_refl, firstn_all. reflexivity.
  Qed.

  Lemma read_publish_cow_old st v s x : read (rs_store st) s = Some x -> read (rs_store (publish_cow st v)) s = Some x.
  Proof. intros H. unfold publish_cow. simpl. apply read_app, H. Qed.

  (** whatever is published afterwards, a held header keeps reading what it read *)
  Lemma held_snapshot_immutable vs : forall st s x,
    read (rs_store st) s = Some x -> read (rs_store (publish_all st vs)) s = Some x.
  Proof.
    induction vs as [|v vs IH]; intros st s x H; simpl; [exact H|].
    apply IH, read_publish_cow_old, H.
  Qed.

  (** every header ever handed out reads, at the end, the value it was published with *)
  Lemma pub_trace_reads vs : forall st s v,
    In (s, v) (pub_trace st vs) -> read (rs_store (publish_all st vs)) s = Some v.
  Proof.
    induction vs as [|w vs IH]; intros st s v Hin; simpl in *; [contradiction|].
    destruct Hin as [E|Hin].
    - inversion E; subst. apply held_snapshot_immutable, read_publish_cow_new.
    - apply IH, Hin.
  Qed.

  Lemma pub_trace_values vs : forall st s v, In (s, v) (pub_trace st vs) -> In v vs.
  Proof.
    induction vs as [|w vs IH]; intros st s v Hin; simpl in *; [contradiction|].
    destruct Hin as [E|Hin]; [inversion E; left; reflexivity|right; eapply IH, Hin].
  Qed.

  Lemma publish_all_app st vs ws : publish_all st (vs ++ ws) = publish_all (publish_all st vs) ws.
  Proof. unfold publish_all. apply fold_left_app. Qed.

  Lemma pub_trace_app vs : forall st ws, pub_trace st (vs ++ ws) = pub_trace st vs ++ pub_trace (publish_all st vs) ws.
  Proof. induction vs as [|v vs IH]; intros st ws; simpl; [reflexivity|]. rewrite IH. reflexivity. Qed.
End Store.

(** In-place reuse of the previous list's storage breaks it (this is the "optimisation" replace must not make):
    a search holds [a1; b1; c1; d1]; shard a is replaced by a2 -> the held list shows a2; shard b is dropped -> the
    held list shows [a2; c1; d1; d1]: b is gone, d is searched twice. *)
Definition reuse_demo_held : shdr := get_loaded (publish_cow rs_init [11; 21; 31; 41]%N).
Lemma reuse_breaks_held_snapshot :
  let st0 := publish_cow rs_init [11; 21; 31; 41]%N in
  let st1 := publish_reuse st0 [12; 21; 31; 41]%N in
  let st2 := publish_reuse st1 [12; 31; 41]%N in
  read (rs_store st0) reuse_demo_held = Some [11; 21; 31; 41]%N /\
  read (rs_store st1) reuse_demo_held = Some [12; 21; 31; 41]%N /\
  read (rs_store st2) reuse_demo_held = Some [12; 31; 41; 41]%N /\
  read (rs_store st2) (get_loaded st2) = Some [12; 31; 41]%N.
Proof. vm_compute. repeat split. Qed.
