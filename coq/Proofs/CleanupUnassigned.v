(** C32, second theorem: after cleanup no unassigned repository is alive (searchable) in the index. *)
From ZV Require Import Lib.Base Model.Cleanup Proofs.CleanupProofs.
Open Scope Z_scope.

Definition has_alive (id : N) (g : file) : Prop := exists e, In e (alive_entries g) /\ e_id e = id.

Definition kills (id b : N) (a : act) : Prop :=
  a = RmIndex b \/ a = MvToTrash b \/ a = Tomb b id true \/ exists totr, a = TombOrRm b id totr.

(** actions that cannot make repository [id] alive in the index, given that every file (index or
    trash) in which it is alive has its base name in TB *)
Definition nr (id : N) (TB : list N) (a : act) : Prop :=
  match a with
  | Tomb _ id' false => id' <> id
  | MvToIndex b => ~ In b TB
  | _ => True
  end.

Definition Inv (id : N) (TB : list N) (x : dir) : Prop :=
  forall g, In g (d_index x ++ d_trash x) -> has_alive id g -> In (f_base g) TB.

Lemma in_rm : forall b g fs, In g (rm b fs) <-> In g fs /\ f_base g <> b.
Proof.
  intros. unfold rm. rewrite filter_In, negb_true_iff, N.eqb_neq. reflexivity.
Qed.

Lemma find_file_some : forall b fs g, find_file b fs = Some g -> In g fs /\ f_base g = b.
Proof.
  intros b fs g H. unfold find_file in H. apply find_some in H. destruct H as [A B].
  apply N.eqb_eq in B. auto.
Qed.

Lemma find_file_none : forall b fs g, find_file b fs = None -> In g fs -> f_base g <> b.
Proof.
  intros b fs g H Hin E. unfold find_file in H. eapply find_none in H; eauto.
  apply N.eqb_neq in H. contradiction.
Qed.

Lemma has_alive_set_flag : forall id id' flag g,
  has_alive id (set_flag id' flag g) -> (flag = false -> id' <> id) -> has_alive id g.
Proof.
  intros id id' flag g [e [He Hid]] Hnr. unfold alive_entries, set_flag in He. simpl in He.
  apply filter_In in He. destruct He as [He Ht]. apply in_map_iff in He. destruct He as [e0 [E He0]].
  destruct (N.eqb (e_id e0) id') eqn:E1.
  - subst e. simpl in *. apply N.eqb_eq in E1.
    destruct flag; [discriminate|]. exfalso. apply (Hnr eq_refl). congruence.
  - subst e0. exists e. split; [|exact Hid]. unfold alive_entries. apply filter_In. auto.
Qed.

Lemma has_alive_touch : forall now id g, has_alive id (touch now g) <-> has_alive id g.
Proof. intros. unfold has_alive, alive_entries, touch. simpl. reflexivity. Qed.

(** where a file with [id] alive in the new index comes from *)
Lemma index_origin : forall now id TB a x g',
  nr id TB a -> Inv id TB x ->
  In g' (d_index (apply now x a)) -> has_alive id g' ->
  exists g, In g (d_index x) /\ f_base g = f_base g' /\ has_alive id g.
Proof.
  intros now id TB a x g' Hnr HI Hin Ha.
  destruct a as [b|b|b id' flag|b id' totr|b|b|b|b|]; simpl in *.
  - apply in_rm in Hin. destruct Hin as [Hin _]. exists g'. auto.
  - exists g'. auto.
  - unfold on_file in Hin. apply in_map_iff in Hin. destruct Hin as [g [E Hg]].
    destruct (N.eqb (f_base g) b).
    + subst g'. exists g. repeat split; auto. eapply has_alive_set_flag; eauto.
      intros ->. exact Hnr.
    + subst g'. exists g. auto.
  - destruct (serves_others b id' (d_index x)); simpl in Hin.
    + unfold on_file in Hin. apply in_map_iff in Hin. destruct Hin as [g [E Hg]].
      destruct (N.eqb (f_base g) b).
      * subst g'. exists g. repeat split; auto. eapply has_alive_set_flag; eauto. discriminate.
      * subst g'. exists g. auto.
    + apply in_rm in Hin. destruct Hin as [Hin _]. exists g'. auto.
  - unfold on_file in Hin. apply in_map_iff in Hin. destruct Hin as [g [E Hg]].
    destruct (N.eqb (f_base g) b).
    + subst g'. exists g. repeat split; auto.
    + subst g'. exists g. auto.
  - exists g'. auto.
  - destruct (find_file b (d_index x)) as [h|] eqn:F; simpl in Hin.
    + apply in_rm in Hin. destruct Hin as [Hin _]. exists g'. auto.
    + exists g'. auto.
  - destruct (find_file b (d_trash x)) as [h|] eqn:F; simpl in Hin.
    + apply in_app_or in Hin. destruct Hin as [Hin|[<-|[]]].
      * exists g'. auto.
      * exfalso. apply find_file_some in F. destruct F as [Fi Fb].
        apply Hnr. rewrite <- Fb. apply HI; [apply in_or_app; right; exact Fi|exact Ha].
    + exists g'. auto.
  - exists g'. auto.
Qed.

Lemma inv_step : forall now id TB a x, nr id TB a -> Inv id TB x -> Inv id TB (apply now x a).
Proof.
  intros now id TB a x Hnr HI g' Hin Ha.
  assert (Old : forall g, In g (d_index x ++ d_trash x) -> f_base g = f_base g' -> has_alive id g -> In (f_base g') TB).
  { intros g Hg E Hga. rewrite <- E. apply HI; assumption. }
  destruct a as [b|b|b id' flag|b id' totr|b|b|b|b|]; simpl in *.
  - apply in_app_or in Hin. destruct Hin as [Hin|Hin].
    + apply in_rm in Hin. destruct Hin as [Hin _]. apply (Old g'); auto. apply in_or_app; auto.
    + apply (Old g'); auto. apply in_or_app; auto.
  - apply in_app_or in Hin. destruct Hin as [Hin|Hin].
    + apply (Old g'); auto. apply in_or_app; auto.
    + apply in_rm in Hin. destruct Hin as [Hin _]. apply (Old g'); auto. apply in_or_app; auto.
  - apply in_app_or in Hin. destruct Hin as [Hin|Hin].
    + unfold on_file in Hin. apply in_map_iff in Hin. destruct Hin as [g [E Hg]].
      destruct (N.eqb (f_base g) b); subst g'.
      * apply (Old g); [apply in_or_app; auto|reflexivity|]. eapply has_alive_set_flag; eauto. intros ->. exact Hnr.
      * apply (Old g); auto. apply in_or_app; auto.
    + apply (Old g'); auto. apply in_or_app; auto.
  - destruct (serves_others b id' (d_index x)); simpl in Hin.
    + apply in_app_or in Hin. destruct Hin as [Hin|Hin].
      * unfold on_file in Hin. apply in_map_iff in Hin. destruct Hin as [g [E Hg]].
        destruct (N.eqb (f_base g) b); subst g'.
        -- apply (Old g); [apply in_or_app; auto|reflexivity|]. eapply has_alive_set_flag; eauto. discriminate.
        -- apply (Old g); auto. apply in_or_app; auto.
      * apply (Old g'); auto. apply in_or_app; auto.
    + apply in_app_or in Hin. destruct Hin as [Hin|Hin].
      * apply in_rm in Hin. destruct Hin as [Hin _]. apply (Old g'); auto. apply in_or_app; auto.
      * destruct totr.
        -- apply in_rm in Hin. destruct Hin as [Hin _]. apply (Old g'); auto. apply in_or_app; auto.
        -- apply (Old g'); auto. apply in_or_app; auto.
  - apply in_app_or in Hin. destruct Hin as [Hin|Hin].
    + unfold on_file in Hin. apply in_map_iff in Hin. destruct Hin as [g [E Hg]].
      destruct (N.eqb (f_base g) b); subst g'.
      * apply (Old g); [apply in_or_app; auto|reflexivity|]. exact Ha.
      * apply (Old g); auto. apply in_or_app; auto.
    + apply (Old g'); auto. apply in_or_app; auto.
  - apply in_app_or in Hin. destruct Hin as [Hin|Hin].
    + apply (Old g'); auto. apply in_or_app; auto.
    + unfold on_file in Hin. apply in_map_iff in Hin. destruct Hin as [g [E Hg]].
      destruct (N.eqb (f_base g) b); subst g'.
      * apply (Old g); [apply in_or_app; auto|reflexivity|]. exact Ha.
      * apply (Old g); auto. apply in_or_app; auto.
  - destruct (find_file b (d_index x)) as [h|] eqn:F; simpl in Hin.
    + apply find_file_some in F. destruct F as [Fi _].
      apply in_app_or in Hin. destruct Hin as [Hin|Hin].
      * apply in_rm in Hin. destruct Hin as [Hin _]. apply (Old g'); auto. apply in_or_app; auto.
      * apply in_app_or in Hin. destruct Hin as [Hin|[<-|[]]].
        -- apply (Old g'); auto. apply in_or_app; auto.
        -- apply (Old h); auto. apply in_or_app; auto.
    + apply (Old g'); auto.
  - destruct (find_file b (d_trash x)) as [h|] eqn:F; simpl in Hin.
    + apply find_file_some in F. destruct F as [Fi _].
      apply in_app_or in Hin. destruct Hin as [Hin|Hin].
      * apply in_app_or in Hin. destruct Hin as [Hin|[<-|[]]].
        -- apply (Old g'); auto. apply in_or_app; auto.
        -- apply (Old h); auto. apply in_or_app; auto.
      * apply in_rm in Hin. destruct Hin as [Hin _]. apply (Old g'); auto. apply in_or_app; auto.
    + apply (Old g'); auto.
  - apply (Old g'); auto.
Qed.

(** a killing action leaves no file with that base name in which [id] is alive *)
Lemma kill_effective : forall now id b a x g',
  kills id b a -> In g' (d_index (apply now x a)) -> f_base g' = b -> ~ has_alive id g'.
Proof.
  intros now id b a x g' Hk Hin Hb Ha.
  assert (Tombed : forall fs, In g' (on_file b (set_flag id true) fs) -> False).
  { intros fs Hin'. unfold on_file in Hin'. apply in_map_iff in Hin'. destruct Hin' as [g [E Hg]].
    destruct (N.eqb (f_base g) b) eqn:Eb.
    + subst g'. destruct Ha as [e [He Hid]]. unfold alive_entries, set_flag in He. simpl in He.
      apply filter_In in He. destruct He as [He Ht]. apply in_map_iff in He. destruct He as [e0 [E He0]].
      destruct (N.eqb (e_id e0) id) eqn:E1.
      * subst e. discriminate.
      * subst e0. apply N.eqb_neq in E1. contradiction.
    + subst g'. apply N.eqb_neq in Eb. contradiction. }
  destruct Hk as [Hk|[Hk|[Hk|[totr Hk]]]]; subst a; simpl in Hin.
  - apply in_rm in Hin. destruct Hin as [_ Hne]. contradiction.
  - destruct (find_file b (d_index x)) as [h|] eqn:F; simpl in Hin.
    + apply in_rm in Hin. destruct Hin as [_ Hne]. contradiction.
    + eapply find_file_none in F; eauto.
  - eapply Tombed; eauto.
  - destruct (serves_others b id (d_index x)); simpl in Hin.
    + eapply Tombed; eauto.
    + apply in_rm in Hin. destruct Hin as [_ Hne]. contradiction.
Qed.

Lemma kill_all : forall now id TB acts x,
  Forall (nr id TB) acts -> Inv id TB x ->
  (forall g, In g (d_index x) -> has_alive id g -> exists a, In a acts /\ kills id (f_base g) a) ->
  forall g', In g' (d_index (fold_left (apply now) acts x)) -> ~ has_alive id g'.
Proof.
  intros now id TB acts. induction acts as [|a t IH]; intros x HF HI HK g' Hin Ha.
  - simpl in Hin. destruct (HK g' Hin Ha) as [a [[] _]].
  - simpl in Hin. inversion HF as [|? ? Hnr HF']; subst.
    revert g' Hin Ha. apply IH; [exact HF'|apply inv_step; assumption|].
    intros g1 Hin1 Ha1.
    destruct (index_origin now id TB a x g1 Hnr HI Hin1 Ha1) as [g [Hg [Eb Hga]]].
    destruct (HK g Hg Hga) as [a0 [[<-|Ha0] Hk]].
    + exfalso. rewrite Eb in Hk. eapply kill_effective; eauto.
    + exists a0. rewrite <- Eb. auto.
Qed.

(** ---- well-formedness needed here, in addition to [wf] *)
Record wf_trash (d : dir) : Prop := mkWfT {
  wft_nodup : NoDup (map f_base (d_trash d));
  (* a trashed shard serves one repository (moveAll never moves compound shards into the trash) *)
  wft_single : forall t e e', In t (d_trash d) -> In e (alive_entries t) -> In e' (alive_entries t) -> e_id e = e_id e'
}.

Section Unassigned.
  Variables (d : dir) (repos : list N) (now : Z) (sm : bool) (id : N).
  Hypothesis Hwf : wf d.
  Hypothesis Hwft : wf_trash d.
  Hypothesis Hun : ~ In id repos.

  Definition TB0 : list N := map f_base (filter (fun g => existsb (fun e => N.eqb (e_id e) id) (alive_entries g)) (d_index d ++ d_trash d)).

  Lemma TB0_spec : forall g, In g (d_index d ++ d_trash d) -> has_alive id g -> In (f_base g) TB0.
  Proof.
    intros g Hg [e [He Hid]]. unfold TB0. apply in_map. apply filter_In. split; [exact Hg|].
    apply existsb_exists. exists e. split; [exact He|apply N.eqb_eq; exact Hid].
  Qed.

  Lemma TB0_inv : forall b, In b TB0 -> exists g, In g (d_index d ++ d_trash d) /\ f_base g = b /\ has_alive id g.
  Proof.
    intros b Hb. unfold TB0 in Hb. apply in_map_iff in Hb. destruct Hb as [g [E Hg]].
    apply filter_In in Hg. destruct Hg as [Hg Hex]. apply existsb_exists in Hex. destruct Hex as [e [He Hid]].
    apply N.eqb_eq in Hid. exists g. repeat split; auto. exists e. auto.
  Qed.

  Lemma plan_nr : Forall (nr id TB0) (plan d repos now sm).
  Proof.
    unfold plan. repeat rewrite Forall_app. repeat split.
    - apply Forall_forall. intros a Ha. unfold plan1 in Ha. apply in_flat_map in Ha. destruct Ha as [i [_ Ha]].
      apply in_app_or in Ha. destruct Ha as [Ha|Ha].
      + apply in_map_iff in Ha. destruct Ha as [s [<- _]]. exact I.
      + destruct (trash_drop d now i); [|contradiction].
        apply in_map_iff in Ha. destruct Ha as [s [<- _]]. exact I.
    - apply Forall_forall. intros a Ha. unfold plan3 in Ha. apply in_flat_map in Ha. destruct Ha as [i [_ Ha]].
      destruct (consistent (group (ix d) i)); [contradiction|].
      apply in_app_or in Ha. destruct Ha as [Ha|Ha]; apply in_map_iff in Ha; destruct Ha as [s [<- _]]; [exact I|].
      destruct (s_compound s); exact I.
    - apply Forall_forall. intros a Ha. unfold plan4 in Ha. apply in_flat_map in Ha. destruct Ha as [i [Hi Ha]].
      assert (Hne : i <> id) by (intros ->; contradiction).
      destruct (memN i (trash_keys d now)) eqn:TK.
      + apply in_flat_map in Ha. destruct Ha as [s [Hs Ha]].
        unfold move_to in Ha. simpl in Ha. destruct Ha as [<-|Ha]; [exact I|].
        destruct (s_compound s); simpl in Ha; destruct Ha as [<-|[]]; [exact I|]. simpl.
        (* MvToIndex (s_base s): the trashed shard of assigned repository i is not a file of [id] *)
        intros HTB. apply TB0_inv in HTB. destruct HTB as [g [Hg [Eb Hga]]].
        apply in_group in Hs. destruct Hs as [Hs Hid].
        apply in_get_shards in Hs. destruct Hs as [t [e' [Ht [He' ->]]]]. simpl in *.
        apply in_app_or in Hg. destruct Hg as [Hg|Hg].
        * pose proof (wf_trash_names d Hwf t g e' Ht Hg (eq_sym Eb) He') as Hin. rewrite Hid in Hin.
          apply memN_In in TK. unfold trash_keys in TK. apply filter_In in TK. destruct TK as [_ TK].
          unfold trash_drop in TK. apply memN_In in Hin. unfold ix in TK. rewrite Hin in TK. discriminate.
        * assert (g = t) by (eapply NoDup_base_inj; eauto using wft_nodup). subst g.
          destruct Hga as [e2 [He2 Hid2]]. apply Hne. rewrite <- Hid, <- Hid2.
          eapply wft_single; eauto.
      + destruct (memN i (tomb_keys d now)); [|contradiction].
        destruct (tomb_pick (tomb_candidates (d_index d) i)); [|contradiction].
        destruct Ha as [<-|[]]. simpl. exact Hne.
    - apply Forall_forall. intros a Ha. unfold plan5 in Ha. apply in_flat_map in Ha. destruct Ha as [i [_ Ha]].
      apply in_app_or in Ha. destruct Ha as [Ha|Ha].
      + apply in_map_iff in Ha. destruct Ha as [s [<- _]]. exact I.
      + apply in_app_or in Ha. destruct Ha as [Ha|Ha].
        * apply in_map_iff in Ha. destruct Ha as [s [<- _]]. exact I.
        * apply in_flat_map in Ha. destruct Ha as [s [_ Ha]].
          unfold move_to in Ha. destruct (s_compound s); simpl in Ha.
          -- destruct Ha as [<-|[]]. exact I.
          -- destruct Ha as [<-|[<-|[]]]; exact I.
    - constructor; [exact I|constructor].
  Qed.

  Lemma plan_kills : forall g, In g (d_index d) -> has_alive id g ->
    exists a, In a (plan d repos now sm) /\ kills id (f_base g) a.
  Proof.
    intros g Hg [e [He Hid]].
    set (s := mkS (e_id e) (e_name e) (f_base g) (f_compound g) (f_mtime g)).
    assert (Hs : In s (group (ix d) id)).
    { apply in_group. split; [|exact Hid]. apply in_get_shards. exists g, e. auto. }
    assert (Hix : In id (ids_of (ix d))).
    { apply in_ids_of. exists s. split; [|exact Hid]. apply in_group in Hs. tauto. }
    destruct (consistent (group (ix d) id)) eqn:C.
    - (* handled as an unassigned repository *)
      assert (K4 : In id (keys4 d repos)).
      { unfold keys4, keys3. apply filter_In. split.
        - apply filter_In. split; [exact Hix|exact C].
        - apply negb_true_iff. destruct (memN id repos) eqn:M; [|reflexivity].
          apply memN_In in M. contradiction. }
      destruct (sm && s_compound s) eqn:B.
      + exists (Tomb (f_base g) id true). split; [|right; right; left; reflexivity].
        unfold plan. apply in_or_app. right. apply in_or_app. right. apply in_or_app. right. apply in_or_app. left.
        unfold plan5. apply in_flat_map. exists id. split; [exact K4|].
        apply in_or_app. right. apply in_or_app. left.
        apply in_map_iff. exists s. split; [reflexivity|]. apply filter_In. split; [exact Hs|exact B].
      + exists (if s_compound s then TombOrRm (f_base g) id true else MvToTrash (f_base g)). split.
        * unfold plan. apply in_or_app. right. apply in_or_app. right. apply in_or_app. right. apply in_or_app. left.
          unfold plan5. apply in_flat_map. exists id. split; [exact K4|].
          apply in_or_app. right. apply in_or_app. right.
          apply in_flat_map. exists s. split; [apply filter_In; split; [exact Hs|rewrite B; reflexivity]|].
          unfold move_to. destruct (s_compound s); [left; reflexivity|right; left; reflexivity].
        * destruct (s_compound s); [right; right; right; exists true; reflexivity|right; left; reflexivity].
    - (* purged as a renamed repository *)
      destruct (sm && s_compound s) eqn:B.
      + exists (Tomb (f_base g) id true). split; [|right; right; left; reflexivity].
        unfold plan. apply in_or_app. right. apply in_or_app. left.
        unfold plan3. apply in_flat_map. exists id. split; [exact Hix|]. rewrite C.
        apply in_or_app. left. apply in_map_iff. exists s. split; [reflexivity|].
        apply filter_In. split; [exact Hs|exact B].
      + exists (if s_compound s then TombOrRm (f_base g) id false else RmIndex (f_base g)). split.
        * unfold plan. apply in_or_app. right. apply in_or_app. left.
          unfold plan3. apply in_flat_map. exists id. split; [exact Hix|]. rewrite C.
          apply in_or_app. right. apply in_map_iff. exists s. split; [reflexivity|].
          apply filter_In. split; [exact Hs|rewrite B; reflexivity].
        * destruct (s_compound s); [right; right; right; exists false; reflexivity|left; reflexivity].
  Qed.

  Theorem unassigned_not_alive_after :
    forall g e, In g (d_index (cleanup d repos now sm)) -> In e (alive_entries g) -> e_id e <> id.
  Proof.
    intros g e Hg He Hid.
    refine (kill_all now id TB0 (plan d repos now sm) d plan_nr _ plan_kills g Hg _).
    - intros h Hh Hha. apply TB0_spec; assumption.
    - exists e. auto.
  Qed.
End Unassigned.
