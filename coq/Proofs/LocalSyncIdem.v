(** C33: idempotence of sync — after a successful forced run a second preview announces nothing. *)
From ZV Require Import Lib.Base Model.LocalSync Proofs.LocalSync Proofs.LocalSyncConv.

(** planPrune looks repositories up by NORMALISED source (a final ".git" component dropped) in a map where a later
    spec overwrites an earlier one: the discovered repositories must not collide there. *)
Definition distinct_sources (specs : list spec) : Prop :=
  NoDup (map (fun s => normalize_source (sp_source s)) specs).

Lemma nodup_map_inj {A B} (f : A -> B) : forall l a b, NoDup (map f l) -> In a l -> In b l -> f a = f b -> a = b.
Proof.
  induction l as [|x l IH]; intros a b Hnd Ha Hb E; [contradiction|].
  cbn in Hnd. inversion Hnd as [|? ? Hnin Hnd']; subst.
  destruct Ha as [<-|Ha], Hb as [<-|Hb]; auto.
  - exfalso. apply Hnin. rewrite E. apply in_map. exact Hb.
  - exfalso. apply Hnin. rewrite <- E. apply in_map. exact Ha.
Qed.

Lemma lookup_source_unique specs s : distinct_sources specs -> In s specs ->
  lookup_source specs (normalize_source (sp_source s)) = Some s.
Proof.
  intros Hd Hin. unfold lookup_source.
  destruct (find (fun d => str_eqb (normalize_source (sp_source d)) (normalize_source (sp_source s))) (rev specs)) as [d|] eqn:E.
  - apply find_some in E as [Hdin Hsrc]. apply in_rev in Hdin. apply ls_str_eqb_eq in Hsrc.
    f_equal. apply (nodup_map_inj _ specs d s Hd Hdin Hin Hsrc).
  - exfalso. pose proof (find_none _ _ E s) as Hn. cbn in Hn.
    rewrite ls_str_eqb_refl in Hn. specialize (Hn (proj1 (in_rev _ _) Hin)). discriminate.
Qed.

Lemma plan_prune_nil specs inv : (forall sh, In sh inv -> prune_action specs sh = None) -> plan_prune specs inv = [].
Proof.
  unfold plan_prune. induction inv as [|sh inv IH]; intros H; cbn; [reflexivity|].
  rewrite (H sh (or_introl eq_refl)). apply IH. intros x Hx. apply H. right. exact Hx.
Qed.

Definition utd_line (s : spec) : line := LUpToDate (sp_name s) (sp_source s).

Lemma index_repos_dry_all_up_to_date w inv : forall specs,
  (forall s, In s specs -> exists fp, fp_of w (sp_source s) = Some fp /\ needs_index (sp_name s) fp inv = false) ->
  index_repos Dry w [] specs inv = ([], map utd_line specs, false).
Proof.
  induction specs as [|s specs IH]; intros H; [reflexivity|].
  cbn [index_repos]. destruct (H s (or_introl eq_refl)) as (fp & Efp & Eni). rewrite Efp.
  rewrite IH by (intros x Hx; apply H; right; exact Hx).
  unfold dry_decision. rewrite Eni. cbn [existsb]. rewrite Bool.andb_false_r. cbn. reflexivity.
Qed.

(** The state after a successful forced sync on a well-formed index, looked at by the same command without -f:
    every discovered repository is reported "Up to date", in discovery order, nothing else is printed but the
    closing hint, and the status is success. *)
Theorem sync_second_preview : forall tree w roots inv specs,
  wf inv -> discover tree roots = Ok specs -> distinct_sources specs ->
  r_status (run_sync Force tree w roots inv) = 0%N ->
  let inv' := apply_ops inv (r_ops (run_sync Force tree w roots inv)) in
  r_out (run_sync Dry tree w roots inv') = map utd_line specs ++ [LPassF] /\
  r_status (run_sync Dry tree w roots inv') = 0%N /\
  r_ops (run_sync Dry tree w roots inv') = [].
Proof.
  intros tree w roots inv specs Hwf Ed Hds Hst inv'.
  destruct (sync_force_converges tree w roots inv Hwf Hst) as (specs' & Ed' & Hc).
  rewrite Ed in Ed'. inversion Ed'; subst specs'. clear Ed'. cbn zeta in Hc. fold inv' in Hc.
  destruct Hc as (Hwf' & Hhas & Hall).
  assert (Hnd : NoDup (map sp_name specs)) by (apply (discover_nodup _ _ _ Ed)).
  assert (Hbad : existsb sh_bad inv' = false).
  { destruct (existsb sh_bad inv') eqn:E; [|reflexivity]. apply existsb_exists in E as (sh & Hin & Hb).
    destruct (Hall sh Hin) as (s & _ & _ & _ & _ & _ & Hg). congruence. }
  assert (Hplan : plan_prune specs inv' = []).
  { apply plan_prune_nil. intros sh Hin. destruct (Hall sh Hin) as (s & Hs & Hrepo & _ & Hsrc & _ & _).
    unfold prune_action. rewrite Hsrc, (lookup_source_unique specs s Hds Hs), Hrepo, ls_str_eqb_refl. reflexivity. }
  assert (Hidx : index_repos Dry w [] specs inv' = ([], map utd_line specs, false)).
  { apply index_repos_dry_all_up_to_date. intros s Hs.
    pose proof (Hhas s Hs) as H0. unfold has_file in H0.
    destruct (find_file (sp_name s, 0) inv') as [sh|] eqn:Ef; [|discriminate].
    destruct (find_file_some _ _ _ Ef) as [Hin Hf].
    destruct (Hall sh Hin) as (s' & Hs' & Hrepo & Hfile & _ & Hfp & _).
    assert (s' = s).
    { apply (nodup_map_inj sp_name specs s' s Hnd Hs' Hs). rewrite <- Hfile, Hf. reflexivity. }
    subst s'. exists (sh_fp sh). split; [exact Hfp|].
    unfold needs_index. rewrite Ef, Hrepo, ls_str_eqb_refl, N.eqb_refl. reflexivity. }
  unfold run_sync. rewrite Ed. unfold read_inventory. rewrite Hbad. rewrite Hplan. cbn [apply_removals map apply_ops fold_left].
  rewrite Hidx. cbn. auto.
Qed.

Lemma ann_utd_lines specs : announced_up_to_date (map utd_line specs ++ [LPassF]) = map sp_name specs.
Proof. induction specs as [|s l IH]; cbn; [reflexivity|]. f_equal. exact IH. Qed.
Lemma ann_rem_lines specs : announced_removals (map utd_line specs ++ [LPassF]) = [].
Proof. induction specs as [|s l IH]; cbn; [reflexivity|exact IH]. Qed.
Lemma ann_idx_lines specs : announced_indexing (map utd_line specs ++ [LPassF]) = [].
Proof. induction specs as [|s l IH]; cbn; [reflexivity|exact IH]. Qed.

(** preview; -f; preview on the same state.  The first preview performs no operation, so the forced run starts from
    [inv]; after it succeeded the second preview announces no removal and no indexing: all discovered repositories
    are "Up to date" — and, by faithfulness, a second forced run would perform nothing. *)
Theorem sync_idempotent : forall tree w roots inv specs,
  wf inv -> discover tree roots = Ok specs -> distinct_sources specs ->
  let inv0 := apply_ops inv (r_ops (run_sync Dry tree w roots inv)) in
  let f := run_sync Force tree w roots inv0 in
  r_status f = 0%N ->
  let inv' := apply_ops inv0 (r_ops f) in
  let d2 := run_sync Dry tree w roots inv' in
  inv0 = inv /\
  announced_removals (r_out d2) = [] /\ announced_indexing (r_out d2) = [] /\
  announced_up_to_date (r_out d2) = map sp_name specs /\ r_status d2 = 0%N /\
  shard_ops (r_ops (run_sync Force tree w roots inv')) = [].
Proof.
  intros tree w roots inv specs Hwf Ed Hds inv0.
  assert (E0 : inv0 = inv) by (unfold inv0; rewrite run_sync_dry_ops; reflexivity).
  rewrite E0. intros f Hst inv' d2.
  destruct (sync_second_preview tree w roots inv specs Hwf Ed Hds Hst) as (Hout & Hs2 & _).
  subst d2 inv' f. cbv zeta in Hout, Hs2.
  split; [reflexivity|]. rewrite Hout, ann_rem_lines, ann_idx_lines, ann_utd_lines.
  repeat split; auto.
  pose proof (announce_faithful tree w (CSync roots) (apply_ops inv (r_ops (run_sync Force tree w roots inv)))) as Hf.
  cbv zeta in Hf. cbn [run] in Hf.
  destruct Hf as (Hr & Hi & _ & _). rewrite Hout, ann_rem_lines in Hr. rewrite Hout, ann_idx_lines in Hi.
  clear -Hr Hi. induction (r_ops (run_sync Force tree w roots (apply_ops inv (r_ops (run_sync Force tree w roots inv))))) as [|o ops IH]; [reflexivity|].
  destruct o; cbn in Hr, Hi |- *; try discriminate; apply IH; assumption.
Qed.

(** ---- the hypothesis [distinct_sources] is needed: a root that is itself a directory called ".git" (here it even
    holds another ".git", so that it counts as a working tree named ".git") next to the working tree around it:
    two discovered repositories, different names, different sources, but ONE normalised source.  The forced run
    indexes both; the next preview (and every later one) announces the removal and the re-indexing of ".git". *)
Definition twin_a : str := [97]%N.
Definition twin_r1 : str := [114;49]%N.
Definition twin_tree : node :=
  NDir [ (twin_r1, NDir [ (twin_a, NDir [ (dot_git, NDir [ (dot_git, NDir []) ]) ]) ]) ].
Definition twin_roots : list (list str) := [ [twin_r1; twin_a]; [twin_r1; twin_a; dot_git] ].
Definition twin_src_a : str := abs_path [twin_r1; twin_a].
Definition twin_src_g : str := abs_path [twin_r1; twin_a; dot_git].
Definition twin_world : world_fp := [ (twin_src_a, Some 1%N); (twin_src_g, Some 2%N) ].

Lemma sync_idempotent_needs_distinct_sources_w :
  let f := run_sync Force twin_tree twin_world twin_roots [] in
  let inv' := apply_ops [] (r_ops f) in
  discover twin_tree twin_roots = Ok [ mkSpec dot_git twin_src_g; mkSpec twin_a twin_src_a ] /\
  r_status f = 0%N /\
  announced_removals (r_out (run_sync Dry twin_tree twin_world twin_roots inv')) = [ (dot_git, 0) ] /\
  announced_indexing (r_out (run_sync Dry twin_tree twin_world twin_roots inv')) = [ dot_git ].
Proof. vm_compute. repeat split; reflexivity. Qed.

(** ---- non-vacuity of [sync_idempotent]: the moved-repository state of Proofs/LocalSync.v *)
Lemma moved_distinct_sources : forall specs, discover moved_tree moved_roots = Ok specs -> distinct_sources specs.
Proof.
  intros specs H. vm_compute in H. inversion H; subst. unfold distinct_sources. cbn [map sp_source].
  repeat constructor; cbn; intuition discriminate.
Qed.
Lemma moved_inv_wf : wf moved_inv.
Proof.
  constructor.
  - cbn. repeat constructor. intros [].
  - intros sh [<-|[]]. reflexivity.
  - intros a b [<-|[]] [<-|[]] _. split; reflexivity.
  - intros n k H. apply has_file_in in H as (sh & [<-|[]] & Hf). discriminate.
Qed.

(** ---- remove alone (instance of [announce_faithful]) *)
Lemma run_remove_no_index m sels inv : performed_indexing (r_ops (run_remove m sels inv)) = [] /\
  announced_indexing (r_out (run_remove m sels inv)) = [].
Proof.
  unfold run_remove. destruct (read_inventory inv) as [shards|e|e]; [|destruct m; split; reflexivity..].
  destruct (select_records (records shards) sels) as [sel|e|e]; [|destruct m; split; reflexivity..].
  generalize (remove_actions sel shards). intros acts. destruct m; cbn.
  - split; [reflexivity|]. induction acts as [|a l IH]; cbn; [reflexivity|exact IH].
  - split; [|induction acts as [|a l IH]; cbn; [reflexivity|exact IH]].
    induction acts as [|a l IH]; cbn; [reflexivity|exact IH].
Qed.

Theorem remove_announce_faithful : forall sels inv,
  let d := run_remove Dry sels inv in
  let f := run_remove Force sels inv in
  r_ops d = [] /\
  announced_removals (r_out d) = performed_removals (r_ops f) /\
  announced_indexing (r_out d) = [] /\ performed_indexing (r_ops f) = [] /\
  r_status d = r_status f.
Proof.
  intros sels inv. cbv zeta.
  pose proof (announce_faithful (NDir []) [] (CRemove sels) inv) as H. cbv zeta in H. cbn [run] in H.
  destruct H as (Hr & _ & _ & Hs).
  split; [apply run_remove_dry_ops|]. split; [exact Hr|].
  split; [apply (run_remove_no_index Dry)|]. split; [apply (run_remove_no_index Force)|exact Hs].
Qed.
