(** C33: idempotence of sync — after a successful forced run a second preview announces nothing. *)
From ZV Require Import Lib.Base Model.LocalSync Proofs.LocalSync Proofs.LocalSyncConv Proofs.LocalSyncPartial Proofs.LocalSyncDup.

(** planPrune looks repositories up by NORMALISED source (a final ".git" component dropped) in a map where a later
    spec overwrites an earlier one: the discovered repositories must not collide there. *)
Definition distinct_sources (specs : list spec) : Prop :=
  NoDup (map (fun s => normalize_source (sp_source s)) specs).

Lemma nodup_map_inj {A B} (f : A -> B) : forall l a b, NoDup (map f l) -> In a l -> In b l -> f a = f b -> a = b.
Proof.
  induction l as [|x l IH]; intros a b Hnd Ha Hb E; [contradiction|].
  cbn in Hnd. inversion Hnd as [|? ? Hnin Hnd']; subst.
  destruct Ha as [<-|Ha], Hb as [<-|Hb]; auto.
  - exfalso. apply Hnin. rewrite E. apply in_map. exact Hb.
  - exfalso. apply Hnin. rewrite <- E. apply in_map. exact Ha.
Qed.

Lemma lookup_source_unique specs s : distinct_sources specs -> In s specs ->
  lookup_source specs (normalize_source (sp_source s)) = Some s.
Proof.
  intros Hd Hin. unfold lookup_source.
  destruct (find (fun d => str_eqb (normalize_source (sp_source d)) (normalize_source (sp_source s))) (rev specs)) as [d|] eqn:E.
  - apply find_some in E as [Hdin Hsrc]. apply in_rev in Hdin. apply ls_str_eqb_eq in Hsrc.
    f_equal. apply (nodup_map_inj _ specs d s Hd Hdin Hin Hsrc).
  - exfalso. pose proof (find_none _ _ E s) as Hn. cbn in Hn.
    rewrite ls_str_eqb_refl in Hn. specialize (Hn (proj1 (in_rev _ _) Hin)). discriminate.
Qed.

Lemma plan_prune_nil specs inv : (forall sh, In sh inv -> prune_action specs sh = None) -> plan_prune specs inv = [].
Proof.
  unfold plan_prune. induction inv as [|sh inv IH]; intros H; cbn; [reflexivity|].
  rewrite (H sh (or_introl eq_refl)). apply IH. intros x Hx. apply H. right. exact Hx.
Qed.

Definition utd_line (s : spec) : line := LUpToDate (sp_name s) (sp_source s).

Lemma index_repos_dry_all_up_to_date w inv : forall specs,
  (forall s, In s specs -> exists fp, fp_of w (sp_source s) = Some fp /\ needs_index (sp_name s) fp inv = false) ->
  index_repos Dry w [] specs inv = ([], map utd_line specs, false).
Proof.
  induction specs as [|s specs IH]; intros H; [reflexivity|].
  cbn [index_repos]. destruct (H s (or_introl eq_refl)) as (fp & Efp & Eni). rewrite Efp.
  rewrite IH by (intros x Hx; apply H; right; exact Hx).
  unfold dry_decision. rewrite Eni. cbn [existsb]. rewrite Bool.andb_false_r. cbn. reflexivity.
Qed.

(** The state after a successful forced sync on a well-formed index, looked at by the same command without -f:
    every discovered repository is reported "Up to date", in discovery order, nothing else is printed but the
    closing hint, and the status is success. *)
Theorem sync_second_preview : forall tree w roots inv specs,
  wf inv -> discover tree roots = Ok specs -> distinct_sources specs ->
  r_status (run_sync Force tree w roots inv) = 0%N ->
  let inv' := apply_ops inv (r_ops (run_sync Force tree w roots inv)) in
  r_out (run_sync Dry tree w roots inv') = map utd_line specs ++ [LPassF] /\
  r_status (run_sync Dry tree w roots inv') = 0%N /\
  r_ops (run_sync Dry tree w roots inv') = [].
Proof.
  intros tree w roots inv specs Hwf Ed Hds Hst inv'.
  destruct (sync_force_converges tree w roots inv Hwf Hst) as (specs' & Ed' & Hc).
  rewrite Ed in Ed'. inversion Ed'; subst specs'. clear Ed'. cbn zeta in Hc. fold inv' in Hc.
  destruct Hc as (Hwf' & Hhas & Hall).
  assert (Hnd : NoDup (map sp_name specs)) by (apply (discover_nodup _ _ _ Ed)).
  assert (Hbad : existsb sh_bad inv' = false).
  { destruct (existsb sh_bad inv') eqn:E; [|reflexivity]. apply existsb_exists in E as (sh & Hin & Hb).
    destruct (Hall sh Hin) as (s & _ & _ & _ & _ & _ & Hg). congruence. }
  assert (Hplan : plan_prune specs inv' = []).
  { apply plan_prune_nil. intros sh Hin. destruct (Hall sh Hin) as (s & Hs & Hrepo & _ & Hsrc & _ & _).
    unfold prune_action. rewrite Hsrc, (lookup_source_unique specs s Hds Hs), Hrepo, ls_str_eqb_refl. reflexivity. }
  assert (Hidx : index_repos Dry w [] specs inv' = ([], map utd_line specs, false)).
  { apply index_repos_dry_all_up_to_date. intros s Hs.
    pose proof (Hhas s Hs) as H0. unfold has_file in H0.
    destruct (find_file (sp_name s, 0) inv') as [sh|] eqn:Ef; [|discriminate].
    destruct (find_file_some _ _ _ Ef) as [Hin Hf].
    destruct (Hall sh Hin) as (s' & Hs' & Hrepo & Hfile & _ & Hfp & _).
    assert (s' = s).
    { apply (nodup_map_inj sp_name specs s' s Hnd Hs' Hs). rewrite <- Hfile, Hf. reflexivity. }
    subst s'. exists (sh_fp sh). split; [exact Hfp|].
    unfold needs_index. rewrite Ef, Hrepo, ls_str_eqb_refl, N.eqb_refl. reflexivity. }
  unfold run_sync. rewrite Ed. unfold read_inventory. rewrite Hbad. rewrite Hplan. cbn [apply_removals map apply_ops fold_left].
  rewrite Hidx. cbn. auto.
Qed.

Lemma ann_utd_lines specs : announced_up_to_date (map utd_line specs ++ [LPassF]) = map sp_name specs.
Proof. induction specs as [|s l IH]; cbn; [reflexivity|]. f_equal. exact IH. Qed.
Lemma ann_rem_lines specs : announced_removals (map utd_line specs ++ [LPassF]) = [].
Proof. induction specs as [|s l IH]; cbn; [reflexivity|exact IH]. Qed.
Lemma ann_idx_lines specs : announced_indexing (map utd_line specs ++ [LPassF]) = [].
Proof. induction specs as [|s l IH]; cbn; [reflexivity|exact IH]. Qed.

(** preview; -f; preview on the same state.  The first preview performs no operation, so the forced run starts from
    [inv]; after it succeeded the second preview announces no removal and no indexing: all discovered repositories
    are "Up to date" — and, by faithfulness, a second forced run would perform nothing. *)
Theorem sync_idempotent : forall tree w roots inv specs,
  wf inv -> discover tree roots = Ok specs -> distinct_sources specs ->
  let inv0 := apply_ops inv (r_ops (run_sync Dry tree w roots inv)) in
  let f := run_sync Force tree w roots inv0 in
  r_status f = 0%N ->
  let inv' := apply_ops inv0 (r_ops f) in
  let d2 := run_sync Dry tree w roots inv' in
  inv0 = inv /\
  announced_removals (r_out d2) = [] /\ announced_indexing (r_out d2) = [] /\
  announced_up_to_date (r_out d2) = map sp_name specs /\ r_status d2 = 0%N /\
  shard_ops (r_ops (run_sync Force tree w roots inv')) = [].
Proof.
  intros tree w roots inv specs Hwf Ed Hds inv0.
  assert (E0 : inv0 = inv) by (unfold inv0; rewrite run_sync_dry_ops; reflexivity).
  rewrite E0. intros f Hst inv' d2.
  destruct (sync_second_preview tree w roots inv specs Hwf Ed Hds Hst) as (Hout & Hs2 & _).
  subst d2 inv' f. cbv zeta in Hout, Hs2.
  split; [reflexivity|]. rewrite Hout, ann_rem_lines, ann_idx_lines, ann_utd_lines.
  repeat split; auto.
  pose proof (announce_faithful tree w (CSync roots) (apply_ops inv (r_ops (run_sync Force tree w roots inv)))) as Hf.
  cbv zeta in Hf. cbn [run] in Hf.
  destruct Hf as (Hr & Hi & _ & _). rewrite Hout, ann_rem_lines in Hr. rewrite Hout, ann_idx_lines in Hi.
  clear -Hr Hi. induction (r_ops (run_sync Force tree w roots (apply_ops inv (r_ops (run_sync Force tree w roots inv))))) as [|o ops IH]; [reflexivity|].
  destruct o; cbn in Hr, Hi |- *; try discriminate; apply IH; assumption.
Qed.

(** ---- [distinct_sources] holds for every successful discovery since fix 94727cf in /repo (discoverRepositories keys
    its seen-sources map by the NORMALISED source, like planPrune): Proofs/LocalSyncDup.v [discover_ok_distinct_sources].
    Before that fix a root that is itself a directory called ".git" holding another ".git", given next to the working
    tree around it, produced two repositories with one normalised source and sync -f never converged. *)
Lemma discover_distinct_sources tree roots specs : discover tree roots = Ok specs -> distinct_sources specs.
Proof. exact (discover_ok_distinct_sources tree roots specs). Qed.

(** ---- non-vacuity of [sync_idempotent]: the moved-repository state of Proofs/LocalSync.v *)
Lemma moved_inv_wf : wf moved_inv.
Proof.
  constructor.
  - cbn. repeat constructor. intros [].
  - intros sh [<-|[]]. reflexivity.
  - intros a b [<-|[]] [<-|[]] _. split; reflexivity.
  - intros n k H. apply has_file_in in H as (sh & [<-|[]] & Hf). discriminate.
Qed.

(** ---- remove alone (instance of [announce_faithful]) *)
Lemma run_remove_no_index m sels inv : performed_indexing (r_ops (run_remove m sels inv)) = [] /\
  announced_indexing (r_out (run_remove m sels inv)) = [].
Proof.
  unfold run_remove. destruct (read_inventory inv) as [shards|e|e]; [|destruct m; split; reflexivity..].
  destruct (select_records (records shards) sels) as [sel|e|e]; [|destruct m; split; reflexivity..].
  generalize (remove_actions sel shards). intros acts. destruct m; cbn.
  - split; [reflexivity|]. induction acts as [|a l IH]; cbn; [reflexivity|exact IH].
  - split; [|induction acts as [|a l IH]; cbn; [reflexivity|exact IH]].
    induction acts as [|a l IH]; cbn; [reflexivity|exact IH].
Qed.

Theorem remove_announce_faithful : forall sels inv,
  let d := run_remove Dry sels inv in
  let f := run_remove Force sels inv in
  r_ops d = [] /\
  announced_removals (r_out d) = performed_removals (r_ops f) /\
  announced_indexing (r_out d) = [] /\ performed_indexing (r_ops f) = [] /\
  r_status d = r_status f.
Proof.
  intros sels inv. cbv zeta.
  pose proof (announce_faithful (NDir []) [] (CRemove sels) inv) as H. cbv zeta in H. cbn [run] in H.
  destruct H as (Hr & _ & _ & Hs).
  split; [apply run_remove_dry_ops|]. split; [exact Hr|].
  split; [apply (run_remove_no_index Dry)|]. split; [apply (run_remove_no_index Force)|exact Hs].
Qed.

(** ---- idempotence whatever the status of the forced run (some repositories cannot be indexed: E_INDEX) *)
Definition indexable (w : world_fp) (s : spec) : bool :=
  match fp_of w (sp_source s) with Some _ => true | None => false end.

Lemma index_repos_force_failed w pruned : forall specs inv,
  ir_failed (index_repos Force w pruned specs inv) = existsb (fun s => negb (indexable w s)) specs.
Proof.
  induction specs as [|s specs IH]; intros inv; [reflexivity|].
  cbn [index_repos existsb]. destruct (fp_of w (sp_source s)) as [fp|] eqn:Efp.
  - assert (Hi : indexable w s = true) by (unfold indexable; rewrite Efp; reflexivity). rewrite Hi. cbn [negb orb].
    destruct (needs_index (sp_name s) fp inv).
    + specialize (IH (apply_op inv (OpBuild (sp_name s) (sp_source s) fp))).
      destruct (index_repos Force w pruned specs _) as [[ops out] e]. cbn in IH |- *. exact IH.
    + specialize (IH inv). destruct (index_repos Force w pruned specs inv) as [[ops out] e]. cbn in IH |- *. exact IH.
  - assert (Hi : indexable w s = false) by (unfold indexable; rewrite Efp; reflexivity). rewrite Hi.
    destruct (index_repos Force w pruned specs inv) as [[ops out] e]. reflexivity.
Qed.

Lemma index_repos_dry_settled w inv : forall specs,
  (forall s fp, In s specs -> fp_of w (sp_source s) = Some fp -> needs_index (sp_name s) fp inv = false) ->
  index_repos Dry w [] specs inv =
    ([], map utd_line (filter (indexable w) specs), existsb (fun s => negb (indexable w s)) specs).
Proof.
  induction specs as [|s specs IH]; intros H; [reflexivity|].
  cbn [index_repos filter existsb].
  rewrite IH by (intros x fp Hx; apply H; right; exact Hx).
  destruct (fp_of w (sp_source s)) as [fp|] eqn:Efp.
  - assert (Hi : indexable w s = true) by (unfold indexable; rewrite Efp; reflexivity). rewrite Hi.
    unfold dry_decision. rewrite (H s fp (or_introl eq_refl) Efp). cbn [existsb]. rewrite Bool.andb_false_r. reflexivity.
  - assert (Hi : indexable w s = false) by (unfold indexable; rewrite Efp; reflexivity). rewrite Hi. reflexivity.
Qed.

Lemma run_sync_force_status tree w roots inv specs :
  discover tree roots = Ok specs -> existsb sh_bad inv = false ->
  r_status (run_sync Force tree w roots inv) = if existsb (fun s => negb (indexable w s)) specs then E_INDEX else 0%N.
Proof.
  intros Ed Eb. unfold run_sync. rewrite Ed. unfold read_inventory. rewrite Eb. cbn [apply_removals].
  pose proof (index_repos_force_failed w (map a_file (plan_prune specs inv)) specs
     (apply_ops inv (map (fun a => OpRemoveShard (a_file a)) (plan_prune specs inv)))) as Hf.
  unfold ir_failed in Hf.
  destruct (index_repos Force w _ specs _) as [[ops out] e]. cbn in Hf. subst e.
  destruct (existsb _ specs); reflexivity.
Qed.

Lemma ann_rem_utd l tl : (forall x, In x tl -> x = LPassF) -> announced_removals (map utd_line l ++ tl) = [].
Proof.
  intros H. induction l as [|s l IH]; cbn; [|exact IH].
  induction tl as [|x tl IHt]; [reflexivity|]. cbn. rewrite (H x (or_introl eq_refl)). apply IHt. intros y Hy. apply H. right. exact Hy.
Qed.
Lemma ann_idx_utd l tl : (forall x, In x tl -> x = LPassF) -> announced_indexing (map utd_line l ++ tl) = [].
Proof.
  intros H. induction l as [|s l IH]; cbn; [|exact IH].
  induction tl as [|x tl IHt]; [reflexivity|]. cbn. rewrite (H x (or_introl eq_refl)). apply IHt. intros y Hy. apply H. right. exact Hy.
Qed.
Lemma ann_utd_utd l tl : (forall x, In x tl -> x = LPassF) -> announced_up_to_date (map utd_line l ++ tl) = map sp_name l.
Proof.
  intros H. induction l as [|s l IH]; cbn; [|f_equal; exact IH].
  induction tl as [|x tl IHt]; [reflexivity|]. cbn. rewrite (H x (or_introl eq_refl)). apply IHt. intros y Hy. apply H. right. exact Hy.
Qed.

(** preview; -f; preview — whatever the forced run's status, as long as discovery and the inventory succeed: the
    second preview announces no removal and no indexing, reports exactly the repositories that can be indexed as
    "Up to date", and ends with the same status as the forced run (0, or E_INDEX when some repository cannot be
    opened — then it fails again for the same repositories). *)
Theorem sync_idempotent_any_status : forall tree w roots inv specs,
  wf inv -> discover tree roots = Ok specs -> distinct_sources specs -> existsb sh_bad inv = false ->
  let f := run_sync Force tree w roots inv in
  let d2 := run_sync Dry tree w roots (apply_ops inv (r_ops f)) in
  announced_removals (r_out d2) = [] /\ announced_indexing (r_out d2) = [] /\
  announced_up_to_date (r_out d2) = map sp_name (filter (indexable w) specs) /\
  r_status d2 = r_status f /\ r_ops d2 = [].
Proof.
  intros tree w roots inv specs Hwf Ed Hds Eb. cbv zeta.
  destruct (sync_force_partial tree w roots inv specs Hwf Ed Eb) as (Hwf' & Hall & Hidx).
  set (inv' := apply_ops inv (r_ops (run_sync Force tree w roots inv))) in *.
  assert (Hbad : existsb sh_bad inv' = false).
  { destruct (existsb sh_bad inv') eqn:E; [|reflexivity]. apply existsb_exists in E as (sh & Hin & Hb).
    destruct (Hall sh Hin) as (s & _ & _ & _ & Hg). congruence. }
  assert (Hplan : plan_prune specs inv' = []).
  { apply plan_prune_nil. intros sh Hin. destruct (Hall sh Hin) as (s & Hs & Hrepo & Hsrc & _).
    unfold prune_action. rewrite Hsrc, (lookup_source_unique specs s Hds Hs), Hrepo, ls_str_eqb_refl. reflexivity. }
  assert (Hdry : index_repos Dry w [] specs inv' =
    ([], map utd_line (filter (indexable w) specs), existsb (fun s => negb (indexable w s)) specs)).
  { apply index_repos_dry_settled. intros s fp Hs Efp. destruct (Hidx s fp Hs Efp) as [H0 Hfp].
    unfold has_file in H0. destruct (find_file (sp_name s, 0) inv') as [sh|] eqn:Ef; [|discriminate].
    destruct (find_file_some _ _ _ Ef) as [Hin Hf].
    assert (Hrepo : sh_repo sh = sp_name s) by (rewrite <- (wf_name inv' Hwf' sh Hin), Hf; reflexivity).
    unfold needs_index. rewrite Ef, Hrepo, ls_str_eqb_refl, (Hfp sh Hin Hrepo), N.eqb_refl. reflexivity. }
  rewrite (run_sync_force_status tree w roots inv specs Ed Eb).
  split; [|split; [|split; [|split]]]; try apply run_sync_dry_ops;
    unfold run_sync; rewrite Ed; unfold read_inventory; rewrite Hbad, Hplan;
    cbn [apply_removals map apply_ops fold_left]; rewrite Hdry;
    destruct (existsb (fun s => negb (indexable w s)) specs); cbn [r_out r_status app pass_f];
    try reflexivity.
  - rewrite <- (app_nil_r (map utd_line _)). apply ann_rem_utd. intros x [].
  - apply ann_rem_utd. intros x [<-|[]]. reflexivity.
  - rewrite <- (app_nil_r (map utd_line _)). apply ann_idx_utd. intros x [].
  - apply ann_idx_utd. intros x [<-|[]]. reflexivity.
  - rewrite <- (app_nil_r (map utd_line _)). apply ann_utd_utd. intros x [].
  - apply ann_utd_utd. intros x [<-|[]]. reflexivity.
Qed.

(** ---- remove; remove -f; remove: what the second preview announces (if anything) is still in the index and was
    not among the removals the forced run performed *)
Lemma remove_announced_in_inventory m sels inv : forall f,
  In f (announced_removals (r_out (run_remove m sels inv))) -> m = Dry /\ In f (map sh_file inv).
Proof.
  intros f. unfold run_remove, read_inventory. destruct (existsb sh_bad inv); [destruct m; intros []|].
  destruct (select_records (records inv) sels) as [sel|e|e]; [|destruct m; intros []..].
  destruct m; cbn [apply_removals r_out pass_f].
  - rewrite ann_rem_app, ann_rem_wouldremove. cbn. rewrite app_nil_r. intros Hin. split; [reflexivity|].
    unfold remove_actions in Hin. induction inv as [|sh inv IH]; cbn in Hin; [contradiction|].
    destruct (existsb (rkey_eqb (rkey_of sh)) sel); cbn in Hin |- *; [destruct Hin as [<-|Hin]|]; auto.
  - rewrite app_nil_r. intros Hin. exfalso. induction (remove_actions sel inv) as [|a l IH]; cbn in Hin; auto.
Qed.

Theorem remove_second_preview : forall sels inv,
  NoDup (map sh_file inv) -> r_status (run_remove Force sels inv) = 0%N ->
  let f := run_remove Force sels inv in
  let inv' := apply_ops inv (r_ops f) in
  forall x, In x (announced_removals (r_out (run_remove Dry sels inv'))) ->
    In x (map sh_file inv') /\ ~ In x (performed_removals (r_ops f)).
Proof.
  intros sels inv Hnd Hst. cbv zeta. intros x Hx.
  apply remove_announced_in_inventory in Hx as [_ Hx]. split; [exact Hx|].
  destruct (remove_force_exact sels inv Hnd Hst) as (sel & _ & _ & Hfin & Hperf).
  rewrite Hfin in Hx. rewrite Hperf. intros Hin.
  apply in_map_iff in Hx as (a & Ha & Hain). apply filter_In in Hain as [Hain Hna].
  apply in_map_iff in Hin as (b & Hb & Hbin). apply filter_In in Hbin as [Hbin Hsb].
  assert (a = b) by (apply (nodup_map_inj sh_file inv a b Hnd Hain Hbin); congruence).
  subst b. rewrite Hsb in Hna. discriminate.
Qed.

(** ---- the statements without the [distinct_sources] hypothesis (discharged by [discover_distinct_sources]) *)
Theorem sync_idempotent_full : forall tree w roots inv,
  wf inv ->
  let inv0 := apply_ops inv (r_ops (run_sync Dry tree w roots inv)) in
  let f := run_sync Force tree w roots inv0 in
  r_status f = 0%N ->
  let inv' := apply_ops inv0 (r_ops f) in
  let d2 := run_sync Dry tree w roots inv' in
  inv0 = inv /\
  exists specs, discover tree roots = Ok specs /\
  announced_removals (r_out d2) = [] /\ announced_indexing (r_out d2) = [] /\
  announced_up_to_date (r_out d2) = map sp_name specs /\ r_status d2 = 0%N /\
  r_out d2 = map utd_line specs ++ [LPassF] /\
  shard_ops (r_ops (run_sync Force tree w roots inv')) = [].
Proof.
  intros tree w roots inv Hwf inv0.
  assert (E0 : inv0 = inv) by (unfold inv0; rewrite run_sync_dry_ops; reflexivity).
  rewrite E0. intros f Hst. cbv zeta.
  destruct (sync_force_converges tree w roots inv Hwf Hst) as (specs & Ed & _).
  pose proof (sync_idempotent tree w roots inv specs Hwf Ed (discover_distinct_sources _ _ _ Ed)) as H.
  cbv zeta in H. rewrite run_sync_dry_ops in H. cbn [apply_ops fold_left] in H. specialize (H Hst).
  destruct H as (_ & H1 & H2 & H3 & H4 & H5).
  destruct (sync_second_preview tree w roots inv specs Hwf Ed (discover_distinct_sources _ _ _ Ed) Hst) as (Hout & _ & _).
  split; [reflexivity|]. exists specs. repeat split; assumption.
Qed.

Theorem sync_idempotent_any_status_full : forall tree w roots inv specs,
  wf inv -> discover tree roots = Ok specs -> existsb sh_bad inv = false ->
  let f := run_sync Force tree w roots inv in
  let d2 := run_sync Dry tree w roots (apply_ops inv (r_ops f)) in
  announced_removals (r_out d2) = [] /\ announced_indexing (r_out d2) = [] /\
  announced_up_to_date (r_out d2) = map sp_name (filter (indexable w) specs) /\
  r_status d2 = r_status f /\ r_ops d2 = [].
Proof.
  intros tree w roots inv specs Hwf Ed Eb.
  exact (sync_idempotent_any_status tree w roots inv specs Hwf Ed (discover_distinct_sources _ _ _ Ed) Eb).
Qed.
