(** C36 — proofs about Model/Web.v: fragment slicing partitions the line and never panics on well-formed
    matches; escaper outputs are inert in their tokenizer states; the flow check is sound (no data value
    changes the tag/attribute skeleton of a page that passes it). *)
From Coq Require Import String.
From ZV Require Import Lib.Base Lib.RuneCount Model.Web.
From Coq Require Import ZifyBool ZifyNat ZifyN.
Open Scope N_scope.

(* ------------------------------------------------------------------ slicing *)

Lemma slice_app_prefix : forall (l t : bytes) lo hi, (lo <= hi <= length l)%nat ->
  slice (l ++ t) lo hi = slice l lo hi.
Proof.
  intros l t lo hi H. unfold slice.
  rewrite skipn_app. replace (lo - length l)%nat with 0%nat by lia. cbn [skipn].
  rewrite firstn_app. rewrite skipn_length.
  replace (hi - lo - (length l - lo))%nat with 0%nat by lia. cbn [firstn]. now rewrite app_nil_r.
Qed.

Lemma firstn_plus : forall (l : bytes) a b, firstn (a + b) l = firstn a l ++ firstn b (skipn a l).
Proof.
  induction l as [|x r IH]; intros a b.
  - rewrite !firstn_nil, skipn_nil, firstn_nil. reflexivity.
  - destruct a as [|a]; [reflexivity|]. cbn. now rewrite IH.
Qed.

Lemma skipn_skipn' : forall (l : bytes) a b, skipn a (skipn b l) = skipn (a + b) l.
Proof.
  intros l a b. revert l. induction b as [|b IH]; intros l.
  - now rewrite Nat.add_0_r.
  - destruct l as [|x r]; [now rewrite !skipn_nil|]. rewrite Nat.add_succ_r. cbn. apply IH.
Qed.

Lemma slice_cat : forall (l : bytes) a b c, (a <= b <= c)%nat -> (c <= length l)%nat ->
  slice l a b ++ slice l b c = slice l a c.
Proof.
  intros l a b c H Hc. unfold slice.
  replace (c - a)%nat with ((b - a) + (c - b))%nat by lia.
  rewrite firstn_plus. f_equal.
  rewrite skipn_skipn'. replace (b - a + a)%nat with b by lia. reflexivity.
Qed.

Lemma slice_full : forall (l : bytes), slice l 0 (length l) = l.
Proof. intros. unfold slice. cbn [skipn]. rewrite Nat.sub_0_r. apply firstn_all. Qed.

Lemma gslice_ok : forall buf lo hi, (0 <= lo <= hi)%Z -> (hi <= Z.of_nat (length buf))%Z ->
  gslice buf lo hi = Ok (slice buf (Z.to_nat lo) (Z.to_nat hi)).
Proof.
  intros buf lo hi H1 H2. unfold gslice.
  destruct ((lo <? 0)%Z || (hi <? lo)%Z || (Z.of_nat (length buf) <? hi)%Z)%bool eqn:E; [lia | reflexivity].
Qed.

Lemma gslice_panic_iff : forall buf lo hi,
  is_panic (gslice buf lo hi) = true <-> ~ ((0 <= lo <= hi)%Z /\ (hi <= Z.of_nat (length buf))%Z).
Proof.
  intros. unfold gslice.
  destruct ((lo <? 0)%Z || (hi <? lo)%Z || (Z.of_nat (length buf) <? hi)%Z)%bool eqn:E; cbn; split; intros; try lia; try discriminate.
Qed.

(* ------------------------------------------------------------------ fragments *)

Fixpoint frags_wf (last len : Z) (fs : list (Z * Z)) : Prop :=
  match fs with
  | [] => True
  | (l, n) :: r => (last <= l)%Z /\ (0 <= n)%Z /\ (l + n <= len)%Z /\ frags_wf (l + n) len r
  end.

Definition wf_line (m : linematch) : Prop := frags_wf 0 (Z.of_nat (length (lm_line m))) (lm_frags m).

Definition flat (fs : list frag) : bytes := concat (map (fun f => f_pre f ++ f_match f ++ f_post f) fs).

Definition zslice (l : bytes) (a b : Z) : bytes := slice l (Z.to_nat a) (Z.to_nat b).

Lemma format_frags_wf : forall line tail fs last,
  (0 <= last)%Z -> frags_wf last (Z.of_nat (length line)) fs ->
  exists out, format_frags line tail last fs = Ok out /\
              map f_match out = map (fun p => zslice line (fst p) (fst p + snd p)) fs /\
              (fs <> [] -> flat out = zslice line last (Z.of_nat (length line))).
Proof.
  intros line tail fs. induction fs as [|[l n] rest IH]; intros last Hlast Hwf.
  - exists []. repeat split; try reflexivity. intros Hne; congruence.
  - cbn [frags_wf] in Hwf. destruct Hwf as (H1 & H2 & H3 & Hr).
    assert (Hlen : Z.of_nat (length (line ++ tail)) = (Z.of_nat (length line) + Z.of_nat (length tail))%Z)
      by (rewrite app_length; lia).
    cbn [format_frags].
    rewrite (gslice_ok (line ++ tail) last l) by lia.
    rewrite (gslice_ok (line ++ tail) l (l + n)) by lia.
    cbn [obind].
    destruct (IH (l + n)%Z ltac:(lia) Hr) as (out & Ho & Hm & Hf).
    rewrite !slice_app_prefix by lia.
    destruct rest as [|x rest'].
    + rewrite (gslice_ok line (l + n) (Z.of_nat (length line))) by lia. cbn [obind].
      cbn [format_frags] in Ho. inversion Ho; subst out. cbn [format_frags obind].
      eexists. split; [reflexivity|]. split; [reflexivity|]. intros _.
      unfold flat, zslice. cbn. rewrite app_nil_r.
      rewrite Nat2Z.id.
      rewrite slice_cat by lia. rewrite slice_cat by lia. reflexivity.
    + cbn [obind]. rewrite Ho. cbn [obind].
      eexists. split; [reflexivity|]. split.
      * cbn [map f_match fst snd]. f_equal. exact Hm.
      * intros _. unfold flat in *. cbn [map concat f_pre f_match f_post]. rewrite Hf by congruence.
        unfold zslice. rewrite app_nil_r, <- app_assoc.
        rewrite Nat2Z.id.
        rewrite slice_cat by lia. rewrite slice_cat by lia. reflexivity.
Qed.

Theorem fragments_partition : forall m, wf_line m ->
  exists out, format_line m = Ok out /\
              map f_match out = map (fun p => zslice (lm_line m) (fst p) (fst p + snd p)) (lm_frags m) /\
              (lm_frags m <> [] -> flat out = lm_line m).
Proof.
  intros m Hwf. unfold format_line.
  destruct (format_frags_wf (lm_line m) (lm_tail m) (lm_frags m) 0 ltac:(lia) Hwf) as (out & H1 & H2 & H3).
  exists out. repeat split; try assumption.
  intros Hne. rewrite (H3 Hne). unfold zslice. rewrite Nat2Z.id. apply slice_full.
Qed.

(** converse when the line owns its whole buffer (cap = len): only well-formed matches are formatted *)
Lemma format_frags_ok_wf : forall line fs last out,
  format_frags line [] last fs = Ok out -> frags_wf last (Z.of_nat (length line)) fs.
Proof.
  intros line fs. induction fs as [|[l n] rest IH]; intros last out H; [exact I|].
  cbn [format_frags] in H. rewrite app_nil_r in H.
  unfold gslice at 1 in H.
  destruct ((last <? 0)%Z || (l <? last)%Z || (Z.of_nat (length line) <? l)%Z)%bool eqn:E1; [discriminate|].
  cbn [obind] in H. unfold gslice at 1 in H.
  destruct ((l <? 0)%Z || (l + n <? l)%Z || (Z.of_nat (length line) <? l + n)%Z)%bool eqn:E2; [discriminate|].
  cbn [obind] in H.
  destruct (match rest with [] => gslice line (l + n) (Z.of_nat (length line)) | _ :: _ => Ok [] end) eqn:E3;
    cbn [obind] in H; try discriminate.
  destruct (format_frags line [] (l + n) rest) eqn:E4; cbn [obind] in H; try discriminate.
  cbn [frags_wf]. repeat split; try lia. eapply IH; eauto.
Qed.

Definition wf_file (f : filematch) : Prop := Forall wf_line (fm_lines f).

Lemma format_lines_total : forall ms, Forall wf_line ms -> exists out, format_lines ms = Ok out /\ length out = length ms.
Proof.
  induction ms as [|m r IH]; intros H.
  - exists []. split; reflexivity.
  - inversion H as [|? ? Hm Hr]; subst. destruct (fragments_partition m Hm) as (o & Ho & _).
    destruct (IH Hr) as (os & Hos & Hl). cbn [format_lines]. rewrite Ho. cbn [obind]. rewrite Hos. cbn [obind].
    eexists. split; [reflexivity|]. cbn. now rewrite Hl.
Qed.

Lemma format_files_total : forall fs seen, Forall wf_file fs ->
  exists out, format_files subrepo_path seen fs = Ok out /\ length out = length fs.
Proof.
  induction fs as [|f r IH]; intros seen H.
  - exists []. split; reflexivity.
  - inversion H as [|? ? Hf Hr]; subst.
    destruct (format_lines_total (fm_lines f) Hf) as (ms & Hms & _).
    cbn [format_files]. unfold format_file.
    destruct (lookup (fm_checksum f) seen) as [d|];
      (destruct (fm_subname f) as [|s0 sn]; cbn [obind subrepo_path]; rewrite Hms; cbn [obind fst snd];
       match goal with |- context [format_files subrepo_path ?S r] => destruct (IH S Hr) as (os & Hos & Hl) end;
       rewrite Hos; cbn [obind]; eexists; (split; [reflexivity|]); cbn; now rewrite Hl).
Qed.

Theorem format_total : forall fs, Forall wf_file fs -> exists out, format_results_fixed fs = Ok out /\ length out = length fs.
Proof. intros. apply format_files_total; assumption. Qed.

(** the code before the repair: a well-formed result (no line matches at all) whose sub-repository path is longer
    than the file name panics *)
Definition old_witness : list filematch :=
  [ {| fm_name := [97]; fm_repo := [114]; fm_subname := [115]; fm_subpath := [97; 47; 98; 47; 99];
       fm_checksum := []; fm_branches := []; fm_version := []; fm_lines := [] |} ].

Lemma format_total_old_refuted : Forall wf_file old_witness /\ format_results_old old_witness = Panic 1 /\
                                 is_ok (format_results_fixed old_witness) = true.
Proof. split; [repeat constructor | split; vm_compute; reflexivity]. Qed.

(* ------------------------------------------------------------------ escaper outputs *)

Definition safe_html (c : N) : bool := negb ((c =? 60) || (c =? 62) || (c =? 34) || (c =? 39)).
Definition safe_ns (c : N) : bool := safe_html c && negb (is_ws c).

Lemma forallb_app' : forall (f : N -> bool) a b, forallb f (a ++ b) = forallb f a && forallb f b.
Proof. intros. apply forallb_app. Qed.

Lemma html_tab_safe : forall b, forallb safe_html (html_tab b) = true.
Proof.
  intros b. unfold html_tab.
  repeat match goal with |- context [if ?b =? ?k then _ else _] => destruct (N.eqb_spec b k); [vm_compute; reflexivity|] end.
  cbn. unfold safe_html. rewrite andb_true_r.
  repeat match goal with H : ?x <> ?k |- _ => apply N.eqb_neq in H; rewrite ?H; clear H end. reflexivity.
Qed.

Lemma esc_html_safe : forall s, forallb safe_html (esc_html s) = true.
Proof.
  induction s as [|b r IH]; [reflexivity|]. unfold esc_html in *. cbn [flat_map].
  rewrite forallb_app', html_tab_safe, IH. reflexivity.
Qed.

Lemma hexd_safe_html : forall n, n < 16 -> safe_html (hexd n) = true.
Proof.
  intros n H. assert (E : exists k, (k < 16)%nat /\ n = N.of_nat k) by (exists (N.to_nat n); lia).
  destruct E as (k & Hk & ->).
  do 16 (destruct k as [|k]; [vm_compute; reflexivity|]). lia.
Qed.

Lemma jsstr_tab_safe : forall b, forallb safe_html (jsstr_tab b) = true.
Proof.
  intros b. unfold jsstr_tab.
  repeat match goal with |- context [if ?b =? ?k then _ else _] => destruct (N.eqb_spec b k); [vm_compute; reflexivity|] end.
  destruct (N.ltb_spec b 32).
  { rewrite forallb_app'. unfold hex2. cbn [forallb].
    rewrite hexd_safe_html by (apply N.div_lt_upper_bound; lia).
    rewrite hexd_safe_html by (apply N.mod_lt; lia). reflexivity. }
  repeat match goal with |- context [if ?b =? ?k then _ else _] => destruct (N.eqb_spec b k); [vm_compute; reflexivity|] end.
  cbn. unfold safe_html. rewrite andb_true_r.
  repeat match goal with H : ?x <> ?k |- _ => apply N.eqb_neq in H; rewrite ?H; clear H end. reflexivity.
Qed.

Lemma esc_jsstr_safe : forall s, forallb safe_html (esc_jsstr s) = true.
Proof.
  assert (H : forall n s, (length s <= n)%nat -> forallb safe_html (esc_jsstr s) = true).
  { induction n as [|n IH]; intros s Hl.
    - destruct s; [reflexivity | cbn in Hl; lia].
    - destruct s as [|b r]; [reflexivity|]. cbn [esc_jsstr].
      assert (Hr : forallb safe_html (jsstr_tab b ++ esc_jsstr r) = true).
      { rewrite forallb_app', jsstr_tab_safe. apply IH. cbn in Hl. lia. }
      destruct r as [|b1 [|b2 r2]]; try exact Hr.
      destruct ((b =? 226) && (b1 =? 128) && ((b2 =? 168) || (b2 =? 169))); [|exact Hr].
      rewrite !forallb_app'. rewrite IH by (cbn in Hl; lia).
      destruct (b2 =? 168); reflexivity. }
  intros s. apply (H (length s)). lia.
Qed.

Lemma nospace_tab_safe : forall b, forallb safe_ns (nospace_tab b) = true.
Proof.
  intros b. unfold nospace_tab.
  repeat match goal with |- context [if ?b =? ?k then _ else _] => destruct (N.eqb_spec b k); [vm_compute; reflexivity|] end.
  cbn. unfold safe_ns, safe_html, is_ws. rewrite andb_true_r.
  repeat match goal with H : ?x <> ?k |- _ => apply N.eqb_neq in H; rewrite ?H; clear H end. reflexivity.
Qed.

Lemma hexd_safe : forall n, n < 16 -> safe_ns (hexd n) = true.
Proof.
  intros n H. assert (E : exists k, (k < 16)%nat /\ n = N.of_nat k) by (exists (N.to_nat n); lia).
  destruct E as (k & Hk & ->).
  do 16 (destruct k as [|k]; [vm_compute; reflexivity|]). lia.
Qed.

Lemma hex2_safe : forall n, n < 256 -> forallb safe_ns (hex2 n) = true.
Proof.
  intros n H. unfold hex2. cbn [forallb].
  rewrite hexd_safe by (apply N.div_lt_upper_bound; lia).
  rewrite hexd_safe by (apply N.mod_lt; lia). reflexivity.
Qed.

Lemma nospace_go_safe : forall s k, forallb safe_ns (nospace_go s k) = true.
Proof.
  assert (H : forall n s k, (length s <= n)%nat -> forallb safe_ns (nospace_go s k) = true).
  { induction n as [|n IH]; intros s k Hl.
    - destruct s; [reflexivity | cbn in Hl; lia].
    - destruct s as [|b r]; [reflexivity|]. cbn [nospace_go].
      assert (Hr : forall j, forallb safe_ns (nospace_tab b ++ nospace_go r j) = true).
      { intros j. rewrite forallb_app', nospace_tab_safe. apply IH. cbn in Hl. lia. }
      destruct k as [|k]; [|apply Hr].
      destruct ((128 <=? b) && Nat.eqb (rune_width b r) 1).
      { rewrite forallb_app'. rewrite IH by (cbn in Hl; lia). reflexivity. }
      destruct r as [|b1 [|b2 r2]]; try apply Hr.
      destruct ((b =? 239) && (b1 =? 183) && (144 <=? b2) && (b2 <=? 175)) eqn:E1.
      { rewrite !forallb_app'. rewrite IH by (cbn in Hl; lia). rewrite hex2_safe by lia. reflexivity. }
      destruct ((b =? 239) && (b1 =? 191) && (176 <=? b2) && (b2 <=? 191)) eqn:E2.
      { rewrite !forallb_app'. rewrite IH by (cbn in Hl; lia). rewrite hex2_safe by lia. reflexivity. }
      apply Hr. }
  intros s k. apply (H (length s)). lia.
Qed.

Lemma nospace_go_nonempty : forall b r, nospace_go (b :: r) 0 <> [].
Proof.
  intros b r. cbn [nospace_go].
  assert (T : forall x, nospace_tab b ++ x <> []).
  { intros x. unfold nospace_tab.
    repeat match goal with |- context [if ?c then _ else _] => destruct c; [vm_compute; discriminate|] end. discriminate. }
  destruct ((128 <=? b) && Nat.eqb (rune_width b r) 1); [vm_compute; discriminate|].
  destruct r as [|b1 [|b2 r2]]; try apply T.
  destruct ((b =? 239) && (b1 =? 183) && (144 <=? b2) && (b2 <=? 175)); [vm_compute; discriminate|].
  destruct ((b =? 239) && (b1 =? 191) && (176 <=? b2) && (b2 <=? 191)); [vm_compute; discriminate|].
  apply T.
Qed.

Lemma esc_nospace_safe : forall s, forallb safe_ns (esc_nospace s) = true /\ esc_nospace s <> [].
Proof.
  intros [|b r]; [split; [vm_compute; reflexivity | vm_compute; discriminate]|].
  split; [apply nospace_go_safe | apply nospace_go_nonempty].
Qed.

(* ------------------------------------------------------------------ inert runs *)

Lemma run_app : forall a b st,
  run st (a ++ b) = (fst (run (fst (run st a)) b), snd (run st a) ++ snd (run (fst (run st a)) b)).
Proof.
  induction a as [|c a IH]; intros b st.
  - cbn. destruct (run st b); reflexivity.
  - cbn [app run]. destruct (step st c) as [s1 e1]. rewrite IH.
    destruct (run s1 a) as [s2 e2]. cbn [fst snd]. destruct (run s2 b) as [s3 e3]. cbn [fst snd].
    now rewrite app_assoc.
Qed.

Lemma run_inert : forall (P : N -> bool) st, (forall c, P c = true -> step st c = (st, [])) ->
  forall bs, forallb P bs = true -> run st bs = (st, []).
Proof.
  intros P st H. induction bs as [|c r IH]; intros Hb; [reflexivity|].
  cbn [forallb] in Hb. apply andb_prop in Hb. destruct Hb as [Hc Hr].
  cbn [run]. rewrite (H c Hc). rewrite (IH Hr). reflexivity.
Qed.

Lemma safe_html_spec : forall c, safe_html c = true -> c <> 60 /\ c <> 62 /\ c <> 34 /\ c <> 39.
Proof. unfold safe_html. intros c H. lia. Qed.
Lemma safe_ns_spec : forall c, safe_ns c = true -> c <> 60 /\ c <> 62 /\ c <> 34 /\ c <> 39 /\ is_ws c = false.
Proof. unfold safe_ns, safe_html. intros c H. lia. Qed.

Ltac neqb := repeat match goal with H : ?c <> ?k |- _ => apply N.eqb_neq in H end.

Lemma step_safe_html : forall st c, safe_html c = true ->
  md st = MText \/ md st = MValDQ \/ md st = MValSQ \/ md st = MRaw 0 -> step st c = (st, []).
Proof.
  intros st c Hc Hm. apply safe_html_spec in Hc. destruct Hc as (H1 & H2 & H3 & H4). neqb.
  unfold step. destruct Hm as [E|[E|[E|E]]]; rewrite E; rewrite ?H1, ?H3, ?H4; reflexivity.
Qed.

Lemma step_safe_unq : forall st c, safe_ns c = true -> md st = MValUnq -> step st c = (st, []).
Proof.
  intros st c Hc Hm. apply safe_ns_spec in Hc. destruct Hc as (H1 & H2 & H3 & H4 & H5). neqb.
  unfold step. rewrite Hm, H5, H2. reflexivity.
Qed.

Lemma step_safe_beforeval : forall st c, safe_ns c = true -> md st = MBeforeVal -> step st c = (set_md st MValUnq, []).
Proof.
  intros st c Hc Hm. apply safe_ns_spec in Hc. destruct Hc as (H1 & H2 & H3 & H4 & H5). neqb.
  unfold step. rewrite Hm, H5, H2, H3, H4. reflexivity.
Qed.

Lemma esc_jsval_safe : forall s, forallb safe_html (esc_jsval s) = true.
Proof. intros. unfold esc_jsval. rewrite !forallb_app', esc_jsstr_safe. reflexivity. Qed.

Ltac slot_modes H :=
  unfold slot_next in H;
  match type of H with context [md ?st] => destruct (md st) eqn:?E end; try discriminate;
  try (match goal with p : nat |- _ => destruct p; try discriminate end);
  repeat match type of H with context [if ?c then _ else _] => destruct c; try discriminate end;
  inversion H; subst; clear H.

Lemma khtml_modes : forall st st', slot_next KHtml st = Some st' ->
  st' = st /\ (md st = MText \/ md st = MValDQ \/ md st = MValSQ \/ md st = MRaw 0).
Proof. intros st st' H. slot_modes H; split; auto. Qed.
Lemma kjsstr_modes : forall st st', slot_next KJsStr st = Some st' ->
  st' = st /\ (md st = MText \/ md st = MValDQ \/ md st = MValSQ \/ md st = MRaw 0).
Proof. intros st st' H. slot_modes H; split; auto. Qed.
Lemma kjsval_modes : forall st st', slot_next KJsVal st = Some st' ->
  st' = st /\ (md st = MText \/ md st = MValDQ \/ md st = MValSQ \/ md st = MRaw 0).
Proof. intros st st' H. slot_modes H; split; auto. Qed.

Theorem slot_next_sound : forall k st st', slot_next k st = Some st' -> forall v, run st (esc k v) = (st', []).
Proof.
  intros k st st' H v. destruct k; cbn [esc].
  - destruct (khtml_modes _ _ H) as [-> Hm].
    apply (run_inert safe_html); [|apply esc_html_safe].
    intros c Hc. apply step_safe_html; assumption.
  - destruct (esc_nospace_safe v) as [Hs Hne].
    unfold slot_next in H. destruct (md st) eqn:Em; try discriminate; inversion H; subst st'; clear H.
    + destruct (esc_nospace v) as [|c r]; [congruence|]. cbn [forallb] in Hs. apply andb_prop in Hs. destruct Hs as [Hc Hr].
      cbn [run]. rewrite (step_safe_beforeval st c Hc Em).
      rewrite (run_inert safe_ns (set_md st MValUnq)); [reflexivity | | exact Hr].
      intros c' Hc'. apply step_safe_unq; [exact Hc' | reflexivity].
    + apply (run_inert safe_ns); [|exact Hs]. intros c Hc. apply step_safe_unq; assumption.
  - destruct (kjsstr_modes _ _ H) as [-> Hm].
    apply (run_inert safe_html); [|apply esc_jsstr_safe].
    intros c Hc. apply step_safe_html; assumption.
  - destruct (kjsval_modes _ _ H) as [-> Hm].
    apply (run_inert safe_html); [|apply esc_jsval_safe].
    intros c Hc. apply step_safe_html; assumption.
  - unfold slot_next in H. discriminate.
Qed.

(* ------------------------------------------------------------------ flow soundness *)

Definition agree (p : page) (S S' : list state) : Prop :=
  forall st, In st S -> forall c d d0,
    exists o o0 c1 d1 d1',
      render p (c, d) = (o, (c1, d1)) /\ render p (c, d0) = (o0, (c1, d1')) /\
      run st o = run st o0 /\ In (fst (run st o)) S'.

Lemma map_opt_in : forall {A B} (f : A -> option B) l L x, map_opt f l = Some L -> In x l ->
  exists y, f x = Some y /\ In y L.
Proof.
  induction l as [|a r IH]; intros L x H Hin; [destruct Hin|].
  cbn [map_opt] in H. destruct (f a) as [y|] eqn:Ea; [|discriminate].
  destruct (map_opt f r) as [ys|] eqn:Er; [|discriminate]. inversion H; subst L.
  destruct Hin as [->|Hin].
  - exists y. split; [assumption | now left].
  - destruct (IH ys x eq_refl Hin) as (y' & H1 & H2). exists y'. split; [assumption | now right].
Qed.

Lemma subset_sound : forall a b, subset a b = true -> forall x, In x a -> In x b.
Proof.
  intros a b H x Hx. unfold subset in H. rewrite forallb_forall in H. specialize (H x Hx).
  destruct (in_dec state_eq_dec x b); [assumption | discriminate].
Qed.

Lemma iter_agree : forall body S, agree body S S ->
  forall n st, In st S -> forall c d d0,
    exists o o0 c1 d1 d1',
      iter_render (render body) n (c, d) = (o, (c1, d1)) /\ iter_render (render body) n (c, d0) = (o0, (c1, d1')) /\
      run st o = run st o0 /\ In (fst (run st o)) S.
Proof.
  intros body S Hb. induction n as [|n IH]; intros st Hst c d d0.
  - exists [], [], c, d, d0. repeat split; assumption.
  - destruct (Hb st Hst c d d0) as (o & o0 & c1 & d1 & d1' & R1 & R2 & Hr & Hin).
    destruct (IH (fst (run st o)) Hin c1 d1 d1') as (p & p0 & c2 & d2 & d2' & Q1 & Q2 & Hq & Hin2).
    exists (o ++ p), (o0 ++ p0), c2, d2, d2'.
    cbn [iter_render]. rewrite R1, R2, Q1, Q2. repeat split.
    + rewrite !run_app. rewrite <- Hr. rewrite Hq. reflexivity.
    + rewrite run_app. cbn [fst]. exact Hin2.
Qed.

Theorem flow_sound : forall p S S', flowS S p = Some S' -> agree p S S'.
Proof.
  induction p as [|b|k|p IHp q IHq|t IHt f IHf|b IHb f IHf]; intros S S' H st Hst c d d0; cbn [flowS] in H.
  - inversion H; subst S'. exists [], [], c, d, d0. repeat split; assumption.
  - inversion H; subst S'. exists b, b, c, d, d0. repeat split.
    apply nodup_In. apply in_map_iff. exists st. split; [reflexivity | assumption].
  - destruct (map_opt (slot_next k) S) as [L|] eqn:EL; [|discriminate]. cbn in H. inversion H; subst S'.
    destruct (map_opt_in _ _ _ st EL Hst) as (st' & Hn & Hin).
    exists (esc k (fst (pop [] d))), (esc k (fst (pop [] d0))), c, (snd (pop [] d)), (snd (pop [] d0)).
    cbn [render fst snd]. destruct (pop [] d) as [v ds]. destruct (pop [] d0) as [v0 ds0]. cbn [fst snd].
    rewrite !(slot_next_sound k st st' Hn). repeat split. cbn [fst]. apply nodup_In. exact Hin.
  - destruct (flowS S p) as [S1|] eqn:E1; [|discriminate].
    destruct (IHp S S1 E1 st Hst c d d0) as (o & o0 & c1 & d1 & d1' & R1 & R2 & Hr & Hin).
    destruct (IHq S1 S' H (fst (run st o)) Hin c1 d1 d1') as (o' & o0' & c2 & d2 & d2' & Q1 & Q2 & Hq & Hin2).
    exists (o ++ o'), (o0 ++ o0'), c2, d2, d2'. cbn [render]. rewrite R1, R2, Q1, Q2. repeat split.
    + rewrite !run_app. rewrite <- Hr. rewrite Hq. reflexivity.
    + rewrite run_app. cbn [fst]. exact Hin2.
  - destruct (flowS S t) as [S1|] eqn:E1; [|discriminate].
    destruct (flowS S f) as [S2|] eqn:E2; [|discriminate]. inversion H; subst S'.
    cbn [render fst snd]. destruct (pop 0%nat c) as [ch cs]. destruct ch as [|ch].
    + destruct (IHf S S2 E2 st Hst cs d d0) as (o & o0 & c1 & d1 & d1' & R1 & R2 & Hr & Hin).
      exists o, o0, c1, d1, d1'. repeat split; try assumption. apply nodup_In, in_or_app. now right.
    + destruct (IHt S S1 E1 st Hst cs d d0) as (o & o0 & c1 & d1 & d1' & R1 & R2 & Hr & Hin).
      exists o, o0, c1, d1, d1'. repeat split; try assumption. apply nodup_In, in_or_app. now left.
  - destruct (flowS S b) as [S1|] eqn:E1; [|discriminate].
    destruct (flowS S f) as [S2|] eqn:E2; [|discriminate].
    destruct (subset S1 S) eqn:Es; [|discriminate]. inversion H; subst S'.
    cbn [render fst snd]. destruct (pop 0%nat c) as [ch cs]. destruct ch as [|ch].
    + destruct (IHf S S2 E2 st Hst cs d d0) as (o & o0 & c1 & d1 & d1' & R1 & R2 & Hr & Hin).
      exists o, o0, c1, d1, d1'. repeat split; try assumption. apply nodup_In, in_or_app. now right.
    + assert (Hb : agree b S S).
      { intros st1 Hst1 c1 e1 e1'. destruct (IHb S S1 E1 st1 Hst1 c1 e1 e1') as (o & o0 & c2 & d2 & d2' & R1 & R2 & Hr & Hin).
        exists o, o0, c2, d2, d2'. repeat split; try assumption. eapply subset_sound; eauto. }
      destruct (iter_agree b S Hb (Datatypes.S ch) st Hst cs d d0) as (o & o0 & c1 & d1 & d1' & R1 & R2 & Hr & Hin).
      exists o, o0, c1, d1, d1'. repeat split; try assumption. apply nodup_In, in_or_app. now left.
Qed.

Theorem esc_no_markup : forall p, page_ok p = true ->
  forall c d d0, tags (fst (render p (c, d))) = tags (fst (render p (c, d0))).
Proof.
  intros p H c d d0. unfold page_ok in H. destruct (flowS [st_text] p) as [S'|] eqn:E; [|discriminate].
  destruct (flow_sound p _ _ E st_text (or_introl eq_refl) c d d0) as (o & o0 & c1 & d1 & d1' & R1 & R2 & Hr & _).
  rewrite R1, R2. cbn [fst]. unfold tags. now rewrite Hr.
Qed.

(** the remaining control choices are consumed identically: the two renderings really are the same execution shape *)
Theorem render_same_shape : forall p, page_ok p = true ->
  forall c d d0, fst (snd (render p (c, d))) = fst (snd (render p (c, d0))).
Proof.
  intros p H c d d0. unfold page_ok in H. destruct (flowS [st_text] p) as [S'|] eqn:E; [|discriminate].
  destruct (flow_sound p _ _ E st_text (or_introl eq_refl) c d d0) as (o & o0 & c1 & d1 & d1' & R1 & R2 & _).
  rewrite R1, R2. reflexivity.
Qed.
