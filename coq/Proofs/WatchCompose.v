(** Composition of the two C19 models: the notification loop (Model/WatchLoop.v) decides WHEN scans run, the scan
    model (Model/Watcher.v) what a scan does with the listing it reads.  The combined system attaches the current
    directory listing to the loop and records the listing each scan reads; a scan reads the directory in one step
    at its start (the same abstraction as "scan is a function of ONE listing" in Model/Watcher.v).  The watcher's
    state after the scans that have run is then [scans cur next w_init (c_hist c)]. *)
From ZV Require Import Lib.Base Model.Watcher Proofs.Watcher Model.WatchLoop Proofs.WatchLoop.

Record cstate := mkC {
  c_loop : lstate;
  c_dir : list fent;              (* the directory now *)
  c_hist : list (list fent)       (* the listings read by the scans started so far, oldest first *)
}.

(** an event of the loop; a directory change carries the new listing *)
Definition cevent := (levent * list fent)%type.

Definition cstep (c : cstate) (ce : cevent) : option cstate :=
  match lstep (c_loop c) (fst ce) with
  | None => None
  | Some l' =>
      Some (match fst ce with
            | EChange _ => mkC l' (snd ce) (c_hist c)
            | EScanStart => mkC l' (c_dir c) (c_hist c ++ [c_dir c])
            | _ => mkC l' (c_dir c) (c_hist c)
            end)
  end.

Fixpoint crun (c : cstate) (ces : list cevent) : option cstate :=
  match ces with
  | [] => Some c
  | ce :: r => match cstep c ce with Some c' => crun c' r | None => None end
  end.

(** newDirectoryWatcher has started: the initial scan has read the directory L0 *)
Definition c_init (L0 : list fent) : cstate := mkC l_init L0 [L0].

Lemma crun_projects (ces : list cevent) (c0 c : cstate) :
  crun c0 ces = Some c -> lrun (c_loop c0) (map fst ces) = Some (c_loop c).
Proof.
  revert c0. induction ces as [|ce ces IH]; simpl; intros c0 H; [injection H as H; subst; reflexivity|].
  unfold cstep in H. destruct (lstep (c_loop c0) (fst ce)) as [l'|] eqn:Hl; [|discriminate H].
  apply IH in H. destruct (fst ce); simpl in H; exact H.
Qed.

Lemma fresh_hist_ends_with_dir (ces : list cevent) (c0 c : cstate) (acc : bool) :
  crun c0 ces = Some c ->
  (acc = true -> exists Ls, c_hist c0 = Ls ++ [c_dir c0]) ->
  fresh_from acc (map fst ces) = true -> exists Ls, c_hist c = Ls ++ [c_dir c].
Proof.
  revert c0 acc. induction ces as [|ce ces IH]; simpl; intros c0 acc H Hacc Hf.
  - injection H as H. subst c. apply Hacc. exact Hf.
  - unfold cstep in H. destruct (lstep (c_loop c0) (fst ce)) as [l'|] eqn:Hl; [|discriminate H].
    destruct ce as [e L]; simpl in *.
    destruct e; simpl in *;
      try (apply (IH _ acc H); [simpl; exact Hacc|exact Hf]).
    + (* EChange *) apply (IH _ false H); [intros Hd; discriminate Hd|exact Hf].
    + (* EScanStart *) apply (IH _ true H); [intros _; simpl; exists (c_hist c0); reflexivity|exact Hf].
Qed.

(** For EVERY interleaving of directory changes (arbitrary listings) with the watcher: if no change races with the
    startup, fsnotify drops no event, and the listings read by the scans satisfy the hypothesis of
    C19_scan_converges, then whenever the watcher is quiescent the loaded set is exactly what the CURRENT directory
    requires: duplicate-free, only selected files, every loadable selected file with its current content, and
    another scan would change nothing. *)
Theorem quiescent_loaded_equals_disk (cur next : Z) (L0 : list fent) (pre post : list cevent) (c : cstate) :
  crun (c_init L0) (pre ++ post) = Some c ->
  existsb is_change (map fst pre) = false -> existsb is_watch_add (map fst pre) = true ->
  existsb is_drop (map fst post) = false ->
  quiescent (c_loop c) = true ->
  chain_ok cur next [] (c_hist c) ->
  let st := scans cur next w_init (c_hist c) in
  let L := c_dir c in
  NoDup (keys (w_loaded st)) /\
  (forall k, In k (keys (w_loaded st)) -> In k (map f_path (sel_pure cur next L))) /\
  (forall e, In e (sel_pure cur next L) -> f_loadable e = true -> lookup (f_path e) (w_loaded st) = Some (f_content e)) /\
  scan cur next L st = Ok (mkOut [] [] [] st).
Proof.
  intros Hrun Hnc Hwa Hnd Hq Hchain.
  assert (Hl : lrun l_init (map fst pre ++ map fst post) = Some (c_loop c)).
  { rewrite <- map_app. apply (crun_projects _ (c_init L0) c Hrun). }
  assert (Hs : scanned_after_last_change (map fst pre ++ map fst post) = true).
  { apply (no_lost_wakeup _ _ _ Hl Hnc Hwa Hnd Hq). }
  rewrite scanned_is_fresh, <- map_app in Hs.
  destruct (fresh_hist_ends_with_dir _ (c_init L0) c true Hrun) as [Ls HLs]; [intros _; exists []; reflexivity|exact Hs|].
  simpl. rewrite HLs in *. apply history_converges. exact Hchain.
Qed.

(** the same after a tick, whatever happened before (startup races, dropped events) *)
Theorem tick_loaded_equals_disk (cur next : Z) (L0 : list fent) (a b : list cevent) (Lt : list fent) (c : cstate) :
  crun (c_init L0) (a ++ (ETick, Lt) :: b) = Some c ->
  existsb is_change (map fst b) = false ->
  quiescent (c_loop c) = true ->
  chain_ok cur next [] (c_hist c) ->
  let st := scans cur next w_init (c_hist c) in
  let L := c_dir c in
  NoDup (keys (w_loaded st)) /\
  (forall k, In k (keys (w_loaded st)) -> In k (map f_path (sel_pure cur next L))) /\
  (forall e, In e (sel_pure cur next L) -> f_loadable e = true -> lookup (f_path e) (w_loaded st) = Some (f_content e)) /\
  scan cur next L st = Ok (mkOut [] [] [] st).
Proof.
  intros Hrun Hnc Hq Hchain.
  assert (Hl : lrun l_init (map fst a ++ ETick :: map fst b) = Some (c_loop c)).
  { replace (map fst a ++ ETick :: map fst b) with (map fst (a ++ (ETick, Lt) :: b)); [|rewrite map_app; reflexivity].
    apply (crun_projects _ (c_init L0) c Hrun). }
  destruct (tick_repairs _ _ _ Hl Hnc Hq) as [_ Hs].
  rewrite scanned_is_fresh in Hs.
  replace (map fst a ++ ETick :: map fst b) with (map fst (a ++ (ETick, Lt) :: b)) in Hs; [|rewrite map_app; reflexivity].
  destruct (fresh_hist_ends_with_dir _ (c_init L0) c true Hrun) as [Ls HLs]; [intros _; exists []; reflexivity|exact Hs|].
  simpl. rewrite HLs in *. apply history_converges. exact Hchain.
Qed.
