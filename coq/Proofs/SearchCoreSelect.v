(** C01: findSelectiveNgrams / minFrequencyNgramOffsets always return two valid trigram indexes a <= b of the pattern,
    whatever the frequencies are. *)
From ZV Require Import Lib.Base Model.SearchCore Proofs.SearchCoreText.
From Coq Require Import ZifyBool.

Lemma ins_off_In : forall x l y, In y (ins_off x l) <-> y = x \/ In y l.
Proof.
  induction l as [|z l IH]; intro y; simpl; [intuition|].
  destruct (off_le x z); simpl; [intuition|]. rewrite IH. intuition.
Qed.
Lemma sort_offs_In : forall l y, In y (sort_offs l) <-> In y l.
Proof.
  unfold sort_offs. induction l as [|x l IH]; intro y; simpl; [reflexivity|]. rewrite ins_off_In, IH. intuition.
Qed.
Lemma ins_off_length : forall x l, length (ins_off x l) = S (length l).
Proof. induction l as [|z l IH]; simpl; [reflexivity|]. destruct (off_le x z); simpl; auto. Qed.
Lemma sort_offs_length : forall l, length (sort_offs l) = length l.
Proof. unfold sort_offs. induction l as [|x l IH]; simpl; [reflexivity|]. rewrite ins_off_length, IH. reflexivity. Qed.

Lemma min2_bound : forall M fs i i0 i1 m0 m1 r0 r1,
  min2 fs i (i0, i1, m0, m1) = (r0, r1) -> i0 < M -> i1 < M -> i + length fs <= M -> r0 < M /\ r1 < M.
Proof.
  induction fs as [|x fs IH]; intros i i0 i1 m0 m1 r0 r1 H H0 H1 HM.
  - simpl in H. inversion H; subst. auto.
  - simpl in H. simpl length in HM.
    destruct (x <=? m0)%N; [|destruct (x <=? m1)%N]; apply IH in H; auto; lia.
Qed.

Theorem select_idx_valid : forall p freqs, 3 <= length p ->
  length freqs = length (sort_offs (pat_tris p)) ->
  let '(a, b) := select_idx (sort_offs (pat_tris p)) freqs in a <= b /\ b + 3 <= length p.
Proof.
  intros p freqs Hm Hlen. unfold select_idx.
  set (offs := sort_offs (pat_tris p)) in *.
  assert (Hnt : length offs = length p - 2) by (unfold offs; rewrite sort_offs_length; unfold pat_tris; apply length_windows).
  destruct (min2 freqs 0 (0, 0, INFREQ, INFREQ)) as [p0 p1] eqn:E.
  apply (min2_bound (length offs)) in E; try lia.
  assert (Hp0 : p0 < length offs) by lia. assert (Hp1 : p1 < length offs) by lia.
  assert (Hx : forall q, q < length offs -> fst (nth q offs dflt_off) + 3 <= length p).
  { intros q Hq. pose proof (nth_In offs dflt_off Hq) as Hin. destruct (nth q offs dflt_off) as [o g].
    unfold offs in Hin. apply (proj1 (sort_offs_In _ _)) in Hin. unfold pat_tris in Hin. apply (proj1 (windows_In _ _ _ _)) in Hin.
    destruct Hin as [i [-> Hi]]. apply window_at_bound in Hi. simpl. lia. }
  pose proof (Hx p0 Hp0) as H0. pose proof (Hx p1 Hp1) as H1.
  set (x0 := fst (nth p0 offs dflt_off)) in *. set (x1 := fst (nth p1 offs dflt_off)) in *.
  destruct (Nat.max x0 x1 - Nat.min x0 x1 <? 3) eqn:E3; split; lia.
Qed.
