(** Proofs about Model/LocalSync.v used by Props/C33.v (preview) and Props/C34.v (convergence). *)
From ZV Require Import Lib.Base Model.LocalSync.

Lemma index_repos_dry_ops : forall w pruned specs inv,
  fst (fst (index_repos Dry w pruned specs inv)) = [].
Proof.
  induction specs as [|s rest IH]; intros inv; cbn [index_repos]; [reflexivity|].
  specialize (IH inv).
  destruct (fp_of w (sp_source s)) as [fp|].
  - destruct (index_repos Dry w pruned rest inv) as [[ops out] e] eqn:E. cbn in IH. subst ops.
    destruct (dry_decision pruned (sp_name s) fp inv); reflexivity.
  - destruct (index_repos Dry w pruned rest inv) as [[ops out] e] eqn:E. cbn in IH. subst ops. reflexivity.
Qed.

Lemma run_sync_dry_ops : forall tree w roots inv, r_ops (run_sync Dry tree w roots inv) = [].
Proof.
  intros. unfold run_sync. cbn [lock_ops].
  destruct (discover tree roots) as [specs|e|e]; try reflexivity.
  destruct (read_inventory inv) as [shards|e|e]; try reflexivity.
  cbn [apply_removals apply_ops fold_left].
  pose proof (index_repos_dry_ops w (map a_file (plan_prune specs shards)) specs shards) as H.
  destruct (index_repos Dry w (map a_file (plan_prune specs shards)) specs shards) as [[iops iout] failed].
  cbn in H. subst iops. destruct failed; reflexivity.
Qed.

Lemma run_remove_dry_ops : forall sels inv, r_ops (run_remove Dry sels inv) = [].
Proof.
  intros. unfold run_remove. cbn [lock_ops].
  destruct (read_inventory inv) as [shards|e|e]; try reflexivity.
  destruct (select_records (records shards) sels) as [sel|e|e]; reflexivity.
Qed.

Theorem dry_no_ops : forall tree w c inv, r_ops (run Dry tree w c inv) = [].
Proof. intros. destruct c; cbn [run]; [apply run_sync_dry_ops | apply run_remove_dry_ops]. Qed.

(** ------------------------------------------------------------------ equality tests *)
From Coq Require Import Permutation.

Lemma ls_str_eqb_eq a b : str_eqb a b = true <-> a = b.
Proof.
  unfold str_eqb. revert b. induction a as [|x a IH]; destruct b as [|y b]; cbn; split; intros H; try discriminate; try reflexivity.
  - apply andb_true_iff in H as [H1 H2]. apply N.eqb_eq in H1. apply IH in H2. subst. reflexivity.
  - inversion H; subst. rewrite N.eqb_refl. cbn. apply IH. reflexivity.
Qed.
Lemma ls_str_eqb_refl a : str_eqb a a = true.
Proof. apply ls_str_eqb_eq. reflexivity. Qed.
Lemma ls_str_eqb_neq a b : a <> b -> str_eqb a b = false.
Proof. intros H. destruct (str_eqb a b) eqn:E; [|reflexivity]. apply ls_str_eqb_eq in E. contradiction. Qed.

Lemma fkey_eqb_eq a b : fkey_eqb a b = true <-> a = b.
Proof.
  destruct a as [a1 a2], b as [b1 b2]. unfold fkey_eqb. cbn. rewrite andb_true_iff, ls_str_eqb_eq, Nat.eqb_eq.
  split; [intros [-> ->]; reflexivity | intros H; inversion H; auto].
Qed.
Lemma fkey_eqb_refl a : fkey_eqb a a = true.
Proof. apply fkey_eqb_eq. reflexivity. Qed.
Lemma fkey_eqb_sym a b : fkey_eqb a b = fkey_eqb b a.
Proof.
  destruct (fkey_eqb a b) eqn:E1, (fkey_eqb b a) eqn:E2; try reflexivity.
  - apply fkey_eqb_eq in E1. subst. rewrite fkey_eqb_refl in E2. discriminate.
  - apply fkey_eqb_eq in E2. subst. rewrite fkey_eqb_refl in E1. discriminate.
Qed.

(** ------------------------------------------------------------------ list helpers *)
Lemma filter_map_app {A B} (f : A -> option B) l1 l2 : filter_map f (l1 ++ l2) = filter_map f l1 ++ filter_map f l2.
Proof. induction l1 as [|x l1 IH]; cbn; [reflexivity|]. destruct (f x); cbn; rewrite IH; reflexivity. Qed.

Lemma filter_map_map_some {A B C} (g : A -> B) (f : B -> option C) (h : A -> C) l :
  (forall x, f (g x) = Some (h x)) -> filter_map f (map g l) = map h l.
Proof. intros H. induction l as [|x l IH]; cbn; [reflexivity|]. rewrite H, IH. reflexivity. Qed.
Lemma filter_map_map_none {A B C} (g : A -> B) (f : B -> option C) l :
  (forall x, f (g x) = None) -> filter_map f (map g l) = [].
Proof. intros H. induction l as [|x l IH]; cbn; [reflexivity|]. rewrite H, IH. reflexivity. Qed.

Lemma find_filter_keep {A} (q p : A -> bool) l :
  (forall x, q x = true -> p x = true) -> find q (filter p l) = find q l.
Proof.
  intros H. induction l as [|x l IH]; cbn; [reflexivity|].
  destruct (p x) eqn:Ep; cbn.
  - destruct (q x); [reflexivity|exact IH].
  - destruct (q x) eqn:Eq; [apply H in Eq; congruence|exact IH].
Qed.
Lemma find_app_none {A} (q : A -> bool) l x : q x = false -> find q (l ++ [x]) = find q l.
Proof. intros H. induction l as [|y l IH]; cbn; [rewrite H; reflexivity|]. destruct (q y); [reflexivity|exact IH]. Qed.

Lemma NoDup_app_intro_ls {A} (l : list A) x : NoDup l -> ~ In x l -> NoDup (l ++ [x]).
Proof.
  intros Hnd Hx. induction l as [|y l IH]; cbn; [constructor; [intros []|constructor]|].
  inversion Hnd; subst. constructor.
  - rewrite in_app_iff. intros [H|[H|[]]]; [contradiction|]. subst. apply Hx. left. reflexivity.
  - apply IH; [assumption|]. intros H. apply Hx. right. exact H.
Qed.

(** ------------------------------------------------------------------ the index after removals / builds *)
Lemma find_remove_file f g inv :
  find_file f (remove_file g inv) = if fkey_eqb f g then None else find_file f inv.
Proof.
  unfold find_file, remove_file. induction inv as [|sh inv IH]; cbn; [destruct (fkey_eqb f g); reflexivity|].
  destruct (fkey_eqb (sh_file sh) g) eqn:Eg; cbn.
  - rewrite IH. destruct (fkey_eqb f g) eqn:Ef; [reflexivity|].
    destruct (fkey_eqb (sh_file sh) f) eqn:E; [|reflexivity].
    apply fkey_eqb_eq in E. apply fkey_eqb_eq in Eg. subst. rewrite fkey_eqb_refl in Ef. discriminate.
  - destruct (fkey_eqb (sh_file sh) f) eqn:E.
    + apply fkey_eqb_eq in E. subst. rewrite Eg. reflexivity.
    + exact IH.
Qed.

Lemma find_remove_files f fs inv :
  find_file f (apply_ops inv (map OpRemoveShard fs)) = if existsb (fkey_eqb f) fs then None else find_file f inv.
Proof.
  unfold apply_ops. revert inv. induction fs as [|g fs IH]; intros inv; cbn [map fold_left existsb]; [reflexivity|].
  rewrite IH. cbn [apply_op]. rewrite find_remove_file.
  destruct (fkey_eqb f g); cbn; [destruct (existsb (fkey_eqb f) fs); reflexivity|reflexivity].
Qed.

Lemma find_build_other n m src fp inv : n <> m ->
  find_file (n, 0) (apply_op inv (OpBuild m src fp)) = find_file (n, 0) inv.
Proof.
  intros Hn. cbn [apply_op]. unfold find_file. rewrite find_app_none.
  - apply find_filter_keep. intros sh Hq. apply fkey_eqb_eq in Hq. rewrite Hq. cbn [fst snd].
    rewrite (ls_str_eqb_neq n m Hn). reflexivity.
  - cbn [sh_file]. destruct (fkey_eqb (m, 0) (n, 0)) eqn:E; [|reflexivity].
    apply fkey_eqb_eq in E. inversion E. congruence.
Qed.

(** ------------------------------------------------------------------ preview vs forced indexing *)
Definition ir_ops (x : list op * list line * bool) := fst (fst x).
Definition ir_out (x : list op * list line * bool) := snd (fst x).
Definition ir_failed (x : list op * list line * bool) := snd x.

Lemma dry_decision_pruned pruned n fp inv invp :
  find_file (n, 0) invp = (if existsb (fkey_eqb (n, 0)) pruned then None else find_file (n, 0) inv) ->
  dry_decision pruned n fp inv = needs_index n fp invp.
Proof.
  intros H. unfold dry_decision, needs_index, has_file. rewrite H.
  destruct (existsb (fkey_eqb (n, 0)) pruned); destruct (find_file (n, 0) inv); cbn;
    rewrite ?orb_true_r, ?orb_false_r, ?andb_false_r; reflexivity.
Qed.

Lemma index_repos_faithful w pruned : forall specs inv invc,
  NoDup (map sp_name specs) ->
  (forall s, In s specs ->
     find_file (sp_name s, 0) invc = if existsb (fkey_eqb (sp_name s, 0)) pruned then None else find_file (sp_name s, 0) inv) ->
  let d := index_repos Dry w pruned specs inv in
  let f := index_repos Force w pruned specs invc in
  announced_indexing (ir_out d) = performed_indexing (ir_ops f) /\
  announced_up_to_date (ir_out d) = announced_up_to_date (ir_out f) /\
  ir_failed d = ir_failed f /\
  performed_removals (ir_ops f) = [] /\ announced_removals (ir_out d) = [] /\ announced_indexing (ir_out f) = [].
Proof.
  induction specs as [|s rest IH]; intros inv invc Hnd Hinv; cbn [index_repos].
  - cbn. repeat split; reflexivity.
  - cbn [map] in Hnd. inversion Hnd as [|? ? Hnotin Hnd']; subst.
    assert (Hrest : forall s0, In s0 rest ->
              find_file (sp_name s0, 0) invc = if existsb (fkey_eqb (sp_name s0, 0)) pruned then None else find_file (sp_name s0, 0) inv)
      by (intros s0 H0; apply Hinv; right; exact H0).
    destruct (fp_of w (sp_source s)) as [fp|].
    + rewrite (dry_decision_pruned pruned (sp_name s) fp inv invc (Hinv s (or_introl eq_refl))).
      destruct (needs_index (sp_name s) fp invc) eqn:Eni.
      * assert (Hrest' : forall s0, In s0 rest ->
                  find_file (sp_name s0, 0) (apply_op invc (OpBuild (sp_name s) (sp_source s) fp)) =
                  if existsb (fkey_eqb (sp_name s0, 0)) pruned then None else find_file (sp_name s0, 0) inv).
        { intros s0 H0. rewrite find_build_other; [apply Hrest; exact H0|].
          intros Heq. apply Hnotin. rewrite <- Heq. apply in_map. exact H0. }
        specialize (IH inv (apply_op invc (OpBuild (sp_name s) (sp_source s) fp)) Hnd' Hrest').
        destruct (index_repos Dry w pruned rest inv) as [[dops dout] de].
        destruct (index_repos Force w pruned rest (apply_op invc (OpBuild (sp_name s) (sp_source s) fp))) as [[fops fout] fe].
        cbn in IH |- *. destruct IH as (I1 & I2 & I3 & I4 & I5 & I6). repeat split; try assumption. f_equal. exact I1.
      * specialize (IH inv invc Hnd' Hrest).
        destruct (index_repos Dry w pruned rest inv) as [[dops dout] de].
        destruct (index_repos Force w pruned rest invc) as [[fops fout] fe].
        cbn in IH |- *. destruct IH as (I1 & I2 & I3 & I4 & I5 & I6). repeat split; try assumption. f_equal. exact I2.
    + specialize (IH inv invc Hnd' Hrest).
      destruct (index_repos Dry w pruned rest inv) as [[dops dout] de].
      destruct (index_repos Force w pruned rest invc) as [[fops fout] fe].
      cbn in IH |- *. destruct IH as (I1 & I2 & I3 & I4 & I5 & I6). repeat split; assumption.
Qed.

(** ------------------------------------------------------------------ discovered names are pairwise distinct *)
Lemma add_all_nodup : forall l acc acc', add_all acc l = Ok acc' -> NoDup (map sp_name acc) -> NoDup (map sp_name acc').
Proof.
  induction l as [|s l IH]; intros acc acc' H Hnd; cbn in H.
  - inversion H; subst. exact Hnd.
  - destruct (existsb (fun p => str_eqb (sp_name p) (sp_name s)) acc) eqn:E1; [discriminate|].
    destruct (existsb (fun p => str_eqb (normalize_source (sp_source p)) (normalize_source (sp_source s))) acc) eqn:E2; [discriminate|].
    apply IH in H; [exact H|]. rewrite map_app. cbn.
    apply NoDup_app_intro_ls; [exact Hnd|].
    intros Hin. apply in_map_iff in Hin as (p & Hp & Hin).
    assert (existsb (fun p => str_eqb (sp_name p) (sp_name s)) acc = true).
    { apply existsb_exists. exists p. split; [exact Hin|]. apply ls_str_eqb_eq. exact Hp. }
    congruence.
Qed.

Lemma discover_roots_nodup tree : forall roots acc acc',
  discover_roots tree acc roots = Ok acc' -> NoDup (map sp_name acc) -> NoDup (map sp_name acc').
Proof.
  induction roots as [|r roots IH]; intros acc acc' H Hnd; cbn in H.
  - inversion H; subst. exact Hnd.
  - destruct (nameless (discover_root tree r)); [discriminate|].
    destruct (add_all acc (discover_root tree r)) as [a|e|e] eqn:E; cbn in H; try discriminate.
    eapply IH; [exact H|]. eapply add_all_nodup; eauto.
Qed.

Lemma ins_by_name_perm x l : Permutation (x :: l) (ins_by_name x l).
Proof.
  induction l as [|y l IH]; cbn; [apply Permutation_refl|].
  destruct (str_ltb (sp_name x) (sp_name y)); [apply Permutation_refl|].
  eapply perm_trans; [apply perm_swap|]. apply perm_skip. exact IH.
Qed.
Lemma sort_by_name_perm l : Permutation l (sort_by_name l).
Proof.
  induction l as [|x l IH]; cbn; [constructor|].
  eapply perm_trans; [apply perm_skip; exact IH|]. apply ins_by_name_perm.
Qed.

Lemma discover_nodup tree roots specs : discover tree roots = Ok specs -> NoDup (map sp_name specs).
Proof.
  unfold discover. destruct (resolve_roots tree [] roots); [|discriminate].
  destruct (discover_roots tree [] roots) as [l|e|e] eqn:E; cbn; intros H; inversion H; subst.
  eapply Permutation_NoDup; [apply Permutation_map; apply sort_by_name_perm|].
  eapply discover_roots_nodup; [exact E|constructor].
Qed.

Lemma read_inventory_ok inv shards : read_inventory inv = Ok shards -> shards = inv.
Proof. unfold read_inventory. destruct (existsb sh_bad inv); intros H; inversion H; reflexivity. Qed.

(** ------------------------------------------------------------------ C33: announced = performed *)
Definition faithful (d f : result) : Prop :=
  announced_removals (r_out d) = performed_removals (r_ops f) /\
  announced_indexing (r_out d) = performed_indexing (r_ops f) /\
  announced_up_to_date (r_out d) = announced_up_to_date (r_out f) /\
  r_status d = r_status f.

Lemma ann_rem_app a b : announced_removals (a ++ b) = announced_removals a ++ announced_removals b.
Proof. apply filter_map_app. Qed.
Lemma ann_idx_app a b : announced_indexing (a ++ b) = announced_indexing a ++ announced_indexing b.
Proof. apply filter_map_app. Qed.
Lemma ann_utd_app a b : announced_up_to_date (a ++ b) = announced_up_to_date a ++ announced_up_to_date b.
Proof. apply filter_map_app. Qed.
Lemma perf_rem_app a b : performed_removals (a ++ b) = performed_removals a ++ performed_removals b.
Proof. apply filter_map_app. Qed.
Lemma perf_idx_app a b : performed_indexing (a ++ b) = performed_indexing a ++ performed_indexing b.
Proof. apply filter_map_app. Qed.

Lemma ann_rem_wouldremove acts : announced_removals (map LWouldRemove acts) = map a_file acts.
Proof. apply filter_map_map_some. reflexivity. Qed.
Lemma perf_rem_ops acts : performed_removals (map (fun a => OpRemoveShard (a_file a)) acts) = map a_file acts.
Proof. apply filter_map_map_some. reflexivity. Qed.

Lemma run_sync_faithful tree w roots inv :
  faithful (run_sync Dry tree w roots inv) (run_sync Force tree w roots inv).
Proof.
  unfold faithful, run_sync.
  destruct (discover tree roots) as [specs|e|e] eqn:Ed; try (cbn; repeat split; reflexivity).
  destruct (read_inventory inv) as [shards|e|e] eqn:Er; try (cbn; repeat split; reflexivity).
  apply read_inventory_ok in Er. subst shards.
  cbn [apply_removals lock_ops pass_f].
  set (acts := plan_prune specs inv).
  change (apply_ops inv []) with inv.
  pose proof (index_repos_faithful w (map a_file acts) specs inv
                (apply_ops inv (map (fun a => OpRemoveShard (a_file a)) acts)) (discover_nodup _ _ _ Ed)) as H.
  assert (Hinv : forall s, In s specs ->
     find_file (sp_name s, 0) (apply_ops inv (map (fun a => OpRemoveShard (a_file a)) acts)) =
     if existsb (fkey_eqb (sp_name s, 0)) (map a_file acts) then None else find_file (sp_name s, 0) inv).
  { intros s _. rewrite <- (map_map a_file OpRemoveShard). apply find_remove_files. }
  specialize (H Hinv). cbn zeta in H. unfold ir_ops, ir_out, ir_failed in H.
  destruct (index_repos Dry w (map a_file acts) specs inv) as [[dops dout] de].
  destruct (index_repos Force w (map a_file acts) specs (apply_ops inv (map (fun a => OpRemoveShard (a_file a)) acts))) as [[fops fout] fe].
  cbn [fst snd] in H. destruct H as (H1 & H2 & H3 & H4 & H5 & H6). subst fe.
  assert (Hu1 : announced_up_to_date (map LWouldRemove acts) = []) by (apply filter_map_map_none; reflexivity).
  assert (Hu2 : announced_up_to_date (map LRemoving acts) = []) by (apply filter_map_map_none; reflexivity).
  assert (Hi1 : announced_indexing (map LWouldRemove acts) = []) by (apply filter_map_map_none; reflexivity).
  assert (Hp1 : performed_indexing (map (fun a => OpRemoveShard (a_file a)) acts) = []) by (apply filter_map_map_none; reflexivity).
  destruct de; cbn [r_out r_ops r_status];
    rewrite ?ann_rem_app, ?ann_idx_app, ?ann_utd_app, ?perf_rem_app, ?perf_idx_app;
    rewrite ?ann_rem_wouldremove, ?perf_rem_ops, ?H1, ?H2, ?H4, ?H5, ?Hu1, ?Hu2, ?Hi1, ?Hp1; cbn; rewrite ?app_nil_r;
    repeat split; reflexivity.
Qed.

Lemma run_remove_faithful sels inv :
  faithful (run_remove Dry sels inv) (run_remove Force sels inv).
Proof.
  unfold faithful, run_remove.
  destruct (read_inventory inv) as [shards|e|e]; try (cbn; repeat split; reflexivity).
  destruct (select_records (records shards) sels) as [sel|e|e]; try (cbn; repeat split; reflexivity).
  cbn [apply_removals lock_ops pass_f r_out r_ops r_status].
  set (acts := remove_actions sel shards).
  rewrite ?ann_rem_app, ?ann_idx_app, ?ann_utd_app, ?perf_rem_app, ?perf_idx_app.
  rewrite ann_rem_wouldremove, perf_rem_ops.
  assert (Hu1 : announced_up_to_date (map LWouldRemove acts) = []) by (apply filter_map_map_none; reflexivity).
  assert (Hu2 : announced_up_to_date (map LRemoving acts) = []) by (apply filter_map_map_none; reflexivity).
  assert (Hi1 : announced_indexing (map LWouldRemove acts) = []) by (apply filter_map_map_none; reflexivity).
  assert (Hp1 : performed_indexing (map (fun a => OpRemoveShard (a_file a)) acts) = []) by (apply filter_map_map_none; reflexivity).
  rewrite Hu1, Hu2, Hi1, Hp1. cbn. rewrite ?app_nil_r. repeat split; reflexivity.
Qed.

Theorem announce_faithful : forall tree w c inv,
  faithful (run Dry tree w c inv) (run Force tree w c inv).
Proof. intros. destruct c; cbn [run]; [apply run_sync_faithful | apply run_remove_faithful]. Qed.

(** ------------------------------------------------------------------ the preview before the repair (06cdaac) was not faithful *)
Definition moved_tree : node :=
  NDir [ ([114;49]%N, NDir []);                                                        (* r1: the repository is gone *)
         ([114;50]%N, NDir [ ([114;101;112;111]%N, NDir [ (dot_git, NDir []) ]) ]) ].  (* r2/repo *)
Definition moved_roots : list (list str) := [ [[114;49]%N]; [[114;50]%N] ].
Definition moved_src_old : str := [47;114;49;47;114;101;112;111]%N.   (* /r1/repo *)
Definition moved_src_new : str := [47;114;50;47;114;101;112;111]%N.   (* /r2/repo *)
Definition moved_name : str := [114;101;112;111]%N.
Definition moved_inv : inventory := [ mkShard (moved_name, 0) moved_name moved_src_old 7 false ].
Definition moved_world : world_fp := [ (moved_src_new, Some 7%N) ].

Lemma announce_faithful_refuted_before_fix_w :
  NoDup (map sh_file moved_inv) /\
  In moved_name (announced_up_to_date (run_sync_dry_prefix moved_tree moved_world moved_roots moved_inv)) /\
  In (moved_name, 0) (announced_removals (run_sync_dry_prefix moved_tree moved_world moved_roots moved_inv)) /\
  In moved_name (performed_indexing (r_ops (run_sync Force moved_tree moved_world moved_roots moved_inv))).
Proof.
  split; [repeat constructor; intros []|].
  vm_compute. repeat split; left; reflexivity.
Qed.
