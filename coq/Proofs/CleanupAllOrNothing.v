(** C32: moveAll is all-or-nothing under rename failures (Model/Cleanup.v [moves]).
    moveAll(dst, shards) walks the simple shards of ONE repository in file-name order; when a rename fails it removes
    what it already put into the destination and every shard it was asked to move.  So afterwards either every shard
    of the list sits at the destination with its content (no failure), or none of them is left at the source and none
    of those the loop reached is at the destination (a failure on the first, second or any later shard): never a
    strict subset moved.  This is the clause that `shards[i] = dstShard` in cleanup.go exists for. *)
From ZV Require Import Lib.Base Model.Cleanup Proofs.CleanupProofs Proofs.CleanupUnassigned Proofs.CleanupTrash Proofs.CleanupRevive Proofs.CleanupRestore Proofs.CleanupFailure Proofs.CleanupFailure2.
Open Scope Z_scope.

Definition srcd (ti : bool) (x : dir) : list file := if ti then d_trash x else d_index x.
Definition dstd (ti : bool) (x : dir) : list file := if ti then d_index x else d_trash x.

Lemma aon_find_rm b b' fs : find_file b (rm b' fs) = if N.eqb b b' then None else find_file b fs.
Proof.
  unfold find_file, rm. induction fs as [|f fs IH]; cbn; [destruct (N.eqb b b'); reflexivity|].
  destruct (N.eqb (f_base f) b') eqn:E1; cbn.
  - rewrite IH. destruct (N.eqb b b') eqn:E2; [reflexivity|].
    destruct (N.eqb (f_base f) b) eqn:E3; [|reflexivity].
    apply N.eqb_eq in E1, E3. subst. rewrite N.eqb_refl in E2. discriminate.
  - destruct (N.eqb (f_base f) b) eqn:E3.
    + destruct (N.eqb b b') eqn:E2; [|reflexivity].
      apply N.eqb_eq in E2, E3. subst. rewrite N.eqb_refl in E1. discriminate.
    + exact IH.
Qed.

Lemma aon_find_snoc b fs f :
  find_file b (fs ++ [f]) =
  match find_file b fs with Some g => Some g | None => if N.eqb (f_base f) b then Some f else None end.
Proof.
  unfold find_file. induction fs as [|a fs IH]; cbn; [reflexivity|].
  destruct (N.eqb (f_base a) b); [reflexivity|exact IH].
Qed.

Lemma aon_find_base b fs f : find_file b fs = Some f -> f_base f = b.
Proof. unfold find_file. intros H. apply find_some in H as [_ H]. apply N.eqb_eq. exact H. Qed.

(** one successful step of moveAll's loop: clear the destination, rename *)
Lemma aon_step now ti s x :
  let x1 := apply now (apply now x (rm_dst ti s)) (mv ti s) in
  forall b,
    find_file b (srcd ti x1) = (if N.eqb b (s_base s) then None else find_file b (srcd ti x)) /\
    find_file b (dstd ti x1) = (if N.eqb b (s_base s) then find_file (s_base s) (srcd ti x) else find_file b (dstd ti x)).
Proof.
  intros x1 b. subst x1. unfold rm_dst, mv, srcd, dstd.
  destruct ti; cbn [apply d_index d_trash].
  - destruct (find_file (s_base s) (d_trash x)) as [f|] eqn:Ef; cbn [d_index d_trash].
    + rewrite aon_find_rm, aon_find_snoc, aon_find_rm. split; [reflexivity|].
      destruct (N.eqb b (s_base s)) eqn:Eb.
      * apply N.eqb_eq in Eb. subst b. rewrite (aon_find_base _ _ _ Ef), N.eqb_refl. reflexivity.
      * destruct (find_file b (d_index x)); [reflexivity|].
        rewrite (aon_find_base _ _ _ Ef), N.eqb_sym, Eb. reflexivity.
    + rewrite aon_find_rm. destruct (N.eqb b (s_base s)) eqn:Eb; [|split; reflexivity].
      apply N.eqb_eq in Eb. subst b. split; [exact Ef|reflexivity].
  - destruct (find_file (s_base s) (d_index x)) as [f|] eqn:Ef; cbn [d_index d_trash].
    + rewrite aon_find_rm, aon_find_snoc, aon_find_rm. split; [reflexivity|].
      destruct (N.eqb b (s_base s)) eqn:Eb.
      * apply N.eqb_eq in Eb. subst b. rewrite (aon_find_base _ _ _ Ef), N.eqb_refl. reflexivity.
      * destruct (find_file b (d_trash x)); [reflexivity|].
        rewrite (aon_find_base _ _ _ Ef), N.eqb_sym, Eb. reflexivity.
    + rewrite aon_find_rm. destruct (N.eqb b (s_base s)) eqn:Eb; [|split; reflexivity].
      apply N.eqb_eq in Eb. subst b. split; [exact Ef|reflexivity].
Qed.

Definition in_bases (b : N) (l : list sref) : bool := existsb (fun s => N.eqb b (s_base s)) l.

Lemma in_bases_true b l : in_bases b l = true <-> In b (map s_base l).
Proof.
  unfold in_bases. rewrite existsb_exists. split.
  - intros (s & Hs & E). apply N.eqb_eq in E. subst b. apply in_map. exact Hs.
  - intros H. apply in_map_iff in H as (s & E & Hs). exists s. split; [exact Hs|]. subst b. apply N.eqb_refl.
Qed.

Lemma in_bases_false b l : ~ In b (map s_base l) -> in_bases b l = false.
Proof. intros H. destruct (in_bases b l) eqn:E; [|reflexivity]. apply in_bases_true in E. contradiction. Qed.

(** removeAll of a list of shards at the destination / at the source *)
Lemma aon_rm_dst_list now ti l : forall x,
  let x' := fold_left (apply now) (map (rm_dst ti) l) x in
  srcd ti x' = srcd ti x /\
  forall b, find_file b (dstd ti x') = if in_bases b l then None else find_file b (dstd ti x).
Proof.
  induction l as [|s l IH]; intros x; cbn [map fold_left]; [split; reflexivity|].
  destruct (IH (apply now x (rm_dst ti s))) as [I1 I2]. cbn zeta in I1, I2. split.
  - rewrite I1. unfold rm_dst, srcd. destruct ti; reflexivity.
  - intros b. rewrite I2. cbn [in_bases existsb]. fold (in_bases b l).
    assert (E : find_file b (dstd ti (apply now x (rm_dst ti s))) = if N.eqb b (s_base s) then None else find_file b (dstd ti x)).
    { unfold rm_dst, dstd. destruct ti; cbn [apply d_index d_trash]; apply aon_find_rm. }
    rewrite E. destruct (in_bases b l), (N.eqb b (s_base s)); reflexivity.
Qed.

Lemma aon_rm_src_list now ti l : forall x,
  let x' := fold_left (apply now) (map (rm_src ti) l) x in
  dstd ti x' = dstd ti x /\
  forall b, find_file b (srcd ti x') = if in_bases b l then None else find_file b (srcd ti x).
Proof.
  induction l as [|s l IH]; intros x; cbn [map fold_left]; [split; reflexivity|].
  destruct (IH (apply now x (rm_src ti s))) as [I1 I2]. cbn zeta in I1, I2. split.
  - rewrite I1. unfold rm_src, dstd. destruct ti; reflexivity.
  - intros b. rewrite I2. cbn [in_bases existsb]. fold (in_bases b l).
    assert (E : find_file b (srcd ti (apply now x (rm_src ti s))) = if N.eqb b (s_base s) then None else find_file b (srcd ti x)).
    { unfold rm_src, srcd. destruct ti; cbn [apply d_index d_trash]; apply aon_find_rm. }
    rewrite E. destruct (in_bases b l), (N.eqb b (s_base s)); reflexivity.
Qed.

Lemma aon_drop_simple ti id l : (forall s, In s l -> s_compound s = false) -> map (drop ti id) l = map (rm_src ti) l.
Proof.
  intros H. apply map_ext_in. intros s Hs. unfold drop. rewrite (H s Hs). reflexivity.
Qed.

Lemma aon_nodup_mid (l1 : list sref) a l2 :
  NoDup (map s_base (l1 ++ a :: l2)) -> ~ In (s_base a) (map s_base (l1 ++ l2)).
Proof. rewrite !map_app. cbn [map]. intros H. apply NoDup_remove_2 in H. exact H. Qed.

Lemma NoDup_app_disjoint_ls {A} (l1 l2 : list A) : NoDup (l1 ++ l2) -> forall a, In a l1 -> In a l2 -> False.
Proof.
  induction l1 as [|x l1 IH]; intros H a H1 H2; [contradiction|].
  cbn in H. inversion H as [|? ? Hx Hn]; subst. destruct H1 as [<- | H1].
  - apply Hx. apply in_or_app. right. exact H2.
  - exact (IH Hn a H1 H2).
Qed.

Definition any_fail (mf : bool -> N -> bool) (ti : bool) (g : list sref) : bool := existsb (fun s => mf ti (s_base s)) g.

(** The effect of moveAll's loop on every file name, for any failure predicate, from any directory state.
    [done] = the shards already moved by earlier iterations. *)
Lemma aon_moves_effect mf now ti id : forall g done x,
  (forall s, In s g -> s_compound s = false) ->
  NoDup (map s_base (done ++ g)) ->
  let x' := fold_left (apply now) (moves mf ti id done g) x in
  (forall b, in_bases b (done ++ g) = false ->
     find_file b (srcd ti x') = find_file b (srcd ti x) /\ find_file b (dstd ti x') = find_file b (dstd ti x)) /\
  (forall s, In s done ->
     find_file (s_base s) (srcd ti x') = find_file (s_base s) (srcd ti x) /\
     find_file (s_base s) (dstd ti x') = if any_fail mf ti g then None else find_file (s_base s) (dstd ti x)) /\
  (forall s, In s g ->
     find_file (s_base s) (srcd ti x') = None /\
     if any_fail mf ti g
     then find_file (s_base s) (dstd ti x') = None \/ find_file (s_base s) (dstd ti x') = find_file (s_base s) (dstd ti x)
     else find_file (s_base s) (dstd ti x') = find_file (s_base s) (srcd ti x)).
Proof.
  induction g as [|s r IH]; intros done x Hsimple Hnd; cbn zeta.
  - cbn [moves fold_left any_fail existsb]. split; [intros b _; split; reflexivity|].
    split; [intros s' _; split; reflexivity|]. intros s' [].
  - cbn [moves]. rewrite (Hsimple s (or_introl eq_refl)).
    assert (Hsr : forall s', In s' r -> s_compound s' = false) by (intros s' H; apply Hsimple; right; exact H).
    pose proof (aon_nodup_mid _ _ _ Hnd) as Hmid.
    assert (Hne : forall s', In s' (done ++ r) -> N.eqb (s_base s') (s_base s) = false).
    { intros s' H. apply N.eqb_neq. intros E. apply Hmid. rewrite <- E. apply in_map. exact H. }
    cbn [any_fail existsb]. fold (any_fail mf ti r).
    destruct (mf ti (s_base s)) eqn:Emf; cbn [orb].
    + (* the rename of s fails: removeAll(dstShard); removeAll(shards...) *)
      rewrite (aon_drop_simple ti id (s :: r) Hsimple).
      cbn [fold_left]. rewrite fold_left_app.
      set (xa := apply now (apply now x (rm_dst ti s)) (rm_dst ti s)).
      destruct (aon_rm_dst_list now ti done xa) as [D1 D2]. cbn zeta in D1, D2.
      set (xb := fold_left (apply now) (map (rm_dst ti) done) xa) in *.
      destruct (aon_rm_src_list now ti (s :: r) xb) as [S1 S2]. cbn zeta in S1, S2.
      set (xc := fold_left (apply now) (map (rm_src ti) (s :: r)) xb) in *.
      assert (A1 : srcd ti xa = srcd ti x) by (subst xa; unfold rm_dst, srcd; destruct ti; reflexivity).
      assert (A2 : forall b, find_file b (dstd ti xa) = if N.eqb b (s_base s) then None else find_file b (dstd ti x)).
      { intros b. subst xa. unfold rm_dst, dstd. destruct ti; cbn [apply d_index d_trash]; rewrite !aon_find_rm;
          destruct (N.eqb b (s_base s)); reflexivity. }
      assert (Hsrc : forall b, find_file b (srcd ti xc) = if in_bases b (s :: r) then None else find_file b (srcd ti x)).
      { intros b. rewrite S2, D1, A1. reflexivity. }
      assert (Hdst : forall b, find_file b (dstd ti xc) =
                               if in_bases b done then None else if N.eqb b (s_base s) then None else find_file b (dstd ti x)).
      { intros b. rewrite S1, D2, A2. reflexivity. }
      split; [|split].
      * intros b Hb. unfold in_bases in Hb. rewrite existsb_app in Hb. apply orb_false_iff in Hb as [Hb1 Hb2].
        rewrite Hsrc, Hdst. unfold in_bases at 1 2. rewrite Hb1, Hb2.
        cbn [existsb] in Hb2. apply orb_false_iff in Hb2 as [Hb2 _]. rewrite Hb2. split; reflexivity.
      * intros s' Hs'. rewrite Hsrc, Hdst. split.
        -- rewrite in_bases_false; [reflexivity|]. intros Hin. apply in_map_iff in Hin as (s2 & E2 & Hin).
           rewrite map_app in Hnd. apply (NoDup_app_disjoint_ls _ _ Hnd (s_base s')).
           ++ apply in_map. exact Hs'.
           ++ rewrite <- E2. apply in_map. exact Hin.
        -- assert (in_bases (s_base s') done = true) as -> by (apply in_bases_true; apply in_map; exact Hs'). reflexivity.
      * intros s' Hs'. rewrite Hsrc, Hdst. split.
        -- assert (in_bases (s_base s') (s :: r) = true) as -> by (apply in_bases_true; apply in_map; exact Hs'). reflexivity.
        -- destruct (in_bases (s_base s') done); [left; reflexivity|].
           destruct (N.eqb (s_base s') (s_base s)); [left|right]; reflexivity.
    + (* the rename succeeds: next iteration with s among the moved shards *)
      cbn [fold_left].
      set (x1 := apply now (apply now x (rm_dst ti s)) (mv ti s)).
      pose proof (aon_step now ti s x) as Hstep. cbn zeta in Hstep. fold x1 in Hstep.
      assert (Hnd' : NoDup (map s_base ((done ++ [s]) ++ r))) by (rewrite <- app_assoc; exact Hnd).
      destruct (IH (done ++ [s]) x1 Hsr Hnd') as (F & Dn & G). cbn zeta in F, Dn, G.
      set (x' := fold_left (apply now) (moves mf ti id (done ++ [s]) r) x1) in *.
      split; [|split].
      * intros b Hb. assert (Hb' : in_bases b ((done ++ [s]) ++ r) = false) by (rewrite <- app_assoc; exact Hb).
        destruct (F b Hb') as [F1 F2]. rewrite F1, F2.
        destruct (Hstep b) as [T1 T2]. rewrite T1, T2.
        unfold in_bases in Hb. rewrite existsb_app in Hb. apply orb_false_iff in Hb as [_ Hb].
        cbn [existsb] in Hb. apply orb_false_iff in Hb as [Hb _]. rewrite Hb. split; reflexivity.
      * intros s' Hs'. destruct (Dn s' (in_or_app _ _ _ (or_introl Hs'))) as [D1 D2]. rewrite D1, D2.
        destruct (Hstep (s_base s')) as [T1 T2]. rewrite T1, T2.
        rewrite (Hne s' (in_or_app _ _ _ (or_introl Hs'))). split; reflexivity.
      * assert (Hins : In s (done ++ [s])) by (apply in_or_app; right; left; reflexivity).
        intros s' [<- | Hs'].
        -- destruct (Dn s Hins) as [D1 D2]. rewrite D1, D2.
           destruct (Hstep (s_base s)) as [T1 T2]. rewrite T1, T2, N.eqb_refl. split; [reflexivity|].
           destruct (any_fail mf ti r); [left|]; reflexivity.
        -- destruct (G s' Hs') as [G1 G2]. split; [exact G1|].
           destruct (Hstep (s_base s')) as [T1 T2].
           rewrite (Hne s' (in_or_app _ _ _ (or_intror Hs'))) in T1, T2.
           destruct (any_fail mf ti r); [rewrite T2 in G2; exact G2 | rewrite G2, T1; reflexivity].
Qed.

(** moveAll from scratch ([done] = []), with the destination free of the names to be moved (restore: the repository is
    not in the index; trashing: its trashed copies were dropped by the first phase): ALL or NOTHING. *)
Theorem moveAll_all_or_nothing : forall mf now ti id g x,
  (forall s, In s g -> s_compound s = false) ->
  NoDup (map s_base g) ->
  (forall s, In s g -> find_file (s_base s) (dstd ti x) = None) ->
  let x' := fold_left (apply now) (moves mf ti id [] g) x in
  (forall b, in_bases b g = false ->
     find_file b (srcd ti x') = find_file b (srcd ti x) /\ find_file b (dstd ti x') = find_file b (dstd ti x)) /\
  ((any_fail mf ti g = false /\
    forall s, In s g -> find_file (s_base s) (srcd ti x') = None /\
                        find_file (s_base s) (dstd ti x') = find_file (s_base s) (srcd ti x)) \/
   (any_fail mf ti g = true /\
    forall s, In s g -> find_file (s_base s) (srcd ti x') = None /\ find_file (s_base s) (dstd ti x') = None)).
Proof.
  intros mf now ti id g x Hsimple Hnd Hfree.
  destruct (aon_moves_effect mf now ti id g [] x Hsimple Hnd) as (F & _ & G). cbn zeta in F, G |- *.
  split; [exact F|].
  destruct (any_fail mf ti g) eqn:Ef; [right|left]; (split; [reflexivity|]); intros s Hs; destruct (G s Hs) as [G1 G2];
    (split; [exact G1|]).
  - destruct G2 as [G2|G2]; [exact G2|]. rewrite G2. apply Hfree. exact Hs.
  - exact G2.
Qed.

(** the contrast (what the seeded change `shard = dstShard` does): a fallback that forgets the shards already moved
    leaves them at the destination *)
Fixpoint moves_forgetful (mf : bool -> N -> bool) (ti : bool) (g : list sref) : list act :=
  match g with
  | [] => []
  | s :: r => if mf ti (s_base s) then rm_dst ti s :: rm_dst ti s :: map (rm_src ti) (s :: r)
              else rm_dst ti s :: mv ti s :: moves_forgetful mf ti r
  end.

Definition aon_f (b : N) : file := mkF b false 0 [mkE 7 7 false 0].
Definition aon_s (b : N) : sref := mkS 7 7 b false 0.
Definition aon_dir : dir := mkD [] [aon_f 1; aon_f 2; aon_f 3] 0.
Definition aon_fail2 : bool -> N -> bool := fun _ b => N.eqb b 2.

Lemma moves_forgetful_partial :
  map f_base (d_index (fold_left (apply 0) (moves_forgetful aon_fail2 true [aon_s 1; aon_s 2; aon_s 3]) aon_dir)) = [1%N] /\
  d_index (fold_left (apply 0) (moves aon_fail2 true 7 [] [aon_s 1; aon_s 2; aon_s 3]) aon_dir) = [] /\
  d_trash (fold_left (apply 0) (moves aon_fail2 true 7 [] [aon_s 1; aon_s 2; aon_s 3]) aon_dir) = [].
Proof. vm_compute. repeat split; reflexivity. Qed.

(** ---- moveAll's list may contain compound shards (shardMerging off): they are never renamed (HACK branch: tombstoned or
    removed in place), and they do not disturb the all-or-nothing behaviour of the simple shards of the list *)
Lemma aon_find_on_file b b' (g : file -> file) fs :
  (forall f, f_base (g f) = f_base f) -> N.eqb b b' = false -> find_file b (on_file b' g fs) = find_file b fs.
Proof.
  intros Hg Hne. unfold find_file, on_file. induction fs as [|f fs IH]; cbn; [reflexivity|].
  destruct (N.eqb (f_base f) b') eqn:E1.
  - rewrite Hg. destruct (N.eqb (f_base f) b) eqn:E2; [|exact IH].
    apply N.eqb_eq in E1, E2. subst. rewrite N.eqb_refl in Hne. discriminate.
  - destruct (N.eqb (f_base f) b); [reflexivity|exact IH].
Qed.

(** an action on a compound shard named b' leaves every other name alone, in both directories *)
Definition compound_act (b' : N) (a : act) : Prop :=
  a = RmIndex b' \/ a = RmTrash b' \/ exists id totr, a = TombOrRm b' id totr.

Lemma aon_compound_frame now b' a x b : compound_act b' a -> N.eqb b b' = false ->
  find_file b (d_index (apply now x a)) = find_file b (d_index x) /\
  find_file b (d_trash (apply now x a)) = find_file b (d_trash x).
Proof.
  intros Ha Hne. destruct Ha as [->|[->|(id' & totr & ->)]]; cbn [apply].
  - cbn [d_index d_trash]. rewrite aon_find_rm, Hne. split; reflexivity.
  - cbn [d_index d_trash]. rewrite aon_find_rm, Hne. split; reflexivity.
  - destruct (serves_others b' id' (d_index x)); cbn [d_index d_trash].
    + split; [|reflexivity]. apply aon_find_on_file; [reflexivity|exact Hne].
    + rewrite aon_find_rm, Hne. split; [reflexivity|]. destruct totr; [|reflexivity]. rewrite aon_find_rm, Hne. reflexivity.
Qed.

Lemma aon_compound_frame_sd now ti b' a x b : compound_act b' a -> N.eqb b b' = false ->
  find_file b (srcd ti (apply now x a)) = find_file b (srcd ti x) /\
  find_file b (dstd ti (apply now x a)) = find_file b (dstd ti x).
Proof.
  intros Ha Hne. destruct (aon_compound_frame now b' a x b Ha Hne) as [H1 H2].
  unfold srcd, dstd. destruct ti; split; assumption.
Qed.

Definition simple_of (l : list sref) : list sref := filter (fun s => negb (s_compound s)) l.
Definition compound_of (l : list sref) : list sref := filter s_compound l.
Definition any_fail_simple (mf : bool -> N -> bool) (ti : bool) (g : list sref) : bool := any_fail mf ti (simple_of g).

Lemma drop_compound_act ti id s : s_compound s = true -> compound_act (s_base s) (drop ti id s).
Proof.
  intros K. unfold drop. rewrite K. destruct ti; [right; left; reflexivity|right; right; eauto].
Qed.

(** removeAll(shards...) over a mixed list: the simple ones vanish from the source, nothing else happens to names
    that are not those of compound entries *)
Lemma aon_drop_list now ti id l : forall x,
  let x' := fold_left (apply now) (map (drop ti id) l) x in
  forall b, in_bases b (compound_of l) = false ->
    find_file b (srcd ti x') = (if in_bases b (simple_of l) then None else find_file b (srcd ti x)) /\
    find_file b (dstd ti x') = find_file b (dstd ti x).
Proof.
  induction l as [|s l IH]; intros x; cbn [map fold_left]; [intros b _; split; reflexivity|].
  intros b Hb. unfold compound_of, simple_of in *. cbn [filter] in *.
  destruct (s_compound s) eqn:K; cbn [negb] in *.
  - cbn [in_bases existsb] in Hb. apply orb_false_iff in Hb as [Hb1 Hb2].
    destruct (IH (apply now x (drop ti id s)) b Hb2) as [I1 I2]. cbn zeta in I1, I2. rewrite I1, I2.
    destruct (aon_compound_frame_sd now ti (s_base s) (drop ti id s) x b (drop_compound_act ti id s K) Hb1) as [F1 F2].
    rewrite F1, F2. split; reflexivity.
  - destruct (IH (apply now x (drop ti id s)) b Hb) as [I1 I2]. cbn zeta in I1, I2. rewrite I1, I2.
    unfold drop. rewrite K. cbn [in_bases existsb].
    assert (E1 : find_file b (srcd ti (apply now x (rm_src ti s))) = if N.eqb b (s_base s) then None else find_file b (srcd ti x)).
    { unfold rm_src, srcd. destruct ti; cbn [apply d_index d_trash]; apply aon_find_rm. }
    assert (E2 : dstd ti (apply now x (rm_src ti s)) = dstd ti x) by (unfold rm_src, dstd; destruct ti; reflexivity).
    rewrite E1, E2. split; [|reflexivity].
    fold (in_bases b (filter (fun s0 => negb (s_compound s0)) l)).
    destruct (in_bases b (filter (fun s0 => negb (s_compound s0)) l)), (N.eqb b (s_base s)); reflexivity.
Qed.

Lemma in_bases_filter b (p : sref -> bool) l : in_bases b (filter p l) = true -> in_bases b l = true.
Proof.
  unfold in_bases. rewrite !existsb_exists. intros (s & Hs & E). apply filter_In in Hs. exists s. tauto.
Qed.

Lemma in_bases_filter_false b (p : sref -> bool) l : in_bases b l = false -> in_bases b (filter p l) = false.
Proof. intros H. destruct (in_bases b (filter p l)) eqn:E; [|reflexivity]. apply in_bases_filter in E. congruence. Qed.

Lemma in_bases_app b l1 l2 : in_bases b (l1 ++ l2) = in_bases b l1 || in_bases b l2.
Proof. unfold in_bases. apply existsb_app. Qed.

Lemma nodup_base_inj (l : list sref) a c : NoDup (map s_base l) -> In a l -> In c l -> s_base a = s_base c -> a = c.
Proof.
  induction l as [|y l IH]; intros Hnd Ha Hc E; [contradiction|].
  cbn in Hnd. inversion Hnd as [|? ? Hy Hn]; subst.
  destruct Ha as [->|Ha], Hc as [->|Hc]; [reflexivity| | |exact (IH Hn Ha Hc E)].
  - exfalso. apply Hy. rewrite E. apply in_map. exact Hc.
  - exfalso. apply Hy. rewrite <- E. apply in_map. exact Ha.
Qed.

Lemma nodup_app_r {A} (l1 l2 : list A) : NoDup (l1 ++ l2) -> NoDup l2.
Proof. induction l1 as [|a l1 IH]; intros H; [exact H|]. inversion H; subst. apply IH. assumption. Qed.

Lemma aon_moves_effect_mixed mf now ti id : forall g done x,
  NoDup (map s_base (done ++ g)) ->
  let x' := fold_left (apply now) (moves mf ti id done g) x in
  (forall b, in_bases b (done ++ g) = false ->
     find_file b (srcd ti x') = find_file b (srcd ti x) /\ find_file b (dstd ti x') = find_file b (dstd ti x)) /\
  (forall s, In s done ->
     find_file (s_base s) (srcd ti x') = find_file (s_base s) (srcd ti x) /\
     find_file (s_base s) (dstd ti x') = if any_fail_simple mf ti g then None else find_file (s_base s) (dstd ti x)) /\
  (forall s, In s g -> s_compound s = false ->
     find_file (s_base s) (srcd ti x') = None /\
     if any_fail_simple mf ti g
     then find_file (s_base s) (dstd ti x') = None \/ find_file (s_base s) (dstd ti x') = find_file (s_base s) (dstd ti x)
     else find_file (s_base s) (dstd ti x') = find_file (s_base s) (srcd ti x)).
Proof.
  induction g as [|s r IH]; intros done x Hnd; cbn zeta.
  - cbn [moves fold_left]. unfold any_fail_simple, simple_of, any_fail. cbn [filter existsb].
    split; [intros b _; split; reflexivity|]. split; [intros s' _; split; reflexivity|]. intros s' [].
  - pose proof (aon_nodup_mid _ _ _ Hnd) as Hmid.
    assert (Hne : forall s', In s' (done ++ r) -> N.eqb (s_base s') (s_base s) = false).
    { intros s' H. apply N.eqb_neq. intros E. apply Hmid. rewrite <- E. apply in_map. exact H. }
    assert (Hndr : NoDup (map s_base (done ++ r))).
    { rewrite map_app in Hnd |- *. cbn [map] in Hnd. apply NoDup_remove_1 in Hnd. exact Hnd. }
    cbn [moves]. destruct (s_compound s) eqn:K.
    + (* a compound shard: handled in place, then the loop goes on *)
      assert (Haf : any_fail_simple mf ti (s :: r) = any_fail_simple mf ti r).
      { unfold any_fail_simple, simple_of. cbn [filter]. rewrite K. reflexivity. }
      rewrite Haf. rewrite fold_left_app.
      set (pre := if ti then [RmIndex (s_base s); RmTrash (s_base s)] else [TombOrRm (s_base s) id true]).
      set (x1 := fold_left (apply now) pre x).
      assert (Hx1 : forall b, N.eqb b (s_base s) = false ->
                find_file b (srcd ti x1) = find_file b (srcd ti x) /\ find_file b (dstd ti x1) = find_file b (dstd ti x)).
      { intros b Hb. subst x1 pre. destruct ti; cbn [fold_left].
        - destruct (aon_compound_frame_sd now true (s_base s) (RmTrash (s_base s)) (apply now x (RmIndex (s_base s))) b
                      (or_intror (or_introl eq_refl)) Hb) as [A1 A2].
          destruct (aon_compound_frame_sd now true (s_base s) (RmIndex (s_base s)) x b (or_introl eq_refl) Hb) as [B1 B2].
          rewrite A1, A2, B1, B2. split; reflexivity.
        - apply (aon_compound_frame_sd now false (s_base s) (TombOrRm (s_base s) id true) x b); [|exact Hb].
          right. right. eauto. }
      destruct (IH done x1 Hndr) as (F & Dn & G). cbn zeta in F, Dn, G.
      split; [|split].
      * intros b Hb. rewrite in_bases_app in Hb. apply orb_false_iff in Hb as [Hb1 Hb2].
        cbn [in_bases existsb] in Hb2. apply orb_false_iff in Hb2 as [Hb2 Hb3].
        assert (Hb' : in_bases b (done ++ r) = false) by (rewrite in_bases_app, Hb1; exact Hb3).
        destruct (F b Hb') as [F1 F2]. destruct (Hx1 b Hb2) as [T1 T2]. rewrite F1, F2, T1, T2. split; reflexivity.
      * intros s' Hs'. destruct (Dn s' Hs') as [D1 D2].
        destruct (Hx1 (s_base s') (Hne s' (in_or_app _ _ _ (or_introl Hs')))) as [T1 T2].
        rewrite D1, D2, T1, T2. split; reflexivity.
      * intros s' [<- | Hs'] Ks'; [congruence|].
        destruct (G s' Hs' Ks') as [G1 G2].
        destruct (Hx1 (s_base s') (Hne s' (in_or_app _ _ _ (or_intror Hs')))) as [T1 T2].
        split; [exact G1|]. destruct (any_fail_simple mf ti r); [rewrite T2 in G2; exact G2|rewrite G2, T1; reflexivity].
    + assert (Haf : any_fail_simple mf ti (s :: r) = mf ti (s_base s) || any_fail_simple mf ti r).
      { unfold any_fail_simple, simple_of, any_fail. cbn [filter]. rewrite K. reflexivity. }
      rewrite Haf. destruct (mf ti (s_base s)) eqn:Emf; cbn [orb].
      * (* the rename of s fails *)
        cbn [fold_left]. rewrite fold_left_app.
        set (xa := apply now (apply now x (rm_dst ti s)) (rm_dst ti s)).
        destruct (aon_rm_dst_list now ti done xa) as [D1 D2]. cbn zeta in D1, D2.
        set (xb := fold_left (apply now) (map (rm_dst ti) done) xa) in *.
        pose proof (aon_drop_list now ti id (s :: r) xb) as S. cbn zeta in S.
        set (xc := fold_left (apply now) (map (drop ti id) (s :: r)) xb) in *.
        assert (A1 : srcd ti xa = srcd ti x) by (subst xa; unfold rm_dst, srcd; destruct ti; reflexivity).
        assert (A2 : forall b, find_file b (dstd ti xa) = if N.eqb b (s_base s) then None else find_file b (dstd ti x)).
        { intros b. subst xa. unfold rm_dst, dstd. destruct ti; cbn [apply d_index d_trash]; rewrite !aon_find_rm;
            destruct (N.eqb b (s_base s)); reflexivity. }
        assert (Hsd : forall b, in_bases b (compound_of (s :: r)) = false ->
                  find_file b (srcd ti xc) = (if in_bases b (simple_of (s :: r)) then None else find_file b (srcd ti x)) /\
                  find_file b (dstd ti xc) =
                    (if in_bases b done then None else if N.eqb b (s_base s) then None else find_file b (dstd ti x))).
        { intros b Hb. destruct (S b Hb) as [S1 S2]. rewrite S1, S2, D1, A1, D2, A2. split; reflexivity. }
        assert (Hdisj : forall s1 s2, In s1 done -> In s2 (s :: r) -> s_base s1 <> s_base s2).
        { intros s1 s2 H1 H2 E. rewrite map_app in Hnd. apply (NoDup_app_disjoint_ls _ _ Hnd (s_base s1)).
          - apply in_map. exact H1.
          - rewrite E. apply in_map. exact H2. }
        split; [|split].
        -- intros b Hb. rewrite in_bases_app in Hb. apply orb_false_iff in Hb as [Hb1 Hb2].
           destruct (Hsd b (in_bases_filter_false b _ _ Hb2)) as [H1 H2]. rewrite H1, H2.
           unfold simple_of. rewrite (in_bases_filter_false b _ _ Hb2), Hb1.
           cbn [in_bases existsb] in Hb2. apply orb_false_iff in Hb2 as [Hb2 _]. rewrite Hb2. split; reflexivity.
        -- intros s' Hs'.
           assert (Hnot : in_bases (s_base s') (s :: r) = false).
           { apply in_bases_false. intros Hin. apply in_map_iff in Hin as (s2 & E2 & Hin). exact (Hdisj s' s2 Hs' Hin (eq_sym E2)). }
           destruct (Hsd (s_base s') (in_bases_filter_false _ _ _ Hnot)) as [H1 H2]. rewrite H1, H2.
           unfold simple_of. rewrite (in_bases_filter_false _ _ _ Hnot).
           assert (in_bases (s_base s') done = true) as -> by (apply in_bases_true; apply in_map; exact Hs').
           split; reflexivity.
        -- intros s' Hs' Ks'.
           assert (Hndg : NoDup (map s_base (s :: r))).
           { rewrite map_app in Hnd. apply nodup_app_r in Hnd. exact Hnd. }
           assert (Hnc : in_bases (s_base s') (compound_of (s :: r)) = false).
           { destruct (in_bases (s_base s') (compound_of (s :: r))) eqn:E; [|reflexivity].
             unfold in_bases in E. apply existsb_exists in E as (c & Hc & Ec). apply N.eqb_eq in Ec.
             unfold compound_of in Hc. apply filter_In in Hc as [Hc Kc].
             assert (s' = c) by (apply (nodup_base_inj (s :: r)); assumption). subst c. congruence. }
           destruct (Hsd (s_base s') Hnc) as [H1 H2]. rewrite H1, H2.
           assert (in_bases (s_base s') (simple_of (s :: r)) = true) as ->.
           { apply in_bases_true. apply in_map. unfold simple_of. apply filter_In. split; [exact Hs'|rewrite Ks'; reflexivity]. }
           split; [reflexivity|].
           destruct (in_bases (s_base s') done); [left; reflexivity|].
           destruct (N.eqb (s_base s') (s_base s)); [left|right]; reflexivity.
      * (* the rename succeeds *)
        cbn [fold_left].
        set (x1 := apply now (apply now x (rm_dst ti s)) (mv ti s)).
        pose proof (aon_step now ti s x) as Hstep. cbn zeta in Hstep. fold x1 in Hstep.
        assert (Hnd' : NoDup (map s_base ((done ++ [s]) ++ r))) by (rewrite <- app_assoc; exact Hnd).
        destruct (IH (done ++ [s]) x1 Hnd') as (F & Dn & G). cbn zeta in F, Dn, G.
        set (x' := fold_left (apply now) (moves mf ti id (done ++ [s]) r) x1) in *.
        split; [|split].
        -- intros b Hb. assert (Hb' : in_bases b ((done ++ [s]) ++ r) = false) by (rewrite <- app_assoc; exact Hb).
           destruct (F b Hb') as [F1 F2]. rewrite F1, F2.
           destruct (Hstep b) as [T1 T2]. rewrite T1, T2.
           rewrite in_bases_app in Hb. apply orb_false_iff in Hb as [_ Hb].
           cbn [in_bases existsb] in Hb. apply orb_false_iff in Hb as [Hb _]. rewrite Hb. split; reflexivity.
        -- intros s' Hs'. destruct (Dn s' (in_or_app _ _ _ (or_introl Hs'))) as [D1 D2]. rewrite D1, D2.
           destruct (Hstep (s_base s')) as [T1 T2]. rewrite T1, T2.
           rewrite (Hne s' (in_or_app _ _ _ (or_introl Hs'))). split; reflexivity.
        -- assert (Hins : In s (done ++ [s])) by (apply in_or_app; right; left; reflexivity).
           intros s' [<- | Hs'] Ks'.
           ++ destruct (Dn s Hins) as [D1 D2]. rewrite D1, D2.
              destruct (Hstep (s_base s)) as [T1 T2]. rewrite T1, T2, N.eqb_refl. split; [reflexivity|].
              destruct (any_fail_simple mf ti r); [left|]; reflexivity.
           ++ destruct (G s' Hs' Ks') as [G1 G2]. split; [exact G1|].
              destruct (Hstep (s_base s')) as [T1 T2].
              rewrite (Hne s' (in_or_app _ _ _ (or_intror Hs'))) in T1, T2.
              destruct (any_fail_simple mf ti r); [rewrite T2 in G2; exact G2 | rewrite G2, T1; reflexivity].
Qed.

(** ------------------------------------------------------------------ lifted to the whole cleanup:
    a FAILED restore drops the repository completely.  If the rename of ANY trashed shard of an assigned repository
    (first, second, ... shard) fails while cleanup restores it from the trash, then after cleanup no file with the
    name of any of its trashed shards exists, neither in the index nor in the trash: the repository is never left
    partially restored (and no partial copy stays in the trash); it is re-indexed as missing. *)
Definition idx_free (b : N) (x : dir) : Prop := forall g, In g (d_index x) -> f_base g <> b.

Lemma idx_free_step now b a x : safePre b a -> idx_free b x -> idx_free b (apply now x a).
Proof.
  intros Hs Hi.
  assert (OnF : forall b' (g : file -> file) fs, (forall f, f_base (g f) = f_base f) ->
            (forall f, In f fs -> f_base f <> b) -> forall f, In f (on_file b' g fs) -> f_base f <> b).
  { intros b' g fs Hg Hfs f Hin. unfold on_file in Hin. apply in_map_iff in Hin. destruct Hin as [f0 [E Hf0]].
    destruct (N.eqb (f_base f0) b'); subst f; [rewrite Hg|]; auto. }
  unfold idx_free in *.
  destruct a as [b'|b'|b' id' flag|b' id' totr|b'|b'|b'|b'|]; simpl in *.
  - intros g Hg. apply in_rm in Hg. destruct Hg as [Hg _]. auto.
  - exact Hi.
  - apply OnF; [reflexivity|exact Hi].
  - destruct (serves_others b' id' (d_index x)); simpl.
    + apply OnF; [reflexivity|exact Hi].
    + intros g Hg. apply in_rm in Hg. destruct Hg as [Hg _]. auto.
  - apply OnF; [reflexivity|exact Hi].
  - exact Hi.
  - destruct (find_file b' (d_index x)) as [h|] eqn:F; simpl; [|exact Hi].
    intros g Hg. apply in_rm in Hg. destruct Hg as [Hg _]. auto.
  - destruct (find_file b' (d_trash x)) as [h|] eqn:F; simpl; [|exact Hi].
    apply find_file_some in F. destruct F as [Fi Fb].
    intros g Hg. apply in_app_or in Hg. destruct Hg as [Hg|[<-|[]]]; [auto|congruence].
  - exact Hi.
Qed.

Lemma idx_free_fold now b acts : forall x, Forall (safePre b) acts -> idx_free b x -> idx_free b (fold_left (apply now) acts x).
Proof.
  induction acts as [|a r IH]; intros x HF H; [exact H|]. inversion HF; subst. simpl. apply IH; [assumption|].
  apply idx_free_step; assumption.
Qed.

Lemma in_split_first (x : N) l : In x l -> exists l1 l2, l = l1 ++ x :: l2 /\ ~ In x l1.
Proof.
  induction l as [|y l IH]; intros H; [contradiction|].
  destruct (N.eq_dec y x) as [->|Hne].
  - exists [], l. split; [reflexivity|intros []].
  - destruct H as [H|H]; [contradiction|]. destruct (IH H) as (l1 & l2 & E & Hn).
    exists (y :: l1), l2. split; [rewrite E; reflexivity|]. intros [H'|H']; [contradiction|exact (Hn H')].
Qed.

Lemma find_none_notin b fs : find_file b fs = None -> forall f, In f fs -> f_base f <> b.
Proof.
  intros H f Hf E. destruct (find_file_in b fs f Hf E) as [f' H']. congruence.
Qed.

Lemma notin_find_none b fs : (forall f, In f fs -> f_base f <> b) -> find_file b fs = None.
Proof.
  intros H. destruct (find_file b fs) as [g|] eqn:E; [|reflexivity].
  apply find_file_some in E. destruct E as [E1 E2]. exfalso. exact (H g E1 E2).
Qed.

Theorem failed_restore_drops_all : forall d repos now sm mf t e id,
  wf d -> wf_trash d -> In t (d_trash d) -> alive_entries t = [e] -> e_id e = id ->
  In id repos -> In id (trash_keys d now) ->
  f_compound t = false ->
  NoDup (map s_base (group (get_shards (d_trash d)) id)) ->
  any_fail_simple mf true (group (get_shards (d_trash d)) id) = true ->
  no_name (f_base t) (cleanup_f d repos now sm mf).
Proof.
  intros d repos now sm mf t e id Hwf Hwft Ht Hone Hid Hassigned Hkey Hsimple Hnd Hfail.
  set (b := f_base t).
  destruct (in_split_first id repos Hassigned) as (l1 & l2 & Hrep & Hn1).
  assert (Hplan4 : plan4_f d repos now mf =
            flat_map (F4f d now mf) l1 ++ moves mf true id [] (group (tr d) id) ++ flat_map (F4f d now mf) l2).
  { unfold plan4_f. change (flat_map _ repos) with (flat_map (F4f d now mf) repos). rewrite Hrep.
    rewrite flat_map_app. simpl. f_equal. f_equal. unfold F4f at 1. rewrite (key_mem d now id Hkey). reflexivity. }
  unfold cleanup_f, plan_f. rewrite Hplan4. repeat rewrite fold_left_app.
  apply no_name_fold. apply no_name_fold. apply no_name_fold.
  set (x0 := fold_left (apply now) (flat_map (F4f d now mf) l1) (fold_left (apply now) (plan3 d sm) (fold_left (apply now) (plan1 d now) d))).
  assert (Hfree : idx_free b x0).
  { subst x0. apply idx_free_fold.
    { apply (Forall_fst _ (safePost b)). exact (others_safe_f d now mf t e id Hwf Hwft Ht Hone Hid Hkey l1 Hn1). }
    apply idx_free_fold; [exact (pre_plan3 d sm t)|].
    apply idx_free_fold; [exact (pre_plan1 d now t e id Hwft Ht Hone Hid Hkey)|].
    exact (no_index_name d now t e id Hwf Ht Hone Hid Hkey). }
  destruct (get_shards_split (d_trash d) t e (wft_nodup d Hwft) Ht Hone) as (g1 & g2 & Hsp & _ & _).
  set (s0 := mkS (e_id e) (e_name e) (f_base t) (f_compound t) (f_mtime t)) in *.
  assert (Hs0 : In s0 (group (tr d) id)).
  { apply in_group. split; [unfold tr; rewrite Hsp; apply in_or_app; right; left; reflexivity|exact Hid]. }
  destruct (aon_moves_effect_mixed mf now true id (group (tr d) id) [] x0 Hnd) as (_ & _ & G). cbn zeta in G.
  destruct (G s0 Hs0 Hsimple) as [G1 G2]. unfold tr in G2 at 1. rewrite Hfail in G2. cbn [srcd dstd s_base s0] in G1, G2.
  apply notin_find_none in Hfree. subst b x0.
  split.
  - apply find_none_notin. destruct G2 as [G2|G2]; [exact G2|]. rewrite G2. exact Hfree.
  - unfold no_trash_name. apply find_none_notin. exact G1.
Qed.

(** ------------------------------------------------------------------ the trashing direction, whole cleanup:
    an unassigned repository whose simple shards are being moved to the trash and ONE of those renames fails (first,
    second, any) ends up with none of these shards anywhere — not in the index, not in the trash (no partial copy that a
    later cleanup would restore as a partial repository). *)
Definition not_mv_to_trash (b : N) (a : act) : Prop := a <> MvToTrash b.

Lemma trash_free_step now b a x : not_mv_to_trash b a -> no_trash_name b x -> no_trash_name b (apply now x a).
Proof.
  intros Ha Hn. unfold no_trash_name in *.
  destruct a as [b'|b'|b' id' flag|b' id' totr|b'|b'|b'|b'|]; simpl.
  - exact Hn.
  - intros g Hg. apply in_rm in Hg. destruct Hg as [Hg _]. auto.
  - exact Hn.
  - destruct (serves_others b' id' (d_index x)); simpl; [exact Hn|].
    destruct totr; [|exact Hn]. intros g Hg. apply in_rm in Hg. destruct Hg as [Hg _]. auto.
  - exact Hn.
  - intros g Hg. apply in_on_file_touch in Hg. destruct Hg as [g' [Hg' [Eb _]]]. rewrite Eb. auto.
  - destruct (find_file b' (d_index x)) as [h|] eqn:F; simpl; [|exact Hn].
    apply find_file_some in F. destruct F as [Fi Fb].
    intros g Hg. apply in_app_or in Hg. destruct Hg as [Hg|[<-|[]]]; [auto|].
    intros E. apply Ha. unfold not_mv_to_trash. congruence.
  - destruct (find_file b' (d_trash x)) as [h|] eqn:F; simpl; [|exact Hn].
    intros g Hg. apply in_rm in Hg. destruct Hg as [Hg _]. auto.
  - exact Hn.
Qed.

Lemma trash_free_fold now b acts : forall x,
  Forall (not_mv_to_trash b) acts -> no_trash_name b x -> no_trash_name b (fold_left (apply now) acts x).
Proof.
  induction acts as [|a r IH]; intros x HF H; [exact H|]. inversion HF; subst. simpl. apply IH; [assumption|].
  apply trash_free_step; assumption.
Qed.

Definition P5f (d : dir) (sm : bool) (mf : bool -> N -> bool) (i : N) : list act :=
  let g := group (ix d) i in
  map (fun s => Touch (s_base s)) g ++
  map (fun s => Tomb (s_base s) i true) (filter (fun s => sm && s_compound s) g) ++
  moves mf false i [] (filter (fun s => negb (sm && s_compound s)) g).

Section TrashingF.
  Variables (d : dir) (repos : list N) (now : Z) (sm : bool) (mf : bool -> N -> bool).
  Variables (g0 : file) (e : entry) (id : N).
  Hypothesis Hwf : wf d.
  Hypothesis Hwft : wf_trash d.
  Hypothesis Htalive : forall t, In t (d_trash d) -> alive_entries t <> [].   (* the trash holds shards of live repositories *)
  Hypothesis Hg0 : In g0 (d_index d).
  Hypothesis Hsimple0 : f_compound g0 = false.
  Hypothesis He : In e (alive_entries g0).
  Hypothesis Hid : e_id e = id.
  Hypothesis Hun : ~ In id repos.
  Hypothesis Hcons : consistent (group (ix d) id) = true.
  Let G := filter (fun s => negb (sm && s_compound s)) (group (ix d) id).
  Hypothesis HndG : NoDup (map s_base G).
  Hypothesis Hfail : any_fail_simple mf false G = true.   (* the rename of one of its SIMPLE shards fails *)

  Let b := f_base g0.
  Let s0 := mkS (e_id e) (e_name e) (f_base g0) (f_compound g0) (f_mtime g0).

  Lemma tf_s0_group : In s0 (group (ix d) id).
  Proof. apply in_group. split; [|exact Hid]. apply in_get_shards. exists g0, e. auto. Qed.

  Lemma tf_s0_G : In s0 G.
  Proof.
    apply filter_In. split; [exact tf_s0_group|]. cbn [s0 s_compound]. rewrite Hsimple0, andb_false_r. reflexivity.
  Qed.

  Lemma tf_key : In id (keys4 d repos).
  Proof.
    assert (Hix : In id (ids_of (ix d))).
    { apply in_ids_of. exists s0. split; [|exact Hid]. pose proof tf_s0_group as H. apply in_group in H. tauto. }
    unfold keys4, keys3. apply filter_In. split.
    - apply filter_In. split; [exact Hix|exact Hcons].
    - apply negb_true_iff. destruct (memN id repos) eqn:M; [|reflexivity]. apply memN_In in M. contradiction.
  Qed.

  (* an index shard reference with the name of g0 belongs to [id] *)
  Lemma tf_base_owner : forall s i, In s (group (ix d) i) -> s_base s = b -> i = id.
  Proof.
    intros s i Hs Eb. apply in_group in Hs. destruct Hs as [Hs Hi].
    apply in_get_shards in Hs. destruct Hs as [f [e' [Hf [He' ->]]]]. cbn [s_base s_id] in *.
    assert (f = g0) by (eapply NoDup_base_inj; eauto using wf_nodup). subst f.
    rewrite <- Hi, <- Hid. symmetry. eapply wf_simple; eauto.
  Qed.

  Lemma tf_after_plan1 : no_trash_name b (fold_left (apply now) (plan1 d now) d).
  Proof.
    destruct (find_file b (d_trash d)) as [t|] eqn:F.
    - apply find_file_some in F. destruct F as [Ht Eb].
      destruct (alive_entries t) as [|e' rest] eqn:Ea; [exfalso; exact (Htalive t Ht Ea)|].
      assert (He' : In e' (alive_entries t)) by (rewrite Ea; left; reflexivity).
      pose proof (wf_trash_names d Hwf t g0 e' Ht Hg0 Eb He') as Hin.
      assert (Hdrop : trash_drop d now (e_id e') = true).
      { unfold trash_drop. apply orb_true_iff. left. apply memN_In. exact Hin. }
      destruct (trash_dropped_in_first_phase d now t e' (e_id e') Ht He' eq_refl Hdrop) as [_ Hn].
      unfold after_trash_phase in Hn. unfold no_trash_name. rewrite <- Eb. exact Hn.
    - destruct (trash_only_fold now b (plan1 d now) d (plan1_trash_only d now)) as (_ & _ & Hn).
      apply Hn. left. unfold no_trash_name. apply find_none_notin. exact F.
  Qed.

  Lemma tf_plan3 : Forall (not_mv_to_trash b) (plan3 d sm).
  Proof.
    apply Forall_forall. intros a Ha. unfold plan3 in Ha. apply in_flat_map in Ha. destruct Ha as [i [_ Ha]].
    destruct (consistent (group (ix d) i)); [contradiction|].
    apply in_app_or in Ha. destruct Ha as [Ha|Ha]; apply in_map_iff in Ha; destruct Ha as [s [<- _]].
    - discriminate.
    - destruct (s_compound s); discriminate.
  Qed.

  Lemma tf_plan4 : Forall (not_mv_to_trash b) (plan4_f d repos now mf).
  Proof.
    apply Forall_forall. intros a Ha. unfold plan4_f in Ha. apply in_flat_map in Ha. destruct Ha as [i [_ Ha]].
    destruct (memN i (trash_keys d now)).
    - apply moves_in in Ha; [|intros s []]. destruct Ha as [s [_ Hm]]. unfold move_act in Hm.
      destruct Hm as [-> | [-> | [-> _]]]; discriminate.
    - destruct (memN i (tomb_keys d now)); [|contradiction].
      destruct (tomb_pick (tomb_candidates (d_index d) i)); [|contradiction].
      destruct Ha as [<-|[]]. discriminate.
  Qed.

  Lemma tf_P5_other : forall i, i <> id -> Forall (not_mv_to_trash b) (P5f d sm mf i).
  Proof.
    intros i Hne. apply Forall_forall. intros a Ha. unfold P5f in Ha.
    apply in_app_or in Ha. destruct Ha as [Ha|Ha]; [apply in_map_iff in Ha; destruct Ha as [s [<- _]]; discriminate|].
    apply in_app_or in Ha. destruct Ha as [Ha|Ha]; [apply in_map_iff in Ha; destruct Ha as [s [<- _]]; discriminate|].
    apply moves_in in Ha; [|intros s []]. destruct Ha as [s [Hs Hm]]. simpl in Hs.
    apply filter_In in Hs. destruct Hs as [Hs _].
    unfold move_act in Hm. destruct (s_compound s).
    - destruct Hm as [totr ->]. discriminate.
    - destruct Hm as [-> | [-> | ->]]; try discriminate.
      intros E. inversion E as [Eb]. apply Hne. exact (tf_base_owner s i Hs Eb).
  Qed.

  Lemma tf_P5_others : forall l, ~ In id l -> Forall (not_mv_to_trash b) (flat_map (P5f d sm mf) l).
  Proof.
    induction l as [|i l IH]; intros Hn; [constructor|].
    simpl. apply Forall_app. split.
    - apply tf_P5_other. intros ->. apply Hn. left. reflexivity.
    - apply IH. intros H. apply Hn. right. exact H.
  Qed.

  Lemma tf_P5_head : Forall (not_mv_to_trash b)
    (map (fun s => Touch (s_base s)) (group (ix d) id) ++
     map (fun s => Tomb (s_base s) id true) (filter (fun s => sm && s_compound s) (group (ix d) id))).
  Proof.
    apply Forall_app. split; apply Forall_forall; intros a Ha; apply in_map_iff in Ha; destruct Ha as [s [<- _]]; discriminate.
  Qed.

  Theorem failed_trashing_drops_all : no_name b (cleanup_f d repos now sm mf).
  Proof.
    destruct (in_split_first id (keys4 d repos) tf_key) as (k1 & k2 & Hk & Hn1).
    assert (Hplan5 : plan5_f d repos sm mf =
              flat_map (P5f d sm mf) k1 ++
              ((map (fun s => Touch (s_base s)) (group (ix d) id) ++
                map (fun s => Tomb (s_base s) id true) (filter (fun s => sm && s_compound s) (group (ix d) id))) ++
               moves mf false id [] G) ++ flat_map (P5f d sm mf) k2).
    { unfold plan5_f. change (flat_map _ (keys4 d repos)) with (flat_map (P5f d sm mf) (keys4 d repos)). rewrite Hk.
      rewrite flat_map_app. simpl. f_equal. f_equal. unfold P5f at 1. rewrite app_assoc. reflexivity. }
    unfold cleanup_f, plan_f. rewrite Hplan5. repeat rewrite fold_left_app.
    apply no_name_fold. apply no_name_fold.
    set (x0 := fold_left (apply now)
                 (map (fun s => Tomb (s_base s) id true) (filter (fun s => sm && s_compound s) (group (ix d) id)))
                 (fold_left (apply now) (map (fun s => Touch (s_base s)) (group (ix d) id))
                    (fold_left (apply now) (flat_map (P5f d sm mf) k1)
                       (fold_left (apply now) (plan4_f d repos now mf)
                          (fold_left (apply now) (plan3 d sm) (fold_left (apply now) (plan1 d now) d)))))).
    assert (Hfree : no_trash_name b x0).
    { destruct (proj1 (Forall_app _ _ _) tf_P5_head) as [Hh1 Hh2].
      subst x0. apply trash_free_fold; [exact Hh2|]. apply trash_free_fold; [exact Hh1|].
      apply trash_free_fold; [exact (tf_P5_others k1 Hn1)|].
      apply trash_free_fold; [exact tf_plan4|].
      apply trash_free_fold; [exact tf_plan3|]. exact tf_after_plan1. }
    destruct (aon_moves_effect_mixed mf now false id G [] x0 HndG) as (_ & _ & Gf). cbn zeta in Gf.
    destruct (Gf s0 tf_s0_G Hsimple0) as [G1 G2]. rewrite Hfail in G2. cbn [srcd dstd s_base s0] in G1, G2.
    apply notin_find_none in Hfree. subst x0. unfold b in *.
    split.
    - apply find_none_notin. exact G1.
    - unfold no_trash_name. apply find_none_notin. destruct G2 as [G2|G2]; [exact G2|].
      etransitivity; [exact G2|exact Hfree].
  Qed.
End TrashingF.
