(** Invariants of the queue model: heapIdx bookkeeping (shape), heap order, sequence numbers. *)
From ZV Require Import Lib.Base Model.Queue Proofs.QueueHeap Proofs.QueueMap.

Definition qval (q : queue) (k : nat) : bool * bool * Z := prio (item_of (q_items q) (pq_at q k)).
Definition heap_ordered (q : queue) : Prop := ordered lt_prio (qval q) (pq_len q).

(** heapIdx bookkeeping: pq[k].heapIdx = k, items off the heap have -1, heap entries are tracked items *)
Record shape (q : queue) : Prop := {
  sh_nodup : NoDup (keys (q_items q));
  sh_idx1 : forall k, k < pq_len q ->
            exists x, get (pq_at q k) (q_items q) = Some x /\ it_hidx x = Z.of_nat k;
  sh_idx2 : forall id x, get id (q_items q) = Some x ->
            it_hidx x = (-1)%Z \/ ((0 <= it_hidx x < Z.of_nat (pq_len q))%Z /\ pq_at q (Z.to_nat (it_hidx x)) = id)
}.

(** what heap-internal reshuffling leaves alone *)
Definition erase (x : item) : item := set_hidx 0%Z x.
Record frame (q q' : queue) : Prop := {
  fr_cfg : q_cfg q' = q_cfg q;
  fr_seq : q_seq q' = q_seq q;
  fr_keys : keys (q_items q') = keys (q_items q);
  fr_items : forall id, option_map erase (get id (q_items q')) = option_map erase (get id (q_items q))
}.
Lemma frame_refl q : frame q q.
Proof. split; reflexivity. Qed.
Lemma frame_trans a b c : frame a b -> frame b c -> frame a c.
Proof.
  intros [A1 A2 A3 A4] [B1 B2 B3 B4]. split; [congruence | congruence | congruence |]. intro id. rewrite B4. apply A4.
Qed.

Lemma erase_set_hidx h x : erase (set_hidx h x) = erase x.
Proof. reflexivity. Qed.

Lemma frame_modify_hidx q id h : frame q (q_modify q id (set_hidx h)).
Proof.
  split; simpl; try reflexivity.
  - apply keys_modify; auto.
  - intro k. rewrite get_modify by auto. destruct (N.eqb k id); [|reflexivity].
    destruct (get k (q_items q)); reflexivity.
Qed.

Lemma frame_item_of {B} q q' id (f : item -> B) :
  frame q q' -> (forall x, f (erase x) = f x) ->
  f (item_of (q_items q') id) = f (item_of (q_items q) id).
Proof.
  intros F Hf. pose proof (fr_items _ _ F id) as H. unfold item_of.
  destruct (get id (q_items q')) as [x'|], (get id (q_items q)) as [x|]; simpl in H; try discriminate; [|reflexivity].
  assert (H1 : erase x' = erase x) by congruence. transitivity (f (erase x')); [symmetry; apply Hf | rewrite H1; apply Hf].
Qed.

(** * pq_swap *)
Lemma pq_len_swap q i j : pq_len (pq_swap q i j) = pq_len q.
Proof. unfold pq_len, pq_swap; simpl. rewrite !length_upd. reflexivity. Qed.

Lemma pq_at_swap q i j k : i < pq_len q -> j < pq_len q ->
  pq_at (pq_swap q i j) k = pq_at q (transp i j k).
Proof.
  unfold pq_len, pq_at, pq_swap, transp; simpl. intros Hi Hj.
  rewrite !nth_upd, length_upd.
  apply Nat.ltb_lt in Hi, Hj. rewrite Hi, Hj, !Bool.andb_true_r.
  destruct (k =? j) eqn:E1, (k =? i) eqn:E2; try reflexivity.
  apply Nat.eqb_eq in E1, E2. subst. reflexivity.
Qed.

Lemma frame_swap q i j : frame q (pq_swap q i j).
Proof.
  unfold pq_swap. split; simpl; try reflexivity.
  - rewrite !keys_modify by auto. reflexivity.
  - intro k. rewrite !get_modify by auto.
    destruct (N.eqb k (pq_at q i)), (N.eqb k (pq_at q j)), (get k (q_items q)); reflexivity.
Qed.

Lemma qval_frame q q' k : frame q q' -> pq_at q' k = pq_at q k -> qval q' k = qval q k.
Proof.
  intros F H. unfold qval. rewrite H. apply (frame_item_of q q' (pq_at q k) prio F). reflexivity.
Qed.

Lemma qval_swap q i j k : i < pq_len q -> j < pq_len q -> qval (pq_swap q i j) k = qval q (transp i j k).
Proof.
  intros Hi Hj. unfold qval. rewrite pq_at_swap by assumption.
  apply (frame_item_of q (pq_swap q i j) _ prio (frame_swap q i j)). reflexivity.
Qed.

Lemma transp_invol i j k : transp i j (transp i j k) = k.
Proof.
  unfold transp. destruct (k =? i) eqn:E1.
  - apply Nat.eqb_eq in E1. subst. destruct (j =? i) eqn:E2; [apply Nat.eqb_eq in E2; auto | rewrite Nat.eqb_refl; reflexivity].
  - destruct (k =? j) eqn:E2.
    + apply Nat.eqb_eq in E2. subst. rewrite Nat.eqb_refl. reflexivity.
    + rewrite E1, E2. reflexivity.
Qed.
Lemma transp_lt i j k n : i < n -> j < n -> k < n -> transp i j k < n.
Proof. unfold transp. intros. destruct (k =? i); [assumption|]. destruct (k =? j); assumption. Qed.

Lemma shape_pq_inj q k1 k2 : shape q -> k1 < pq_len q -> k2 < pq_len q -> pq_at q k1 = pq_at q k2 -> k1 = k2.
Proof.
  intros S H1 H2 E.
  destruct (sh_idx1 _ S k1 H1) as (x1 & G1 & I1). destruct (sh_idx1 _ S k2 H2) as (x2 & G2 & I2).
  rewrite E in G1. rewrite G1 in G2. inversion G2; subst. lia.
Qed.

Lemma shape_swap q i j : shape q -> i < pq_len q -> j < pq_len q -> shape (pq_swap q i j).
Proof.
  intros S Hi Hj.
  pose proof (shape_pq_inj q i j S Hi Hj) as Hinj.
  split.
  - simpl. rewrite !keys_modify by auto. apply (sh_nodup _ S).
  - intros k Hk. rewrite pq_len_swap in Hk. rewrite pq_at_swap by assumption.
    simpl. rewrite !get_modify by auto.
    assert (Ht : transp i j k < pq_len q) by (apply transp_lt; assumption).
    destruct (sh_idx1 _ S _ Ht) as (x & G & I). rewrite G. unfold transp in *.
    destruct (k =? i) eqn:E1.
    + apply Nat.eqb_eq in E1. subst k. rewrite N.eqb_refl.
      destruct (N.eqb (pq_at q j) (pq_at q i)) eqn:E3; simpl.
      * apply N.eqb_eq in E3. symmetry in E3. apply Hinj in E3. subst j. eexists; split; reflexivity.
      * eexists; split; reflexivity.
    + destruct (k =? j) eqn:E2.
      * apply Nat.eqb_eq in E2. subst k. rewrite N.eqb_refl.
        destruct (N.eqb (pq_at q i) (pq_at q j)); simpl; eexists; split; reflexivity.
      * apply Nat.eqb_neq in E1, E2.
        destruct (N.eqb (pq_at q k) (pq_at q i)) eqn:E3.
        { apply N.eqb_eq in E3. apply (shape_pq_inj q k i S) in E3; [contradiction | assumption | assumption]. }
        destruct (N.eqb (pq_at q k) (pq_at q j)) eqn:E4.
        { apply N.eqb_eq in E4. apply (shape_pq_inj q k j S) in E4; [contradiction | assumption | assumption]. }
        eexists; split; [reflexivity | exact I].
  - intros id x G. rewrite pq_len_swap. simpl in G. rewrite !get_modify in G by auto.
    destruct (N.eqb id (pq_at q i)) eqn:E1.
    + apply N.eqb_eq in E1. subst id.
      assert (Hx : it_hidx x = Z.of_nat j).
      { destruct (N.eqb (pq_at q i) (pq_at q j)); destruct (get (pq_at q i) (q_items q)); simpl in G; inversion G; reflexivity. }
      right. rewrite Hx, Nat2Z.id. split; [lia|]. rewrite pq_at_swap by assumption. rewrite transp_r. reflexivity.
    + destruct (N.eqb id (pq_at q j)) eqn:E2.
      * apply N.eqb_eq in E2. subst id.
        assert (Hx : it_hidx x = Z.of_nat i).
        { destruct (get (pq_at q j) (q_items q)); simpl in G; inversion G; reflexivity. }
        right. rewrite Hx, Nat2Z.id. split; [lia|]. rewrite pq_at_swap by assumption. rewrite transp_l. reflexivity.
      * destruct (sh_idx2 _ S id x G) as [Hm|[Hr Hat]]; [left; exact Hm|]. right. split; [exact Hr|].
        rewrite pq_at_swap by assumption.
        apply N.eqb_neq in E1, E2.
        rewrite transp_other; [exact Hat | |]; intro Hc; rewrite Hc in Hat; congruence.
Qed.

(** on_heap: membership in the heap array, by index *)
Definition on_heap (q : queue) (id : N) : Prop := exists k, k < pq_len q /\ pq_at q k = id.
Lemma on_heap_In q id : on_heap q id <-> In id (q_pq q).
Proof.
  unfold on_heap, pq_len, pq_at. split.
  - intros (k & Hk & E). subst. apply nth_In. exact Hk.
  - intro H. apply In_nth with (d := 0%N) in H. destruct H as (k & Hk & E). eauto.
Qed.
Lemma on_heap_swap q i j id : i < pq_len q -> j < pq_len q -> (on_heap (pq_swap q i j) id <-> on_heap q id).
Proof.
  intros Hi Hj. unfold on_heap. rewrite pq_len_swap. split; intros (k & Hk & E).
  - rewrite pq_at_swap in E by assumption. exists (transp i j k). split; [apply transp_lt; assumption | exact E].
  - exists (transp i j k). split; [apply transp_lt; assumption|]. rewrite pq_at_swap by assumption.
    rewrite transp_invol. exact E.
Qed.

(** * the bundle preserved by up / down *)
Record keep (q0 : queue) (L : nat) (q : queue) : Prop := {
  kp_len : pq_len q = L;
  kp_shape : shape q;
  kp_frame : frame q0 q;
  kp_heap : forall id, on_heap q id <-> on_heap q0 id
}.
Lemma keep_swap q0 L m q i j : m <= L -> i < m -> j < m -> keep q0 L q -> keep q0 L (pq_swap q i j).
Proof.
  intros Hm Hi Hj [K1 K2 K3 K4]. split.
  - rewrite pq_len_swap. exact K1.
  - apply shape_swap; [exact K2 | lia | lia].
  - eapply frame_trans; [exact K3 | apply frame_swap].
  - intro id. rewrite on_heap_swap by lia. apply K4.
Qed.

(** * instantiating the generic container/heap lemmas *)
Lemma q_less_val q i j : pq_less q i j = lt_prio (qval q i) (qval q j).
Proof. reflexivity. Qed.
Lemma q_len_swap q i j : i < pq_len q -> j < pq_len q -> pq_len (pq_swap q i j) = pq_len q.
Proof. intros _ _. apply pq_len_swap. Qed.

Definition q_fix_region_spec := fix_region_spec pq_len pq_less pq_swap qval lt_prio q_less_val q_len_swap qval_swap lt_prio_asym lt_prio_le_trans.
Definition q_heap_fix_spec := heap_fix_spec pq_len pq_less pq_swap qval lt_prio q_less_val q_len_swap qval_swap lt_prio_asym lt_prio_le_trans.
Definition q_heap_remove_pre_spec := heap_remove_pre_spec pq_len pq_less pq_swap qval lt_prio q_less_val q_len_swap qval_swap lt_prio_asym lt_prio_le_trans.
Definition q_heap_pop_pre_spec := heap_pop_pre_spec pq_len pq_less pq_swap qval lt_prio q_less_val q_len_swap qval_swap lt_prio_asym lt_prio_le_trans.
Definition q_up_spec := up_spec pq_len pq_less pq_swap qval lt_prio q_less_val q_len_swap qval_swap lt_prio_asym lt_prio_le_trans.

(** keep + "entry m is x", preserved by swaps strictly below m *)
Definition keep_at (q0 : queue) (L m : nat) (x : N) (q : queue) : Prop := keep q0 L q /\ pq_at q m = x.
Lemma keep_at_swap q0 L m x q i j : m < L -> i < m -> j < m -> keep_at q0 L m x q -> keep_at q0 L m x (pq_swap q i j).
Proof.
  intros Hm Hi Hj [K E]. split; [apply (keep_swap q0 L m); auto; lia|].
  rewrite pq_at_swap by (rewrite (kp_len _ _ _ K); lia). rewrite transp_other by lia. exact E.
Qed.

Lemma keep_refl q : shape q -> keep q (pq_len q) q.
Proof. intro S. split; [reflexivity | exact S | apply frame_refl | tauto]. Qed.

Lemma down_keep q0 L q i n fuel : n <= L -> keep q0 L q -> keep q0 L (fst (down_loop pq_less pq_swap fuel q i n)).
Proof.
  intros Hn K. apply (down_loop_preserves pq_less pq_swap (keep q0 L) n); [|exact K].
  intros s a b Ha Hb Ks. apply (keep_swap q0 L n); auto.
Qed.
Lemma up_keep q0 L q j fuel : j < L -> keep q0 L q -> keep q0 L (up pq_less pq_swap fuel q j).
Proof.
  intros Hj K. apply (up_preserves pq_less pq_swap (keep q0 L) L); [|exact Hj|exact K].
  intros s a b Ha Hb Ks. apply (keep_swap q0 L L); auto.
Qed.
Lemma down_keep_at q0 L m x q i fuel : m < L -> keep_at q0 L m x q -> keep_at q0 L m x (fst (down_loop pq_less pq_swap fuel q i m)).
Proof.
  intros Hm K. apply (down_loop_preserves pq_less pq_swap (keep_at q0 L m x) m); [|exact K].
  intros s a b Ha Hb Ks. apply keep_at_swap; auto.
Qed.
Lemma up_keep_at q0 L m x q j fuel : m < L -> j < m -> keep_at q0 L m x q -> keep_at q0 L m x (up pq_less pq_swap fuel q j).
Proof.
  intros Hm Hj K. apply (up_preserves pq_less pq_swap (keep_at q0 L m x) m); [|exact Hj|exact K].
  intros s a b Ha Hb Ks. apply keep_at_swap; auto.
Qed.

(** * heap.Fix *)
Lemma h_fix_ok q i :
  shape q -> i < pq_len q -> hole_inv lt_prio (qval q) (pq_len q) i ->
  heap_ordered (h_fix q i) /\ keep q (pq_len q) (h_fix q i).
Proof.
  intros S Hi Hh. split.
  - pose proof (q_heap_fix_spec q i Hi Hh) as [H1 H2]. unfold heap_ordered, h_fix. rewrite H2. exact H1.
  - unfold h_fix, heap_fix, down.
    pose proof (down_keep q (pq_len q) q i (pq_len q) (Datatypes.S (pq_len q)) (le_n _) (keep_refl q S)) as K.
    destruct (down_loop pq_less pq_swap (Datatypes.S (pq_len q)) q i (pq_len q)) as [s1 i1]. simpl in K.
    destruct (i <? i1); [exact K | apply up_keep; assumption].
Qed.

(** * pqueue.Pop after the heap has been prepared *)
Lemma nth_removelast {A} (l : list A) k d : k < length l - 1 -> nth k (removelast l) d = nth k l d.
Proof.
  revert k. induction l as [|a l IH]; intros k Hk; [reflexivity|].
  destruct l as [|b l]; [simpl in Hk; lia|].
  destruct k as [|k]; [reflexivity|].
  change (removelast (a :: b :: l)) with (a :: removelast (b :: l)).
  change (nth k (removelast (b :: l)) d = nth k (b :: l) d). apply IH. simpl in *. lia.
Qed.
Lemma length_removelast {A} (l : list A) : length (removelast l) = length l - 1.
Proof.
  induction l as [|a l IH]; [reflexivity|]. destruct l as [|b l]; [reflexivity|].
  change (removelast (a :: b :: l)) with (a :: removelast (b :: l)). simpl length in *. lia.
Qed.

Lemma pq_pop_ok q :
  shape q -> 0 < pq_len q -> ordered lt_prio (qval q) (pq_len q - 1) ->
  let q' := fst (pq_pop q) in
  let id := pq_at q (pq_len q - 1) in
  snd (pq_pop q) = id /\ shape q' /\ heap_ordered q' /\ frame q q' /\ pq_len q' = pq_len q - 1 /\
  (forall id', on_heap q' id' <-> on_heap q id' /\ id' <> id) /\
  (forall k, k < pq_len q - 1 -> pq_at q' k = pq_at q k) /\
  (exists x, get id (q_items q') = Some x /\ it_hidx x = (-1)%Z).
Proof.
  intros S Hl Ho q' id.
  assert (Hlen : pq_len q' = pq_len q - 1) by (unfold q', pq_len; simpl; apply length_removelast).
  assert (Hat : forall k, k < pq_len q - 1 -> pq_at q' k = pq_at q k).
  { intros k Hk. unfold q', pq_at; simpl. apply nth_removelast. exact Hk. }
  assert (F : frame q q').
  { split; unfold q'; simpl; try reflexivity.
    - apply keys_modify; auto.
    - intro k. rewrite get_modify by auto. destruct (N.eqb k (pq_at q (pq_len q - 1))); [|reflexivity].
      destruct (get k (q_items q)); reflexivity. }
  assert (Hne : forall k, k < pq_len q - 1 -> pq_at q k <> id).
  { intros k Hk E. apply (shape_pq_inj q k (pq_len q - 1) S) in E; lia. }
  split; [reflexivity|]. split; [|split; [|split; [exact F|split; [exact Hlen|split; [|split; [exact Hat|]]]]]].
  - split.
    + unfold q'; simpl. rewrite keys_modify by auto. apply (sh_nodup _ S).
    + intros k Hk. rewrite Hlen in Hk. rewrite Hat by exact Hk.
      unfold q'; simpl. rewrite get_modify by auto.
      destruct (N.eqb (pq_at q k) (pq_at q (pq_len q - 1))) eqn:E.
      { apply N.eqb_eq in E. exfalso. apply (Hne k Hk). exact E. }
      apply (sh_idx1 _ S). lia.
    + intros id' x G. rewrite Hlen. unfold q' in G; simpl in G. rewrite get_modify in G by auto.
      fold id in G. destruct (N.eqb id' id) eqn:E.
      * destruct (get id' (q_items q)); simpl in G; inversion G. left. reflexivity.
      * apply N.eqb_neq in E. destruct (sh_idx2 _ S id' x G) as [Hm|[Hr Ha]]; [left; exact Hm|]. right.
        assert (Z.to_nat (it_hidx x) <> pq_len q - 1) by (intro Hc; rewrite Hc in Ha; fold id in Ha; congruence).
        split; [lia|]. rewrite Hat by lia. exact Ha.
  - unfold heap_ordered. rewrite Hlen. intros c Hc.
    assert (parent c < c) by (apply parent_lt; lia).
    rewrite !(qval_frame q q') by (auto; apply Hat; lia). apply Ho. exact Hc.
  - intro id'. unfold on_heap. rewrite Hlen. split.
    + intros (k & Hk & E). rewrite Hat in E by exact Hk. split; [exists k; split; [lia | exact E]|].
      subst id'. apply Hne. exact Hk.
    + intros ((k & Hk & E) & Hn). exists k.
      assert (k <> pq_len q - 1) by (intro Hc; subst k; apply Hn; symmetry; exact E).
      split; [lia|]. rewrite Hat by lia. exact E.
  - destruct (sh_idx1 _ S (pq_len q - 1)) as (x & G & _); [lia|]. fold id in G.
    exists (set_hidx (-1)%Z x). unfold q'; simpl. rewrite get_modify by auto. fold id. rewrite N.eqb_refl, G. split; reflexivity.
Qed.

(** * heap.Remove / heap.Pop / heap.Push on the queue *)
Record removed_ok (q q' : queue) (id : N) : Prop := {
  ro_shape : shape q';
  ro_heap : heap_ordered q';
  ro_frame : frame q q';
  ro_len : pq_len q' = pq_len q - 1;
  ro_on : forall id', on_heap q' id' <-> on_heap q id' /\ id' <> id;
  ro_hidx : exists x, get id (q_items q') = Some x /\ it_hidx x = (-1)%Z
}.

Lemma pop_after_pre q q1 i :
  shape q -> i < pq_len q ->
  keep_at q (pq_len q) (pq_len q - 1) (pq_at q i) q1 ->
  ordered lt_prio (qval q1) (pq_len q - 1) ->
  snd (pq_pop q1) = pq_at q i /\ removed_ok q (fst (pq_pop q1)) (pq_at q i).
Proof.
  intros Sh Hi [K E] Ho.
  pose proof (kp_len _ _ _ K) as HL.
  destruct (pq_pop_ok q1 (kp_shape _ _ _ K)) as (P1 & P2 & P3 & P4 & P5 & P6 & _ & P8); [lia | rewrite HL; exact Ho |].
  rewrite HL in *. rewrite E in *.
  split; [exact P1|]. split; auto.
  - eapply frame_trans; [apply (kp_frame _ _ _ K) | exact P4].
  - intro id'. rewrite P6. rewrite (kp_heap _ _ _ K). tauto.
Qed.

Lemma h_remove_ok q i :
  shape q -> i < pq_len q -> hole_inv lt_prio (qval q) (pq_len q) i ->
  snd (h_remove q i) = pq_at q i /\ removed_ok q (fst (h_remove q i)) (pq_at q i).
Proof.
  intros Sh Hi Hh. unfold h_remove. apply pop_after_pre; auto.
  - unfold heap_remove_pre.
    destruct (pq_len q - 1 =? i) eqn:E.
    { apply Nat.eqb_eq in E. split; [apply keep_refl; exact Sh | rewrite E; reflexivity]. }
    apply Nat.eqb_neq in E. unfold down.
    assert (K1 : keep_at q (pq_len q) (pq_len q - 1) (pq_at q i) (pq_swap q i (pq_len q - 1))).
    { split; [apply (keep_swap q (pq_len q) (pq_len q)); auto; try lia; apply keep_refl; exact Sh|].
      rewrite pq_at_swap by lia. rewrite transp_r. reflexivity. }
    pose proof (down_keep_at q (pq_len q) (pq_len q - 1) (pq_at q i) _ i (Datatypes.S (pq_len q)) ltac:(lia) K1) as K2.
    destruct (down_loop pq_less pq_swap (Datatypes.S (pq_len q)) (pq_swap q i (pq_len q - 1)) i (pq_len q - 1)) as [s2 i2].
    simpl in K2. destruct (i <? i2); [exact K2|]. apply up_keep_at; [lia | lia | exact K2].
  - apply (q_heap_remove_pre_spec q i Hi Hh).
Qed.

Lemma h_pop_ok q :
  shape q -> 0 < pq_len q -> heap_ordered q ->
  snd (h_pop q) = pq_at q 0 /\ removed_ok q (fst (h_pop q)) (pq_at q 0).
Proof.
  intros Sh Hl Ho. unfold h_pop. apply pop_after_pre; auto.
  - unfold heap_pop_pre, down.
    assert (K1 : keep_at q (pq_len q) (pq_len q - 1) (pq_at q 0) (pq_swap q 0 (pq_len q - 1))).
    { split; [apply (keep_swap q (pq_len q) (pq_len q)); auto; try lia; apply keep_refl; exact Sh|].
      rewrite pq_at_swap by lia. rewrite transp_r. reflexivity. }
    destruct (Nat.eq_dec (pq_len q - 1) 0) as [E0|E0].
    + (* single element: down does nothing *)
      rewrite E0 in *. simpl. exact K1.
    + pose proof (down_keep_at q (pq_len q) (pq_len q - 1) (pq_at q 0) _ 0 (Datatypes.S (pq_len q)) ltac:(lia) K1) as K2.
      destruct (down_loop pq_less pq_swap (Datatypes.S (pq_len q)) (pq_swap q 0 (pq_len q - 1)) 0 (pq_len q - 1)) as [s2 i2].
      exact K2.
  - apply (q_heap_pop_pre_spec q Hl Ho).
Qed.

Lemma shape_not_on_heap q id x : shape q -> get id (q_items q) = Some x -> it_hidx x = (-1)%Z -> ~ on_heap q id.
Proof.
  intros Sh G H (k & Hk & E). destruct (sh_idx1 _ Sh k Hk) as (y & Gy & Iy). rewrite E, G in Gy. inversion Gy; subst. lia.
Qed.
Lemma shape_on_heap_hidx q id x : shape q -> get id (q_items q) = Some x -> (0 <= it_hidx x)%Z ->
  Z.to_nat (it_hidx x) < pq_len q /\ pq_at q (Z.to_nat (it_hidx x)) = id.
Proof.
  intros Sh G H. destruct (sh_idx2 _ Sh id x G) as [Hm|[Hr Ha]]; [lia|]. split; [lia | exact Ha].
Qed.
Lemma shape_hidx_cases q id x : shape q -> get id (q_items q) = Some x -> it_hidx x = (-1)%Z \/ (0 <= it_hidx x)%Z.
Proof. intros Sh G. destruct (sh_idx2 _ Sh id x G) as [Hm|[Hr _]]; [left; exact Hm | right; lia]. Qed.

Record pushed_ok (q q' : queue) (id : N) : Prop := {
  po_shape : shape q';
  po_heap : heap_ordered q';
  po_frame : frame q q';
  po_len : pq_len q' = pq_len q + 1;
  po_on : forall id', on_heap q' id' <-> on_heap q id' \/ id' = id
}.

Lemma h_push_ok q id x :
  shape q -> heap_ordered q -> get id (q_items q) = Some x -> it_hidx x = (-1)%Z ->
  pushed_ok q (h_push q id) id.
Proof.
  intros Sh Ho G Hx.
  pose proof (shape_not_on_heap q id x Sh G Hx) as Hoff.
  set (q1 := pq_push q id).
  assert (Hlen : pq_len q1 = pq_len q + 1) by (unfold q1, pq_len; simpl; rewrite app_length; simpl; lia).
  assert (Hat : forall k, k < pq_len q -> pq_at q1 k = pq_at q k).
  { intros k Hk. unfold q1, pq_at; simpl. apply app_nth1. exact Hk. }
  assert (Hlast : pq_at q1 (pq_len q) = id).
  { unfold q1, pq_at, pq_len; simpl. rewrite app_nth2 by lia. rewrite Nat.sub_diag. reflexivity. }
  assert (F : frame q q1).
  { split; unfold q1; simpl; try reflexivity.
    - apply keys_modify; auto.
    - intro k. rewrite get_modify by auto. destruct (N.eqb k id); [|reflexivity]. destruct (get k (q_items q)); reflexivity. }
  assert (Sh1 : shape q1).
  { split.
    - unfold q1; simpl. rewrite keys_modify by auto. apply (sh_nodup _ Sh).
    - intros k Hk. rewrite Hlen in Hk. destruct (Nat.eq_dec k (pq_len q)) as [->|Hne].
      + rewrite Hlast. unfold q1; simpl. rewrite get_modify by auto. rewrite N.eqb_refl, G. simpl.
        eexists; split; reflexivity.
      + rewrite Hat by lia. unfold q1; simpl. rewrite get_modify by auto.
        destruct (N.eqb (pq_at q k) id) eqn:E.
        { apply N.eqb_eq in E. exfalso. apply Hoff. exists k. split; [lia | exact E]. }
        apply (sh_idx1 _ Sh). lia.
    - intros id' y Gy. rewrite Hlen. unfold q1 in Gy; simpl in Gy. rewrite get_modify in Gy by auto.
      destruct (N.eqb id' id) eqn:E.
      + apply N.eqb_eq in E. subst id'. rewrite G in Gy. simpl in Gy. inversion Gy; subst y. simpl.
        right. rewrite Nat2Z.id. split; [lia | exact Hlast].
      + destruct (sh_idx2 _ Sh id' y Gy) as [Hm|[Hr Ha]]; [left; exact Hm|]. right. split; [lia|].
        rewrite Hat by lia. exact Ha. }
  assert (Hq : forall k, k < pq_len q -> qval q1 k = qval q k) by (intros k Hk; apply qval_frame; auto).
  assert (Hh : hole_inv lt_prio (qval q1) (pq_len q1) (pq_len q)).
  { split.
    - intros c Hc Hne _. assert (parent c < c) by (apply parent_lt; lia).
      rewrite !Hq by lia. apply Ho. lia.
    - intros c Hc Hpc _. assert (parent c < c) by (apply parent_lt; lia). lia. }
  assert (Hk : kids_ok lt_prio (qval q1) (pq_len q1) (pq_len q)).
  { intros c Hc Hpc. assert (parent c < c) by (apply parent_lt; lia). lia. }
  unfold h_push. fold q1.
  replace (pq_len q1 - 1) with (pq_len q) by lia.
  destruct (q_up_spec (Datatypes.S (pq_len q1)) q1 (pq_len q) (pq_len q1)) as [U1 U2]; [lia | lia | lia | exact Hh | exact Hk |].
  pose proof (up_keep q1 (pq_len q1) q1 (pq_len q) (Datatypes.S (pq_len q1)) ltac:(lia) (keep_refl q1 Sh1)) as K.
  split.
  - apply (kp_shape _ _ _ K).
  - unfold heap_ordered. rewrite U2. exact U1.
  - eapply frame_trans; [exact F | apply (kp_frame _ _ _ K)].
  - rewrite U2. exact Hlen.
  - intro id'. rewrite (kp_heap _ _ _ K). unfold on_heap. rewrite Hlen. split.
    + intros (k & Hk' & E). destruct (Nat.eq_dec k (pq_len q)) as [->|Hne].
      * right. rewrite Hlast in E. auto.
      * left. exists k. split; [lia|]. rewrite Hat in E by lia. exact E.
    + intros [(k & Hk' & E)| ->].
      * exists k. split; [lia|]. rewrite Hat by lia. exact E.
      * exists (pq_len q). split; [lia | exact Hlast].
Qed.
