(** Proofs about Model/GitWalk.v (C14): CollectFiles / handleEntry merging. *)
From ZV Require Import Lib.Base Model.DirWalk Model.Catfile Model.GitWalk Proofs.DirWalk.

Lemma gkey_eqb_eq : forall a b, gkey_eqb a b = true <-> a = b.
Proof.
  intros [p i] [q j]. unfold gkey_eqb. cbn [fst snd]. rewrite andb_true_iff, bytes_eqb_eq, N.eqb_eq.
  split; [intros [H1 H2]; subst; reflexivity|intro H; inversion H; auto].
Qed.

Lemma gkey_eqb_refl : forall a, gkey_eqb a a = true.
Proof. intro a. apply gkey_eqb_eq. reflexivity. Qed.

Lemma gkey_eqb_neq : forall a b, a <> b -> gkey_eqb a b = false.
Proof. intros a b H. destruct (gkey_eqb a b) eqn:E; [apply gkey_eqb_eq in E; contradiction|reflexivity]. Qed.

(** the branch list recorded for a key ([] when the key is absent) *)
Fixpoint get (k : gkey) (fs : gfiles) : list bytes :=
  match fs with
  | [] => []
  | (k', brs) :: r => if gkey_eqb k' k then brs else get k r
  end.

Definition values_nonempty (fs : gfiles) : Prop := Forall (fun f => snd f <> []) fs.

Lemma get_upsert_same : forall k br fs, get k (upsert k br fs) = get k fs ++ [br].
Proof.
  intros k br. induction fs as [|[k' brs] r IH]; cbn.
  - rewrite gkey_eqb_refl. reflexivity.
  - destruct (gkey_eqb k' k) eqn:E; cbn; rewrite E; [reflexivity|exact IH].
Qed.

Lemma get_upsert_other : forall k k' br fs, k' <> k -> get k (upsert k' br fs) = get k fs.
Proof.
  intros k k' br fs Hne. induction fs as [|[k2 brs] r IH]; cbn.
  - rewrite gkey_eqb_neq by assumption. reflexivity.
  - destruct (gkey_eqb k2 k') eqn:E; cbn.
    + apply gkey_eqb_eq in E. subst k2. rewrite gkey_eqb_neq by assumption. reflexivity.
    + rewrite IH. reflexivity.
Qed.

Lemma upsert_keys : forall k br fs,
  map fst (upsert k br fs) = if existsb (fun f => gkey_eqb (fst f) k) fs then map fst fs else map fst fs ++ [k].
Proof.
  intros k br. induction fs as [|[k' brs] r IH]; cbn; [reflexivity|].
  destruct (gkey_eqb k' k) eqn:E; cbn; [reflexivity|]. rewrite IH. destruct (existsb _ r); reflexivity.
Qed.

Lemma upsert_nodup : forall k br fs, NoDup (map fst fs) -> NoDup (map fst (upsert k br fs)).
Proof.
  intros k br fs H. rewrite upsert_keys. destruct (existsb _ fs) eqn:E; [exact H|].
  apply NoDup_app_intro; [exact H|repeat constructor; intros []|].
  intros x Hx [Hk|[]]. subst x. apply in_map_iff in Hx. destruct Hx as [f [Hf Hin]].
  assert (existsb (fun f0 => gkey_eqb (fst f0) k) fs = true) as C.
  { apply existsb_exists. exists f. split; [exact Hin|]. rewrite Hf. apply gkey_eqb_refl. }
  rewrite C in E. discriminate.
Qed.

Lemma upsert_nonempty : forall k br fs, values_nonempty fs -> values_nonempty (upsert k br fs).
Proof.
  intros k br. induction fs as [|[k' brs] r IH]; intro H; cbn.
  - constructor; [discriminate|constructor].
  - inversion H as [|x l Hx Hl]; subst. destruct (gkey_eqb k' k).
    + constructor; [cbn; destruct brs; discriminate|exact Hl].
    + constructor; [exact Hx|apply IH; exact Hl].
Qed.

(** occurrences of key [k] as a non-ignored file entry: one branch name per occurrence, in order *)
Definition entry_hits (b : gbranch) (k : gkey) (e : gentry) : bool :=
  is_file_mode (ge_mode e) && negb (gb_ignored b (ge_path e)) && gkey_eqb (ge_path e, ge_id e) k.
Definition occ (k : gkey) (b : gbranch) : list bytes :=
  flat_map (fun e => if entry_hits b k e then [gb_name b] else []) (gb_entries b).
Definition occs (k : gkey) (bs : list gbranch) : list bytes := flat_map (occ k) bs.

Lemma get_handle_entry : forall b k fs e,
  get k (handle_entry (gb_ignored b) (gb_name b) fs e) =
  get k fs ++ (if entry_hits b k e then [gb_name b] else []).
Proof.
  intros b k fs e. unfold handle_entry, entry_hits.
  destruct (is_file_mode (ge_mode e)); cbn [andb]; [|symmetry; apply app_nil_r].
  destruct (gb_ignored b (ge_path e)); cbn [negb andb]; [symmetry; apply app_nil_r|].
  destruct (gkey_eqb (ge_path e, ge_id e) k) eqn:E.
  - apply gkey_eqb_eq in E. subst k. apply get_upsert_same.
  - rewrite app_nil_r. apply get_upsert_other. intro H. subst k. rewrite gkey_eqb_refl in E. discriminate.
Qed.

Lemma get_collect_entries : forall b k es fs,
  get k (fold_left (handle_entry (gb_ignored b) (gb_name b)) es fs) =
  get k fs ++ flat_map (fun e => if entry_hits b k e then [gb_name b] else []) es.
Proof.
  intros b k. induction es as [|e es IH]; intro fs; cbn [fold_left flat_map]; [symmetry; apply app_nil_r|].
  rewrite IH, get_handle_entry, <- app_assoc. reflexivity.
Qed.

Lemma get_collect_from : forall k bs fs, get k (fold_left collect_branch bs fs) = get k fs ++ occs k bs.
Proof.
  intros k. induction bs as [|b bs IH]; intro fs; cbn [fold_left]; [symmetry; apply app_nil_r|].
  rewrite IH. unfold collect_branch at 1. rewrite get_collect_entries. unfold occs. cbn [flat_map].
  rewrite <- app_assoc. reflexivity.
Qed.

Lemma handle_entry_inv : forall ig br fs e,
  NoDup (map fst fs) /\ values_nonempty fs ->
  NoDup (map fst (handle_entry ig br fs e)) /\ values_nonempty (handle_entry ig br fs e).
Proof.
  intros ig br fs e [H1 H2]. unfold handle_entry. destruct (is_file_mode _); [|auto]. destruct (ig _); [auto|].
  split; [apply upsert_nodup|apply upsert_nonempty]; assumption.
Qed.

Lemma collect_inv_from : forall bs fs,
  NoDup (map fst fs) /\ values_nonempty fs ->
  NoDup (map fst (fold_left collect_branch bs fs)) /\ values_nonempty (fold_left collect_branch bs fs).
Proof.
  induction bs as [|b bs IH]; intros fs H; cbn [fold_left]; [exact H|]. apply IH.
  unfold collect_branch. generalize dependent fs. induction (gb_entries b) as [|e es IHe]; intros fs H; cbn [fold_left]; [exact H|].
  apply IHe. apply handle_entry_inv. exact H.
Qed.

Lemma in_get : forall fs k brs, NoDup (map fst fs) -> In (k, brs) fs -> get k fs = brs.
Proof.
  induction fs as [|[k' b'] r IH]; intros k brs Hnd Hin; [contradiction|]. cbn in Hnd. inversion Hnd as [|x l Hx Hl]; subst.
  cbn. destruct Hin as [E|Hin].
  - inversion E; subst. rewrite gkey_eqb_refl. reflexivity.
  - destruct (gkey_eqb k' k) eqn:E.
    + apply gkey_eqb_eq in E. subst k'. exfalso. apply Hx. apply in_map_iff. exists (k, brs). auto.
    + apply IH; assumption.
Qed.

Lemma get_in : forall fs k, get k fs <> [] -> In (k, get k fs) fs.
Proof.
  induction fs as [|[k' b'] r IH]; intros k H; cbn in *; [contradiction|].
  destruct (gkey_eqb k' k) eqn:E.
  - apply gkey_eqb_eq in E. subst. left. reflexivity.
  - right. apply IH. exact H.
Qed.

(** collect_spec: one entry per distinct (path, blob); its branch list is exactly the list of
    occurrences of the pair as a non-ignored file entry, in branch order *)
Theorem collect_nodup : forall bs, NoDup (map fst (collect bs)).
Proof. intro bs. apply (collect_inv_from bs []). split; constructor. Qed.

Theorem collect_spec : forall bs k brs,
  In (k, brs) (collect bs) <-> brs = occs k bs /\ brs <> [].
Proof.
  intros bs k brs. pose proof (collect_inv_from bs [] (conj (NoDup_nil _) (Forall_nil _))) as [Hnd Hne].
  fold (collect bs) in Hnd, Hne.
  assert (Hget : get k (collect bs) = occs k bs) by (unfold collect; rewrite get_collect_from; reflexivity).
  split.
  - intro Hin. split.
    + rewrite <- Hget. symmetry. apply in_get; assumption.
    + unfold values_nonempty in Hne. rewrite Forall_forall in Hne. exact (Hne _ Hin).
  - intros [E Hn]. subst brs. rewrite <- Hget. apply get_in. rewrite Hget. exact Hn.
Qed.

(** every collected key stems from a regular / executable / symlink entry that its branch's ignore file
    does not match: no document for a gitlink, a tree, or an ignored path *)
Theorem collect_sources : forall bs k brs,
  In (k, brs) (collect bs) ->
  forall br, In br brs ->
  exists b e, In b bs /\ gb_name b = br /\ In e (gb_entries b) /\ is_file_mode (ge_mode e) = true /\
              gb_ignored b (ge_path e) = false /\ (ge_path e, ge_id e) = k.
Proof.
  intros bs k brs Hin br Hbr. apply collect_spec in Hin. destruct Hin as [E _]. subst brs.
  unfold occs in Hbr. apply in_flat_map in Hbr. destruct Hbr as [b [Hb Hbr]].
  unfold occ in Hbr. apply in_flat_map in Hbr. destruct Hbr as [e [He Hbr]].
  destruct (entry_hits b k e) eqn:Hh; [|contradiction]. destruct Hbr as [Hbr|[]].
  unfold entry_hits in Hh. apply andb_true_iff in Hh. destruct Hh as [Hh Hk]. apply andb_true_iff in Hh. destruct Hh as [Hf Hi].
  exists b, e. repeat split; auto.
  - destruct (gb_ignored b (ge_path e)); [discriminate|reflexivity].
  - apply gkey_eqb_eq. exact Hk.
Qed.

Theorem no_submodule_docs : forall bs path id,
  (forall b e, In b bs -> In e (gb_entries b) -> ge_path e = path -> ge_id e = id -> is_file_mode (ge_mode e) = false) ->
  ~ In (path, id) (map fst (collect bs)).
Proof.
  intros bs path id H Hin. apply in_map_iff in Hin. destruct Hin as [[k brs] [Hk Hin]]. cbn in Hk. subst k.
  pose proof Hin as Hin'. apply collect_spec in Hin'. destruct Hin' as [_ Hne].
  destruct brs as [|br brs]; [contradiction|].
  destruct (collect_sources _ _ _ Hin br (or_introl eq_refl)) as (b & e & Hb & _ & He & Hf & _ & Hk).
  inversion Hk. rewrite (H b e Hb He) in Hf; [discriminate|assumption|assumption].
Qed.

(** in a repository (a path occurs at most once per tree) a branch contributes its name at most once:
    the branch list is the list of the branches whose tree has the pair, in order *)
Definition branch_has (k : gkey) (b : gbranch) : bool := existsb (entry_hits b k) (gb_entries b).

Lemma occ_unique : forall k b,
  NoDup (map ge_path (gb_entries b)) ->
  occ k b = if branch_has k b then [gb_name b] else [].
Proof.
  intros k b. unfold occ, branch_has. induction (gb_entries b) as [|e es IH]; intro Hnd; [reflexivity|].
  cbn in Hnd. inversion Hnd as [|x l Hx Hl]; subst. cbn [flat_map existsb]. rewrite (IH Hl).
  destruct (entry_hits b k e) eqn:E; cbn [orb app]; [|reflexivity].
  destruct (existsb (entry_hits b k) es) eqn:E2; [|reflexivity]. exfalso.
  apply existsb_exists in E2. destruct E2 as [e2 [Hin2 Hh2]]. apply Hx.
  unfold entry_hits in E, Hh2. apply andb_true_iff in E. destruct E as [_ E]. apply andb_true_iff in Hh2. destruct Hh2 as [_ Hh2].
  apply gkey_eqb_eq in E. apply gkey_eqb_eq in Hh2. rewrite <- Hh2 in E. inversion E as [[Hp Hi]].
  rewrite Hp. apply in_map. exact Hin2.
Qed.

Theorem collect_branches_exact : forall bs k brs,
  Forall (fun b => NoDup (map ge_path (gb_entries b))) bs ->
  In (k, brs) (collect bs) -> brs = map gb_name (filter (branch_has k) bs).
Proof.
  intros bs k brs Hwf Hin. apply collect_spec in Hin. destruct Hin as [E _]. subst brs. unfold occs.
  induction Hwf as [|b bs Hb Hbs IH]; [reflexivity|]. cbn [flat_map filter]. rewrite IH, (occ_unique k b Hb).
  destruct (branch_has k b); reflexivity.
Qed.

(** ---------- documents of the go-git path *)

Theorem docs_gogit_spec : forall size_max large_ok blobs bs d,
  In d (docs_gogit size_max large_ok blobs bs) <->
  exists path id brs, In ((path, id), brs) (collect bs) /\ d = doc_gogit size_max large_ok blobs ((path, id), brs).
Proof.
  intros. unfold docs_gogit. rewrite in_map_iff. split.
  - intros [[[p i] brs] [E Hin]]. exists p, i, brs. auto.
  - intros (p & i & brs & Hin & E). exists ((p, i), brs). auto.
Qed.

(** a document's name, branch list and content: the blob seen through Builder.Add's skip rules; a LargeFiles match
    lifts the size limit *)
Theorem doc_gogit_content : forall size_max large_ok blobs path id brs c,
  lookup_blob id blobs = Some c ->
  let d := doc_gogit size_max large_ok blobs ((path, id), brs) in
  gd_name d = path /\ gd_branches d = brs /\
  gd_content d = builder_view (if large_ok path then length c else size_max) c.
Proof.
  intros size_max large_ok blobs path id brs c Hc. unfold doc_gogit. rewrite Hc. cbn [gd_name gd_branches gd_content].
  split; [reflexivity|]. split; [reflexivity|]. unfold add_view.
  destruct (large_ok path); cbn [negb]; [rewrite andb_false_r; reflexivity|]. rewrite andb_true_r.
  destruct (size_max <? length c) eqn:E; [|reflexivity]. unfold builder_view. rewrite E. reflexivity.
Qed.
