(** C03 — chunk matches: chunkCandidates, columnHelper threading, fillContentChunkMatches. *)
From ZV Require Import Lib.Base Lib.GoSearch Lib.RuneCount Model.Lines Proofs.LinesBasic Proofs.RuneCountProofs Proofs.LinesMatch.
From Coq Require Import ZifyBool ZifyNat Sorting.Sorted.

Section Content.
Variable c : list N.
Let nls := newlines_of c.
Notation LS := (line_start nls).
Notation AT := (at_offset nls).

Lemma line_start_at_le : forall off, off <= length c -> LS (AT off) <= off.
Proof.
  intros off H. destruct (Nat.eq_dec off (length c)) as [->|Hne].
  - apply line_start_clamped.
  - apply (at_offset_in_line c off). lia.
Qed.

(** the end of a range lies inside (or at the end of) the line of its last byte *)
Lemma end_le_line_end : forall s e, s <= e -> e <= length c ->
  e <= LS (AT (Nat.max s (Nat.max e 1 - 1)) + 1).
Proof.
  intros s e Hse He.
  destruct (Nat.eq_dec s e) as [->|Hne].
  - replace (Nat.max e (Nat.max e 1 - 1)) with e by lia.
    destruct (Nat.eq_dec e (length c)) as [->|Hne2].
    + unfold nls. rewrite line_start_spec, at_offset_spec.
      rewrite firstn_all. rewrite after_nl_all; lia.
    + pose proof (at_offset_in_line c e ltac:(lia)) as H. cbv zeta in H. fold nls in H. lia.
  - replace (Nat.max s (Nat.max e 1 - 1)) with (e - 1) by lia.
    pose proof (at_offset_in_line c (e - 1) ltac:(lia)) as H. cbv zeta in H. fold nls in H. lia.
Qed.

Lemma at_offset_ge1 : forall off, (1 <= AT off)%Z.
Proof. intros. apply (at_offset_range c off). Qed.

Lemma at_offset_mono : forall a b, a <= b -> (AT a <= AT b)%Z.
Proof. intros a b H. unfold nls. rewrite !at_offset_spec. pose proof (count_nl_firstn_le c a b H). lia. Qed.

(** ---- chunkCandidates *)
Variable ctx : Z.
Hypothesis Hctx : (0 <= ctx)%Z.

Definition chunk_inv (ch : chunk) : Prop :=
  ch_cands ch <> [] /\ (1 <= ch_first ch <= ch_last ch)%Z /\
  Forall (fun x => (LS (ch_first ch) <= c_off x /\ (ch_first ch <= AT (c_off x))%Z) /\ c_end x <= ch_max ch) (ch_cands ch) /\
  ch_max ch <= LS (ch_last ch + 1).

(** consecutive chunks (the accumulator is reversed: newest first) are separated by more than
    2*ctx lines — the negation of the merge rule *)
Fixpoint separated (acc : list chunk) : Prop :=
  match acc with
  | c2 :: ((c1 :: _) as r) => (ch_last c1 + ctx < ch_first c2 - ctx)%Z /\ separated r
  | _ => True
  end.

Definition acc_cands (acc : list chunk) : list cand := flat_map ch_cands (rev acc).

Lemma chunk_step_inv : forall acc m,
  c_end m <= length c ->
  Forall chunk_inv acc -> separated acc ->
  (forall x, In x (acc_cands acc) -> c_off x <= c_off m) ->
  Forall chunk_inv (chunk_step nls ctx acc m) /\ separated (chunk_step nls ctx acc m) /\
  acc_cands (chunk_step nls ctx acc m) = acc_cands acc ++ [m].
Proof.
  intros acc m Hb Hinv Hsep Hle. unfold chunk_step, range_lines.
  set (s := c_off m). set (e := c_end m).
  set (fl := AT s). set (ll := AT (Nat.max s (Nat.max e 1 - 1))).
  assert (Hse : s <= e) by (unfold s, e, c_end; lia).
  assert (Hend : e <= LS (ll + 1)) by (apply end_le_line_end; auto).
  assert (Hst : LS fl <= s) by (apply line_start_at_le; lia).
  pose proof (at_offset_ge1 s) as Hfl. fold fl in Hfl.
  assert (Hfl_ll : (fl <= ll)%Z) by (apply at_offset_mono; lia).
  assert (Hnew : chunk_inv {| ch_cands := [m]; ch_first := fl; ch_last := ll; ch_min := s; ch_max := e |}).
  { unfold chunk_inv; simpl. repeat split; auto; try discriminate; try lia. constructor; [|constructor]. fold s e fl. lia. }
  destruct acc as [|lastc rest].
  - simpl. repeat split; auto.
  - inversion Hinv as [|? ? Hl Hr]; subst.
    destruct (fl - ctx <=? ch_last lastc + ctx)%Z eqn:Em.
    + (* merge into the last chunk *)
      destruct Hl as [L1 [[L2 L2'] [L3 L4]]].
      assert (Hx : exists x, In x (ch_cands lastc)) by (destruct (ch_cands lastc) as [|x ?]; [congruence|exists x; now left]).
      destruct Hx as [x0 Hx0].
      assert (Hx0le : c_off x0 <= s).
      { apply Hle. unfold acc_cands. simpl. rewrite flat_map_app. apply in_or_app. right. simpl. rewrite app_nil_r. exact Hx0. }
      assert (Hfirst : LS (ch_first lastc) <= s /\ (ch_first lastc <= fl)%Z).
      { rewrite Forall_forall in L3. destruct (L3 x0 Hx0) as [[F1 F2] _].
        pose proof (at_offset_mono (c_off x0) s Hx0le). fold fl in H. lia. }
      split; [|split].
      * constructor; auto.
        destruct (ch_max lastc <? e) eqn:Emax; unfold chunk_inv; simpl.
        -- split; [destruct (ch_cands lastc); discriminate|]. split; [lia|]. split; auto.
           apply Forall_app. split.
           ++ eapply Forall_impl; [|exact L3]. intros x [X1 X2]. split; auto. lia.
           ++ constructor; [|constructor]. fold s e fl. lia.
        -- split; [destruct (ch_cands lastc); discriminate|]. split; [lia|]. split; auto.
           apply Forall_app. split; auto. constructor; [|constructor]. fold s e fl. lia.
      * destruct rest as [|c1 rest']; simpl; auto.
        simpl in Hsep. destruct (ch_max lastc <? e); simpl; exact Hsep.
      * unfold acc_cands. simpl. rewrite !flat_map_app. simpl. rewrite !app_nil_r.
        destruct (ch_max lastc <? e); simpl; now rewrite app_assoc.
    + (* a new chunk *)
      split; [|split].
      * constructor; auto.
      * simpl. split; auto. lia.
      * unfold acc_cands. simpl. rewrite !flat_map_app. simpl. rewrite !app_nil_r. reflexivity.
Qed.

Lemma chunk_fold_inv : forall ms acc,
  Forall (fun m => c_end m <= length c) ms -> off_sorted ms ->
  Forall chunk_inv acc -> separated acc ->
  (forall x m, In x (acc_cands acc) -> In m ms -> c_off x <= c_off m) ->
  let acc' := fold_left (chunk_step nls ctx) ms acc in
  Forall chunk_inv acc' /\ separated acc' /\ acc_cands acc' = acc_cands acc ++ ms.
Proof.
  induction ms as [|m r IH]; intros acc Hb Hs Hinv Hsep Hle; simpl.
  - rewrite app_nil_r. auto.
  - inversion Hb as [|? ? Hbm Hbr]; subst. inversion Hs as [|? ? Hsr Hmr]; subst.
    destruct (chunk_step_inv acc m Hbm Hinv Hsep) as [A [B C]].
    { intros x Hx. apply Hle; auto. now left. }
    destruct (IH (chunk_step nls ctx acc m) Hbr Hsr A B) as [A' [B' C']].
    { intros x m' Hx Hm'. rewrite C in Hx. apply in_app_or in Hx. destruct Hx as [Hx|[<-|[]]].
      - apply Hle; auto. now right.
      - rewrite Forall_forall in Hmr. apply Hmr; auto. }
    repeat split; auto. rewrite C', C, <- app_assoc. reflexivity.
Qed.

(** the chunks as a list in file order: invariants, separation, and partition of the candidates *)
Fixpoint separated_fwd (cs : list chunk) : Prop :=
  match cs with
  | c1 :: ((c2 :: _) as r) => (ch_last c1 + ctx < ch_first c2 - ctx)%Z /\ separated_fwd r
  | _ => True
  end.

Lemma sep_snoc : forall l c1 c2, separated_fwd (l ++ [c1]) ->
  (ch_last c1 + ctx < ch_first c2 - ctx)%Z -> separated_fwd (l ++ [c1; c2]).
Proof.
  induction l as [|a l' IH]; intros c1 c2 H Hc; [simpl; auto|].
  destruct l' as [|b l'']; [simpl in *; tauto|].
  change ((a :: b :: l'') ++ [c1; c2]) with (a :: b :: (l'' ++ [c1; c2])).
  change ((a :: b :: l'') ++ [c1]) with (a :: b :: (l'' ++ [c1])) in H.
  destruct H as [H1 H2]. split; auto. apply (IH c1 c2); auto.
Qed.

Lemma separated_rev : forall acc, separated acc -> separated_fwd (rev acc).
Proof.
  induction acc as [|c2 r IH]; intros H; simpl; auto.
  destruct r as [|c1 r']; [simpl; auto|].
  destruct H as [H1 H2]. specialize (IH H2). simpl in IH |- *.
  rewrite <- app_assoc. apply sep_snoc; auto.
Qed.

Theorem chunk_candidates_spec : forall ms,
  Forall (fun m => c_end m <= length c) ms -> off_sorted ms ->
  let cs := chunk_candidates nls ctx ms in
  Forall chunk_inv cs /\ separated_fwd cs /\ flat_map ch_cands cs = ms.
Proof.
  intros ms Hb Hs. unfold chunk_candidates.
  destruct (chunk_fold_inv ms [] Hb Hs) as [A [B C]].
  { constructor. } { exact I. } { intros x m []. }
  split; [apply Forall_rev; exact A|]. split; [apply separated_rev; exact B|exact C].
Qed.

(** ---- ranges with columns, chunk output *)
Definition range_spec (m : cand) : loc * loc :=
  let '(sl, el) := range_lines nls (c_off m) (c_end m) in
  ({| l_off := c_off m; l_line := sl; l_col := S (rune_count (slice c (LS sl) (c_off m))) |},
   {| l_off := c_end m; l_line := el; l_col := S (rune_count (slice c (LS el) (c_end m))) |}).

(** start and end of the candidate are rune boundaries of their lines (always so for the matches
    that the search produces: substring and regexp matching work on decoded runes) *)
Definition cand_bnd (m : cand) : Prop :=
  let '(sl, el) := range_lines nls (c_off m) (c_end m) in
  boundary (skipn (LS sl) c) (c_off m - LS sl) /\ boundary (skipn (LS el) c) (c_end m - LS el).

Definition chunk_cand_ok (m : cand) : Prop := c_end m <= length c /\ cand_bnd m.

Lemma ranges_of_exact : forall ms st, col_good c st -> Forall chunk_cand_ok ms ->
  exists st', ranges_of nls c st ms = Ok (st', map range_spec ms) /\ col_good c st'.
Proof.
  induction ms as [|m r IH]; intros st Hg Hall; simpl.
  - exists st. auto.
  - inversion Hall as [|? ? [Hb Hbd] Hr]; subst.
    unfold cand_bnd, range_spec in *. unfold range_lines in *.
    set (s := c_off m) in *. set (e := c_end m) in *.
    assert (Hse : s <= e) by (unfold s, e, c_end; lia).
    destruct Hbd as [B1 B2].
    assert (L1 : LS (AT s) <= s) by (apply line_start_at_le; lia).
    assert (L2 : LS (AT (Nat.max s (Nat.max e 1 - 1))) <= e).
    { pose proof (line_start_at_le (Nat.max s (Nat.max e 1 - 1)) ltac:(lia)). lia. }
    destruct (col_get_correct c st _ s Hg L1 ltac:(lia) B1) as [st1 [E1 G1]].
    rewrite E1. simpl.
    destruct (col_get_correct c st1 _ e G1 L2 Hb B2) as [st2 [E2 G2]].
    rewrite E2. simpl.
    destruct (IH st2 G2 Hr) as [st3 [E3 G3]]. rewrite E3. simpl.
    exists st3. split; auto.
Qed.

Definition chunk_spec (ch : chunk) : chunkmatch :=
  let fln := Z.max (ch_first ch - ctx) 1 in
  {| cm_content := lines_between c fln (ch_last ch + ctx + 1);
     cm_start := {| l_off := LS fln; l_line := fln; l_col := 1 |};
     cm_ranges := map range_spec (ch_cands ch); cm_fn := false |}.

Lemma chunks_out_exact : forall cs st, col_good c st ->
  Forall (fun ch => Forall chunk_cand_ok (ch_cands ch)) cs ->
  chunks_out nls c ctx st cs = Ok (map chunk_spec cs).
Proof.
  induction cs as [|ch r IH]; intros st Hg Hall; simpl; auto.
  inversion Hall as [|? ? Hc Hr]; subst.
  destruct (ranges_of_exact (ch_cands ch) st Hg Hc) as [st' [E G]].
  rewrite E. simpl. unfold nls. rewrite get_lines_spec. simpl.
  fold nls. rewrite (IH st' G Hr). reflexivity.
Qed.

(** sortedness by sortByOffsetSlice.Less of content candidates implies sortedness by offset *)
Lemma sorted_by_less_off_sorted : forall ms,
  Forall (fun m => c_fn m = false) ms -> is_sorted_by cand_less ms = true -> off_sorted ms.
Proof.
  intros ms Hfn Hs. apply Sorted_StronglySorted.
  { intros x y z Hxy Hyz. lia. }
  induction ms as [|a r IH]; [constructor|].
  inversion Hfn as [|? ? Ha Hr]; subst.
  destruct r as [|b r'].
  - repeat constructor.
  - simpl in Hs. apply andb_true_iff in Hs. destruct Hs as [H1 H2].
    constructor; [apply IH; auto|]. constructor.
    inversion Hr as [|? ? Hb _]; subst.
    unfold cand_less in H1. rewrite Ha, Hb in H1. simpl in H1.
    destruct (c_off b =? c_off a) eqn:E; [lia|].
    apply negb_true_iff in H1. lia.
Qed.

(** Main theorem on fillContentChunkMatches. *)
Theorem fill_content_chunk_matches_spec : forall ms,
  Forall (fun m => c_fn m = false) ms -> is_sorted_by cand_less ms = true ->
  Forall chunk_cand_ok ms ->
  let cs := chunk_candidates nls ctx ms in
  fill_content_chunk_matches nls c ctx ms = Ok (map chunk_spec cs) /\
  Forall chunk_inv cs /\ separated_fwd cs /\ flat_map ch_cands cs = ms.
Proof.
  intros ms Hfn Hs Hok cs.
  assert (Hoff : off_sorted ms) by (apply sorted_by_less_off_sorted; auto).
  assert (Hb : Forall (fun m => c_end m <= length c) ms).
  { eapply Forall_impl; [|exact Hok]. intros m [H _]. exact H. }
  destruct (chunk_candidates_spec ms Hb Hoff) as [A [B C]]. fold cs in A, B, C.
  repeat split; auto.
  unfold fill_content_chunk_matches. rewrite Hs. fold cs.
  apply chunks_out_exact; [apply col_good_init|].
  (* every candidate of every chunk is one of ms *)
  rewrite Forall_forall. intros ch Hch. rewrite Forall_forall. intros x Hx.
  rewrite Forall_forall in Hok. apply Hok. rewrite <- C.
  apply in_flat_map. exists ch. auto.
Qed.

(** consequences in byte terms: a chunk's content is whole lines that contain all its ranges; the
    contents of consecutive chunks are ordered and do not overlap *)
Definition cm_end (cm : chunkmatch) : nat := l_off (cm_start cm) + length (cm_content cm).

Lemma chunk_spec_content : forall ch,
  cm_content (chunk_spec ch) = slice c (LS (Z.max (ch_first ch - ctx) 1)) (LS (ch_last ch + ctx + 1)) /\
  cm_end (chunk_spec ch) = Nat.max (LS (Z.max (ch_first ch - ctx) 1)) (LS (ch_last ch + ctx + 1)).
Proof.
  intros ch. unfold cm_end, chunk_spec; simpl.
  set (a := Z.max (ch_first ch - ctx) 1). set (b := (ch_last ch + ctx + 1)%Z).
  pose proof (get_lines_spec c a b) as H. unfold get_lines in H. fold nls in H.
  pose proof (line_start_clamped c b) as Hc. fold nls in Hc.
  destruct (b <=? a)%Z eqn:E.
  - unfold lines_between, slice. replace (Z.to_nat (b - 1) - Z.to_nat (a - 1)) with 0 by lia.
    pose proof (line_start_mono c b a ltac:(lia)) as Hm. fold nls in Hm.
    replace (LS b - LS a) with 0 by lia. simpl. split; auto. lia.
  - pose proof (line_start_mono c a b ltac:(lia)) as Hm. fold nls in Hm.
    unfold go_slice in H. destruct ((LS a <=? LS b) && (LS b <=? length c)) eqn:E2; [|lia].
    injection H as H. unfold lines_between. rewrite <- H. split; auto.
    rewrite slice_length_le by lia. lia.
Qed.

Theorem chunk_contains_ranges : forall ch, chunk_inv ch ->
  Forall (fun x => l_off (cm_start (chunk_spec ch)) <= c_off x /\ c_end x <= cm_end (chunk_spec ch)) (ch_cands ch).
Proof.
  intros ch [_ [I2 [I3 I4]]].
  destruct (chunk_spec_content ch) as [_ He]. rewrite He. simpl.
  eapply Forall_impl; [|exact I3]. intros x [[X1 _] X2].
  pose proof (line_start_mono c (Z.max (ch_first ch - ctx) 1) (ch_first ch) ltac:(lia)) as M1.
  pose proof (line_start_mono c (ch_last ch + 1) (ch_last ch + ctx + 1) ltac:(lia)) as M2.
  fold nls in M1, M2. lia.
Qed.

Theorem chunks_ordered_disjoint : forall c1 c2, chunk_inv c1 ->
  (ch_last c1 + ctx < ch_first c2 - ctx)%Z ->
  cm_end (chunk_spec c1) <= l_off (cm_start (chunk_spec c2)).
Proof.
  intros c1 c2 [_ [I2 _]] Hsep.
  destruct (chunk_spec_content c1) as [_ He]. rewrite He. simpl.
  pose proof (line_start_mono c (Z.max (ch_first c1 - ctx) 1) (ch_last c1 + ctx + 1) ltac:(lia)) as M1.
  pose proof (line_start_mono c (ch_last c1 + ctx + 1) (Z.max (ch_first c2 - ctx) 1) ltac:(lia)) as M2.
  fold nls in M1, M2. lia.
Qed.

End Content.
