(** Proofs about Model/TenantLoop.v (C23, C17): the document loop of indexData.Search with the guard
    sequence and the ShardRepoMaxMatchCount / ShardMaxMatchCount / cancellation control flow. *)
From ZV Require Import Lib.Base Model.Tenant Proofs.Tenant Model.TenantLoop.
From Coq Require Import Lia ZifyBool.
Open Scope Z_scope.

(** what a document must satisfy to be returned: every guard of the skip loop that does not depend on the options *)
Definition doc_ok (strict : bool) (c : tctx) (x : fdoc) : bool :=
  let '(_, r, d) := x in negb (r_tomb r) && has_access strict c (r_tenant r) && negb (d_ftomb d).

Lemma guards_pass_ok : forall strict c o st x, guards_pass strict c o st x = true -> doc_ok strict c x = true.
Proof.
  intros strict c o st [[rid r] d] H. unfold guards_pass in H. unfold doc_ok.
  destruct (r_tomb r); [discriminate|].
  destruct (has_access strict c (r_tenant r)); [|discriminate].
  destruct (d_ftomb d); [discriminate|]. reflexivity.
Qed.

Lemma skip_loop_spec : forall strict c o st rest x rest',
  skip_loop strict c o st rest = Some (x, rest') ->
  exists pre, rest = pre ++ x :: rest' /\ guards_pass strict c o st x = true /\
              Forall (fun y => guards_pass strict c o st y = false) pre.
Proof.
  intros strict c o st rest. induction rest as [|y t IH]; intros x rest' H; cbn in H; [discriminate|].
  destruct (guards_pass strict c o st y) eqn:G.
  - inversion H; subst. exists []. repeat split; auto.
  - destruct (IH _ _ H) as (pre & E & Gx & Fp). exists (y :: pre). subst t. repeat split; auto.
Qed.

Lemma In_skipn : forall A (n : nat) (l : list A) x, In x (skipn n l) -> In x l.
Proof.
  intros A n. induction n as [|n IH]; intros l x H; [exact H|].
  destruct l as [|y l]; [exact H|]. right. apply IH. exact H.
Qed.

(** one unfolding of the outer loop *)
Lemma doc_loop_S : forall strict c o nd cancel m w total fuel rest st,
  doc_loop strict c o nd cancel m w total (S fuel) rest st =
  let pos := (total - length rest)%nat in
  match skip_loop strict c o st (skipn (nd pos - pos)%nat rest) with
  | None => []
  | Some ((rid, r, d), rest') =>
      let st1 := if Nat.eqb (ls_lastrepo st) rid then st
                 else {| ls_lastrepo := rid; ls_rmc := 0; ls_mc := ls_mc st |} in
      if cancel pos || ((o_shardmax o <=? ls_mc st1) && (0 <? o_shardmax o)) then []
      else if m r d then
        mk_fm r d :: doc_loop strict c o nd cancel m w total fuel rest'
                       {| ls_lastrepo := ls_lastrepo st1; ls_rmc := ls_rmc st1 + w r d; ls_mc := ls_mc st1 + w r d |}
      else doc_loop strict c o nd cancel m w total fuel rest' st1
  end.
Proof. reflexivity. Qed.

(** every file match produced by the loop — whatever the options, the iterator, the cancellation points, the
    match counts and the fuel — comes from a document that passes the tombstone, tenant and file-tombstone guards
    and satisfies the query *)
Lemma doc_loop_In : forall strict c o nd cancel m w total fuel rest st f,
  In f (doc_loop strict c o nd cancel m w total fuel rest st) ->
  exists rid r d, In (rid, r, d) rest /\ doc_ok strict c (rid, r, d) = true /\ m r d = true /\ f = mk_fm r d.
Proof.
  intros strict c o nd cancel m w total fuel. induction fuel as [|fuel IH]; intros rest st f H; [contradiction|].
  rewrite doc_loop_S in H. cbv zeta in H.
  set (pos := (total - length rest)%nat) in *.
  destruct (skip_loop strict c o st (skipn (nd pos - pos) rest)) as [[[[rid r] d] rest']|] eqn:S; [|contradiction].
  destruct (skip_loop_spec _ _ _ _ _ _ _ S) as (pre & E & G & _).
  assert (Hsub : forall y, In y ((rid, r, d) :: rest') -> In y rest).
  { intros y Hy. apply In_skipn with (n := (nd pos - pos)%nat). unfold fdoc in *. rewrite E. apply in_or_app. right. exact Hy. }
  destruct (cancel pos || _); [contradiction|].
  destruct (m r d) eqn:M.
  - destruct H as [H|H].
    + exists rid, r, d. repeat split; auto.
      * apply Hsub. now left.
      * eapply guards_pass_ok; eauto.
    + destruct (IH _ _ _ H) as (rid' & r' & d' & Hin & Hok & Hm & Hf).
      exists rid', r', d'. repeat split; auto. apply Hsub. now right.
  - destruct (IH _ _ _ H) as (rid' & r' & d' & Hin & Hok & Hm & Hf).
    exists rid', r', d'. repeat split; auto. apply Hsub. now right.
Qed.

Lemma flatten_from_In : forall s i rid r d,
  In (rid, r, d) (flatten_from i s) -> exists ds, In (r, ds) s /\ In d ds.
Proof.
  induction s as [|[r0 ds0] s IH]; intros i rid r d H; cbn in H; [contradiction|].
  apply in_app_or in H. destruct H as [H|H].
  - apply in_map_iff in H. destruct H as (d0 & E & Hd). inversion E; subst. exists ds0. split; [now left | exact Hd].
  - destruct (IH _ _ _ _ H) as (ds & Hs & Hd). exists ds. split; [now right | exact Hd].
Qed.

(** no leak for EVERY option setting (ShardRepoMaxMatchCount, ShardMaxMatchCount), every behaviour of the match
    tree iterator, every cancellation schedule and every assignment of match counts *)
Lemma search_opts_no_leak : forall strict c s scan o nd cancel m w,
  let res := search_opts strict c s scan o nd cancel m w in
  (forall f, In f (sr_files res) ->
     exists r ds d, In (r, ds) s /\ has_access strict c (r_tenant r) = true /\ r_tomb r = false /\
                    In d ds /\ d_ftomb d = false /\ m r d = true /\ f = mk_fm r d) /\
  (forall p, In p (sr_urls res) ->
     exists r, In r (map fst s) /\ has_access strict c (r_tenant r) = true /\ In p (repo_url_pairs r)) /\
  (forall p, In p (sr_frags res) ->
     exists r, In r (map fst s) /\ has_access strict c (r_tenant r) = true /\ In p (repo_frag_pairs r)).
Proof.
  intros strict c s scan o nd cancel m w. unfold search_opts.
  destruct scan; cbn [negb]; [|cbn; repeat split; intros ? []].
  cbn [sr_files sr_urls sr_frags]. split; [|split].
  - intros f Hf. destruct (doc_loop_In _ _ _ _ _ _ _ _ _ _ _ _ Hf) as (rid & r & d & Hin & Hok & Hm & E).
    destruct (flatten_from_In _ _ _ _ _ Hin) as (ds & Hs & Hd).
    unfold doc_ok in Hok. apply andb_prop in Hok. destruct Hok as [Hok Hft]. apply andb_prop in Hok. destruct Hok as [Ht Ha].
    exists r, ds, d. repeat split; auto.
    + now destruct (r_tomb r).
    + now destruct (d_ftomb d).
  - intros p Hp. destruct (urls_fold_In strict c (map fst s) ([], []) p) as [H1 _].
    destruct (H1 Hp) as [[]|(r & Hr & Ha & Hpp)]. exists r. auto.
  - intros p Hp. destruct (urls_fold_In strict c (map fst s) ([], []) p) as [_ H2].
    destruct (H2 Hp) as [[]|(r & Hr & Ha & Hpp)]. exists r. auto.
Qed.

(** ---- a compound shard laid out [own repository with many matches][foreign repository][tombstoned repository]
    [own repository whose first document is file-tombstoned] ---- *)
Definition lay_repo (n : N) (t : Z) (tomb : bool) : repo :=
  {| r_name := n; r_id := (100 + n)%N; r_tenant := t; r_tomb := tomb; r_url := (10 + n)%N; r_frag := (20 + n)%N; r_subs := [] |}.
Definition lay_doc (f : N) (ft : bool) : doc := {| d_file := f; d_ftomb := ft; d_sub := 0 |}.
Definition layered_shard : shard :=
  [ (lay_repo 1 1 false, [lay_doc 1001 false; lay_doc 1002 false; lay_doc 1003 false]);
    (lay_repo 2 2 false, [lay_doc 2001 false; lay_doc 2002 false]);
    (lay_repo 3 1 true,  [lay_doc 3001 false]);
    (lay_repo 4 1 false, [lay_doc 4001 true; lay_doc 4002 false; lay_doc 4003 false]) ].
