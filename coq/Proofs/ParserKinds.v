(** Every query that the parser model yields consists only of node kinds that the parser can produce,
    without the parse-time kinds caseQ / caseScopeQ and without childless Type nodes; hence QToProto's type
    switch and newMatchTree's type switch (case lists generated from the source) handle every node. *)
From ZV Require Import Lib.Base Model.Query Generated.ParserTables Model.Parser Proofs.QueryInd Proofs.ParserTotal.
From Coq Require Import Lia.
Open Scope N_scope.

(** [pk sc q]: q is built from the kinds the parser produces; caseScopeQ wrappers allowed iff [sc] *)
Fixpoint pk (sc : bool) (q : Q) {struct q} : bool :=
  match q with
  | QConst _ | QSubstring _ _ _ _ | QRegexp _ _ _ _ | QLanguage _ | QRepo _ | QBranch _ _ | QMeta _ _
  | QRawConfig _ => true
  | QSymbol e => pk false e
  | QCaseScope c => sc && pk sc c
  | QType _ c | QNot c => pk sc c
  | QAnd cs | QOr cs => forallb (pk sc) cs
  | _ => false
  end.

Definition iscase (q : Q) : bool := match q with QCase _ => true | _ => false end.
Definition raw_ok (r : raw) : bool := match r with RQ q => iscase q || pk true q | _ => true end.
Definition item_ok (i : item) : bool := match i with IQ q => pk true q | IOrOp => true end.

Lemma forallb_Forall_imp {A} (f g : A -> bool) l :
  Forall (fun x => f x = true -> g x = true) l -> forallb f l = true -> forallb g l = true.
Proof.
  induction 1 as [|x l Hx _ IH]; simpl; [auto|]. intros H. apply andb_prop in H as [H1 H2].
  rewrite (Hx H1), (IH H2). reflexivity.
Qed.

Lemma forallb_app_true {A} (f : A -> bool) a b : forallb f a = true -> forallb f b = true -> forallb f (a ++ b) = true.
Proof. intros Ha Hb. rewrite forallb_app, Ha, Hb. reflexivity. Qed.

Lemma pk_weaken q : pk false q = true -> pk true q = true.
Proof.
  induction q using Q_ind'; simpl; auto; try discriminate.
  - apply forallb_Forall_imp. exact H.
  - apply forallb_Forall_imp. exact H.
Qed.

Section Kinds.
  Variable rq : str -> rqres.
  Variable rx_auto : str -> bool.
  Variable rcompile : str -> bool.
  Variable lang : str -> option str.

  Lemma pk_setCase k q : forall sc, pk sc q = true -> pk sc (setCase rx_auto k q) = true.
  Proof.
    induction q using Q_ind'; intros sc Hq; simpl in *; auto.
    - repeat match goal with |- context[if ?c then _ else _] => destruct c end; reflexivity.
    - repeat match goal with |- context[if ?c then _ else _] => destruct c end; reflexivity.
  Qed.

  Lemma pk_qmap (f : Q -> Q) : (forall sc q, pk sc q = true -> pk sc (f q) = true) ->
    forall q sc, pk sc q = true -> pk sc (qmap f q) = true.
  Proof.
    intros Hf q. induction q using Q_ind'; intros sc Hq; simpl qmap; apply Hf; simpl in *; auto.
    - rewrite forallb_forall in *. intros x Hx. apply in_map_iff in Hx as [y [<- Hy]].
      rewrite Forall_forall in H. apply H; auto.
    - rewrite forallb_forall in *. intros x Hx. apply in_map_iff in Hx as [y [<- Hy]].
      rewrite Forall_forall in H. apply H; auto.
  Qed.

  Lemma parseOps_loop_pk l : forall top cur seen q,
    forallb item_ok l = true -> forallb (pk true) top = true -> forallb (pk true) cur = true ->
    parseOps_loop l top cur seen = Ok q -> pk true q = true.
  Proof.
    induction l as [|i l IH]; intros top cur seen q Hl Ht Hc; simpl.
    - destruct (seen && is_nil cur); [discriminate|]. intros E. inversion E. subst q. simpl.
      apply forallb_app_true; [exact Ht|]. simpl. rewrite Hc. reflexivity.
    - simpl in Hl. apply andb_prop in Hl as [Hi Hl]. destruct i as [q0|].
      + apply IH; auto. apply forallb_app_true; [exact Hc|]. simpl. simpl in Hi. rewrite Hi. reflexivity.
      + destruct (is_nil cur); [discriminate|]. apply IH; auto.
        apply forallb_app_true; [exact Ht|]. simpl. rewrite Hc. reflexivity.
  Qed.

  Lemma parseOperators_pk l q : forallb item_ok l = true -> parseOperators l = Ok q -> pk true q = true.
  Proof. intros Hl. apply parseOps_loop_pk; auto. Qed.

  Lemma scan_directives_pk qs : forall k has t acc k' has' t' out,
    forallb raw_ok qs = true -> forallb item_ok acc = true ->
    scan_directives qs k has t acc = (k', has', t', out) -> forallb item_ok out = true.
  Proof.
    induction qs as [|r qs IH]; intros k has t acc k' has' t' out Hqs Hacc; simpl.
    - intros E. inversion E. subst. exact Hacc.
    - simpl in Hqs. apply andb_prop in Hqs as [Hr Hqs].
      destruct r as [q| |ty].
      + destruct q; simpl in Hr; try discriminate Hr;
          try (apply IH; [exact Hqs | apply forallb_app_true; [exact Hacc | simpl; rewrite ?Hr; reflexivity]]).
        apply IH; assumption.
      + apply IH; [exact Hqs|]. apply forallb_app_true; [exact Hacc | reflexivity].
      + apply IH; assumption.
  Qed.

  Lemma finish_list_pk qs items : forallb raw_ok qs = true -> finish_list rx_auto qs = Ok items -> forallb item_ok items = true.
  Proof.
    intros Hqs. unfold finish_list.
    destruct (scan_directives qs _ false 100 []) as [[[k has] typeT] newQS] eqn:Hs.
    assert (Hn : forallb item_ok newQS = true) by (eapply scan_directives_pk; [exact Hqs | | exact Hs]; reflexivity).
    assert (H1 : forallb item_ok (map (map_item (qmap (setCase rx_auto k))) newQS) = true).
    { rewrite forallb_forall in *. intros x Hx. apply in_map_iff in Hx as [y [<- Hy]]. specialize (Hn y Hy).
      destruct y as [q|]; simpl in *; auto. apply pk_qmap; auto. intros sc q0. apply pk_setCase. }
    assert (Hscope : forall l, forallb item_ok l = true -> forallb item_ok (map (map_item QCaseScope) l) = true).
    { intros l Hl. rewrite forallb_forall in *. intros x Hx. apply in_map_iff in Hx as [y [<- Hy]]. specialize (Hl y Hy).
      destruct y; simpl in *; auto. }
    destruct (typeT =? 100); cbn [obind].
    - intros E. inversion E. destruct has; auto.
    - destruct (parseOperators _) as [tq|e|w] eqn:Hp; cbn [obind]; try discriminate.
      pose proof (parseOperators_pk _ _ H1 Hp) as Htq.
      intros E. inversion E. assert (H2 : forallb item_ok [IQ (QType typeT tq)] = true) by (simpl; rewrite Htq; reflexivity).
      destruct has; auto.
  Qed.

  Lemma atom_expr_pk ty text q : atom_expr rq rcompile lang ty text = Ok (Some (PQ q)) -> iscase q || pk true q = true.
  Proof.
    unfold atom_expr, regexpQuery.
    repeat match goal with
           | |- (if ?c then _ else _) = _ -> _ => destruct c
           | |- obind (match rq ?t with _ => _ end) _ = _ -> _ => destruct (rq t); cbn [obind]
           | |- match lang ?t with _ => _ end = _ -> _ => destruct (lang t)
           | |- match split_colon ?t ?a with _ => _ end = _ -> _ => destruct (split_colon t a) as [[? ?]|]
           | |- Ok _ = Ok _ -> _ => let E := fresh in intros E; inversion E; subst; reflexivity
           | |- _ = _ -> _ => discriminate
           end.
  Qed.

  Notation parseExpr := (parseExpr rq rx_auto rcompile lang).
  Notation parseExprList := (parseExprList rq rx_auto rcompile lang).
  Notation exprList_loop := (exprList_loop rq rx_auto rcompile lang).

  Definition KE f := forall inp q n, parseExpr f inp = Ok (Some (PQ q), n) -> iscase q || pk true q = true.
  Definition KL f := forall inp items n, parseExprList f inp = Ok (items, n) -> forallb item_ok items = true.
  Definition KLL f := forall b qs qs' b', forallb raw_ok qs = true -> exprList_loop f b qs = Ok (qs', b') -> forallb raw_ok qs' = true.

  Ltac bind_ok H x :=
    match type of H with
    | obind ?a _ = Ok _ => destruct a as [x| |] eqn:?; cbn [obind] in H; try discriminate
    end.

  Lemma kinds_good : forall f, KE f /\ KL f /\ KLL f.
  Proof.
    induction f as [|f [HE [HL HLL]]].
    - repeat split; intro; intros; simpl in *; discriminate.
    - split; [|split].
      + intros inp q n H. rewrite parseExpr_S in H. cbv zeta in H.
        bind_ok H otok. destruct otok as [tok|]; [|discriminate].
        bind_ok H b1.
        destruct (ttype tok =? tokParenOpen).
        { bind_ok H r1. destruct r1 as [qs n1]. bind_ok H b2. bind_ok H op. destruct op as [ptok|]; [|discriminate].
          destruct (ttype ptok =? tokParenClose); [|discriminate].
          bind_ok H b3. bind_ok H e. bind_ok H n'. inversion H. subst q.
          rewrite (parseOperators_pk qs e); [apply orb_true_r | eapply HL; eassumption | assumption]. }
        destruct (ttype tok =? tokNegate).
        { bind_ok H r1. destruct r1 as [sub n1]. destruct sub as [[q1|t]|]; try discriminate.
          pose proof (HE _ _ _ Heqo1) as Hq1.
          destruct q1; try discriminate; bind_ok H b2; bind_ok H n'; inversion H; subst q; simpl in *; exact Hq1. }
        bind_ok H e. bind_ok H n'. inversion H. subst e. eapply atom_expr_pk. eassumption.
      + intros inp items n H. rewrite parseExprList_S in H.
        bind_ok H r1. destruct r1 as [qs b]. bind_ok H its. bind_ok H n'. inversion H. subst items.
        eapply finish_list_pk; [|eassumption]. eapply HLL; [|eassumption]. reflexivity.
      + intros b qs qs' b' Hqs H. rewrite exprList_loop_S in H.
        destruct b as [|c0 r]; [inversion H; subst; exact Hqs|]. cbv zeta in H.
        assert (Hcont : (do (q, n) <- parseExpr f (skipSpaces (c0 :: r));
                         match q with
                         | None => Ok (qs, skipSpaces (c0 :: r))
                         | Some e => do b2 <- drop n (skipSpaces (c0 :: r)); exprList_loop f b2 (qs ++ [raw_of e])
                         end) = Ok (qs', b') -> forallb raw_ok qs' = true).
        { clear H. intros H. bind_ok H r1. destruct r1 as [q n]. destruct q as [e|]; [|inversion H; subst; exact Hqs].
          bind_ok H b2. eapply HLL; [|eassumption]. apply forallb_app_true; [exact Hqs|]. simpl. rewrite andb_true_r.
          destruct e as [q|t]; [|reflexivity]. simpl. eapply HE. eassumption. }
        destruct (nextToken (skipSpaces (c0 :: r))) as [[tok|]|e|w]; try (apply Hcont; exact H); [|discriminate].
        destruct (ttype tok =? tokParenClose); [inversion H; subst; exact Hqs|].
        destruct (ttype tok =? tokOr); [|apply Hcont; exact H].
        bind_ok H b2. eapply HLL; [|eassumption]. apply forallb_app_true; [exact Hqs | reflexivity].
  Qed.
End Kinds.

(** ------------------------------------------------------------------ stripCaseScopes, Simplify *)

Lemma forallb_map_imp {A} (f g : A -> bool) (h : A -> A) l :
  Forall (fun x => f x = true -> g (h x) = true) l -> forallb f l = true -> forallb g (map h l) = true.
Proof.
  induction 1 as [|x l Hx _ IH]; simpl; [auto|]. intros H. apply andb_prop in H as [H1 H2].
  rewrite (Hx H1), (IH H2). reflexivity.
Qed.

Lemma strip_pk q : pk true q = true -> pk false (stripCaseScopes q) = true.
Proof.
  induction q using Q_ind'; simpl; auto; try discriminate.
  - apply forallb_map_imp. exact H.
  - apply forallb_map_imp. exact H.
Qed.

Lemma andor_scan_pk isAnd l : forallb (pk false) l = true ->
  match andor_scan isAnd l with inl c => pk false c = true | inr l' => forallb (pk false) l' = true end.
Proof.
  induction l as [|c l IH]; simpl; [auto|]. intros H. apply andb_prop in H as [Hc Hl]. specialize (IH Hl).
  destruct c; try discriminate Hc;
    try (destruct (andor_scan isAnd l); [exact IH | simpl in *; rewrite ?Hc, IH; reflexivity]).
  destruct (Bool.eqb v isAnd); [exact IH | reflexivity].
Qed.

Lemma evalAndOr_pk isAnd l : forallb (pk false) l = true -> pk false (evalAndOrConstants isAnd l) = true.
Proof.
  intros H. unfold evalAndOrConstants. pose proof (andor_scan_pk isAnd l H) as Hs.
  destruct (andor_scan isAnd l) as [c|l']; [exact Hs|].
  destruct l' as [|x l']; [reflexivity|]. destruct isAnd; exact Hs.
Qed.

Lemma evalConstants_pk q : pk false q = true -> pk false (evalConstants q) = true.
Proof.
  induction q using Q_ind'; simpl; auto; try discriminate.
  - intros _. destruct (is_nil p); reflexivity.
  - intros _. destruct (N.eqb (rx_op re) OpEmptyMatch); reflexivity.
  - intros Hq. specialize (IHq Hq). destruct (evalConstants q); simpl in *; auto.
  - intros _. match goal with |- context[if ?c then _ else _] => destruct c end; reflexivity.
  - intros Hq. apply evalAndOr_pk. eapply forallb_map_imp; eauto.
  - intros Hq. apply evalAndOr_pk. eapply forallb_map_imp; eauto.
  - intros Hq. specialize (IHq Hq). destruct (evalConstants q); simpl in *; auto.
Qed.

Lemma flattenAndOr_pk isAnd l :
  Forall (fun q => pk false q = true -> pk false (fst (flatten q)) = true) l ->
  forallb (pk false) l = true -> forallb (pk false) (fst (flattenAndOr isAnd flatten l)) = true.
Proof.
  induction 1 as [|c l Hc _ IH]; simpl; [auto|]. intros H. apply andb_prop in H as [H1 H2].
  specialize (Hc H1). specialize (IH H2).
  destruct (flatten c) as [c' sub]. destruct (flattenAndOr isAnd flatten l) as [rest chg]. simpl in *.
  destruct c'; destruct isAnd; simpl in *; rewrite ?Hc, ?IH; try reflexivity; try discriminate Hc;
    apply forallb_app_true; assumption.
Qed.

Lemma flatten_pk q : pk false q = true -> pk false (fst (flatten q)) = true.
Proof.
  induction q using Q_ind'; simpl; auto; try discriminate.
  - intros Hq. specialize (IHq Hq). destruct (flatten q). exact IHq.
  - intros Hq. destruct cs as [|c [|c2 r]].
    + reflexivity.
    + simpl in *. apply andb_prop in Hq as [Hq _]. exact Hq.
    + pose proof (flattenAndOr_pk true _ H Hq) as Hf. destruct (flattenAndOr true flatten (c :: c2 :: r)). exact Hf.
  - intros Hq. destruct cs as [|c [|c2 r]].
    + reflexivity.
    + simpl in *. apply andb_prop in Hq as [Hq _]. exact Hq.
    + pose proof (flattenAndOr_pk false _ H Hq) as Hf. destruct (flattenAndOr false flatten (c :: c2 :: r)). exact Hf.
  - intros Hq. specialize (IHq Hq). destruct (flatten q). exact IHq.
Qed.

Lemma flatten_loop_pk fuel : forall q, pk false q = true -> pk false (flatten_loop fuel q) = true.
Proof.
  induction fuel as [|k IH]; intros q Hq; simpl; [exact Hq|].
  pose proof (flatten_pk q Hq) as Hf. destruct (flatten q) as [q' chg]. destruct chg; [apply IH|]; exact Hf.
Qed.

Lemma Simplify_pk q : pk false q = true -> pk false (Simplify q) = true.
Proof. intros H. unfold Simplify. apply flatten_loop_pk. apply evalConstants_pk. exact H. Qed.

(** ------------------------------------------------------------------ the generated switch case lists *)

(** the kinds of the nodes of a [pk false] tree *)
Definition parser_kinds : list qkind :=
  [K_Const; K_Substring; K_Regexp; K_Language; K_Repo; K_Branch; K_Meta; K_RawConfig; K_Symbol; K_Type; K_Not; K_And; K_Or].

(** side conditions on the GENERATED tables: QToProto's and newMatchTree's type switches have a case
    for every such kind (and no such clause of newMatchTree bails out to log.Panicf) *)
Lemma qtoproto_covers : forallb (fun k => kind_in k qtoproto_kinds) parser_kinds = true.
Proof. vm_compute. reflexivity. Qed.
Lemma matchtree_covers : forallb mt_handles parser_kinds = true.
Proof. vm_compute. reflexivity. Qed.

Lemma pk_kind q : pk false q = true -> In (kind_of q) parser_kinds.
Proof. destruct q; simpl; try discriminate; intros _; tauto. Qed.

Arguments kind_in : simpl never.
Arguments mt_handles : simpl never.

Lemma to_proto_pk q : pk false q = true -> to_proto q = Ok tt.
Proof.
  pose proof qtoproto_covers as Hc. rewrite forallb_forall in Hc.
  induction q using Q_ind'; intros Hq; pose proof (Hc _ (pk_kind _ Hq)) as Hk; simpl in Hq; try discriminate;
    simpl; simpl in Hk; rewrite ?Hk; auto.
  - induction H as [|c l Hc' _ IH]; [reflexivity|]. simpl in Hq. apply andb_prop in Hq as [H1 H2].
    rewrite (Hc' H1). simpl. apply IH. exact H2.
  - induction H as [|c l Hc' _ IH]; [reflexivity|]. simpl in Hq. apply andb_prop in Hq as [H1 H2].
    rewrite (Hc' H1). simpl. apply IH. exact H2.
Qed.

Lemma mt_kinds_pk q : pk false q = true -> mt_kinds q = Ok tt.
Proof.
  pose proof matchtree_covers as Hc. rewrite forallb_forall in Hc.
  induction q using Q_ind'; intros Hq; pose proof (Hc _ (pk_kind _ Hq)) as Hk; simpl in Hq; try discriminate;
    simpl; simpl in Hk; rewrite ?Hk; auto.
  - induction H as [|c l Hc' _ IH]; [reflexivity|]. simpl in Hq. apply andb_prop in Hq as [H1 H2].
    rewrite (Hc' H1). simpl. apply IH. exact H2.
  - induction H as [|c l Hc' _ IH]; [reflexivity|]. simpl in Hq. apply andb_prop in Hq as [H1 H2].
    rewrite (Hc' H1). simpl. apply IH. exact H2.
Qed.

(** ------------------------------------------------------------------ the result of Parse *)

Section Parsed.
  Variable rq : str -> rqres.
  Variable rx_auto : str -> bool.
  Variable rcompile : str -> bool.
  Variable lang : str -> option str.

  Theorem parse_with_pk f s q : parse_with rq rx_auto rcompile lang f s = Ok q -> pk false q = true.
  Proof.
    unfold parse_with. intros H.
    destruct (parseExprList rq rx_auto rcompile lang f s) as [[qs n]| |] eqn:Hl; cbn [obind] in H; try discriminate.
    destruct (n =? length s)%nat.
    - destruct (parseOperators qs) as [q0| |] eqn:Hp; cbn [obind] in H; try discriminate.
      inversion H. apply Simplify_pk. apply strip_pk. eapply parseOperators_pk; [|exact Hp].
      destruct (kinds_good rq rx_auto rcompile lang f) as [_ [HL _]]. eapply HL. exact Hl.
    - destruct (drop n s); cbn [obind] in H; discriminate.
  Qed.

  Theorem parsed_convertible s q : parse rq rx_auto rcompile lang s = Ok q -> to_proto q = Ok tt.
  Proof. intros H. apply to_proto_pk. eapply parse_with_pk. exact H. Qed.

  Theorem parsed_dispatchable s q : parse rq rx_auto rcompile lang s = Ok q -> mt_kinds q = Ok tt.
  Proof. intros H. apply mt_kinds_pk. eapply parse_with_pk. exact H. Qed.
End Parsed.
