(** C02 — the word fast path (wordMatchTree.matches, Model/Ranges.v word_scan) yields exactly the regexp engine's
    successive non-overlapping matches of \bLIT\b, directly adjacent occurrences included.

    Reference semantics ([successive]): Go's FindAllIndex restarts the search at the END of the previous (non-empty)
    match and reports the leftmost match at or after that position; a match of \bLIT\b at o is an occurrence of LIT at
    o whose two ends are ASCII word boundaries (text ends count as non-word).  All matches have the length of LIT. *)
From ZV Require Import Lib.Base Lib.GoSearch Lib.RuneCount Model.Lines Model.Ranges
  Proofs.LinesBasic Proofs.RuneCountProofs Proofs.LinesMatch Proofs.LinesChunk Proofs.LinesBreakCover Proofs.RangesGather Proofs.RangesLineMode Generated.RangesWordBytes.
From Coq Require Import Sorting.Sorted Lia.

(** a match of \bLIT\b at byte offset o *)
Definition wb_matchb (w data : list N) (o : nat) : bool :=
  prefixb w (skipn o data) && wboundary data o && wboundary data (o + length w).

(** the engine's successive matches from search position [pos] on *)
Inductive successive (w data : list N) : nat -> list nat -> Prop :=
| succ_nil : forall pos, (forall o, pos <= o -> wb_matchb w data o = false) -> successive w data pos []
| succ_cons : forall pos o l, pos <= o -> wb_matchb w data o = true ->
    (forall p, pos <= p -> p < o -> wb_matchb w data p = false) ->
    successive w data (o + length w) l -> successive w data pos (o :: l).

Lemma successive_unique : forall w data pos l1 l2,
  successive w data pos l1 -> successive w data pos l2 -> l1 = l2.
Proof.
  intros w data pos l1 l2 H1. revert l2. induction H1 as [pos Hno|pos o l Hle Hm Hbefore Hrest IH]; intros l2 H2.
  - inversion H2 as [|? o2 ? Hle2 Hm2 _ _]; subst; auto. rewrite (Hno o2 Hle2) in Hm2. discriminate.
  - inversion H2 as [? Hno2|? o2 l2' Hle2 Hm2 Hbefore2 Hrest2]; subst.
    + rewrite (Hno2 o Hle) in Hm. discriminate.
    + assert (o = o2).
      { destruct (Nat.lt_trichotomy o o2) as [Hlt|[Heq|Hgt]]; auto.
        - rewrite (Hbefore2 o Hle Hlt) in Hm. discriminate.
        - rewrite (Hbefore o2 Hle2 Hgt) in Hm2. discriminate. }
      subst o2. f_equal. apply IH. exact Hrest2.
Qed.

Lemma successive_weaken : forall w data pos pos' l, pos <= pos' ->
  (forall p, pos <= p -> p < pos' -> wb_matchb w data p = false) ->
  successive w data pos' l -> successive w data pos l.
Proof.
  intros w data pos pos' l Hle Hno H. inversion H as [? Hno'|? o l' Hle' Hm Hbefore Hrest]; subst.
  - apply succ_nil. intros o Ho. destruct (Nat.lt_ge_cases o pos'); auto.
  - apply succ_cons; auto; [lia|]. intros p Hp1 Hp2. destruct (Nat.lt_ge_cases p pos'); auto.
Qed.

(** bytes.Index *)
Lemma prefixb_len : forall p l, prefixb p l = true -> length p <= length l.
Proof.
  induction p as [|a p IH]; intros l H; simpl; [lia|].
  destruct l as [|b l]; simpl in H; [discriminate|]. apply andb_prop in H. destruct H as [_ H]. apply IH in H. simpl. lia.
Qed.

Lemma index_sub_some : forall w t i, index_sub w t = Some i ->
  prefixb w (skipn i t) = true /\ forall p, p < i -> prefixb w (skipn p t) = false.
Proof.
  intros w t. induction t as [|b t IH]; intros i H.
  - simpl in H. destruct (prefixb w []) eqn:E; [|discriminate]. inversion H; subst. split; [exact E|intros p Hp; lia].
  - cbn [index_sub] in H. destruct (prefixb w (b :: t)) eqn:E.
    + inversion H; subst. split; [exact E|intros p Hp; lia].
    + destruct (index_sub w t) as [j|] eqn:Ej; [|discriminate]. simpl in H. inversion H; subst.
      destruct (IH j eq_refl) as [H1 H2]. split; [exact H1|].
      intros p Hp. destruct p as [|p]; [exact E|]. simpl. apply H2. lia.
Qed.

Lemma index_sub_none : forall w t, index_sub w t = None -> forall p, prefixb w (skipn p t) = false.
Proof.
  intros w t. induction t as [|b t IH]; intros H p.
  - simpl in H. destruct (prefixb w []) eqn:E; [discriminate|]. destruct p; exact E.
  - cbn [index_sub] in H. destruct (prefixb w (b :: t)) eqn:E; [discriminate|].
    destruct (index_sub w t) eqn:Ej; [discriminate|]. destruct p as [|p]; [exact E|]. simpl. apply IH. reflexivity.
Qed.

Lemma skipn_add : forall {A} (a b : nat) (l : list A), skipn a (skipn b l) = skipn (b + a) l.
Proof.
  intros A a b. revert a. induction b as [|b IH]; intros a l; simpl; auto.
  destruct l as [|x l]; simpl; [destruct a; reflexivity|]. apply IH.
Qed.

(** the scan loop = the engine's successive matches, from any resume offset inside the data *)
Lemma word_scan_successive : forall w data, w <> [] ->
  forall fuel off, off <= length data -> length data < off + fuel ->
  successive w data off (word_scan w data off fuel).
Proof.
  intros w data Hw. assert (Hlw : 1 <= length w) by (destruct w; [congruence|simpl; lia]).
  induction fuel as [|f IH]; intros off Hoff Hfuel; [lia|].
  cbn [word_scan]. destruct (index_sub w (skipn off data)) as [idx|] eqn:Ei.
  - destruct (index_sub_some _ _ _ Ei) as [Hocc Hbefore].
    rewrite skipn_add in Hocc.
    assert (Hin : off + idx + length w <= length data).
    { apply prefixb_len in Hocc. rewrite skipn_length in Hocc. lia. }
    assert (Hno : forall p, off <= p -> p < off + idx -> wb_matchb w data p = false).
    { intros p Hp1 Hp2. unfold wb_matchb. replace p with (off + (p - off)) at 1 by lia.
      rewrite <- skipn_add. rewrite Hbefore by lia. reflexivity. }
    destruct (wboundary data (off + idx) && wboundary data (off + idx + length w)) eqn:Eb.
    + apply succ_cons; [lia| |exact Hno|].
      * unfold wb_matchb. rewrite Hocc. rewrite <- andb_assoc. exact Eb.
      * apply IH; lia.
    + apply successive_weaken with (pos' := S (off + idx)); [lia| |apply IH; lia].
      intros p Hp1 Hp2. destruct (Nat.eq_dec p (off + idx)) as [->|Hne]; [|apply Hno; lia].
      unfold wb_matchb. rewrite <- andb_assoc, Eb. apply andb_false_r.
  - apply succ_nil. intros o Ho. unfold wb_matchb.
    replace o with (off + (o - off)) at 1 by lia. rewrite <- skipn_add.
    rewrite (index_sub_none _ _ Ei). reflexivity.
Qed.

(** MAIN: the offsets the word fast path reports are exactly the successive matches of \bLIT\b (and nothing else is) *)
Theorem word_fastpath_is_regexp : forall w data l, w <> [] ->
  (successive w data 0 l <-> l = word_offsets w data).
Proof.
  intros w data l Hw. assert (H : successive w data 0 (word_offsets w data)).
  { unfold word_offsets. apply word_scan_successive; auto; lia. }
  split; [intros Hl; eapply successive_unique; eauto|intros ->; exact H].
Qed.

(** consequences for the candidate list handed to gatherMatches *)
Lemma successive_sorted : forall w data, 1 <= length w -> forall pos l, successive w data pos l ->
  Forall (fun o => pos <= o /\ o + length w <= length data) l /\
  StronglySorted (fun a b => a + length w <= b) l.
Proof.
  intros w data Hlw pos l H. induction H as [pos Hno|pos o l Hle Hm Hbefore Hrest [IH1 IH2]].
  - split; constructor.
  - assert (Hb : o + length w <= length data).
    { unfold wb_matchb in Hm. apply andb_prop in Hm. destruct Hm as [Hm _]. apply andb_prop in Hm. destruct Hm as [Hm _].
      apply prefixb_len in Hm. rewrite skipn_length in Hm. lia. }
    split.
    + constructor; [lia|]. eapply Forall_impl; [|exact IH1]. simpl. intros a [Ha1 Ha2]. lia.
    + constructor; [exact IH2|]. eapply Forall_impl; [|exact IH1]. simpl. intros a [Ha1 Ha2]. lia.
Qed.

Lemma word_cands_engine : forall w data, w <> [] ->
  engine_matches (word_cands false w data) /\
  Forall (fun m => c_end m <= length data) (word_cands false w data).
Proof.
  intros w data Hw. assert (Hlw : 1 <= length w) by (destruct w; [congruence|simpl; lia]).
  assert (H : successive w data 0 (word_offsets w data)) by (apply word_fastpath_is_regexp; auto).
  destruct (successive_sorted w data Hlw 0 _ H) as [H1 H2]. unfold word_cands.
  revert H1 H2. generalize (word_offsets w data). intros l H1 H2. split; [split|].
  - apply Forall_forall. intros m Hm. apply in_map_iff in Hm. destruct Hm as [s [<- _]]. reflexivity.
  - induction H2 as [|a l Hl IH Ha]; simpl; constructor.
    + apply IH. inversion H1; auto.
    + apply Forall_forall. intros m Hm. apply in_map_iff in Hm. destruct Hm as [s [<- Hs]].
      rewrite Forall_forall in Ha. specialize (Ha s Hs). unfold c_end. simpl. lia.
  - apply Forall_forall. intros m Hm. apply in_map_iff in Hm. destruct Hm as [s [<- Hs]].
    rewrite Forall_forall in H1. destruct (H1 s Hs) as [_ Hb]. unfold c_end. simpl. exact Hb.
Qed.

(** gatherMatches reports the word atom's candidates unchanged: the ranges of the query \bLIT\b are exactly the engine's
    successive matches (chunk mode: C02_chunk_mode_ranges; line mode: C02_regexp_line_mode) *)
Theorem word_ranges_are_regexp_matches : forall nl w data, w <> [] -> word_offsets w data <> [] ->
  gather nl (word_cands false w data) = word_cands false w data /\
  map c_off (word_cands false w data) = word_offsets w data /\
  Forall (fun m => c_sz m = length w /\ c_fn m = false /\ c_end m <= length data) (word_cands false w data) /\
  successive w data 0 (word_offsets w data).
Proof.
  intros nl w data Hw Hne. destruct (word_cands_engine w data Hw) as [He Hb]. split; [|split; [|split]].
  - apply regexp_matches_kept; auto. unfold word_cands. destruct (word_offsets w data); [congruence|simpl; congruence].
  - unfold word_cands. rewrite map_map. simpl. apply map_id.
  - unfold word_cands in *. apply Forall_forall. intros m Hm. rewrite Forall_forall in Hb. specialize (Hb m Hm).
    apply in_map_iff in Hm. destruct Hm as [s [<- _]]. simpl. auto.
  - apply word_fastpath_is_regexp; auto.
Qed.

(** LINE MODE END TO END (model level) for the query \bLIT\b: gatherMatches + fillMatches over the word atom's candidates
    succeed, every LineMatch satisfies C03's invariant and the LineFragments cover exactly the bytes of the engine's
    successive matches minus newline bytes *)
Theorem word_line_mode : forall nl data name ctx w, (0 <= ctx)%Z -> w <> [] -> word_offsets w data <> [] ->
  exists res, fill_matches (newlines_of data) data name ctx (gather nl (word_cands false w data)) = Ok res /\
    Forall (lm_ok data ctx) res /\
    (forall p, frag_covered res p <->
       ((exists o, In o (word_offsets w data) /\ o <= p < o + length w) /\ nth_error data p <> Some 10%N)).
Proof.
  intros nl data name ctx w Hctx Hw Hne. destruct (word_cands_engine w data Hw) as [He Hb].
  assert (Hne' : word_cands false w data <> []).
  { unfold word_cands. destruct (word_offsets w data); [congruence|simpl; congruence]. }
  destruct (regexp_line_mode nl data name ctx _ Hctx Hne' He Hb) as [res [H1 [H2 H3]]].
  exists res. split; [exact H1|]. split; [exact H2|]. intros p. rewrite H3.
  assert (Hc : covered (word_cands false w data) p <-> exists o, In o (word_offsets w data) /\ o <= p < o + length w).
  { unfold covered, word_cands. split.
    - intros [m [Hm Hp]]. apply in_map_iff in Hm. destruct Hm as [s [<- Hs]]. exists s. split; auto.
    - intros [o [Ho Hp]]. eexists. split; [apply in_map_iff; exists o; split; [reflexivity|exact Ho]|]. exact Hp. }
  rewrite Hc. reflexivity.
Qed.

(** the red-team variant (round 3): resuming at relEndOffset + 1 after an accepted occurrence is NOT the regexp
    semantics — x.get.get with \b\.get\b loses the second, directly adjacent match *)
Fixpoint word_scan_skip1 (w data : list N) (off fuel : nat) : list nat :=
  match fuel with
  | 0 => []
  | S f =>
      if length data <=? off then [] else
      match index_sub w (skipn off data) with
      | None => []
      | Some idx =>
          let s := off + idx in
          let e := s + length w in
          if wboundary data s && wboundary data e then s :: word_scan_skip1 w data (S e) f
          else word_scan_skip1 w data (S s) f
      end
  end.
Definition ex_dot_get : list N := [46; 103; 101; 116]%N.                       (* .get *)
Definition ex_x_get_get : list N := [120; 46; 103; 101; 116; 46; 103; 101; 116]%N.   (* x.get.get *)
Lemma word_scan_adjacent_example : word_offsets ex_dot_get ex_x_get_get = [1; 5].
Proof. vm_compute. reflexivity. Qed.
Lemma word_resume_plus1_refuted : exists w data, w <> [] /\
  ~ successive w data 0 (word_scan_skip1 w data 0 (S (length data))).
Proof.
  exists ex_dot_get, ex_x_get_get. split; [discriminate|]. intros H.
  apply word_fastpath_is_regexp in H; [|discriminate]. vm_compute in H. discriminate.
Qed.


(** the same for a file-name query (wordMatchTree{fileName: true} scans the name): candidates of ONE class that are strictly
    increasing and non-overlapping pass gatherMatches unchanged *)
Lemma overlap_aux_id_class : forall fn l last, c_fn last = fn -> Forall (fun m => c_fn m = fn) l ->
  StronglySorted (fun a b => c_off a < c_off b /\ c_end a <= c_off b) (last :: l) -> overlap_aux last l = l.
Proof.
  intros fn. induction l as [|x r IH]; intros last Hl Hfn Hs; simpl; auto.
  inversion Hfn as [|? ? Hx Hr]; subst. inversion Hs as [|? ? Hs' Hall]; subst.
  inversion Hall as [|? ? [_ Hlx] _]; subst.
  rewrite Hx, Bool.eqb_reflx. simpl. replace (c_end last <=? c_off x) with true by (symmetry; apply Nat.leb_le; lia).
  f_equal. apply IH; auto.
Qed.

Lemma same_class_matches_kept : forall fn nl ms, ms <> [] -> Forall (fun m => c_fn m = fn) ms ->
  StronglySorted (fun a b => c_off a < c_off b /\ c_end a <= c_off b) ms -> gather nl ms = ms.
Proof.
  intros fn nl ms Hne Hfn Hs. unfold gather. destruct ms as [|x r] eqn:E; [congruence|]. rewrite <- E.
  assert (Hk : StronglySorted le_key ms).
  { subst ms. clear Hne. revert Hfn Hs. generalize (x :: r). intros l Hfn Hs.
    induction Hs as [|a t Ht IH Ha]; [constructor|].
    inversion Hfn as [|? ? Hfa Hft]; subst. constructor; auto.
    rewrite Forall_forall in *. intros y Hy. destruct (Ha y Hy) as [H1 _].
    unfold le_key, cand_less. rewrite (Hft y Hy), Bool.eqb_reflx. simpl.
    destruct (c_off y =? c_off a) eqn:E1; [lia|]. apply Nat.ltb_ge. lia. }
  rewrite (sort_cands_id _ Hk). subst ms. simpl. f_equal.
  inversion Hfn; subst. eapply overlap_aux_id_class; eauto.
Qed.

Theorem word_ranges_any_class : forall fn nl w data, w <> [] -> word_offsets w data <> [] ->
  gather nl (word_cands fn w data) = word_cands fn w data.
Proof.
  intros fn nl w data Hw Hne. assert (Hlw : 1 <= length w) by (destruct w; [congruence|simpl; lia]).
  assert (H : successive w data 0 (word_offsets w data)) by (apply word_fastpath_is_regexp; auto).
  destruct (successive_sorted w data Hlw 0 _ H) as [H1 H2]. unfold word_cands in *.
  apply same_class_matches_kept with (fn := fn).
  - destruct (word_offsets w data); [congruence|simpl; congruence].
  - apply Forall_forall. intros m Hm. apply in_map_iff in Hm. destruct Hm as [s [<- _]]. reflexivity.
  - clear H H1 Hne. induction H2 as [|a l Hl IH Ha]; simpl; constructor; auto.
    apply Forall_forall. intros m Hm. apply in_map_iff in Hm. destruct Hm as [s [<- Hs]].
    rewrite Forall_forall in Ha. specialize (Ha s Hs). unfold c_end. simpl. lia.
Qed.


(** the model's character class = the table of bits.go characterClass regenerated from the tree under test on every run *)
Lemma word_class_table : forall c, (c < 256)%N -> is_word_byte c = existsb (N.eqb c) word_bytes.
Proof.
  intros c Hc.
  assert (H : forallb (fun c => Bool.eqb (is_word_byte c) (existsb (N.eqb c) word_bytes)) (map N.of_nat (seq 0 256)) = true)
    by (vm_compute; reflexivity).
  rewrite forallb_forall in H. apply Bool.eqb_prop. apply H. apply in_map_iff. exists (N.to_nat c).
  split; [lia|]. apply in_seq. lia.
Qed.
