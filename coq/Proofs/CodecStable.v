(** C26: every ACCEPTED input decodes to a value of the round-trip domain.
    The round-trip theorems (Proofs/CodecRT.v) hold for values satisfying wf_* (sizes below 2^63, ids below 2^32,
    IndexTimeUnix within int64). Here: whatever byte string (shorter than 2^63, as every Go slice is) a decoder
    accepts, the value it returns satisfies wf_* — element counts, string lengths and the number of branches are
    bounded by the number of input bytes consumed ([ssz]/[bsz]/[esz]/[brsz] are paid for by consumed bytes), ids come
    out of uint32(..), IndexTimeUnix out of int(uint64) of a Uvarint result (< 2^64, [uv_loop_bound]).
    Consequently decode (encode (decode b)) = decode b: no accepted input (canonical or not, version 1 or 2, with or
    without trailing bytes) yields a value that the codec itself could not carry. *)
From ZV Require Import Lib.Base Model.Codec Proofs.CodecCost Proofs.CodecRT.
From Coq Require Import ZifyBool ZifyNat ZifyN Permutation.
Open Scope nat_scope.


Lemma lt_pow2_shiftr a n : (a < 2 ^ n)%N <-> N.shiftr a n = 0%N.
Proof.
  rewrite N.shiftr_div_pow2. assert (2 ^ n <> 0)%N by (apply N.pow_nonzero; lia).
  split; intros H0.
  - apply N.div_small; exact H0.
  - apply N.div_small_iff in H0; assumption.
Qed.

Lemma lor_shift_lt x y s k : (x < 2 ^ s)%N -> (y < 2 ^ k)%N -> (N.lor x (N.shiftl y s) < 2 ^ (s + k))%N.
Proof.
  intros Hx Hy. apply lt_pow2_shiftr. rewrite N.shiftr_lor.
  assert (E1 : N.shiftr x (s + k) = 0%N).
  { apply lt_pow2_shiftr. eapply N.lt_le_trans; [exact Hx|]. apply N.pow_le_mono_r; lia. }
  assert (E2 : N.shiftr (N.shiftl y s) (s + k) = 0%N).
  { rewrite <- N.shiftr_shiftr. rewrite N.shiftr_shiftl_l by lia. rewrite N.sub_diag, N.shiftl_0_r.
    apply lt_pow2_shiftr. exact Hy. }
  rewrite E1, E2. reflexivity.
Qed.

Lemma uv_loop_bound : forall b i x s, i <= 10 -> s = N.of_nat (7 * i) -> (x < 2 ^ s)%N ->
  (0 < snd (uv_loop b i x s))%Z -> (fst (uv_loop b i x s) < 2 ^ 64)%N.
Proof.
  induction b as [|c r IH]; intros i x s Hi Hs Hx H; cbn [uv_loop] in *.
  - cbn in H. lia.
  - destruct (Nat.eqb i 10) eqn:E10; [cbn in H; lia|].
    destruct (N.ltb c 128) eqn:Ec.
    + destruct (Nat.eqb i 9 && N.ltb 1 c)%bool eqn:E9; [cbn in H; lia|]. cbn [fst].
      destruct (Nat.eqb i 9) eqn:E9'.
      * assert (i = 9) by lia. subst i. cbn in E9. assert (Hc : (c < 2 ^ 1)%N) by (change (2 ^ 1)%N with 2%N; lia).
        pose proof (lor_shift_lt x c s 1 Hx Hc) as L. replace (s + 1)%N with 64%N in L by lia. exact L.
      * assert (Hc : (c < 2 ^ 7)%N) by (change (2 ^ 7)%N with 128%N; lia).
        pose proof (lor_shift_lt x c s 7 Hx Hc) as L.
        eapply N.lt_le_trans; [exact L|]. apply N.pow_le_mono_r; lia.
    + apply IH; [lia | lia | | exact H].
      assert (Hc : (N.land c 127 < 2 ^ 7)%N).
      { change 127%N with (N.ones 7). rewrite N.land_ones. apply N.mod_lt. change (2 ^ 7)%N with 128%N. lia. }
      pose proof (lor_shift_lt x (N.land c 127) s 7 Hx Hc) as L. exact L.
Qed.

Lemma to_int_range x : (x < 2 ^ 64)%N -> (- two63 <= to_int x < two63)%Z.
Proof.
  intros H. unfold to_int, two63, two64. change (2 ^ 64)%N with 18446744073709551616%N in H.
  destruct (Z.of_N x <? 9223372036854775808)%Z eqn:E; lia.
Qed.

Lemma uvarint_res s z s' : r_uvarint s = (Ok z, s') ->
  1 + length (buf s') <= length (buf s) /\ (- two63 <= z < two63)%Z.
Proof.
  rewrite r_uvarint_eq. cbv zeta.
  destruct (uvarint (buf s)) as [x n] eqn:E. cbn [fst snd].
  destruct (Z.leb n 0) eqn:En; [discriminate|].
  assert (Hn : (0 < n)%Z) by lia.
  pose proof (uv_loop_n (buf s) 0 0%N 0%N) as U. pose proof (uv_loop_bound (buf s) 0 0%N 0%N) as V.
  unfold uvarint in E. rewrite E in U, V. cbn [fst snd] in U, V.
  specialize (U Hn). specialize (V ltac:(lia) eq_refl ltac:(cbn; lia) Hn).
  unfold go_slice_from.
  replace ((n <? 0)%Z || (Z.of_nat (length (buf s)) <? n)%Z)%bool with false by lia.
  intros H. inversion H; subst. cbn [buf]. rewrite skipn_length. split; [lia | apply to_int_range, V].
Qed.

Lemma length_res s l s' : r_length s = (Ok l, s') ->
  1 + length (buf s') <= length (buf s) /\ (0 <= l <= Z.of_nat (length (buf s')))%Z.
Proof.
  intros H. pose proof (length_result s l s' H) as R. split; [|exact R].
  unfold r_length, bind in H. destruct (r_uvarint s) as [[z|e|w] s1] eqn:E; try discriminate.
  apply uvarint_res in E. unfold m_get in H. cbn in H.
  destruct ((z <? 0)%Z || (Z.of_nat (length (buf s1)) <? z)%Z)%bool; cbn in H; try discriminate.
  inversion H; subst. lia.
Qed.

Lemma str_res s x s' : r_str s = (Ok x, s') -> 1 + length x + length (buf s') <= length (buf s).
Proof.
  unfold r_str, bind. destruct (r_length s) as [[l|e|w] s1] eqn:E; try discriminate.
  apply length_res in E. destruct E as (E1 & E2).
  unfold m_get, lift, go_slice_to, m_put, ret. cbn.
  replace ((l <? 0)%Z || (Z.of_nat (length (buf s1)) <? l)%Z)%bool with false by lia. cbn.
  intros H. inversion H; subst. cbn [buf]. rewrite firstn_length, skipn_length. lia.
Qed.

Lemma byt_res s x s' : r_byt s = (Ok x, s') -> 1 + length (buf s') = length (buf s).
Proof.
  unfold r_byt, bind, m_tick, m_get, m_put, m_fail, ret. cbn.
  destruct (buf s) as [|y r] eqn:E; cbn; intros H; inversion H; subst. cbn. reflexivity.
Qed.

Lemma count_res s l s' : r_count s = (Ok l, s') ->
  1 + length (buf s') <= length (buf s) /\ (0 <= l <= Z.of_nat (length (buf s')))%Z.
Proof.
  unfold r_count, bind. destruct (r_length s) as [[z|e|w] s1] eqn:E; try discriminate.
  apply length_res in E. destruct E as (E1 & E2).
  unfold m_make, bind, lift, go_make, m_alloc, ret. cbn.
  replace (z <? 0)%Z with false by lia. cbn. intros H. inversion H; subst. cbn. lia.
Qed.

(** ---- FileNameSet *)
Definition ssz (l : list bytes) : nat := fold_right (fun x n => 1 + length x + n) 0 l.
Lemma rd_strs_res : forall n acc s l s', rd_strs n acc s = (Ok l, s') ->
  exists new, l = acc ++ new /\ ssz new + length (buf s') <= length (buf s).
Proof.
  induction n as [|n IH]; intros acc s l s' H; cbn [rd_strs] in H.
  - unfold ret in H. inversion H; subst. exists []. rewrite app_nil_r. cbn. split; [reflexivity|lia].
  - unfold bind in H at 1. destruct (r_str s) as [[x|e|w] s1] eqn:E; try discriminate.
    apply str_res in E. apply IH in H. destruct H as (new & -> & Hn).
    exists (x :: new). rewrite <- app_assoc. split; [reflexivity|]. unfold ssz in *. cbn [fold_right]. lia.
Qed.

Lemma ssz_wf l B : ssz l <= B -> (N.of_nat B < 2 ^ 63)%N -> wf_set l.
Proof.
  intros H HB. unfold wf_set, wf_bytes, nlen.
  assert (length l <= ssz l /\ Forall (fun x => length x <= ssz l) l) as (H1 & H2).
  { clear. induction l as [|x l (IH1 & IH2)]; [split; [cbn; lia|constructor]|].
    change (ssz (x :: l)) with (1 + length x + ssz l). cbn [length].
    split; [lia|]. constructor; [lia|]. eapply Forall_impl; [|exact IH2]. cbn beta. intros; lia. }
  split; [lia|]. eapply Forall_impl; [|exact H2]. cbn beta. intros; lia.
Qed.

Lemma dec_set_wf b l : (nlen b < 2 ^ 63)%N -> dec_set b = Ok l -> wf_set l.
Proof.
  intros Hb. unfold dec_set, run, dec_set_m. unfold bind at 1.
  destruct (r_byt _) as [[v|e|w] s1] eqn:E1; cbn [fst]; try discriminate.
  apply byt_res in E1. cbn [buf] in E1.
  destruct (negb (v =? 1)%N); [cbn; discriminate|].
  unfold bind at 1. destruct (r_count s1) as [[c|e|w] s2] eqn:E2; cbn [fst]; try discriminate.
  apply count_res in E2.
  destruct (rd_strs (Z.to_nat c) [] s2) as [[r|e|w] s3] eqn:E3; cbn [fst]; try discriminate.
  apply rd_strs_res in E3. destruct E3 as (new & -> & Hn). cbn [app].
  intros H. inversion H; subst. apply (ssz_wf l (length b)); [lia | exact Hb].
Qed.


(** ---- ReposMap *)
Definition bsz (l : list branch) : nat := fold_right (fun b n => 2 + length (fst b) + length (snd b) + n) 0 l.
Definition esz (l : list (N * rentry)) : nat := fold_right (fun e n => 1 + bsz (snd (snd e)) + n) 0 l.
Definition entry_ok (e : N * rentry) : Prop :=
  let '(id, (hs, it, brs)) := e in (id < 2 ^ 32)%N /\ (- two63 <= it < two63)%Z.

Lemma branch_res s b s' : r_branch s = (Ok b, s') ->
  2 + length (fst b) + length (snd b) + length (buf s') <= length (buf s).
Proof.
  unfold r_branch. unfold bind at 1. destruct (r_str s) as [[nm|e|w] s1] eqn:E1; try discriminate.
  unfold bind at 1. destruct (r_str s1) as [[ver|e|w] s2] eqn:E2; try discriminate.
  apply str_res in E1. apply str_res in E2.
  unfold bind, m_alloc, ret. cbn. intros H. inversion H; subst. cbn. lia.
Qed.

Lemma rd_branches_res : forall n all s all' s', rd_branches n all s = (Ok all', s') ->
  exists new, all' = all ++ new /\ length new = n /\ bsz new + length (buf s') <= length (buf s).
Proof.
  induction n as [|n IH]; intros all s all' s' H; cbn [rd_branches] in H.
  - unfold ret in H. inversion H; subst. exists []. rewrite app_nil_r. cbn. repeat split; try reflexivity; lia.
  - unfold bind in H at 1. destruct (r_branch s) as [[b|e|w] s1] eqn:E; try discriminate.
    apply branch_res in E. apply IH in H. destruct H as (new & -> & Hl & Hn).
    exists (b :: new). rewrite <- app_assoc. split; [reflexivity|]. cbn [length]. split; [lia|].
    destruct b as [nm ver]. cbn [fst snd] in E.
    change (bsz ((nm, ver) :: new)) with (2 + length nm + length ver + bsz new). lia.
Qed.

Lemma to_u32_lt z : (to_u32 z < 2 ^ 32)%N.
Proof.
  unfold to_u32. change (2 ^ 32)%N with 4294967296%N.
  pose proof (Z.mod_pos_bound z 4294967296 ltac:(lia)). lia.
Qed.

Lemma rd_entries_res : forall n v2 all m s r s', rd_entries n v2 all m s = (Ok r, s') ->
  exists new, r = m ++ new /\ Forall entry_ok new /\ esz new + length (buf s') <= length (buf s).
Proof.
  induction n as [|n IH]; intros v2 all m s r s' H; cbn [rd_entries] in H.
  - unfold ret in H. inversion H; subst. exists []. rewrite app_nil_r. cbn. repeat split; first [reflexivity | constructor | lia].
  - unfold bind in H at 1. destruct (r_uvarint s) as [[id|e|w] s1] eqn:E1; try discriminate.
    apply uvarint_res in E1. destruct E1 as (E1 & _).
    unfold bind in H at 1. destruct (r_byt s1) as [[hs|e|w] s2] eqn:E2; try discriminate.
    apply byt_res in E2.
    unfold bind in H at 1.
    destruct ((if v2 then r_uvarint else ret 0%Z) s2) as [[it|e|w] s3] eqn:E3; try discriminate.
    assert (E3' : length (buf s3) <= length (buf s2) /\ (- two63 <= it < two63)%Z).
    { destruct v2.
      - apply uvarint_res in E3. split; [lia | apply E3].
      - unfold ret in E3. inversion E3; subst. split; [lia | unfold two63; lia]. }
    destruct E3' as (E3a & E3b).
    unfold bind in H at 1. destruct (r_length s3) as [[lb|e|w] s4] eqn:E4; try discriminate.
    apply length_res in E4. destruct E4 as (E4a & E4b).
    unfold bind in H at 1. destruct (rd_branches (Z.to_nat lb) all s4) as [[all'|e|w] s5] eqn:E5; try discriminate.
    apply rd_branches_res in E5. destruct E5 as (nb & -> & Hlen & Hsz).
    unfold bind in H at 1. unfold lift in H at 1. unfold go_slice_from in H.
    rewrite app_length in H.
    replace ((Z.of_nat (length all + length nb) - lb <? 0)%Z || (Z.of_nat (length all + length nb) <? Z.of_nat (length all + length nb) - lb)%Z)%bool with false in H by lia.
    replace (Z.to_nat (Z.of_nat (length all + length nb) - lb)) with (length all) in H by lia.
    rewrite skipn_len_app in H.
    apply IH in H. destruct H as (new & -> & Hok & Hn).
    exists ((to_u32 id, ((hs =? 1)%N, it, nb)) :: new). rewrite <- app_assoc. split; [reflexivity|]. split.
    + constructor; [|exact Hok]. cbn. split; [apply to_u32_lt | exact E3b].
    + change (esz ((to_u32 id, ((hs =? 1)%N, it, nb)) :: new)) with (1 + bsz nb + esz new). lia.
Qed.

Lemma bsz_wf brs : length brs <= bsz brs /\ Forall (fun b => length (fst b) <= bsz brs /\ length (snd b) <= bsz brs) brs.
Proof.
  induction brs as [|[nm ver] l (IH1 & IH2)]; [split; [cbn; lia|constructor]|].
  change (bsz ((nm, ver) :: l)) with (2 + length nm + length ver + bsz l). cbn [length].
  split; [lia|]. constructor; [cbn [fst snd]; lia|]. eapply Forall_impl; [|exact IH2]. cbn beta.
  intros [a1 a2]. cbn [fst snd]. lia.
Qed.

Lemma esz_wf l B : Forall entry_ok l -> esz l <= B -> (N.of_nat B < 2 ^ 63)%N -> wf_repos l.
Proof.
  intros Hok H HB. unfold wf_repos, nlen.
  assert (length l <= esz l /\ all_branches l <= esz l /\ Forall (fun e => bsz (snd (snd e)) <= esz l) l) as (H1 & H2 & H3).
  { clear. induction l as [|[id [[hs it] brs]] l (IH1 & IH2 & IH3)]; [repeat split; [cbn; lia | cbn; lia | constructor]|].
    change (esz ((id, (hs, it, brs)) :: l)) with (1 + bsz brs + esz l).
    change (all_branches ((id, (hs, it, brs)) :: l)) with (length brs + all_branches l). cbn [length].
    pose proof (bsz_wf brs) as (W & _).
    repeat split; [lia | lia |]. constructor; [cbn [snd]; lia|]. eapply Forall_impl; [|exact IH3]. cbn beta.
    intros [id' [[hs' it'] brs']]. cbn [snd]. lia. }
  split; [lia|]. split; [lia|].
  rewrite Forall_forall in *. intros e He. specialize (Hok e He). specialize (H3 e He).
  destruct e as [id [[hs it] brs]]. cbn [snd] in H3. unfold entry_ok in Hok. unfold wf_entry. destruct Hok as (Hid & Hit).
  pose proof (bsz_wf brs) as (W1 & W2).
  split; [exact Hid|]. split; [exact Hit|]. unfold nlen. split; [lia|].
  eapply Forall_impl; [|exact W2]. cbn beta. intros [b1 b2]. cbn [fst snd]. intros (Hb1 & Hb2).
  unfold wf_branch, wf_bytes, nlen. cbn [fst snd]. split; lia.
Qed.

Lemma dec_repos_wf b l : (nlen b < 2 ^ 63)%N -> dec_repos b = Ok (Some l) -> wf_repos l.
Proof.
  intros Hb. unfold dec_repos, run, dec_repos_m. unfold bind at 1. unfold m_get at 1. cbn [buf].
  destruct b as [|x0 b0] eqn:Eb; [cbn; discriminate|]. rewrite <- Eb in *. clear Eb x0 b0.
  unfold bind at 1.
  destruct (r_byt _) as [[v|e|w] s1] eqn:E1; cbn [fst]; try discriminate.
  apply byt_res in E1. cbn [buf] in E1.
  destruct (negb ((v =? 1)%N || (v =? 2)%N)); [cbn; discriminate|].
  unfold bind at 1. destruct (r_count s1) as [[c|e|w] s2] eqn:E2; cbn [fst]; try discriminate.
  apply count_res in E2.
  unfold bind at 1. destruct (r_count s2) as [[c2|e|w] s3] eqn:E3; cbn [fst]; try discriminate.
  apply count_res in E3.
  unfold bind at 1.
  destruct (rd_entries (Z.to_nat c) (v =? 2)%N [] [] s3) as [[r|e|w] s4] eqn:E4; cbn [fst]; try discriminate.
  apply rd_entries_res in E4. destruct E4 as (new & -> & Hok & Hn). cbn [app].
  unfold ret. cbn [fst]. intros H. inversion H; subst. apply (esz_wf l (length b)); [exact Hok | lia | exact Hb].
Qed.


Section BRS.
Context {T : Type} (ser : T -> bytes) (bm : bytes -> outcome T).
(** what the external pair has to satisfy on the image of the deserialiser: a bitmap that FromBuffer produced is
    written back by WriteTo as a blob (shorter than 2^63) that FromBuffer reads as the same bitmap *)
Context (ser_bm : forall blob x, bm blob = Ok x -> (nlen (ser x) < 2 ^ 63)%N /\ bm (ser x) = Ok x).

Definition brsz (l : list (bytes * T)) : nat := fold_right (fun p n => 1 + length (fst p) + n) 0 l.
Definition br_ok (p : bytes * T) : Prop := (nlen (ser (snd p)) < 2 ^ 63)%N /\ bm (ser (snd p)) = Ok (snd p).

Lemma rd_brs_res : forall n acc s l s', rd_brs bm n acc s = (Ok l, s') ->
  exists new, l = acc ++ new /\ Forall br_ok new /\ brsz new + length (buf s') <= length (buf s).
Proof.
  induction n as [|n IH]; intros acc s l s' H; cbn [rd_brs] in H.
  - unfold ret in H. inversion H; subst. exists []. rewrite app_nil_r. cbn. repeat split; first [reflexivity | constructor | lia].
  - unfold bind in H at 1. destruct (r_str s) as [[br|e|w] s1] eqn:E1; try discriminate.
    apply str_res in E1.
    unfold bind in H at 1. destruct (r_bitmap bm s1) as [[x|e|w] s2] eqn:E2; try discriminate.
    assert (E2' : length (buf s2) <= length (buf s1) /\ br_ok (br, x)).
    { unfold r_bitmap, bind in E2. destruct (r_str s1) as [[blob|e|w] s1'] eqn:E3; try discriminate.
      apply str_res in E3. unfold lift in E2. destruct (bm blob) as [y|e|w] eqn:Eb; try discriminate.
      inversion E2; subst. split; [lia|]. unfold br_ok. cbn [snd]. apply (ser_bm blob x Eb). }
    destruct E2' as (E2a & E2b).
    apply IH in H. destruct H as (new & -> & Hok & Hn).
    exists ((br, x) :: new). rewrite <- app_assoc. split; [reflexivity|]. split; [constructor; assumption|].
    change (brsz ((br, x) :: new)) with (1 + length br + brsz new). lia.
Qed.

Lemma brsz_wf l B : Forall br_ok l -> brsz l <= B -> (N.of_nat B < 2 ^ 63)%N -> wf_br ser bm l.
Proof.
  intros Hok H HB. unfold wf_br, nlen.
  assert (length l <= brsz l /\ Forall (fun p => length (fst p) <= brsz l) l) as (H1 & H2).
  { clear. induction l as [|[nm x] l (IH1 & IH2)]; [split; [cbn; lia|constructor]|].
    change (brsz ((nm, x) :: l)) with (1 + length nm + brsz l). cbn [length].
    split; [lia|]. constructor; [cbn [fst]; lia|]. eapply Forall_impl; [|exact IH2]. cbn beta.
    intros [a1 a2]. cbn [fst]. lia. }
  split; [lia|]. rewrite Forall_forall in *. intros [nm x] Hin. specialize (Hok _ Hin). specialize (H2 _ Hin).
  cbn [fst snd] in *. destruct Hok as (Hk1 & Hk2). cbn [snd] in Hk1, Hk2.
  unfold wf_bytes, nlen. split; [lia|]. split; assumption.
Qed.

Lemma dec_br_wf b l : (nlen b < 2 ^ 63)%N -> dec_br bm b = Ok l -> wf_br ser bm l.
Proof.
  intros Hb. unfold dec_br, run, dec_br_m. unfold bind at 1.
  destruct (r_byt _) as [[v|e|w] s1] eqn:E1; cbn [fst]; try discriminate.
  apply byt_res in E1. cbn [buf] in E1.
  destruct (negb (v =? 1)%N); [cbn; discriminate|].
  unfold bind at 1. destruct (r_count s1) as [[c|e|w] s2] eqn:E2; cbn [fst]; try discriminate.
  apply count_res in E2.
  destruct (rd_brs bm (Z.to_nat c) [] s2) as [[r|e|w] s3] eqn:E3; cbn [fst]; try discriminate.
  apply rd_brs_res in E3. destruct E3 as (new & -> & Hok & Hn). cbn [app].
  intros H. inversion H; subst. apply (brsz_wf l (length b)); [exact Hok | lia | exact Hb].
Qed.
End BRS.

(** ---- the statements used by Props/C26.v *)
Lemma dec_set_stable b l : (nlen b < 2 ^ 63)%N -> dec_set b = Ok l -> dec_set (enc_set l) = Ok l.
Proof. intros Hb H. apply dec_set_enc. exact (dec_set_wf b l Hb H). Qed.

Lemma dec_repos_stable b o : (nlen b < 2 ^ 63)%N -> dec_repos b = Ok o -> dec_repos (enc_repos o) = Ok o.
Proof.
  intros Hb H. destruct o as [l|]; [|exact dec_repos_enc_nil].
  apply dec_repos_enc. exact (dec_repos_wf b l Hb H).
Qed.

Lemma dec_br_stable {T} (ser : T -> bytes) (bm : bytes -> outcome T) :
  (forall blob x, bm blob = Ok x -> (nlen (ser x) < 2 ^ 63)%N /\ bm (ser x) = Ok x) ->
  forall b l, (nlen b < 2 ^ 63)%N -> dec_br bm b = Ok l ->
  dec_br bm (enc_br (map (fun p => (fst p, ser (snd p))) l)) = Ok l.
Proof. intros Hs b l Hb H. apply (dec_br_enc ser bm l). exact (dec_br_wf ser bm Hs b l Hb H). Qed.


(** ---- the Go values are a set / a map: the views canon_set / canon_map of the insertion lists, written by the
    encoders in an arbitrary iteration order (any permutation). wf_* is inherited by both steps. *)
Lemma set_ins_in x y acc : In x (set_ins y acc) -> x = y \/ In x acc.
Proof.
  induction acc as [|z acc IH]; cbn [set_ins]; [cbn; intuition congruence|].
  destruct (bytes_cmp y z); cbn [In]; [intuition congruence | intuition congruence |].
  intros [H|H]; [tauto|]. destruct (IH H); tauto.
Qed.
Lemma set_ins_len y acc : length (set_ins y acc) <= S (length acc).
Proof.
  induction acc as [|z acc IH]; cbn [set_ins]; [cbn; lia|].
  destruct (bytes_cmp y z); cbn [length]; lia.
Qed.
Lemma canon_set_sub : forall l acc, (forall x, In x (fold_left (fun a x => set_ins x a) l acc) -> In x l \/ In x acc)
  /\ length (fold_left (fun a x => set_ins x a) l acc) <= length l + length acc.
Proof.
  induction l as [|y l IH]; intros acc; cbn [fold_left]; [split; [tauto | cbn; lia]|].
  destruct (IH (set_ins y acc)) as (I1 & I2). split.
  - intros x Hx. destruct (I1 x Hx) as [H|H]; [cbn; tauto|]. destruct (set_ins_in _ _ _ H); [subst; cbn; tauto | tauto].
  - pose proof (set_ins_len y acc). cbn [length]. lia.
Qed.
Lemma wf_set_canon l : wf_set l -> wf_set (canon_set l).
Proof.
  intros (Hn & Hl). destruct (canon_set_sub l []) as (I1 & I2). unfold wf_set, canon_set, nlen in *. cbn [length] in I2.
  split; [lia|]. rewrite Forall_forall in *. intros x Hx. destruct (I1 x Hx) as [H|[]]. exact (Hl x H).
Qed.
Lemma wf_set_perm l l' : Permutation l' l -> wf_set l -> wf_set l'.
Proof.
  intros P (Hn & Hl). unfold wf_set, nlen in *. rewrite (Permutation_length P). split; [exact Hn|].
  exact (Permutation_Forall (Permutation_sym P) Hl).
Qed.

Lemma map_ins_in {V} (e : N * V) k v acc : In e (map_ins k v acc) -> e = (k, v) \/ In e acc.
Proof.
  induction acc as [|[k' v'] acc IH]; cbn [map_ins]; [cbn; intuition congruence|].
  destruct (N.compare k k'); cbn [In]; [intuition congruence | intuition congruence |].
  intros [H|H]; [tauto|]. destruct (IH H); tauto.
Qed.
Lemma map_ins_len (k : N) (v : rentry) acc :
  length (map_ins k v acc) <= S (length acc) /\ all_branches (map_ins k v acc) <= length (snd v) + all_branches acc.
Proof.
  induction acc as [|[k' v'] acc (IH1 & IH2)]; cbn [map_ins]; [cbn; lia|].
  destruct (N.compare k k').
  - change (all_branches ((k, v) :: acc)) with (length (snd v) + all_branches acc).
    change (all_branches ((k', v') :: acc)) with (length (snd v') + all_branches acc). cbn [length]. lia.
  - change (all_branches ((k, v) :: (k', v') :: acc)) with (length (snd v) + all_branches ((k', v') :: acc)). cbn [length]. lia.
  - change (all_branches ((k', v') :: map_ins k v acc)) with (length (snd v') + all_branches (map_ins k v acc)).
    change (all_branches ((k', v') :: acc)) with (length (snd v') + all_branches acc). cbn [length]. lia.
Qed.
Lemma canon_map_sub : forall (l acc : list (N * rentry)),
  let r := fold_left (fun a kv => map_ins (fst kv) (snd kv) a) l acc in
  (forall e, In e r -> In e l \/ In e acc) /\ length r <= length l + length acc
  /\ all_branches r <= all_branches l + all_branches acc.
Proof.
  induction l as [|[k v] l IH]; intros acc; cbn [fold_left]; [cbv zeta; repeat split; [tauto | cbn; lia | cbn; lia]|].
  cbv zeta. cbn [fst snd]. destruct (IH (map_ins k v acc)) as (I1 & I2 & I3). cbv zeta in I1, I2, I3.
  pose proof (map_ins_len k v acc) as (L1 & L2).
  change (all_branches ((k, v) :: l)) with (length (snd v) + all_branches l). cbn [length]. repeat split; [|lia|lia].
  intros e He. destruct (I1 e He) as [H|H]; [cbn; tauto|]. destruct (map_ins_in _ _ _ _ H); [subst; cbn; tauto | tauto].
Qed.
Lemma wf_repos_canon l : wf_repos l -> wf_repos (canon_map l).
Proof.
  intros (Hn & Ha & Hl). destruct (canon_map_sub l []) as (I1 & I2 & I3). cbv zeta in I1, I2, I3.
  unfold wf_repos, canon_map, nlen in *. cbn [length] in I2. change (all_branches []) with 0 in I3.
  split; [lia|]. split; [lia|]. rewrite Forall_forall in *. intros x Hx. destruct (I1 x Hx) as [H|[]]. exact (Hl x H).
Qed.
Lemma all_branches_perm l l' : Permutation l l' -> all_branches l = all_branches l'.
Proof.
  induction 1 as [|x l l' P IH|x y l|l l' l'' P1 IH1 P2 IH2]; [reflexivity | | | congruence].
  - change (all_branches (x :: l)) with (length (snd (snd x)) + all_branches l).
    change (all_branches (x :: l')) with (length (snd (snd x)) + all_branches l'). congruence.
  - change (all_branches (y :: x :: l)) with (length (snd (snd y)) + (length (snd (snd x)) + all_branches l)).
    change (all_branches (x :: y :: l)) with (length (snd (snd x)) + (length (snd (snd y)) + all_branches l)).
    rewrite !Nat.add_assoc. f_equal. apply Nat.add_comm.
Qed.
Lemma wf_repos_perm l l' : Permutation l' l -> wf_repos l -> wf_repos l'.
Proof.
  intros P (Hn & Ha & Hl). unfold wf_repos, nlen in *. rewrite (Permutation_length P), (all_branches_perm _ _ P).
  split; [exact Hn|]. split; [exact Ha|]. exact (Permutation_Forall (Permutation_sym P) Hl).
Qed.

(** the statements about the Go values *)
Lemma dec_set_stable_set b l l' : (nlen b < 2 ^ 63)%N -> dec_set b = Ok l -> Permutation l' (canon_set l) ->
  dec_set (enc_set l') = Ok l'.
Proof. intros Hb H P. apply dec_set_enc. exact (wf_set_perm _ _ P (wf_set_canon l (dec_set_wf b l Hb H))). Qed.
Lemma dec_repos_stable_map b l l' : (nlen b < 2 ^ 63)%N -> dec_repos b = Ok (Some l) -> Permutation l' (canon_map l) ->
  dec_repos (enc_repos (Some l')) = Ok (Some l').
Proof. intros Hb H P. apply dec_repos_enc. exact (wf_repos_perm _ _ P (wf_repos_canon l (dec_repos_wf b l Hb H))). Qed.
