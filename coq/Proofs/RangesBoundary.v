(** C02 -> C03 link: the byte offsets findOffset produces are rune boundaries of Go's decoding of the document
    ([find_offset_repo_boundary]); hence they satisfy the START half of the hypothesis [cand_bnd] of the C03 chunk /
    column theorems: relative to the start of its line, a match start is a [boundary] of the line's decoding. *)
From ZV Require Import Lib.Base Lib.GoSearch Lib.RuneCount Model.Lines Model.Ranges Proofs.LinesBasic
  Proofs.RuneCountProofs Proofs.RuneWidthUtf8 Proofs.LinesMatch Proofs.RangesFind Generated.RangesConsts.
From ZV Require Lib.Utf8.
From Coq Require Import ZifyBool ZifyNat ZifyN.

(** the two "rune boundary" predicates (Lib/Utf8.v on Go's decoder, Proofs/RuneCountProofs.v on the width table) agree *)
Lemma RB_boundary : forall p o, Utf8.RB p o -> boundary p o.
Proof.
  induction 1 as [p|p o Hp Hr IH]; [constructor|].
  destruct p as [|b0 r]; [congruence|].
  pose proof (Utf8.width_pos (b0 :: r) Hp) as Hw.
  rewrite <- rune_width_utf8 in *. constructor.
  destruct (rune_width b0 r) as [|w]; [lia|]. simpl in *. now rewrite Nat.sub_0_r.
Qed.

(** a later boundary of the whole string is a boundary of the rest after an earlier boundary *)
Lemma RB_suffix : forall p o, Utf8.RB p o -> forall o', Utf8.RB p o' -> o <= o' -> Utf8.RB (skipn o p) (o' - o).
Proof.
  induction 1 as [p|p o Hp Hr IH]; intros o' H' Hle.
  - simpl. now rewrite Nat.sub_0_r.
  - pose proof (Utf8.width_pos p Hp) as Hw.
    inversion H' as [q|q o'' Hq Hr' E1]; subst; [lia|].
    rewrite <- Utf8.skipn_add. replace (Utf8.width p + o'' - (Utf8.width p + o)) with (o'' - o) by lia.
    apply IH; [exact Hr'|lia].
Qed.

Section Content.
Variable c : list N.
Let nls := newlines_of c.

(** every line start is a rune boundary: 0, the end of the content, or the byte after a newline (ASCII) *)
Lemma line_start_RB : forall n, Utf8.RB c (line_start nls n).
Proof.
  intros n. destruct (Z.leb_spec n 1) as [Hn|Hn].
  - unfold nls. rewrite line_start_spec. replace (Z.to_nat (n - 1)) with 0 by lia.
    replace (after_nl c 0) with 0 by (destruct c; reflexivity). constructor.
  - pose proof (line_start_clamped c n) as Hc. fold nls in Hc.
    destruct (Nat.eq_dec (line_start nls n) (length c)) as [E|E]; [rewrite E; apply Utf8.RB_end|].
    pose proof (line_end_is_newline c (n - 1) ltac:(lia)) as Hnl. fold nls in Hnl.
    replace (n - 1 + 1)%Z with n in Hnl by lia. specialize (Hnl ltac:(lia)).
    assert (Hpos : 0 < line_start nls n).
    { destruct (line_start nls n) eqn:E0; [|lia]. simpl in Hnl.
      (* LS = 0 with n > 1: the byte at index 0 - 1 = 0 would be the newline ending line n-1 >= 1, which then ends at 1 *)
      exfalso. unfold nls in E0. rewrite line_start_spec in E0.
      replace (Z.to_nat (n - 1)) with (S (Z.to_nat (n - 2))) in E0 by lia.
      destruct c as [|x r]; [simpl in E; simpl in Hc; lia|]. simpl in E0. discriminate. }
    replace (line_start nls n) with (line_start nls n - 1 + 1) by lia.
    eapply Utf8.RB_after_ascii; [exact Hnl|lia].
Qed.

(** a rune boundary of the document, seen from the start of its line *)
Theorem boundary_in_line : forall b, Utf8.RB c b -> b < length c ->
  boundary (skipn (line_start nls (at_offset nls b)) c) (b - line_start nls (at_offset nls b)).
Proof.
  intros b Hb Hlt. apply RB_boundary. apply RB_suffix; [apply line_start_RB|exact Hb|].
  pose proof (at_offset_in_line c b Hlt) as H. cbv zeta in H. fold nls in H. lia.
Qed.

End Content.

(** for the offsets findOffset produces (content or file name, any corpus) *)
Theorem find_offset_start_cand_bnd : forall (filename : bool) plain pre doc post tail r,
  (plain = true -> forallb (fun b => (b <? 128)%N) doc = true) ->
  r < Utf8.rune_count doc ->
  exists b, find_offset_corpus rune_offset_frequency (if filename then @None nat else content_window) plain
              (pre ++ doc :: post) tail (length pre) r = Ok b /\
    let nls := newlines_of doc in
    boundary (skipn (line_start nls (at_offset nls b)) doc) (b - line_start nls (at_offset nls b)).
Proof.
  intros filename plain pre doc post tail r Hp Hr.
  destruct (find_offset_repo_boundary filename plain pre doc post tail r Hp Hr) as [b [E [HRB Hlt]]].
  exists b. split; [exact E|]. cbv zeta. now apply boundary_in_line.
Qed.
