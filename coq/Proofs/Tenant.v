(** Proofs about Model/Tenant.v (C23). *)
From ZV Require Import Lib.Base Model.Tenant.

Definition allowed (strict : bool) (c : tctx) (r : repo) : Prop := has_access strict c (r_tenant r) = true.

(** ---- association lists ---- *)
Lemma map_set_In : forall k v m p, In p (map_set k v m) -> p = (k, v) \/ In p m.
Proof.
  intros k v m. induction m as [|[k' v'] m IH]; intros p Hin; cbn in Hin.
  - destruct Hin as [Hin|[]]. left; now symmetry.
  - destruct (N.ltb k k') eqn:Hlt.
    + destruct Hin as [Hin|Hin]; [left; now symmetry | right; exact Hin].
    + destruct (N.eqb k k') eqn:Heq.
      * destruct Hin as [Hin|Hin]; [left; now symmetry | right; right; exact Hin].
      * destruct Hin as [Hin|Hin]; [right; left; exact Hin|].
        destruct (IH _ Hin) as [H|H]; [left; exact H | right; right; exact H].
Qed.

Lemma map_set_In_new : forall k v m, In (k, v) (map_set k v m).
Proof.
  intros k v m. induction m as [|[k' v'] m IH]; cbn.
  - now left.
  - destruct (N.ltb k k'); [now left|]. destruct (N.eqb k k'); [now left|]. right; exact IH.
Qed.

Lemma merge_maps_In : forall b a p, In p (merge_maps a b) -> In p a \/ In p b.
Proof.
  unfold merge_maps. induction b as [|[k v] b IH]; intros a p Hin; cbn in Hin.
  - now left.
  - destruct (IH _ _ Hin) as [H|H].
    + destruct (map_set_In _ _ _ _ H) as [E|E]; [right; left; now symmetry | left; exact E].
    + right; right; exact H.
Qed.

(** ---- the addRepo loop ---- *)
Lemma subs_fold_In : forall subs acc p,
  (In p (fst (fold_left (fun a s => add_repo a (sr_name s) (sr_url s) (sr_frag s)) subs acc)) ->
     In p (fst acc) \/ In p (map (fun s => (sr_name s, sr_url s)) subs)) /\
  (In p (snd (fold_left (fun a s => add_repo a (sr_name s) (sr_url s) (sr_frag s)) subs acc)) ->
     In p (snd acc) \/ In p (map (fun s => (sr_name s, sr_frag s)) subs)).
Proof.
  induction subs as [|s subs IH]; intros acc p; cbn.
  - split; intro H; now left.
  - destruct (IH (add_repo acc (sr_name s) (sr_url s) (sr_frag s)) p) as [IH1 IH2]. split; intro H.
    + destruct (IH1 H) as [H1|H1]; [|right; right; exact H1].
      cbn in H1. destruct (map_set_In _ _ _ _ H1) as [E|E]; [right; left; now symmetry | left; exact E].
    + destruct (IH2 H) as [H1|H1]; [|right; right; exact H1].
      cbn in H1. destruct (map_set_In _ _ _ _ H1) as [E|E]; [right; left; now symmetry | left; exact E].
Qed.

Lemma repo_urls_In : forall strict c acc r p,
  (In p (fst (repo_urls true strict c acc r)) -> In p (fst acc) \/ (allowed strict c r /\ In p (repo_url_pairs r))) /\
  (In p (snd (repo_urls true strict c acc r)) -> In p (snd acc) \/ (allowed strict c r /\ In p (repo_frag_pairs r))).
Proof.
  intros strict c acc r p. unfold repo_urls, allowed. cbn [andb].
  destruct (has_access strict c (r_tenant r)) eqn:Ha; cbn [negb].
  - destruct (subs_fold_In (r_subs r) (add_repo acc (r_name r) (r_url r) (r_frag r)) p) as [H1 H2].
    split; intro H.
    + destruct (H1 H) as [H'|H']; [|right; split; [reflexivity | right; exact H']].
      cbn in H'. destruct (map_set_In _ _ _ _ H') as [E|E]; [right; split; [reflexivity | left; now symmetry] | left; exact E].
    + destruct (H2 H) as [H'|H']; [|right; split; [reflexivity | right; exact H']].
      cbn in H'. destruct (map_set_In _ _ _ _ H') as [E|E]; [right; split; [reflexivity | left; now symmetry] | left; exact E].
  - split; intro H; now left.
Qed.

Lemma urls_fold_In : forall strict c rs acc p,
  (In p (fst (fold_left (repo_urls true strict c) rs acc)) ->
     In p (fst acc) \/ exists r, In r rs /\ allowed strict c r /\ In p (repo_url_pairs r)) /\
  (In p (snd (fold_left (repo_urls true strict c) rs acc)) ->
     In p (snd acc) \/ exists r, In r rs /\ allowed strict c r /\ In p (repo_frag_pairs r)).
Proof.
  intros strict c rs. induction rs as [|r rs IH]; intros acc p; cbn.
  - split; intro H; now left.
  - destruct (IH (repo_urls true strict c acc r) p) as [IH1 IH2].
    destruct (repo_urls_In strict c acc r p) as [R1 R2]. split; intro H.
    + destruct (IH1 H) as [H'|(r' & Hr' & Ha & Hp)]; [|right; exists r'; auto].
      destruct (R1 H') as [E|[Ha Hp]]; [now left | right; exists r; auto].
    + destruct (IH2 H) as [H'|(r' & Hr' & Ha & Hp)]; [|right; exists r'; auto].
      destruct (R2 H') as [E|[Ha Hp]]; [now left | right; exists r; auto].
Qed.

(** ---- file matches ---- *)
Lemma firstn1_In : forall A (l : list A) x, In x (firstn 1 l) -> In x l.
Proof. intros A [|y l] x H; cbn in H; [exact H|]. destruct H as [H|[]]. now left. Qed.

Lemma repo_files_In : forall strict c lim1 m r ds f,
  In f (repo_files strict c lim1 m (r, ds)) ->
  allowed strict c r /\ r_tomb r = false /\
  exists d, In d ds /\ d_ftomb d = false /\ m r d = true /\ f = mk_fm r d.
Proof.
  intros strict c lim1 m r ds f. unfold repo_files, allowed.
  destruct (r_tomb r) eqn:Ht; [intros []|].
  destruct (has_access strict c (r_tenant r)) eqn:Ha; cbn [negb]; [|intros []].
  intro H. apply in_map_iff in H. destruct H as (d & Hf & Hd).
  assert (Hd' : In d (filter (fun d => negb (d_ftomb d) && m r d) ds)).
  { destruct lim1; [apply firstn1_In|]; exact Hd. }
  apply filter_In in Hd'. destruct Hd' as [Hin Hb]. apply andb_prop in Hb. destruct Hb as [Hb1 Hb2].
  split; [reflexivity|]. split; [reflexivity|]. exists d. repeat split; auto.
  now destruct (d_ftomb d).
Qed.

Lemma sub_name_cases : forall r i, sub_name r i = 0%N \/ In (sub_name r i) (map sr_name (r_subs r)).
Proof.
  intros r [|k]; cbn; [now left|].
  destruct (nth_error (r_subs r) k) eqn:E; [|now left].
  right. apply in_map. eapply nth_error_In; eauto.
Qed.

(** ---- Search: no leak (membership form) ---- *)
Lemma search_no_leak : forall strict c s scan lim1 m,
  let res := search strict c s scan lim1 m in
  (forall f, In f (sr_files res) ->
     exists r ds d, In (r, ds) s /\ allowed strict c r /\ r_tomb r = false /\
                    In d ds /\ d_ftomb d = false /\ m r d = true /\ f = mk_fm r d) /\
  (forall p, In p (sr_urls res) -> exists r, In r (map fst s) /\ allowed strict c r /\ In p (repo_url_pairs r)) /\
  (forall p, In p (sr_frags res) -> exists r, In r (map fst s) /\ allowed strict c r /\ In p (repo_frag_pairs r)).
Proof.
  intros strict c s scan lim1 m. unfold search, search_gen. destruct scan; cbn [negb].
  - cbn [sr_files sr_urls sr_frags]. split; [|split].
    + intros f Hf. apply in_flat_map in Hf. destruct Hf as ([r ds] & Hin & Hf).
      destruct (repo_files_In _ _ _ _ _ _ _ Hf) as (Ha & Ht & d & Hd & Hft & Hm & E).
      exists r, ds, d. repeat split; auto.
    + intros p Hp. destruct (urls_fold_In strict c (map fst s) ([], []) p) as [H1 _].
      destruct (H1 Hp) as [[]|H]. exact H.
    + intros p Hp. destruct (urls_fold_In strict c (map fst s) ([], []) p) as [_ H2].
      destruct (H2 Hp) as [[]|H]. exact H.
  - cbn. split; [|split]; intros ? [].
Qed.

(** ---- non-interference: the answer is a function of the caller's own repositories ---- *)
Definition own (strict : bool) (c : tctx) (s : shard) : shard :=
  filter (fun rd => has_access strict c (r_tenant (fst rd))) s.

Lemma files_own : forall strict c lim1 m s,
  flat_map (repo_files strict c lim1 m) (own strict c s) = flat_map (repo_files strict c lim1 m) s.
Proof.
  intros strict c lim1 m s. unfold own. induction s as [|[r ds] s IH]; [reflexivity|].
  cbn [filter flat_map fst].
  destruct (has_access strict c (r_tenant r)) eqn:Ha.
  - cbn [flat_map]. now rewrite IH.
  - rewrite IH. replace (repo_files strict c lim1 m (r, ds)) with (@nil fmatch); [reflexivity|].
    unfold repo_files. rewrite Ha. cbn. now destruct (r_tomb r).
Qed.

Lemma urls_own : forall strict c s acc,
  fold_left (repo_urls true strict c) (map fst (own strict c s)) acc =
  fold_left (repo_urls true strict c) (map fst s) acc.
Proof.
  intros strict c s. unfold own. induction s as [|[r ds] s IH]; intros acc; [reflexivity|].
  cbn [filter map fst fold_left].
  destruct (has_access strict c (r_tenant r)) eqn:Ha.
  - cbn [map fst fold_left]. now rewrite IH.
  - rewrite IH. replace (repo_urls true strict c acc r) with acc; [reflexivity|].
    unfold repo_urls. now rewrite Ha.
Qed.

Lemma search_own : forall strict c s scan lim1 m,
  search strict c (own strict c s) scan lim1 m = search strict c s scan lim1 m.
Proof.
  intros. unfold search, search_gen. destruct scan; cbn [negb]; [|reflexivity].
  now rewrite files_own, urls_own.
Qed.

Lemma filter_filter : forall A (p q : A -> bool) l, filter p (filter q l) = filter (fun x => q x && p x) l.
Proof.
  intros A p q l. induction l as [|x l IH]; cbn; [reflexivity|].
  destruct (q x); cbn; [destruct (p x); now rewrite IH | exact IH].
Qed.

Lemma filter_ext_in' : forall A (p q : A -> bool) l, (forall x, In x l -> p x = q x) -> filter p l = filter q l.
Proof.
  intros A p q l. induction l as [|x l IH]; intros H; cbn; [reflexivity|].
  rewrite (H x (or_introl eq_refl)). rewrite IH; [reflexivity|]. intros y Hy. apply H. now right.
Qed.

Lemma list_entries_own : forall strict c s inc,
  list_entries strict c (own strict c s) inc = list_entries strict c s inc.
Proof.
  intros. unfold list_entries, own. rewrite filter_filter. apply filter_ext_in'. intros [r ds] _. cbn.
  destruct (has_access strict c (r_tenant r)); cbn; [reflexivity|]. now rewrite andb_false_r.
Qed.

Lemma rlist_own : forall strict c s lsimp scan m field,
  rlist strict c (own strict c s) lsimp scan m field = rlist strict c s lsimp scan m field.
Proof.
  intros. unfold rlist. destruct lsimp as [[|]|]; try reflexivity.
  - unfold list_include. now rewrite list_entries_own.
  - unfold list_include. rewrite search_own. now rewrite list_entries_own.
Qed.

(** ---- List: no leak (membership form) ---- *)
Lemma set_add_In : forall k m x, In x (set_add k m) -> x = k \/ In x m.
Proof.
  intros k m. induction m as [|k' m IH]; intros x H; cbn in H.
  - destruct H as [H|[]]; left; now symmetry.
  - destruct (N.ltb k k'); [destruct H as [H|H]; [left; now symmetry | right; exact H]|].
    destruct (N.eqb k k'); [right; exact H|].
    destruct H as [H|H]; [right; left; exact H|]. destruct (IH _ H); [now left | right; now right].
Qed.

Lemma rmap_fold_In : forall (inr : repo -> bool) (es : shard) acc x,
  In x (fold_left (fun acc rd => if inr (fst rd) then acc else set_add (r_id (fst rd)) acc) es acc) ->
  In x acc \/ exists rd, In rd es /\ x = r_id (fst rd).
Proof.
  intros inr es. induction es as [|rd es IH]; intros acc x H; cbn in H; [now left|].
  destruct (IH _ _ H) as [H'|(rd' & Hin & E)]; [|right; exists rd'; split; [now right | exact E]].
  destruct (inr (fst rd)); [now left|].
  destruct (set_add_In _ _ _ H'); [right; exists rd; split; [now left | assumption] | now left].
Qed.

Fixpoint docs_total (s : shard) : N :=
  match s with [] => 0%N | rd :: r => (N.of_nat (length (snd rd)) + docs_total r)%N end.

Lemma docs_fold : forall (es : shard) n,
  fold_left (fun n rd => (n + N.of_nat (length (snd rd)))%N) es n = (n + docs_total es)%N.
Proof.
  induction es as [|rd es IH]; intros n; cbn; [lia|]. rewrite IH. lia.
Qed.

Lemma docs_total_filter_le : forall (p : repo * list doc -> bool) s, (docs_total (filter p s) <= docs_total s)%N.
Proof.
  intros p s. induction s as [|rd s IH]; cbn; [lia|]. destruct (p rd); cbn; lia.
Qed.

Lemma list_entries_spec : forall strict c s inc rd,
  In rd (list_entries strict c s inc) -> In rd s /\ r_tomb (fst rd) = false /\ allowed strict c (fst rd) /\ inc (fst rd) = true.
Proof.
  intros strict c s inc rd H. unfold list_entries in H. apply filter_In in H. destruct H as [Hin Hb].
  apply andb_prop in Hb. destruct Hb as [Hb Hi]. apply andb_prop in Hb. destruct Hb as [Ht Ha].
  repeat split; auto. now destruct (r_tomb (fst rd)).
Qed.

Lemma rlist_no_leak : forall strict c s lsimp scan m field,
  let res := rlist strict c s lsimp scan m field in
  (forall n, In n (lr_repos res) ->
     exists r ds, In (r, ds) s /\ allowed strict c r /\ r_tomb r = false /\ n = r_name r) /\
  (forall i, In i (lr_map res) ->
     exists r ds, In (r, ds) s /\ allowed strict c r /\ r_tomb r = false /\ i = r_id r) /\
  (lr_docs res <= docs_total (own strict c s))%N.
Proof.
  intros strict c s lsimp scan m field res.
  assert (Hgen : forall inc,
     let es := list_entries strict c s inc in
     let in_repos (r : repo) := match field with FRepos => true | FReposMap => N.eqb (r_id r) 0 end in
     (forall n, In n (map (fun rd : repo * list doc => r_name (fst rd)) (filter (fun rd => in_repos (fst rd)) es)) ->
        exists r ds, In (r, ds) s /\ allowed strict c r /\ r_tomb r = false /\ n = r_name r) /\
     (forall i, In i (fold_left (fun acc (rd : repo * list doc) => if in_repos (fst rd) then acc else set_add (r_id (fst rd)) acc) es []) ->
        exists r ds, In (r, ds) s /\ allowed strict c r /\ r_tomb r = false /\ i = r_id r) /\
     (fold_left (fun n (rd : repo * list doc) => (n + N.of_nat (length (snd rd)))%N) es 0 <= docs_total (own strict c s))%N).
  { intros inc es in_repos. split; [|split].
    - intros n Hn. apply in_map_iff in Hn. destruct Hn as ([r ds] & E & Hin). apply filter_In in Hin.
      destruct Hin as [Hin _]. destruct (list_entries_spec _ _ _ _ _ Hin) as (H1 & H2 & H3 & _).
      exists r, ds. cbn in *. repeat split; auto.
    - intros i Hi. destruct (rmap_fold_In _ _ _ _ Hi) as [[]|([r ds] & Hin & E)].
      destruct (list_entries_spec _ _ _ _ _ Hin) as (H1 & H2 & H3 & _).
      exists r, ds. cbn in *. repeat split; auto.
    - rewrite docs_fold. cbn. subst es. rewrite <- list_entries_own. unfold list_entries.
      apply docs_total_filter_le. }
  subst res. unfold rlist. destruct lsimp as [[|]|].
  - exact (Hgen _).
  - cbn. split; [intros ? []|]. split; [intros ? []|]. apply N.le_0_l.
  - exact (Hgen _).
Qed.

(** ---- a request without tenant sees nothing ---- *)
Lemma own_none : forall s, own true CtxNone s = [].
Proof. induction s as [|rd s IH]; cbn; [reflexivity | exact IH]. Qed.

Lemma search_none_empty : forall s scan lim1 m, search true CtxNone s scan lim1 m = empty_sresult.
Proof.
  intros. rewrite <- search_own, own_none. unfold search, search_gen. now destruct scan.
Qed.

Lemma rlist_none_empty : forall s lsimp scan m field, rlist true CtxNone s lsimp scan m field = empty_lresult.
Proof.
  intros. rewrite <- rlist_own, own_none. unfold rlist. destruct lsimp as [[|]|]; try reflexivity.
Qed.

(** ---- the system context sees everything (= what a non-enforcing server returns) ---- *)
Lemma has_access_system : forall id, has_access true CtxSystem id = true.
Proof. reflexivity. Qed.

Lemma search_system_all : forall s scan lim1 m c', search true CtxSystem s scan lim1 m = search false c' s scan lim1 m.
Proof. reflexivity. Qed.

Lemma rlist_system_all : forall s lsimp scan m field c',
  rlist true CtxSystem s lsimp scan m field = rlist false c' s lsimp scan m field.
Proof. reflexivity. Qed.

Lemma system_search_complete : forall s m r ds d,
  In (r, ds) s -> In d ds -> r_tomb r = false -> d_ftomb d = false -> m r d = true ->
  In (mk_fm r d) (sr_files (search true CtxSystem s true false m)).
Proof.
  intros s m r ds d Hs Hd Ht Hf Hm. unfold search, search_gen. cbn [negb sr_files].
  apply in_flat_map. exists (r, ds). split; [exact Hs|].
  unfold repo_files. rewrite Ht. cbn. apply in_map. apply filter_In. split; [exact Hd|]. now rewrite Hf, Hm.
Qed.

Lemma system_list_complete : forall s scan m r ds,
  In (r, ds) s -> r_tomb r = false ->
  In (r_name r) (lr_repos (rlist true CtxSystem s (Some true) scan m FRepos)).
Proof.
  intros s scan m r ds Hs Ht. unfold rlist. cbn [lr_repos].
  apply in_map_iff. exists (r, ds). split; [reflexivity|]. apply filter_In. split; [|reflexivity].
  unfold list_entries. apply filter_In. split; [exact Hs|]. cbn. now rewrite Ht.
Qed.

(** ---- a tenant sees all of its own live documents (the filter removes nothing else) ---- *)
Lemma tenant_search_complete : forall t s m r ds d,
  In (r, ds) s -> In d ds -> r_tenant r = t -> r_tomb r = false -> d_ftomb d = false -> m r d = true ->
  In (mk_fm r d) (sr_files (search true (CtxTenant t) s true false m)).
Proof.
  intros t s m r ds d Hs Hd Hte Ht Hf Hm. unfold search, search_gen. cbn [negb sr_files].
  apply in_flat_map. exists (r, ds). split; [exact Hs|].
  unfold repo_files. rewrite Ht. cbn. rewrite Hte, Z.eqb_refl. cbn.
  apply in_map. apply filter_In. split; [exact Hd|]. now rewrite Hf, Hm.
Qed.

(** ---- aggregation over shards ---- *)
Lemma lookup_In : forall k m v, lookup k m = Some v -> In (k, v) m.
Proof.
  intros k m. induction m as [|[k' v'] m IH]; intros v H; cbn in H; [discriminate|].
  destruct (N.eqb k k') eqn:E.
  - apply N.eqb_eq in E. subst k'. injection H as <-. now left.
  - right. now apply IH.
Qed.

Lemma lookup_map_set : forall k0 k v m,
  lookup k0 (map_set k v m) = if N.eqb k0 k then Some v else lookup k0 m.
Proof.
  intros k0 k v m. induction m as [|[k' v'] m IH]; cbn.
  - destruct (N.eqb k0 k); reflexivity.
  - destruct (N.ltb k k') eqn:Hlt; [cbn; destruct (N.eqb k0 k); reflexivity|].
    destruct (N.eqb k k') eqn:Heq.
    + apply N.eqb_eq in Heq. subst k'. cbn. destruct (N.eqb k0 k); reflexivity.
    + cbn. rewrite IH. destruct (N.eqb k0 k) eqn:E0; [|reflexivity].
      apply N.eqb_eq in E0. subst k0. now rewrite Heq.
Qed.

Definition keyed (k : N) (m : list (N * N)) : Prop := exists v, lookup k m = Some v.

Lemma keyed_map_set : forall k0 k v m, keyed k0 m -> keyed k0 (map_set k v m).
Proof.
  intros k0 k v m [v0 H]. unfold keyed. rewrite lookup_map_set. destruct (N.eqb k0 k); eauto.
Qed.
Lemma keyed_map_set_new : forall k v m, keyed k (map_set k v m).
Proof. intros. unfold keyed. rewrite lookup_map_set, N.eqb_refl. eauto. Qed.

Lemma subs_fold_keyed : forall subs acc k,
  (keyed k (fst acc) -> keyed k (fst (fold_left (fun a s => add_repo a (sr_name s) (sr_url s) (sr_frag s)) subs acc))) /\
  (keyed k (snd acc) -> keyed k (snd (fold_left (fun a s => add_repo a (sr_name s) (sr_url s) (sr_frag s)) subs acc))).
Proof.
  induction subs as [|s subs IH]; intros acc k; cbn; [tauto|].
  destruct (IH (add_repo acc (sr_name s) (sr_url s) (sr_frag s)) k) as [I1 I2].
  split; intro H; [apply I1 | apply I2]; cbn; now apply keyed_map_set.
Qed.

Lemma subs_fold_keyed_sub : forall subs acc sb,
  In sb subs ->
  keyed (sr_name sb) (fst (fold_left (fun a s => add_repo a (sr_name s) (sr_url s) (sr_frag s)) subs acc)) /\
  keyed (sr_name sb) (snd (fold_left (fun a s => add_repo a (sr_name s) (sr_url s) (sr_frag s)) subs acc)).
Proof.
  induction subs as [|s subs IH]; intros acc sb Hin; [destruct Hin|].
  cbn [fold_left]. destruct Hin as [->|Hin]; [|now apply IH].
  destruct (subs_fold_keyed subs (add_repo acc (sr_name sb) (sr_url sb) (sr_frag sb)) (sr_name sb)) as [I1 I2].
  split; [apply I1 | apply I2]; cbn; apply keyed_map_set_new.
Qed.

Lemma repo_urls_keyed : forall strict c acc r k,
  (keyed k (fst acc) -> keyed k (fst (repo_urls true strict c acc r))) /\
  (keyed k (snd acc) -> keyed k (snd (repo_urls true strict c acc r))).
Proof.
  intros strict c acc r k. unfold repo_urls. cbn [andb].
  destruct (negb (has_access strict c (r_tenant r))); [tauto|].
  destruct (subs_fold_keyed (r_subs r) (add_repo acc (r_name r) (r_url r) (r_frag r)) k) as [I1 I2].
  split; intro H; [apply I1 | apply I2]; cbn; now apply keyed_map_set.
Qed.

Lemma repo_urls_keyed_new : forall strict c acc r k,
  allowed strict c r -> In k (repo_names r) ->
  keyed k (fst (repo_urls true strict c acc r)) /\ keyed k (snd (repo_urls true strict c acc r)).
Proof.
  intros strict c acc r k Ha Hk. unfold repo_urls, allowed in *. rewrite Ha. cbn [andb negb].
  destruct Hk as [<-|Hk].
  - destruct (subs_fold_keyed (r_subs r) (add_repo acc (r_name r) (r_url r) (r_frag r)) (r_name r)) as [I1 I2].
    split; [apply I1 | apply I2]; cbn; apply keyed_map_set_new.
  - apply in_map_iff in Hk. destruct Hk as (sb & <- & Hsb). now apply subs_fold_keyed_sub.
Qed.

Lemma urls_fold_keyed : forall strict c rs acc k,
  (keyed k (fst acc) -> keyed k (fst (fold_left (repo_urls true strict c) rs acc))) /\
  (keyed k (snd acc) -> keyed k (snd (fold_left (repo_urls true strict c) rs acc))).
Proof.
  intros strict c rs. induction rs as [|r rs IH]; intros acc k; cbn; [tauto|].
  destruct (IH (repo_urls true strict c acc r) k) as [I1 I2].
  destruct (repo_urls_keyed strict c acc r k) as [R1 R2]. tauto.
Qed.

Lemma urls_fold_keyed_new : forall strict c rs acc r k,
  In r rs -> allowed strict c r -> In k (repo_names r) ->
  keyed k (fst (fold_left (repo_urls true strict c) rs acc)) /\
  keyed k (snd (fold_left (repo_urls true strict c) rs acc)).
Proof.
  intros strict c rs. induction rs as [|r0 rs IH]; intros acc r k Hin Ha Hk; [destruct Hin|].
  cbn [fold_left]. destruct Hin as [->|Hin]; [|now apply (IH _ r)].
  destruct (repo_urls_keyed_new strict c acc r k Ha Hk) as [K1 K2].
  destruct (urls_fold_keyed strict c rs (repo_urls true strict c acc r) k) as [I1 I2]. tauto.
Qed.

(** every repository / sub-repository name carried by a file match has an entry in both maps *)
Lemma search_files_keyed : forall strict c s scan lim1 m f,
  let res := search strict c s scan lim1 m in
  In f (sr_files res) ->
  (keyed (fm_repo f) (sr_urls res) /\ keyed (fm_repo f) (sr_frags res)) /\
  (fm_subname f <> 0%N -> keyed (fm_subname f) (sr_urls res) /\ keyed (fm_subname f) (sr_frags res)).
Proof.
  intros strict c s scan lim1 m f res Hf.
  destruct (search_no_leak strict c s scan lim1 m) as (H1 & _ & _).
  destruct (H1 f Hf) as (r & ds & d & Hs & Ha & _ & _ & _ & _ & E).
  subst res. unfold search, search_gen in *. destruct scan; cbn [negb] in *; [|destruct Hf].
  cbn [sr_urls sr_frags]. assert (Hr : In r (map fst s)) by (apply in_map_iff; exists (r, ds); auto).
  subst f. cbn [fm_repo fm_subname mk_fm]. split.
  - apply (urls_fold_keyed_new strict c (map fst s) ([], []) r (r_name r) Hr Ha). now left.
  - intro Hne. destruct (sub_name_cases r (d_sub d)) as [E0|Hin]; [contradiction|].
    apply (urls_fold_keyed_new strict c (map fst s) ([], []) r _ Hr Ha). now right.
Qed.

Lemma group_by_id_concat : forall fs, concat (group_by_id fs) = fs.
Proof.
  induction fs as [|f fs IH]; [reflexivity|]. cbn [group_by_id].
  destruct (group_by_id fs) as [|[|f' g] gs] eqn:E; cbn in *.
  - now rewrite <- IH.
  - now rewrite <- IH.
  - destruct (N.eqb (fm_repoid f) (fm_repoid f')); cbn; now rewrite <- IH.
Qed.

Lemma group_In : forall fs g f, In g (group_by_id fs) -> In f g -> In f fs.
Proof.
  intros fs g f Hg Hf. rewrite <- (group_by_id_concat fs). apply in_concat. eauto.
Qed.

Lemma event_map_In : forall full name g p,
  In p (event_map full name g) -> p = (name, lookup0 name full) \/ In p full.
Proof.
  intros full name g. unfold event_map.
  assert (Hgen : forall acc, (forall p, In p acc -> p = (name, lookup0 name full) \/ In p full) ->
            forall p, In p (fold_left (fun acc f => let n := fm_subname f in
               if N.eqb n 0 then acc else if has_key n acc then acc
               else match lookup n full with Some u => map_set n u acc | None => acc end) g acc) ->
            p = (name, lookup0 name full) \/ In p full).
  { induction g as [|f g IH]; intros acc Hacc p Hp; cbn in Hp; [now apply Hacc|].
    refine (IH _ _ p Hp). intros q Hq. cbv zeta in Hq.
    destruct (N.eqb (fm_subname f) 0); [now apply Hacc|].
    destruct (has_key (fm_subname f) acc); [now apply Hacc|].
    destruct (lookup (fm_subname f) full) eqn:El; [|now apply Hacc].
    destruct (map_set_In _ _ _ _ Hq) as [->|Hq']; [right; now apply lookup_In | now apply Hacc]. }
  apply Hgen. intros p [<-|[]]. now left.
Qed.

(** events of one shard result: files and map entries come from the shard result *)
Lemma send_by_repo_In : forall r ev,
  (forall f, In f (sr_files r) -> keyed (fm_repo f) (sr_urls r) /\ keyed (fm_repo f) (sr_frags r)) ->
  In ev (send_by_repo r) ->
  (forall f, In f (sr_files ev) -> In f (sr_files r)) /\
  (forall p, In p (sr_urls ev) -> In p (sr_urls r)) /\
  (forall p, In p (sr_frags ev) -> In p (sr_frags r)).
Proof.
  intros r ev Hk Hev. unfold send_by_repo in Hev.
  destruct (sr_files r) as [|f0 fs] eqn:Efs.
  - destruct Hev as [<-|[]]. rewrite Efs. repeat split; auto.
  - destruct (Nat.leb (length (sr_urls r)) 1).
    + destruct Hev as [<-|[]]. rewrite Efs. repeat split; auto.
    + apply in_map_iff in Hev. destruct Hev as (g & <- & Hg). destruct g as [|f g].
      * cbn. repeat split; intros ? [].
      * cbn [sr_files sr_urls sr_frags].
        assert (Hf : In f (f0 :: fs)) by (eapply group_In; [exact Hg | now left]).
        destruct (Hk f Hf) as [[vu Hu] [vf Hfr]].
        split; [|split].
        -- intros x Hx. eapply group_In; eauto.
        -- intros p Hp. destruct (event_map_In _ _ _ _ Hp) as [->|H]; [|exact H].
           unfold lookup0. rewrite Hu. now apply lookup_In.
        -- intros p Hp. destruct (event_map_In _ _ _ _ Hp) as [->|H]; [|exact H].
           unfold lookup0. rewrite Hfr. now apply lookup_In.
Qed.

Lemma collect_fold_In : forall evs acc,
  let res := fold_left collect evs acc in
  (forall f, In f (sr_files res) -> In f (sr_files acc) \/ exists r, In r evs /\ In f (sr_files r)) /\
  (forall p, In p (sr_urls res) -> In p (sr_urls acc) \/ exists r, In r evs /\ In p (sr_urls r)) /\
  (forall p, In p (sr_frags res) -> In p (sr_frags acc) \/ exists r, In r evs /\ In p (sr_frags r)).
Proof.
  induction evs as [|r evs IH]; intros acc; cbn.
  - repeat split; intros; now left.
  - destruct (IH (collect acc r)) as (I1 & I2 & I3). cbn in I1, I2, I3.
    assert (C : (forall f, In f (sr_files (collect acc r)) -> In f (sr_files acc) \/ In f (sr_files r)) /\
                (forall p, In p (sr_urls (collect acc r)) -> In p (sr_urls acc) \/ In p (sr_urls r)) /\
                (forall p, In p (sr_frags (collect acc r)) -> In p (sr_frags acc) \/ In p (sr_frags r))).
    { unfold collect. destruct (sr_files r) as [|f0 fs] eqn:E; [repeat split; intros; now left|].
      cbn. split; [|split].
      - intros f Hf. apply in_app_or in Hf. tauto.
      - intros p Hp. now apply merge_maps_In.
      - intros p Hp. now apply merge_maps_In. }
    destruct C as (C1 & C2 & C3). split; [|split].
    + intros f Hf. destruct (I1 f Hf) as [H|(r' & Hr & H)]; [|right; exists r'; auto].
      destruct (C1 f H); [now left | right; exists r; auto].
    + intros p Hp. destruct (I2 p Hp) as [H|(r' & Hr & H)]; [|right; exists r'; auto].
      destruct (C2 p H); [now left | right; exists r; auto].
    + intros p Hp. destruct (I3 p Hp) as [H|(r' & Hr & H)]; [|right; exists r'; auto].
      destruct (C3 p H); [now left | right; exists r; auto].
Qed.

Lemma agg_In : forall strict c (ss : list (shard * (bool * (repo -> doc -> bool)))),
  let res := sharded_search strict c ss in
  (forall f, In f (sr_files res) -> exists s scan m, In (s, (scan, m)) ss /\ In f (sr_files (search strict c s scan false m))) /\
  (forall p, In p (sr_urls res) -> exists s scan m, In (s, (scan, m)) ss /\ In p (sr_urls (search strict c s scan false m))) /\
  (forall p, In p (sr_frags res) -> exists s scan m, In (s, (scan, m)) ss /\ In p (sr_frags (search strict c s scan false m))).
Proof.
  intros strict c ss. unfold sharded_search, agg_search.
  set (rs := map (fun sq => search strict c (fst sq) (fst (snd sq)) false (snd (snd sq))) ss).
  destruct (collect_fold_In (flat_map send_by_repo rs) empty_sresult) as (A1 & A2 & A3).
  assert (Hev : forall ev, In ev (flat_map send_by_repo rs) ->
            exists s scan m, In (s, (scan, m)) ss /\
              (forall f, In f (sr_files ev) -> In f (sr_files (search strict c s scan false m))) /\
              (forall p, In p (sr_urls ev) -> In p (sr_urls (search strict c s scan false m))) /\
              (forall p, In p (sr_frags ev) -> In p (sr_frags (search strict c s scan false m)))).
  { intros ev Hin. apply in_flat_map in Hin. destruct Hin as (r & Hr & Hin).
    subst rs. apply in_map_iff in Hr. destruct Hr as ([s [scan m]] & <- & Hss). cbn [fst snd] in Hin.
    exists s, scan, m. split; [exact Hss|]. apply send_by_repo_In; [|exact Hin].
    intros f Hf. apply (search_files_keyed strict c s scan false m f Hf). }
  split; [|split].
  - intros f Hf. destruct (A1 f Hf) as [[]|(ev & Hin & H)].
    destruct (Hev ev Hin) as (s & scan & m & Hss & E1 & _). exists s, scan, m. auto.
  - intros p Hp. destruct (A2 p Hp) as [[]|(ev & Hin & H)].
    destruct (Hev ev Hin) as (s & scan & m & Hss & _ & E2 & _). exists s, scan, m. auto.
  - intros p Hp. destruct (A3 p Hp) as [[]|(ev & Hin & H)].
    destruct (Hev ev Hin) as (s & scan & m & Hss & _ & _ & E3). exists s, scan, m. auto.
Qed.

Lemma sharded_no_leak : forall strict c ss,
  let res := sharded_search strict c ss in
  (forall f, In f (sr_files res) ->
     exists s scan m r ds d, In (s, (scan, m)) ss /\ In (r, ds) s /\ allowed strict c r /\ r_tomb r = false /\
                             In d ds /\ d_ftomb d = false /\ m r d = true /\ f = mk_fm r d) /\
  (forall p, In p (sr_urls res) ->
     exists s sm r, In (s, sm) ss /\ In r (map fst s) /\ allowed strict c r /\ In p (repo_url_pairs r)) /\
  (forall p, In p (sr_frags res) ->
     exists s sm r, In (s, sm) ss /\ In r (map fst s) /\ allowed strict c r /\ In p (repo_frag_pairs r)).
Proof.
  intros strict c ss. destruct (agg_In strict c ss) as (A1 & A2 & A3). split; [|split].
  - intros f Hf. destruct (A1 f Hf) as (s & scan & m & Hss & Hin).
    destruct (search_no_leak strict c s scan false m) as (S1 & _ & _).
    destruct (S1 f Hin) as (r & ds & d & H). exists s, scan, m, r, ds, d. tauto.
  - intros p Hp. destruct (A2 p Hp) as (s & scan & m & Hss & Hin).
    destruct (search_no_leak strict c s scan false m) as (_ & S2 & _).
    destruct (S2 p Hin) as (r & H). exists s, (scan, m), r. tauto.
  - intros p Hp. destruct (A3 p Hp) as (s & scan & m & Hss & Hin).
    destruct (search_no_leak strict c s scan false m) as (_ & _ & S3).
    destruct (S3 p Hin) as (r & H). exists s, (scan, m), r. tauto.
Qed.

(** ---- sharded List ---- *)
Lemma set_add_fold_In : forall l acc x, In x (fold_left (fun a n => set_add n a) l acc) -> In x acc \/ In x l.
Proof.
  induction l as [|n l IH]; intros acc x H; cbn in H; [now left|].
  destruct (IH _ _ H) as [H'|H']; [|right; now right].
  destruct (set_add_In _ _ _ H'); [right; left; now symmetry | now left].
Qed.

Fixpoint own_docs (strict : bool) (c : tctx) (ls : list (shard * (option bool * bool * (repo -> doc -> bool)))) : N :=
  match ls with [] => 0%N | sq :: r => (docs_total (own strict c (fst sq)) + own_docs strict c r)%N end.

Lemma sharded_rlist_no_leak : forall strict c field ls,
  let res := sharded_rlist strict c field ls in
  (forall n, In n (sl_names res) ->
     exists s q r ds, In (s, q) ls /\ In (r, ds) s /\ allowed strict c r /\ r_tomb r = false /\ n = r_name r) /\
  (forall i, In i (sl_ids res) ->
     exists s q r ds, In (s, q) ls /\ In (r, ds) s /\ allowed strict c r /\ r_tomb r = false /\ i = r_id r) /\
  (sl_docs res <= own_docs strict c ls)%N.
Proof.
  intros strict c field ls. unfold sharded_rlist.
  assert (G : forall acc,
    let res := fold_left (fun acc sq =>
               let '(s, (lsimp, scan, m)) := sq in
               let r := rlist strict c s lsimp scan m field in
               {| sl_names := fold_left (fun a n => set_add n a) (lr_repos r) (sl_names acc);
                  sl_ids := fold_left (fun a n => set_add n a) (lr_map r) (sl_ids acc);
                  sl_docs := (sl_docs acc + lr_docs r)%N |}) ls acc in
    (forall n, In n (sl_names res) -> In n (sl_names acc) \/
       exists s q r ds, In (s, q) ls /\ In (r, ds) s /\ allowed strict c r /\ r_tomb r = false /\ n = r_name r) /\
    (forall i, In i (sl_ids res) -> In i (sl_ids acc) \/
       exists s q r ds, In (s, q) ls /\ In (r, ds) s /\ allowed strict c r /\ r_tomb r = false /\ i = r_id r) /\
    (sl_docs res <= sl_docs acc + own_docs strict c ls)%N).
  { induction ls as [|[s [[lsimp scan] m]] ls IH]; intros acc; cbn [fold_left own_docs].
    - split; [intros; now left|]. split; [intros; now left | cbn; lia].
    - destruct (rlist_no_leak strict c s lsimp scan m field) as (R1 & R2 & R3). cbn zeta in R1, R2, R3.
      set (acc' := {| sl_names := fold_left (fun a n => set_add n a) (lr_repos (rlist strict c s lsimp scan m field)) (sl_names acc);
                      sl_ids := fold_left (fun a n => set_add n a) (lr_map (rlist strict c s lsimp scan m field)) (sl_ids acc);
                      sl_docs := (sl_docs acc + lr_docs (rlist strict c s lsimp scan m field))%N |}).
      destruct (IH acc') as (I1 & I2 & I3). cbn zeta in I1, I2, I3. split; [|split].
      + intros n Hn. destruct (I1 n Hn) as [H|(s0 & q0 & r & ds & Hin & H)].
        * cbn in H. destruct (set_add_fold_In _ _ _ H) as [H'|H']; [now left|].
          right. destruct (R1 n H') as (r & ds & Hr). exists s, (lsimp, scan, m), r, ds. split; [now left | exact Hr].
        * right. exists s0, q0, r, ds. split; [now right | exact H].
      + intros i Hi. destruct (I2 i Hi) as [H|(s0 & q0 & r & ds & Hin & H)].
        * cbn in H. destruct (set_add_fold_In _ _ _ H) as [H'|H']; [now left|].
          right. destruct (R2 i H') as (r & ds & Hr). exists s, (lsimp, scan, m), r, ds. split; [now left | exact Hr].
        * right. exists s0, q0, r, ds. split; [now right | exact H].
      + cbn [fst]. cbn in I3. lia. }
  destruct (G {| sl_names := []; sl_ids := []; sl_docs := 0 |}) as (G1 & G2 & G3). cbn zeta in G1, G2, G3.
  split; [|split].
  - intros n Hn. destruct (G1 n Hn) as [[]|H]. exact H.
  - intros i Hi. destruct (G2 i Hi) as [[]|H]. exact H.
  - cbn in G3. lia.
Qed.

(** ---- the code before the repair leaks ---- *)
Definition leak_repo1 : repo := {| r_name := 1; r_id := 101; r_tenant := 1; r_tomb := false; r_url := 11; r_frag := 21; r_subs := [] |}.
Definition leak_repo2 : repo := {| r_name := 2; r_id := 102; r_tenant := 2; r_tomb := false; r_url := 12; r_frag := 22;
                                   r_subs := [ {| sr_name := 3; sr_url := 13; sr_frag := 23 |} ] |}.
Definition leak_shard : shard :=
  [ (leak_repo1, [ {| d_file := 1001; d_ftomb := false; d_sub := 0 |} ]);
    (leak_repo2, [ {| d_file := 1002; d_ftomb := false; d_sub := 1 |} ]) ].

Lemma unfixed_leaks :
  exists c s m p,
    In p (sr_urls (search_unfixed true c s true false m)) /\
    ~ exists r, In r (map fst s) /\ allowed true c r /\ In p (repo_url_pairs r).
Proof.
  exists (CtxTenant 1), leak_shard, (fun _ _ => true), (2%N, 12%N). split.
  - vm_compute. tauto.
  - intros (r & Hr & Ha & Hp). cbn in Hr. destruct Hr as [<-|[<-|[]]].
    + cbn in Hp. destruct Hp as [E|[]]. discriminate E.
    + vm_compute in Ha. discriminate Ha.
Qed.
