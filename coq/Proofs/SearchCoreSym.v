(** C01: symbol queries.  The operational two-pointer walk of symbolSubstrMatchTree.prepare ([sym_trim]) over sorted,
    non-overlapping sections and ascending candidates is the filter "starts and ends inside one section"; together with
    the verification of the candidates this is "the pattern occurs in the text of one section" (the reference semantics
    of Symbol{Substring}). *)
From ZV Require Import Lib.Base Model.SearchCore Proofs.SearchCoreText.
From Coq Require Import Sorting.Sorted ZifyBool.

Definition in_secs (n : nat) (secs : list (nat * nat)) (o : nat) : bool :=
  existsb (fun sec => (fst sec <=? o) && (o + n <=? snd sec)) secs.

Lemma sym_trim_nil : forall n secs, sym_trim n secs [] = [].
Proof. intros n secs. destruct secs as [|[s e] r]; reflexivity. Qed.

Lemma in_secs_later_false : forall n e r o, Forall (fun x => e <= fst x) r -> o < e -> in_secs n r o = false.
Proof.
  intros n e r o Hf Ho. unfold in_secs. apply Bool.not_true_iff_false. intro H.
  apply existsb_exists in H. destruct H as [[s' e'] [Hin H]]. rewrite Forall_forall in Hf. specialize (Hf _ Hin). simpl in *. lia.
Qed.

Theorem sym_trim_filter : forall n len secs cur, 1 <= n -> secs_ok len secs -> inc cur ->
  sym_trim n secs cur = filter (in_secs n secs) cur.
Proof.
  intros n len secs. induction secs as [|[s e] r IH]; intros cur Hn Hs Hc.
  - simpl. induction cur as [|o cur IHc]; [reflexivity|]. simpl. apply IHc. inversion Hc; auto.
  - destruct Hs as [Hse [Hel [Hf Hr]]].
    induction cur as [|o cur IHc]; [reflexivity|].
    inversion Hc as [|? ? Hc' Hlt]; subst.
    cbn [sym_trim]. fold (sym_trim n r (o :: cur)).
    destruct (e <=? o) eqn:E1.
    + (* every remaining candidate starts at or behind the end of this section *)
      rewrite (IH (o :: cur) Hn Hr Hc). apply filter_ext_in. intros x Hx.
      assert (Hox : o <= x). { destruct Hx as [<-|Hx]; [lia|]. rewrite Forall_forall in Hlt. specialize (Hlt _ Hx). lia. }
      unfold in_secs. simpl. destruct ((s <=? x) && (x + n <=? e)) eqn:E2; [lia|reflexivity].
    + assert (Hrest : in_secs n r o = false) by (apply (in_secs_later_false n e r o Hf); lia).
      change (filter (in_secs n ((s, e) :: r)) (o :: cur)) with
        (if in_secs n ((s, e) :: r) o then o :: filter (in_secs n ((s, e) :: r)) cur else filter (in_secs n ((s, e) :: r)) cur).
      assert (Hhere : in_secs n ((s, e) :: r) o = (s <=? o) && (o + n <=? e)).
      { unfold in_secs. simpl. fold (in_secs n r o). rewrite Hrest. apply orb_false_r. }
      rewrite Hhere. specialize (IHc Hc'). cbn [sym_trim] in IHc.
      destruct (o <? s) eqn:E3.
      * replace (s <=? o) with false by lia. simpl. exact IHc.
      * replace (s <=? o) with true by lia. simpl. destruct (o + n <=? e); [f_equal|]; exact IHc.
Qed.

Section Sym.
Variable tolower : N -> N.

Lemma skipn_firstn_comm' : forall (A : Type) (m k : nat) (l : list A), skipn k (firstn m l) = firstn (m - k) (skipn k l).
Proof. intros. apply skipn_firstn_comm. Qed.

Lemma skipn_skipn' : forall (A : Type) (a b : nat) (l : list A), skipn a (skipn b l) = skipn (a + b) l.
Proof.
  intros A a b. induction b as [|b IH]; intro l; [rewrite Nat.add_0_r; reflexivity|].
  destruct l as [|x l]; [rewrite !skipn_nil; reflexivity|]. rewrite Nat.add_succ_r. simpl. apply IH.
Qed.

(** an occurrence inside the text of a section is an occurrence in the document that starts and ends inside the section *)
Lemma occurs_at_slice : forall cs p t s e o', 1 <= length p -> s <= e -> e <= length t ->
  occurs_at tolower cs p (slice t (s, e)) o' = occurs_at tolower cs p t (s + o') && (o' + length p <=? e - s).
Proof.
  intros cs p t s e o' Hp Hse Hel. unfold occurs_at, slice. simpl fst. simpl snd.
  rewrite skipn_firstn_comm'. rewrite skipn_skipn'. rewrite firstn_firstn.
  replace (o' + s) with (s + o') by lia.
  destruct (o' + length p <=? e - s) eqn:E.
  - rewrite Nat.min_l by lia. rewrite andb_true_r. reflexivity.
  - rewrite andb_false_r.
    assert (Hlen : length (firstn (Nat.min (length p) (e - s - o')) (skipn (s + o') t)) < length p).
    { rewrite firstn_length. lia. }
    destruct (length (firstn (Nat.min (length p) (e - s - o')) (skipn (s + o') t)) =? length p) eqn:E2; [lia|reflexivity].
Qed.

Lemma slice_length : forall (t : list N) s e, s <= e -> e <= length t -> length (slice t (s, e)) = e - s.
Proof. intros t s e H1 H2. unfold slice. simpl. rewrite firstn_length, skipn_length. lia. Qed.

Lemma contains_slice : forall cs p t s e, 1 <= length p -> s <= e -> e <= length t ->
  contains tolower cs p (slice t (s, e)) =
  existsb (fun o => occurs_at tolower cs p t o && ((s <=? o) && (o + length p <=? e))) (seq 0 (S (length t))).
Proof.
  intros cs p t s e Hp Hse Hel. unfold contains. apply Bool.eq_iff_eq_true. rewrite !existsb_exists. split.
  - intros [o' [Hin H]]. rewrite occurs_at_slice in H by auto. apply andb_true_iff in H. destruct H as [H1 H2].
    exists (s + o'). split; [apply in_seq; lia|]. rewrite H1. simpl. lia.
  - intros [o [Hin H]]. apply andb_true_iff in H. destruct H as [H1 H2].
    exists (o - s). split; [apply in_seq; rewrite slice_length by auto; lia|].
    rewrite occurs_at_slice by auto. replace (s + (o - s)) with o by lia. rewrite H1. simpl. lia.
Qed.

(** symbolSubstrMatchTree (candidates = the occurrences, C01_substring_candidates_exact; trimmed by the walk) decides
    "the pattern occurs in the text of one section" *)
Theorem sym_trim_spec : forall cs p t secs, 1 <= length p -> secs_ok (length t) secs ->
  match sym_trim (length p) secs (occ_offsets tolower cs p t) with [] => false | _ => true end =
  existsb (fun sec => contains tolower cs p (slice t sec)) secs.
Proof.
  intros cs p t secs Hp Hs.
  rewrite (sym_trim_filter (length p) (length t) secs _ Hp Hs) by (unfold occ_offsets; apply inc_filter; apply inc_seq).
  rewrite <- existsb_filter_nonnil. unfold occ_offsets.
  apply Bool.eq_iff_eq_true. rewrite !existsb_exists. split.
  - intros [o [Hin H]]. apply filter_In in Hin. destruct Hin as [Hin Ho]. unfold in_secs in H. apply existsb_exists in H.
    destruct H as [[s e] [Hsec H]]. exists (s, e). split; [exact Hsec|].
    assert (Hb : s <= e /\ e <= length t).
    { clear - Hs Hsec. induction secs as [|[s0 e0] r IH]; [contradiction|]. destruct Hs as [A [B [_ D]]].
      destruct Hsec as [E|Hsec]; [inversion E; subst; auto | apply IH; auto]. }
    rewrite contains_slice by tauto. apply existsb_exists. exists o. split; [exact Hin|]. rewrite Ho. simpl in H. exact H.
  - intros [[s e] [Hsec H]].
    assert (Hb : s <= e /\ e <= length t).
    { clear - Hs Hsec. induction secs as [|[s0 e0] r IH]; [contradiction|]. destruct Hs as [A [B [_ D]]].
      destruct Hsec as [E|Hsec]; [inversion E; subst; auto | apply IH; auto]. }
    rewrite contains_slice in H by tauto. apply existsb_exists in H. destruct H as [o [Hin H]].
    apply andb_true_iff in H. destruct H as [H1 H2].
    exists o. split; [apply filter_In; auto|]. unfold in_secs. apply existsb_exists. exists (s, e). auto.
Qed.

Lemma secs_okb_ok : forall len secs, secs_okb len secs = true -> secs_ok len secs.
Proof.
  induction secs as [|[s e] r IH]; intro H; [exact I|]. simpl in H.
  apply andb_true_iff in H. destruct H as [H H4]. apply andb_true_iff in H. destruct H as [H H3].
  apply andb_true_iff in H. destruct H as [H1 H2]. simpl.
  split; [lia|]. split; [lia|]. split; [|auto].
  apply Forall_forall. intros x Hx. rewrite forallb_forall in H3. specialize (H3 x Hx). lia.
Qed.
End Sym.
