(** C34, partial failure: when IndexGitRepo fails for some repositories (sync -f returns the joined error, E_INDEX)
    the others still converge and nothing foreign is left. *)
From ZV Require Import Lib.Base Model.LocalSync Proofs.LocalSync Proofs.LocalSyncConv.

Definition settled_if_indexable (w : world_fp) (s : spec) (cur : inventory) : Prop :=
  fp_of w (sp_source s) <> None -> settled w s cur.

Lemma index_repos_converges_partial w pruned all : forall rest cur done,
  NoDup (map sp_name (done ++ rest)) -> incl rest all ->
  wf cur -> (forall sh, In sh cur -> belongs all sh) -> (forall s, In s done -> settled_if_indexable w s cur) ->
  let cur' := apply_ops cur (ir_ops (index_repos Force w pruned rest cur)) in
  wf cur' /\ (forall sh, In sh cur' -> belongs all sh) /\ (forall s, In s (done ++ rest) -> settled_if_indexable w s cur').
Proof.
  induction rest as [|s rest IH]; intros cur done Hnd Hincl Hwf Hbel Hdone.
  - cbn. rewrite app_nil_r. auto.
  - assert (Hnd' : NoDup (map sp_name ((done ++ [s]) ++ rest))) by (rewrite <- app_assoc; exact Hnd).
    assert (Hincl' : incl rest all) by (intros x Hx; apply Hincl; right; exact Hx).
    assert (Hs_all : In s all) by (apply Hincl; left; reflexivity).
    assert (Hdiff : forall t, In t done -> sp_name t <> sp_name s).
    { intros t Ht E. rewrite map_app in Hnd. cbn [map] in Hnd. apply NoDup_remove_2 in Hnd. apply Hnd.
      apply in_app_iff. left. rewrite <- E. apply in_map. exact Ht. }
    cbn [index_repos].
    destruct (fp_of w (sp_source s)) as [fp|] eqn:Efp.
    2:{ assert (Hdone1 : forall t, In t (done ++ [s]) -> settled_if_indexable w t cur).
        { intros t Ht. apply in_app_iff in Ht as [Ht|[<-|[]]]; [apply Hdone; exact Ht|]. intros Hne. congruence. }
        specialize (IH cur (done ++ [s]) Hnd' Hincl' Hwf Hbel Hdone1).
        destruct (index_repos Force w pruned rest cur) as [[ops out] e]. cbn in IH |- *.
        rewrite <- app_assoc in IH. exact IH. }
    destruct (needs_index (sp_name s) fp cur) eqn:Eni.
    + set (o := OpBuild (sp_name s) (sp_source s) fp) in *.
      assert (Hshape := build_shape cur (sp_name s) (sp_source s) fp Hwf). fold o in Hshape.
      assert (Hwf1 : wf (apply_op cur o)) by (rewrite Hshape; apply wf_build; exact Hwf).
      assert (Hbel1 : forall sh, In sh (apply_op cur o) -> belongs all sh).
      { intros sh Hin. rewrite Hshape in Hin. apply in_app_iff in Hin as [Hin|[<-|[]]].
        - apply other_repo_in in Hin as [Hin _]. apply Hbel. exact Hin.
        - split; [reflexivity|]. exists s. repeat split; auto. }
      assert (Hdone1 : forall t, In t (done ++ [s]) -> settled_if_indexable w t (apply_op cur o)).
      { intros t Ht Hfp. rewrite Hshape. apply in_app_iff in Ht as [Ht|[<-|[]]].
        - destruct (Hdone t Ht Hfp) as [H0 Hfpt]. split.
          + apply has_file_in in H0 as (sh & Hin & Hf). apply has_file_in. exists sh. split; [|exact Hf].
            apply in_app_iff. left. apply other_repo_in. split; [exact Hin|].
            rewrite <- (wf_name cur Hwf sh Hin), Hf. cbn. apply Hdiff. exact Ht.
          + intros sh Hin Hrepo. apply in_app_iff in Hin as [Hin|[<-|[]]].
            * apply other_repo_in in Hin as [Hin _]. apply Hfpt; assumption.
            * cbn in Hrepo. symmetry in Hrepo. apply Hdiff in Ht. contradiction.
        - split.
          + apply has_file_in. exists (fresh_shard (sp_name s) (sp_source s) fp). split; [apply in_app_iff; right; left; reflexivity|reflexivity].
          + intros sh Hin Hrepo. apply in_app_iff in Hin as [Hin|[<-|[]]]; [|exact Efp].
            apply other_repo_in in Hin as [_ Hne]. contradiction. }
      specialize (IH (apply_op cur o) (done ++ [s]) Hnd' Hincl' Hwf1 Hbel1 Hdone1).
      destruct (index_repos Force w pruned rest (apply_op cur o)) as [[ops out] e]. cbn in IH |- *.
      rewrite <- app_assoc in IH. exact IH.
    + assert (Hdone1 : forall t, In t (done ++ [s]) -> settled_if_indexable w t cur).
      { intros t Ht. apply in_app_iff in Ht as [Ht|[<-|[]]]; [apply Hdone; exact Ht|]. intros _.
        unfold needs_index in Eni. destruct (find_file (sp_name s, 0) cur) as [sh0|] eqn:Ef; [|discriminate].
        apply negb_false_iff, andb_true_iff in Eni as [E1 E2]. apply ls_str_eqb_eq in E1. apply N.eqb_eq in E2.
        apply find_file_some in Ef as [Hin0 Hf0]. split.
        - apply has_file_in. exists sh0. auto.
        - intros sh Hin Hrepo. destruct (wf_uniform cur Hwf sh sh0 Hin Hin0) as [_ Hfp]; [congruence|].
          rewrite Hfp, E2. exact Efp. }
      specialize (IH cur (done ++ [s]) Hnd' Hincl' Hwf Hbel Hdone1).
      destruct (index_repos Force w pruned rest cur) as [[ops out] e]. cbn in IH |- *.
      rewrite <- app_assoc in IH. exact IH.
Qed.

(** Whatever the status: if discovery and the inventory succeed, sync -f leaves a well-formed index in which every
    shard belongs to a discovered repository (nothing foreign survives) and every discovered repository that can
    be indexed has its up-to-date first shard — also when other repositories failed (status E_INDEX). *)
Theorem sync_force_partial : forall tree w roots inv specs,
  wf inv -> discover tree roots = Ok specs -> existsb sh_bad inv = false ->
  let inv' := apply_ops inv (r_ops (run_sync Force tree w roots inv)) in
  wf inv' /\
  (forall sh, In sh inv' -> exists s, In s specs /\ sh_repo sh = sp_name s /\
       normalize_source (sh_source sh) = normalize_source (sp_source s) /\ sh_bad sh = false) /\
  (forall s fp, In s specs -> fp_of w (sp_source s) = Some fp ->
       has_file (sp_name s, 0) inv' = true /\ forall sh, In sh inv' -> sh_repo sh = sp_name s -> sh_fp sh = fp).
Proof.
  intros tree w roots inv specs Hwf Ed Eb. unfold run_sync. rewrite Ed. unfold read_inventory. rewrite Eb.
  cbn [apply_removals].
  set (acts := plan_prune specs inv). set (rops := map (fun a => OpRemoveShard (a_file a)) acts).
  assert (Hp : apply_ops inv rops = filter (kept specs) inv) by (apply prune_result; apply (wf_nodup inv Hwf)).
  rewrite Hp.
  assert (Hwfp : wf (filter (kept specs) inv)).
  { apply wf_filter; [|exact Hwf]. intros a b Ha Hb Hab. apply kept_dep; [exact Hab|].
    apply (wf_uniform inv Hwf a b Ha Hb Hab). }
  assert (Hbelp : forall sh, In sh (filter (kept specs) inv) -> belongs specs sh).
  { intros sh Hin. apply filter_In in Hin as [Hin Hk]. apply kept_belongs; [exact Hk|].
    destruct (sh_bad sh) eqn:Ebad; [|reflexivity].
    assert (existsb sh_bad inv = true) by (apply existsb_exists; exists sh; auto). congruence. }
  pose proof (index_repos_converges_partial w (map a_file acts) specs specs (filter (kept specs) inv) []
                (discover_nodup _ _ _ Ed) (incl_refl _) Hwfp Hbelp
                (fun s (H : In s []) => match H with end)) as Hc.
  unfold ir_ops in Hc. cbn zeta in Hc.
  destruct (index_repos Force w (map a_file acts) specs (filter (kept specs) inv)) as [[iops iout] failed].
  cbn [fst] in Hc. destruct Hc as (Hw & Hb & Hs).
  assert (Hfinal : apply_ops inv (lock_ops Force ++ rops ++ iops) = apply_ops (filter (kept specs) inv) iops)
    by (rewrite apply_ops_app, lock_ops_id, apply_ops_app, Hp; reflexivity).
  cbn zeta. destruct failed; cbn [r_ops]; rewrite Hfinal; (split; [exact Hw|]); split.
  1,3: intros sh Hin; destruct (Hb sh Hin) as (Hgood & s & Hsin & Hrepo & Hsrc); exists s; auto.
  all: intros s fp Hsin Hfp; assert (Hne : fp_of w (sp_source s) <> None) by congruence;
       destruct (Hs s Hsin Hne) as [H0 Hall]; split; [exact H0|];
       intros sh Hin Hrepo; specialize (Hall sh Hin Hrepo); congruence.
Qed.
