(** C03 — fillContentChunkMatches on content candidates in ANY order: the `sort.IsSorted` / `sort.Sort(sortByOffsetSlice)`
    guard makes the result that of the sorted list. *)
From ZV Require Import Lib.Base Lib.GoSearch Lib.RuneCount Model.Lines Model.Ranges Proofs.LinesBasic Proofs.RuneCountProofs
  Proofs.LinesMatch Proofs.LinesChunk Proofs.RangesGather.
From Coq Require Import ZifyBool ZifyNat Sorting.Sorted Sorting.Permutation.

Theorem fill_content_chunk_matches_any_order : forall c ctx ms,
  Forall (fun m => c_fn m = false) ms -> Forall (chunk_cand_ok c) ms ->
  let ms' := if is_sorted_by cand_less ms then ms else sort_cands ms in
  let cs := chunk_candidates (newlines_of c) ctx ms' in
  Permutation ms' ms /\ is_sorted_by cand_less ms' = true /\
  fill_content_chunk_matches (newlines_of c) c ctx ms = Ok (map (chunk_spec c ctx) cs) /\
  Forall (chunk_inv c) cs /\ separated_fwd ctx cs /\ flat_map ch_cands cs = ms'.
Proof.
  intros c ctx ms Hfn Hok ms' cs.
  assert (Hp : Permutation ms' ms).
  { unfold ms'. destruct (is_sorted_by cand_less ms); [apply Permutation_refl|apply sort_cands_perm]. }
  assert (Hs : is_sorted_by cand_less ms' = true).
  { unfold ms'. destruct (is_sorted_by cand_less ms) eqn:E; [exact E|].
    apply sorted_le_key_is_sorted_by, sort_cands_sorted. }
  assert (Hfn' : Forall (fun m => c_fn m = false) ms').
  { rewrite Forall_forall in *. intros x Hx. apply Hfn. eapply Permutation_in; eauto. }
  assert (Hok' : Forall (chunk_cand_ok c) ms').
  { rewrite Forall_forall in *. intros x Hx. apply Hok. eapply Permutation_in; eauto. }
  destruct (fill_content_chunk_matches_spec c ctx ms' Hfn' Hs Hok') as [E [A [B C]]].
  split; [exact Hp|]. split; [exact Hs|]. split; [|auto].
  unfold fill_content_chunk_matches in *. rewrite Hs in E. fold ms'. exact E.
Qed.
