(** Proofs about Model/Delta.v (C13): a full build establishes, and a delta build preserves, the invariant
    "for every branch b and path p the live documents at p with b in their mask are exactly [head_b(p)]". *)
From ZV Require Import Lib.Base Model.Delta.

Lemma memN_In x l : memN x l = true <-> In x l.
Proof.
  unfold memN. rewrite existsb_exists. split.
  - intros (y & Hy & E). apply N.eqb_eq in E. subst. exact Hy.
  - intro H. exists x. split; [exact H | apply N.eqb_refl].
Qed.
Lemma memN_false x l : memN x l = false <-> ~ In x l.
Proof.
  split.
  - intros H Hin. apply memN_In in Hin. congruence.
  - intro H. destruct (memN x l) eqn:E; [apply memN_In in E; contradiction | reflexivity].
Qed.
Lemma memN_app x l m : memN x (l ++ m) = memN x l || memN x m.
Proof. unfold memN. apply existsb_app. Qed.

Lemma In_nodupN x l : In x (nodupN l) <-> In x l.
Proof.
  induction l as [|a l IH]; [reflexivity|]. cbn [nodupN]. destruct (memN a l) eqn:E.
  - rewrite IH. split; [intro H; right; exact H | intros [H|H]; [subst; apply memN_In; exact E | exact H]].
  - cbn [In]. rewrite IH. reflexivity.
Qed.
Lemma nodupN_NoDup l : NoDup (nodupN l).
Proof.
  induction l as [|a l IH]; [constructor|]. cbn [nodupN]. destruct (memN a l) eqn:E; [exact IH|].
  constructor; [|exact IH]. rewrite In_nodupN. apply memN_false. exact E.
Qed.
Lemma memN_nodupN x l : memN x (nodupN l) = memN x l.
Proof.
  destruct (memN x l) eqn:E.
  - apply memN_In. apply In_nodupN. apply memN_In. exact E.
  - apply memN_false. rewrite In_nodupN. apply memN_false. exact E.
Qed.

Lemma memb_seq b n : memb b (seq 0 n) = (b <? n).
Proof.
  unfold memb. destruct (Nat.ltb_spec b n) as [H|H].
  - apply existsb_exists. exists b. split; [apply in_seq; lia | apply Nat.eqb_refl].
  - destruct (existsb (Nat.eqb b) (seq 0 n)) eqn:E; [|reflexivity].
    apply existsb_exists in E. destruct E as (y & Hy & E). apply Nat.eqb_eq in E. subst. apply in_seq in Hy. lia.
Qed.
Lemma memb_filter b g l : memb b (filter g l) = memb b l && g b.
Proof.
  unfold memb. induction l as [|a l IH]; [reflexivity|]. cbn [filter existsb].
  destruct (g a) eqn:Ga; cbn [existsb]; rewrite IH.
  - destruct (Nat.eqb_spec b a) as [E|E]; cbn [orb]; [|reflexivity]. subst. rewrite Ga. reflexivity.
  - destruct (Nat.eqb_spec b a) as [E|E]; cbn [orb]; [|reflexivity]. subst. rewrite Ga. rewrite andb_false_r. reflexivity.
Qed.

(** ---- filtering a duplicate-free list by equality *)
Lemma filter_eq_NoDup o l :
  NoDup l ->
  filter (fun bl => opt_eqb o (Some bl)) l = match o with Some x => if memN x l then [x] else [] | None => [] end.
Proof.
  destruct o as [x|]; [|intros _; induction l as [|a l IH]; [reflexivity | cbn; exact IH]].
  induction 1 as [|a l Hn Hnd IH]; [reflexivity|].
  cbn [filter]. change (opt_eqb (Some x) (Some a)) with (N.eqb x a).
  cbn [memN existsb]. fold (memN x l). rewrite IH.
  destruct (N.eqb_spec x a) as [E|E]; cbn [orb].
  - subst a. apply memN_false in Hn. rewrite Hn. reflexivity.
  - reflexivity.
Qed.

Lemma filter_flat_map' {A B} (f : B -> bool) (g : A -> list B) l :
  filter f (flat_map g l) = flat_map (fun x => filter f (g x)) l.
Proof. induction l as [|a l IH]; [reflexivity|]. cbn. rewrite filter_app, IH. reflexivity. Qed.

(** ---- the documents generated for one build, seen from branch b at path p *)
Definition key_docs (nb : nat) (cur : snap) (cond : nat -> path -> bool) (p : path) : list doc :=
  flat_map (fun bl => match key_mask nb cur cond p bl with [] => [] | m => [mkDoc p bl m] end) (blobs_at nb cur p).

Lemma key_docs_path nb cur cond p d : In d (key_docs nb cur cond p) -> d_path d = p.
Proof.
  unfold key_docs. intro H. apply in_flat_map in H. destruct H as (bl & _ & H).
  destruct (key_mask nb cur cond p bl); [contradiction|]. destruct H as [H|[]]. subst d. reflexivity.
Qed.

Lemma filter_other_path nb cur cond q p b :
  q <> p -> filter (fun d => N.eqb (d_path d) p && memb b (d_mask d)) (key_docs nb cur cond q) = [].
Proof.
  intro Hne. assert (H : forall d, In d (key_docs nb cur cond q) -> N.eqb (d_path d) p && memb b (d_mask d) = false).
  { intros d Hd. apply key_docs_path in Hd. rewrite Hd. apply N.eqb_neq in Hne. rewrite Hne. reflexivity. }
  induction (key_docs nb cur cond q) as [|d l IH]; [reflexivity|]. cbn [filter].
  rewrite (H d) by (left; reflexivity). apply IH. intros d' Hd'. apply H. right. exact Hd'.
Qed.

Lemma filter_gen_docs nb cur cands cond p b :
  NoDup cands ->
  filter (fun d => N.eqb (d_path d) p && memb b (d_mask d)) (gen_docs nb cur cands cond) =
  if memN p cands then filter (fun d => N.eqb (d_path d) p && memb b (d_mask d)) (key_docs nb cur cond p) else [].
Proof.
  intro Hnd. unfold gen_docs. fold (key_docs nb cur cond).
  change (flat_map (fun p0 => flat_map (fun bl => match key_mask nb cur cond p0 bl with [] => [] | m => [mkDoc p0 bl m] end) (blobs_at nb cur p0)) cands)
    with (flat_map (key_docs nb cur cond) cands).
  rewrite filter_flat_map'.
  induction Hnd as [|a l Hn Hnd IH]; [reflexivity|].
  cbn [flat_map memN existsb]. fold (memN p l). rewrite IH.
  destruct (N.eqb_spec p a) as [E|E]; cbn [orb].
  - subst a. apply memN_false in Hn. rewrite Hn. rewrite app_nil_r. reflexivity.
  - rewrite filter_other_path by congruence. reflexivity.
Qed.

Lemma key_docs_blobs nb cur cond p b :
  map d_blob (filter (fun d => N.eqb (d_path d) p && memb b (d_mask d)) (key_docs nb cur cond p)) =
  filter (fun bl => memb b (key_mask nb cur cond p bl)) (blobs_at nb cur p).
Proof.
  unfold key_docs. induction (blobs_at nb cur p) as [|bl l IH]; [reflexivity|].
  cbn [flat_map filter]. rewrite filter_app, map_app, IH.
  destruct (key_mask nb cur cond p bl) as [|m0 m] eqn:E.
  - reflexivity.
  - cbn [filter d_path d_mask]. rewrite N.eqb_refl. cbn [andb].
    destruct (memb b (m0 :: m)); reflexivity.
Qed.

Lemma memb_key_mask nb cur cond p bl b :
  memb b (key_mask nb cur cond p bl) = (b <? nb) && (opt_eqb (lookup (tree_of cur b) p) (Some bl) && cond b p).
Proof. unfold key_mask. rewrite memb_filter, memb_seq. reflexivity. Qed.

Lemma blobs_at_NoDup nb s p : NoDup (blobs_at nb s p).
Proof. apply nodupN_NoDup. Qed.
Lemma blobs_at_In nb s p b bl : b < nb -> lookup (tree_of s b) p = Some bl -> In bl (blobs_at nb s p).
Proof.
  intros Hb Hl. unfold blobs_at. apply In_nodupN. apply in_flat_map. exists b. split; [apply in_seq; lia|].
  rewrite Hl. left. reflexivity.
Qed.

Lemma view_gen_layer nb cur cands cond b p :
  NoDup cands -> b < nb ->
  view_layer b p (mkLayer (gen_docs nb cur cands cond) []) =
  if memN p cands && cond b p then head_view cur b p else [].
Proof.
  intros Hnd Hb. unfold view_layer. cbn [l_tombs l_docs memN existsb].
  rewrite filter_gen_docs by exact Hnd.
  destruct (memN p cands); [|reflexivity]. cbn [andb].
  rewrite key_docs_blobs.
  erewrite filter_ext; [|intro bl; apply memb_key_mask].
  apply Nat.ltb_lt in Hb. rewrite Hb. cbn [andb].
  destruct (cond b p).
  - erewrite filter_ext; [|intro bl; apply andb_true_r].
    rewrite filter_eq_NoDup by apply blobs_at_NoDup. unfold head_view.
    destruct (lookup (tree_of cur b) p) as [x|] eqn:E; [|reflexivity].
    assert (Hin : memN x (blobs_at nb cur p) = true).
    { apply memN_In. eapply blobs_at_In; [apply Nat.ltb_lt; exact Hb | exact E]. }
    rewrite Hin. reflexivity.
  - erewrite filter_ext; [|intro bl; apply andb_false_r].
    induction (blobs_at nb cur p) as [|a l IH]; [reflexivity | exact IH].
Qed.

(** ---- paths *)
Lemma lookup_Some_In t p bl : lookup t p = Some bl -> In p (map fst t).
Proof.
  induction t as [|[q x] t IH]; [discriminate|]. cbn. destruct (N.eqb_spec q p) as [E|E].
  - intros _. left. exact E.
  - intro H. right. apply IH. exact H.
Qed.
Lemma all_paths_In nb s b p bl : b < nb -> lookup (tree_of s b) p = Some bl -> In p (all_paths nb s).
Proof.
  intros Hb Hl. unfold all_paths. apply In_nodupN. apply in_flat_map. exists b. split; [apply in_seq; lia|].
  eapply lookup_Some_In. exact Hl.
Qed.

(** ---- the invariant *)
Definition Inv (nb : nat) (st : istate) : Prop :=
  forall b p, b < nb -> view (st_stack st) b p = head_view (st_last st) b p.

Lemma full_establishes_Inv nb cur : Inv nb (full_build nb cur).
Proof.
  intros b p Hb. unfold full_build, view. cbn [st_stack st_last flat_map]. rewrite app_nil_r.
  unfold full_docs. rewrite view_gen_layer; [|apply nodupN_NoDup | exact Hb]. rewrite andb_true_r.
  destruct (memN p (all_paths nb cur)) eqn:E; [reflexivity|].
  unfold head_view. destruct (lookup (tree_of cur b) p) as [x|] eqn:El; [|reflexivity].
  exfalso. apply memN_false in E. apply E. eapply all_paths_In; eassumption.
Qed.

Lemma view_add_tombs c stack b p :
  view (map (add_tombs c) stack) b p = if memN p c then [] else view stack b p.
Proof.
  unfold view. induction stack as [|l s IH]; [destruct (memN p c); reflexivity|].
  cbn [map flat_map]. rewrite IH. unfold view_layer at 1. cbn [add_tombs l_tombs l_docs].
  rewrite memN_nodupN, memN_app. unfold view_layer at 2.
  destruct (memN p c); [rewrite orb_true_r; reflexivity|]. rewrite orb_false_r. reflexivity.
Qed.

Lemma delta_changed_sub nb last cur p : memN p (delta_changed nb last cur) = true -> memN p (delta_cands nb last cur) = true.
Proof.
  intro H. apply memN_In in H. unfold delta_changed in H. apply filter_In in H. destruct H as [H _]. apply memN_In. exact H.
Qed.

Lemma delta_preserves_Inv nb st cur : Inv nb st -> Inv nb (delta_build nb st cur).
Proof.
  intros HI b p Hb. unfold delta_build. cbn [st_stack st_last].
  set (C := delta_changed nb (st_last st) cur).
  set (D := delta_docs nb (st_last st) cur).
  unfold view. rewrite flat_map_app. fold (view (map (add_tombs C) (st_stack st)) b p).
  rewrite view_add_tombs, (HI b p Hb).
  assert (Hnew : flat_map (view_layer b p) (match D with [] => [] | _ => [mkLayer D []] end) = view_layer b p (mkLayer D [])).
  { destruct D; [reflexivity | cbn; rewrite app_nil_r; reflexivity]. }
  rewrite Hnew. subst D. unfold delta_docs. rewrite view_gen_layer; [|apply nodupN_NoDup | exact Hb].
  fold C.
  destruct (memN p C) eqn:EC.
  - rewrite (delta_changed_sub _ _ _ _ EC). rewrite orb_true_r. reflexivity.
  - rewrite orb_false_r. unfold changed_in.
    destruct (opt_eqb (lookup (tree_of (st_last st) b) p) (lookup (tree_of cur b) p)) eqn:Eq; cbn [negb].
    + (* unchanged in b *)
      rewrite andb_false_r, app_nil_r. unfold head_view.
      destruct (lookup (tree_of (st_last st) b) p) as [x|], (lookup (tree_of cur b) p) as [y|]; cbn in Eq; try discriminate; try reflexivity.
      apply N.eqb_eq in Eq. subst. reflexivity.
    + (* changed in b but not modified/deleted anywhere: a pure addition in b *)
      rewrite andb_true_r.
      assert (Hlast : lookup (tree_of (st_last st) b) p = None).
      { destruct (lookup (tree_of (st_last st) b) p) as [x|] eqn:El; [|reflexivity]. exfalso.
        apply memN_false in EC. apply EC. unfold C, delta_changed. apply filter_In. split.
        - unfold delta_cands. apply In_nodupN. apply in_or_app. left. eapply all_paths_In; eassumption.
        - apply existsb_exists. exists b. split; [apply in_seq; lia|]. rewrite El. cbn [is_some andb].
          unfold changed_in. rewrite El, Eq. reflexivity. }
      unfold head_view at 1. rewrite Hlast. cbn [app].
      destruct (lookup (tree_of cur b) p) as [y|] eqn:Ec.
      * assert (Hin : memN p (delta_cands nb (st_last st) cur) = true).
        { apply memN_In. unfold delta_cands. apply In_nodupN. apply in_or_app. right. eapply all_paths_In; eassumption. }
        rewrite Hin. reflexivity.
      * rewrite Hlast in Eq. discriminate.
Qed.

Lemma init_Inv nb : Inv nb init_state.
Proof. intros b p _. unfold head_view, tree_of. cbn. destruct b; reflexivity. Qed.

Lemma step_Inv nb st r : Inv nb st -> Inv nb (run_step nb st r).
Proof.
  intro HI. unfold run_step. destruct (snd r).
  - apply full_establishes_Inv.
  - destruct (st_stack st); [apply full_establishes_Inv | apply delta_preserves_Inv; exact HI].
Qed.

Lemma run_all_Inv nb runs : Inv nb (run_all nb runs).
Proof.
  unfold run_all. assert (H : forall st, Inv nb st -> Inv nb (fold_left (run_step nb) runs st)).
  { induction runs as [|r runs IH]; intros st HI; [exact HI|]. cbn. apply IH. apply step_Inv. exact HI. }
  apply H. apply init_Inv.
Qed.

Lemma step_last nb st r : st_last (run_step nb st r) = fst r.
Proof. unfold run_step. destruct (snd r); [reflexivity|]. destruct (st_stack st); reflexivity. Qed.
Lemma run_all_last nb runs s k : st_last (run_all nb (runs ++ [(s, k)])) = s.
Proof. unfold run_all. rewrite fold_left_app. cbn. apply step_last. Qed.
