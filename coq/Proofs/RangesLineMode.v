(** C02 — single regexp, LINE mode, end to end on the model: gatherMatches, then fillMatches (breakMatchesOnNewlines +
    fillContentMatches): the reported fragments cover exactly the bytes of the engine's matches minus newline bytes. *)
From ZV Require Import Lib.Base Lib.GoSearch Lib.RuneCount Model.Lines Model.Ranges
  Proofs.LinesBasic Proofs.RuneCountProofs Proofs.LinesMatch Proofs.LinesChunk Proofs.LinesBreakCover Proofs.RangesGather.
From Coq Require Import ZifyBool ZifyNat Sorting.Sorted.

(** byte p lies in a fragment of a reported line match *)
Definition frag_covered (res : list linematch) (p : nat) : Prop :=
  exists lm f, In lm res /\ In f (lm_frags lm) /\ f_off f <= p < f_off f + f_len f.

Definition key_covered (l : list (nat * nat)) (p : nat) : Prop := exists k, In k l /\ fst k <= p < fst k + snd k.

Lemma covered_keys : forall b p, covered b p <-> key_covered (map cand_key b) p.
Proof.
  intros b p. unfold covered, key_covered. split.
  - intros [x [Hx Hp]]. exists (cand_key x). split; [now apply in_map|]. unfold cand_key, c_end in *. simpl. lia.
  - intros [k [Hk Hp]]. apply in_map_iff in Hk. destruct Hk as [x [<- Hx]]. exists x. split; [exact Hx|].
    unfold cand_key, c_end in *. simpl in Hp. lia.
Qed.

Lemma frag_covered_keys : forall res p,
  frag_covered res p <-> key_covered (flat_map (fun lm => map frag_cand (lm_frags lm)) res) p.
Proof.
  intros res p. unfold frag_covered, key_covered. split.
  - intros [lm [f [Hlm [Hf Hp]]]]. exists (frag_cand f). split; [|unfold frag_cand; simpl; lia].
    apply in_flat_map. exists lm. split; auto. now apply in_map.
  - intros [k [Hk Hp]]. apply in_flat_map in Hk. destruct Hk as [lm [Hlm Hk]].
    apply in_map_iff in Hk. destruct Hk as [f [<- Hf]]. exists lm, f. unfold frag_cand in Hp. simpl in Hp. auto.
Qed.

Lemma filter_content_all : forall ms, Forall (fun m => c_fn m = false) ms -> filter is_content ms = ms.
Proof.
  induction ms as [|m r IH]; intros H; [reflexivity|]. inversion H as [|? ? Hm Hr]; subst.
  simpl. unfold is_content at 1. rewrite Hm. simpl. now rewrite IH.
Qed.

Theorem regexp_line_mode : forall nl c name ctx ms, (0 <= ctx)%Z ->
  ms <> [] -> engine_matches ms -> Forall (fun m => c_end m <= length c) ms ->
  exists res, fill_matches (newlines_of c) c name ctx (gather nl ms) = Ok res /\
    Forall (lm_ok c ctx) res /\
    (forall p, frag_covered res p <-> (covered ms p /\ nth_error c p <> Some 10%N)).
Proof.
  intros nl c name ctx ms Hctx Hne [Hfn Hs] Hb.
  rewrite (regexp_matches_kept nl ms Hne (conj Hfn Hs)).
  assert (Hd : disjoint_sorted ms).
  { clear -Hs. induction Hs as [|a l Hl IH Ha]; constructor; auto.
    eapply Forall_impl; [|exact Ha]. intros b [_ H]. exact H. }
  unfold fill_matches. rewrite (filter_content_all ms Hfn).
  destruct ms as [|m0 ms0] eqn:Ems; [congruence|]. rewrite <- Ems in *.
  destruct (break_matches_full c ms Hb Hd) as [b [Eb [Fb [Sb Cb]]]].
  rewrite Eb. cbn [obind]. unfold fill_content_matches.
  destruct (fill_lines_correct c ctx Hctx (length b) b) as [res [Er [R1 [_ [_ R4]]]]]; auto.
  { eapply Forall_impl; [|exact Fb]. intros x [P _]. exact P. }
  { apply disjoint_off_sorted; auto. }
  exists res. split; [exact Er|]. split; [exact R1|].
  intros p. rewrite frag_covered_keys, R4, <- covered_keys. apply Cb.
Qed.

(** any query (any mix of atoms): in line mode the fragments cover exactly the bytes of the kept content ranges minus
    newline bytes; every LineMatch satisfies [lm_ok] *)
Theorem line_mode_cover : forall nl c name ctx cands, (0 <= ctx)%Z ->
  Forall (fun m => c_end m <= length c) cands ->
  filter is_content (gather nl cands) <> [] ->
  exists res, fill_matches (newlines_of c) c name ctx (gather nl cands) = Ok res /\
    Forall (lm_ok c ctx) res /\
    (forall p, frag_covered res p <->
               (covered (filter is_content (gather nl cands)) p /\ nth_error c p <> Some 10%N)).
Proof.
  intros nl c name ctx cands Hctx Hb Hne.
  destruct (gather_content_disjoint nl cands) as [_ Hd].
  assert (Hcne : cands <> []).
  { intros ->. apply Hne. reflexivity. }
  assert (Hbk : Forall (fun m => c_end m <= length c) (filter is_content (gather nl cands))).
  { destruct (gather_spec nl cands Hcne) as [Hi _]. rewrite Forall_forall in *.
    intros x Hx. apply filter_In in Hx. apply Hb, Hi, Hx. }
  unfold fill_matches.
  destruct (filter is_content (gather nl cands)) as [|m0 ms0] eqn:Ems; [congruence|]. rewrite <- Ems in *.
  set (ms := filter is_content (gather nl cands)) in *.
  destruct (break_matches_full c ms Hbk Hd) as [b [Eb [Fb [Sb Cb]]]].
  rewrite Eb. cbn [obind]. unfold fill_content_matches.
  destruct (fill_lines_correct c ctx Hctx (length b) b) as [res [Er [R1 [_ [_ R4]]]]]; auto.
  { eapply Forall_impl; [|exact Fb]. intros x [P _]. exact P. }
  { apply disjoint_off_sorted; auto. }
  exists res. split; [exact Er|]. split; [exact R1|].
  intros p. rewrite frag_covered_keys, R4, <- covered_keys. apply Cb.
Qed.

(** ---- CHUNK mode end to end on the model: gatherMatches, then fillChunkMatches.  Under the hypothesis of the C03 chunk
    theorem (kept content ranges in bounds, starting and ending on rune boundaries of their lines) the Ranges of the
    reported chunks are, in order, exactly the kept content ranges with C03's locations ([range_spec]: byte offsets
    c_off / c_end, their lines, rune columns) — nothing is split, dropped or added. *)
Theorem chunk_mode_ranges : forall nl c name ctx cands, (0 <= ctx)%Z ->
  filter is_content (gather nl cands) <> [] ->
  Forall (chunk_cand_ok c) (filter is_content (gather nl cands)) ->
  exists res, fill_chunk_matches (newlines_of c) c name ctx (gather nl cands) = Ok res /\
    flat_map cm_ranges res = map (range_spec c) (filter is_content (gather nl cands)) /\
    Forall (fun cm => cm_fn cm = false) res.
Proof.
  intros nl c name ctx cands Hctx Hne Hok.
  assert (Hcne : cands <> []) by (intros ->; apply Hne; reflexivity).
  destruct (gather_spec nl cands Hcne) as [_ [Hs _]]. cbv zeta in Hs.
  set (ms := filter is_content (gather nl cands)) in *.
  assert (Hfn : Forall (fun m => c_fn m = false) ms).
  { rewrite Forall_forall. intros x Hx. apply filter_In in Hx. destruct Hx as [_ Hx].
    unfold is_content in Hx. now destruct (c_fn x). }
  assert (Hsorted : is_sorted_by cand_less ms = true).
  { apply sorted_le_key_is_sorted_by. apply StronglySorted_filter. exact Hs. }
  destruct (fill_content_chunk_matches_spec c ctx ms Hfn Hsorted Hok) as [E [_ [_ Hflat]]].
  unfold fill_chunk_matches. fold ms.
  destruct ms as [|m0 ms0] eqn:Ems; [congruence|]. rewrite <- Ems in *.
  rewrite E. eexists. split; [reflexivity|]. split.
  - rewrite <- Hflat at 2. clear.
    induction (chunk_candidates (newlines_of c) ctx ms) as [|ch r IH]; [reflexivity|].
    cbn [map flat_map]. rewrite IH, map_app. reflexivity.
  - rewrite Forall_map. rewrite Forall_forall. intros ch _. reflexivity.
Qed.
